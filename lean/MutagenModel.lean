import MutagenModel.Model.Basic
import MutagenModel.Model.FileM
import MutagenModel.Model.FileOps
import MutagenModel.Proofs.FileOps
import MutagenModel.Props.C11
import MutagenModel.Props.C14
import MutagenModel.Props.C15
import MutagenModel.Props.C18
