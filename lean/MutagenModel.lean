import MutagenModel.Model.Basic
import MutagenModel.Model.FileM
import MutagenModel.Model.FileOps
import MutagenModel.Proofs.FileOps
import MutagenModel.Props.C11
