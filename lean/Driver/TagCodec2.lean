/- Driver/TagCodec2.lean — MP4 ilst item / ASF attribute record codec commands (C01, `tagc2`) -/
import MutagenModel.Model.Mp4Tags
import MutagenModel.Model.AsfAttr
import Driver.Util
namespace Driver
open Mutagen

def splitList2 (s : String) : List String :=
  if s == "" || s == "_" then [] else s.splitOn ","

/-- version:flags:hexpayload,... -/
def parseDatas (s : String) : List Mp4Tags.Data :=
  (splitList2 s).filterMap fun t =>
    match t.splitOn ":" with
    | [v, f, p] => some { version := v.toNat?.getD 0, flags := f.toNat?.getD 0, payload := parseHexField p }
    | _ => none

def showDatas (l : List Mp4Tags.Data) : String :=
  if l.isEmpty then "_" else ",".intercalate (l.map fun d => s!"{d.version}:{d.flags}:{hexField d.payload}")

/-- language:stream:hexname:type:hexdata,... -/
def parseAttrs (s : String) : List AsfAttr.Attr :=
  (splitList2 s).filterMap fun t =>
    match t.splitOn ":" with
    | [l, st, n, ty, d] => some { language := l.toNat?.getD 0, stream := st.toNat?.getD 0, name := parseHexField n,
                                  typ := ty.toNat?.getD 0, data := parseHexField d }
    | _ => none

def showAttrs (l : List AsfAttr.Attr) : String :=
  if l.isEmpty then "_" else ",".intercalate (l.map fun a =>
    s!"{a.language}:{a.stream}:{hexField a.name}:{a.typ}:{hexField a.data}")

def tagc2Op (a : Args) : String :=
  match a.str "op" with
  | "ping" => "ok pong"
  | "mp4enc" => s!"ok v={hexField (Mp4Tags.encodeItem (a.bytes "name") (parseDatas (a.str "datas")))}"
  | "mp4dec" =>
    match Mp4Tags.decodeItem (a.bytes "data") with
    | some (name, ds, rest) => s!"ok name={hexField name} datas={showDatas ds} rest={hexField rest}"
    | none => "err value"
  | "mp4ffenc" =>
    s!"ok v={hexField (Mp4Tags.encodeFreeform (a.bytes "mean") (a.bytes "name") (parseDatas (a.str "datas")))}"
  | "mp4ffdec" =>
    match Mp4Tags.decodeFreeform (a.bytes "data") with
    | some (mean, name, ds, rest) => s!"ok mean={hexField mean} name={hexField name} datas={showDatas ds} rest={hexField rest}"
    | none => "err value"
  | "mp4int" =>
    match Mp4Tags.renderInt (a.int "v") (a.nat "min" 1) with
    | some b => s!"ok v={hexField b}"
    | none => "err value"
  | "mp4intdec" =>
    match Mp4Tags.parseInt (a.bytes "data") with
    | some v => s!"ok v={v}"
    | none => "err value"
  | "mp4pair" => s!"ok v={hexField (Mp4Tags.renderPair (a.nat "track") (a.nat "total") (a.nat "trailing" 1 == 1))}"
  | "mp4pairdec" =>
    match Mp4Tags.parsePair (a.bytes "data") with
    | some (t, n) => s!"ok track={t} total={n}"
    | none => "err value"
  | "asfecd" => s!"ok v={hexField (AsfAttr.encodeECD (parseAttrs (a.str "attrs")))}"
  | "asfecddec" =>
    match AsfAttr.decodeECD (a.bytes "data") with
    | some as => s!"ok attrs={showAttrs as}"
    | none => "err value"
  | "asfml" => s!"ok v={hexField (AsfAttr.encodeML (parseAttrs (a.str "attrs")))}"
  | "asfmldec" =>
    match AsfAttr.decodeML (a.bytes "data") with
    | some as => s!"ok attrs={showAttrs as}"
    | none => "err value"
  | "asftext" => s!"ok v={hexField (AsfAttr.renderText (natList (a.str "cps" "-")))}"
  | "asftextdec" =>
    match AsfAttr.parseText (a.bytes "data") with
    | some cs => s!"ok cps={showNatList cs}"
    | none => "err unicode"
  | "asfuint" => s!"ok v={hexField (AsfAttr.renderUInt (a.nat "w" 4) (a.nat "v"))}"
  | "asfbool" => s!"ok v={hexField (AsfAttr.renderBool (a.nat "v" == 1) (a.nat "dword" 1 == 1))}"
  | _ => "bad-op"

end Driver
