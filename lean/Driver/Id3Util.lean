/- Driver/Id3Util.lean — BitPaddedInt and unsynch commands -/
import MutagenModel.Model.Id3Util
import Driver.Util
namespace Driver
open Mutagen

def showExcept {α} (r : Except PyErr α) (f : α → String) : String :=
  match r with
  | .ok a => s!"ok v={f a}"
  | .error e => s!"err {e.name}"

def bpOp (a : Args) : String :=
  let bits := a.nat "bits" 7
  let be := a.nat "be" 1 == 1
  match a.str "op" with
  | "tostr" => showExcept (bpToStr (a.int "v") bits be (a.int "width" 4) (a.nat "mw" 4)) hexField
  | "frombytes" => s!"ok v={bpFromBytes bits be (a.bytes "data")}"
  | "fromint" => showExcept (bpFromInt bits (a.int "v")) toString
  | "padbytes" => showExcept (bpValidPaddingBytes bits (a.bytes "data")) (fun b => if b then "1" else "0")
  | "padint" => showExcept (bpValidPaddingInt bits (a.int "v")) (fun b => if b then "1" else "0")
  | _ => "bad-op"

def unsOp (a : Args) : String :=
  match a.str "op" with
  | "enc" => s!"ok v={hexField (unsynchEncode (a.bytes "data"))}"
  | "dec" => showExcept (unsynchDecode (a.bytes "data")) hexField
  | "nosync" => s!"ok v={if noSync false (a.bytes "data") then 1 else 0}"
  | _ => "bad-op"

end Driver
