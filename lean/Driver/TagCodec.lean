/- Driver/TagCodec.lean — Vorbis comment / APEv2 / UTF-8 codec commands (C01) -/
import MutagenModel.Model.Utf8
import MutagenModel.Model.Vorbis
import MutagenModel.Model.Ape
import MutagenModel.Model.TagOrder
import Driver.Util
namespace Driver
open Mutagen

def splitList (s : String) : List String :=
  if s == "" || s == "_" then [] else s.splitOn ","

def parseKV (s : String) : List (Bytes × Bytes) :=
  (splitList s).filterMap fun t =>
    match t.splitOn ":" with
    | [k, v] => some (parseHexField k, parseHexField v)
    | _ => none

def showKV (l : List (Bytes × Bytes)) : String :=
  if l.isEmpty then "_" else ",".intercalate (l.map fun (k, v) => s!"{hexField k}:{hexField v}")

def parseItems (s : String) : List Ape.Item :=
  (splitList s).filterMap fun t =>
    match t.splitOn ":" with
    | [k, kind, v] => some { key := parseHexField k, kind := kind.toNat?.getD 0, value := parseHexField v }
    | _ => none

def showItems (l : List Ape.Item) : String :=
  if l.isEmpty then "_" else ",".intercalate (l.map fun i => s!"{hexField i.key}:{i.kind}:{hexField i.value}")

def parseFrames (s : String) : List TagOrder.Frame :=
  (splitList s).filterMap fun t =>
    match t.splitOn ":" with
    | [p, d, k] => some { prio := p.toNat?.getD 0, data := parseHexField d,
                          hashKey := if k == "-" then [] else (k.splitOn ".").filterMap String.toNat? }
    | _ => none

def tagcOp (a : Args) : String :=
  match a.str "op" with
  | "vcenc" => s!"ok v={hexField (Vorbis.encode (a.bytes "vendor") (parseKV (a.str "kv")) (a.nat "framing" 1 == 1))}"
  | "vcdec" =>
    match Vorbis.decode (a.bytes "data") (a.nat "framing" 1 == 1) with
    | some (v, cs) =>
      let textOk := (Utf8.decode v).isSome && cs.all fun (_, x) => (Utf8.decode x).isSome
      s!"ok vendor={hexField v} kv={showKV cs} utf8={if textOk then 1 else 0}"
    | none => "err value"
  | "apeenc" => s!"ok v={hexField (Ape.encodeTag (parseItems (a.str "items")))}"
  | "apedec" =>
    match Ape.decodeTag (a.bytes "data") with
    | some items => s!"ok items={showItems items}"
    | none => "err value"
  | "apebody" => s!"ok v={hexField (TagOrder.apeBody (parseItems (a.str "items")))}"
  | "id3body" => s!"ok v={hexField (TagOrder.id3Body (parseFrames (a.str "frames")))}"
  | "utf8enc" => s!"ok v={hexField (Utf8.encode (natList (a.str "cps" "-")))}"
  | "utf8dec" =>
    match Utf8.decode (a.bytes "data") with
    | some cs => s!"ok cps={showNatList cs}"
    | none => "err unicode"
  | _ => "bad-op"

end Driver
