/- Driver/Signal.lean — run the signal state machine on a tool program with one or more signals inserted -/
import MutagenModel.Model.Signal
import Driver.Util
namespace Driver
open Mutagen.Signal

def insertSigs (prog : List Ev) (positions : List Nat) : List Ev :=
  (prog.zipIdx.flatMap fun (e, i) => List.replicate (positions.count i) Ev.sig ++ [e]) ++
    List.replicate (positions.count prog.length) Ev.sig

def sigOp (a : Args) : String :=
  let ns := natList (a.str "ns" "-")
  let prog := toolProg 0 ns
  let tr := insertSigs prog (natList (a.str "pos" "-"))
  let r := run {} tr
  let counts := (List.range ns.length).map fun f => (r.done.filter (·.1 == f)).length
  s!"ok exited={if r.exited then 1 else 0} interrupted={if r.interrupted then 1 else 0} done={showNatList counts} events={prog.length}"

end Driver
