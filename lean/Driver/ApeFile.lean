/- Driver/ApeFile.lean — APEv2 file container commands -/
import MutagenModel.Model.Container.ApeFile
import MutagenModel.Model.Container.ApeFileM
import MutagenModel.Model.Container.ApeFileLoadM
import Driver.Util
import Driver.FileOps
namespace Driver
open Mutagen Mutagen.ApeF

def apefOp (a : Args) : String :=
  let ex (r : Except PyErr Bytes) : String :=
    match r with
    | .ok b => s!"ok v={hexField b}"
    | .error e => s!"err {e.name}"
  match a.str "op" with
  | "save" => ex (save (a.bytes "data") (a.bytes "tag"))
  | "delete" => ex (delete (a.bytes "data"))
  -- the FileM programs with a fault schedule / capacity (`fail=<i>:<err> short=<i>:<k> cap=<n> leak=<n> B=<n>`);
  -- `hdr= items= ftr=` the three writes, `empty=1` a tag without items (nothing is written)
  | "savem" =>
    let tag3 := if a.nat "empty" 0 == 1 then none else some (a.bytes "hdr", a.bytes "items", a.bytes "ftr")
    showResult (saveM (a.nat "B" 1048576) tag3 (envOf a) { data := a.bytes "data" })
  -- `APEv2(fileobj)` under a fault schedule: what it located and the length of the tag bytes read
  | "loadm" =>
    showResult (apeLoadM (envOf a) { data := a.bytes "data" }) (fun (L, tag) =>
      s!"r={L.start}:{L.endd}:{if L.isAtStart then 1 else 0}:{tag.length}")
  | "deletem" => showResult (deleteM (a.nat "B" 1048576) (envOf a) { data := a.bytes "data" })
  | "locate" =>
    match locate (a.bytes "data") with
    | .ok (some L) => s!"ok start={L.start} end={L.endd} atstart={if L.isAtStart then 1 else 0}"
    | .ok none => "ok none=1"
    | .error e => s!"err {e.name}"
  | _ => "bad-op"

end Driver
