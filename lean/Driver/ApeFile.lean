/- Driver/ApeFile.lean — APEv2 file container commands -/
import MutagenModel.Model.Container.ApeFile
import Driver.Util
namespace Driver
open Mutagen Mutagen.ApeF

def apefOp (a : Args) : String :=
  let ex (r : Except PyErr Bytes) : String :=
    match r with
    | .ok b => s!"ok v={hexField b}"
    | .error e => s!"err {e.name}"
  match a.str "op" with
  | "save" => ex (save (a.bytes "data") (a.bytes "tag"))
  | "delete" => ex (delete (a.bytes "data"))
  | "locate" =>
    match locate (a.bytes "data") with
    | .ok (some L) => s!"ok start={L.start} end={L.endd} atstart={if L.isAtStart then 1 else 0}"
    | .ok none => "ok none=1"
    | .error e => s!"err {e.name}"
  | _ => "bad-op"

end Driver
