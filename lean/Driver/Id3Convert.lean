/- Driver/Id3Convert.lean — ID3v1 codec (MakeID3v1 / ParseID3v1) and update_to_v23 / update_to_v24 -/
import MutagenModel.Model.Id3v1
import MutagenModel.Model.Id3Convert
import MutagenModel.Model.Id3Load
import Driver.Util
namespace Driver
open Mutagen Mutagen.Id3v1

/-- a `str`: code points joined by ",", "~" for the empty string -/
def parseStr (s : String) : Str := if s == "~" || s == "" then [] else (s.splitOn ",").filterMap String.toNat?
def showStr (s : Str) : String := if s.isEmpty then "~" else ",".intercalate (s.map toString)

/-- a list of `str`: joined by ";", "e" for the empty list; "-" (or missing) = absent -/
def strList? (a : Args) (k : String) : Option (List Str) :=
  match a.get? k with
  | none => none
  | some "-" => none
  | some "e" => some []
  | some v => some ((v.splitOn ";").map parseStr)

def str? (a : Args) (k : String) : Option Str :=
  match a.get? k with
  | none => none
  | some "-" => none
  | some v => some (parseStr v)

def showOptNat (o : Option Nat) : String := match o with | none => "-" | some n => toString n

def id3v1Op (a : Args) : String :=
  match a.str "op" with
  | "make" =>
    let s : Src := { tit2 := strList? a "tit2", tpe1 := strList? a "tpe1", talb := strList? a "talb", comm := strList? a "comm",
                     trck := strList? a "trck", tcon := strList? a "tcon", tdrc := str? a "tdrc", tyer := str? a "tyer" }
    match makeID3v1 s with
    | .ok b => s!"ok v={hexField b}"
    | .error e => s!"err {e.name}"
  | "parse" =>
    match parseID3v1 (a.nat "v2" 4) (a.bytes "data") with
    | .error e => s!"err {e.name}"
    | .ok none => "ok none=1"
    | .ok (some t) => s!"ok title={showStr t.title} artist={showStr t.artist} album={showStr t.album} year={showStr t.year} comment={showStr t.comment} track={showOptNat t.track} genre={showOptNat t.genre}"
  | "genres" => match strList? a "text" with
    | some l => "ok v=" ++ (if (genres l).isEmpty then "e" else ";".intercalate ((genres l).map showStr))
    | none => "bad-op"
  | _ => "bad-op"


/-! ### update_to_v23 / update_to_v24

a tag: frames joined by "|" (sub-frames of a CHAP/CTOC by "!", theirs by "^"); a frame is
`T:id:enc:texts` | `S:id:enc:stamps` (stamps joined by ";", six fields joined by ",", "n" = None) |
`P:id:enc:pairs` (joined by ";", a pair is `str/str`) | `A:enc:mime:type:desc:hexdata` | `C:id:key:sub` | `O:id:key`;
keys and texts are code points -/
open Mutagen.Id3Conv in
def levelSep (d : Nat) : String := if d == 0 then "|" else if d == 1 then "!" else "^"

open Mutagen.Id3Conv in
def parseOptInt (s : String) : Option Int := if s == "n" then none else s.toInt?
open Mutagen.Id3Conv in
def showOptInt (o : Option Int) : String := match o with | none => "n" | some i => toString i

open Mutagen.Id3Conv in
def parseStampF (s : String) : Stamp :=
  match (s.splitOn ",").map parseOptInt with
  | [a, b, c, d, e, f] => { year := a, month := b, day := c, hour := d, minute := e, second := f }
  | _ => {}

open Mutagen.Id3Conv in
def showStampF (s : Stamp) : String :=
  ",".intercalate ([s.year, s.month, s.day, s.hour, s.minute, s.second].map showOptInt)

def parseStrList (v : String) : List Str := if v == "e" then [] else (v.splitOn ";").map parseStr
def showStrList (l : List Str) : String := if l.isEmpty then "e" else ";".intercalate (l.map showStr)

open Mutagen.Id3Conv in
partial def parseTag (d : Nat) (s : String) : Id3Conv.Tag :=
  if s == "-" || s == "" then [] else
  (s.splitOn (levelSep d)).filterMap fun fs => (
    match fs.splitOn ":" with
    | ["T", id, enc, texts] => some (.text id enc.toNat! (parseStrList texts))
    | ["S", id, enc, st] => some (.stamps id enc.toNat! (if st == "e" then [] else (st.splitOn ";").map parseStampF))
    | ["P", id, enc, ps] => some (.people id enc.toNat! (if ps == "e" then [] else (ps.splitOn ";").map fun p =>
        match p.splitOn "/" with | [a, b] => (parseStr a, parseStr b) | _ => ([], [])))
    | ["A", enc, mime, ty, desc, data] => some (.apic enc.toNat! (parseStr mime) ty.toNat! (parseStr desc) (parseHexField data))
    | "C" :: id :: key :: sub => some (.chap id (Mutagen.Id3Conv.strOf (parseStr key)) (parseTag (d + 1) (":".intercalate sub)))
    | ["O", id, key] => some (.other id (Mutagen.Id3Conv.strOf (parseStr key)))
    | _ => none : Option Id3Conv.Frame)

def keyStr (k : String) : String := showStr (k.toList.map Char.toNat)

open Mutagen.Id3Conv in
partial def showTag (d : Nat) (t : Id3Conv.Tag) : String :=
  if t.isEmpty then "-" else
  let sorted := t.toArray.qsort (fun a b => a.key < b.key) |>.toList
  (levelSep d).intercalate (sorted.map fun f =>
    match f with
    | .text id enc texts => s!"T:{id}:{enc}:{showStrList texts}"
    | .stamps id enc st => s!"S:{id}:{enc}:" ++ (if st.isEmpty then "e" else ";".intercalate (st.map showStampF))
    | .people id enc ps => s!"P:{id}:{enc}:" ++ (if ps.isEmpty then "e" else ";".intercalate (ps.map fun (a, b) => showStr a ++ "/" ++ showStr b))
    | .apic enc mime ty desc data => s!"A:{enc}:{showStr mime}:{ty}:{showStr desc}:{hexField data}"
    | .chap id key sub => s!"C:{id}:{keyStr key}:{showTag (d + 1) sub}"
    | .other id key => s!"O:{id}:{keyStr key}")

open Mutagen.Id3Conv in
def id3convOp (a : Args) : String :=
  let t := parseTag 0 (a.str "tag" "-")
  match a.str "op" with
  | "to23" => "ok v=" ++ showTag 0 (updateToV23 t)
  | "to24" => "ok v=" ++ showTag 0 (updateToV24 t)
  -- the ID3v1 merge and `translate` of `ID3.load`: `tag` = what `_read` made of the body, `comms` = the COMM frames
  -- (`desc/firsttext` joined by ";", "e" = none; a COMM without text: `desc/-`), `vmaj`, `block` = the ID3v1 block (hex, "-" = none),
  -- `translate` = 0 (False) / 3 / 4
  | "load" =>
    let comms : List Mutagen.Id3Load.Comm :=
      if a.str "comms" "e" == "e" then [] else ((a.str "comms").splitOn ";").map fun c =>
        match c.splitOn "/" with
        | [d, "-"] => { desc := parseStr d, text := [] }
        | [d, x] => { desc := parseStr d, text := [parseStr x] }
        | _ => { desc := [], text := [] }
    let block := if a.str "block" "-" == "-" then none else some (a.bytes "block")
    let tr := match a.nat "translate" 4 with | 0 => none | n => some n
    "ok v=" ++ showTag 0 (Mutagen.Id3Load.loadedTag t comms (a.nat "vmaj" 4) block tr)
  | "loadv1" =>
    "ok v=" ++ showTag 0 (Mutagen.Id3Load.loadedTagV1 (a.bytes "block") (a.nat "v2" 4) (a.nat "translate" 1 == 1))
  | "stamp" => "ok v=" ++ showStampF (parseStamp (parseStr (a.str "text" "~"))) ++ " text=" ++ showStr (parseStamp (parseStr (a.str "text" "~"))).text
  | _ => "bad-op"

end Driver
