/- Driver/Iff.lean — IFF-style chunk files with an ID3 chunk (AIFF, WAVE, DSDIFF): save, delete, walk -/
import MutagenModel.Model.Container.Iff
import MutagenModel.Model.Container.IffM
import MutagenModel.Model.Container.IffLoadM
import Driver.Util
import Driver.FlacC
namespace Driver
open Mutagen Mutagen.Iff

def iffDialect (s : String) : Option Dialect :=
  match s with
  | "aiff" => some aiff
  | "wave" => some wave
  | "dsdiff" => some dsdiff
  | _ => none

/-- the `pad=` argument for sizes of either sign (cf. `padOf`) -/
def padOfZ (a : Args) : PadZ :=
  match a.str "pad" "default" with
  | "default" => .default
  | "keep" => .callback fun p _ => if p < 0 then 0 else p
  | v => match v.toInt? with
    | some n => .callback fun _ _ => n
    | none => .default

/-- the layout of a well-formed file (strict reader; the ID3 chunk is the first one the dialect's lookup stops at) -/
def iffLayoutOf (d : Dialect) (f : Bytes) : Option Layout :=
  match readFile d f with
  | none => none
  | some (name, cs) =>
    let isId3 (c : Chunk) : Bool := match chunkId c.id with | some s => d.loadIds.contains s | none => false
    let before := cs.takeWhile fun c => !isId3 c
    match cs.drop before.length with
    | [] => some ⟨name, before, none, []⟩
    | c :: r => some ⟨name, before, some c, r⟩

/-- `iffm fmt=… op=save|delete data=… [vmaj= frames= pad=] [B=] [fail=i:err] [short=i:k] [cap=n] [leak=n]`: the
file-object programs of Model/Container/IffM.lean on a well-formed file, with the entry point's `convert_error` -/
def iffmOp (a : Args) : String :=
  match iffDialect (a.str "fmt") with
  | none => "bad-op"
  | some d =>
    let f := a.bytes "data"
    match iffLayoutOf d f with
    | none => "err notimplemented"
    | some L =>
      if L.chunks.isEmpty then "err notimplemented" else
      let e := envOf a
      let s : FS := { data := f, pos := a.nat "pos" 0 }
      let B := a.nat "B" 1048576
      match a.str "op" with
      | "save" => showResult (saveEntry d B L (a.nat "vmaj" 4) (a.bytes "frames") (padOfZ a) e s)
      | "delete" => showResult (deleteEntry d B L e s)
      | "deletem" => showResult (deleteWaveMethodEntry d B L e s)
      | _ => "bad-op"

/-- `iffload fmt=… data=… [fail=i:err] [short=i:k]`: the tag class constructor up to the ID3 header (Model/Container/IffLoadM.lean)
on any bytes, with the entry point's `convert_error` -/
def iffloadOp (a : Args) : String :=
  match iffDialect (a.str "fmt") with
  | none => "bad-op"
  | some d =>
    let s : FS := { data := a.bytes "data", pos := a.nat "pos" 0 }
    showResult (loadEntry d (envOf a) s) (fun n => s!"off={n}")

def iffOp (a : Args) : String :=
  let ex (r : Except PyErr Bytes) : String :=
    match r with
    | .ok b => s!"ok v={hexField b}"
    | .error e => s!"err {e.name}"
  match iffDialect (a.str "fmt") with
  | none => "bad-op"
  | some d =>
    match a.str "op" with
    -- `saveZ` = `save` wherever `save` is defined (C04_Iff.iff_saveZ_extends_save), and covers truncated ID3 chunks
    | "save" => ex (saveZ d (a.bytes "data") (a.nat "vmaj" 4) (a.bytes "frames") (padOfZ a))
    | "save0" => ex (save d (a.bytes "data") (a.nat "vmaj" 4) (a.bytes "frames") (padOf a))
    | "locate" =>
      match locate d (a.bytes "data") with
      | .error e => s!"err {e.name}"
      | .ok none => "ok none=1"
      | .ok (some r) => s!"ok id={toHex r.id} offset={r.offset} size={r.dataSize}"
    | "delete" => ex (delete d (a.bytes "data"))
    | "walk" =>
      -- root data_size, the sub-chunks `id@offset:data_size`, and the index of the ID3 chunk (-1: none)
      let f := a.bytes "data"
      match parseRoot d f with
      | .error e => s!"err {e.name}"
      | .ok rs =>
        match walk d f rs with
        | .error e => s!"err {e.name}"
        | .ok recs =>
          let desc := if recs.isEmpty then "-" else
            ",".intercalate (recs.map fun r => s!"{toHex r.id}@{r.offset}:{r.dataSize}")
          let idx : Int := match recs.findIdx? (fun r => d.loadIds.contains r.id) with
            | some i => i
            | none => -1
          s!"ok root={rs} chunks={desc} id3={idx}"
    | "read" =>
      -- the strict specification-side walker
      match readFile d (a.bytes "data") with
      | none => "ok wellformed=0"
      | some (name, cs) =>
        let desc := if cs.isEmpty then "-" else
          ",".intercalate (cs.map fun c => s!"{toHex c.id}:{c.data.length}:{c.pad.length}")
        s!"ok wellformed=1 name={hexField name} chunks={desc}"
    | _ => "bad-op"

end Driver
