/- Driver/OggInject.lean — Ogg comment injection (Vorbis, Opus, Speex, Theora, FLAC in Ogg):
save, delete, walk (which pages are replaced by which), read (the comment constructors), readall
(the strict page reader) -/
import MutagenModel.Model.Container.OggInject
import MutagenModel.Model.Container.OggInjectM
import MutagenModel.Model.Container.OggInjectLoadM
import MutagenModel.Model.Container.OggInjectFullM
import Driver.Util
import Driver.FlacC
import Driver.Ogg
namespace Driver
open Mutagen Mutagen.Ogg Mutagen.OggInj

def oggCodec (s : String) : Option Codec :=
  match s with
  | "vorbis" => some .vorbis
  | "opus" => some .opus
  | "speex" => some .speex
  | "theora" => some .theora
  | "flac" => some .flac
  | _ => none

/-- the pieces called directly (`_inject`, the comment constructors): what the tie calls "MutagenError
or EOFError or IOError" -/
def rawErr : PyErr → PyErr
  | .eof => .mutagen
  | .io => .mutagen
  | e => e

def showOutcome (f : Bytes) (r : Outcome) : String :=
  match r.err with
  | none => s!"ok v={hexField r.file}"
  | some e => if r.file = f then s!"err {e.name} same=1" else s!"err {e.name} v={hexField r.file}"

/-- all pages of a byte string with their offsets, as far as they parse -/
partial def parseAllOff (f : Bytes) (pos : Nat) (acc : List Rd) : List Rd :=
  match readPage f pos with
  | .ok (p, next) => parseAllOff f next (⟨p, pos⟩ :: acc)
  | .error _ => acc.reverse

def bit (s : String) : Bool := s == "1"

/-- one page `complete:continued:first:last:sequence:serial:position:packets`, packets hex separated by
'.', "-" an empty packet, "_" no packets -/
def pageSpec (s : String) : Option Page :=
  match s.splitOn ":" with
  | [c, k, f, l, sq, sr, po, pk] =>
    some { complete := bit c, continued := bit k, first := bit f, last := bit l, sequence := sq.toNat?.getD 0,
           serial := sr.toNat?.getD 0, position := po.toInt?.getD 0,
           packets := if pk == "_" then [] else (pk.splitOn ".").map parseHexField }
  | _ => none

/-- `new=` of op=replace: page specs separated by ';', "_" for no pages -/
def pageSpecs (s : String) : List Page :=
  if s == "_" || s == "" then [] else (s.splitOn ";").filterMap pageSpec

/-- the API functions by themselves (C15): `preserve` = OggPage._from_packets_try_preserve(packets,
pages of `data`), `replace` = OggPage.replace(fileobj, the pages of `data` with the indices `old`,
`new`), `renumber` = OggPage.renumber(fileobj at `pos`, serial, start) -/
def oggApiOp (a : Args) : Option String :=
  match a.str "op" with
  | "preserve" =>
    let old := (parseAllOff (a.bytes "data") 0 []).map (·.page)
    some <| match tryPreserve (hexList (a.str "pk" "_")) old with
    | .error e => s!"err {e.name}"
    | .ok new =>
      match renderList new with
      | .error e => s!"ok pages={descPages new} v=err-{e.name}"
      | .ok bs => s!"ok pages={descPages new} v={hexField bs.flatten}"
  | "replace" =>
    let f := a.bytes "data"
    let all := parseAllOff f 0 []
    let old := (natList (a.str "old" "-")).filterMap fun i => all[i]?
    some (showOutcome f (replace f old (pageSpecs (a.str "new" "_"))))
  | "renumber" =>
    let f := a.bytes "data"
    some (showOutcome f (renumber (a.nat "serial") (f.length + 1) f (a.nat "pos") (a.nat "start")))
  | _ => none

/-- the file-object programs (C19, C06): `savem` / `deletem` run `saveEntry` / `deleteEntry` on the bytes
`data` in the fault environment `fail=<i>:<err> short=<i>:<k> cap=<n> leak=<n>` (Driver/FileOps.lean) with
buffer size `B`; the answer has the outcome, the bytes left, the position and the log of calls -/
def oggFaultOp (a : Args) : Option String :=
  match a.str "op", oggCodec (a.str "fmt") with
  | "savem", some c =>
    let f := a.bytes "data"
    some (showResult (saveEntry (a.nat "B" 1048576) c f (a.bytes "vc") (a.bytes "paddata") (padOf a) (envOf a) { data := f }))
  | "deletem", some c =>
    let f := a.bytes "data"
    some (showResult (deleteEntry (a.nat "B" 1048576) c f (a.bytes "vendor") (a.bytes "paddata") (envOf a) { data := f }))
  | "savefull", some c =>
    -- save with its reads as a program (Model/Container/OggInjectFullM.lean)
    let f := a.bytes "data"
    some (showResult (saveFullM (a.nat "B" 1048576) c (a.bytes "vc") (a.bytes "paddata") (padOf a) (envOf a) { data := f }))
  | "deletefull", some c =>
    let f := a.bytes "data"
    some (showResult (deleteFullM (a.nat "B" 1048576) c (a.bytes "vendor") (a.bytes "paddata") (envOf a) { data := f }))
  | "loadm", some c =>
    -- `OggX(fileobj)`: verify_fileobj's read(0), the info constructor, the tags constructor, `_post_tags`
    let f := a.bytes "data"
    some (showResult (loadM c (envOf a) { data := f, pos := a.nat "pos" 0 }) (val := fun (l : Loaded) =>
      let last := match l.last with | none => "none" | some p => s!"{p.position}@{p.sequence}"
      s!"serial={l.idPage.serial} comment={hexField l.comment} padding={l.padding} paddata={hexField l.padData} last={last}"))
  | "loadpure", some c =>
    let f := a.bytes "data"
    some (match loadPure c f with
      | .error e => s!"err {e.name}"
      | .ok l =>
        let last := match l.last with | none => "none" | some p => s!"{p.position}@{p.sequence}"
        s!"ok serial={l.idPage.serial} comment={hexField l.comment} padding={l.padding} paddata={hexField l.padData} last={last}")
  | _, _ => none

def ogginjectOp (a : Args) : String :=
  match oggFaultOp a with
  | some r => r
  | none =>
  match oggApiOp a with
  | some r => r
  | none =>
  match a.str "op" with
  | "readall" =>
    let f := a.bytes "data"
    match readAll (f.length + 1) f with
    | none => "ok wellformed=0"
    | some ps => s!"ok wellformed=1 pages={descPages ps}"
  | op =>
  match oggCodec (a.str "fmt") with
  | none => "bad-op"
  | some c =>
    let f := a.bytes "data"
    match op with
    | "save" => showOutcome f (injectOutcome c f (a.bytes "vc") (a.bytes "paddata") (padOf a))
    | "delete" => showOutcome f (deleteOutcome c f (a.bytes "vendor") (a.bytes "paddata"))
    | "walk" =>
      -- the pages `_inject` hands to OggPage.replace: old (offset@page), and new (as built, before
      -- replace numbers and flags them)
      match commentPages c f with
      | .error e => s!"err {(rawErr e).name}"
      | .ok old =>
        let oldDesc := ";".intercalate (old.map fun r => s!"{r.offset}@{descPage r.page}")
        match toPackets (old.map (·.page)) false with
        | .error e => s!"err {(rawErr e).name}"
        | .ok [] => "err index"
        | .ok (old0 :: others) =>
          match newPacket c old0 (a.bytes "vc") (a.bytes "paddata") (padOf a) f.length with
          | .error e => s!"err {(rawErr e).name}"
          | .ok new0 =>
            match newPages c (new0 :: others) (old.map (·.page)) with
            | .error e => s!"err {(rawErr e).name}"
            | .ok new => s!"ok old={oldDesc} new={descPages new}"
    | "read" =>
      match readComment c f (a.nat "serial") (a.nat "pos") with
      | .error e => s!"err {(rawErr e).name}"
      | .ok data =>
        match loadComment c data with
        | .error e => s!"err {e.name}"
        | .ok (padding, padData) =>
          -- what VComment.load returns: vendor string and comments `key:value` (hex), "outside" when a key
          -- has non-ASCII bytes (not modelled)
          let tags := match loadVC data c.framing with
            | .ok (vendor, cs, _) =>
              let kv := if cs.isEmpty then "-" else ",".intercalate (cs.map fun (x : Bytes × Bytes) => s!"{hexField x.1}:{hexField x.2}")
              s!"vendor={hexField vendor} kv={kv}"
            | .error _ => "vendor=outside kv=outside"
          s!"ok padding={padding} paddata={hexField padData} {tags} data={hexField data}"
    | _ => "bad-op"

end Driver
