/- Driver/InfoA.lean — `infoa kind=<Fmt> data=<hex>`: the stream-info parsers of Model/Info;
`infoa op=build kind=<Fmt> <fields…>`: the specification-side builders of Spec/Info. -/
import MutagenModel.Model.Info.WavPack
import MutagenModel.Spec.Info.WavPack
import MutagenModel.Spec.Info.MonkeysAudio
import MutagenModel.Spec.Info.OptimFROG
import MutagenModel.Spec.Info.TrueAudio
import MutagenModel.Spec.Info.Tak
import MutagenModel.Spec.Info.Musepack
import MutagenModel.Spec.Info.Aac
import MutagenModel.Spec.Info.Ac3
import MutagenModel.Spec.Info.Hyp
import Driver.Util
namespace Driver
open Mutagen Mutagen.Info

def showRatioA (r : Ratio) : String := s!"{r.num}/{r.den}"

def showResA {α} (r : Except PyErr α) (f : α → String) : String :=
  match r with
  | .ok i => "ok " ++ f i
  | .error e => s!"err {e.name}"

def hexListA (s : String) : List Bytes :=
  if s == "" then [] else (s.splitOn ",").map parseHexField

/-! WavPack -/

def wavpackFields (a : Args) : Spec.WavPack.Fields :=
  let ss := natList (a.str "bs")
  let cs := natList (a.str "bc")
  let ps := hexListA (a.str "bp")
  let blocks : List Spec.WavPack.Block :=
    (ss.zip (cs.zip ps)).map fun (s, c, p) => { samples := s, payload := p, crc := c }
  { version := a.nat "version"
    totalSamples := if a.str "total" == "-1" then none else some (a.nat "total")
    bytesPerSample := a.nat "bps", mono := a.nat "mono" == 1, modeLow := a.nat "modelow"
    shiftMag := a.nat "shiftmag", rateIndex := a.nat "ri", modeHigh := a.nat "modehigh"
    first := blocks.headD { samples := 0, payload := [], crc := 0 }
    more := blocks.tail
    firstIndex := a.nat "fi" }

/-! Monkey's Audio -/

def apeNewFields (a : Args) : Spec.MonkeysAudio.New :=
  { version := a.nat "version", padding := a.nat "padding", extra := a.bytes "extra", headerBytes := a.nat "hb"
    seekTableBytes := a.nat "stb", headerDataBytes := a.nat "hdb", frameDataBytes := a.nat "fdb"
    frameDataBytesHigh := a.nat "fdbh", terminatingBytes := a.nat "tb", md5 := a.bytes "md5"
    compressionLevel := a.nat "cl", formatFlags := a.nat "ff", blocksPerFrame := a.nat "bpf"
    finalFrameBlocks := a.nat "ffb", totalFrames := a.nat "tf", bits := a.nat "bits", channels := a.nat "ch"
    rate := a.nat "rate" }

def apeOldFields (a : Args) : Spec.MonkeysAudio.Old :=
  { version := a.nat "version", compressionLevel := a.nat "cl", formatFlags := a.nat "ff", channels := a.nat "ch"
    rate := a.nat "rate", terminatingBytes := a.nat "tb", totalFrames := a.nat "tf", finalFrameBlocks := a.nat "ffb"
    peakLevel := a.nat "peak", seekElements := a.nat "seek", wavHeader := a.bytes "wav" }

/-- text attributes travel as the hex of their UTF-8 bytes (`-` = empty) -/
def hexStrA (cs : List Char) : String := hexField (String.ofList cs).toUTF8.toList

def optNatA : Option Nat → String
  | none => "None"
  | some n => toString n

def ofrFields (a : Args) : Spec.OptimFROG.Fields :=
  { totalSamples := a.nat "total", sampleType := a.nat "st", channels := a.nat "ch", rate := a.nat "rate"
    ext := if a.nat "size" ≥ 15 then some { encoderId := a.nat "enc", compression := a.nat "comp", extra := a.bytes "extra" }
           else none }

def ttaFields (a : Args) : Spec.TrueAudio.Fields :=
  { format := a.nat "format", channels := a.nat "ch", bits := a.nat "bits", rate := a.nat "rate", samples := a.nat "samples" }

def takMetas (types : String) (payloads : String) : List Spec.Tak.Meta :=
  ((natList types).zip (hexListA payloads)).map fun (t, p) => { type := t, payload := p }

def takFields (a : Args) : Spec.Tak.Fields :=
  { codec := a.nat "codec", profile := a.nat "profile", frameDuration := a.nat "fdt", samples := a.nat "samples"
    dataType := a.nat "dt", rate := a.nat "rate", bits := a.nat "bits", channels := a.nat "ch"
    hasExtension := a.nat "hasext", ext := a.bytes "ext"
    pre := takMetas (a.str "pt") (a.str "pp"), post := takMetas (a.str "qt") (a.str "qp") }

def showRG : Musepack.RG → String
  | .absent => "-"
  | .sv7 r => s!"7:{r}"
  | .sv8 r => s!"8:{r}"

def showBitrate : Musepack.Bitrate → String
  | .value n => s!"v:{n}"
  | .fromSize b => s!"s:{b}"

def mpc7Fields (a : Args) : Spec.Musepack.Sv7 :=
  { minor := a.nat "minor", frames := a.nat "frames", intensity := a.nat "is", midSide := a.nat "ms", maxBand := a.nat "maxband"
    profile := a.nat "profile", link := a.nat "link", rateIndex := a.nat "ri", maxLevel := a.nat "maxlevel"
    titlePeak := a.nat "tp", titleGain := a.int "tg", albumPeak := a.nat "ap", albumGain := a.int "ag"
    trueGapless := a.nat "gapless", lastFrameSamples := a.nat "last", fastSeek := a.nat "fastseek", unused5 := a.nat "u5"
    encoder := a.nat "enc", unused6 := a.nat "u6" }

def mpc8Fields (a : Args) : Spec.Musepack.Sv8 :=
  let mid : List Spec.Musepack.Packet :=
    ((hexListA (a.str "mk")).zip (hexListA (a.str "mp"))).map fun (k, p) =>
      { key := k, size := Spec.Musepack.packetSize p.length, payload := p }
  let h0 : Spec.Musepack.Sv8 :=
    { crc := a.nat "crc", streamVersion := a.nat "ver", samples := a.nat "samples", beginSilence := a.nat "silence"
      rateIndex := a.nat "ri", maxBands := a.nat "maxbands", channels := a.nat "ch", midSide := a.nat "ms", blockPwr := a.nat "bp"
      shPad := a.bytes "shpad", shSize := 0, mid := mid, rgVersion := a.nat "rgver", titleGain := a.int "tg"
      titlePeak := a.nat "tp", albumGain := a.int "ag", albumPeak := a.nat "ap", rgPad := a.bytes "rgpad", rgSize := 0 }
  { h0 with shSize := Spec.Musepack.packetSize h0.shPayload.length, rgSize := Spec.Musepack.packetSize h0.rgPayload.length }

def adtsFields (a : Args) : Spec.Aac.Adts :=
  let cbs := natList (a.str "cb")
  let bfs := natList (a.str "bf")
  let nbs := natList (a.str "nb")
  let bodies := hexListA (a.str "bodies")
  { id := a.nat "id", protectionAbsent := a.nat "pa", profile := a.nat "profile", sfIndex := a.nat "sfi"
    privateBit := a.nat "priv", chanConfig := a.nat "cc", original := a.nat "orig", home := a.nat "home"
    frames := (cbs.zip (bfs.zip (nbs.zip bodies))).map fun (c, b, n, body) =>
      { copyrightBits := c, bufferFullness := b, nordbif := n, body := body } }

def optArg (a : Args) (k : String) : Option Nat := if a.int k (-1) < 0 then none else some (a.nat k)
def optBytesArg (a : Args) (k : String) : Option Bytes := if a.str k "none" == "none" then none else some (a.bytes k)

def ac3Group (a : Args) (sfx : String) : Spec.Ac3.Group :=
  { dialnorm := a.nat ("dn" ++ sfx), compr := optArg a ("compr" ++ sfx), langcod := optArg a ("lang" ++ sfx), audprod := optArg a ("prod" ++ sfx) }

def ac3Fields (a : Args) : Spec.Ac3.Ac3 :=
  { crc1 := a.nat "crc1", fscod := a.nat "fscod", frmsizecod := a.nat "fsc", bsid := a.nat "bsid", bsmod := a.nat "bsmod"
    acmod := a.nat "acmod", cmixlev := a.nat "cmix", surmixlev := a.nat "surmix", dsurmod := a.nat "dsur", lfeon := a.nat "lfe"
    g1 := ac3Group a "1", g2 := ac3Group a "2", copyrightb := a.nat "cb", origbs := a.nat "ob"
    timecod1 := optArg a "tc1", timecod2 := optArg a "tc2", addbsi := optBytesArg a "addbsi", payload := a.bytes "payload" }

def eac3Info (a : Args) : Spec.Ac3.InfoMd :=
  { bsmod := a.nat "ibsmod", copyrightb := a.nat "icb", origbs := a.nat "iob", dsur4 := a.nat "idsur4", dsurex := a.nat "idsurex",
    audprod := optArg a "iaud", audprod2 := optArg a "iaud2", sourcefscod := a.nat "isrc" }

def eac3Fields (a : Args) : Spec.Ac3.Eac3 :=
  { strmtyp := a.nat "strmtyp", substreamid := a.nat "sid", frmsiz := a.nat "frmsiz", fscod := a.nat "fscod", fscod2 := a.nat "fscod2",
    numblkscod := a.nat "nb", acmod := a.nat "acmod", lfeon := a.nat "lfe", bsid := a.nat "bsid", dialnorm := a.nat "dn",
    compr := optArg a "compr", dialnorm2 := a.nat "dn2", compr2 := optArg a "compr2", chanmap := optArg a "chanmap",
    info := (if a.nat "info" == 1 then some (eac3Info a) else none),
    convsync := a.nat "convsync", blkid := a.nat "blkid", frmsizecod := a.nat "fsc", addbsi := optBytesArg a "addbsi",
    payload := a.bytes "payload" }

def elemsOf (s : String) : List Spec.Aac.Elem := (natList s).map fun v => { isCpe := v / 16, tag := v % 16 }

def pceOf (a : Args) (sfx : String) : Spec.Aac.Pce :=
  { tag := a.nat ("ptag" ++ sfx), objectType := a.nat ("pot" ++ sfx), sfIndex := a.nat ("psfi" ++ sfx),
    front := elemsOf (a.str ("pfront" ++ sfx)), side := elemsOf (a.str ("pside" ++ sfx)), back := elemsOf (a.str ("pback" ++ sfx)),
    lfe := natList (a.str ("plfe" ++ sfx)), assoc := natList (a.str ("passoc" ++ sfx)),
    cc := (natList (a.str ("pcc" ++ sfx))).map fun v => (v / 16, v % 16),
    monoMixdown := optArg a ("pmono" ++ sfx), stereoMixdown := optArg a ("pstereo" ++ sfx), matrixMixdown := optArg a ("pmatrix" ++ sfx),
    comment := a.bytes ("pcomment" ++ sfx) }

def adifFields (a : Args) : Spec.Aac.Adif :=
  let pces := (List.range (a.nat "n")).map fun i => (a.nat s!"full{i}", pceOf a (toString i))
  let dflt : Nat × Spec.Aac.Pce := (0, pceOf a "0")
  { copyrightId := (if a.str "cid" "none" == "none" then none else some (Mutagen.ofBE (a.bytes "cid"))),
    originalCopy := a.nat "oc", home := a.nat "home", bitstreamType := a.nat "bt", bitrate := a.nat "bitrate",
    firstFullness := (pces.headD dflt).1, first := (pces.headD dflt).2, more := pces.tail, payload := a.bytes "payload" }

def renderWavPack (i : WavPack.Info) : String :=
  s!"version={i.version} channels={i.channels} sample_rate={i.sampleRate} bits_per_sample={i.bitsPerSample} length={showRatioA i.length}"

def renderApe (i : MonkeysAudio.Info) : String :=
  s!"version={i.version}/1000 channels={i.channels} sample_rate={i.sampleRate} bits_per_sample={i.bitsPerSample} length={showRatioA i.length}"

def renderOfr (i : OptimFROG.Info) : String :=
  s!"channels={i.channels} sample_rate={i.sampleRate} bits_per_sample={optNatA i.bitsPerSample} length={showRatioA i.length} encoder_info={hexStrA i.encoderInfo}"

def renderTta (i : TrueAudio.Info) : String := s!"sample_rate={i.sampleRate} length={showRatioA i.length}"

def renderTak (i : Tak.Info) : String :=
  let enc := match i.encoder with
    | none => "-"
    | some (ma, mi, pa) => hexStrA s!"TAK {ma}.{mi}.{pa}".toList
  s!"channels={i.channels} sample_rate={i.sampleRate} bits_per_sample={i.bitsPerSample} length={showRatioA i.length} encoder_info={enc}"

def renderMpc (i : Musepack.Info) : String :=
  s!"version={i.version} channels={i.channels} sample_rate={i.sampleRate} length={showRatioA i.length} bitrate={showBitrate i.bitrate} title_gain={showRG i.titleGain} title_peak={showRG i.titlePeak} album_gain={showRG i.albumGain} album_peak={showRG i.albumPeak}"

def renderAac (i : Aac.Info) : String :=
  s!"channels={i.channels} sample_rate={i.sampleRate} bitrate={showRatioA i.bitrate} length={showRatioA i.length} type={if i.adif then "ADIF" else "ADTS"}"

def renderAc3 (i : Ac3.Info) : String :=
  let len := match i.length with | none => "None" | some r => showRatioA r
  s!"channels={i.channels} sample_rate={i.sampleRate} bitrate={i.bitrate} length={len} codec={if i.eac3 then "ec-3" else "ac-3"}"

def infoAParse (kind : String) (data : Bytes) (a : Args) : String :=
  match kind with
  | "WavPack" => showResA (WavPack.parse data) renderWavPack
  | "MonkeysAudio" => showResA (MonkeysAudio.parse data) renderApe
  | "OptimFROG" => showResA (OptimFROG.parse data) renderOfr
  | "TrueAudio" => showResA (TrueAudio.parse data (a.nat "offset")) renderTta
  | "TAK" => showResA (Tak.parse data) renderTak
  | "Musepack" => showResA (Musepack.parse data) renderMpc
  | "AAC" => showResA (Aac.parse data) renderAac
  | "AC3" => showResA (Ac3.parse data) renderAc3
  | _ => "bad-op"

/-- `op=expect`: the right-hand side of the kind's C05 decode theorem for these fields, and whether ALL hypotheses of the
theorem hold for the fields and the bytes `suffix` behind the built header (`Spec.Hyp`, Props/C05_Instances.lean) -/
def infoAExpect (kind : String) (a : Args) : String :=
  let rest := a.bytes "suffix"
  let ans (hyp : Bool) (attrs : String) : String := s!"ok hyp={if hyp then 1 else 0} {attrs}"
  open Mutagen.Spec.Hyp in
  match kind with
  | "WavPack" => let h := wavpackFields a; ans (decide (WavPackHyp h rest)) (renderWavPack (Spec.WavPack.expected h))
  | "APE" => let h := apeNewFields a; ans (decide (ApeHyp h)) (renderApe h.expected)
  | "APE_OLD" => let h := apeOldFields a; ans (decide (ApeOldHyp h)) (renderApe h.expected)
  | "OptimFROG" => let h := ofrFields a; ans (decide (OfrHyp h rest)) (renderOfr (Spec.OptimFROG.expected h))
  | "TTA" => let h := ttaFields a; ans (decide (TtaHyp h)) (renderTta (Spec.TrueAudio.expected h))
  | "TAK" => let h := takFields a; ans (decide (TakHyp h)) (renderTak (Spec.Tak.expected h))
  | "MPC_SV7" => let h := mpc7Fields a; ans (decide (Mpc7Hyp h rest)) (renderMpc (mpc7Expect h rest))
  | "MPC_SV8" => let h := mpc8Fields a; ans (decide (Mpc8Hyp h rest)) (renderMpc (mpc8Expect h rest))
  | "AAC_ADTS" => let h := adtsFields a; ans (decide (AdtsHyp h rest)) (renderAac (adtsExpect h))
  | "ADIF" => let h := adifFields a; ans (decide (AdifHyp h rest)) (renderAac h.expected)
  | "AC3" => let h := ac3Fields a; ans (decide (Ac3Hyp h rest)) (renderAc3 h.expected)
  | "EAC3" => let h := eac3Fields a; ans (decide (Eac3Hyp h rest)) (renderAc3 h.expected)
  | _ => "bad-op"

def infoABuild (kind : String) (a : Args) : String :=
  match kind with
  | "WavPack" =>
    let h := wavpackFields a
    s!"ok v={hexField (Spec.WavPack.build h)} valid={if decide h.OK then 1 else 0}"
  | "APE" =>
    let h := apeNewFields a
    s!"ok v={hexField h.build} valid={if decide h.OK then 1 else 0}"
  | "APE_OLD" =>
    let h := apeOldFields a
    s!"ok v={hexField h.build} valid={if decide h.OK then 1 else 0}"
  | "OptimFROG" =>
    let h := ofrFields a
    s!"ok v={hexField (Spec.OptimFROG.build h)} valid={if decide h.OK then 1 else 0}"
  | "TTA" =>
    let h := ttaFields a
    s!"ok v={hexField (Spec.TrueAudio.build h)} valid={if decide h.OK then 1 else 0}"
  | "TAK" =>
    let h := takFields a
    s!"ok v={hexField (Spec.Tak.build h)} valid={if decide h.OK then 1 else 0}"
  | "MPC_SV7" =>
    let h := mpc7Fields a
    s!"ok v={hexField h.build} valid={if decide h.OK then 1 else 0}"
  | "MPC_SV8" =>
    let h := mpc8Fields a
    s!"ok v={hexField h.build} valid={if decide h.OK then 1 else 0}"
  | "AAC_ADTS" =>
    let h := adtsFields a
    s!"ok v={hexField (Spec.Aac.build h)} valid={if decide h.OK then 1 else 0}"
  | "AC3" =>
    let h := ac3Fields a
    s!"ok v={hexField h.build} valid={if decide h.OK then 1 else 0}"
  | "EAC3" =>
    let h := eac3Fields a
    s!"ok v={hexField h.build} valid={if decide h.OK then 1 else 0}"
  | "ADIF" =>
    let h := adifFields a
    s!"ok v={hexField h.build} valid={if decide h.OK then 1 else 0}"
  | "PCE" =>
    let p := pceOf a "0"
    let pos := a.nat "pos"
    s!"ok v={hexField (Mutagen.bitsToBytes (List.replicate pos false ++ p.bits pos))} valid={if decide p.OK then 1 else 0}"
  | _ => "bad-op"

def infoAOp (a : Args) : String :=
  match a.str "op" "parse" with
  | "parse" => infoAParse (a.str "kind") (a.bytes "data") a
  | "build" => infoABuild (a.str "kind") a
  | "expect" => infoAExpect (a.str "kind") a
  | _ => "bad-op"

end Driver
