/- Driver/Asf.lean — ASF files: save, delete, two saves through one object, the object walk with the
loaded tags, the decision logic of ASF.save, the strict reader -/
import MutagenModel.Model.Container.Asf
import MutagenModel.Model.Container.AsfM
import Driver.FileOps
import Driver.Util
import Driver.FlacC
namespace Driver
open Mutagen Mutagen.Asf

/-- code points from UTF-32-LE hex -/
def asfCpsOf (s : String) : List Nat :=
  let rec go : Bytes → List Nat → List Nat
    | a :: b :: c :: d :: r, acc => go r ((a.toNat + 256 * b.toNat + 65536 * c.toNat + 16777216 * d.toNat) :: acc)
    | _, acc => acc.reverse
  go (parseHexField s) []

def asfCpsHex (cs : List Nat) : String :=
  hexField (cs.map fun c => toLE 4 c).flatten

def asfOptOf (s : String) : Option Nat := if s == "-" then none else s.toNat?
def asfOptStr (o : Option Nat) : String := match o with | none => "-" | some n => toString n

/-- `typ:lang:stream:name:value` -/
def asfTagOf (s : String) : Option Tag :=
  match s.splitOn ":" with
  | [t, l, st, n, v] =>
    let val : Option Val := match t with
      | "0" => some (.unicode (asfCpsOf v))
      | "1" => some (.bytes (parseHexField v))
      | "2" => some (.bool (v == "1"))
      | "3" => v.toNat?.map Val.dword
      | "4" => v.toNat?.map Val.qword
      | "5" => v.toNat?.map Val.word
      | "6" => some (.guid (parseHexField v))
      | _ => none
    val.map fun x => { name := asfCpsOf n, val := x, language := asfOptOf l, stream := asfOptOf st }
  | _ => none

def asfTagsOf (s : String) : List Tag :=
  if s == "-" || s == "" then [] else (s.splitOn ",").filterMap asfTagOf

def asfTagStr (t : Tag) : String :=
  let v := match t.val with
    | .unicode cs => asfCpsHex cs
    | .bytes b => hexField b
    | .bool x => if x then "1" else "0"
    | .dword n => toString n
    | .qword n => toString n
    | .word n => toString n
    | .guid b => hexField b
  s!"{t.val.typ}:{asfOptStr t.language}:{asfOptStr t.stream}:{asfCpsHex t.name}:{v}"

def asfTagsStr (ts : List Tag) : String :=
  if ts.isEmpty then "-" else ",".intercalate (ts.map asfTagStr)

def asfLeafStr : Leaf → String
  | .raw g d => s!"r{toHex g}.{d.length}"
  | .cd d => s!"cd.{d.length}"
  | .ecd d => s!"ecd.{d.length}"
  | .mo d => s!"m.{d.length}"
  | .metaLib d => s!"ml.{d.length}"

def asfObjStr : Obj → String
  | .leaf l => asfLeafStr l
  | .ext cs => "x(" ++ ";".intercalate (cs.map asfLeafStr) ++ ")"

def asfSubStr : SubItem → String
  | .foreign o => s!"f{toHex o.guid}.{o.data.length}"
  | .mo d => s!"m.{d.length}"
  | .metaLib d => s!"ml.{d.length}"
  | .pad d => s!"p.{d.length}"

def asfItemStr : Item → String
  | .foreign o => s!"f{toHex o.guid}.{o.data.length}"
  | .cd d => s!"cd.{d.length}"
  | .ecd d => s!"ecd.{d.length}"
  | .pad d => s!"p.{d.length}"
  | .ext subs => "x(" ++ ";".intercalate (subs.map asfSubStr) ++ ")"

def asfJoinOr (l : List String) : String := if l.isEmpty then "-" else ",".intercalate l

def asfOp (a : Args) : String :=
  let ex (r : Except PyErr Bytes) : String :=
    match r with
    | .ok b => s!"ok v={hexField b}"
    | .error e => s!"err {e.name}"
  let pad2 : PadChoice := padOf [("pad", a.str "pad2" "default")]
  match a.str "op" with
  | "save" => ex (save (a.bytes "data") (asfTagsOf (a.str "tags" "-")) (padOf a))
  | "delete" => ex (delete (a.bytes "data"))
  | "save2" =>
    match saveTwice (a.bytes "data") (asfTagsOf (a.str "tags" "-")) (padOf a) (asfTagsOf (a.str "tags2" "-")) pad2 with
    | .ok (f1, f2) => s!"ok v1={hexField f1} v2={hexField f2}"
    | .error e => s!"err {e.name}"
  | "walk" =>
    match parseFull (a.bytes "data") with
    | .error e => s!"err {e.name}"
    | .ok objs => s!"ok objs={asfJoinOr (objs.map asfObjStr)} tags={asfTagsStr (loadedTags objs)}"
  | "dist" =>
    match distribute (asfTagsOf (a.str "tags" "-")) with
    | .error e => s!"err {e.name}"
    | .ok d => s!"ok cd={asfTagsStr d.cd} ecd={asfTagsStr d.ecd} m={asfTagsStr d.mo} ml={asfTagsStr d.ml}"
  -- ASF.save / ASF.delete as programs on the file object, in a fault environment (`fail=<i>:<err>`, `short=<i>:<k>`,
  -- `cap=<n>`, `leak=<n>`, `B=<buffer size>`); the object tree is that of a fault-free load of `data`
  | "savem" =>
    match parseFull (a.bytes "data") with
    | .error e => s!"err-load {e.name}"
    | .ok objs =>
      showResult (saveM (a.nat "B" 1048576) objs (asfTagsOf (a.str "tags" "-")) (padOf a) (envOf a) { data := a.bytes "data", pos := a.nat "pos" 0 })
  -- ASF(fileobj) as a program on the file object in a fault environment: outcome, bytes, position, call log and
  -- (on success) the object tree with the tags it loads
  | "loadm" =>
    showResult (loadM (envOf a) { data := a.bytes "data", pos := a.nat "pos" 0 })
      (fun objs => s!"objs={asfJoinOr (objs.map asfObjStr)} tags={asfTagsStr (loadedTags objs)}")
  | "deletem" =>
    match parseFull (a.bytes "data") with
    | .error e => s!"err-load {e.name}"
    | .ok objs => showResult (deleteM (a.nat "B" 1048576) objs (envOf a) { data := a.bytes "data", pos := a.nat "pos" 0 })
  | "read" =>
    match readLayout (a.bytes "data") with
    | none => "ok wellformed=0"
    | some L => s!"ok wellformed=1 top={asfJoinOr (L.top.map asfItemStr)} rest={L.rest.length}"
  | _ => "bad-op"

end Driver
