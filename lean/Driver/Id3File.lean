/- Driver/Id3File.lean — ID3-framed file container commands (C02/C03/C07/C08/C09 for MP3-like files) -/
import MutagenModel.Model.Container.Id3File
import MutagenModel.Model.Container.Id3FileM
import MutagenModel.Model.Container.Id3FileLoadM
import Driver.Util
import Driver.FlacC
namespace Driver
open Mutagen Mutagen.Id3F

def exB (r : Except PyErr Bytes) : String :=
  match r with
  | .ok b => s!"ok v={hexField b}"
  | .error e => s!"err {e.name}"

def id3fOp (a : Args) : String :=
  match a.str "op" with
  | "save" => exB (save (a.bytes "data") (a.nat "vmaj" 4) (a.bytes "frames") (padOf a) (a.nat "v1opt" 1) (a.bytes "v1blk"))
  | "delete" => exB (delete (a.bytes "data") (a.nat "v1" 1 == 1) (a.nat "v2" 1 == 1))
  -- the FileM programs with a fault schedule / capacity (`fail=<i>:<err> short=<i>:<k> cap=<n> leak=<n> B=<n>`)
  | "savem" =>
    showResult (saveM (a.nat "B" 1048576) (a.nat "vmaj" 4) (a.bytes "frames") (padOf a) (a.nat "v1opt" 1) (a.bytes "v1blk")
      (envOf a) { data := a.bytes "data" })
  | "deletem" =>
    showResult (deleteM (a.nat "B" 1048576) (a.nat "v1" 1 == 1) (a.nat "v2" 1 == 1) (envOf a) { data := a.bytes "data" })
  -- `ID3(fileobj)` / the bare `ID3FileType(fileobj)` under a fault schedule (`fail=<i>:<err> short=<i>:<k>`)
  | "loadm" =>
    let showL : Loaded → String := fun r => match r with
      | .noHeader => "r=noheader" | .unsupported => "r=unsupported" | .v1 n => s!"r=v1:{n}"
      | .v2 vmaj flags body v1 => s!"r=v2:{vmaj}:{flags}:{hexField body}:{match v1 with | some n => toString n | none => "-"}"
    let prog := if a.str "cls" "id3" == "filetype" then fileTypeLoadM else loadM (a.nat "v1" 1 == 1)
    showResult (prog (envOf a) { data := a.bytes "data" }) showL
  | "findv1" => match findV1 (a.bytes "data") with | some n => s!"ok n={n}" | none => "ok n=0"
  | "hdr" => match headerSize (a.bytes "data") with
    | .ok (some n) => s!"ok size={n}" | .ok none => "ok size=none" | .error e => s!"err {e.name}"
  | _ => "bad-op"

end Driver
