/- Driver/Info.lean — stream-info decoders and specification-side builders -/
import MutagenModel.Model.Info.Mpeg
import MutagenModel.Model.Info.Flac
import MutagenModel.Spec.Mpeg
import Driver.Util
namespace Driver
open Mutagen

def mpegOp (a : Args) : String :=
  match a.str "op" with
  | "decode" =>
    match Mpeg.decodeHeader (a.bytes "data") with
    | .ok i => s!"ok ver={i.version10} lay={i.layer} br={i.bitrate} sr={i.sampleRate} ch={i.channels} mode={i.mode} pad={if i.padding then 1 else 0} prot={if i.crcProtected then 1 else 0} flen={i.frameLength}"
    | .error e => s!"err {e.name}"
  | "build" =>
    s!"ok v={hexField (Spec.Mpeg.buildHeader (a.nat "v") (a.nat "l") (a.nat "p") (a.nat "b") (a.nat "s") (a.nat "pad") (a.nat "priv") (a.nat "m") (a.nat "rest"))}"
  | "isolen" =>
    s!"ok v={Spec.Mpeg.isoFrameLength (a.nat "ver") (a.nat "lay") (a.nat "br") (a.nat "sr") (a.nat "pad")}"
  | _ => "bad-op"

def flacInfoOp (a : Args) : String :=
  match a.str "op" with
  | "siload" =>
    match Flac.siLoad (a.bytes "data") with
    | .ok s => s!"ok minbs={s.minBlocksize} maxbs={s.maxBlocksize} minfs={s.minFramesize} maxfs={s.maxFramesize} sr={s.sampleRate} ch={s.channels} bps={s.bitsPerSample} total={s.totalSamples} md5={s.md5}"
    | .error e => s!"err {e.name}"
  | "siwrite" =>
    let s : Flac.StreamInfo :=
      { minBlocksize := (a.nat "minbs")
        maxBlocksize := (a.nat "maxbs")
        minFramesize := (a.nat "minfs")
        maxFramesize := (a.nat "maxfs")
        sampleRate := (a.nat "sr")
        channels := (a.nat "ch")
        bitsPerSample := (a.nat "bps")
        totalSamples := (a.nat "total")
        md5 := (a.nat "md5") }
    s!"ok v={hexField (Flac.siWrite s)}"
  | _ => "bad-op"

end Driver
