/- Driver/DictX.lean — command `dictx`: run an operation sequence on one of the stores of
Model/DictMp4.lean, Model/DictAsf.lean, Model/DictEasyMp4.lean, Model/DictEasyId3.lean and print
every output, canonicalised.

request   dictx kind=mp4|asf|easymp4|easyid3 ops=<op>,<op>,…          (`ops=-` or no `ops`: empty sequence)
          dictx table=mp4atoms                    the model's copy of a table of /repo
          dictx kind=filevc|fileape|fileid3 tags=0|1 init=<pairs> ops=…   a FileType over its tags (see fileKindOp)
  <op>    get:<k>  set:<k>:<v>  del:<k>  in:<k>  keys  values  items  len  clear
          pop:<k>  popd:<k>:<v>  popitem  upd[:<k>:<v>]…  setd:<k>:<v>  getd:<k>:<v>
          native  (Easy views only: the wrapped native tags, see the kind)
  <k>     s<hex of UTF-8> (str) | i<decimal> | n (None) | b<hex> (bytes) | t[_<prim>]… (tuple)
          | L[_<prim>]… (list, unhashable)
  <prim>  s<hex of UTF-8> | b<hex> | i<decimal> | n | B0 / B1 (bool) | f<thousandths> (float)
  <item>  <prim> | t[_<prim>]… (tuple) | c<format>_<hex> (MP4Cover) | a<TYPE>_<prim> (ASF attribute)
  <v>     <item> | l[.<item>]… (list)
answer    ok out=<o>|<o>|…   one <o> per operation (`ok out=-` for the empty sequence)
  <o>     N (returned None)  B0 / B1  V<v>  L<n>  E<PyErr name>
          K<k>;<k>…   keys, sorted as encoded strings
          I<k>~<v>;…  items, sorted by encoded key
          W<v>;<v>…   values in the order of the sorted keys
          P<k>~<v>    what popitem returned
          X<…>        answer to `native`
`bad-op` for an unknown kind or an unparsable operation. -/
import MutagenModel.Model.DictMp4
import MutagenModel.Model.DictAsf
import MutagenModel.Model.DictEasyMp4
import MutagenModel.Model.DictEasyId3
import MutagenModel.Model.DictFile
import MutagenModel.Model.Utf8
import Driver.Util
import Driver.Dict
namespace Driver
open Mutagen Mutagen.Dict

def xText (hex : String) : Text := textOfBytes (parseHex hex)
def xHexOfText (t : Text) : String := toHex (Utf8.encode t)

def decPrim (s : String) : Option Prim :=
  match s.toList with
  | 's' :: h => some (.str (xText (String.ofList h)))
  | 'b' :: h => some (.bytes (parseHex (String.ofList h)))
  | 'i' :: d => (String.ofList d).toInt?.map Prim.int
  | ['n'] => some .none
  | ['B', '0'] => some (.bool false)
  | ['B', '1'] => some (.bool true)
  | 'f' :: d => (String.ofList d).toInt?.map Prim.float
  | _ => none

def encPrim : Prim → String
  | .str t => "s" ++ xHexOfText t
  | .bytes b => "b" ++ toHex b
  | .int n => "i" ++ toString n
  | .none => "n"
  | .bool b => if b then "B1" else "B0"
  | .float m => "f" ++ toString m

def decItem (s : String) : Option Item :=
  match s.splitOn "_" with
  | "t" :: ps => (ps.mapM decPrim).map Item.tuple
  | [c, h] =>
    match c.toList with
    | 'c' :: d => (String.ofList d).toNat?.map (Item.cover (parseHex h))
    | 'a' :: d =>
      match (String.ofList d).toNat?, decPrim h with
      | some ty, some p => some (.asf ty p)
      | _, _ => none
    | _ => none
  | [p] => (decPrim p).map Item.prim
  | _ => none

def encItem : Item → String
  | .prim p => encPrim p
  | .tuple l => "_".intercalate ("t" :: l.map encPrim)
  | .cover b f => "c" ++ toString f ++ "_" ++ toHex b
  | .asf ty p => "a" ++ toString ty ++ "_" ++ encPrim p

def decPVal (s : String) : Option PVal :=
  match s.splitOn "." with
  | "l" :: items => (items.mapM decItem).map PVal.list
  | [a] => (decItem a).map PVal.item
  | _ => none

def encPVal : PVal → String
  | .item i => encItem i
  | .list l => ".".intercalate ("l" :: l.map encItem)

def decPKey (s : String) : Option PKey :=
  match s.splitOn "_" with
  | "t" :: ps => (ps.mapM decPrim).map PKey.tuple
  | "L" :: ps => (ps.mapM decPrim).map PKey.list
  | [p] =>
    match decPrim p with
    | some (.str t) => some (.str t)
    | some (.int n) => some (.int n)
    | some .none => some .none
    | some (.bytes b) => some (.bytes b)
    | _ => none
  | _ => none

def encPKey : PKey → String
  | .str t => "s" ++ xHexOfText t
  | .int n => "i" ++ toString n
  | .none => "n"
  | .bytes b => "b" ++ toHex b
  | .tuple l => "_".intercalate ("t" :: l.map encPrim)
  | .list l => "_".intercalate ("L" :: l.map encPrim)

def decXPairs : List String → Option (List (PKey × PVal))
  | [] => some []
  | k :: v :: rest =>
    match decPKey k, decPVal v, decXPairs rest with
    | some k', some v', some r => some ((k', v') :: r)
    | _, _, _ => none
  | _ => none

/-- an operation of the sequence: a mapping operation, or the observation `native` -/
inductive XOp
  | op (o : Op PKey PVal)
  | native

def decXOp (s : String) : Option XOp :=
  match s.splitOn ":" with
  | ["get", k] => (decPKey k).map (fun k => .op (.get k))
  | ["set", k, v] => match decPKey k, decPVal v with
    | some k, some v => some (.op (.set k v))
    | _, _ => none
  | ["del", k] => (decPKey k).map (fun k => .op (.del k))
  | ["in", k] => (decPKey k).map (fun k => .op (.contains k))
  | ["keys"] => some (.op .keys)
  | ["values"] => some (.op .values)
  | ["items"] => some (.op .items)
  | ["len"] => some (.op .len)
  | ["clear"] => some (.op .clear)
  | ["pop", k] => (decPKey k).map (fun k => .op (.pop k))
  | ["popd", k, v] => match decPKey k, decPVal v with
    | some k, some v => some (.op (.popD k v))
    | _, _ => none
  | ["popitem"] => some (.op .popitem)
  | "upd" :: rest => (decXPairs rest).map (fun l => .op (.update l))
  | ["setd", k, v] => match decPKey k, decPVal v with
    | some k, some v => some (.op (.setdefault k v))
    | _, _ => none
  | ["getd", k, v] => match decPKey k, decPVal v with
    | some k, some v => some (.op (.getD k v))
    | _, _ => none
  | ["native"] => some .native
  | _ => none

def xSortedItems (l : List (PKey × PVal)) : List (String × String) :=
  (l.map (fun p => (encPKey p.1, encPVal p.2))).mergeSort (fun a b => !(b.1 < a.1))

def encXOut : Out PKey PVal → String
  | .unit => "N"
  | .bool b => if b then "B1" else "B0"
  | .val v => "V" ++ encPVal v
  | .keys l => "K" ++ ";".intercalate ((l.map encPKey).mergeSort (fun a b => !(b < a)))
  | .vals l => "W" ++ ";".intercalate (l.map encPVal)
  | .items l => "I" ++ ";".intercalate ((xSortedItems l).map (fun p => p.1 ++ "~" ++ p.2))
  | .nat n => "L" ++ toString n
  | .item k v => "P" ++ encPKey k ++ "~" ++ encPVal v
  | .err e => "E" ++ e.name

/-- run; `values` is reported in the order of the sorted keys (through `items`, read-only);
`native` prints the state through `shw` -/
def xRun {S : Type} (step : S → Op PKey PVal → Out PKey PVal × S) (shw : S → String) : List XOp → S → List String
  | [], _ => []
  | .native :: ops, s => ("X" ++ shw s) :: xRun step shw ops s
  | .op op :: ops, s =>
    let r := step s op
    let o := match op, r.1 with
      | .values, .vals _ =>
        match (step s .items).1 with
        | .items l => "W" ++ ";".intercalate ((xSortedItems l).map (·.2))
        | _ => encXOut r.1
      | _, o => encXOut o
    o :: xRun step shw ops r.2

def showMp4Kind : Mp4Kind → String
  | .freeform => "freeform" | .pair => "pair" | .pairNoTrailing => "pairnt" | .genre => "genre"
  | .integer n => "int" ++ toString n | .bool => "bool" | .cover => "cover" | .text => "text"

def showEMKind : EMKind → String
  | .text => "text" | .int lo hi => s!"int{lo}..{hi}" | .pair lo hi => s!"pair{lo}..{hi}" | .freeform => "freeform"

/-- the native MP4Tags of an EasyMP4Tags: its items, sorted by key -/
def showMp4Native (s : Mp4) : String := ";".intercalate ((xSortedItems s).map (fun p => p.1 ++ "~" ++ p.2))

def showEIKind : EIKind → String
  | .text fid => "text:" ++ xHexOfText fid | .txxx d => "txxx:" ++ xHexOfText d | .genre => "genre"
  | .date fid => "date:" ++ xHexOfText fid | .performer => "performer" | .trackid => "trackid"
  | .website => "website" | .gain => "gain" | .peak => "peak"

def showIFrame : IFrame → String
  | .text enc l => s!"T{enc}:" ++ ".".intercalate (l.map xHexOfText)
  | .stamps enc l => s!"S{enc}:" ++ ".".intercalate (l.map xHexOfText)
  | .tmcl enc p => s!"M{enc}:" ++ ".".intercalate (p.map (fun x => xHexOfText x.1 ++ "-" ++ xHexOfText x.2))
  | .ufid o d => "U" ++ xHexOfText o ++ ":" ++ toHex d
  | .woar u => "W" ++ xHexOfText u
  | .rva2 d ch g p => s!"R{xHexOfText d}:{ch}:{g}:{p}"

/-- the native ID3 of an EasyID3: HashKey~frame, sorted by HashKey -/
def showId3Native (s : Id3) : String :=
  ";".intercalate (((s.map (fun p => (xHexOfText p.1, showIFrame p.2))).mergeSort (fun a b => !(b.1 < a.1))).map
    (fun p => p.1 ++ "~" ++ p.2))

def xTable (name : String) : Option String :=
  match name with
  | "easyid3" =>
    some (";".intercalate (easyId3Registry.map (fun e => xHexOfText e.key ++ ":" ++ showEIKind e.kind)))
  | "easymp4" =>
    some (";".intercalate (easyMp4Registry.map (fun e => xHexOfText e.key ++ ":" ++ xHexOfText e.atom ++ ":" ++ showEMKind e.kind)))
  | "mp4atoms" =>
    some (";".intercalate ((mp4Atoms.map (fun p => toHex (p.1.map UInt8.ofNat) ++ ":" ++ showMp4Kind p.2)).mergeSort
      (fun a b => !(b < a))))
  | _ => none

/-- initial Vorbis comment of a FLAC / Ogg file: `<k>:<atom>;…` in list order -/
def decVcInit (s : String) : Option VC :=
  if s == "-" || s == "" then some []
  else (s.splitOn ";").mapM (fun (p : String) => match p.splitOn ":" with
    | [k, a] => (decAtom a).map (fun x => (decKey k, x))
    | _ => none)

/-- initial APEv2 tag: `<k>:<v>;…` (values as stored: text `s…`, binary `b…`) -/
def decApeInit (s : String) : Option CI :=
  if s == "-" || s == "" then some CI.empty
  else
    let pairs : Option (List (Text × Val)) := (s.splitOn ";").mapM (fun (p : String) => match p.splitOn ":" with
      | [k, v] => (decVal v).map (fun x => (decKey k, x))
      | _ => none)
    pairs.map (fun l => l.foldl (fun acc p => ciSet acc p.1 p.2) CI.empty)

/-- initial ID3 tag: `<k>~<v>;…` -/
def decId3Init (s : String) : Option (RefDict PKey PVal) :=
  if s == "-" || s == "" then some []
  else (s.splitOn ";").mapM (fun (p : String) => match p.splitOn "~" with
    | [k, v] => match decPKey k, decPVal v with
      | some k', some v' => some (k', v')
      | _, _ => none
    | _ => none)

/-- kinds `filevc` / `fileape` (operations and outputs in the language of the command `dict`) and
`fileid3` (language of `dictx`): `FileType` over the tag store, `tags=0` = `tags is None`,
`init=` the loaded tags -/
def fileKindOp (a : Args) : Option String :=
  let opsStr := a.str "ops" "-"
  let toks := if opsStr == "-" || opsStr == "" then [] else opsStr.splitOn ","
  let some1 := a.nat "tags" 1 == 1
  let fin (outs : List String) := "ok out=" ++ (if outs.isEmpty then "-" else "|".intercalate outs)
  match a.str "kind" with
  | "filevc" =>
    match toks.mapM decOp, decVcInit (a.str "init" "-") with
    | some ops, some s0 =>
      some (fin (runEnc (fileStep vcImpl (.ok [])) ops (if some1 then some s0 else none)))
    | _, _ => some "bad-op"
  | "fileape" =>
    match toks.mapM decOp, decApeInit (a.str "init" "-") with
    | some ops, some s0 =>
      some (fin (runEnc (fileStep apeImpl (.ok CI.empty)) ops (if some1 then some s0 else none)))
    | _, _ => some "bad-op"
  | "fileid3" =>
    match toks.mapM decXOp, decId3Init (a.str "init" "-") with
    | some ops, some s0 =>
      some (fin (xRun (fileStep id3TagImpl (.ok [])) (fun _ => "") ops (if some1 then some s0 else none)))
    | _, _ => some "bad-op"
  | _ => none

def dictxOpMain (a : Args) : String :=
  if a.has "table" then
    match xTable (a.str "table") with
    | some t => "ok table=" ++ t
    | none => "bad-op"
  else
  let opsStr := a.str "ops" "-"
  let toks := if opsStr == "-" || opsStr == "" then [] else opsStr.splitOn ","
  match toks.mapM decXOp with
  | none => "bad-op"
  | some ops =>
    let outs? : Option (List String) :=
      match a.str "kind" with
      | "mp4" => some (xRun mp4Impl.step (fun _ => "") ops [])
      | "asf" => some (xRun asfStep (fun _ => "") ops [])
      | "easymp4" => some (xRun easyMp4Impl.step showMp4Native ops [])
      | "easyid3" => some (xRun easyId3Step showId3Native ops [])
      | _ => none
    match outs? with
    | none => "bad-op"
    | some outs => "ok out=" ++ (if outs.isEmpty then "-" else "|".intercalate outs)

def dictxOp (a : Args) : String :=
  match fileKindOp a with
  | some r => r
  | none => dictxOpMain a

end Driver
