/- Driver/Id3Spec.lean — ID3 spec / frame / nested-tag commands (`id3spec op=…`).

Values are written without spaces:
  i<int>                     integer                    i-3
  x<hex> | x-                byte string                xfffe00
  t<cp>,<cp>,… | t-          text as code points        t72,105
  [v;v;…] | []               list
  {NAME:v;v;…} | {NAME:}     nested frame (values of required specs, then set optional ones)

Requests (all `id3spec …`):
  op=wspec (cls=C field=F | kind=K) enc=E [N=n] [b=b] [ver=3|4] val=V      -> ok v=<hex>
  op=rspec (cls=C field=F | kind=K) enc=E [N=n] [b=b] [ver=2|3|4] data=H   -> ok v=V rest=<hex>
  op=wframe cls=C [ver=3|4] [sep=<cp,…>|none] vals=[V;…]                    -> ok v=<hex>
  op=rframe cls=C [ver=2|3|4] [uns=0|1] [flags=n] data=H                    -> ok v=[V;…] rest=<hex>
           (flags given: through `_fromData`; answer `ok v=junk|unsupported|compressed` possible)
  op=wtag [ver=3|4] [sep=…] frames=[{…};…]                                  -> ok v=<hex>
  op=rtag [ver=2|3|4] [uns=0|1] data=H                                      -> ok v=[{…};…] rest=<hex>
  op=bpi data=H                                                             -> ok v=0|1
  op=classes                                                                -> ok n=<count>
kinds K: byte pictureType ctocFlags channel encoding string:<n> frameId:<n> binary
  encText:<tk> multi:<tk>+<tk>… latin1Text latin1List sizedInt:<n> integer volAdj volPeak
  syncText keyEvent volAdjs aspiIndex frames rva:<n>      tk: plain numeric numericPart timeStamp
-/
import MutagenModel.Model.Id3Spec
import MutagenModel.Generated.Id3Table
import Driver.Util
namespace Driver
open Mutagen Mutagen.Id3

namespace Id3P

def showText (t : Text) : String := if t.isEmpty then "-" else ",".intercalate (t.map toString)

partial def showVal : Val → String
  | .int i => s!"i{i}"
  | .bytes b => "x" ++ hexField b
  | .text t => "t" ++ showText t
  | .list l => "[" ++ ";".intercalate (l.map showVal) ++ "]"
  | .frame id vs => "{" ++ id ++ ":" ++ ";".intercalate (vs.map showVal) ++ "}"

def isStop (c : Char) : Bool := c == ';' || c == ']' || c == '}'

def takeAtom (cs : List Char) : List Char × List Char := (cs.takeWhile (fun c => !isStop c), cs.dropWhile (fun c => !isStop c))

mutual
partial def parseVal : List Char → Option (Val × List Char)
  | 'i' :: r =>
    let (a, rest) := takeAtom r
    (String.ofList a).toInt?.map (fun i => (Val.int i, rest))
  | 'x' :: r =>
    let (a, rest) := takeAtom r
    some (.bytes (parseHexField (String.ofList a)), rest)
  | 't' :: r =>
    let (a, rest) := takeAtom r
    some (.text (natList (String.ofList a)), rest)
  | '[' :: r =>
    match parseSeq r ']' with
    | some (vs, rest) => some (.list vs, rest)
    | none => none
  | '{' :: r =>
    let name := r.takeWhile (· != ':')
    match r.dropWhile (· != ':') with
    | ':' :: r' =>
      match parseSeq r' '}' with
      | some (vs, rest) => some (.frame (String.ofList name) vs, rest)
      | none => none
    | _ => none
  | _ => none
partial def parseSeq (cs : List Char) (close : Char) : Option (List Val × List Char) :=
  match cs with
  | c :: r =>
    if c == close then some ([], r)
    else
      match parseVal cs with
      | some (v, ';' :: rest) =>
        match parseSeq rest close with
        | some (vs, rest') => some (v :: vs, rest')
        | none => none
      | some (v, c' :: rest) => if c' == close then some ([v], rest) else none
      | _ => none
  | [] => none
end

def parseValStr (s : String) : Option Val :=
  match parseVal s.toList with
  | some (v, []) => some v
  | _ => none

def parseTextKind (s : String) : Option TextKind :=
  match s with
  | "plain" => some .plain | "numeric" => some .numeric | "numericPart" => some .numericPart
  | "timeStamp" => some .timeStamp | _ => none

def parseKind (s : String) : Option SpecKind :=
  match s.splitOn ":" with
  | ["byte"] => some .byte | ["pictureType"] => some .pictureType | ["ctocFlags"] => some .ctocFlags
  | ["channel"] => some .channel | ["encoding"] => some .encoding | ["binary"] => some .binary
  | ["latin1Text"] => some .latin1Text | ["latin1List"] => some .latin1List | ["integer"] => some .integer
  | ["volAdj"] => some .volAdj | ["volPeak"] => some .volPeak | ["syncText"] => some .syncText
  | ["keyEvent"] => some .keyEvent | ["volAdjs"] => some .volAdjs | ["aspiIndex"] => some .aspiIndex
  | ["frames"] => some .frames
  | ["string", n] => n.toNat?.map .string
  | ["frameId", n] => n.toNat?.map .frameId
  | ["sizedInt", n] => n.toNat?.map .sizedInt
  | ["rva", n] => n.toNat?.map .rva
  | ["encText", k] => (parseTextKind k).map .encText
  | ["multi", ks] => ((ks.splitOn "+").mapM parseTextKind).map .multi
  | _ => none

def tbl : Table := Mutagen.Id3Table.frames

def findClass (name : String) : Option FrameClass := tbl.find (nameBytes name)

def kindOf (a : Args) : Option SpecKind :=
  if a.has "kind" then parseKind (a.str "kind")
  else
    match findClass (a.str "cls") with
    | none => none
    | some cls => ((cls.required ++ cls.optional).find? (fun s => s.name == a.str "field")).map (·.kind)

def ctxOf (a : Args) : Ctx :=
  { enc := if a.has "enc" then some (a.int "enc") else none,
    aspiN := if a.has "N" then some (a.int "N") else none,
    aspiB := if a.has "b" then some (a.int "b") else none }

def cfgOf (a : Args) : Cfg :=
  { version := a.nat "ver" 4,
    sep := if a.has "sep" && a.str "sep" != "none" then some (natList (a.str "sep")) else none }

def hdrOf (a : Args) : Hdr := { version := a.nat "ver" 4, unsynch := a.nat "uns" 0 == 1 }

def showErr {α} (r : Except PyErr α) (f : α → String) : String :=
  match r with
  | .ok x => "ok " ++ f x
  | .error e => s!"err {e.name}"

end Id3P

open Id3P in
def id3specOp (a : Args) : String :=
  match a.str "op" with
  | "wspec" =>
    match kindOf a, parseValStr (a.str "val") with
    | some k, some v => showErr (writeSpec (writeTag tbl) (cfgOf a) k (ctxOf a) v) (fun b => "v=" ++ hexField b)
    | _, _ => "bad-args"
  | "rspec" =>
    match kindOf a with
    | some k => showErr (readSpec (readTag tbl) (hdrOf a) k (ctxOf a) (a.bytes "data"))
        (fun r => "v=" ++ showVal r.1 ++ " rest=" ++ hexField r.2)
    | none => "bad-args"
  | "wframe" =>
    match findClass (a.str "cls"), parseValStr (a.str "vals") with
    | some cls, some (.list vs) => showErr (writeFrame (writeTag tbl) (cfgOf a) cls vs) (fun b => "v=" ++ hexField b)
    | _, _ => "bad-args"
  | "rframe" =>
    match findClass (a.str "cls") with
    | some cls =>
      if a.has "flags" then
        match fromData (readTag tbl) (hdrOf a) cls (a.nat "flags") (a.bytes "data") with
        | .frame vs => "ok v=" ++ showVal (.list vs)
        | .junk => "ok v=junk"
        | .unsupported => "ok v=unsupported"
        | .compressed => "ok v=compressed"
        | .raised e => s!"err {e.name}"
      else
        showErr (readFrame (readTag tbl) (hdrOf a) cls (a.bytes "data"))
          (fun r => "v=" ++ showVal (.list r.1) ++ " rest=" ++ hexField r.2)
    | none => "bad-args"
  | "wtag" =>
    match parseValStr (a.str "frames") with
    | some (.list fs) => showErr (writeTag tbl (cfgOf a) fs) (fun b => "v=" ++ hexField b)
    | _ => "bad-args"
  | "rtag" =>
    showErr (readTag tbl (hdrOf a) (a.bytes "data")) (fun r => "v=" ++ showVal (.list r.1) ++ " rest=" ++ hexField r.2)
  | "bpi" => s!"ok v={if determineBpi tbl (a.bytes "data") then 1 else 0}"
  | "classes" => s!"ok n={tbl.length}"
  | _ => "bad-op"

end Driver
