/- Driver/FileOps.lean — run the FileM programs of Model/FileOps.lean. -/
import MutagenModel.Model.FileOps
import Driver.Util
namespace Driver
open Mutagen

def showOp : Op → String
  | .seek p => s!"s{p}" | .seekEnd => "e" | .tell => "t" | .read n => s!"r{n}"
  | .write n => s!"w{n}" | .truncate n => s!"x{n}" | .flush => "f"

def showLog (l : List Op) : String :=
  if l.isEmpty then "-" else ",".intercalate (l.reverse.map showOp)

/-- `fail=<i>:<err>`  `short=<i>:<k>`  `cap=<n>`  `leak=<n>` (bytes of the failing write that land) -/
def envOf (a : Args) : Env :=
  let fail : Option (Nat × PyErr) := (a.get? "fail").bind fun v =>
    match v.splitOn ":" with
    | [i, e] => i.toNat?.map (·, parseErr e)
    | _ => none
  let short : Option (Nat × Nat) := (a.get? "short").bind fun v =>
    match v.splitOn ":" with
    | [i, k] => (i.toNat?.bind fun i' => k.toNat?.map (i', ·))
    | _ => none
  { failAt := fun i => match fail with | some (j, e) => if i = j then some e else none | none => none
    shortAt := fun i => match short with | some (j, k) => if i = j then some k else none | none => none
    cap := (a.get? "cap").bind String.toNat?
    leak := fun _ => a.nat "leak" 0 }

def showResult {α} (r : Except PyErr α × FS) (val : α → String := fun _ => "") : String :=
  let head := match r.1 with
    | .ok a => let v := val a; if v.isEmpty then "ok" else s!"ok {v}"
    | .error e => s!"err {e.name}"
  s!"{head} data={hexField r.2.data} pos={r.2.pos} log={showLog r.2.log}"

def fileOp (a : Args) : String :=
  let e := envOf a
  let s : FS := { data := a.bytes "data", pos := a.nat "pos" 0 }
  let B := a.nat "B" 1048576
  match a.str "op" with
  | "move" => showResult (moveBytes B (a.int "a") (a.int "b") (a.int "c") e s)
  | "insert" => showResult (insertBytes B (a.int "a") (a.int "b") e s)
  | "delete" => showResult (deleteBytes B (a.int "a") (a.int "b") e s)
  | "resize" => showResult (resizeBytes B (a.int "a") (a.int "b") (a.int "c") e s)
  | "resizefile" => showResult (resizeFile B (a.int "a") e s)
  | "getsize" => showResult (getSize e s) (fun n => s!"v={n}")
  | "seekend" => showResult (seekEndBy (a.int "a") e s)
  | "readfull" => showResult (readFull (a.int "a") e s) (fun b => s!"v={hexField b}")
  | _ => "bad-op"

end Driver
