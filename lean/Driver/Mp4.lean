/- Driver/Mp4.lean — MP4 commands: the model's parser / strict walker on real bytes, and the
bookkeeping of MP4Tags.save (Model/Container/Mp4.lean) on a real file.

  mp4 op=consts
      -> ok containers=<name,name,…> skip=<name:n,…>
  mp4 op=walk data=<hex>
      -> ok strict=<0|1> tree=<name@offset+length[(children)];…> offsets=<n,n,…|->
         tree: mutagen's parser (`Atoms`), names in hex; offsets: every stco/co64 entry and tfhd
         base_data_offset, in file order, read by the strict walker (strict=1) or, for files the
         strict walker rejects, from the parsed atoms
  mp4 op=region data=<hex>
      -> ok off=<o> old=<n> parents=<offset,offset,…>     (what __save_existing/__save_new would replace)
  mp4 op=save data=<hex> [off=<o> old=<n>] (new=<hex> | after=<hex>)
      -> ok|err <PyErr> off=<o> old=<n> newlen=<n> covered=<0|1> data=<hex>
         the file after splice + __update_parents + __update_offsets; covered=1: the hypotheses of
         Props/C10 `chunk_offsets_follow_partial` hold for this save and every recorded offset is
         `MediaClear` for windows of n (default 16) bytes.  Without off/old the model's
         own region is used; with `after` (the real file after the real save) the new bytes are
         taken from it: after[off : off + old + (len(after) - len(data))].
  mp4 op=c04 kind=<load|save|addsave|delete|savetags> mem=<0|1> data=<hex> [ilst=<hex>] [pad=<default|n>]
      -> load: ok tags=<0|1> | err <PyErr>;  the others: ok|err <PyErr> data=<hex>
         `load` / `openSave` / `openDelete` / `saveTags` of the model (Props/C04_Mp4): MP4(fileobj), then
         save / add_tags+save / delete through it (savetags: MP4Tags.save into this file without loading it);
         mem=1: the file object is an io.BytesIO, mem=0: a real file; ilst = Atom.render(b"ilst", values)
  mp4 op=m data=<hex> ilst=<hex> [pad=<default|n>] [pos=<n>] [B=<n>] [fail=<i>:<err>] [short=<i>:<k>] [cap=<n>] [leak=<n>]
      -> ok|err <PyErr> data=<hex> pos=<n> log=<calls>
         `saveEntryM` (Model/Container/Mp4M.lean): MP4Tags.save as a program over the file object, from the first call after
         `Atoms(fileobj)` on, in a fault environment (call indices count from that call); pos = where the parse left the file
-/
import MutagenModel.Model.Container.Mp4
import MutagenModel.Model.Container.Mp4M
import MutagenModel.Model.Container.Mp4LoadM
import MutagenModel.Model.Container.Mp4Reader
import MutagenModel.Model.Container.Mp4Chapters
import Driver.Util
import Driver.FlacC
namespace Driver
open Mutagen Mutagen.Mp4C

partial def descPAtom (a : PAtom) : String :=
  let kids := a.children
  s!"{toHex a.name}@{a.offset}+{a.length}" ++
    (if kids.isEmpty then "" else "(" ++ ";".intercalate (kids.map descPAtom) ++ ")")

partial def pOffsets (f : Bytes) (a : PAtom) : List Nat :=
  let payload := readAt f a.dataoffset (a.length - (a.dataoffset - a.offset))
  let own :=
    if a.name = nStco then (tableEntries 4 payload).getD []
    else if a.name = nCo64 then (tableEntries 8 payload).getD []
    else if a.name = nTfhd then (tfhdBase payload).toList
    else []
  own ++ (a.children.map (pOffsets f)).flatten

def showTagVal : Mp4R.TagVal → String
  | .text vs => "T:" ++ "|".intercalate (vs.map fun t => hexField (Utf8.encode t))
  | .freeform vs => "F:" ++ "|".intercalate (vs.map fun d => s!"{d.flags}.{d.version}.{hexField d.payload}")
  | .pairs vs => "P:" ++ "|".intercalate (vs.map fun p => s!"{p.1}/{p.2}")
  | .ints vs => "I:" ++ "|".intercalate (vs.map fun v => s!"{v}")
  | .bool b => "B:" ++ (if b then "1" else "0")
  | .covers vs => "C:" ++ "|".intercalate (vs.map fun c => s!"{c.1}.{hexField c.2}")

/-- `k=v;k=v` in insertion order (the harness sorts) -/
def showTags (t : Mp4R.Tags) : String :=
  let its := if t.items.isEmpty then "-" else ";".intercalate (t.items.map fun kv => s!"{toHex kv.1}={showTagVal kv.2}")
  let fl := if t.failed.isEmpty then "-" else ";".intercalate (t.failed.map fun kv => s!"{toHex kv.1}=" ++ "|".intercalate (kv.2.map hexField))
  s!"items={its} failed={fl}"

def mp4Op (a : Args) : String :=
  match a.str "op" with
  | "consts" =>
    let cs := ",".intercalate (containers.map toHex)
    let sk := ",".intercalate ((containers.filter (skipSize · ≠ 0)).map fun n => s!"{toHex n}:{skipSize n}")
    s!"ok containers={cs} skip={sk}"
  | "walk" =>
    let f := a.bytes "data"
    match parse f with
    | .error e => s!"err {e.name}"
    | .ok atoms =>
      let tree := if atoms.isEmpty then "-" else ";".intercalate (atoms.map descPAtom)
      match walkFile f with
      | some F => s!"ok strict=1 tree={tree} offsets={showNatList F.offsets}"
      | none => s!"ok strict=0 tree={tree} offsets={showNatList (atoms.map (pOffsets f)).flatten}"
  | "region" =>
    match parse (a.bytes "data") with
    | .error e => s!"err {e.name}"
    | .ok atoms =>
      match regionOf atoms with
      | none => "err mutagen"
      | some R => s!"ok off={R.offset} old={R.length} parents={showNatList (R.parents.map (·.offset))}"
  | "save" =>
    let f := a.bytes "data"
    match parse f with
    | .error e => s!"err {e.name}"
    | .ok atoms =>
      match regionOf atoms with
      | none => "err mutagen"
      | some R =>
        let off := a.nat "off" R.offset
        let old := a.nat "old" R.length
        let new : Bytes :=
          if a.has "after" then
            let after := a.bytes "after"
            readAt after off (old + after.length - f.length)
          else a.bytes "new"
        let r := saveAt f atoms R.parents off old new
        let head := match r.1 with | none => "ok" | some e => s!"err {e.name}"
        let cov := covered f atoms R.parents off old ((new.length : Int) - old) (a.nat "n" 16)
        s!"{head} off={off} old={old} newlen={new.length} covered={if cov then 1 else 0} data={hexField r.2}"
  | "sortkeys" =>
    -- `_item_sort_key` order: items=<keyhex>:<utf-8 of repr(value) as hex>,… -> ok order=<keyhex>,<keyhex>,…
    let its : List Mp4R.SItem := ((a.str "items").splitOn ",").filterMap fun t =>
      match t.splitOn ":" with
      | [k, r] => some { key := parseHexField k, repr := (Utf8.decode (parseHexField r)).getD [], rendered := [] }
      | _ => none
    "ok order=" ++ ",".intercalate ((Mp4R.sortItems its).map fun i => hexField i.key)
  | "readtags" =>
    -- mutagen's own reader (Model/Container/Mp4Reader.lean) on the children of moov.udta.meta.ilst of `data`
    -- -> ok none | ok items=<keyhex=K:values;…> failed=<namehex=hex|hex;…> | err mutagen
    let f := a.bytes "data"
    match parse f with
    | .error e => s!"err {e.name}"
    | .ok atoms =>
      match path? atoms ilstPath with
      | none => "ok none"
      | some p =>
        match p.getLast? with
        | none => "err mutagen"
        | some ilst =>
          let kids := ilst.children.map fun c => (c.name, c.length, Info.Mp4.atomRead f c)
          if kids.any (fun k => k.2.2.isNone) then "err mutagen"
          else
            match Mp4R.loadTags (kids.map fun k => (k.1, k.2.1, k.2.2.getD [])) {} with
            | none => "err mutagen"
            | some t => "ok " ++ showTags t
  | "loadm" =>
    -- `loadFullM` (Model/Container/Mp4Chapters.lean): MP4(fileobj) after loadfile's read(0), chapters included, in a fault environment
    -- -> ok tags=<-|n> items=<name:len,…> chap=<-|timescale;start:titlehex,…> | err <PyErr>   data=<hex> pos=<n> log=<calls>
    let s : FS := { data := a.bytes "data", pos := a.nat "pos" 0 }
    showResult (loadFullM (envOf a) s) (fun r =>
      (match r.base.tags with
      | none => "tags=- items=-"
      | some cs => s!"tags={cs.length} items=" ++ (if cs.isEmpty then "-" else ",".intercalate (cs.map fun c => s!"{toHex c.1}:{c.2.length}"))) ++
      (match r.chapters with
      | none => " chap=-"
      | some c => s!" chap={c.timescale};" ++ ",".intercalate (c.entries.map fun x => s!"{x.1}:{toHex (Utf8.encode x.2)}")))
  | "mf" =>
    -- `saveFullEntryM` (Mp4LoadM.lean): MP4Tags.save WITH the reads of Atoms(fileobj); call indices count from the first call
    -- behind loadfile's four probes
    let s : FS := { data := a.bytes "data", pos := a.nat "pos" 0 }
    showResult (saveFullEntryM (a.nat "B" 1048576) (a.bytes "ilst") (padOf a) (envOf a) s)
  | "m" =>
    let s : FS := { data := a.bytes "data", pos := a.nat "pos" 0 }
    showResult (saveEntryM (a.nat "B" 1048576) (a.bytes "ilst") (padOf a) (envOf a) s)
  | "c04" =>
    let f := a.bytes "data"
    let mem := a.nat "mem" 1 == 1
    let out (r : Option PyErr × Bytes) : String :=
      (match r.1 with | none => "ok" | some e => s!"err {e.name}") ++ s!" data={hexField r.2}"
    match a.str "kind" with
    | "load" => match load f with
      | .ok b => s!"ok tags={if b then 1 else 0}"
      | .error e => s!"err {e.name}"
    | "save" => out (openSave mem f false (a.bytes "ilst") (padOf a))
    | "addsave" => out (openSave mem f true (a.bytes "ilst") (padOf a))
    | "delete" => out (openDelete mem f)
    | "savetags" => out (saveTags mem f (a.bytes "ilst") (padOf a))
    | _ => "bad-op"
  | _ => "bad-op"

end Driver
