/- Driver/OpenFile.lean — loadfile/_openfile argument logic -/
import MutagenModel.Model.OpenFile
import Driver.Util
namespace Driver
open Mutagen Mutagen.OpenFile

def optStr (a : Args) (k : String) : Option String := if a.has k then some (a.str k) else none

/-- thing=none|path:<s>|pathlike:<s>|pathlikebad|obj:<id>:<r>:<w>|ft:<id>:<fn or -> ; kwfn=path:<s>|pathlike:<s>|pathlikebad kwobj=<id>:<r>:<w>
    inst=<s> method=0/1 writable=0/1 create=0/1 -/
def openOp (a : Args) : String :=
  let thing : Thing :=
    match (a.str "thing" "none").splitOn ":" with
    | ["path", p] => .path p
    | ["pathlike", p] => .pathLike (some p)
    | ["pathlikebad"] => .pathLike none
    | ["obj", i, r, w] => .fileobj i.toNat! (r == "1") (w == "1")
    | ["ft", i, fn] => .fileThing (if fn == "-" then none else some fn) i.toNat!
    | _ => .none
  let kwobj : Option (Nat × Bool × Bool) :=
    match (a.str "kwobj" "").splitOn ":" with
    | [i, r, w] => some (i.toNat!, r == "1", w == "1")
    | _ => none
  let kwfn : Option PathArg :=
    if !a.has "kwfn" then none else
    match (a.str "kwfn").splitOn ":" with
    | ["pathlike", p] => some (.pathLike (some p))
    | ["pathlikebad"] => some (.pathLike none)
    | ["path", p] => some (.plain p)
    | _ => some (.plain (a.str "kwfn"))
  let args : OpenFile.Args :=
    { filething := thing
      filenameKw := kwfn
      fileobjKw := kwobj
      instanceFilename := optStr a "inst"
      isMethod := (a.nat "method" 1 == 1)
      writable := (a.nat "writable" 0 == 1)
      create := (a.nat "create" 0 == 1) }
  match resolve args with
  | .ok (.useCaller id n) => s!"ok plan=caller id={id} name={n.getD "-"}"
  | .ok (.openPath p m c) => s!"ok plan=open path={p} mode={m} create={if c then 1 else 0}"
  | .error e => s!"err {e.name}"

end Driver
