/- Driver/FlacLoad.lean — FLAC.load: the pure model and the program over the file object (Model/Container/FlacLoad.lean) -/
import MutagenModel.Model.Container.FlacLoad
import MutagenModel.Model.Container.FlacSaveM
import Driver.FlacC
import Driver.Util
import Driver.FileOps
namespace Driver
open Mutagen Mutagen.FlacL

def showLoaded (l : Loaded) : String :=
  let one (b : LBlock) : String :=
    match b.body with
    | .streaminfo s => s!"{b.code}:si{s.sampleRate}.{s.totalSamples}"
    | .vc raw => s!"{b.code}:vc{raw.length}"
    | .other (.padding n) => s!"{b.code}:pad{n}"
    | .other (.seektable l) => s!"{b.code}:seek{l.length}"
    | .other (.cuesheet c) => s!"{b.code}:cue{c.tracks.length}"
    | .other (.picture p) => s!"{b.code}:pic{p.data.length}"
    | .other (.generic d) => s!"{b.code}:raw{d.length}"
  let bs := if l.blocks.isEmpty then "-" else ",".intercalate (l.blocks.map one)
  let au := match l.audioBytes with | some n => toString n | none => "-"
  s!"blocks={bs} audio={au}"

/-- `flacload data=… [pure=1] [pos=] [fail=i:err] [short=i:k]` -/
def flacloadOp (a : Args) : String :=
  let f := a.bytes "data"
  if a.nat "pure" 0 == 1 then
    match load f with
    | .ok l => s!"ok {showLoaded l}"
    | .error e => s!"err {e.name}"
  else
    showResult (loadEntry (envOf a) { data := f, pos := a.nat "pos" 0 }) showLoaded

/-- `flacsave data=… blocks=code:hex,… pad=… [B=] [fail=i:err] [short=i:k] [cap=n] [leak=n]`: FLAC.save with its real reads -/
def flacsaveOp (a : Args) : String :=
  showResult (saveRealEntry (a.nat "B" 1048576) (blocksOf (a.str "blocks" "-")) (padOf a) (envOf a) { data := a.bytes "data", pos := a.nat "pos" 0 })

end Driver
