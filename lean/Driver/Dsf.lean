/- Driver/Dsf.lean — DSF files with an ID3 tag at the metadata pointer: save, delete, walk, read -/
import MutagenModel.Model.Container.Dsf
import MutagenModel.Model.Container.DsfFull
import MutagenModel.Model.Container.DsfM
import MutagenModel.Model.Container.DsfLoadM
import Driver.FileOps
import Driver.Util
import Driver.FlacC
namespace Driver
open Mutagen Mutagen.Dsf

def dsfOp (a : Args) : String :=
  let ex (r : Except PyErr Bytes) : String :=
    match r with
    | .ok b => s!"ok v={hexField b}"
    | .error e => s!"err {e.name}"
  match a.str "op" with
  | "save" => ex (save (a.bytes "data") (a.nat "vmaj" 4) (a.bytes "frames") (padOf a))
  | "delete" => ex (delete (a.bytes "data"))
  | "savex" =>
    -- the total model; `ans`: what the padding callback answered (a number), or `keep` (the offered padding, at least 0)
    let ans : Int → Int → Int := match (a.str "ans" "keep").toInt? with
      | some n => fun _ _ => n
      | none => fun p _ => if p < 0 then 0 else p
    ex (saveX (a.bytes "data") (a.nat "vmaj" 4) (a.bytes "frames") ans)
  | "savem" =>
    -- the file-operation program under a fault schedule / capacity (`fail=` `short=` `cap=` `leak=`)
    let ans : Int → Int → Int := match (a.str "ans" "keep").toInt? with
      | some n => fun _ _ => n
      | none => fun p _ => if p < 0 then 0 else p
    showResult (saveEntry (a.nat "vmaj" 4) (a.bytes "frames") ans (envOf a) { data := a.bytes "data", pos := a.nat "pos" 0 })
  | "loadm" =>
    -- `DSF(fileobj)` under a fault schedule; `kind=`: notag / nov2 / v1only:<n> / tag:<len(body)>:<v1 or ->
    let r := loadEntry (envOf a) { data := a.bytes "data", pos := a.nat "pos" 0 }
    showResult r fun v => match v with
      | .noTag => "kind=notag"
      | .noV2 => "kind=nov2"
      | .v1only n => s!"kind=v1only:{n}"
      | .tag b v => s!"kind=tag:{b.length}:{match v with | some n => toString n | none => "-"}"
  | "loadx" =>
    match loadX (a.bytes "data") with
    | .error e => s!"err {e.name}"
    | .ok .noTag => "ok kind=notag"
    | .ok .noV2 => "ok kind=nov2"
    | .ok (.v1only n) => s!"ok kind=v1only:{n}"
    | .ok (.tag b v) => s!"ok kind=tag:{b.length}:{match v with | some n => toString n | none => "-"}"
  | "deletem" =>
    showResult (deleteEntry (a.nat "method" 0 == 1) (envOf a) { data := a.bytes "data", pos := a.nat "pos" 0 })
  | "load" =>
    match load (a.bytes "data") with
    | .error e => s!"err {e.name}"
    | .ok .noTag => "ok notag"
    | .ok (.searchV1 _) => "ok searchv1"
    | .ok (.tag b) => s!"ok tag={hexField b}"
  | "walk" =>
    -- what the three chunk loaders see: total size, pointer; whether fmt and data chunk load
    let f := a.bytes "data"
    match loadDsd f with
    | .error e => s!"err {e.name}"
    | .ok h =>
      let chunks := match loadFmt (readAt f dsdSize fmtSize) with
        | .error _ => 0
        | .ok _ => match loadData (readAt f (dsdSize + fmtSize) dataHdr) with
          | .error _ => 1
          | .ok _ => 2
      s!"ok total={h.total} pointer={h.pointer} chunks={chunks}"
  | "read" =>
    -- the strict specification-side reader
    match readFile (a.bytes "data") with
    | none => "ok wellformed=0"
    | some L => s!"ok wellformed=1 fmt={L.fmt.length} data={L.data.length} tag={L.tag.length}"
  | _ => "bad-op"

end Driver
