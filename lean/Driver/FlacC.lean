/- Driver/FlacC.lean — FLAC container: walk, save (with optional capacity/fault environment) -/
import MutagenModel.Model.Container.Flac
import Driver.Util
import Driver.FileOps
namespace Driver
open Mutagen Mutagen.FlacC

def descBlocks (bs : List Block) : String :=
  if bs.isEmpty then "-" else ",".intercalate (bs.map fun b => s!"{b.code}:{b.data.length}")

/-- `blocks=code:hex,code:hex,...` -/
def blocksOf (s : String) : List Block :=
  if s == "-" || s == "" then [] else
  (s.splitOn ",").filterMap fun t =>
    match t.splitOn ":" with
    | [c, h] => c.toNat?.map fun code => { code := code, data := parseHexField h }
    | _ => none

def padOf (a : Args) : PadChoice :=
  match a.str "pad" "default" with
  | "default" => .default
  | "keep" => .callback fun p _ => if p < 0 then 0 else p
  | v => match v.toInt? with
    | some n => .callback fun _ _ => n
    | none => .default

def flaccOp (a : Args) : String :=
  match a.str "op" with
  | "walk" =>
    match walk (a.bytes "data") with
    | some L => s!"ok pre={L.pre.length} blocks={descBlocks L.blocks} audio={L.audio.length} pad={paddingOf L}"
    | none => "err mutagen"
  | "save" =>
    match walk (a.bytes "data") with
    | none => "err mutagen"
    | some L =>
      let blocks := blocksOf (a.str "blocks" "-")
      let r := saveM (a.nat "B" 1048576) L blocks (padOf a) (envOf a) { data := a.bytes "data" }
      match r.1 with
      | .ok _ => s!"ok data={hexField r.2.data}"
      | .error e => s!"err {e.name} data={hexField r.2.data}"
  | _ => "bad-op"

end Driver
