/- Driver/Detect.lean — File() selection on concrete observations -/
import MutagenModel.Model.Detect
import Driver.Util
namespace Driver
open Mutagen Mutagen.Detect Mutagen.Generated

def strOfBytes (b : Bytes) : String := String.ofList (b.map fun x => Char.ofNat x.toNat)

def kindOfName (s : String) : Option Kind := options.find? (·.name == s)

def detOp (a : Args) : String :=
  let header := (a.bytes "header").take headerWindow
  let trailer := a.bytes "trailer"
  let name := strOfBytes (a.bytes "name")
  let v := evalAtom header name trailer (a.nat "io" 0 == 1)
  let easy := a.nat "easy" 0 == 1
  let rank := if easy then Kind.easyRank else Kind.rank
  let opts : List Kind :=
    if a.has "order" then (natList (a.str "order")).filterMap fun i => options[i]? else options
  let p := pick v rank opts
  let scores := ",".intercalate (options.map fun k => toString (score v k))
  let matching := concreteKinds.filter fun k => (reach k).any fun st => allAtoms.all fun atm => valOf st atm == v atm
  let pn := match p with | some k => (if easy then k.easyName else k.name) | none => "None"
  s!"ok pick={pn} scores={scores} inreach={if matching.isEmpty then "-" else ",".intercalate (matching.map Kind.name)}"

end Driver
