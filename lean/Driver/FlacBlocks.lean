/- Driver/FlacBlocks.lean — the FLAC metadata block classes (Model/FlacBlocks.lean): load, write, strict read -/
import MutagenModel.Model.FlacBlocks
import Driver.Util
namespace Driver
open Mutagen Mutagen.FlacB

def fbErr (e : PyErr) : String := s!"err {e.name}"

def showIdx (l : List TrackIndex) : String :=
  if l.isEmpty then "-" else "|".intercalate (l.map fun i => s!"{i.number}.{i.offset}")

def showTracks (l : List Track) : String :=
  if l.isEmpty then "-" else ";".intercalate (l.map fun t =>
    s!"{t.number}:{t.startOffset}:{hexField t.isrc}:{t.type_}:{if t.preEmphasis then 1 else 0}:{showIdx t.indexes}")

def showPoints (l : List SeekPoint) : String :=
  if l.isEmpty then "-" else ",".intercalate (l.map fun p => s!"{p.first}:{p.offset}:{p.samples}")

def showPicture (p : Picture) : String :=
  s!"type={p.type_} mime={showNatList p.mime} desc={showNatList p.desc} w={p.width} h={p.height} depth={p.depth} colors={p.colors} data={hexField p.data}"

def showCue (c : CueSheet) : String :=
  s!"mcn={hexField c.mcn} leadin={c.leadIn} cd={if c.cd then 1 else 0} tracks={showTracks c.tracks}"

def parseIdx (s : String) : List TrackIndex :=
  if s == "-" || s == "" then [] else (s.splitOn "|").filterMap fun t =>
    match t.splitOn "." with
    | [a, b] => (a.toNat?.bind fun x => b.toNat?.map fun y => (⟨x, y⟩ : TrackIndex))
    | _ => none

def parseTracks (s : String) : List Track :=
  if s == "-" || s == "" then [] else (s.splitOn ";").filterMap fun t =>
    match t.splitOn ":" with
    | [n, so, isrc, ty, pre, ix] =>
      some ⟨n.toNat?.getD 0, so.toNat?.getD 0, parseHexField isrc, ty.toNat?.getD 0, pre == "1", parseIdx ix⟩
    | _ => none

def parsePoints (s : String) : List SeekPoint :=
  if s == "-" || s == "" then [] else (s.splitOn ",").filterMap fun t =>
    match t.splitOn ":" with
    | [a, b, c] => some ⟨a.toNat?.getD 0, b.toNat?.getD 0, c.toNat?.getD 0⟩
    | _ => none

def pictureOf (a : Args) : Picture :=
  ⟨a.nat "type", natList (a.str "mime" "-"), natList (a.str "desc" "-"), a.nat "w", a.nat "h", a.nat "depth", a.nat "colors", a.bytes "data"⟩

def cueOf (a : Args) : CueSheet := ⟨a.bytes "mcn", a.nat "leadin", a.nat "cd" == 1, parseTracks (a.str "tracks" "-")⟩

def exBytes (r : Except PyErr Bytes) : String :=
  match r with | .ok b => s!"ok v={hexField b}" | .error e => fbErr e

def flacblkOp (a : Args) : String :=
  let d := a.bytes "data"
  match a.str "op", a.str "kind" with
  | "load", "picture" =>
    match loadPictureS d with
    | .ok (p, rest) => s!"ok {showPicture p} rest={rest.length}"
    | .error e => fbErr e
  | "load", "seektable" => match loadSeekTable d with | .ok l => s!"ok points={showPoints l}" | .error e => fbErr e
  | "load", "cuesheet" => match loadCueSheet d with | .ok c => s!"ok {showCue c}" | .error e => fbErr e
  | "load", "padding" => match loadPadding d with | .ok n => s!"ok length={n}" | .error e => fbErr e
  | "load", "generic" => match loadGeneric d with | .ok b => s!"ok data={hexField b}" | .error e => fbErr e
  | "write", "picture" => exBytes (writePicture (pictureOf a))
  | "write", "seektable" => exBytes (writeSeekTable (parsePoints (a.str "points" "-")))
  | "write", "cuesheet" => exBytes (writeCueSheet (cueOf a))
  | "write", "padding" => exBytes (writePadding (a.nat "length"))
  | "write", "generic" => exBytes (writeGeneric d)
  -- load, then write what was loaded (the "kept" side of C07)
  | "rewrite", "picture" => exBytes (bnd (loadPicture d) writePicture)
  | "rewrite", "seektable" => exBytes (bnd (loadSeekTable d) writeSeekTable)
  | "rewrite", "cuesheet" => exBytes (bnd (loadCueSheet d) writeCueSheet)
  | "rewrite", "padding" => exBytes (bnd (loadPadding d) writePadding)
  | "rewrite", "generic" => exBytes (bnd (loadGeneric d) writeGeneric)
  -- the strict reader of the specification side
  | "read", "picture" => s!"ok valid={if (readPicture d).isSome then 1 else 0}"
  | "read", "seektable" => s!"ok valid={if (readSeekTable d).isSome then 1 else 0}"
  | "read", "cuesheet" => s!"ok valid={if (readCueSheet d).isSome then 1 else 0}"
  | "read", "padding" => s!"ok valid={if (readPadding d).isSome then 1 else 0}"
  | "read", "application" => s!"ok valid={if (readApplication d).isSome then 1 else 0}"
  -- the block body as FLAC.__read_metadata_block reads it: `code=`, declared `size=`, the file from the body on
  | "body", _ =>
    match loadBody (a.nat "code") (a.nat "size") d with
    | .error e => fbErr e
    | .ok (.padding n, rest) => s!"ok length={n} rest={rest.length}"
    | .ok (.seektable l, rest) => s!"ok points={showPoints l} rest={rest.length}"
    | .ok (.cuesheet c, rest) => s!"ok {showCue c} rest={rest.length}"
    | .ok (.picture p, rest) => s!"ok {showPicture p} rest={rest.length}"
    | .ok (.generic b, rest) => s!"ok data={hexField b} rest={rest.length}"
  | "utf8", _ => s!"ok v={showNatList (decodeReplace d)}"
  | _, _ => "bad-op"

end Driver
