/- Driver/FileTypes.lean — `Type(fileobj)` and `File(fileobj)` outcomes on concrete bytes (Model/FileTypes.lean) -/
import MutagenModel.Model.FileTypes
import Driver.Util
import Driver.Detect
namespace Driver
open Mutagen Mutagen.FileTypes Mutagen.Generated

/-- outcome, and whether the object has tags (`-`: not reported) -/
def ftOut {α : Type} (r : Except PyErr α) (tags : α → String) : String :=
  match r with
  | .ok v => s!"ok tags={tags v}"
  | .error e => s!"err {e.name}"

def ftOpt {α : Type} (o : Option α) : String := if o.isSome then "1" else "0"

def ftKind (k : String) (f : Bytes) : String :=
  match k with
  | "MP3" => ftOut (loadMp3 f) fun v => ftOpt v.1
  | "TrueAudio" => ftOut (loadTrueAudio f) fun v => ftOpt v.1
  | "ID3FileType" => ftOut (loadId3FileType f) ftOpt
  | "WavPack" => ftOut (loadWavPack f) fun v => ftOpt v.2
  | "Musepack" => ftOut (loadMusepack f) fun v => ftOpt v.2
  | "MonkeysAudio" => ftOut (loadMonkeysAudio f) fun v => ftOpt v.2
  | "OptimFROG" => ftOut (loadOptimFROG f) fun v => ftOpt v.2
  | "TAK" => ftOut (loadTak f) fun v => ftOpt v.2
  | "APEv2File" => ftOut (loadApev2File f) ftOpt
  | "OggVorbis" => ftOut (loadOggVorbis f) fun _ => "1"
  | "OggOpus" => ftOut (loadOggOpus f) fun _ => "1"
  | "OggSpeex" => ftOut (loadOggSpeex f) fun _ => "1"
  | "OggTheora" => ftOut (loadOggTheora f) fun _ => "1"
  | "OggFLAC" => ftOut (loadOggFlac f) fun _ => "1"
  | "FLAC" => ftOut (loadFlac f) fun _ => "-"
  | "ASF" => ftOut (loadAsf f) fun _ => "1"
  | "MP4" => ftOut (loadMp4 f) fun v => ftOpt v.base.tags
  | "AAC" => ftOut (loadAac f) fun _ => "0"
  | "AC3" => ftOut (loadAc3 f) fun _ => "0"
  | "SMF" => ftOut (loadSmf f) fun _ => "0"
  | "AIFF" => ftOut (loadAiff f) fun v => ftOpt v.1
  | "DSDIFF" => ftOut (loadDsdiff f) fun v => ftOpt v.1
  | "WAVE" => ftOut (loadWave f) fun v => ftOpt v.2
  | "DSF" => ftOut (loadDsf f) fun v => if v.1 then "1" else "0"
  | _ => "bad-kind"

/-- `ftype kind=<class name> data=<hex>` → `ok tags=…` | `err <class>`;
`fload name=<hex> data=<hex>` → `ok pick=<class name|None>` | `err <class> pick=<class name>` -/
def ftypeOp (a : Args) : String := ftKind (a.str "kind") (a.bytes "data")

def floadOp (a : Args) : String :=
  let f := a.bytes "data"
  let name := strOfBytes (a.bytes "name")
  let p := Detect.pick (fileAtoms name f) Kind.rank options
  let pn := match p with | some k => k.name | none => "None"
  match fileLoad name options f with
  | .ok _ => s!"ok pick={pn}"
  | .error e => s!"err {e.name} pick={pn}"

end Driver
