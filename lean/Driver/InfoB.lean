/- Driver/InfoB.lean — stream-info models of the second C05 batch: `infob kind=<Fmt> data=<hex>` runs the
code-side `parse`; `infob op=build kind=<Fmt> <fields…>` renders the specification-side `build`;
`infob op=expect kind=<Fmt> <fields…>` prints the specification-side `expected` and whether the fields
satisfy `OK` and the hypothesis of the `_partial` theorem. -/
import MutagenModel.Model.Info.Wave
import MutagenModel.Spec.Info.Wave
import MutagenModel.Model.Info.Aiff
import MutagenModel.Spec.Info.Aiff
import MutagenModel.Model.Info.Dsf
import MutagenModel.Spec.Info.Dsf
import MutagenModel.Model.Info.Dsdiff
import MutagenModel.Spec.Info.Dsdiff
import MutagenModel.Model.Info.OggCodecs
import MutagenModel.Spec.Info.OggCodecs
import MutagenModel.Model.Info.Asf
import MutagenModel.Spec.Info.Asf
import MutagenModel.Model.Info.Mp4
import MutagenModel.Model.Info.MpegInfo
import MutagenModel.Spec.Info.Mpeg
import MutagenModel.Spec.Info.Mp4
import MutagenModel.Model.Info.Smf
import MutagenModel.Spec.Info.Smf
import Driver.Util
namespace Driver
open Mutagen Mutagen.Info

def ibBit (b : Bool) : String := if b then "1" else "0"

def ibOptNat (a : Args) (k : String) : Option Nat :=
  match a.get? k with
  | some s => s.toNat?
  | none => none

/-! ### WAVE -/

def showWave (i : Wave.Info) : String :=
  s!"audio_format={i.audioFormat} channels={i.channels} sample_rate={i.sampleRate} bits_per_sample={i.bitsPerSample} bitrate={i.bitrate} length={i.length.render}"

def waveFields (a : Args) : Spec.Wave.Fields :=
  { formatTag := a.nat "tag", channels := a.nat "ch", sampleRate := a.nat "rate", avgBytesPerSec := a.nat "avg",
    blockAlign := a.nat "align", bitsPerSample := a.nat "bits", ext := a.bytes "ext", fact := ibOptNat a "fact",
    blockFrames := a.nat "bf" 1, data := a.bytes "payload" }

/-! ### AIFF -/

/-- `id:data,id:data` (hex; `.` = no data; `-` = no chunks) -/
def ibChunks (s : String) : List Iff.Chunk :=
  if s == "-" || s == "" then []
  else (s.splitOn ",").map fun t =>
    match t.splitOn ":" with
    | [i, d] => Spec.mkChunk (parseHex i) (if d == "." then [] else parseHex d)
    | _ => Spec.mkChunk [] []

def showAiff (i : Aiff.Info) : String :=
  s!"channels={i.channels} bits_per_sample={i.bitsPerSample} sample_size={i.bitsPerSample} sample_rate={i.sampleRate} bitrate={i.bitrate} length={i.length.render}"

def aiffFields (a : Args) : Spec.Aiff.Fields :=
  { form := a.bytes "form", numChannels := a.nat "ch", numSampleFrames := a.nat "frames", sampleSize := a.nat "bits",
    rateNum := a.nat "num", rateShift := a.nat "shift", ext := a.bytes "ext", before := ibChunks (a.str "before" "-"),
    after := ibChunks (a.str "after" "-") }

/-! ### DSF -/

def showDsf (i : Dsf.Info) : String :=
  s!"channels={i.channels} sample_rate={i.sampleRate} bits_per_sample={i.bitsPerSample} bitrate={i.bitrate} length={i.length.render}"

def dsfFields (a : Args) : Spec.Dsf.Fields :=
  { totalSize := a.nat "total", metadataPointer := a.nat "ptr", channelType := a.nat "ctype", channelNum := a.nat "chnum",
    samplingFrequency := a.nat "rate", bitsPerSample := a.nat "bits", sampleCount := a.nat "count",
    blockSize := a.nat "block" 4096, reserved := a.nat "reserved", data := a.bytes "payload" }

/-! ### DSDIFF -/

def showDsdiff (i : Dsdiff.Info) : String :=
  let c := match i.compression with | some b => s!"s_compression={hexField b}" | none => "none_compression=1"
  s!"channels={i.channels} sample_rate={i.sampleRate} bits_per_sample={i.bitsPerSample} x_bitrate={i.bitrate.render} length={i.length.render} {c}"

def dsdiffFields (a : Args) : Spec.Dsdiff.Fields :=
  { version := a.nat "version", sampleRate := a.nat "rate", numChannels := (a.bytes "ids").length / 4, channelIds := a.bytes "ids",
    compressionType := a.bytes "comp", compressionName := a.bytes "cname", propExtra := ibChunks (a.str "pextra" "-"),
    audio := if a.str "audio" == "dst" then .dst (a.nat "frames") (a.nat "frate") (ibChunks (a.str "dstf" "-"))
             else .dsd (a.bytes "payload"),
    after := ibChunks (a.str "after" "-") }

/-! ### Ogg -/

def showVorbis (i : Vorbis.Info) : String :=
  s!"channels={i.channels} sample_rate={i.sampleRate} bitrate={i.bitrate} serial={i.serial} length={i.length.render}"
def showOpus (i : Opus.Info) : String :=
  s!"channels={i.channels} serial={i.serial} length={i.length.render}"
def showSpeex (i : Speex.Info) : String :=
  s!"sample_rate={i.sampleRate} channels={i.channels} bitrate={i.bitrate} serial={i.serial} length={i.length.render}"
def showTheora (i : Theora.Info) : String :=
  s!"x_fps={(Theora.fps i).render} bitrate={i.bitrate} granule_shift={i.granuleShift} serial={i.serial} length={i.length.render}"
def showOggFlac (i : OggFlac.Info) : String :=
  s!"min_blocksize={i.minBlocksize} max_blocksize={i.maxBlocksize} sample_rate={i.sampleRate} channels={i.channels} bits_per_sample={i.bitsPerSample} total_samples={i.totalSamples} packets={i.packets} serial={i.serial} length={i.length.render}"

def ibPackets (s : String) : List Bytes :=
  if s == "-" || s == "" then [] else (s.splitOn ",").map fun t => if t == "." then [] else parseHex t

def oggContainer (a : Args) : Spec.OggS.Container :=
  { serial := a.nat "serial", middle := a.bytes "middle", lastSeq := a.nat "lseq", lastGranule := a.nat "lgran",
    lastPackets := ibPackets (a.str "lpk" "-") }

def vorbisFields (a : Args) : Spec.Vorbis.Fields :=
  { channels := a.nat "ch", rate := a.nat "rate", bitrateMaximum := a.int "brmax", bitrateNominal := a.int "brnom",
    bitrateMinimum := a.int "brmin", blocksize0 := a.nat "bs0", blocksize1 := a.nat "bs1", stream := oggContainer a }

def opusFields (a : Args) : Spec.Opus.Fields :=
  { version := a.nat "version", channels := a.nat "ch", preSkip := a.nat "preskip", inputSampleRate := a.nat "rate",
    outputGain := a.int "gain", mappingFamily := a.nat "family", mappingTable := a.bytes "table", stream := oggContainer a }

def speexFields (a : Args) : Spec.Speex.Fields :=
  { versionString := a.bytes "vstr", versionId := a.nat "vid", headerSize := a.nat "hsize", rate := a.nat "rate",
    mode := a.nat "mode", modeBitstreamVersion := a.nat "mbv", channels := a.nat "ch", bitrate := a.int "br",
    rest := a.bytes "rest", stream := oggContainer a }

def theoraFields (a : Args) : Spec.Theora.Fields :=
  { vrev := a.nat "vrev", fmbw := a.nat "fmbw", fmbh := a.nat "fmbh", picw := a.nat "picw", pich := a.nat "pich",
    picx := a.nat "picx", picy := a.nat "picy", frn := a.nat "frn", frd := a.nat "frd", parn := a.nat "parn",
    pard := a.nat "pard", cs := a.nat "cs", nombr := a.nat "nombr", qual := a.nat "qual", kfgshift := a.nat "kfgshift",
    pf := a.nat "pf", lastKeyframe := a.nat "lkf", lastOffset := a.nat "loff", stream := oggContainer a }

def oggFlacFields (a : Args) : Spec.OggFlac.Fields :=
  { numHeaders := a.nat "nheaders", blockHead := a.nat "bhead",
    si := { minBlocksize := a.nat "minbs", maxBlocksize := a.nat "maxbs", minFramesize := a.nat "minfs",
            maxFramesize := a.nat "maxfs", sampleRate := a.nat "rate", channels := a.nat "ch", bitsPerSample := a.nat "bits",
            totalSamples := a.nat "total", md5 := a.nat "md5" },
    stream := oggContainer a }

/-! ### ASF -/

def showAsf (i : Asf.Info) : String :=
  s!"length={i.length.render} sample_rate={i.sampleRate} bitrate={i.bitrate} channels={i.channels}"

def ibHex (s : String) : Bytes := if s == "." || s == "-" then [] else parseHex s

/-- `f:guid:data` / `m:data` / `l:data` / `p:data` -/
def asfSub (t : String) : Mutagen.Asf.SubItem :=
  match t.splitOn ":" with
  | ["f", g, d] => .foreign ⟨ibHex g, ibHex d⟩
  | ["m", d] => .mo (ibHex d)
  | ["l", d] => .metaLib (ibHex d)
  | ["p", d] => .pad (ibHex d)
  | _ => .pad []

/-- items separated by `,`: `f:guid:data` / `c:data` / `e:data` / `p:data` / `x:sub;sub;…` (`x:` = no children) -/
def asfItems (s : String) : List Mutagen.Asf.Item :=
  if s == "-" || s == "" then []
  else (s.splitOn ",").map fun t =>
    if t.startsWith "x:" then
      let body := (t.drop 2).toString
      .ext (if body == "" then [] else (body.splitOn ";").map asfSub)
    else
      match t.splitOn ":" with
      | ["f", g, d] => .foreign ⟨ibHex g, ibHex d⟩
      | ["c", d] => .cd (ibHex d)
      | ["e", d] => .ecd (ibHex d)
      | ["p", d] => .pad (ibHex d)
      | _ => .pad []

def asfFields (a : Args) : Spec.AsfInfo.Fields :=
  { fileId := a.bytes "fileid", fileSize := a.nat "fsize", creationDate := a.nat "cdate", dataPackets := a.nat "npackets",
    playDuration := a.nat "play", sendDuration := a.nat "send", preroll := a.nat "preroll", flags := a.nat "flags",
    minPacket := a.nat "minpkt", maxPacket := a.nat "maxpkt", maxBitrate := a.nat "maxbr",
    errorCorrectionType := a.bytes "ectype", timeOffset := a.nat "toff", streamFlags := a.nat "sflags", reserved := a.nat "sres",
    formatTag := a.nat "tag", channels := a.nat "ch", samplesPerSec := a.nat "rate", avgBytesPerSec := a.nat "avg",
    blockAlign := a.nat "align", bitsPerSample := a.nat "bits", codecData := a.bytes "cdata", errorCorrectionData := a.bytes "ecdata",
    before := asfItems (a.str "before" "-"), between := asfItems (a.str "between" "-"), after := asfItems (a.str "after" "-"),
    rest := a.bytes "rest" }

/-! ### MP4 (payload decoders) -/

def mdhdFields (a : Args) : Spec.Mp4Info.Mdhd :=
  { version := a.nat "version", flags := a.nat "flags", creationTime := a.nat "ctime", modificationTime := a.nat "mtime",
    timescale := a.nat "timescale", duration := a.nat "duration", language := a.nat "lang", preDefined := a.nat "predef" }

def hexUpper (n : Nat) : String :=
  String.ofList ((Nat.toDigits 16 n).map Char.toUpper)

/-- `codec`: the entry's name (latin-1) and what `_parse_esds` appends, as bytes -/
def mp4Codec (name : Bytes) (param : Option (Nat × Option Nat)) : Bytes :=
  name ++ (match param with
    | none => []
    | some (oti, aot) =>
      let s := "." ++ hexUpper oti ++ (match aot with | some t => s!".{t}" | none => "")
      s.toList.map fun c => UInt8.ofNat c.toNat)

def showMp4 (i : Mp4.Info) : String :=
  s!"length={i.length.render} channels={i.channels} bits_per_sample={i.bitsPerSample} sample_rate={i.sampleRate} bitrate={i.bitrate} s_codec={hexField (mp4Codec i.codecName i.codecParam)}"

def showEntry (e : Mp4.Entry) : String :=
  s!"channels={e.channels} sample_size={e.sampleSize} sample_rate={e.sampleRate} bitrate={e.bitrate}"

def ibAtoms (a : Args) (k : String) : List Mutagen.Mp4C.Atom := (Mutagen.Mp4C.walk (a.bytes k)).getD []

def mp4Fields (a : Args) : Spec.Mp4Info.Fields :=
  { before := ibAtoms a "before", after := ibAtoms a "after", tail := a.bytes "tail", moovBefore := ibAtoms a "moovbefore",
    moovAfter := ibAtoms a "moovafter", trakBefore := ibAtoms a "trakbefore", trakAfter := ibAtoms a "trakafter",
    mdhd := mdhdFields a, hdlrHead := a.bytes "hdlrhead", hdlrRest := a.bytes "hdlrrest", minfBefore := ibAtoms a "minfbefore",
    stblAfter := ibAtoms a "stblafter", stsdFlags := a.nat "stsdflags", entryCount := a.nat "entrycount" 1,
    entry := { dataReferenceIndex := a.nat "dri", channelCount := a.nat "ch", sampleSize := a.nat "bits", preDefined := a.nat "epredef",
               reserved := a.nat "ereserved", sampleRate := a.nat "rate", sampleRateFraction := a.nat "frac" },
    codec := match a.str "codec" "plain" with
      | "alac" => .alac { frameLength := a.nat "aframe", bitDepth := a.nat "adepth", pb := a.nat "apb", mb := a.nat "amb", kb := a.nat "akb",
                          numChannels := a.nat "ach", maxRun := a.nat "amaxrun", maxFrameBytes := a.nat "amaxframe",
                          avgBitRate := a.nat "abr", sampleRate := a.nat "arate" }
      | "dac3" => .dac3 { fscod := a.nat "fscod", bsid := a.nat "bsid", bsmod := a.nat "bsmod", acmod := a.nat "acmod", lfeon := a.nat "lfeon",
                          bitRateCode := a.nat "brc", reserved := a.nat "dres" }
      | "esds" => .esds { longForm := a.nat "long" == 1, esId := a.nat "esid", streamPriority := a.nat "prio", upStream := a.nat "upstream",
                          bufferSizeDB := a.nat "bufsize", maxBitrate := a.nat "maxbr", avgBitrate := a.nat "avgbr",
                          audioObjectType := a.nat "aot", freqIndex := a.nat "fidx", explicitFreq := a.nat "efreq",
                          channelConfiguration := a.nat "cc", frameLengthFlag := a.nat "flf", slConfig := a.bytes "sl" }
      | _ => .plain (a.bytes "ename") ((ibAtoms a "extra").headD (.leaf [] false [])),
    entryMore := a.bytes "entrymore", moreEntries := a.bytes "moreentries" }

/-! ### MP3 -/

def showOptExpr (k : String) (v : Option LExpr) : String :=
  match v with | some e => s!"x_{k}={e.render}" | none => s!"none_{k}=1"

def showMp3 (i : Mp3.Info) : String :=
  s!"length={i.length.render} x_bitrate={i.bitrate.render} channels={i.channels} sample_rate={i.sampleRate} x_version=({i.version10}/10) layer={i.layer} mode={i.mode} protected={ibBit i.crcProtected} padding={ibBit i.padding} sketchy={ibBit i.sketchy} bitrate_mode={i.bitrateMode} s_encoder_info={hexField i.encoderInfo} s_encoder_settings={hexField i.encoderSettings} {showOptExpr "track_gain" i.trackGain} {showOptExpr "track_peak" i.trackPeak} {showOptExpr "album_gain" i.albumGain} frame_offset={i.frameOffset}"

def mp3Hdr (s : String) : Spec.Mp3.Hdr :=
  match (s.splitOn ".").map String.toNat! with
  | [v, l, p, b, r, pad, priv, m, rest] => ⟨v, l, p, b, r, pad, priv, m, rest⟩
  | _ => ⟨3, 1, 1, 9, 0, 0, 0, 0, 0⟩

/-- tags as `major.minor.flags.bodyhex` separated by `,` -/
def mp3Lead (a : Args) : Spec.Mp3.Lead :=
  { tags := (if a.str "tags" "-" == "-" then [] else (a.str "tags").splitOn ",").map (fun t =>
      match t.splitOn "." with
      | [ma, mi, fl, b] => ⟨ma.toNat!, mi.toNat!, fl.toNat!, ibHex b⟩
      | _ => ⟨3, 0, 0, []⟩),
    junk := a.bytes "junk" }

def mp3Frame (a : Args) (k : String) : Spec.Mp3.Frame := ⟨mp3Hdr (a.str (k ++ "h")), a.bytes (k ++ "b")⟩

def mp3Cbr (a : Args) : Spec.Mp3.Cbr :=
  { lead := mp3Lead a, f1 := mp3Frame a "f1", f2 := mp3Frame a "f2", f3 := mp3Frame a "f3", f4 := mp3Frame a "f4", trailing := a.bytes "trailing" }

/-- SMF specification side.  `tracks=` tracks separated by `/`, events by `,`; an event is `delta:m:status:d1:d2|-:run`,
`delta:t:us`, `delta:x:type:hex|-` (meta) or `delta:s:lead:hex|-` (sysex) -/
def smfEvent (t : String) : Spec.Smf.Event :=
  match t.splitOn ":" with
  | [d, "m", st, d1, d2, run] => ⟨d.toNat!, .midi st.toNat! d1.toNat! (if d2 == "-" then none else some d2.toNat!) (run == "1")⟩
  | [d, "t", us] => ⟨d.toNat!, .tempo us.toNat!⟩
  | [d, "x", ty, b] => ⟨d.toNat!, .metaEv ty.toNat! (if b == "-" then [] else ibHex b)⟩
  | [d, "s", l, b] => ⟨d.toNat!, .sysex l.toNat! (if b == "-" then [] else ibHex b)⟩
  | _ => ⟨0, .metaEv 0x2F []⟩

def smfFile (a : Args) : Spec.Smf.File :=
  { format := a.nat "format", division := a.nat "division",
    tracks := (if a.str "tracks" "" == "" then [] else (a.str "tracks").splitOn "/").map fun t =>
      (if t == "-" then [] else t.splitOn ",").map smfEvent }

def mp3Short (a : Args) : Spec.Mp3.Short :=
  { lead := mp3Lead a, frames := (["f1", "f2", "f3"].filter fun k => a.has (k ++ "h")).map (mp3Frame a), trailing := a.bytes "trailing" }

def mp3XingTag (a : Args) : Spec.Mp3.XingTag :=
  { isInfo := a.nat "info" == 1, frames := ibOptNat a "frames", bytes := ibOptNat a "nbytes",
    toc := if a.has "toc" then some (a.bytes "toc") else none, quality := ibOptNat a "quality" }

def mp3Xing (a : Args) : Spec.Mp3.XingStream :=
  { lead := mp3Lead a, hdr := mp3Hdr (a.str "hdr"), side := a.bytes "side", tag := mp3XingTag a, after := a.bytes "after" }

def mp3Vbri (a : Args) : Spec.Mp3.VbriStream :=
  { lead := mp3Lead a, hdr := mp3Hdr (a.str "hdr"), side := a.bytes "side",
    tag := { delay := a.nat "delay", quality := a.nat "quality", bytes := a.nat "nbytes", frames := a.nat "frames", tocEntries := a.nat "tocn",
             tocScale := a.nat "tocscale", tocEntrySize := a.nat "tocsize", tocFramesPerEntry := a.nat "tocfpe", toc := a.bytes "toc" },
    after := a.bytes "after" }

def mp3Lame (a : Args) : Spec.Mp3.LameStream :=
  { lead := mp3Lead a, hdr := mp3Hdr (a.str "hdr"), side := a.bytes "side", tag := mp3XingTag a,
    version := { major := a.nat "vmajor", minor := a.nat "vminor", flag := UInt8.ofNat (a.nat "vflag") },
    ext := { vbrMethod := a.nat "method", lowpass := a.nat "lowpass", peak := a.nat "peak", trackGainType := a.nat "tgt", trackGainOrigin := a.nat "tgo",
             trackGainSign := a.nat "tgs", trackGainAbs := a.nat "tga", albumGainType := a.nat "agt", albumGainOrigin := a.nat "ago",
             albumGainSign := a.nat "ags", albumGainAbs := a.nat "aga", encodingFlags := a.nat "encflags", athType := a.nat "ath", bitrate := a.nat "lbitrate",
             delay := a.nat "ldelay", padding := a.nat "lpadding", misc := a.nat "misc", mp3Gain := a.nat "mp3gain", surround := a.nat "surround",
             preset := a.nat "preset", musicLength := a.nat "mlen", musicCrc := a.nat "mcrc", tagCrc := a.nat "tcrc" },
    after := a.bytes "after" }

def infoBOp (a : Args) : String :=
  let res {α : Type} (sh : α → String) (r : Except PyErr α) : String :=
    match r with
    | .ok i => "ok " ++ sh i
    | .error e => s!"err {e.name}"
  match a.str "op" "parse", a.str "kind" with
  | "parse", "WAVE" => res showWave (Wave.parse (a.bytes "data"))
  | "build", "WAVE" => s!"ok v={hexField (Spec.Wave.build (waveFields a))}"
  | "expect", "WAVE" =>
    let h := waveFields a
    s!"ok {showWave (Spec.Wave.expected h)} ok={ibBit (decide h.OK)} partial={ibBit (decide h.Plain)}"
  | "parse", "AIFF" => res showAiff (Aiff.parse (a.bytes "data"))
  | "build", "AIFF" => s!"ok v={hexField (Spec.Aiff.build (aiffFields a))}"
  | "expect", "AIFF" =>
    let h := aiffFields a
    s!"ok {showAiff (Spec.Aiff.expected h)} ok={ibBit (decide h.OK)} partial={ibBit (decide h.Exact)}"
  | "parse", "DSF" => res showDsf (Dsf.parse (a.bytes "data"))
  | "build", "DSF" => s!"ok v={hexField (Spec.Dsf.build (dsfFields a))}"
  | "expect", "DSF" =>
    let h := dsfFields a
    s!"ok {showDsf (Spec.Dsf.expected h)} ok={ibBit (decide h.OK)} partial={ibBit (decide (h.bitsPerSample = 1))}"
  | "parse", "DSDIFF" => res showDsdiff (Dsdiff.parse (a.bytes "data"))
  | "build", "DSDIFF" => s!"ok v={hexField (Spec.Dsdiff.build (dsdiffFields a))}"
  | "expect", "DSDIFF" =>
    let h := dsdiffFields a
    s!"ok {showDsdiff (Spec.Dsdiff.expected h)} ok={ibBit (decide h.OK)} partial=1"
  | "parse", "OggVorbis" => res showVorbis (Vorbis.raw (a.bytes "data"))
  | "wrapped", "OggVorbis" => res showVorbis (Vorbis.parse (a.bytes "data"))
  | "parse", "OggOpus" => res showOpus (Opus.raw (a.bytes "data"))
  | "wrapped", "OggOpus" => res showOpus (Opus.parse (a.bytes "data"))
  | "parse", "OggSpeex" => res showSpeex (Speex.raw (a.bytes "data"))
  | "wrapped", "OggSpeex" => res showSpeex (Speex.parse (a.bytes "data"))
  | "parse", "OggTheora" => res showTheora (Theora.raw (a.bytes "data"))
  | "wrapped", "OggTheora" => res showTheora (Theora.parse (a.bytes "data"))
  | "parse", "OggFLAC" => res showOggFlac (OggFlac.raw (a.bytes "data"))
  | "wrapped", "OggFLAC" => res showOggFlac (OggFlac.parse (a.bytes "data"))
  | "build", "OggVorbis" => s!"ok v={hexField (Spec.Vorbis.build (vorbisFields a))}"
  | "expect", "OggVorbis" =>
    let h := vorbisFields a
    s!"ok {showVorbis (Spec.Vorbis.expected h)} ok={ibBit (decide h.OK)} partial=1"
  | "build", "OggOpus" => s!"ok v={hexField (Spec.Opus.build (opusFields a))}"
  | "expect", "OggOpus" =>
    let h := opusFields a
    s!"ok {showOpus (Spec.Opus.expected h)} ok={ibBit (decide h.OK)} partial=1"
  | "build", "OggSpeex" => s!"ok v={hexField (Spec.Speex.build (speexFields a))}"
  | "expect", "OggSpeex" =>
    let h := speexFields a
    s!"ok {showSpeex (Spec.Speex.expected h)} ok={ibBit (decide h.OK)} partial=1"
  | "build", "OggTheora" => s!"ok v={hexField (Spec.Theora.build (theoraFields a))}"
  | "expect", "OggTheora" =>
    let h := theoraFields a
    s!"ok {showTheora (Spec.Theora.expected h)} ok={ibBit (decide h.OK)} partial={ibBit (decide (h.vrev ≠ 0))}"
  | "build", "OggFLAC" => s!"ok v={hexField (Spec.OggFlac.build (oggFlacFields a))}"
  | "expect", "OggFLAC" =>
    let h := oggFlacFields a
    s!"ok {showOggFlac (Spec.OggFlac.expected h)} ok={ibBit (decide h.OK)} partial=1"
  | "parse", "ASF" => res showAsf (Asf.parse (a.bytes "data"))
  | "build", "ASF" => s!"ok v={hexField (Spec.AsfInfo.build (asfFields a))}"
  | "expect", "ASF" =>
    let h := asfFields a
    s!"ok {showAsf (Spec.AsfInfo.expected h)} ok={ibBit (decide h.OK)} partial=1"
  | "parse", "MP4mdhd" => res (fun (l : LExpr) => s!"length={l.render}") (Mp4.mdhdLength (a.bytes "data"))
  | "build", "MP4mdhd" => s!"ok v={hexField (Spec.Mp4Info.mdhdPayload (mdhdFields a))}"
  | "expect", "MP4mdhd" =>
    let m := mdhdFields a
    s!"ok length={(Spec.Mp4Info.mdhdExpected m).render} ok={ibBit (decide m.OK)} partial=1"
  | "parse", "MP4" => res showMp4 (Mp4.parse (a.bytes "data"))
  | "build", "MP4" => s!"ok v={hexField (Spec.Mp4Info.build (mp4Fields a))}"
  | "expect", "MP4" => s!"ok {showMp4 (Spec.Mp4Info.expected (mp4Fields a))} ok=1 partial=1"
  | "build", "MP3cbr" => s!"ok v={hexField (mp3Cbr a).build}"
  | "expect", "MP3cbr" => s!"ok {showMp3 (mp3Cbr a).expected} ok=1 partial=1"
  | "build", "MP3short" => s!"ok v={hexField (mp3Short a).build}"
  | "expect", "MP3short" =>
    let s := mp3Short a
    match s.expected with
    | some i => s!"ok {showMp3 i} ok={ibBit (decide s.OK)} partial=1"
    | none => s!"err mutagen ok={ibBit (decide s.OK)}"
  | "parse", "MP3short" => res showMp3 (Mp3.parse (a.bytes "data"))
  | "build", "MP3xing" => s!"ok v={hexField (mp3Xing a).build}"
  | "expect", "MP3xing" => s!"ok {showMp3 (mp3Xing a).expected} ok=1 partial=1"
  | "build", "MP3vbri" => s!"ok v={hexField (mp3Vbri a).build}"
  | "expect", "MP3vbri" => s!"ok {showMp3 (mp3Vbri a).expected} ok=1 partial=1"
  | "build", "MP3lame" => s!"ok v={hexField (mp3Lame a).build}"
  | "expect", "MP3lame" => s!"ok {showMp3 (mp3Lame a).expected} ok=1 partial=1"
  | "parse", "MP3lame" => res showMp3 (Mp3.parse (a.bytes "data"))
  | "parse", "MP3cbr" => res showMp3 (Mp3.parse (a.bytes "data"))
  | "parse", "MP3xing" => res showMp3 (Mp3.parse (a.bytes "data"))
  | "parse", "MP3vbri" => res showMp3 (Mp3.parse (a.bytes "data"))
  | "build", "SMFspec" => s!"ok v={hexField (smfFile a).build}"
  | "expect", "SMFspec" =>
    let f := smfFile a
    s!"ok length={f.expected.render} ok={ibBit (decide f.OK)} partial=1"
  | "parse", "SMFspec" => res (fun i => s!"length={i.render}") (Smf.parse (a.bytes "data"))
  | "parse", "SMF" => res (fun i => s!"length={i.render}") (Smf.parse (a.bytes "data"))
  | "parse", "MP3" => res showMp3 (Mp3.parseFrom (a.bytes "data") (a.nat "offset"))
  | "syncs", _ => s!"ok v={showNatList (Mp3.syncScan (a.bytes "data") (a.nat "pos") (a.nat "max" 1048576))}"
  | "syncchunks", _ => s!"ok v={showNatList (Mp3.syncChunks (a.bytes "data") (a.nat "max" 1048576) ((a.bytes "data").length + 2) (a.nat "pos") 0 2 none)}"
  | "skipid3", _ => s!"ok v={Mp3.skipId3 (a.bytes "data") ((a.bytes "data").length + 1) 0}"
  | "round53", _ => s!"ok v={Aiff.round53 (a.nat "v")}"
  | _, _ => "bad-op"

end Driver
