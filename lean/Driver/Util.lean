/- Driver/Util.lean — line protocol helpers (hex, key=value arguments). -/
import MutagenModel.Model.Basic
namespace Driver
open Mutagen

def hexVal (c : Char) : Nat :=
  if c.isDigit then c.toNat - 48
  else if 'a' ≤ c ∧ c ≤ 'f' then c.toNat - 87
  else if 'A' ≤ c ∧ c ≤ 'F' then c.toNat - 55 else 0

def parseHex (s : String) : Bytes :=
  let rec go : List Char → Bytes → Bytes
    | a :: b :: r, acc => go r (UInt8.ofNat (hexVal a * 16 + hexVal b) :: acc)
    | _, acc => acc.reverse
  go s.toList []

def hexDigit (n : Nat) : Char :=
  if n < 10 then Char.ofNat (48 + n) else Char.ofNat (87 + n)

def toHex (b : Bytes) : String :=
  String.ofList (b.foldr (fun x acc => hexDigit (x.toNat / 16) :: hexDigit (x.toNat % 16) :: acc) [])

/-- "-" encodes the empty byte string so that fields never vanish -/
def hexField (b : Bytes) : String := if b.isEmpty then "-" else toHex b
def parseHexField (s : String) : Bytes := if s == "-" then [] else parseHex s

abbrev Args := List (String × String)

def parseArgs (toks : List String) : Args :=
  toks.filterMap fun t =>
    match t.splitOn "=" with
    | [k, v] => some (k, v)
    | _ => none

def Args.get? (a : Args) (k : String) : Option String := (a.find? (·.1 == k)).map (·.2)
def Args.str (a : Args) (k : String) (d : String := "") : String := (a.get? k).getD d
def Args.nat (a : Args) (k : String) (d : Nat := 0) : Nat := ((a.get? k).bind String.toNat?).getD d
def Args.int (a : Args) (k : String) (d : Int := 0) : Int := ((a.get? k).bind String.toInt?).getD d
def Args.bytes (a : Args) (k : String) : Bytes := parseHexField (a.str k "-")
def Args.has (a : Args) (k : String) : Bool := (a.get? k).isSome

def parseErr (s : String) : PyErr :=
  match s with
  | "io" => .io | "enospc" => .enospc | "value" => .value | "key" => .key | "type" => .type_
  | "index" => .index | "struct" => .struct_ | "unicode" => .unicode | "overflow" => .overflow
  | "zerodiv" => .zeroDiv | "eof" => .eof | "assertion" => .assertion | "mutagen" => .mutagen
  | _ => .io

def natList (s : String) : List Nat :=
  if s == "-" || s == "" then [] else (s.splitOn ",").filterMap String.toNat?

def intList (s : String) : List Int :=
  if s == "-" || s == "" then [] else (s.splitOn ",").filterMap String.toInt?

def showNatList (l : List Nat) : String :=
  if l.isEmpty then "-" else ",".intercalate (l.map toString)

end Driver
