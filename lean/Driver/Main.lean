/- Driver/Main.lean — the correspondence driver: one request per line on stdin, one
canonical answer per line on stdout.  Imports only Model/, Spec/, Generated/. -/
import Driver.Util
import Driver.FileOps
import Driver.Id3Util
import Driver.Ogg
import Driver.Detect
import Driver.Info
import Driver.Signal
import Driver.FlacC
import Driver.OpenFile
import Driver.Id3Date
import Driver.Id3Convert
import Driver.Dict
import Driver.Id3Spec
import Driver.TagCodec
import Driver.Mp4
import Driver.TagCodec2
import Driver.Id3File
import Driver.ApeFile
import Driver.Iff
import Driver.Dsf
import Driver.Asf
import Driver.OggInject
import Driver.InfoA
import Driver.InfoB
import Driver.DictX
import Driver.FlacBlocks
import Driver.FlacLoad
import Driver.FileTypes
open Driver

def dispatch (line : String) : String :=
  match line.trimAscii.toString.splitOn " " with
  | [] => "bad-op"
  | cmd :: rest =>
    let a := parseArgs rest
    match cmd with
    | "fo" => fileOp a
    | "bp" => bpOp a
    | "uns" => unsOp a
    | "ogg" => oggOp a
    | "det" => detOp a
    | "mpeg" => mpegOp a
    | "sig" => sigOp a
    | "flacc" => flaccOp a
    | "open" => openOp a
    | "id3date" => id3dateOp a
    | "id3v1" => id3v1Op a
    | "id3conv" => id3convOp a
    | "dict" => dictOp a
    | "id3spec" => id3specOp a
    | "tagc" => tagcOp a
    | "mp4" => mp4Op a
    | "tagc2" => tagc2Op a
    | "id3f" => id3fOp a
    | "apef" => apefOp a
    | "iff" => iffOp a
    | "iffm" => iffmOp a
    | "iffload" => iffloadOp a
    | "dsf" => dsfOp a
    | "asf" => asfOp a
    | "ogginject" => ogginjectOp a
    | "infoa" => infoAOp a
    | "infob" => infoBOp a
    | "dictx" => dictxOp a
    | "flacblk" => flacblkOp a
    | "flacload" => flacloadOp a
    | "flacsave" => flacsaveOp a
    | "ftype" => ftypeOp a
    | "fload" => floadOp a
    | "flacinfo" => flacInfoOp a
    | "ping" => "pong"
    | _ => "bad-op"

partial def loop (hin : IO.FS.Stream) (hout : IO.FS.Stream) : IO Unit := do
  let line ← hin.getLine
  if line.isEmpty then return ()
  hout.putStrLn (dispatch line)
  if line.trimAscii.toString == "flush" then hout.flush
  loop hin hout

def main : IO Unit := do
  let hin ← IO.getStdin
  let hout ← IO.getStdout
  loop hin hout
  hout.flush
