/- Driver/Id3Date.lean — TDRC <-> TYER/TDAT/TIME -/
import MutagenModel.Model.Id3Date
import Driver.Util
namespace Driver
open Mutagen.Id3Date

def optNat (a : Args) (k : String) : Option Nat := (a.get? k).bind String.toNat?
def showDigits (o : Option (List Nat)) : String :=
  match o with | none => "-" | some ds => String.join (ds.map toString)
def showOpt (o : Option Nat) : String := match o with | none => "-" | some n => toString n

def id3dateOp (a : Args) : String :=
  let s : Stamp :=
    { year := optNat a "y"
      month := optNat a "mo"
      day := optNat a "d"
      hour := optNat a "h"
      minute := optNat a "mi"
      second := optNat a "s" }
  match a.str "op" with
  | "to23" =>
    let v := toV23 s
    s!"ok tyer={showDigits v.tyer} tdat={showDigits v.tdat} time={showDigits v.time}"
  | "roundtrip" =>
    match toV24 (toV23 s) with
    | some r => s!"ok y={showOpt r.year} mo={showOpt r.month} d={showOpt r.day} h={showOpt r.hour} mi={showOpt r.minute} s={showOpt r.second}"
    | none => "ok none"
  | _ => "bad-op"

end Driver
