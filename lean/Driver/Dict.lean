/- Driver/Dict.lean — command `dict`: run an operation sequence on one of the modelled stores
(Model/Dict.lean) and print every output, canonicalised.

request   dict kind=proxy|ci|vc ops=<op>,<op>,…          (`ops=-` or no `ops`: empty sequence)
  kind    proxy = `_util.DictProxy()`, ci = `apev2.APEv2()`, vc = `_vorbis.VCommentDict()`;
          every request starts from the empty object
  <op>    get:<k>  set:<k>:<v>  del:<k>  in:<k>  keys  values  items  len  clear
          pop:<k>  popd:<k>:<v>  popitem  upd[:<k>:<v>]…  setd:<k>:<v>  getd:<k>:<v>
  <k>     lower-case hex of the key's UTF-8 bytes; `-` = the empty string
  <v>     s<hex of UTF-8> (str) | b<hex> (bytes) | i<decimal> (int) | n (None)
          | l[.<atom>]… (list of such atoms; `l` = the empty list).  The hex part may be empty.
answer    ok out=<o>|<o>|…   one <o> per operation (`ok out=-` for the empty sequence)
  <o>     N (returned None)  B0 / B1  V<v>  L<n>  E<PyErr name>
          K<k>;<k>…   keys, sorted as encoded strings
          I<k>=<v>;…  items, sorted by encoded key
          W<v>;<v>…   values in the order of the sorted keys
          P<k>=<v>    what popitem returned
          (an APEv2 text value reads back as s…, a binary value as b…)
`bad-op` for an unknown kind or an unparsable operation. -/
import MutagenModel.Model.Dict
import Driver.Util
namespace Driver
open Mutagen Mutagen.Dict

/-- UTF-8 bytes → code points (well-formed input assumed; stops at a truncated sequence) -/
def utf8Decode : Nat → List UInt8 → List Nat
  | 0, _ => []
  | _, [] => []
  | fuel + 1, b0 :: rest =>
    let n := b0.toNat
    if n < 0x80 then n :: utf8Decode fuel rest
    else if n < 0xE0 then
      match rest with
      | b1 :: r => ((n % 32) * 64 + b1.toNat % 64) :: utf8Decode fuel r
      | _ => []
    else if n < 0xF0 then
      match rest with
      | b1 :: b2 :: r => ((n % 16) * 4096 + (b1.toNat % 64) * 64 + b2.toNat % 64) :: utf8Decode fuel r
      | _ => []
    else
      match rest with
      | b1 :: b2 :: b3 :: r =>
        ((n % 8) * 262144 + (b1.toNat % 64) * 4096 + (b2.toNat % 64) * 64 + b3.toNat % 64) :: utf8Decode fuel r
      | _ => []

def textOfBytes (b : Bytes) : Text := utf8Decode b.length b
def stringOfText (t : Text) : String := String.ofList (t.map Char.ofNat)
def bytesOfString (s : String) : Bytes := s.toUTF8.toList
def encKey (k : Text) : String := hexField (bytesOfString (stringOfText k))
def decKey (s : String) : Text := textOfBytes (parseHexField s)

def decAtom (s : String) : Option Atom :=
  match s.toList with
  | 's' :: h => some (.str (stringOfText (textOfBytes (parseHex (String.ofList h)))))
  | 'b' :: h => some (.bytes (String.ofList h))
  | 'i' :: d => (String.ofList d).toInt?.map Atom.int
  | ['n'] => some .none
  | _ => none

def decVal (s : String) : Option Val :=
  match s.splitOn "." with
  | "l" :: atoms => (atoms.mapM decAtom).map Val.list
  | [a] => (decAtom a).map Val.atom
  | _ => none

def encAtom : Atom → String
  | .str s => "s" ++ toHex (bytesOfString s)
  | .bytes h => "b" ++ h
  | .int n => "i" ++ toString n
  | .none => "n"

def encVal : Val → String
  | .atom a => encAtom a
  | .list l => ".".intercalate ("l" :: l.map encAtom)

def decPairs : List String → Option (List (Text × Val))
  | [] => some []
  | k :: v :: rest =>
    match decVal v, decPairs rest with
    | some v', some r => some ((decKey k, v') :: r)
    | _, _ => none
  | _ => none

def decOp (s : String) : Option (Op Text Val) :=
  match s.splitOn ":" with
  | ["get", k] => some (.get (decKey k))
  | ["set", k, v] => (decVal v).map (.set (decKey k))
  | ["del", k] => some (.del (decKey k))
  | ["in", k] => some (.contains (decKey k))
  | ["keys"] => some .keys
  | ["values"] => some .values
  | ["items"] => some .items
  | ["len"] => some .len
  | ["clear"] => some .clear
  | ["pop", k] => some (.pop (decKey k))
  | ["popd", k, v] => (decVal v).map (.popD (decKey k))
  | ["popitem"] => some .popitem
  | "upd" :: rest => (decPairs rest).map .update
  | ["setd", k, v] => (decVal v).map (.setdefault (decKey k))
  | ["getd", k, v] => (decVal v).map (.getD (decKey k))
  | _ => none

def sortedItems (l : List (Text × Val)) : List (String × String) :=
  (l.map (fun p => (encKey p.1, encVal p.2))).mergeSort (fun a b => !(b.1 < a.1))

def encOut : Out Text Val → String
  | .unit => "N"
  | .bool b => if b then "B1" else "B0"
  | .val v => "V" ++ encVal v
  | .keys l => "K" ++ ";".intercalate ((l.map encKey).mergeSort (fun a b => !(b < a)))
  | .vals l => "W" ++ ";".intercalate (l.map encVal)
  | .items l => "I" ++ ";".intercalate ((sortedItems l).map (fun p => p.1 ++ "=" ++ p.2))
  | .nat n => "L" ++ toString n
  | .item k v => "P" ++ encKey k ++ "=" ++ encVal v
  | .err e => "E" ++ e.name

/-- `values` is reported in the order of the sorted keys: the driver asks the model for the
items in that case -/
def valuesAsItems (o : Out Text Val) : Out Text Val → String
  | .items l => "W" ++ ";".intercalate ((sortedItems l).map (·.2))
  | _ => encOut o

/-- run with `values` canonicalised through `items` (both are read-only; the state used for
the next operation is that of the real operation) -/
def runEnc {S : Type} (step : S → Op Text Val → Out Text Val × S) : List (Op Text Val) → S → List String
  | [], _ => []
  | op :: ops, s =>
    let r := step s op
    let o := match op, r.1 with
      | .values, .vals _ => valuesAsItems r.1 (step s .items).1
      | _, o => encOut o
    o :: runEnc step ops r.2

def dictOp (a : Args) : String :=
  let opsStr := a.str "ops" "-"
  let toks := if opsStr == "-" || opsStr == "" then [] else opsStr.splitOn ","
  match toks.mapM decOp with
  | none => "bad-op"
  | some ops =>
    let outs? : Option (List String) :=
      match a.str "kind" with
      | "proxy" => some (runEnc (proxyImpl Text Val).step ops [])
      | "ci" => some (runEnc apeImpl.step ops CI.empty)
      | "vc" => some (runEnc vcStep ops [])
      | _ => none
    match outs? with
    | none => "bad-op"
    | some outs => "ok out=" ++ (if outs.isEmpty then "-" else "|".intercalate outs)

end Driver
