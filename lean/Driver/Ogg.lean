/- Driver/Ogg.lean — Ogg page commands -/
import MutagenModel.Model.Ogg
import Driver.Util
namespace Driver
open Mutagen Mutagen.Ogg

def b01 (b : Bool) : String := if b then "1" else "0"

/-- structural description of a page: flags, numbers, packet lengths -/
def descPage (p : Page) : String :=
  s!"c{b01 p.complete}k{b01 p.continued}f{b01 p.first}l{b01 p.last}s{p.sequence}r{p.serial}p{p.position}n" ++
    ".".intercalate (p.packets.map fun x => toString x.length)

def descPages (ps : List Page) : String :=
  if ps.isEmpty then "-" else ";".intercalate (ps.map descPage)

def hexList (s : String) : List Bytes :=
  if s == "" || s == "_" then [] else (s.splitOn ",").map parseHexField

/-- packets given either as hex list `pk=` or as run-length spec `pl=len,len,...` (content is the
byte pattern (i*7+j) mod 251 so both sides can build it) -/
def packetsOf (a : Args) : List Bytes :=
  if a.has "pk" then hexList (a.str "pk")
  else
    let lens := natList (a.str "pl" "-")
    (lens.zipIdx).map fun (n, i) => (List.range n).map fun j => UInt8.ofNat ((i * 7 + j) % 251)

partial def parseAll (d : Bytes) (acc : List Page) : Except String (List Page) :=
  match parse d with
  | .error .eof => .ok acc.reverse
  | .error .bad => .error "bad"
  | .ok (p, rest) => parseAll rest (p :: acc)

def pageOf (a : Args) : Page :=
  { packets := packetsOf a, complete := a.nat "complete" 1 == 1, continued := a.nat "continued" 0 == 1,
    first := a.nat "first" 0 == 1, last := a.nat "last" 0 == 1, sequence := a.nat "seq" 0,
    serial := a.nat "serial" 0, position := a.int "position" 0, flagsHi := a.nat "fhi" 0,
    version := a.nat "version" 0 }

def oggOp (a : Args) : String :=
  match a.str "op" with
  | "frompackets" =>
    match fromPackets policy (packetsOf a) (a.nat "seq" 0) (a.nat "D" 4096) (a.nat "W" 2048) with
    | .ok pages => s!"ok pages={descPages pages}"
    | .error e => s!"err {e.name}"
  | "render" =>
    match (pageOf a).render with
    | .ok b => s!"ok v={hexField b} size={(pageOf a).size}"
    | .error e => s!"err {e.name}"
  | "parse" =>
    match parse (a.bytes "data") with
    | .ok (p, rest) => s!"ok page={descPage p} fhi={p.flagsHi} rest={rest.length}"
    | .error .eof => "err eof"
    | .error .bad => "err mutagen"
  | "topackets" =>
    match parseAll (a.bytes "data") [] with
    | .error _ => "err mutagen"
    | .ok pages =>
      match toPackets pages (a.nat "strict" 0 == 1) with
      | .ok ps => s!"ok n={ps.length} v={hexField ps.flatten} lens={showNatList (ps.map List.length)}"
      | .error e => s!"err {e.name}"
  | "crc" => s!"ok v={(crc (a.bytes "data")).toNat}"
  | _ => "bad-op"

end Driver
