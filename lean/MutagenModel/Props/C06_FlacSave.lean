/-
Props/C06_FlacSave.lean — `FLAC.save` with its REAL reads (`FlacL.saveRealM`, Model/Container/FlacSaveM.lean: verify_fileobj,
`__check_header`, `__find_audio_offset`, `get_size`, then `_writeblocks`, `resize_bytes`, seek, write, write) against the summarised
program `FlacC.saveM` about which the FLAC theorems of C06 and C19 speak: on a quiet device they are the same program from the
point where the reads are done, so those theorems are statements about the real call sequence.
-/
import MutagenModel.Proofs.Container.FlacSave
import MutagenModel.Proofs.Container.FlacCap
set_option linter.unusedVariables false
namespace Mutagen.C06
open Mutagen

/-- on a well-formed FLAC file (no ID3 tag in front, block payloads their classes consume exactly, some audio), from position 0, on
a quiet device of any capacity: the reads of `FLAC.save` go through, leave the bytes alone, and hand on exactly the header offset,
audio offset and content size `FlacC.saveM` takes from the layout — the real program IS `FlacC.saveM` run from the state `s1` the
reads leave (same bytes as before) -/
theorem flac_save_real_eq_summarised {e : Env} (hq : Quiet e) (B : Nat) (L : FlacC.Layout) (hL : FlacC.Good L) (haud : L.audio ≠ [])
    (lbs : List FlacL.LBlock) (hd : FlacL.AllDecode L.blocks lbs) (blocks : List FlacC.Block) (pad : PadChoice) (s : FS)
    (hs : s.data = FlacC.render L) (hp : s.pos = 0) :
    ∃ s1, s1.data = s.data ∧ FlacL.saveRealM B blocks pad e s = FlacC.saveM B L blocks pad e s1 :=
  FlacL.saveReal_eq hq B L hL haud lbs hd blocks pad s hs hp

/-- C19 / C06 for the real call sequence: for EVERY capacity and leak, `FLAC.save` with its real reads either completes — the file is
the rendering of the saved layout — or raises ENOSPC with the file byte-identical, length included -/
theorem flac_save_real_enlarge_first {e : Env} (hq : Quiet e) (B : Nat) (hB : 0 < B) (L : FlacC.Layout) (hL : FlacC.Good L)
    (haud : L.audio ≠ []) (lbs : List FlacL.LBlock) (hd : FlacL.AllDecode L.blocks lbs) (blocks : List FlacC.Block) (pad : PadChoice)
    (hsz : ∀ b ∈ blocks, b.data.length ≤ FlacC.maxSize) (s : FS) (hs : s.data = FlacC.render L) (hp : s.pos = 0) :
    (∃ s', FlacL.saveRealM B blocks pad e s = (.ok (), s') ∧ s'.data = FlacC.render (FlacC.msave L blocks false pad)) ∨
    (∃ s', FlacL.saveRealM B blocks pad e s = (.error .enospc, s') ∧ s'.data = s.data) := by
  obtain ⟨s1, d1, heq⟩ := flac_save_real_eq_summarised hq B L hL haud lbs hd blocks pad s hs hp
  rw [heq]
  rcases FlacC.saveM_q hq B hB L blocks pad hsz s1 (by rw [d1, hs]) with ⟨s', h1, h2⟩ | ⟨s', h1, h2⟩
  · exact Or.inl ⟨s', h1, h2⟩
  · exact Or.inr ⟨s', h1, by rw [h2, d1]⟩

end Mutagen.C06
