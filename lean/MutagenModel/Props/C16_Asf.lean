/-
Props/C16_Asf.lean — C16 for `ASFTags` (model: Model/DictAsf.lean, tie: harness/dict_tie_x.py
kind `asf`).  `ASFTags` is a Python list of (key, attribute) pairs with dictionary methods of
its own: multi-valued keys in list order, values wrapped into ASF attribute objects by type,
keys compared with `==` and never validated.  As for `VCommentDict`: `len` counts values,
`pop` is `list.pop` (outside C16), `popitem` therefore raises.

Deviation (open finding asf-unhashable-key): `__setitem__` accepts an unhashable key; from then
on the real `keys()` (a hash set), and with it `values()` / `items()`, raise `TypeError`.  The
four primitives themselves never hash: `asf_refines` holds for every key.  The theorems about
the real `keys()` (`asfKeysE`) carry the hypothesis that excludes exactly those operations
(`…_partial`), and `asf_unhashable_key_witness` exhibits the deviation.
-/
import MutagenModel.Proofs.DictAsf
set_option linter.unusedVariables false
namespace Mutagen.C16
open Mutagen Mutagen.Dict

/-- `ASFTags` (the four primitives as mutagen/asf/__init__.py writes them, `keys` without the
hashing) refines the reference whose policy files every key as it is (no validation, no case
folding), wraps every value into an attribute object by type — `TypeError` for a value that is
neither `str`, `bytes`, `bool`, `int` nor an attribute object, `ValueError` for an `int`
outside 0..2^32-1, first offender wins —, turns a single value into a one-element list and
treats the empty list as "remove the key".  No invariant is needed.  Abstraction `asfAbs`:
pairs grouped by key, values in list order. -/
theorem asf_refines : Refines asfImpl asfPolicy (fun _ => True) asfAbs :=
  asf_refines_aux

/-- `ASFTags.__contains__` (own method) is what `DictMixin.__contains__` would compute -/
theorem asf_contains_eq (s : Asf) (k : PKey) : .ok (asfContains s k) = asfImpl.contains s k :=
  asf_contains_eq_aux s k

/-- `ASFTags.clear` (`list.clear`) is what `DictMixin.clear` would compute -/
theorem asf_clear_eq (s : Asf) : asfImpl.clear s = (.ok (), []) :=
  asf_clear_eq_aux s

/-- `len(ASFTags)` is the number of values: the sum over the reference's keys of the lengths
of their value lists -/
theorem asf_len (s : Asf) : s.length = ((asfAbs s).map (fun p => (asfAsList p.2).length)).sum :=
  asf_len_aux s

/-- PARTIAL: as long as every stored key is hashable, the real `keys()` returns the keys -/
theorem asf_keys_partial (s : Asf) (h : AsfHashable s) : asfKeysE s = .ok (asfKeys s) :=
  asfKeysE_of_hashable s h

/-- hashable keys stay hashable: an operation that hands only hashable keys to `__setitem__`
keeps `AsfHashable` -/
theorem asf_hashable_step (s : Asf) (op : Op PKey PVal) (hs : AsfHashable s)
    (hk : ∀ k ∈ Op.setKeys op, k.hashable = true) : AsfHashable (asfStep s op).2 :=
  asfStep_hashable s op hs hk

/-- PARTIAL: a fresh `ASFTags()`, the class's own `__contains__` / `clear` / `keys` (`asfRun`),
over the operations it offers as a dictionary (`Op.isPairListDict`: all but pop / popitem /
len) and with hashable keys in every `__setitem__` (set, setdefault, update): the outputs
correspond position by position to the reference run (equal values, booleans, exception
classes; key / value / item lists up to order). -/
theorem asf_trace_equiv_partial (ops : List (Op PKey PVal))
    (hops : ∀ op ∈ ops, Op.isPairListDict op = true ∧ ∀ k ∈ Op.setKeys op, k.hashable = true) :
    OutsEquiv asfPolicy (asfRun ops []) (Ref.run asfPolicy ops []) := by
  have hh : AsfHashable [] := fun p hp => by simp at hp
  rw [asfRun_eq ops [] hh hops]
  exact trace_det asf_refines_aux ops [] [] trivial (SameMap.refl _) List.nodup_nil
    (fun op hop => isPairListDict_not_popitem op (hops op hop).1)

/-- the deviation the hypotheses above exclude: `t = ASFTags(); t[["a"]] = "x"` is accepted;
the key is there (`["a"] in t`, `t[["a"]]`, `len(t) == 1`), but `t.keys()`, `t.values()`,
`t.items()` now raise `TypeError` (unhashable type: 'list') — also for every other key. -/
theorem asf_unhashable_key_witness :
    asfRun [.set (.list [.str [97]]) (.item (.prim (.str [120]))), .contains (.list [.str [97]]),
            .get (.list [.str [97]]), .len, .keys, .values, .items,
            .set (.str [98]) (.item (.prim (.str [121]))), .keys] [] =
      [.unit, .bool true, .val (.list [.asf 0 (.str [120])]), .nat 1, .err .type_, .err .type_, .err .type_,
       .unit, .err .type_] := by
  decide +kernel

/-- a rejected value leaves the tags alone, whatever was there (the wrapping loop runs before
the old values are deleted) -/
theorem asf_rejected_set_unchanged (s : Asf) (k : PKey) (v : PVal) (e : PyErr)
    (h : asfWrapAll v = .error e) : (asfStep s (.set k v)) = (.err e, s) := by
  simp [asfStep, MapImpl.step, asfImpl, asfSet, h]

/-! ### non-vacuity -/

example : AsfHashable [] := fun p hp => by simp at hp

/-- "Title"="x"; "title" is another key; a list gives two values; int out of range; None;
a ready-made QWORD attribute; `[]` removes; len counts values; pop is list.pop -/
example : asfRun
    [.set (.str [84]) (.item (.prim (.str [120]))), .get (.str [116]),
     .set (.str [84]) (.list [.prim (.str [97]), .prim (.int 3), .prim (.bool true), .prim (.bytes [0])]),
     .get (.str [84]), .set (.str [84]) (.item (.prim (.int 4294967296))),
     .set (.str [84]) (.list [.prim (.str [97]), .prim .none]),
     .set (.str [116]) (.item (.asf 4 (.int 1099511627776))), .len, .keys,
     .set (.str [84]) (.list []), .contains (.str [84]), .pop (.str [116]), .popitem, .clear, .popitem]
    [] =
    [.unit, .err .key, .unit,
     .val (.list [.asf 0 (.str [97]), .asf 3 (.int 3), .asf 2 (.bool true), .asf 1 (.bytes [0])]),
     .err .value, .err .type_, .unit, .nat 5, .keys [.str [84], .str [116]], .unit, .bool false,
     .err .type_, .err .type_, .unit, .err .key] := by decide +kernel

end Mutagen.C16
