/-
Props/C06_ApeFileLoad.lean — C06 for LOAD of APEv2-tagged files: `APEv2(fileobj)` as the program `apeLoadM`
(Model/Container/ApeFileLoadM.lean: `verify_fileobj`, every call of `_APEv2Data(fileobj)` with its
`try … except IOError` blocks, `if data.tag: … else raise APENoHeaderError`), in ARBITRARY fault environments.
`__parse_tag` works on the bytes read and is not part of the program (it raises APEBadItemError, a MutagenError).

For LOAD the `except IOError` blocks of `__find_metadata` that make save/delete go on with the wrong answer are harmless
to the statement: a swallowed fault or a short read ends in "no tag found" = APENoHeaderError, a MutagenError
(`ape_load_swallowed_fault_is_no_header`); the caller cannot tell it from a file without tag, which is the recorded
family `undetected:io|short:apev2.py:__find_metadata`.

Not proved here: that `locateTagM` returns `locate` of the bytes when no call fails (the equivalence is checked by the
ties on every generated file: harness/apefile_tie.py `run_faults` cap mode and `run_load_faults` fault-free runs).
-/
import MutagenModel.Proofs.Container.ApeFileLoad
set_option linter.unusedVariables false
namespace Mutagen.C06
open Mutagen Mutagen.ApeF

/-- `APEv2(fileobj)` under ANY fault environment: `error` (a MutagenError), or a non-I/O exception: one the environment
injected that is not an IOError, ValueError (`verify_fileobj`), or a marker of the model -/
theorem ape_load_raises_only :
    Raises (fun e x => x = .mutagen ∨ ((x = .mutagen ∨ x = .notImplemented ∨ PrimErr e x) ∧ x.isIO = false)) apeLoadM :=
  raises_apeLoadM

/-- … with I/O faults only (and short reads): MutagenError or ValueError -/
theorem ape_load_io_faults (e : Env) (hio : ∀ i x, e.failAt i = some x → x.isIO = true) (s s' : FS) (x : PyErr)
    (h : apeLoadM e s = (.error x, s')) : x = .mutagen ∨ x = .value ∨ x = .notImplemented ∨ x = .diverge :=
  Id3F.io_faults_only raises_apeLoadM e hio s s' x h

/-- LOAD NEVER WRITES -/
theorem ape_load_leaves_file_untouched (e : Env) (s : FS) (r : Except PyErr (Loc × Bytes)) (s' : FS)
    (h : apeLoadM e s = (r, s')) : s'.data = s.data :=
  noWrite_apeLoadM e s r s' h

/-! ### on `audio ++ tag` (40 + 73 bytes) -/

def apeLoadFile : Bytes :=
  List.replicate 40 0x55 ++ Ape.headerOrFooter 41 1 (Ape.hasHeader + Ape.isHeader) ++ [1, 0, 0, 0, 0, 0, 0, 0, 0x41] ++
    Ape.headerOrFooter 41 1 Ape.hasHeader

/-- no fault: the tag from 40 to 113 and its 9 bytes of items -/
example : (apeLoadM {} { data := apeLoadFile }).1 = .ok ({ start := 40, endd := 113, isAtStart := false }, [1, 0, 0, 0, 0, 0, 0, 0, 0x41]) := by
  decide +kernel

/-- an IOError at call 2 or 3 (the `tell()` and the `seek(-32, 1)` of `_seek_back(fileobj, 32)`, swallowed by
`except IOError`) or a short read of the footer preamble (call 4) end in "no tag found": APENoHeaderError, a
MutagenError (the calls: 0 `read(0)`, 1 `seek(0, 2)`, 2 `tell()`, 3 `seek(-32, 1)`, 4 `read(8)`, …) -/
theorem ape_load_swallowed_fault_is_no_header :
    (apeLoadM { failAt := fun i => if i = 2 then some .io else none } { data := apeLoadFile }).1 = .error .mutagen ∧
    (apeLoadM { failAt := fun i => if i = 3 then some .io else none } { data := apeLoadFile }).1 = .error .mutagen ∧
    (apeLoadM { shortAt := fun i => if i = 4 then some 7 else none } { data := apeLoadFile }).1 = .error .mutagen := by
  decide +kernel

/-- a short read of the tag body (the last call) is not noticed by the program: fewer bytes are handed to `__parse_tag`
(which then raises APEBadItemError or returns fewer items); a read of 0 bytes is "no tag" -/
example : (apeLoadM { shortAt := fun i => if i = 14 then some 4 else none } { data := apeLoadFile }).1 =
      .ok ({ start := 40, endd := 113, isAtStart := false }, [1, 0, 0, 0]) ∧
    (apeLoadM { shortAt := fun i => if i = 14 then some 0 else none } { data := apeLoadFile }).1 = .error .mutagen := by
  decide +kernel

/-- an IOError at call 0 (`verify_fileobj`): ValueError -/
example : (apeLoadM { failAt := fun i => if i = 0 then some .io else none } { data := apeLoadFile }).1 = .error .value := by
  decide +kernel

end Mutagen.C06
