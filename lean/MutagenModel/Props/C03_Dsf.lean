/-
Props/C03_Dsf.lean — C03 "After every edit the container is well-formed" for DSF files
`[DSD chunk][fmt chunk][data chunk][ID3 tag?]` (mutagen/dsf.py; model: Model/Container/Dsf.lean).
-/
import MutagenModel.Proofs.Container.Dsf
set_option linter.unusedVariables false
namespace Mutagen.C03
open Mutagen

/-! ## DSF files: `[DSD chunk][fmt chunk][data chunk][ID3 tag?]` -/

/-- after a DSF save the container is well-formed: the strict reader reads the saved file back as the
same fmt and data chunk plus the new tag; the total-size field equals the length of the file, the
metadata pointer is the position right behind the data chunk, everything from there to the end of the
file is the tag — header, frames, `p` zero bytes — and `ID3Header` at the pointer announces exactly
that many bytes -/
theorem dsf_save_wellformed (L : Dsf.Layout) (h : L.OK) (vmaj : Nat) (hvm : vmaj = 3 ∨ vmaj = 4) (frames : Bytes)
    (pad : PadChoice) (p : Nat)
    (hp : getPadding pad ((L.tag.length : Int) - (frames.length + 10 : Nat)) 0 = p) (hfit : frames.length + p < 2 ^ 28)
    (hsize : L.tagPos + (10 + frames.length + p) < 2 ^ 63) :
    ∃ out hd, Dsf.save L.render vmaj frames pad = .ok out ∧ Id3F.header vmaj (frames.length + p) = .ok hd ∧
      Dsf.readFile out = some ⟨L.fmt, L.data, hd ++ frames ++ zeros p⟩ ∧
      ofLE (readAt out 12 8) = out.length ∧
      ofLE (readAt out 20 8) = L.tagPos ∧
      out.length = L.tagPos + (10 + frames.length + p) ∧
      out.drop L.tagPos = hd ++ frames ++ zeros p ∧
      Id3F.headerSize (out.drop L.tagPos) = .ok (some (10 + frames.length + p)) := by
  obtain ⟨hd, hh, hd10, hs⟩ := Dsf.save_layout L h vmaj hvm frames pad p hp hfit
  obtain ⟨htag, _⟩ := Dsf.newTag_ok vmaj hvm frames p hfit hd hh
  have hl : (hd ++ frames ++ zeros p).length = 10 + frames.length + p := by simp [hd10]; omega
  have hne : hd ++ frames ++ zeros p ≠ [] := by
    intro e; have := congrArg List.length e; rw [hl] at this; simp at this
  have hok : (L.withTag (hd ++ frames ++ zeros p)).OK := Dsf.withTag_ok L h _ htag (by rw [hl]; exact hsize)
  have htot : (L.withTag (hd ++ frames ++ zeros p)).total = L.tagPos + (10 + frames.length + p) := by
    rw [Dsf.total_withTag, hl]
  refine ⟨_, hd, hs, hh, Dsf.readFile_layout _ hok, ?_, ?_, ?_, ?_, ?_⟩
  · rw [Dsf.total_field _ (by rw [htot]; omega), Dsf.length_render]
  · rw [Dsf.pointer_field _ (by rw [Dsf.pointer_withTag L _ hne]; omega), Dsf.pointer_withTag L _ hne]
  · rw [Dsf.length_render, htot]
  · exact Dsf.drop_tagPos (L.withTag (hd ++ frames ++ zeros p))
  · rw [show (L.withTag (hd ++ frames ++ zeros p)).render.drop L.tagPos = hd ++ frames ++ zeros p from Dsf.drop_tagPos (L.withTag (hd ++ frames ++ zeros p))]
    obtain ⟨ho, h1, _, h3⟩ := Dsf.headerSize_tagOK _ htag
    rw [h1, h3 hne, hl]

/-- after a DSF delete the container is well-formed: the strict reader reads the file back as the fmt
and data chunk without a tag; the total-size field equals the length of the file (the end of the data
chunk) and the metadata pointer is 0 -/
theorem dsf_delete_wellformed (L : Dsf.Layout) (h : L.OK) :
    ∃ out, Dsf.delete L.render = .ok out ∧
      Dsf.readFile out = some ⟨L.fmt, L.data, []⟩ ∧
      ofLE (readAt out 12 8) = out.length ∧ ofLE (readAt out 20 8) = 0 ∧ out.length = L.tagPos := by
  have hok := Dsf.without_ok L h
  have hsz := hok.size
  have hp0 : (L.withTag []).pointer = 0 := by simp [Dsf.Layout.pointer]
  refine ⟨_, Dsf.delete_layout L h, Dsf.readFile_layout _ hok, ?_, ?_, ?_⟩
  · rw [Dsf.total_field _ (by omega), Dsf.length_render]
  · rw [Dsf.pointer_field _ (by rw [hp0]; decide), hp0]
  · rw [Dsf.length_render, Dsf.total_withTag]; simp

/-- the reader's hypotheses are satisfiable: the example file is read back as its layout -/
example : Dsf.readFile Dsf.exampleLayout.render = some Dsf.exampleLayout := Dsf.readFile_layout _ Dsf.exampleLayout_ok

/-- the reader used above is strict: whatever file it accepts is, byte for byte, the rendering of the
layout it returns — DSD chunk with chunk size 28, total size = length of the file, pointer 0 (no tag) or
the end of the data chunk (tag), the fmt chunk, the data chunk and the tag region, nothing else -/
theorem dsf_reader_strict (f : Bytes) (L : Dsf.Layout) (h : Dsf.readFile f = some L) : L.render = f :=
  Dsf.readFile_sound f L h

end Mutagen.C03
