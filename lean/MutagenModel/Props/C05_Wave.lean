/-
Props/C05_Wave.lean — C05 for RIFF/WAVE (`mutagen.wave.WaveStreamInfo`).  Property theorems only.
Code side: Model/Info/Wave.lean (on Model/Container/Iff.lean); specification side: Spec/Info/Wave.lean.
-/
import MutagenModel.Proofs.Info.Wave
set_option linter.unusedVariables false
namespace Mutagen.C05
open Mutagen Mutagen.Info Mutagen.Spec.Wave

/-- What `WaveStreamInfo` reports for EVERY specification-built file (all values of all fmt fields, any
extension bytes, with or without a fact chunk, any data chunk contents, any bytes behind the RIFF
chunk): the fmt fields as they are, `bitrate = channels · bits · rate` (nAvgBytesPerSec is not looked
at) and `length = (data bytes / nBlockAlign) / rate` (the fact chunk is not looked at). -/
theorem wave_info_reports (h : Fields) (ok : h.OK) (rest : Bytes) :
    Wave.parse (build h ++ rest) = .ok
      { audioFormat := h.formatTag, channels := h.channels, sampleRate := h.sampleRate,
        bitsPerSample := h.bitsPerSample, bitrate := h.channels * h.bitsPerSample * h.sampleRate,
        length := .div (.div (.nat h.data.length) (.nat h.blockAlign)) (.nat h.sampleRate) } :=
  Wave.parse_build h ok rest

/-- C05 for WAVE, partial: for every header of linear (one frame per block) data whose declared byte
rate is channels · bits · rate / 8, the reported attributes are exactly what the header encodes.
Outside `Plain` the code does not report what the header says (`wave_compressed_witness`). -/
theorem wave_info_decodes_partial (h : Fields) (ok : h.OK) (plain : h.Plain) (rest : Bytes) :
    Wave.parse (build h ++ rest) = .ok (expected h) := by
  rw [Wave.parse_build h ok rest]
  obtain ⟨hb, hf⟩ := plain
  simp only [expected, hb, hf, ↓reduceIte]

/-- C04 side: on EVERY byte string `WaveStreamInfo` returns or raises a MutagenError -/
theorem wave_info_total (f : Bytes) : ∀ e, Wave.parse f = .error e → e = .mutagen :=
  fun e h => Wave.parse_clean f e h

/-- MS ADPCM, 1 channel, 22050 Hz, 512-byte blocks of 1012 frames, 4 blocks: the header says 11155
bytes/s (89240 bit/s) and 4048 frames (fact) = 0.1836 s; mutagen reports 88200 bit/s and
(2048/512)/22050 = 0.00018 s -/
def adpcmWitness : Fields :=
  { formatTag := 2, channels := 1, sampleRate := 22050, avgBytesPerSec := 11155, blockAlign := 512,
    bitsPerSample := 4, ext := zeros 34, fact := some 4048, blockFrames := 1012, data := zeros 2048 }

theorem wave_compressed_witness :
    adpcmWitness.OK ∧ Wave.parse (build adpcmWitness) ≠ .ok (expected adpcmWitness) ∧
    (Wave.parse (build adpcmWitness)).toOption.map (·.bitrate) = some 88200 ∧
    (expected adpcmWitness).bitrate = 89240 := by
  refine ⟨by decide +kernel, ?_, ?_, by decide +kernel⟩
  · have := wave_info_reports adpcmWitness (by decide +kernel) []
    rw [List.append_nil] at this
    rw [this]; decide +kernel
  · have := wave_info_reports adpcmWitness (by decide +kernel) []
    rw [List.append_nil] at this
    rw [this]; decide +kernel

/-! non-vacuity: a CD-quality PCM header satisfies the hypotheses -/
example : (⟨1, 2, 44100, 176400, 4, 16, [], none, 1, zeros 400⟩ : Fields).OK ∧
    (⟨1, 2, 44100, 176400, 4, 16, [], none, 1, zeros 400⟩ : Fields).Plain := by decide +kernel

end Mutagen.C05
