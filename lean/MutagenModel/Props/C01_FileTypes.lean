/-
Props/C01_FileTypes.lean — C01 at the level of the FILE TYPES (Model/FileTypes.lean): what the composed loads return on files
written by save.

APEv2.  `apeItems` of Model/FileTypes.lean models `APEv2.__parse_tag` as far as its outcome goes (it returns no items);
`apeItemsList` (Proofs/FileTypesApe.lean) is the same function returning the items in the order read, and `apeItems` is it with
the items forgotten (`ape_items_model_agrees`).  On the bytes `APEv2.save` renders it reads back exactly the items
(`ape_parse_tag_reads_items`), and composed with `ape_file_roundtrip`: `apeTags` of the saved file finds the tag and its items
(`ape_file_load_items`).
Where `__parse_tag` and the strict decoder `Ape.decodeTag` (written from the APEv2 specification) differ:
* `__parse_tag` is MORE LENIENT about the framing: it never looks at header / footer (preamble, version, flags, their
  agreement, the size field), accepts a count larger than the items present when the data ends with an item
  (`ape_parse_tag_lenient_count`), and ignores whatever follows the counted items (`ape_parse_tag_reads_items` holds for any
  `tail`); `decodeTag` wants the declared count exactly and the declared size filled exactly;
* it is STRICTER about the items: kind 3, a key that is not ASCII or that `is_valid_apev2_key` refuses (shorter than 2,
  longer than 255, a character outside 0x20..0x7E, "OggS" / "TAG" / "ID3" / "MP+"), a value that ends beyond the data, a text or
  external value that is not UTF-8 are refused with `error` / APEBadItemError; `decodeTag` takes any key without NUL, any
  kind 0..3 and any value bytes (`ape_parse_tag_refuses_*`, `ape_strict_decoder_accepts_them`).

MP3.  `mp3_file_load_frames`: on `ID3v2 header ++ rendering of a frame list ++ padding ++ MPEG stream` the composed `loadMp3`
returns the tag whose body is the frames region — which `read_frames` reads as the frames (Props/C01_Id3Tag.lean, C12) — and
the stream info the MPEG stream encodes (Props/C05_Mpeg.lean, read from `offset` = the size of the tag).
-/
import MutagenModel.Proofs.FileTypesApe
import MutagenModel.Proofs.FileTypesMp3
import MutagenModel.Props.C01_Id3Tag
set_option linter.unusedVariables false
namespace Mutagen.C01
open Mutagen Mutagen.FileTypes

/-! ## APEv2 -/

/-- the outcome model of Model/FileTypes.lean is the item-returning one with the items forgotten -/
theorem ape_items_model_agrees (n : Nat) (d : Bytes) :
    apeItems n d = match apeItemsList n d with | .ok _ => .ok () | .error e => .error e :=
  apeItems_eq_list n d

/-- `__parse_tag` on the item bytes `APEv2.save` renders, with the item count, whatever follows them: exactly the items, in
order — for items it accepts (`ItemLoadable`: kind 0/1/2, an ASCII key without NUL that `is_valid_apev2_key` accepts, a value
below 4 GiB that is UTF-8 unless the item is binary) -/
theorem ape_parse_tag_reads_items (items : List Ape.Item) (h : ∀ i ∈ items, ItemLoadable i) (tail : Bytes) :
    apeItemsList items.length ((items.map Ape.encodeItem).flatten ++ tail) = .ok items :=
  apeItemsList_encode items h tail

theorem ape_parse_tag_lenient_count (items : List Ape.Item) (h : ∀ i ∈ items, ItemLoadable i) (k : Nat) :
    apeItemsList (items.length + k) ((items.map Ape.encodeItem).flatten) = .ok items :=
  apeItemsList_overcount items h k

/-- every refusal is `error` (a MutagenError), for any bytes and any count -/
theorem ape_items_total (n : Nat) (d : Bytes) : ∀ e, apeItems n d = .error e → e = .mutagen :=
  apeItems_mutagen n d

open Mutagen.ApeF in
/-- FILE level (with `ape_file_roundtrip`): for ANY file in which `_APEv2Data` had found `loc`, after `APEv2.save` of a
non-empty list of loadable items the composed `apeTags` (= `APEv2(fileobj)` as the file types call it) finds the tag at the
end of the payload, `data.tag` / `data.items` are the item bytes and the count, and `__parse_tag` reads exactly the items -/
theorem ape_file_load_items (f : Bytes) (loc : Option Loc) (hl : locate f = .ok loc) (items : List Ape.Item)
    (hok : Ape.TagOK items) (hne : items ≠ []) (hload : ∀ i ∈ items, ItemLoadable i)
    (ha : AudioOK (baseOf f loc) (Ape.encodeTag items)) :
    ∃ out L, save f (Ape.encodeTag items) = .ok out ∧ out = baseOf f loc ++ Ape.encodeTag items ∧
      L = { start := (baseOf f loc).length, endd := out.length, isAtStart := false } ∧
      apeTags out = .ok (some L) ∧ apeTagData out L = ((items.map Ape.encodeItem).flatten, items.length) ∧
      apeItemsList (apeTagData out L).2 (apeTagData out L).1 = .ok items := by
  obtain ⟨out, hs, ho, _, _⟩ := C01F.ape_saved_file f loc hl items hok ha
  subst ho
  obtain ⟨h1, h2⟩ := apeTags_saved (baseOf f loc) items hok hne hload ha
  exact ⟨_, _, hs, rfl, rfl, h1, apeTagData_saved _ items hok, h2⟩

open Mutagen.ApeF in
/-- CANONICAL FORM, read side: a tag without items (which `save` never writes) reads as "no tags" -/
theorem ape_empty_tag_reads_as_no_tags (audio : Bytes) (ha : AudioOK audio (Ape.encodeTag [])) :
    apeTags (audio ++ Ape.encodeTag []) = .ok none :=
  apeTags_empty audio ha

/-! what `__parse_tag` refuses and the strict decoder accepts (item header: size 1, flags; key; NUL; value) -/

theorem ape_parse_tag_refuses_kind3 : apeItemsList 1 [1, 0, 0, 0, 6, 0, 0, 0, 0x41, 0x42, 0, 0x78] = .error .mutagen := by decide +kernel
theorem ape_parse_tag_refuses_short_key : apeItemsList 1 [1, 0, 0, 0, 0, 0, 0, 0, 0x41, 0, 0x78] = .error .mutagen := by decide +kernel
theorem ape_parse_tag_refuses_reserved_key : apeItemsList 1 [1, 0, 0, 0, 0, 0, 0, 0, 0x54, 0x41, 0x47, 0, 0x78] = .error .mutagen := by
  decide +kernel
theorem ape_parse_tag_refuses_non_ascii_key : apeItemsList 1 [1, 0, 0, 0, 0, 0, 0, 0, 0x41, 0xE9, 0, 0x78] = .error .mutagen := by
  decide +kernel
theorem ape_parse_tag_refuses_value_beyond_data : apeItemsList 1 [5, 0, 0, 0, 0, 0, 0, 0, 0x41, 0x42, 0, 0x78] = .error .mutagen := by
  decide +kernel
theorem ape_parse_tag_refuses_bad_utf8 : apeItemsList 1 [1, 0, 0, 0, 0, 0, 0, 0, 0x41, 0x42, 0, 0xFF] = .error .mutagen ∧
    apeItemsList 1 [1, 0, 0, 0, 2, 0, 0, 0, 0x41, 0x42, 0, 0xFF] = .ok [{ key := [0x41, 0x42], kind := 1, value := [0xFF] }] := by
  decide +kernel
theorem ape_parse_tag_refuses_missing_nul : apeItemsList 1 [1, 0, 0, 0, 0, 0, 0, 0, 0x41, 0x42] = .error .mutagen ∧
    apeItemsList 1 [1, 0, 0] = .error .mutagen := by decide +kernel

/-- the strict decoder takes a one-character key, kind 3 and non-UTF-8 text (it checks the framing only) -/
theorem ape_strict_decoder_accepts_them :
    Ape.decodeTag (Ape.encodeTag [{ key := [0x41], kind := 3, value := [0xFF] }]) = some [{ key := [0x41], kind := 3, value := [0xFF] }] ∧
    apeItemsList 1 (Ape.encodeItem { key := [0x41], kind := 3, value := [0xFF] }) = .error .mutagen := by decide +kernel

/-- and refuses a wrong count, which `__parse_tag` lets pass: the tag of one item with the count field set to 2 -/
example :
    Ape.decodeTag (Ape.headerOrFooter 44 2 (Ape.hasHeader + Ape.isHeader) ++ Ape.encodeItem { key := [0x41, 0x42], kind := 0, value := [0x78] } ++
      Ape.headerOrFooter 44 2 Ape.hasHeader) = none ∧
    apeItemsList 2 (Ape.encodeItem { key := [0x41, 0x42], kind := 0, value := [0x78] }) =
      .ok [{ key := [0x41, 0x42], kind := 0, value := [0x78] }] := by decide +kernel

/-- non-vacuity: a loadable item -/
example : ItemLoadable { key := [0x54, 0x69], kind := 0, value := [0x78, 0xC3, 0xA9] } :=
  ⟨by decide, by decide, by decide, by decide, by decide, fun _ => by decide +kernel⟩

/-! ## MP3 -/

open Mutagen.Id3 Mutagen.C01F in
/-- END TO END for MP3.  The file: an ID3v2 header (version 3 or 4, flags 0, syncsafe size), the frames `ID3Tags._write`
renders for `fs` (`saveFrames`), `p` bytes of padding, an MPEG stream.  `MP3(fileobj)` (the composed `loadMp3`) returns
* the tag object: version, flags 0, body = the frames region, and the ID3v1 block `find_id3v1` sees at the end of the file;
* reading that body with `read_frames` under the header gives back the frames `os` and the padding (`TagRTS`: the conclusion of
  the C12 frame theorems for every frame; `intWalkSafe` discharges `determine_bpi` under v2.4);
* the stream info: whatever `MPEGInfo` decodes from the stream read at `offset` = the size of the tag (`hinfo`; Props/C05_Mpeg.lean
  `mpeg_info_decodes_*_at` give it for CBR / Xing / VBRI / LAME / short streams behind ANY prefix). -/
theorem mp3_file_load_frames (E : Id3.Env) (hv : E.cfg.version = 3 ∨ E.cfg.version = 4)
    (hh : E.h = { version := E.cfg.version, unsynch := false }) (fs os : List Val) (ss : List Nat)
    (hrt : TagRTS E Id3Table.frames fs os ss) (frames : Bytes) (hw : saveFrames E.subw Id3Table.frames E.cfg fs = .ok frames) (p : Nat)
    (hsafe : E.cfg.version = 4 → intWalkSafe (frames.length + p) 0 ss = true)
    (hn : (frames ++ zeros p).length < 2 ^ 28) (stream : Bytes) (info : Info.Mp3.Info)
    (hinfo : Info.Mp3.parseFrom ((tagHeader E.cfg.version 0 (frames ++ zeros p).length ++ (frames ++ zeros p)) ++ stream)
      (tagHeader E.cfg.version 0 (frames ++ zeros p).length ++ (frames ++ zeros p)).length = .ok info) :
    loadMp3 (tagHeader E.cfg.version 0 (frames ++ zeros p).length ++ (frames ++ zeros p) ++ stream) =
      .ok (some (.v2 E.cfg.version 0 (frames ++ zeros p)
        (Id3F.findV1 (tagHeader E.cfg.version 0 (frames ++ zeros p).length ++ (frames ++ zeros p) ++ stream))), info) ∧
    readFramesWith E.sub Id3Table.frames E.h (frames ++ zeros p) = .ok (os, zeros p) :=
  ⟨loadMp3_tagged E.cfg.version (by omega) (frames ++ zeros p) stream hn info hinfo,
   id3_tag_roundtrip_safe E Id3Table.frames hv hh fs os ss hrt frames hw p hsafe⟩

open Mutagen.Id3 Mutagen.C01F Mutagen.Spec.Mp3 in
/-- … with a constant-bit-rate stream (`Cbr`: leading junk / tags, four or more frames): the stream info is what the stream
encodes, the first frame found behind the tag -/
theorem mp3_file_load_frames_cbr (E : Id3.Env) (hv : E.cfg.version = 3 ∨ E.cfg.version = 4)
    (hh : E.h = { version := E.cfg.version, unsynch := false }) (fs os : List Val) (ss : List Nat)
    (hrt : TagRTS E Id3Table.frames fs os ss) (frames : Bytes) (hw : saveFrames E.subw Id3Table.frames E.cfg fs = .ok frames) (p : Nat)
    (hsafe : E.cfg.version = 4 → intWalkSafe (frames.length + p) 0 ss = true)
    (hn : (frames ++ zeros p).length < 2 ^ 28) (c : Cbr) (ok : c.OK) :
    loadMp3 (tagHeader E.cfg.version 0 (frames ++ zeros p).length ++ (frames ++ zeros p) ++ c.build) =
      .ok (some (.v2 E.cfg.version 0 (frames ++ zeros p)
        (Id3F.findV1 (tagHeader E.cfg.version 0 (frames ++ zeros p).length ++ (frames ++ zeros p) ++ c.build))),
        { c.expected with frameOffset :=
            (tagHeader E.cfg.version 0 (frames ++ zeros p).length ++ (frames ++ zeros p)).length + c.lead.render.length }) ∧
    readFramesWith E.sub Id3Table.frames E.h (frames ++ zeros p) = .ok (os, zeros p) :=
  mp3_file_load_frames E hv hh fs os ss hrt frames hw p hsafe hn c.build _
    (C05.mpeg_info_decodes_cbr_at _ c ok)

open Mutagen.C01F Mutagen.Spec.Mp3 in
section
/-! non-vacuity: a v2.4 tag with one TIT2 frame ("A", Latin-1) and 12 bytes of padding in front of four MPEG-1 layer III frames -/
@[reducible] def demoHdr : Spec.Mp3.Hdr := { version := 3, layer := 1, protection := 1, bitrateIndex := 9, rateIndex := 0, padding := 0, priv := 0, mode := 0, rest := 0 }
@[reducible] def demoCbr : Cbr :=
  { lead := { tags := [], junk := [] }, f1 := { hdr := demoHdr, body := List.replicate 413 0 },
    f2 := { hdr := demoHdr, body := List.replicate 413 0 }, f3 := { hdr := demoHdr, body := List.replicate 413 0 },
    f4 := { hdr := demoHdr, body := List.replicate 413 0 }, trailing := [] }
def demoRegion : Bytes := [84, 73, 84, 50, 0, 0, 0, 3, 0, 0, 0, 65, 0] ++ zeros 12

example : demoCbr.OK := by unfold Cbr.OK plainFrame; decide +kernel

example : (match loadMp3 (tagHeader 4 0 demoRegion.length ++ demoRegion ++ demoCbr.build) with
    | .ok (some (.v2 4 0 body none), i) => (body == demoRegion) && (i.frameOffset == 35) && (i.bitrate == demoCbr.expected.bitrate)
    | _ => false) = true := by decide +kernel
end

end Mutagen.C01
