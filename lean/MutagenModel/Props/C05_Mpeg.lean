/-
Props/C05_Mpeg.lean — C05 for MP3 (`mutagen.mp3.MPEGInfo`, `MPEGFrame`, `skip_id3`, `iter_sync`;
mutagen/mp3/_util.py `XingHeader`, `LAMEHeader`, `VBRIHeader`).  Property theorems only.
Code side: Model/Info/MpegInfo.lean (the 4-byte header: Model/Info/Mpeg.lean, `mpeg_header_decodes` in Props/C05.lean);
specification side: Spec/Info/Mpeg.lean (frame header: Spec/Mpeg.lean).
-/
import MutagenModel.Proofs.Info.MpegLame
import MutagenModel.Proofs.Info.MpegSync
import MutagenModel.Proofs.Info.MpegShort
set_option linter.unusedVariables false
namespace Mutagen.C05
open Mutagen Mutagen.Info Mutagen.Spec.Mp3

/-- C05 for MP3, constant bitrate: any number of ID3v2 tags (any version and flags, declared sizes 1 … 2^28 − 1), any junk
without a false sync (shorter than the megabyte that is searched), then at least four audio frames — each with ANY valid
header (all versions, layers, bitrate and rate indices, padding, protection, private bit, mode and the six remaining bits;
the frames need not agree with each other) and any body of the ISO frame length, Layer III frames without "Xing" / "Info" /
"VBRI" at the places a VBR header would be — and anything behind: `MPEGInfo` reports the first frame's version, layer,
bitrate, sample rate, channels, mode, padding and protection, `sketchy = False`, `bitrate_mode = UNKNOWN`, the offset of
the first frame, and length = 8 · (file size − offset) / bitrate. -/
theorem mpeg_info_decodes_cbr (c : Cbr) (ok : c.OK) : Mp3.parse c.build = .ok c.expected :=
  Mp3.parse_cbr c ok

/-- C05 for MP3, Xing / Info header: tags and junk as above, then a Layer III frame (any valid header) with any side
information and a "Xing" or "Info" tag with any combination of the frames / bytes / TOC / quality fields at any 32-bit
values, not followed by a LAME version string, then anything (one frame suffices): length = samples-per-frame · frames /
sample rate (576 for MPEG-2 / 2.5 Layer III, 1152 for MPEG-1) — or the size estimate when the frame count is absent —,
bitrate = round((bytes − length of the first frame) · 8 · rate / samples) when both counts are there and samples > 0,
`bitrate_mode` CBR for "Info", VBR for "Xing" with a quality indicator, UNKNOWN otherwise, `sketchy = False`. -/
theorem mpeg_info_decodes_xing (s : XingStream) (ok : s.OK) : Mp3.parse s.build = .ok s.expected :=
  Mp3.parse_xing s ok

/-- C05 for MP3, VBRI header: tags and junk as above, then a Layer III frame whose 32 bytes behind the header do not look
like a Xing tag, a version-1 "VBRI" header with any delay, quality, byte and frame counts and a table of 2- or 4-byte
entries, then anything: length = samples-per-frame · frames / sample rate, bitrate = int(bytes · 8 / length) (the header's
bitrate when there are no frames), `bitrate_mode = VBR`, `encoder_info = "FhG"`, `sketchy = False`. -/
theorem mpeg_info_decodes_vbri (s : VbriStream) (ok : s.OK) : Mp3.parse s.build = .ok s.expected :=
  Mp3.parse_vbri s ok

/-- C05 for MP3, Xing / Info header with the LAME extension: as `mpeg_info_decodes_xing`, the tag followed by a LAME
version string "LAME<d>.<dd><r| |.|a|b>" (3.90 … 9.99) and the 27 bytes of the extension with ALL its fields at any value:
length = (samples-per-frame · frames − encoder delay − padding, not below 0) / sample rate, `bitrate_mode` from the VBR
method (1, 8 CBR; 2, 9 ABR; 3 … 6 VBR; else as for the plain tag), `encoder_info` = "LAME <version>", track peak = peak /
2^23 (None when 0), track gain = ± magnitude / 10 when its type is 1, album gain likewise when its type is 2,
`encoder_settings` the guess of `LAMEHeader.guess_settings`.  (Unconditional since /repo e94d6e4, which applies the sign
of the album gain.) -/
theorem mpeg_info_decodes_lame (s : LameStream) (ok : s.OK) : Mp3.parse s.build = .ok s.expected :=
  Mp3.parse_lame s ok

/-- the hypotheses are satisfiable: a stream of each kind -/
example : ∃ c : Cbr, c.OK :=
  ⟨{ lead := { tags := [], junk := [] },
     f1 := { hdr := { version := 3, layer := 1, protection := 1, bitrateIndex := 9, rateIndex := 0, padding := 0, priv := 0, mode := 0, rest := 0 },
             body := List.replicate 413 0 },
     f2 := { hdr := { version := 3, layer := 1, protection := 1, bitrateIndex := 9, rateIndex := 0, padding := 0, priv := 0, mode := 0, rest := 0 },
             body := List.replicate 413 0 },
     f3 := { hdr := { version := 3, layer := 1, protection := 1, bitrateIndex := 9, rateIndex := 0, padding := 0, priv := 0, mode := 0, rest := 0 },
             body := List.replicate 413 0 },
     f4 := { hdr := { version := 3, layer := 1, protection := 1, bitrateIndex := 9, rateIndex := 0, padding := 0, priv := 0, mode := 0, rest := 0 },
             body := List.replicate 413 0 },
     trailing := [] }, by unfold Cbr.OK plainFrame; decide +kernel⟩

example : ∃ s : XingStream, s.OK :=
  ⟨{ lead := { tags := [], junk := [] },
     hdr := { version := 3, layer := 1, protection := 1, bitrateIndex := 9, rateIndex := 0, padding := 0, priv := 0, mode := 0, rest := 0 },
     side := List.replicate 32 0,
     tag := { isInfo := false, frames := some 1000, bytes := some 417000, toc := none, quality := some 57 },
     after := [] },
   by decide +kernel, by decide +kernel, by decide +kernel, by decide +kernel,
   ⟨(by intro n h; cases h; decide), (by intro n h; cases h; decide), (by intro t h; cases h), (by intro n h; cases h; decide)⟩,
   by decide +kernel, by decide +kernel⟩

/-- the stream that used to show the dropped sign ("LAME3.99r", track gain −6.5 dB, album gain −7.2 dB): the album gain
now decodes to −7.2 -/
example : ∃ s : LameStream, s.OK ∧ ∃ i, Mp3.parse s.build = .ok i ∧
    i.trackGain = some (.mul (.div (.nat 65) (.flt (.int 10))) (.int (-1))) ∧
    i.albumGain = some (.mul (.div (.nat 72) (.flt (.int 10))) (.int (-1))) := by
  refine ⟨{ lead := { tags := [], junk := [] },
            hdr := { version := 3, layer := 1, protection := 1, bitrateIndex := 9, rateIndex := 0, padding := 0, priv := 0, mode := 0, rest := 0 },
            side := List.replicate 32 0,
            tag := { isInfo := false, frames := some 1000, bytes := some 417000, toc := none, quality := some 57 },
            version := { major := 3, minor := 99, flag := 0x72 },
            ext := { vbrMethod := 4, lowpass := 190, peak := 0, trackGainType := 1, trackGainOrigin := 3, trackGainSign := 1, trackGainAbs := 65,
                     albumGainType := 2, albumGainOrigin := 3, albumGainSign := 1, albumGainAbs := 72, encodingFlags := 0, athType := 4,
                     bitrate := 128, delay := 576, padding := 1000, misc := 0, mp3Gain := 0, surround := 0, preset := 0,
                     musicLength := 417000, musicCrc := 0, tagCrc := 0 },
            after := [] }, ?_⟩
  refine (fun ok => ⟨ok, _, Mp3.parse_lame _ ok, rfl, Mp3.expected_album_gain _ rfl rfl⟩) ?_
  exact ⟨by decide +kernel, by decide +kernel, by decide +kernel, by decide +kernel,
    ⟨(by intro n h; cases h; decide), (by intro n h; cases h; decide), (by intro t h; cases h), (by intro n h; cases h; decide)⟩,
    by decide +kernel, by decide +kernel⟩

example : ∃ s : VbriStream, s.OK :=
  ⟨{ lead := { tags := [], junk := [] },
     hdr := { version := 3, layer := 1, protection := 1, bitrateIndex := 9, rateIndex := 0, padding := 0, priv := 0, mode := 0, rest := 0 },
     side := List.replicate 32 0,
     tag := { delay := 0, quality := 75, bytes := 417000, frames := 1000, tocEntries := 1, tocScale := 1, tocEntrySize := 2,
              tocFramesPerEntry := 1000, toc := [0, 1] },
     after := [] },
   by unfold VbriStream.OK VbriTag.OK; decide +kernel⟩

/-- C04 side: on EVERY byte string `MPEGInfo(fileobj)` returns or raises HeaderNotFoundError; the sync search over
arbitrary bytes ends (the model has no fuel that could run out: `skip_id3` moves forward, the syncs are a list, at most
four frames are tried at each of at most 1499 syncs) -/
theorem mpeg_info_total (f : Bytes) : ∀ e, Mp3.parse f = .error e → e = .mutagen :=
  fun e h => Mp3.parse_clean f e h

/-! ### `MPEGInfo(fileobj, offset)`

`MP3(filename)` passes the size of the ID3v2 tag it has just read as `offset`.  Whatever precedes the offset is not looked
at: a stream behind ANY prefix `pre`, read from `offset = pre.length`, decodes to what the stream encodes, the frame
offset counted from the start of the file.  (The theorems above are the case `pre = []`.) -/

theorem mpeg_info_decodes_cbr_at (pre : Bytes) (c : Cbr) (ok : c.OK) :
    Mp3.parseFrom (pre ++ c.build) pre.length = .ok { c.expected with frameOffset := pre.length + c.lead.render.length } :=
  Mp3.parse_cbr_at pre c ok

theorem mpeg_info_decodes_xing_at (pre : Bytes) (s : XingStream) (ok : s.OK) :
    Mp3.parseFrom (pre ++ s.build) pre.length = .ok { s.expected with frameOffset := pre.length + s.lead.render.length } :=
  Mp3.parse_xing_at pre s ok

theorem mpeg_info_decodes_vbri_at (pre : Bytes) (s : VbriStream) (ok : s.OK) :
    Mp3.parseFrom (pre ++ s.build) pre.length = .ok { s.expected with frameOffset := pre.length + s.lead.render.length } :=
  Mp3.parse_vbri_at pre s ok

theorem mpeg_info_decodes_lame_at (pre : Bytes) (s : LameStream) (ok : s.OK) :
    Mp3.parseFrom (pre ++ s.build) pre.length = .ok { s.expected with frameOffset := pre.length + s.lead.render.length } :=
  Mp3.parse_lame_at pre s ok

/-- without an offset: from 0 -/
theorem mpeg_info_offset_none (f : Bytes) : Mp3.parse f = Mp3.parseFrom f 0 := rfl

/-- C04 side with an offset: on every byte string and from every offset (inside the file, at its end, behind it)
`MPEGInfo(fileobj, offset)` returns or raises HeaderNotFoundError -/
theorem mpeg_info_offset_total (f : Bytes) (offset : Nat) : ∀ e, Mp3.parseFrom f offset = .error e → e = .mutagen :=
  fun e h => Mp3.parseFrom_clean f offset e h

/-- the loop of `skip_id3` ends by itself: the fuel `f.length + 1` the model gives it is never used up (any two fuels
above `f.length − pos` give the same position) -/
theorem mpeg_skip_id3_fuel (f : Bytes) (fuel fuel' pos : Nat) (h1 : f.length < pos + fuel) (h2 : f.length < pos + fuel') :
    Mp3.skipId3 f fuel pos = Mp3.skipId3 f fuel' pos :=
  Mp3.skipId3_fuel f fuel pos fuel' h1 h2

/-! ### fewer than four consecutive frames: the `sketchy` fallback -/

/-- C05 for MP3, a stream that stops after one to three frames (tags and junk as above; each frame with any valid header,
no VBR header; behind the last frame anything that is not a header; no pair of bytes that looks like a sync except where
the frames begin, so that no later sync starts a longer chain): with two or three frames `MPEGInfo` reports the FIRST
frame's header values with `sketchy = True` and the length estimate 8 · (size − offset) / bitrate (min_frames = 2: the first
sync that gave two frames is kept while all later syncs are tried and fail); one frame alone is refused with
HeaderNotFoundError.  From any offset, behind any prefix. -/
theorem mpeg_info_decodes_short_at (pre : Bytes) (s : Short) (ok : s.OK) :
    Mp3.parseFrom (pre ++ s.build) pre.length =
      match s.expected with
      | some i => .ok { i with frameOffset := pre.length + s.lead.render.length }
      | none => .error .mutagen :=
  Mp3.parse_short_at pre s ok

theorem mpeg_info_decodes_short (s : Short) (ok : s.OK) :
    Mp3.parse s.build = match s.expected with
      | some i => .ok i
      | none => .error .mutagen :=
  Mp3.parse_short s ok

/-- `MPEGFrame`'s header decoding succeeds only behind a sync (0xFF, then a byte with the top three bits set) -/
theorem mpeg_frame_header_needs_sync (b : Bytes) (h : Mpeg.FrameInfo) (hd : Mpeg.decodeHeader b = .ok h) :
    ∃ y r, b = 0xFF :: y :: r ∧ y.toNat / 32 = 7 := by
  obtain ⟨y, r, h1, h2⟩ := Mp3.decode_sync b h hd
  exact ⟨y, r, h1, by simpa [Mp3.isSecond] using h2⟩

/-- satisfiable, with two frames (sketchy result) and with one (refused) -/
example : ∃ s : Short, s.OK ∧ s.frames.length = 2 ∧ s.trailing ≠ [] :=
  ⟨{ lead := { tags := [], junk := [0, 1] },
     frames := [{ hdr := { version := 3, layer := 1, protection := 1, bitrateIndex := 9, rateIndex := 0, padding := 0, priv := 0, mode := 0, rest := 0 },
                  body := List.replicate 413 0 },
                { hdr := { version := 2, layer := 2, protection := 0, bitrateIndex := 3, rateIndex := 1, padding := 1, priv := 0, mode := 3, rest := 5 },
                  body := List.replicate 141 7 }],
     trailing := [0xFF, 0x00, 0xE0] },
   by unfold Short.OK quietFrames quietFrames quietFrames plainFrame; decide +kernel, rfl, by decide⟩

example : ∃ s : Short, s.OK ∧ s.expected = none :=
  ⟨{ lead := { tags := [], junk := [] },
     frames := [{ hdr := { version := 3, layer := 1, protection := 1, bitrateIndex := 9, rateIndex := 0, padding := 0, priv := 0, mode := 0, rest := 0 },
                  body := List.replicate 413 0 }],
     trailing := [] },
   by unfold Short.OK quietFrames quietFrames plainFrame; decide +kernel, rfl⟩

/-- `iter_sync` as it is written — chunks of 2, 4, 8, … bytes, a sync that straddles two chunks found through the last
byte kept from the previous chunk, `max_read` cutting the last chunk — yields, on every file, from every position and
for every `max_read`, exactly the scan `Mp3.syncScan` that `Mp3.parse` (and so every theorem above) uses: the positions
`i ≥ pos` with `f[i] = 0xFF`, `f[i+1] & 0xE0 = 0xE0` and `i + 2 ≤ pos + max_read` -/
theorem mpeg_iter_sync_chunks (f : Bytes) (pos maxRead : Nat) :
    Mp3.syncChunks f maxRead (f.length + 2) pos 0 2 none = Mp3.syncScan f pos maxRead :=
  Mp3.syncChunks_eq_syncScan f pos maxRead

/-- `MPEGFrame`'s header decoding raises nothing but HeaderNotFoundError (no KeyError from the tables, no ZeroDivisionError) -/
theorem mpeg_frame_header_total (b : Bytes) : ∀ e, Mpeg.decodeHeader b = .error e → e = .mutagen :=
  fun e h => Mp3.decodeHeader_clean b e h

end Mutagen.C05
