/-
Props/C01_Id3Load.lean — C01, the last stage of `ID3.load` (mutagen/id3/_file.py): what becomes of the frames `_read` parsed when
the ID3v1 block at the end of the file is merged in and `translate` runs (Model/Id3Load.lean), and the TrueAudio counterpart of
`mp3_file_load_frames`.

The v2 dictionary (`Id3Conv.Tag`: frames by HashKey) and its COMM frames (`Comm`: description, text) are what `_read` made of the
tag body; that stage — `read_frames` on the body — is Props/C01_Id3Tag.lean / C01_FileTypes.lean on `Val` frames; the step from a
`Val` frame list to the dictionary (the HashKey of every frame class, `_merge_frame` for duplicates) is not modelled, it is the
parameter `read` of `loadedTagOf`.  The merge + translate stage is tied to the real `ID3(BytesIO)` on generated v2 + v1 combinations
(harness/id3convert_tie.py `run_load`).
-/
import MutagenModel.Proofs.Id3Load
import MutagenModel.Proofs.FileTypesTta
set_option linter.unusedVariables false
namespace Mutagen.C01
open Mutagen Mutagen.Id3Load
open Mutagen.Id3v1 (Str Src Representable fix latin1Replace makeID3v1 yearStr commentBytes parseID3v1)

/-- THE ID3v1 MERGE, exactly.  The loaded tag is the v2 dictionary followed by those of the frames `ParseID3v1` makes of the block —
TIT2, TPE1, TALB, the year (TYER under a v2.2 / v2.3 header, TDRC under v2.4), COMM "ID3v1 Comment"/eng, TRCK, TCON, each only when
the ID3v1 field is not empty (track ≠ 0, genre ≠ 255) — that pass `keep`: the v2 tag has nothing under the frame's HashKey (`getall`:
the key itself or a key beginning with it and ":"), and for the comment in addition: it is not a copy (`isV1Copy`: its Latin-1
encoding is a prefix of the stripped first value of a v2 COMM without description) -/
theorem id3_load_v1_merge (t : Id3Conv.Tag) (comms : List Comm) (ver : Nat) (v : Id3v1.Tag) :
    mergeV1 t comms v.comment (v1Frames ver v) = t ++ (v1Frames ver v).filter (keep t comms v.comment) :=
  mergeV1_v1Frames t comms ver v

/-- the HashKeys of the v1 frames are pairwise independent (none is found under another): the loop's decisions do not influence
one another -/
theorem id3_v1_frames_independent (ver : Nat) (v : Id3v1.Tag) :
    (v1Frames ver v).Pairwise (fun a b => indep a.key b.key) :=
  v1Frames_pairwise ver v

/-- a representable comment (≤ 28 Latin-1 characters, no NUL, no white space at the ends) of a v2 COMM without description: what
`MakeID3v1` writes of it and `ParseID3v1` reads back IS a copy, so it is not merged as a second comment -/
theorem id3_v1_comment_is_copy (c : Str) (rest : List Str) (h : Representable 28 c) (comms : List Comm)
    (hmem : ({ desc := [], text := c :: rest } : Comm) ∈ comms) :
    isV1Copy comms (fix ((latin1Replace c).take 28)) = true :=
  isV1Copy_self c rest h comms hmem

/-- SAVE WITH v1=2, THEN LOAD: the block `MakeID3v1` wrote (`makeID3v1 src = ok block`) adds nothing — the loaded tag is the one
loaded without the block — when the v2 tag still has the frames the block was made from (TIT2 / TPE1 / TALB / TRCK / TCON where `src`
had them; the year under the key the load looks at: TDRC for a v2.4 tag, TYER otherwise) and the comment field is empty, already
there as "COMM:ID3v1 Comment:eng", or a copy (`id3_v1_comment_is_copy`).  For every `translate` setting. -/
theorem id3_load_roundtrip_with_v1 (t : Id3Conv.Tag) (comms : List Comm) (vmaj : Nat) (src : Src) (block : Bytes)
    (hb : makeID3v1 src = .ok block)
    (h1 : src.tit2.isSome = true → hasAll t "TIT2" = true) (h2 : src.tpe1.isSome = true → hasAll t "TPE1" = true)
    (h3 : src.talb.isSome = true → hasAll t "TALB" = true)
    (hy : yearStr src ≠ [] → hasAll t (if vmaj = 4 then "TDRC" else "TYER") = true)
    (htr : src.trck.isSome = true → hasAll t "TRCK" = true) (htc : src.tcon.isSome = true → hasAll t "TCON" = true)
    (hc : fix (commentBytes src.comm) = [] ∨ hasAll t v1CommKey = true ∨ isV1Copy comms (fix (commentBytes src.comm)) = true)
    (translate : Option Nat) :
    loadedTag t comms vmaj (some block) translate = loadedTag t comms vmaj none translate :=
  merge_own_block t comms vmaj src block hb h1 h2 h3 hy htr htc hc translate

/-- composed with the file level: the tag `MP3(fileobj)` / `TrueAudio(fileobj)` / `ID3(fileobj)` holds, from the `Loaded` the file-level
load returns (`mp3_file_load_frames`, `trueaudio_file_load_frames`), the block being the last `n` bytes of the file -/
theorem id3_loaded_tag_of_v2 (f : Bytes) (vmaj flags : Nat) (body : Bytes) (v1 : Option Nat)
    (read : Nat → Nat → Bytes → Id3Conv.Tag × List Comm) (v2version : Nat) (translate : Bool) :
    loadedTagOf f (.v2 vmaj flags body v1) read v2version translate =
      loadedTag (read vmaj flags body).1 (read vmaj flags body).2 vmaj (v1.map fun n => f.drop (f.length - n))
        (if translate then some v2version else none) := rfl

/-! ### decided instances: a v2.4 tag with TIT2 and a COMM without description; blocks with another title, a new comment, a copy -/

def demoT : Id3Conv.Tag := [.text "TIT2" 3 [[84]], .other "COMM" "COMM::eng"]
def demoComms : List Comm := [{ desc := [], text := [[97, 32, 99, 111, 109, 109, 101, 110, 116]] }]
def blockOf (title artist comment : Bytes) (track : UInt8) : Bytes :=
  Id3v1.render ⟨title, artist, [], [0x31, 0x39, 0x39, 0x39], comment, track, 17⟩

/-- title present in v2: not taken; artist, year (as TDRC), track, genre: taken; comment "a comm" repeats the start of the v2
comment: not taken; comment "other": taken -/
example : (loadedTag demoT demoComms 4 (some (blockOf [88] [65] [97, 32, 99, 111, 109, 109] 5)) none).map (·.key) =
      ["TIT2", "COMM::eng", "TPE1", "TDRC", "TRCK", "TCON"] ∧
    (loadedTag demoT demoComms 4 (some (blockOf [88] [65] [111, 116, 104, 101, 114] 0)) none).map (·.key) =
      ["TIT2", "COMM::eng", "TPE1", "TDRC", v1CommKey, "TCON"] ∧
    (loadedTag demoT demoComms 3 (some (blockOf [88] [] [] 0)) none).map (·.key) = ["TIT2", "COMM::eng", "TYER", "TCON"] := by
  decide +kernel

/-- with `translate` (v2.4): the genre number from the block becomes its name -/
example : Id3Conv.textOf (loadedTag demoT demoComms 4 (some (blockOf [88] [] [] 0)) (some 4)) "TCON" = [[82, 111, 99, 107]] := by
  decide +kernel

/-! ## TrueAudio -/

open Mutagen.Id3 Mutagen.C01F Mutagen.FileTypes in
/-- END TO END for TrueAudio (cf. `mp3_file_load_frames`): an ID3v2 header (version 3 or 4, flags 0), the rendered frames, padding,
a TTA stream: `TrueAudio(fileobj)` returns the tag object whose body is the frames region — which `read_frames` reads as the frames —
and the stream info `TrueAudioInfo` decodes at `offset` = the size of the tag -/
theorem trueaudio_file_load_frames (E : Id3.Env) (hv : E.cfg.version = 3 ∨ E.cfg.version = 4)
    (hh : E.h = { version := E.cfg.version, unsynch := false }) (fs os : List Val) (ss : List Nat)
    (hrt : TagRTS E Id3Table.frames fs os ss) (frames : Bytes) (hw : saveFrames E.subw Id3Table.frames E.cfg fs = .ok frames) (p : Nat)
    (hsafe : E.cfg.version = 4 → intWalkSafe (frames.length + p) 0 ss = true)
    (hn : (frames ++ zeros p).length < 2 ^ 28) (h : Spec.TrueAudio.Fields) (ok : h.OK) (rest : Bytes) :
    loadTrueAudio (tagHeader E.cfg.version 0 (frames ++ zeros p).length ++ (frames ++ zeros p) ++ (Spec.TrueAudio.build h ++ rest)) =
      .ok (some (.v2 E.cfg.version 0 (frames ++ zeros p)
        (Id3F.findV1 (tagHeader E.cfg.version 0 (frames ++ zeros p).length ++ (frames ++ zeros p) ++ (Spec.TrueAudio.build h ++ rest)))),
        Spec.TrueAudio.expected h) ∧
    readFramesWith E.sub Id3Table.frames E.h (frames ++ zeros p) = .ok (os, zeros p) :=
  ⟨loadTrueAudio_tagged E.cfg.version (by omega) (frames ++ zeros p) _ hn _ (C05.tta_info_decodes h ok _ rest),
   readFramesWith_roundtrip_safe E Id3Table.frames hv hh fs os ss hrt frames hw p hsafe⟩

end Mutagen.C01
