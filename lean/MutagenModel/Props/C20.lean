/-
Props/C20.lean — C20 "Command-line tools finish the file they are writing when signalled".
The handler and block programs and the table of modifying calls are regenerated from the
tools' source on every run (Generated/Tools.lean).
-/
import MutagenModel.Proofs.Signal
set_option linter.unusedVariables false
namespace Mutagen.C20
open Mutagen.Signal Mutagen.Generated

/-- For every tool run (any number of files, any number of operations per file) and EVERY
signal schedule (any number of signals at any positions): if no signal arrives every file is
updated completely and the tool does not exit; if a signal arrives the tool exits
(SystemExit "Aborted...") and the files updated are exactly a prefix of the file list, each
of them completely — no file is left half-written and no later file is touched. -/
theorem tool_run_atomic (ns : List Nat) (f : Nat) (t : List Ev) (h : Interleave (toolProg f ns) t)
    (s : St) (ho : Open s) :
    (Ev.sig ∉ t ∧ run s t = { s with done := s.done ++ toolOps f ns }) ∨
    (Ev.sig ∈ t ∧ (run s t).exited = true ∧
      ∃ m, m ≤ ns.length ∧ (run s t).done = s.done ++ toolOps f (ns.take m)) := by
  induction ns generalizing f t s with
  | nil =>
    obtain ⟨k, rfl⟩ : ∃ k, t = List.replicate k Ev.sig := ⟨_, h.nil_inv⟩
    by_cases hk : 0 < k
    · right
      have hr := run_sigs_open s k [] ho.1 ho.2.2 hk
      simp only [List.append_nil] at hr
      rw [hr]
      exact ⟨(mem_sig_replicate k).mpr hk, rfl, 0, Nat.le_refl _, by simp [toolOps]⟩
    · have : k = 0 := by omega
      subst this
      left
      exact ⟨by simp, by simp [run, toolOps]⟩
  | cons n ns ih =>
    simp only [toolProg] at h
    obtain ⟨t1, t2, rfl, h1, h2⟩ := Interleave.append_inv h
    rw [run_append]
    rcases file_step f n t1 h1 s ho with ⟨hn1, hr1⟩ | ⟨hs1, he1, hd1⟩
    · rw [hr1]
      have ho' : Open { s with done := s.done ++ fileOps f n } := ho
      rcases ih (f + 1) t2 h2 _ ho' with ⟨hn2, hr2⟩ | ⟨hs2, he2, m, hm, hd2⟩
      · left
        refine ⟨by simp [hn1, hn2], ?_⟩
        rw [hr2]; simp [toolOps, List.append_assoc]
      · right
        refine ⟨by simp [hs2], he2, m + 1, by simp; omega, ?_⟩
        rw [hd2]; simp [toolOps, List.append_assoc]
    · right
      rw [run_exited _ _ he1]
      refine ⟨by simp [hs1], he1, ?_⟩
      rcases hd1 with hd | hd
      · exact ⟨0, Nat.zero_le _, by simp [hd, toolOps]⟩
      · exact ⟨1, by simp, by simp [hd, toolOps]⟩

/-- outside a file modification a signal terminates the tool at the point of delivery -/
theorem outside_immediate (s : St) (ho : Open s) (rest : List Ev) :
    run s (.sig :: rest) = { s with interrupted := true, exited := true } := by
  rw [run_cons _ _ _ ho.2.2, exec_sig_open s ho.1 ho.2.2, run_exited _ _ rfl]

/-- inside a block a signal is only recorded; the body's remaining operations all run -/
theorem inside_deferred (f : Nat) (ks : List Nat) (tr : List Ev) (h : Interleave (ks.map (.op f)) tr)
    (s : St) (hn : s.nosig = true) (he : s.exited = false) :
    (run s tr).done = s.done ++ ks.map (fun k => (f, k)) ∧ (run s tr).exited = false := by
  rw [body_completes f ks tr h s hn he]; exact ⟨rfl, he⟩

/-- every file-modifying call of mid3v2 / mid3cp / mid3iconv / moggsplit is inside
`with _sig.block():` (directly or because every call site of its function is), every tool's
entry_point installs the handler, and the handler is installed for SIGINT, SIGTERM, SIGHUP -/
theorem saves_protected :
    (modifyingCalls.all fun c => c.2.2.2.2) = true ∧
    (entryInstallsHandler.all fun e => e.2) = true ∧
    entryInstallsHandler.map (·.1) = ["mid3v2", "mid3cp", "mid3iconv", "moggsplit"] ∧
    modifyingCalls.length > 0 ∧
    (["SIGINT", "SIGTERM", "SIGHUP"].all fun x => handledSignals.contains x) = true := by decide

/-- the generated programs are the ones the semantics above was proved for -/
theorem handler_shape :
    handlerProg = [.setInterrupted true, .exitUnlessNosig] ∧
    blockPre = [.setNosig true] ∧ blockPost = [.setNosig false, .exitIfInterrupted] := by decide

/-! non-vacuity: a concrete schedule — signal in the middle of the first of two files -/
example : (run {} [.outside, .enter, .op 0 0, .sig, .op 0 1, .leave, .outside, .outside, .enter, .op 1 0, .leave, .outside]).done
    = [(0, 0), (0, 1)] := by decide
example : Interleave (toolProg 0 [1]) [.outside, .enter, .sig, .op 0 0, .leave, .outside] := by
  repeat (first | exact Interleave.nil | apply Interleave.step | apply Interleave.sig)

end Mutagen.C20
