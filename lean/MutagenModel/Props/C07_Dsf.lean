/-
Props/C07_Dsf.lean — C07 "Saving unchanged tags twice gives byte-identical files" for DSF files
`[DSD chunk][fmt chunk][data chunk][ID3 tag?]` (mutagen/dsf.py; model: Model/Container/Dsf.lean).
-/
import MutagenModel.Proofs.Container.Dsf
set_option linter.unusedVariables false
namespace Mutagen.C07
open Mutagen

/-! ## DSF files: `[DSD chunk][fmt chunk][data chunk][ID3 tag?]` -/

/-- DSF: saving the same frames a second time under the default padding policy gives the same file,
byte for byte: the first save's answer `p` is a fixed point of the policy (nothing follows the tag in
either save) -/
theorem dsf_resave_idempotent (L : Dsf.Layout) (h : L.OK) (vmaj : Nat) (hvm : vmaj = 3 ∨ vmaj = 4) (frames : Bytes)
    (p : Nat) (hp : Generated.defaultPadding ((L.tag.length : Int) - (frames.length + 10 : Nat)) 0 = p)
    (hfit : frames.length + p < 2 ^ 28) (hsize : L.tagPos + (10 + frames.length + p) < 2 ^ 63) :
    ∃ out, Dsf.save L.render vmaj frames .default = .ok out ∧ Dsf.save out vmaj frames .default = .ok out := by
  obtain ⟨hd, hh, hd10, hs⟩ := Dsf.save_layout L h vmaj hvm frames .default p (by simpa [getPadding] using hp) hfit
  refine ⟨_, hs, ?_⟩
  obtain ⟨htag, _⟩ := Dsf.newTag_ok vmaj hvm frames p hfit hd hh
  have hl : (hd ++ frames ++ zeros p).length = 10 + frames.length + p := by simp [hd10]; omega
  have hok : (L.withTag (hd ++ frames ++ zeros p)).OK := Dsf.withTag_ok L h _ htag (by rw [hl]; exact hsize)
  have hp2 : getPadding .default (((L.withTag (hd ++ frames ++ zeros p)).tag.length : Int) - (frames.length + 10 : Nat)) 0 = p := by
    show Generated.defaultPadding _ _ = _
    rw [Dsf.tag_withTag, hl]
    have e : ((10 + frames.length + p : Nat) : Int) - ((frames.length + 10 : Nat) : Int) = (p : Int) := by omega
    rw [e, ← hp]
    exact defaultPadding_idempotent _ _
  obtain ⟨hd2, hh2, _, hs2⟩ := Dsf.save_layout _ hok vmaj hvm frames .default p hp2 hfit
  have : hd2 = hd := by rw [hh] at hh2; cases hh2; rfl
  rw [hs2, this, Dsf.withTag_withTag]

/-- the hypotheses are satisfiable: the example file (12-byte tag), 2 bytes of frames — the default
policy keeps the 0 bytes that are left, and the sizes fit -/
example : Dsf.exampleLayout.OK ∧
    Generated.defaultPadding ((Dsf.exampleLayout.tag.length : Int) - (2 + 10 : Nat)) 0 = (0 : Nat) ∧
    2 + 0 < 2 ^ 28 ∧ Dsf.exampleLayout.tagPos + (10 + 2 + 0) < 2 ^ 63 :=
  ⟨Dsf.exampleLayout_ok, by decide +kernel, by decide, by decide +kernel⟩

end Mutagen.C07
