/-
Props/C05_Mp4.lean — C05 for MP4, the two fixed-layout decoders only: the Media Header Box (`mdhd` →
`MP4Info.length`) and the common part of an AudioSampleEntry (`stsd` entry → channels, sample size,
sample rate), on the payloads of the atoms.  Property theorems only.  NOT covered: the atom tree and the
track search of `MP4Info.load`, and the codec-specific boxes (esds / alac / dac3) that can overwrite the
values of the sample entry.
-/
import MutagenModel.Proofs.Info.Mp4
set_option linter.unusedVariables false
namespace Mutagen.C05
open Mutagen Mutagen.Info Mutagen.Spec.Mp4Info

/-- for every Media Header Box of version 0 or 1 (any flags, times, language; timescale ≥ 1; any
32-bit resp. 64-bit duration), followed by anything, the length is duration / timescale -/
theorem mp4_mdhd_decodes (m : Mdhd) (ok : m.OK) (rest : Bytes) :
    Info.Mp4.mdhdLength (mdhdPayload m ++ rest) = .ok (mdhdExpected m) :=
  Info.Mp4.mdhd_build m ok rest

/-- on every payload the `mdhd` decoder returns, raises MP4StreamInfoError, or raises struct.error
(a payload that ends inside timescale / duration; `MP4.load` wraps it, `MP4Info.load` alone does not) -/
theorem mp4_mdhd_classes (p : Bytes) : ∀ e, Info.Mp4.mdhdLength p = .error e → e = .mutagen ∨ e = .struct_ :=
  fun e h => Info.Mp4.mdhd_classes p e h

/-- the witness: version 0, 4 + 12 bytes — two bytes short of the timescale -/
theorem mp4_mdhd_struct_witness : Info.Mp4.mdhdLength (zeros 14) = .error .struct_ := by decide +kernel

/-- for every AudioSampleEntry (any channel count, sample size, 16.16 sample rate) with at least one child
box that mutagen does not descend into, the three values `AudioSampleEntry` starts from are the fields
(the rate's integer part) -/
theorem mp4_sample_entry_decodes (e : AudioEntry) (ok : e.OK) :
    Info.Mp4.entry (entryPayload e) = .ok (entryExpected e) :=
  Info.Mp4.entry_full e ok

/-- on every payload: a value, MP4StreamInfoError, or (first child box with a container name) outside the model -/
theorem mp4_sample_entry_classes (p : Bytes) : ∀ e, Info.Mp4.entry p = .error e → e = .mutagen ∨ e = .notImplemented :=
  fun e h => Info.Mp4.entry_full_classes p e h

end Mutagen.C05
