/-
Props/C05_Mp4.lean — C05 for MP4, the two fixed-layout decoders only: the Media Header Box (`mdhd` →
`MP4Info.length`) and the common part of an AudioSampleEntry (`stsd` entry → channels, sample size,
sample rate), on the payloads of the atoms; and `MP4Info` on whole files: the box tree, the search for the
audio track, `mdhd`, `stsd`, the sample entry, the `alac` and `dac3` boxes.  Property theorems only.
`esds`: the decode theorem covers General Audio configurations without explicit SBR/PS signalling and without a
program_config_element; the other branches of `DecoderSpecificInfo._parse` are in the code-side model and tied only.
-/
import MutagenModel.Proofs.Info.Mp4File
set_option linter.unusedVariables false
namespace Mutagen.C05
open Mutagen Mutagen.Info Mutagen.Spec.Mp4Info

/-- for every Media Header Box of version 0 or 1 (any flags, times, language; timescale ≥ 1; any
32-bit resp. 64-bit duration), followed by anything, the length is duration / timescale -/
theorem mp4_mdhd_decodes (m : Mdhd) (ok : m.OK) (rest : Bytes) :
    Info.Mp4.mdhdLength (mdhdPayload m ++ rest) = .ok (mdhdExpected m) :=
  Info.Mp4.mdhd_build m ok rest

/-- on every payload the `mdhd` decoder returns, raises MP4StreamInfoError, or raises struct.error
(a payload that ends inside timescale / duration; `MP4.load` wraps it, `MP4Info.load` alone does not) -/
theorem mp4_mdhd_classes (p : Bytes) : ∀ e, Info.Mp4.mdhdLength p = .error e → e = .mutagen ∨ e = .struct_ :=
  fun e h => Info.Mp4.mdhd_classes p e h

/-- the witness: version 0, 4 + 12 bytes — two bytes short of the timescale -/
theorem mp4_mdhd_struct_witness : Info.Mp4.mdhdLength (zeros 14) = .error .struct_ := by decide +kernel

/-- C05 for MP4: for every file of the shape `Spec/Info/Mp4.lean` builds — any top-level boxes around `moov`,
any boxes around the audio track, around `mdia`, in front of `stbl` and behind `stsd` (well-formed box trees of
any depth up to 65, 32- or 64-bit sizes), a Media Header Box of version 0 or 1 with any field values, a
handler box of type "soun", an `stsd` box with any flags, any entry count ≥ 1, a first sample entry with any
channel count / sample size / 16.16 rate — followed by further child boxes and further entries — and as
codec-specific box: (plain) any entry name with any first child box other than the three special pairs,
(alac) an `alac` entry with an ALAC magic cookie of any field values, (dac3) an `ac-3` entry with a `dac3`
box of any field values with a defined bit_rate_code, (esds) an `mp4a` entry with an `esds` box: ES_Descriptor
(any ES_ID and priority), DecoderConfigDescriptor (MPEG-4 audio, any buffer size and bitrates), AudioSpecificConfig
of audio object type 1, 2, 3, 4 or 7 with any sampling frequency index 0…12 or any explicit 24-bit frequency, any
channelConfiguration 1…7, either form of the descriptor sizes — `MP4Info` reports exactly what the boxes encode:
length = duration / timescale; channels, bits per sample, sample rate from the sample entry, overridden by
the ALAC cookie (bit depth, channels, average bitrate, sample rate) resp. the `dac3` box (channels =
A/52 table 5.8 [acmod] + lfeon, bitrate = table 5.18 [bit_rate_code] · 1000) resp. the `esds` box (bitrate =
avgBitrate; channels and sampling frequency of the AudioSpecificConfig — table 1.18 — except where it leaves them
open: channelConfiguration 1 and rates up to 24 kHz of SBR-capable types, where the sample entry decides);
codec = the entry's name, for `esds` followed by ".40.<audioObjectType>". -/
theorem mp4_info_decodes (h : Fields) (ok : h.OK) : Info.Mp4.parse (build h) = .ok (expected h) :=
  Info.Mp4.parse_build h ok

/-- C04 side: on EVERY byte string, `Atoms(fileobj)` and `MP4Info.load` as `MP4.load` runs them return or
raise the module's error -/
theorem mp4_info_total (f : Bytes) : ∀ e, Info.Mp4.parse f = .error e → e = .mutagen :=
  fun e h => Info.Mp4.parse_clean f e h

/-- `Atoms(fileobj)` gives back every box of a rendered tree with its offset, length and children -/
theorem mp4_atoms_of_rendered (atoms : List Mp4C.Atom) (h : Mp4C.wfList atoms) (hl : Mp4C.heightList atoms ≤ 65)
    (R : Bytes) (hr : R.length < 8) : Mp4C.parse (Mp4C.renderList atoms ++ R) = .ok (Mp4C.pListOf 0 atoms) :=
  Mp4C.parse_render atoms h hl R hr

open Mutagen.Mp4C in
/-- non-vacuity: an AAC-LC file (`ftyp`, `moov` with one audio track, `esds`) -/
def mp4Demo : Fields :=
  { before := [.leaf [0x66, 0x74, 0x79, 0x70] false [0x4D, 0x34, 0x41, 0x20, 0, 0, 0, 0]], after := [], tail := [],
    moovBefore := [], moovAfter := [], trakBefore := [], trakAfter := [],
    mdhd := { version := 0, flags := 0, creationTime := 0, modificationTime := 0, timescale := 44100, duration := 88200, language := 0x55C4, preDefined := 0 },
    hdlrHead := zeros 8, hdlrRest := zeros 13, minfBefore := [], stblAfter := [], stsdFlags := 0, entryCount := 1,
    entry := { dataReferenceIndex := 1, channelCount := 2, sampleSize := 16, preDefined := 0, reserved := 0, sampleRate := 44100, sampleRateFraction := 0 },
    codec := .esds { longForm := false, esId := 1, streamPriority := 0, upStream := 0, bufferSizeDB := 6144, maxBitrate := 256000, avgBitrate := 128000,
                     audioObjectType := 2, freqIndex := 4, explicitFreq := 0, channelConfiguration := 2, frameLengthFlag := 0, slConfig := [6, 1, 2] },
    entryMore := [], moreEntries := [] }

open Mutagen.Mp4C in
example : mp4Demo.OK := by
  refine ⟨?_, ?_, by decide, ?_, ?_, ?_, ?_, by decide, by decide, by decide, by decide, by decide, by decide, ?_⟩
  · simp only [tree, mp4Demo, List.append_nil, List.nil_append, List.cons_append, wfList, Atom.wf, mdiaAtom, stsdAtom, entryAtom]
    decide +kernel
  · decide +kernel
  · intro x hx; simp [mp4Demo] at hx; subst hx; decide
  · intro x hx; cases hx
  · intro x hx; cases hx
  · intro x hx; cases hx
  · show (Codec.esds _).OK
    simp only [Codec.OK]; decide +kernel

end Mutagen.C05
