/-
Props/C06_OggInject.lean — C06 "I/O failures surface only as MutagenError; success means written" for
the Ogg formats: the file-object programs of `OggFileType.save` / `delete` (Model/Container/OggInjectM.lean:
the slot loop of `OggPage.replace` with `resize_bytes`, `seek`, `write`; `OggPage.renumber` with its page
reads; the `try … except` of the entry points) in ARBITRARY fault environments — any exception injected at
any file-object call, short reads, finite capacity.  Lemmas: Proofs/Container/OggInjectCap.lean.
The reads that locate the comment pages before the first write are summarised by their result (a fault
there leaves the file as it is and is converted like any other).
-/
import MutagenModel.Proofs.Container.OggInjectCap
set_option linter.unusedVariables false
namespace Mutagen.C06
open Mutagen Mutagen.Ogg Mutagen.OggInj

/-- `save` under ANY fault environment, for ANY bytes in the file: what leaves is the format's error
(MutagenError), or something `OggFileType.save` does not convert — ValueError (`to_packets` on a run
that is not numbered consecutively, an argument check of the file primitives), a non-I/O exception the
environment itself injected, or the model's marker for BUFFER_SIZE = 0 -/
theorem ogg_save_raises_only (B : Nat) (c : Codec) (f vc padData : Bytes) (pad : PadChoice) :
    Raises (fun e x => x = .mutagen ∨ (OggErr e x ∧ oggCaught x = false)) (saveEntry B c f vc padData pad) :=
  raises_saveEntry B c f vc padData pad

/-- with I/O faults only (every injected exception is an IOError; ENOSPC is one): MutagenError or
ValueError (or the BUFFER_SIZE = 0 marker) -/
theorem ogg_save_io_faults (B : Nat) (c : Codec) (f vc padData : Bytes) (pad : PadChoice) (e : Env)
    (hio : ∀ i x, e.failAt i = some x → x.isIO = true) (s s' : FS) (x : PyErr)
    (h : saveEntry B c f vc padData pad e s = (.error x, s')) : x = .mutagen ∨ x = .value ∨ x = .diverge :=
  saveEntry_io_faults B c f vc padData pad e hio s s' x h

/-- the same for `delete` -/
theorem ogg_delete_io_faults (B : Nat) (c : Codec) (f vendor padData : Bytes) (e : Env)
    (hio : ∀ i x, e.failAt i = some x → x.isIO = true) (s s' : FS) (x : PyErr)
    (h : deleteEntry B c f vendor padData e s = (.error x, s')) : x = .mutagen ∨ x = .value ∨ x = .diverge :=
  saveEntry_io_faults B c f _ padData _ e hio s s' x h

/-- success means written: a normal return of `save` — whatever faults the environment holds, on a
device of any capacity, as long as reads are not short and the file object does not itself raise
EOFError (`renumber` takes EOFError for the end of the file) — leaves the complete new state: the
bytes the pure `save` returns -/
theorem ogg_save_ok_means_written (B : Nat) (hB : 0 < B) (c : Codec) (L : Layout) (h : L.OK c) (hs : L.StreamOK)
    (vc padData : Bytes) (pad : PadChoice) (old0 new0 : Bytes) (others : List Bytes) (new : List Page)
    (hpk : toPackets L.oldPages false = .ok (old0 :: others))
    (hnp : newPacket c old0 vc padData pad L.render.length = .ok new0)
    (hnew : newPages c (new0 :: others) L.oldPages = .ok new)
    (hseq : L.c1.sequence + new.length + (L.post.filter (·.serial = L.serial)).length ≤ 2 ^ 32)
    (e : Env) (hshort : ∀ i, e.shortAt i = none) (hno : ∀ i, e.failAt i ≠ some .eof)
    (s s' : FS) (hsd : s.data = L.render) (hok : saveEntry B c L.render vc padData pad e s = (.ok (), s')) :
    s'.data = renderPages (L.after new) ∧ save c L.render vc padData pad = .ok s'.data :=
  saveEntry_ok_means_written B hB c L h hs vc padData pad old0 new0 others new hpk hnp hnew hseq e hshort hno s s' hsd hok

/-- the same for `delete` -/
theorem ogg_delete_ok_means_written (B : Nat) (hB : 0 < B) (c : Codec) (L : Layout) (h : L.OK c) (hs : L.StreamOK)
    (vendor padData : Bytes) (old0 new0 : Bytes) (others : List Bytes) (new : List Page)
    (hpk : toPackets L.oldPages false = .ok (old0 :: others))
    (hnp : newPacket c old0 (Vorbis.encode vendor [] c.framing) padData (.callback fun _ _ => 0) L.render.length = .ok new0)
    (hnew : newPages c (new0 :: others) L.oldPages = .ok new)
    (hseq : L.c1.sequence + new.length + (L.post.filter (·.serial = L.serial)).length ≤ 2 ^ 32)
    (e : Env) (hshort : ∀ i, e.shortAt i = none) (hno : ∀ i, e.failAt i ≠ some .eof)
    (s s' : FS) (hsd : s.data = L.render) (hok : deleteEntry B c L.render vendor padData e s = (.ok (), s')) :
    s'.data = renderPages (L.after new) ∧ delete c L.render vendor padData = .ok s'.data :=
  saveEntry_ok_means_written B hB c L h hs _ padData _ old0 new0 others new hpk hnp hnew hseq e hshort hno s s' hsd hok

/-- the hypothesis about EOFError cannot be dropped: `renumber` ends its loop on EOFError, so an
EOFError raised by the file object while a page is read ends the renumbering early and `replace`
returns normally.  (The model `renumberM` does exactly that; see the tie.) -/
theorem ogg_renumber_swallows_injected_eof :
    ∃ (e : Env) (s : FS), (renumberM 7 10 5 e s).1 = .ok () ∧ (renumberM 7 10 5 e s).2.data = s.data ∧
      (renumberM 7 10 5 Env.clean s).2.data ≠ s.data := by
  refine ⟨{ failAt := fun i => if i = 0 then some .eof else none }, { data := renderPages [Example.audioPage] }, ?_⟩
  decide +kernel

/-! non-vacuity: an injected I/O fault in the middle of the slot loop surfaces as the format's error -/
set_option maxRecDepth 100000 in
example : (saveEntry 4096 .vorbis Example.layout.render Example.bigComment [] (.callback fun _ _ => 0)
    { failAt := fun i => if i = 6 then some .io else none } { data := Example.layout.render }).1 = .error .mutagen := by
  decide +kernel

end Mutagen.C06
