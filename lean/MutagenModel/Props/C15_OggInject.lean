/-
Props/C15_OggInject.lean — C15 "Ogg paging", second sentence: "Replacing a run of pages inside a
stream keeps that stream's sequence numbers gapless and its first/last flags in place and leaves the
pages of other streams untouched" — theorems about the API functions of mutagen/ogg.py themselves:
`OggPage._from_packets_try_preserve`, `OggPage.replace` (any new pages, numbered however the caller
likes, fewer / as many / more than the old ones) and `OggPage.renumber`.  Model:
Model/Container/OggInject.lean (`tryPreserve`, `copyLayout`, `prepare`, `replace`, `renumber`, the
spec-side `Layout`, `Layout.after`, `renum`); lemmas: Proofs/Container/OggApi.lean.  The first sentence
(from_packets / to_packets / write / parse) is Props/C15.lean.

A file is `L.render` for a `Layout` (pages in front, the run's pages each followed by the pages of
other streams between it and the next, pages behind) with `L.RunOK`: every page is one that
`OggPage(fileobj)` reads back as `OggPage.write` wrote it (`Good`: version 0, fields in range, at most
255 lacing values, incomplete only with a last packet of 255·m bytes); the run's pages have the
serial number `L.serial`, the pages between them other serial numbers; behind the run's last page
comes `L.post`.  The run's pages as read from the file are `rds (renderPages L.pre).length L.slots`
(page and offset).
-/
import MutagenModel.Proofs.Container.OggApi
import MutagenModel.Props.C15
set_option linter.unusedVariables false
namespace Mutagen.C15
open Mutagen Mutagen.Ogg Mutagen.OggInj

/-! ## OggPage._from_packets_try_preserve -/

/-- For any old pages `to_packets` accepts (one serial number, consecutive page numbers) and ANY new
packet list: `_from_packets_try_preserve` succeeds, `to_packets` of its result gives the packets back,
and the result is numbered consecutively from `old_pages[0].sequence`. -/
theorem try_preserve_roundtrip (o : Page) (r : List Page) (X packets : List Bytes)
    (hold : toPackets (o :: r) false = .ok X) :
    ∃ new, tryPreserve packets (o :: r) = .ok new ∧ toPackets new false = .ok packets ∧
      new.map (·.sequence) = List.range' o.sequence new.length := by
  by_cases hl : packets.map List.length = X.map List.length
  · obtain ⟨new, h1, _, h2, _, _, h3⟩ := tryPreserve_same_sizes o r X packets hold hl
    exact ⟨new, h1, h2, h3⟩
  · rw [tryPreserve_other_sizes o r X packets hold hl, fromPackets_default]
    obtain ⟨pages, hp, htp⟩ := to_packets_from_packets packets o.sequence Generated.oggDefaultSize Generated.oggWiggleRoom
      (by decide) false
    rw [fromPackets_default] at hp
    simp only [Except.ok.injEq] at hp
    subst hp
    exact ⟨_, rfl, htp, (pages_bookkeeping _ _ _ _ _ _).1⟩

/-- same packet sizes ⇒ the layout is copied: as many pages as before, each with the packet lengths,
the complete and continued flags, the granule position and the page number of its old page — hence
the same size — filled with the new data -/
theorem try_preserve_same_sizes (o : Page) (r : List Page) (X packets : List Bytes)
    (hold : toPackets (o :: r) false = .ok X) (hl : packets.map List.length = X.map List.length) :
    ∃ new, tryPreserve packets (o :: r) = .ok new ∧ new.length = (o :: r).length ∧
      new.map (fun p => (p.packets.map List.length, p.complete, p.continued, p.position, p.sequence)) =
        (o :: r).map (fun p => (p.packets.map List.length, p.complete, p.continued, p.position, p.sequence)) ∧
      new.map Page.size = (o :: r).map Page.size ∧ (new.map (·.packets)).flatten.flatten = packets.flatten := by
  obtain ⟨new, h1, hn, _, h3, h4, _⟩ := tryPreserve_same_sizes o r X packets hold hl
  refine ⟨new, h1, by simpa using congrArg List.length h4, h3, h4, ?_⟩
  subst hn
  have htot : totalLen (o :: r) = packets.flatten.length := by
    rw [flatten_length_of_lens packets X hl, toPackets_flat o r X hold]
  obtain ⟨_, h2, hr, _⟩ := copyLayout_spec (o :: r) packets.flatten (by omega)
  have hnil : (copyLayout (o :: r) packets.flatten).2 = [] := by
    apply List.eq_nil_of_length_eq_zero; rw [hr]; omega
  rw [hnil, List.append_nil] at h2
  rw [List.flatten_flatten, List.map_map]; exact h2

/-- any other list of packet sizes — also one with the same number of packets and the same total —
⇒ the old layout is dropped: the result is `from_packets(packets, old_pages[0].sequence)` -/
theorem try_preserve_other_sizes (o : Page) (r : List Page) (X packets : List Bytes)
    (hold : toPackets (o :: r) false = .ok X) (hl : packets.map List.length ≠ X.map List.length) :
    tryPreserve packets (o :: r) = fromPackets policy packets o.sequence Generated.oggDefaultSize Generated.oggWiggleRoom :=
  tryPreserve_other_sizes o r X packets hold hl

/-- the case a comparison of count and total alone gets wrong: one old page with packets of 2 and 1
bytes, new packets of 1 and 2 bytes — the layout is NOT copied (the copy would cut the data 2 + 1) -/
example : tryPreserve [[7], [8, 9]] [{ packets := [[1, 2], [3]], sequence := 5 }] =
      fromPackets policy [[7], [8, 9]] 5 Generated.oggDefaultSize Generated.oggWiggleRoom ∧
    (tryPreserve [[7], [8, 9]] [{ packets := [[1, 2], [3]], sequence := 5 }]).map (List.map (·.packets)) = .ok [[[7], [8, 9]]] ∧
    (tryPreserve [[7, 8], [9]] [{ packets := [[1, 2], [3]], sequence := 5 }]).map (List.map (·.packets)) = .ok [[[7, 8], [9]]] := by
  refine ⟨by decide +kernel, by decide +kernel, by decide +kernel⟩

/-! ## OggPage.replace -/

/-- `replace(fileobj, old_pages, new_pages)` with ANY non-empty list of new pages — their numbers,
serial numbers and first/last flags are the caller's and are overwritten — succeeds and writes the
page list `L.after new`: the new pages numbered from the first old page's number on, with the run's
serial number, the first old page's first/continued flags on the first and the last old page's
last/complete flags on the last; one per old page in the old pages' places, the surplus behind the
last, nothing where old pages are left over; the other streams' pages between them kept; and, when the
number of pages changed, every later page of the stream renumbered.  Needed: the new pages can be
written once numbered (`Renderable`: ≤ 255 lacing values, granule position and numbers in range), and
— only when the number of pages changes — page numbers stay below 2³². -/
theorem replace_writes (L : Layout) (h : L.RunOK) (new : List Page) (hnew : new ≠ [])
    (hren : ∀ p ∈ prepare L.c1 L.cK new, Renderable p)
    (hseq : L.slots.length ≠ new.length →
      L.c1.sequence + new.length + (L.post.filter (·.serial = L.serial)).length ≤ 2 ^ 32) :
    replace L.render (rds (renderPages L.pre).length L.slots) new = ⟨renderPages (L.after new), none⟩ :=
  replace_run L h new hnew hren hseq

/-- … the pages of every other logical stream are the same pages in the same order -/
theorem replace_keeps_other_streams (L : Layout) (h : L.RunOK) (new : List Page) :
    others L.serial (L.after new) = others L.serial L.pages :=
  others_afterR L h new

/-- … the stream's page numbers: gapless before ⇒ gapless after, for fewer, as many or more new pages
and whatever numbers they came with -/
theorem replace_numbers_gapless (L : Layout) (h : L.RunOK) (new : List Page) (a : Nat)
    (hin : (stream L.serial L.pages).map (·.sequence) = List.range' a (stream L.serial L.pages).length) :
    (stream L.serial (L.after new)).map (·.sequence) = List.range' a (stream L.serial (L.after new)).length :=
  seq_afterR L h new a hin

/-- … first/last flags: the stream is its pages in front of the run, the new run, its pages behind
(renumbered or not: their flags are untouched); in the new run the first-page flag is on the first
page exactly if the old run's first page had it, the last-page flag on the last page exactly if the
old run's last page had it — and nowhere else, provided the caller's pages carry neither flag (as the
pages of `from_packets` and `_from_packets_try_preserve` do) -/
theorem replace_first_last_flags (L : Layout) (h : L.RunOK) (new : List Page) (hnew : new ≠ [])
    (hf : ∀ p ∈ new, p.first = false ∧ p.last = false) :
    stream L.serial (L.after new) = stream L.serial L.pre ++ prepare L.c1 L.cK new ++
      stream L.serial (if L.slots.length ≠ new.length then renum L.serial (L.c1.sequence + new.length) L.post else L.post) ∧
    (prepare L.c1 L.cK new).map (·.first) = L.c1.first :: List.replicate (new.length - 1) false ∧
    (prepare L.c1 L.cK new).map (·.last) = List.replicate (new.length - 1) false ++ [L.cK.last] ∧
    (renum L.serial (L.c1.sequence + new.length) L.post).map (fun p => (p.first, p.last)) =
      L.post.map (fun p => (p.first, p.last)) := by
  refine ⟨stream_afterR L h new, first_prepare' _ _ _ hnew (fun p hp => (hf p hp).1),
    last_prepare' _ _ _ hnew (fun p hp => (hf p hp).2), ?_⟩
  have := congrArg (List.map (fun p : Page => (p.first, p.last))) (renum_fields L.serial (L.c1.sequence + new.length) L.post)
  simpa [List.map_map, Function.comp_def] using this

/-- … every page still parses, with a correct checksum: when the new pages are readable once numbered
and flagged (`Good`; see `replace_new_pages_good` for conditions on the caller's pages), every page of
the result is, and the strict reader (capture pattern, version, lacing, extent, the page re-rendered
with the RFC 3533 checksum equal to the bytes read) reads the file back into exactly `L.after new` -/
theorem replace_pages_parse (L : Layout) (h : L.RunOK) (new : List Page) (hg : ∀ p ∈ prepare L.c1 L.cK new, Good p)
    (hseq : L.slots.length ≠ new.length →
      L.c1.sequence + new.length + (L.post.filter (·.serial = L.serial)).length ≤ 2 ^ 32) :
    (∀ p ∈ L.after new, Good p) ∧
      readAll ((renderPages (L.after new)).length + 1) (renderPages (L.after new)) = some (L.after new) := by
  have hga := good_afterR L h new hg hseq
  exact ⟨hga, readAll_pages _ _ hga (by have := length_renderPages_ge (L.after new); omega)⟩

/-- conditions on the caller's pages under which they are readable once `replace` has numbered and
flagged them: default version and reserved flag bits, granule position in range, at most 255 lacing
values even with a terminating one, `Canon`; and, when the last old page leaves its last packet open
(the last new page inherits that), a last packet of a non-empty multiple of 255 bytes on the last new
page.  The pages of `from_packets` qualify (`good_prepare_fromPackets`). -/
theorem replace_new_pages_good (L : Layout) (h : L.RunOK) (new : List Page) (hseq : L.c1.sequence + new.length ≤ 2 ^ 32)
    (hv : ∀ q ∈ new, q.version = 0 ∧ q.flagsHi = 0)
    (hpos : ∀ q ∈ new, -(2 ^ 63 : Int) ≤ q.position ∧ q.position < (2 ^ 63 : Int))
    (hlc : ∀ q ∈ new, laceCount q.packets ≤ 255) (hcan : ∀ q ∈ new, Canon q)
    (hl : L.cK.complete = false → ∀ y, new.getLast? = some y → ∃ q l, y.packets = q ++ [l] ∧ l.length % 255 = 0 ∧ l ≠ []) :
    ∀ p ∈ prepare L.c1 L.cK new, Good p := by
  have hg : Good L.c1 := by
    obtain ⟨r, hr⟩ := oldPages_eq L h.ne
    have : L.c1 ∈ L.oldPages := by rw [hr]; simp
    obtain ⟨s, hs, hse⟩ := List.mem_map.mp this
    rw [← hse]; exact (h.slots s hs).1
  exact good_prepare L.c1 L.cK new (renderable_of_render _ _ hg.render).2.1 hseq hv hpos hlc hcan hl

/-- … the stream's packets are the old ones with the run's packets replaced by the new pages' packets:
in front of the run as they were; behind it the reassembly of the later pages onto the new run's
packets where it was onto the old run's (a packet left open by the run's last page goes on in the next
page, before and after).  Both runs start a packet. -/
theorem replace_packets (L : Layout) (h : L.RunOK) (new : List Page)
    (hold : startsFresh L.oldPages = true) (hnew : startsFresh new = true)
    (hhead : ∀ p, new.head? = some p → p.continued = L.c1.continued) :
    reasm [] (stream L.serial L.pages) =
      reasm (reasm [] (stream L.serial L.pre) ++ reasm [] L.oldPages) (stream L.serial L.post) ∧
    reasm [] (stream L.serial (L.after new)) =
      reasm (reasm [] (stream L.serial L.pre) ++ reasm [] new) (stream L.serial L.post) :=
  packets_afterR L h new hold hnew hhead

/-- … in the usual case that the pages behind the run start a packet: packets in front ++ the run's
packets ++ packets behind, with only the middle part exchanged -/
theorem replace_packets_complete (L : Layout) (h : L.RunOK) (new : List Page)
    (hold : startsFresh L.oldPages = true) (hnew : startsFresh new = true)
    (hhead : ∀ p, new.head? = some p → p.continued = L.c1.continued)
    (hpost : startsFresh (stream L.serial L.post) = true) :
    reasm [] (stream L.serial L.pages) =
      reasm [] (stream L.serial L.pre) ++ reasm [] L.oldPages ++ reasm [] (stream L.serial L.post) ∧
    reasm [] (stream L.serial (L.after new)) =
      reasm [] (stream L.serial L.pre) ++ reasm [] new ++ reasm [] (stream L.serial L.post) :=
  packets_afterR_complete L h new hold hnew hhead hpost

/-! ## OggPage.renumber -/

/-- `renumber(fileobj, serial, start)` with the file position at a page boundary (`A`: the bytes in
front, `ps`: the pages from there on): it succeeds; the bytes in front are untouched; exactly the pages
of the serial get the numbers `start, start+1, …` in file order (`renum`), nothing else of them
changes; pages of other serials are the same pages in the same order; every page is still readable.
Needed: page numbers stay below 2³². -/
theorem renumber_renumbers (ser : Nat) (ps : List Page) (A : Bytes) (start : Nat) (hp : ∀ p ∈ ps, Good p)
    (hn : start + (ps.filter (·.serial = ser)).length ≤ 2 ^ 32) :
    renumber ser ((A ++ renderPages ps).length + 1) (A ++ renderPages ps) A.length start =
      ⟨A ++ renderPages (renum ser start ps), none⟩ ∧
    (stream ser (renum ser start ps)).map (·.sequence) = List.range' start (stream ser ps).length ∧
    (renum ser start ps).map (fun p => ({ p with sequence := 0 } : Page)) = ps.map (fun p => ({ p with sequence := 0 } : Page)) ∧
    others ser (renum ser start ps) = others ser ps ∧
    (∀ p ∈ renum ser start ps, Good p) :=
  ⟨renumber_pages ser ps A start _ hp hn (by have := length_renderPages_ge ps; simp only [List.length_append]; omega),
    (seq_stream_renum ser start ps).1, renum_fields ser start ps, others_renum ser start ps, good_renum ser start ps hp hn⟩

/-! ## non-vacuity: a multiplexed file, a run of two pages with a page of another stream between
them, replaced by fewer / as many / more pages that the caller numbered 77, 78, … -/

/-- the layout (Props/C02_OggInject.lean: Vorbis stream 7 with its comment packet on two pages,
stream 9 interleaved) is a run layout; its stream 7 is numbered 0, 1, 2, 3 -/
example : Example.layout2.RunOK ∧
    (stream Example.layout2.serial Example.layout2.pages).map (·.sequence) = List.range' 0 4 :=
  ⟨Example.layout2_ok.runOK, by decide⟩

/-- fewer (1 for 2), as many (2 for 2), more (3 for 2): the hypotheses of `replace_writes` hold -/
example : (∀ p ∈ prepare Example.layout2.c1 Example.layout2.cK [Example.pg 3 77], Renderable p) ∧
    (∀ p ∈ prepare Example.layout2.c1 Example.layout2.cK [Example.pg 3 77, Example.pg 4 78], Renderable p) ∧
    (∀ p ∈ prepare Example.layout2.c1 Example.layout2.cK [Example.pg 3 77, Example.pg 4 78, Example.pg 0 79], Renderable p) ∧
    Example.layout2.c1.sequence + 3 + (Example.layout2.post.filter (·.serial = Example.layout2.serial)).length ≤ 2 ^ 32 := by
  refine ⟨by decide, by decide, by decide, by decide⟩

/-- … and what comes out in the three cases: the stream's page numbers after the edit (the caller's
77, 78, 79 are gone; the page behind the run is renumbered when the count changed) -/
example :
    (stream 7 (Example.layout2.after [Example.pg 3 77])).map (·.sequence) = [0, 1, 2] ∧
    (stream 7 (Example.layout2.after [Example.pg 3 77, Example.pg 4 78])).map (·.sequence) = [0, 1, 2, 3] ∧
    (stream 7 (Example.layout2.after [Example.pg 3 77, Example.pg 4 78, Example.pg 0 79])).map (·.sequence) = [0, 1, 2, 3, 4] ∧
    others 7 (Example.layout2.after [Example.pg 3 77, Example.pg 4 78, Example.pg 0 79]) = others 7 Example.layout2.pages := by
  refine ⟨by decide, by decide, by decide, by decide⟩

/-- … the model's `replace` run on the bytes of that file gives the bytes of these pages (fewer) -/
example : replace Example.layout2.render (rds (renderPages Example.layout2.pre).length Example.layout2.slots) [Example.pg 3 77] =
    ⟨renderPages (Example.layout2.after [Example.pg 3 77]), none⟩ :=
  replace_writes _ Example.layout2_ok.runOK _ (by simp) (by decide) (fun _ => by decide)

end Mutagen.C15
