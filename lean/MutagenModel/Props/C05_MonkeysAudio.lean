/-
Props/C05_MonkeysAudio.lean — C05 "Stream information equals what the headers encode" for
Monkey's Audio (mutagen/monkeysaudio.py `MonkeysAudioInfo`), both header generations.
Property theorems only; layouts: Spec/Info/MonkeysAudio.lean (MAC SDK), parser: Model/Info/MonkeysAudio.lean.
-/
import MutagenModel.Proofs.Info.MonkeysAudio
import MutagenModel.Proofs.Info.Reports
set_option linter.unusedVariables false
namespace Mutagen.C05
open Mutagen Mutagen.Info Mutagen.Info.MonkeysAudio Mutagen.Spec.MonkeysAudio

/-- C05 for Monkey's Audio ≥ 3.98: for EVERY value of every descriptor and header field (version word,
all sizes, MD5, compression level, flags, blocks per frame, final frame blocks, total frames, bits,
channels, rate ≥ 1), followed by anything, the reported version, channels, rate, sample size and
duration `((frames-1)·blocksPerFrame + finalFrameBlocks) / rate` are the encoded ones — PROVIDED the
descriptor is exactly 52 bytes (`extra = []`); a longer descriptor is misread, see
`ape_descriptor_beyond_52_misread`. -/
theorem ape_info_decodes_partial (h : New) (ok : h.OK) (h52 : h.extra = []) (rest : Bytes) :
    parse (h.build ++ rest) = .ok h.expected :=
  parse_new h ok h52 rest

/-- what `MonkeysAudioInfo` DOES report for a ≥ 3.98 file with ANY descriptor length (nDescriptorBytes = 52 + k): the
version word, and the six header values read from the fixed file offsets 56..76 — that is, from 4 bytes into
(expansion bytes ++ APE_HEADER): with k = 0 the real header, otherwise the header shifted by k bytes (for k ≥ 20 only
expansion bytes). -/
theorem ape_info_reports (h : New) (ok : h.OK) (rest : Bytes) :
    parse (h.build ++ rest) = .ok (finish h.version (rawNew (readAt (h.build ++ rest) 0 76))) :=
  parse_new_reports h ok rest

/-- C05 for Monkey's Audio < 3.98, everything but the sample size: for EVERY old header (any version below
3980, compression level, flags, channels, rate ≥ 1, frame counts, optional peak level / seek element
count, any stored WAV header) in a file of at least 76 bytes, version, channels, rate and duration (with
the blocks-per-frame rule of the SDK) are the encoded ones; `bits_per_sample` is whatever the parser finds
(`b`), see `apeold_bits_misread`. -/
theorem apeold_info_decodes_except_bits (h : Old) (ok : h.OK) (rest : Bytes) (hlen : 76 ≤ (h.build ++ rest).length) :
    ∃ b, parse (h.build ++ rest) = .ok { h.expected with bitsPerSample := b } :=
  ⟨_, parse_old_except_bits h ok rest hlen⟩

/-- C05 for Monkey's Audio < 3.98 including the sample size, under the condition that makes mutagen's
shortcut right: peak level and seek element count are both present (flags 4 and 16, the stored header
then starts at offset 40) and the stored header is a canonical 44-byte PCM WAV header whose
wBitsPerSample is the sample size of the format flags. -/
theorem apeold_info_decodes_partial (h : Old) (ok : h.OK) (rest : Bytes)
    (hpk : h.formatFlags / 4 % 2 = 1) (hsk : h.formatFlags / 16 % 2 = 1)
    (c r n br ba : Nat) (more : Bytes) (hc : c < 2 ^ 16) (hr : r < 2 ^ 32) (hn : 36 + n < 2 ^ 32) (hbr : br < 2 ^ 32)
    (hba : ba < 2 ^ 16) (hwav : h.wavHeader = pcmWavHeader c r h.bits n br ba ++ more) :
    parse (h.build ++ rest) = .ok h.expected := by
  have hlen : 76 ≤ (h.build ++ rest).length := by
    have := length_old_build_ge h
    have hw : h.wavHeader.length = 44 + more.length := by
      rw [hwav]; simp [pcmWavHeader]; omega
    simp only [List.length_append]; omega
  rw [parse_old_except_bits h ok rest hlen, old_wav_bits h ok rest hpk hsk c r n br ba more hc hr hn hbr hba hwav]
  rfl

/-- C04 side: on EVERY byte string `MonkeysAudioInfo` either succeeds or raises a `MutagenError`
(`MonkeysAudioHeaderError`). -/
theorem ape_info_total (f : Bytes) : ∀ e, parse f = .error e → e = .mutagen := by
  intro e he
  unfold parse at he
  simp only at he
  split at he
  · cases he; rfl
  · cases he

/-! ### defect witnesses -/

/-- a 3.99 file whose descriptor announces 56 bytes (4 expansion bytes), 16 bit stereo 44100 Hz, 3 frames -/
def ape56 : New :=
  { version := 3990, padding := 0, extra := [0, 0, 0, 0], headerBytes := 24, seekTableBytes := 12, headerDataBytes := 0,
    frameDataBytes := 120, frameDataBytesHigh := 0, terminatingBytes := 0, md5 := List.replicate 16 7,
    compressionLevel := 2000, formatFlags := 0, blocksPerFrame := 294912, finalFrameBlocks := 1000, totalFrames := 3,
    bits := 16, channels := 2, rate := 44100 }

/-- DEFECT witness (known finding APE:…): the header follows the 56-byte descriptor, mutagen reads it at
offset 52: channels 0 instead of 2, 131088 Hz instead of 44100, 3 bits instead of 16, and a duration from the
shifted fields. -/
theorem ape_descriptor_beyond_52_misread :
    ape56.OK ∧ ape56.expected.channels = 2 ∧ ape56.expected.sampleRate = 44100 ∧ ape56.expected.bitsPerSample = 16 ∧
    parse (ape56.build ++ zeros 200) =
      .ok { version := 3990, channels := 0, sampleRate := 131088, bitsPerSample := 3,
            length := ⟨2292912, 131088⟩ } := by decide +kernel

/-- a 3.97 file, 8-bit mono (format flag 1), no stored WAV header (flag 32) -/
def apeOld8 : Old :=
  { version := 3970, compressionLevel := 2000, formatFlags := 1 + 32, channels := 1, rate := 8000, terminatingBytes := 0,
    totalFrames := 2, finalFrameBlocks := 100, peakLevel := 0, seekElements := 0, wavHeader := [] }

/-- DEFECT witness (known finding APE_OLD:bits_per_sample): the format flags say 8 bit, mutagen reports 0. -/
theorem apeold_bits_misread :
    apeOld8.OK ∧ apeOld8.expected.bitsPerSample = 8 ∧
    parse (apeOld8.build ++ zeros 100) = .ok { apeOld8.expected with bitsPerSample := 0 } := by decide +kernel

/-! non-vacuity -/
example : ({ ape56 with extra := [] } : New).OK := by decide
example : parse (({ ape56 with extra := [] } : New).build) =
    .ok { version := 3990, channels := 2, sampleRate := 44100, bitsPerSample := 16, length := ⟨590824, 44100⟩ } := by
  decide +kernel

end Mutagen.C05
