/-
Props/C06_Asf.lean — C06 "I/O failures surface only as MutagenError; success means written", ASF.
Program: Model/Container/AsfM.lean; lemmas: Proofs/Container/AsfCap.lean.  ARBITRARY fault
environments: any exception injected at any file-object call, short reads, finite capacity.
-/
import MutagenModel.Proofs.Container.AsfCap
set_option linter.unusedVariables false
namespace Mutagen.C06
open Mutagen

/-! ## ASF -/

/-- ASF.save under ANY fault environment: what leaves the entry point is `error` (a MutagenError), or
a non-I/O exception: ValueError (verify_fileobj turns every failure of its `read(0)` / `write(b"")`
into one; argument checks of the file primitives), UnicodeEncodeError (caller-supplied tags with lone
surrogates), an exception the environment injected that is not an IOError, or the BUFFER_SIZE = 0 marker -/
theorem asf_save_raises_only (B : Nat) (objs : List Asf.Obj) (tags : List Asf.Tag) (pad : PadChoice) :
    Raises (fun e x => x = .mutagen ∨ ((x = .value ∨ Asf.AsfErr e x) ∧ x.isIO = false)) (Asf.saveM B objs tags pad) :=
  Asf.raises_saveM B objs tags pad

/-- … with I/O faults only (every injected exception is an IOError, ENOSPC included): MutagenError,
ValueError, UnicodeEncodeError (caller tags) or the BUFFER_SIZE = 0 marker -/
theorem asf_save_io_faults (B : Nat) (objs : List Asf.Obj) (tags : List Asf.Tag) (pad : PadChoice)
    (e : Env) (hio : ∀ i x, e.failAt i = some x → x.isIO = true) (s s' : FS) (x : PyErr)
    (h : Asf.saveM B objs tags pad e s = (.error x, s')) : x = .mutagen ∨ x = .value ∨ x = .unicode ∨ x = .diverge := by
  rcases asf_save_raises_only B objs tags pad e s x s' h with h1 | ⟨h2, hn⟩
  · exact Or.inl h1
  · rcases h2 with h2 | h2 | h2 | h2
    · exact Or.inr (Or.inl h2)
    · exact Or.inl h2
    · exact Or.inr (Or.inr (Or.inl h2))
    · rcases h2 with ⟨i, hi⟩ | h2 | h2 | h2 | h2
      · have := hio i x hi; rw [this] at hn; cases hn
      · subst h2; cases hn
      · exact Or.inr (Or.inl h2)
      · subst h2; cases hn
      · exact Or.inr (Or.inr (Or.inr h2))

/-- the same for ASF.delete (no tags: no UnicodeEncodeError) -/
theorem asf_delete_raises_only (B : Nat) (objs : List Asf.Obj) :
    Raises (fun e x => x = .mutagen ∨ ((x = .value ∨ Asf.AsfErr e x) ∧ x.isIO = false)) (Asf.deleteM B objs) :=
  Asf.raises_deleteM B objs

/-- success means written: a normal return of ASF.save — in any environment without short reads, on a
device of any capacity, whatever faults were scheduled elsewhere — leaves exactly the bytes the pure
model computes for the file it started from -/
theorem asf_save_ok_means_written (B : Nat) (hB : 0 < B) (objs : List Asf.Obj) (tags : List Asf.Tag) (pad : PadChoice) (e : Env)
    (hshort : ∀ i, e.shortAt i = none) (s s' : FS) (hp : s.pos = 0) (h : Asf.saveM B objs tags pad e s = (.ok (), s')) :
    ∃ t, Asf.saveTree objs s.data tags pad = .ok (s'.data, t) :=
  Asf.saveM_ok_means_written B hB objs tags pad e hshort s s' hp h

/-- … on a well-formed layout: the complete new state -/
theorem asf_save_ok_means_written_layout (B : Nat) (hB : 0 < B) (L : Asf.Layout) (hL : L.OK) (tags : List Asf.Tag) (d : Asf.Dist)
    (hd : Asf.distribute tags = .ok d) (P : Asf.Payloads) (hP : Asf.Renders d P) (pad : PadChoice)
    (hf : L.Fits P (Asf.newPadding L P pad)) (e : Env) (hshort : ∀ i, e.shortAt i = none) (s s' : FS)
    (hs : s.data = L.render) (hp : s.pos = 0) (h : Asf.saveM B (L.top.map Asf.Item.toObj) tags pad e s = (.ok (), s')) :
    s'.data = (L.after P (Asf.newPadding L P pad)).render := by
  obtain ⟨t, ht⟩ := Asf.saveM_ok_means_written B hB _ tags pad e hshort s s' hp h
  rw [hs, (Asf.save_layout L hL tags d hd P hP pad hf).1] at ht
  injection ht with ht
  exact (Prod.mk.inj ht).1.symm

theorem asf_delete_ok_means_written (B : Nat) (hB : 0 < B) (objs : List Asf.Obj) (e : Env)
    (hshort : ∀ i, e.shortAt i = none) (s s' : FS) (hp : s.pos = 0) (h : Asf.deleteM B objs e s = (.ok (), s')) :
    ∃ t, Asf.saveTree objs s.data [] Asf.padZero = .ok (s'.data, t) :=
  Asf.deleteM_ok_means_written B hB objs e hshort s s' hp h

/-- a normal return means no injected fault fired (nothing is swallowed on the way) -/
theorem asf_save_ok_means_no_fault (B : Nat) (objs : List Asf.Obj) (tags : List Asf.Tag) (pad : PadChoice) :
    OkAgree (Asf.saveM B objs tags pad) ∧ OkAgree (Asf.deleteM B objs) :=
  ⟨Asf.okAgree_saveM B objs tags pad, Asf.okAgree_deleteM B objs⟩

/-! non-vacuity: an IOError injected in the middle of the move surfaces as `error`; one injected into
verify_fileobj's `write(b"")` as ValueError; a short read of the 30 header bytes as `error` -/
example : (Asf.saveM 64 (Asf.exLayout.top.map Asf.Item.toObj) Asf.exTags .default
    { failAt := fun i => if i = 17 then some .io else none } { data := Asf.exLayout.render }).1 = .error .mutagen := by
  decide +kernel
example : (Asf.saveM 64 (Asf.exLayout.top.map Asf.Item.toObj) Asf.exTags .default
    { failAt := fun i => if i = 1 then some .io else none } { data := Asf.exLayout.render }).1 = .error .value := by
  decide +kernel
example : (Asf.saveM 64 (Asf.exLayout.top.map Asf.Item.toObj) Asf.exTags .default
    { shortAt := fun i => if i = 2 then some 7 else none } { data := Asf.exLayout.render }).1 = .error .mutagen := by
  decide +kernel

end Mutagen.C06
