/-
Props/C02_Asf.lean — C02 "Saving or deleting tags never alters audio or foreign data", ASF files:
[Header Object: children][Data Object, index objects …].  Model: Model/Container/Asf.lean (ASF.load,
ASF.save, ASF.delete at byte level); lemmas: Proofs/Container/Asf.lean.
-/
import MutagenModel.Proofs.Container.Asf
set_option linter.unusedVariables false
namespace Mutagen.C02
open Mutagen

/-! ## ASF: `[Header Object (children …)][rest]` -/

/-- ASF save on a well-formed layout, with tags that distribute to `d` and render to the payloads `P`
(any padding choice, a new file that fits the size fields): the saved file is the layout `L'` whose
foreign objects — every child of the Header Object and of the Header Extension Object that is not
one of the four metadata objects or padding — are those of the old file, in order and byte for byte
EXCEPT the eight File Size bytes (payload bytes 16..24) of the first File Properties Object among
the children of the Header Object, which hold the length of the new file (`L.patched t`: see
`asf_file_size_patch_only`); everything behind the Header Object (Data Object, index objects)
follows the new header unchanged -/
theorem asf_save_preserves_foreign (L : Asf.Layout) (h : L.OK) (tags : List Asf.Tag) (d : Asf.Dist)
    (hd : Asf.distribute tags = .ok d) (P : Asf.Payloads) (hP : Asf.Renders d P) (pad : PadChoice)
    (hf : L.Fits P (Asf.newPadding L P pad)) :
    ∃ L' : Asf.Layout, Asf.save L.render tags pad = .ok L'.render ∧ L'.foreign = (L.patched L'.render.length).foreign ∧
      L'.rest = L.rest ∧ L'.render.drop L'.headerLen = L.rest := by
  refine ⟨L.after P (Asf.newPadding L P pad), (Asf.save_layout L h tags d hd P hP pad hf).2, ?_, rfl, Asf.Layout.drop_render _⟩
  rw [Asf.after_render_length L h]
  exact Asf.after_foreign L h P _

/-- ASF delete keeps every foreign object (but for the File Size field) and everything behind the header -/
theorem asf_delete_preserves_foreign (L : Asf.Layout) (h : L.OK) (hf : L.Fits Asf.emptyPayloads 0) :
    ∃ L' : Asf.Layout, Asf.delete L.render = .ok L'.render ∧ L'.foreign = (L.patched L'.render.length).foreign ∧
      L'.rest = L.rest ∧ L'.render.drop L'.headerLen = L.rest := by
  refine ⟨L.after Asf.emptyPayloads 0, Asf.delete_layout L h hf, ?_, rfl, Asf.Layout.drop_render _⟩
  rw [Asf.after_render_length L h]
  exact Asf.after_foreign L h _ _

/-- what `L.patched t` is: without a File Properties Object among the children of the Header Object
nothing changes; otherwise the first one gets payload bytes 16..24 replaced by `t` (little-endian)
and nothing else changes — same children, same order, same lengths -/
theorem asf_file_size_patch_only (L : Asf.Layout) (h : L.OK) (t : Nat) :
    (L.top.any Asf.Item.isFP = false ∧ L.patched t = L) ∨
      ∃ pre o post, L.top = pre ++ Asf.Item.foreign o :: post ∧ o.guid = Asf.gFileProps ∧ (∀ i ∈ pre, i.isFP = false) ∧
        (L.patched t).top = pre ++ Asf.Item.foreign ⟨o.guid, o.data.take 16 ++ toLE 8 t ++ o.data.drop 24⟩ :: post ∧
        (L.patched t).rest = L.rest := by
  rcases Asf.patchFP_spec t L.top (Asf.FPok_of_OKf _ h.okf) with ⟨h1, h2⟩ | ⟨pre, o, post, h1, h2, h3, h4⟩
  · exact Or.inl ⟨h1, by simp only [Asf.Layout.patched, h2]⟩
  · exact Or.inr ⟨pre, o, post, h1, h2, h3, h4, rfl⟩

/-- a header without a File Properties Object among its children: every foreign object stays
byte-identical -/
theorem asf_save_preserves_foreign_no_file_properties (L : Asf.Layout) (h : L.OK) (tags : List Asf.Tag) (d : Asf.Dist)
    (hd : Asf.distribute tags = .ok d) (P : Asf.Payloads) (hP : Asf.Renders d P) (pad : PadChoice)
    (hf : L.Fits P (Asf.newPadding L P pad)) (hno : L.top.any Asf.Item.isFP = false) :
    ∃ L' : Asf.Layout, Asf.save L.render tags pad = .ok L'.render ∧ L'.foreign = L.foreign ∧ L'.rest = L.rest := by
  obtain ⟨L', h1, h2, h3, _⟩ := asf_save_preserves_foreign L h tags d hd P hP pad hf
  exact ⟨L', h1, by rw [h2, Asf.patched_none L _ hno], h3⟩

/-- loading a well-formed layout builds exactly its object tree: every foreign child is kept as its
raw bytes (GUID + payload), in order -/
theorem asf_load_keeps_objects (L : Asf.Layout) (h : L.OK) : Asf.parseFull L.render = .ok (L.top.map Asf.Item.toObj) :=
  Asf.parseFull_layout L h

/-! ### the decision logic at the top of `ASF.save` (which tag goes into which object) -/

/-- nothing is dropped or duplicated: the four target lists together are a permutation of the tags -/
theorem asf_placement_complete (tags : List Asf.Tag) :
    ((Asf.distPure tags).cd ++ (Asf.distPure tags).ecd ++ (Asf.distPure tags).mo ++ (Asf.distPure tags).ml).Perm tags :=
  (Asf.distInv_distPure tags).perm

/-- order is preserved inside every object: each target list is a subsequence of the tag list
(so values of one name keep their relative order) -/
theorem asf_placement_order (tags : List Asf.Tag) :
    (Asf.distPure tags).cd.Sublist tags ∧ (Asf.distPure tags).ecd.Sublist tags ∧ (Asf.distPure tags).mo.Sublist tags ∧
      (Asf.distPure tags).ml.Sublist tags :=
  ⟨(Asf.distInv_distPure tags).subCD, (Asf.distInv_distPure tags).subECD, (Asf.distInv_distPure tags).subM,
    (Asf.distInv_distPure tags).subML⟩

/-- every value lands in an object that can represent it: the Content Description Object gets text
values under its five names, at most 65535 bytes, without language or stream; the Extended Content
Description Object gets values of at most 65535 bytes (its length field has 16 bits), no GUIDs, no
language, no stream, and none of the five names; the Metadata Object gets values with a stream
number, at most 65535 bytes, no GUIDs, no language; everything else (large values, GUIDs, values
with a language, further values of a name) goes to the Metadata Library Object, whose records have
language and stream fields and a 32-bit length -/
theorem asf_placement_fits (tags : List Asf.Tag) :
    (∀ t ∈ (Asf.distPure tags).cd, Asf.FitsCD t) ∧ (∀ t ∈ (Asf.distPure tags).ecd, Asf.FitsECD t ∧ t.name ∉ Asf.cdNames) ∧
      (∀ t ∈ (Asf.distPure tags).mo, Asf.FitsM t ∧ t.stream ≠ none) :=
  ⟨(Asf.distInv_distPure tags).fitsCD, (Asf.distInv_distPure tags).fitsECD, (Asf.distInv_distPure tags).fitsM⟩

/-- the three objects that hold one value per name get at most one value per name -/
theorem asf_placement_names_unique (tags : List Asf.Tag) :
    (Asf.names (Asf.distPure tags).cd).Nodup ∧ (Asf.names (Asf.distPure tags).ecd).Nodup ∧ (Asf.names (Asf.distPure tags).mo).Nodup :=
  ⟨(Asf.distInv_distPure tags).nodupCD, (Asf.distInv_distPure tags).nodupECD, (Asf.distInv_distPure tags).nodupM⟩

/-- `distribute` is that logic whenever it does not raise -/
theorem asf_distribute_eq (tags : List Asf.Tag) (d : Asf.Dist) (h : Asf.distribute tags = .ok d) : d = Asf.distPure tags := by
  unfold Asf.distribute at h
  split at h
  · cases h; rfl
  · cases h

/-- the hypotheses are satisfiable: a header with File Properties, Content Description, padding and a
Header Extension (foreign object, Metadata Object, padding), four tags that go to the four objects -/
example : Asf.exLayout.OK ∧ Asf.distribute Asf.exTags = .ok Asf.exDist ∧ Asf.Renders Asf.exDist Asf.exPayloads ∧
    Asf.exLayout.Fits Asf.exPayloads (Asf.newPadding Asf.exLayout Asf.exPayloads .default) ∧
    Asf.exLayout.Fits Asf.emptyPayloads 0 := by
  refine ⟨by decide +kernel, by decide +kernel, by decide +kernel, by decide +kernel, by decide +kernel⟩

end Mutagen.C02
