/-
Props/C04_Mp4.lean — C04 ("opening any byte sequence … and then saving or deleting through whatever was opened
either succeeds or raises MutagenError; no other exception type escapes, and the call finishes") for the model
of MP4 files (Model/Container/Mp4.lean), on EVERY byte string: no well-formedness hypothesis on the file, none on
the rendered tags, none on the padding callback's answer, for an io.BytesIO and for a real file.

What the model covers
  load    `Mp4C.parse` = `Atoms(fileobj)` (mutagen/mp4/_atom.py; container atoms at a level above 64 are refused), and
          `Mp4C.load` = that plus the two lookups of `MP4.load` that decide what a later save does (`MP4Info.load` needs
          a top-level `moov`; `MP4Tags._can_load`).  Stream info, the `ilst` children and chapters are read inside
          `except Exception: reraise(error …)`: the real `load` refuses more files, with the same class.
  save    `Mp4C.saveTags` = `MP4Tags.save` from `Atoms(fileobj)` on: `__save_existing` / `__save_new`, the padding
          (default policy or a callback answering ANY integer), `Atom.render` of the `free` / `meta` / `udta` / `hdlr`
          atoms, resize_bytes / insert_bytes, `__update_parents`, `__update_offsets`; `Mp4C.openSave` = `MP4(f)`,
          optionally `add_tags()`, then `save(f, padding=…)`.  The rendered tag values are a parameter (`ilstData`, any
          bytes): rendering (`MP4Tags._render`; TypeError / ValueError there become MP4MetadataValueError) is C01/C09.
  delete  `Mp4C.openDelete` = `MP4(f).delete(f)` = `mutagen.mp4.delete(f)`: a save of an empty `ilst`, padding 0.
  `mem`   the file object is an io.BytesIO (true) or a real file (false): they differ in what a negative seek does
          (ValueError / EINVAL → `error`); the theorems show that no seek is negative.
The tie between these definitions and /repo is harness/mp4file_tie.py (exception class AND the bytes left in the
file, damaged files, both kinds of file object), run by `./check C10`.

History: the first round of this file found four ways out of MutagenError — (E1) ValueError from a negative seek on an
io.BytesIO for a `stco`/`co64` atom among the descendants of `ilst`; (E3) ValueError from `read(-4)` on a real file for
a table atom without payload; (E4) KeyError from `MP4Tags.save` into a file without `moov`; (E2, outside the model
then) RecursionError from 500 nested container atoms.  All are repaired in /repo (ded7b59, 9de9af7, 27f011a, 7f196bf),
the model follows the repaired code, and the hypotheses `TablesSafe` / the classes `Escape` are gone; the witnesses
stay below as examples with their new outcome.

Not modelled: the real reader also refuses atoms that end beyond what the OS lets one seek to (≥ 2^63: OverflowError →
AtomError; on a real file EINVAL above the file system's maximum file size → IOError → AtomError): `error` in both
cases, where the model reads on — the theorems cover a superset of the files the code gets to save.
-/
import MutagenModel.Proofs.Container.Mp4Total
set_option linter.unusedVariables false
namespace Mutagen.C04
open Mutagen Mutagen.Mp4C

/-! ### load -/

/-- `Atoms(fileobj)` on every byte string: a list of atoms, or AtomError (reported as `mutagen.mp4.error`) -/
theorem mp4_parse_clean (f : Bytes) (e : PyErr) (h : Mp4C.parse f = .error e) : e = .mutagen :=
  Mp4C.parse_clean f e h

/-- the atom reader finishes on every byte string: the fuel `length + 4` of `parse` is never used up (every atom
read starts at least 8 bytes behind the previous one) -/
theorem mp4_parse_finishes (f : Bytes) : Mp4C.parse f ≠ .error .diverge := by
  intro h
  have := Mp4C.parse_clean f _ h
  cases this

/-- load: for every byte string the modelled part of `MP4(fileobj)` ends in a result (with or without tags) or in
MutagenError -/
theorem mp4_load_clean (f : Bytes) (e : PyErr) (h : Mp4C.load f = .error e) : e = .mutagen :=
  Mp4C.load_clean f e h

/-! ### delete -/

/-- C04 for delete through what was opened (`MP4(f).delete(f)`, `mutagen.mp4.delete(f)`), for every byte string and
both kinds of file object: a result or MutagenError -/
theorem mp4_delete_clean (mem : Bool) (f : Bytes) (e : PyErr) (g : Bytes) (h : openDelete mem f = (some e, g)) :
    e = .mutagen :=
  openDelete_clean mem f e g h

/-! ### save -/

/-- C04 for save through what was opened (`add_tags()` first or not), for every byte string, ALL rendered tag
values (`ilstData`: any bytes), the default padding policy or a callback answering any integer, both kinds of file
object: a result or MutagenError.  Not possible: KeyError (no `moov`: MP4MetadataError), ValueError from
resize_bytes / insert_bytes (`__save_existing` refuses regions beyond the file first; the insertion point of
`__save_new` lies inside the file, `regionOf_spec`), a negative seek (`seekPos_nonneg`: table atoms inside the
replaced region are skipped, the others are not shifted below 0), `diverge`. -/
theorem mp4_save_clean (mem : Bool) (f : Bytes) (addTags : Bool) (ilstData : Bytes) (pad : PadChoice)
    (e : PyErr) (g : Bytes) (h : openSave mem f addTags ilstData pad = (some e, g)) : e = .mutagen :=
  openSave_clean mem f addTags ilstData pad e g h

/-- `MP4Tags.save(fileobj)` into ANY file (not necessarily the one the tags were loaded from): a result or
MutagenError -/
theorem mp4_saveTags_classes (mem : Bool) (f ilstData : Bytes) (pad : PadChoice) (e : PyErr) (g : Bytes)
    (h : saveTags mem f ilstData pad = (some e, g)) : e = .mutagen :=
  saveTags_clean mem f ilstData pad e g h

/-- the bookkeeping with integer positions and a negative seek that raises (`saveAtZ`, what the theorems above are
about) IS the bookkeeping the offset theorems of Props/C10 are about (`saveAt`, positions cut off at 0), for every
file, parser result, region and both kinds of file object: nothing is ever cut off -/
theorem mp4_saveAtZ_eq_saveAt (mem : Bool) (f : Bytes) (atoms parents : List PAtom) (o old : Nat) (new : Bytes) :
    saveAtZ mem f atoms parents o old new = saveAt f atoms parents o old new :=
  saveAtZ_eq_saveAt mem f atoms parents o old new

/-! ### an ordinary file -/
/-- `moov(trak(mdia(hdlr "soun", mdhd, minf(stbl(stco [172])))), udta(meta(ilst, free(4))))  mdat "AAAA"` — 176 bytes,
loads in /repo -/
def mp4Plain : Bytes :=
  [0x00, 0x00, 0x00, 0xa4, 0x6d, 0x6f, 0x6f, 0x76, 0x00, 0x00, 0x00, 0x74, 0x74, 0x72, 0x61, 0x6b,
   0x00, 0x00, 0x00, 0x6c, 0x6d, 0x64, 0x69, 0x61, 0x00, 0x00, 0x00, 0x20, 0x68, 0x64, 0x6c, 0x72,
   0x00, 0x00, 0x00, 0x00, 0x00, 0x00, 0x00, 0x00, 0x73, 0x6f, 0x75, 0x6e, 0x00, 0x00, 0x00, 0x00,
   0x00, 0x00, 0x00, 0x00, 0x00, 0x00, 0x00, 0x00, 0x00, 0x00, 0x00, 0x20, 0x6d, 0x64, 0x68, 0x64,
   0x00, 0x00, 0x00, 0x00, 0x00, 0x00, 0x00, 0x00, 0x00, 0x00, 0x00, 0x00, 0x00, 0x00, 0xac, 0x44,
   0x00, 0x01, 0x58, 0x88, 0x00, 0x00, 0x00, 0x00, 0x00, 0x00, 0x00, 0x24, 0x6d, 0x69, 0x6e, 0x66,
   0x00, 0x00, 0x00, 0x1c, 0x73, 0x74, 0x62, 0x6c, 0x00, 0x00, 0x00, 0x14, 0x73, 0x74, 0x63, 0x6f,
   0x00, 0x00, 0x00, 0x00, 0x00, 0x00, 0x00, 0x01, 0x00, 0x00, 0x00, 0xac, 0x00, 0x00, 0x00, 0x28,
   0x75, 0x64, 0x74, 0x61, 0x00, 0x00, 0x00, 0x20, 0x6d, 0x65, 0x74, 0x61, 0x00, 0x00, 0x00, 0x00,
   0x00, 0x00, 0x00, 0x08, 0x69, 0x6c, 0x73, 0x74, 0x00, 0x00, 0x00, 0x0c, 0x66, 0x72, 0x65, 0x65,
   0x00, 0x00, 0x00, 0x00, 0x00, 0x00, 0x00, 0x0c, 0x6d, 0x64, 0x61, 0x74, 0x41, 0x41, 0x41, 0x41]

/-- `Atom.render(b"ilst", …)` of the one tag `©nam = "x" * 50` (82 bytes) -/
def mp4PlainIlst : Bytes :=
  [0x00, 0x00, 0x00, 0x52, 0x69, 0x6c, 0x73, 0x74, 0x00, 0x00, 0x00, 0x4a, 0xa9, 0x6e, 0x61, 0x6d,
   0x00, 0x00, 0x00, 0x42, 0x64, 0x61, 0x74, 0x61, 0x00, 0x00, 0x00, 0x01, 0x00, 0x00, 0x00, 0x00] ++ List.replicate 50 0x78

/-- the plain file loads with tags, and a save that grows it by 70 bytes finishes and moves the chunk offset
172 → 242 with the media -/
example :
    Mp4C.load mp4Plain = .ok true ∧
    (openSave true mp4Plain false mp4PlainIlst (.callback fun _ _ => 0)).1 = none ∧
    (openSave true mp4Plain false mp4PlainIlst (.callback fun _ _ => 0)).2.length = 246 ∧
    readAt (openSave true mp4Plain false mp4PlainIlst (.callback fun _ _ => 0)).2 120 4 = [0, 0, 0, 242] ∧
    readAt (openSave true mp4Plain false mp4PlainIlst (.callback fun _ _ => 0)).2 242 4 = [0x41, 0x41, 0x41, 0x41] := by
  decide +kernel

/-! ### the former ways out of MutagenError: the witnesses of the first round, with what they do now

(E1, /repo ded7b59) `moov(udta(meta(ilst(stco(), "xxxx"(44 zero bytes)))))`, 96 bytes.  delete replaces the 68-byte
`ilst` by 16 bytes; the `stco` atom at offset 36 is a child of `ilst` and is found by `moov.findall(b"stco", True)`.
Before: "moved" to 36 - 52 = -16, `seek(-4)` → ValueError on an io.BytesIO.  Now: inside the replaced region, skipped.

    import io, struct
    from mutagen.mp4 import MP4
    box = lambda n, p: struct.pack(">I4s", len(p) + 8, n) + p
    data = box(b"moov", box(b"udta", box(b"meta", b"\0" * 4 + box(b"ilst", box(b"stco", b"") + box(b"xxxx", b"\0" * 44)))))
    f = io.BytesIO(data); MP4(f).delete(f); len(f.getvalue())        # 44 -/

def mp4NegSeek : Bytes :=
  [0x00, 0x00, 0x00, 0x60, 0x6d, 0x6f, 0x6f, 0x76, 0x00, 0x00, 0x00, 0x58, 0x75, 0x64, 0x74, 0x61,
   0x00, 0x00, 0x00, 0x50, 0x6d, 0x65, 0x74, 0x61, 0x00, 0x00, 0x00, 0x00, 0x00, 0x00, 0x00, 0x44,
   0x69, 0x6c, 0x73, 0x74, 0x00, 0x00, 0x00, 0x08, 0x73, 0x74, 0x63, 0x6f, 0x00, 0x00, 0x00, 0x34,
   0x78, 0x78, 0x78, 0x78] ++ zeros 44

/-- E1 now: delete finishes on both kinds of file object and leaves `moov(udta(meta(ilst, free)))`, 44 bytes -/
example :
    Mp4C.load mp4NegSeek = .ok true ∧
    (openDelete true mp4NegSeek).1 = none ∧ (openDelete false mp4NegSeek).1 = none ∧
    (openDelete true mp4NegSeek).2 =
      [0, 0, 0, 0x2c, 0x6d, 0x6f, 0x6f, 0x76, 0, 0, 0, 0x24, 0x75, 0x64, 0x74, 0x61, 0, 0, 0, 0x1c, 0x6d, 0x65, 0x74, 0x61,
       0, 0, 0, 0, 0, 0, 0, 8, 0x69, 0x6c, 0x73, 0x74, 0, 0, 0, 8, 0x66, 0x72, 0x65, 0x65] := by
  decide +kernel

/-! (E3, /repo 9de9af7) `moov(udta(meta(ilst)), stco())`, 44 bytes: the `stco` atom has no payload.  Before:
`fileobj.read(atom.datalength - 4)` = `read(-4)` → ValueError on a real file (an io.BytesIO read to the end of the
file).  Now `read(max(0, …))`: no count to read, MP4MetadataError("wrong offset inside b'stco'") on both — still after
the file has been rewritten (44 → 52 bytes; C06's matter, not C04's). -/

def mp4ShortStco : Bytes :=
  [0x00, 0x00, 0x00, 0x2c, 0x6d, 0x6f, 0x6f, 0x76, 0x00, 0x00, 0x00, 0x1c, 0x75, 0x64, 0x74, 0x61,
   0x00, 0x00, 0x00, 0x14, 0x6d, 0x65, 0x74, 0x61, 0x00, 0x00, 0x00, 0x00, 0x00, 0x00, 0x00, 0x08,
   0x69, 0x6c, 0x73, 0x74, 0x00, 0x00, 0x00, 0x08, 0x73, 0x74, 0x63, 0x6f]

example :
    Mp4C.load mp4ShortStco = .ok true ∧
    (openDelete false mp4ShortStco).1 = some .mutagen ∧ (openDelete true mp4ShortStco).1 = some .mutagen ∧
    (openDelete false mp4ShortStco).2.length = 52 ∧ (openDelete true mp4ShortStco).2 = (openDelete false mp4ShortStco).2 := by
  decide +kernel

/-! (E4, /repo 27f011a) `MP4Tags.save` into a file without a top-level `moov` (`free` atom, 8 bytes): was KeyError
from `atoms.path(b"moov")`, now MP4MetadataError; nothing is written. -/

example : saveTags true [0, 0, 0, 8, 0x66, 0x72, 0x65, 0x65] (renderAtom nIlst []) .default =
      (some .mutagen, [0, 0, 0, 8, 0x66, 0x72, 0x65, 0x65]) ∧
    Mp4C.load [0, 0, 0, 8, 0x66, 0x72, 0x65, 0x65] = .error .mutagen := by
  decide +kernel

/-! (E2, /repo 7f196bf) nested container atoms: `Atom.__init__` recurses once per level; 500 nested `moov` atoms
(4000 bytes) made `MP4(fileobj)` raise RecursionError.  Now a container atom at a level above 64 is
AtomError("atoms nested too deeply"): 65 nested `moov` atoms (levels 0 … 64) load, 66 do not. -/

/-- `n` nested `moov` atoms, the innermost empty -/
def nestMoov : Nat → Bytes
  | 0 => []
  | n + 1 => toBE 4 (8 * (n + 1)) ++ nMoov ++ nestMoov n

/-- the exception a call ended in, if any (a parsed tree has no decidable equality) -/
def errOf {α : Type} (r : Except PyErr α) : Option PyErr :=
  match r with
  | .error e => some e
  | .ok _ => none

example : Mp4C.load (nestMoov 65) = .ok false ∧ errOf (Mp4C.parse (nestMoov 66)) = some .mutagen ∧
    Mp4C.load (nestMoov 500) = .error .mutagen ∧ (openDelete true (nestMoov 66)).1 = some .mutagen := by
  decide +kernel

/-! ### damaged inputs, one per error path: all MutagenError -/


/-- the empty file, a file that is no atom at all, a file without `moov`: "not a MP4 file" -/
example : Mp4C.load [] = .error .mutagen ∧ Mp4C.load [1, 2, 3] = .error .mutagen ∧
    Mp4C.load [0, 0, 0, 8, 0x6d, 0x64, 0x61, 0x74] = .error .mutagen := by decide +kernel
/-- a container that ends inside the header of a child: "truncated data" -/
example : errOf (Mp4C.parse [0, 0, 0, 16, 0x6d, 0x6f, 0x6f, 0x76, 0, 0, 0]) = some .mutagen := by decide +kernel
/-- an atom length of 5 ("can only be 0, 1 or 8 and higher"), a 64-bit length of 15, a 64-bit length cut short -/
example : errOf (Mp4C.parse [0, 0, 0, 5, 0x6d, 0x64, 0x61, 0x74]) = some .mutagen ∧
    errOf (Mp4C.parse [0, 0, 0, 1, 0x6d, 0x64, 0x61, 0x74, 0, 0, 0, 0, 0, 0, 0, 15]) = some .mutagen ∧
    errOf (Mp4C.parse [0, 0, 0, 1, 0x6d, 0x64, 0x61, 0x74, 0, 0, 0, 0]) = some .mutagen := by decide +kernel
/-- length 0 ("to the end of the file") below the top level -/
example : errOf (Mp4C.parse [0, 0, 0, 16, 0x6d, 0x6f, 0x6f, 0x76, 0, 0, 0, 0, 0x75, 0x64, 0x74, 0x61]) = some .mutagen := by
  decide +kernel
/-- a `free` atom next to `ilst` that claims 100 bytes in a 44-byte file: "ilst or free atom extends beyond the file"
(ValueError before /repo b54cebc); nothing is written -/
example :
    openDelete true ([0, 0, 0, 0x2c, 0x6d, 0x6f, 0x6f, 0x76, 0, 0, 0, 0x24, 0x75, 0x64, 0x74, 0x61, 0, 0, 0, 0x1c, 0x6d, 0x65, 0x74, 0x61,
      0, 0, 0, 0, 0, 0, 0, 8, 0x69, 0x6c, 0x73, 0x74, 0, 0, 0, 100, 0x66, 0x72, 0x65, 0x65]) =
    (some .mutagen, [0, 0, 0, 0x2c, 0x6d, 0x6f, 0x6f, 0x76, 0, 0, 0, 0x24, 0x75, 0x64, 0x74, 0x61, 0, 0, 0, 0x1c, 0x6d, 0x65, 0x74, 0x61,
      0, 0, 0, 0, 0, 0, 0, 8, 0x69, 0x6c, 0x73, 0x74, 0, 0, 0, 100, 0x66, 0x72, 0x65, 0x65]) := by decide +kernel
/-- `moov` with size field 0xFFFFFFFF around an atom that claims 0xFFFFFFF7 bytes (16 bytes on disk): loads without
tags; `add_tags()` + save inserts the new `udta` and then cannot enlarge the size of `moov` ("unable to update the size") -/
example : Mp4C.load [0xff, 0xff, 0xff, 0xff, 0x6d, 0x6f, 0x6f, 0x76, 0xff, 0xff, 0xff, 0xf7, 0x78, 0x78, 0x78, 0x78] = .ok false ∧
    (openSave true [0xff, 0xff, 0xff, 0xff, 0x6d, 0x6f, 0x6f, 0x76, 0xff, 0xff, 0xff, 0xf7, 0x78, 0x78, 0x78, 0x78] true
      (renderAtom nIlst []) (.callback fun _ _ => 0)).1 = some .mutagen ∧
    (openSave true [0xff, 0xff, 0xff, 0xff, 0x6d, 0x6f, 0x6f, 0x76, 0xff, 0xff, 0xff, 0xf7, 0x78, 0x78, 0x78, 0x78] false
      (renderAtom nIlst []) .default) =
      (none, [0xff, 0xff, 0xff, 0xff, 0x6d, 0x6f, 0x6f, 0x76, 0xff, 0xff, 0xff, 0xf7, 0x78, 0x78, 0x78, 0x78]) := by decide +kernel
/-- `add_tags()` on a file that has tags: `error("an MP4 tag already exists")` -/
example : (openSave true mp4Plain true mp4PlainIlst .default).1 = some .mutagen := by decide +kernel
/-- a chunk offset that would leave its 32-bit field: "wrong offset inside b'stco'" (entry 0xFFFFFFF0, the file grows) -/
example : (openSave true (mp4Plain.take 120 ++ [0xff, 0xff, 0xff, 0xf0] ++ mp4Plain.drop 124) false mp4PlainIlst
    (.callback fun _ _ => 0)).1 = some .mutagen := by decide +kernel
/-- a padding callback answering a negative number is not an error for MP4: no padding bytes -/
example : (openSave true mp4Plain false mp4PlainIlst (.callback fun _ _ => -5)).1 = none := by decide +kernel

end Mutagen.C04
