/-
Props/C05_Asf.lean — C05 for ASF/WMA (`mutagen.asf.ASF`: File Properties Object and Stream Properties
Object, mutagen/asf/_objects.py).  Property theorems only.  Code side: Model/Info/Asf.lean on
Model/Container/Asf.lean `parseFull`; specification side: Spec/Info/Asf.lean on the `Layout` of the
container model.
-/
import MutagenModel.Proofs.Info.Asf
set_option linter.unusedVariables false
namespace Mutagen.C05
open Mutagen Mutagen.Asf Mutagen.Info Mutagen.Spec.AsfInfo

/-- C05 for ASF: for every File Properties Object (all 64-bit and 32-bit fields at any value) and every
audio Stream Properties Object (any error correction type and data, any WAVEFORMATEX values, any codec
data) in a Header Object with any other well-formed objects before, between and behind them (Content
Description, Extended Content Description, Padding, Header Extension with Metadata / Metadata Library /
foreign children, foreign objects, Stream Properties Objects of other media types) and any Data Object,
the reported length is max(Play Duration / 10^7 − Preroll / 10^3, 0), and channels, sample rate and
bitrate (nAvgBytesPerSec × 8) are the WAVEFORMATEX fields. -/
theorem asf_info_decodes (h : Fields) (ok : h.OK) : Info.Asf.parse (build h) = .ok (expected h) :=
  Info.Asf.parse_build h ok

/-- C04 side: on EVERY byte string, loading up to the stream information returns or raises the format's error -/
theorem asf_info_total (f : Bytes) : ∀ e, Info.Asf.parse f = .error e → e = .mutagen :=
  fun e h => Info.Asf.parse_clean f e h

/-! non-vacuity: a WMA header with a Content Description Object in front, a video stream between, a Header Extension behind -/
example : ({ fileId := zeros 16, fileSize := 5000, creationDate := 0, dataPackets := 3, playDuration := 1234567890,
             sendDuration := 1234567890, preroll := 3000, flags := 2, minPacket := 3200, maxPacket := 3200, maxBitrate := 128000,
             errorCorrectionType := zeros 16, timeOffset := 0, streamFlags := 1, reserved := 0, formatTag := 0x161, channels := 2,
             samplesPerSec := 44100, avgBytesPerSec := 16000, blockAlign := 2230, bitsPerSample := 16, codecData := zeros 10,
             errorCorrectionData := zeros 8, before := [.cd (zeros 10)],
             between := [.foreign ⟨gStreamProps, zeros 54⟩], after := [.ext [.mo (zeros 2), .pad (zeros 5)]],
             rest := zeros 50 } : Fields).OK := by
  decide +kernel

end Mutagen.C05
