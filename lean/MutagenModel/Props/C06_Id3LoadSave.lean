/-
Props/C06_Id3LoadSave.lean — C06 for free-standing ID3 files, two compositions on top of Props/C06_Id3FileLoad.lean:
`id3_load_ok_means_loaded` (a normal return of `ID3(fileobj)` is the pure load — unless a read was cut short: the two reads
that take a short answer for the end of the file are `read(10)` of `ID3Header` and `read(131)` of `find_id3v1`), and
`id3_load_then_save`: `t = ID3(f); f.seek(0); t.save(f, …)` on ONE file object, nothing summarised.
-/
import MutagenModel.Proofs.Container.Id3LoadSave
set_option linter.unusedVariables false
namespace Mutagen.C06
open Mutagen Mutagen.Id3F

/-- a normal return means no fault fired: the same run happens with the injected exceptions removed -/
theorem id3_load_ok_means_no_fault (loadV1 : Bool) : OkAgree (loadM loadV1) := okAgree_loadM loadV1

/-- SUCCESS MEANS LOADED: if `ID3(fileobj)` returns normally — whatever the environment would have injected elsewhere —
and no read is cut short, what it returns is the pure `load` of the bytes, and the file is as it was.  (With short reads
this fails exactly at the header read and the ID3v1 window: `id3_load_short_header`, `id3_load_short_v1_window`.) -/
theorem id3_load_ok_means_loaded (loadV1 : Bool) (e : Env) (hshort : ∀ i, e.shortAt i = none) (s s' : FS) (hp : s.pos = 0)
    (r : Loaded) (h : loadM loadV1 e s = (.ok r, s')) : load loadV1 s.data = .ok r ∧ s'.data = s.data :=
  loadM_ok_means_loaded loadV1 e hshort s s' hp r h

/-- LOAD, REWIND, SAVE without faults, every capacity: the load's exception (ID3NoHeaderError and
ID3UnsupportedVersionError included) with the file untouched; or, a tag having been loaded, the three outcomes of `save`
(Props/C19_Id3File.lean): the pure result; MutagenError with the file byte-identical (ENOSPC while the tag region is
enlarged); MutagenError with the new tag in place and the audio intact (ENOSPC while an ID3v1 block is appended) -/
theorem id3_load_then_save {e : Env} (hq : Quiet e) (B : Nat) (hB : 0 < B) (loadV1 : Bool) (vmaj : Nat) (frames : Bytes)
    (pad : PadChoice) (v1opt : Nat) (blk : Bytes) (hvm : vmaj = 3 ∨ vmaj = 4) (hblk : blk.length = 128) (s : FS) (hp : s.pos = 0) :
    match load loadV1 s.data with
    | .error x => ∃ s', loadSaveM B loadV1 vmaj frames pad v1opt blk e s = (.error x, s') ∧ s'.data = s.data
    | .ok r =>
      if r.isTag then
        ∀ ho data, headerSize s.data = .ok ho → prepareData s.data.length (ho.getD 0) vmaj frames pad = .ok data →
          (∃ s', loadSaveM B loadV1 vmaj frames pad v1opt blk e s = (.ok (), s') ∧
            s'.data = afterV1 (afterTag s.data (ho.getD 0) data) v1opt blk) ∨
          (∃ s', loadSaveM B loadV1 vmaj frames pad v1opt blk e s = (.error .mutagen, s') ∧ s'.data = s.data ∧
            ho.getD 0 < data.length) ∨
          (∃ s' z, loadSaveM B loadV1 vmaj frames pad v1opt blk e s = (.error .mutagen, s') ∧
            s'.data = (afterTag s.data (ho.getD 0) data).take
              ((afterTag s.data (ho.getD 0) data).length - (findV1 (afterTag s.data (ho.getD 0) data)).getD 0) ++ z ∧
            ((v1opt = 1 ∧ (findV1 (afterTag s.data (ho.getD 0) data)).getD 0 ≠ 0) ∨ v1opt = 2) ∧
            (findV1 (afterTag s.data (ho.getD 0) data)).getD 0 < 128)
      else ∃ s', loadSaveM B loadV1 vmaj frames pad v1opt blk e s = (.error .mutagen, s') ∧ s'.data = s.data :=
  loadSaveM_q hq B hB loadV1 vmaj frames pad v1opt blk hvm hblk s hp

/-! non-vacuity on the file of Props/C06_Id3FileLoad.lean (tag of 2 + 10 bytes, audio, ID3v1 block): load + save of a one-byte
frame with padding 0; on a file without tag the composition ends with ID3NoHeaderError and the file untouched -/
def pad0' : PadChoice := .callback fun _ _ => 0
def lsFile : Bytes :=
  [0x49, 0x44, 0x33, 4, 0, 0, 0, 0, 0, 2, 0, 0] ++ ([0xFF, 0xFB, 0x90, 0x00] ++ List.replicate 136 0x55) ++
    ([0x54, 0x41, 0x47] ++ List.replicate 125 0)

example : (loadSaveM 4 true 4 [0x61] pad0' 1 (zeros 128) {} { data := lsFile }).1 = .ok () ∧
    (loadSaveM 4 true 4 [0x61] pad0' 1 (zeros 128) {} { data := lsFile }).2.data =
      [0x49, 0x44, 0x33, 4, 0, 0, 0, 0, 0, 1, 0x61] ++ ([0xFF, 0xFB, 0x90, 0x00] ++ List.replicate 136 0x55) ++ zeros 128 := by
  decide +kernel

example : (loadSaveM 4 false 4 [0x61] pad0' 1 (zeros 128) {} { data := [0xFF, 0xFB, 0x90, 0x00, 1, 2, 3] }).1 = .error .mutagen ∧
    (loadSaveM 4 false 4 [0x61] pad0' 1 (zeros 128) {} { data := [0xFF, 0xFB, 0x90, 0x00, 1, 2, 3] }).2.data =
      [0xFF, 0xFB, 0x90, 0x00, 1, 2, 3] := by decide +kernel

end Mutagen.C06
