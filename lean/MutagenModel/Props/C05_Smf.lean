/-
Props/C05_Smf.lean — C05 for SMF, Standard MIDI File (`mutagen.smf`: `_var_int`, `_read_track`, `_read_midi_length`,
`SMFInfo`, `SMF.load`).  Property theorems only.
Code side: Model/Info/Smf.lean; specification side: Spec/Info/Smf.lean (SMF 1.0); lemmas: Proofs/Info/Smf.lean.
-/
import MutagenModel.Proofs.Info.SmfDecode
set_option linter.unusedVariables false
namespace Mutagen.C05
open Mutagen Mutagen.Info Mutagen.Spec.Smf

/-- C04 side: on EVERY byte string `SMFInfo(fileobj)` / `SMF(fileobj)` returns a length or raises SMFError (a
MutagenError) — no IndexError from the event bytes, no struct.error, and no divergence: `_var_int` ends with the data,
every round of the track loop consumes at least two bytes (the model's fuel `len(chunk) + 1` is never used up:
`Smf.trackLoop_total`), the chunk loop runs `ntracks` times -/
theorem smf_info_total (f : Bytes) : ∀ e, Smf.parse f = .error e → e = .mutagen :=
  fun e h => Smf.parse_clean f e h

/-- `_read_track(chunk)` alone, on every chunk -/
theorem smf_read_track_total (chunk : Bytes) : ∀ e, Smf.readTrack chunk = .error e → e = .mutagen :=
  fun e h => Smf.readTrack_clean chunk e h

/-- `_var_int(data, offset)`: a value and a larger offset, or SMFError -/
theorem smf_varint_total (data : Bytes) (offset : Nat) :
    (∀ e, Smf.varInt data offset = .error e → e = .mutagen) ∧
    (∀ v o, Smf.varInt data offset = .ok (v, o) → offset < o) :=
  ⟨fun e h => Smf.varInt_err data offset e h, fun v o h => Smf.varInt_adv data offset v o h⟩

/-- `_var_int` decodes every variable-length quantity of the specification (all values below 2^28, one to four bytes),
wherever it stands and whatever follows -/
theorem smf_varint_decodes (n : Nat) (hn : n < 2 ^ 28) (pre rest : Bytes) :
    Smf.varInt (pre ++ vlq n ++ rest) pre.length = .ok (n, pre.length + (vlq n).length) :=
  Smf.varInt_vlq n hn pre rest

/-- … which has one to four bytes -/
example : vlq 0 = [0x00] ∧ vlq 0x7F = [0x7F] ∧ vlq 0x80 = [0x81, 0x00] ∧ vlq 0x3FFF = [0xFF, 0x7F] ∧
    vlq 0x200000 = [0x81, 0x80, 0x80, 0x00] ∧ vlq 0x0FFFFFFF = [0xFF, 0xFF, 0xFF, 0x7F] := by decide +kernel

/-- `_read_track` decodes every well-formed track: ALL event lists — channel messages 0x80 … 0xEF with one or two
data bytes, with the status byte or under running status, sysex F0 / F7, meta events of any type and length, set-tempo,
every delta-time below 2^28 — give the tick at which the track ends (the sum of all delta-times) and its tempo changes
`(tick, µs per quarter)` in file order -/
theorem smf_track_decodes (evs : List Event) (ok : eventsOK none evs) :
    Smf.readTrack (renderEvents evs) = .ok (endTick evs, tempoMap evs) :=
  Smf.readTrack_events evs ok

/-- C05 for SMF: on EVERY well-formed file — format 0 (one track) or 1 (up to 65535 tracks), any ticks-per-quarter
division 1 … 32767, any well-formed event lists, tempo changes anywhere — `SMFInfo` reports what the file encodes
(`File.expected`): per track the stretches of constant tempo up to its end (500000 µs per quarter until the first
set-tempo event; the track's own tempo changes in format 0, the first track's in format 1), the length being
max over tracks of Σ ticks / division · tempo / 10^6.  No hypothesis beyond well-formedness since /repo ea48877. -/
theorem smf_info_decodes (f : File) (ok : f.OK) : Smf.parse f.build = .ok f.expected :=
  Smf.parse_build f ok

/-! ### the four files on which the code used to deviate (before ea48877) now decode to the encoded length -/

def noteOn (delta : Nat) : Event := ⟨delta, .midi 0x90 60 (some 64) false⟩
def noteOff (delta : Nat) : Event := ⟨delta, .midi 0x80 60 (some 0) false⟩
def endOfTrack (delta : Nat) : Event := ⟨delta, .metaEv 0x2F []⟩

/-- a note held for 480 ticks and then End of Track 480 ticks later (division 480): 960 ticks = 1.0 s (was 0.5) -/
def wEot : File := ⟨0, 480, [[noteOn 0, noteOff 480, endOfTrack 480]]⟩
example : Smf.parse wEot.build = .ok { tickdiv := 480, tracks := [[(960, 500000)]] } := by decide +kernel

/-- a tempo change in the middle: 480 ticks at 500000, then 480 ticks at 1000000: 1.5 s (was 2.0) -/
def wMid : File := ⟨0, 480, [[noteOn 480, ⟨0, .tempo 1000000⟩, noteOff 480]]⟩
example : Smf.parse wMid.build = .ok { tickdiv := 480, tracks := [[(480, 500000), (480, 1000000)]] } := by decide +kernel

/-- two set-tempo events at tick 0: the later one is in force: 0.25 s (was 1.0) -/
def wTwo : File := ⟨0, 480, [[⟨0, .tempo 1000000⟩, ⟨0, .tempo 250000⟩, noteOn 0, noteOff 480]]⟩
example : Smf.parse wTwo.build = .ok { tickdiv := 480, tracks := [[(0, 500000), (0, 1000000), (480, 250000)]] } := by
  decide +kernel

/-- format 1 with a set-tempo event in the SECOND track: not part of the tempo map: 0.5 s for both tracks (was 1.0) -/
def wSecond : File := ⟨1, 480, [[noteOn 0, noteOff 480], [⟨0, .tempo 1000000⟩, noteOn 0, noteOff 480]]⟩
example : Smf.parse wSecond.build = .ok { tickdiv := 480, tracks := [[(480, 500000)], [(480, 500000)]] } := by decide +kernel

/-- a tempo change behind the end of a track (format 1, the tempo track longer than the other): an empty stretch -/
def wBeyond : File := ⟨1, 480, [[⟨0, .tempo 250000⟩, ⟨960, .tempo 1000000⟩, endOfTrack 0], [noteOn 0, noteOff 480]]⟩
example : Smf.parse wBeyond.build =
    .ok ⟨480, [[(0, 500000), (960, 250000), (0, 1000000)], [(0, 500000), (480, 250000), (0, 1000000)]]⟩ := by decide +kernel

/-- these are well-formed files (`smf_info_decodes` applies to them) -/
example : wEot.OK ∧ wMid.OK ∧ wTwo.OK ∧ wSecond.OK ∧ wBeyond.OK := by decide +kernel

/-- … as is a file with running status, a sysex and a text event carrying delta-times -/
def goodFile : File :=
  ⟨1, 96, [[⟨0, .tempo 400000⟩, ⟨48, .tempo 600000⟩, endOfTrack 0],
           [noteOn 0, ⟨96, .midi 0x90 60 (some 0) true⟩, ⟨10, .metaEv 0x01 [104, 105]⟩, ⟨5, .sysex 0xF0 [0x7E, 0xF7]⟩,
            ⟨200, .midi 0xC1 5 none false⟩, endOfTrack 7]]⟩

example : goodFile.OK := by decide +kernel

example : goodFile.expected =
    ⟨96, [[(0, 500000), (48, 400000), (0, 600000)], [(0, 500000), (48, 400000), (270, 600000)]]⟩ := by decide +kernel

end Mutagen.C05
