/-
Props/C05_Smf.lean — C05 for SMF, Standard MIDI File (`mutagen.smf`: `_var_int`, `_read_track`, `_read_midi_length`,
`SMFInfo`, `SMF.load`).  Property theorems only.
Code side: Model/Info/Smf.lean; specification side: Spec/Info/Smf.lean (SMF 1.0); lemmas: Proofs/Info/Smf.lean.
-/
import MutagenModel.Proofs.Info.SmfDecode
set_option linter.unusedVariables false
namespace Mutagen.C05
open Mutagen Mutagen.Info Mutagen.Spec.Smf

/-- C04 side: on EVERY byte string `SMFInfo(fileobj)` / `SMF(fileobj)` returns a length or raises SMFError (a
MutagenError) — no IndexError from the event bytes, no struct.error, and no divergence: `_var_int` ends with the data,
every round of the track loop consumes at least two bytes (the model's fuel `len(chunk) + 1` is never used up:
`Smf.trackLoop_total`), the chunk loop runs `ntracks` times -/
theorem smf_info_total (f : Bytes) : ∀ e, Smf.parse f = .error e → e = .mutagen :=
  fun e h => Smf.parse_clean f e h

/-- `_read_track(chunk)` alone, on every chunk -/
theorem smf_read_track_total (chunk : Bytes) : ∀ e, Smf.readTrack chunk = .error e → e = .mutagen :=
  fun e h => Smf.readTrack_clean chunk e h

/-- `_var_int(data, offset)`: a value and a larger offset, or SMFError -/
theorem smf_varint_total (data : Bytes) (offset : Nat) :
    (∀ e, Smf.varInt data offset = .error e → e = .mutagen) ∧
    (∀ v o, Smf.varInt data offset = .ok (v, o) → offset < o) :=
  ⟨fun e h => Smf.varInt_err data offset e h, fun v o h => Smf.varInt_adv data offset v o h⟩

/-- `_var_int` decodes every variable-length quantity of the specification (all values below 2^28, one to four bytes),
wherever it stands and whatever follows -/
theorem smf_varint_decodes (n : Nat) (hn : n < 2 ^ 28) (pre rest : Bytes) :
    Smf.varInt (pre ++ vlq n ++ rest) pre.length = .ok (n, pre.length + (vlq n).length) :=
  Smf.varInt_vlq n hn pre rest

/-- … which has one to four bytes -/
example : vlq 0 = [0x00] ∧ vlq 0x7F = [0x7F] ∧ vlq 0x80 = [0x81, 0x00] ∧ vlq 0x3FFF = [0xFF, 0x7F] ∧
    vlq 0x200000 = [0x81, 0x80, 0x80, 0x00] ∧ vlq 0x0FFFFFFF = [0xFF, 0xFF, 0xFF, 0x7F] := by decide +kernel

/-- `_read_track` decodes every well-formed track: ALL event lists — channel messages 0x80 … 0xEF with one or two
data bytes, with the status byte or under running status, sysex F0 / F7, meta events of any type and length, set-tempo,
every delta-time below 2^28 — give the list of `(deltasum, MIDI, delta)` and the list of `(deltasum, TEMPO, µs)` -/
theorem smf_track_decodes (evs : List Event) (ok : eventsOK none evs) :
    Smf.readTrack (renderEvents evs) = .ok (Smf.midiList evs 0, Smf.tempoList evs 0) :=
  Smf.readTrack_events evs ok

/-- `_read_midi_length` on EVERY well-formed file (format 0 or 1, any ticks-per-quarter division 1 … 32767, up to 65535
tracks): the division and, per track, mutagen's parts — `parts(sorted(events + tempos'))` (`Smf.mutagenTracks`) — of the
event lists the file encodes; no hypothesis on where the tempo changes lie -/
theorem smf_file_reads (f : File) (ok : f.OK) :
    Smf.parse f.build = .ok { tickdiv := f.division, tracks := Smf.mutagenTracks f.format f.tracks none } :=
  Smf.parse_build f ok

/-- C05 for SMF.  PARTIAL: on `Aligned` files — nothing but channel messages carries a delta-time; the set-tempo events
of the governing track (the track itself in format 0, the first track in format 1) all at tick 0 and in ascending order
of their values; in format 1 a tempo map, if there is one, is in the first track — the parts mutagen adds up are the
stretches of constant tempo of the specification (`File.expected`), so the length is
max over tracks of Σ ticks / division · tempo / 10^6.  Outside `Aligned` mutagen deviates: `smf_*_witness` below. -/
theorem smf_info_decodes_partial (f : File) (ok : f.OK) (al : f.Aligned) : Smf.parse f.build = .ok f.expected :=
  Smf.parse_aligned f ok al

/-! ### the deviations (each a well-formed file; replayed on the implementation by harness/info_tie_b.py) -/

def noteOn (delta : Nat) : Event := ⟨delta, .midi 0x90 60 (some 64) false⟩
def noteOff (delta : Nat) : Event := ⟨delta, .midi 0x80 60 (some 0) false⟩
def endOfTrack (delta : Nat) : Event := ⟨delta, .metaEv 0x2F []⟩

/-- a note held for 480 ticks and then End of Track 480 ticks later (division 480): the track lasts 960 ticks = 1.0 s;
mutagen counts the delta-times of channel messages only: 480 ticks = 0.5 s -/
def wEot : File := ⟨0, 480, [[noteOn 0, noteOff 480, endOfTrack 480]]⟩

theorem smf_meta_delta_witness :
    Smf.parse wEot.build = .ok { tickdiv := 480, tracks := [[(480, 500000)]] } ∧
    wEot.expected = { tickdiv := 480, tracks := [[(960, 500000)]] } := by
  constructor <;> decide +kernel

/-- a tempo change in the middle: 480 ticks at 500000, then set-tempo 1000000, then 480 ticks: 0.5 s + 1.0 s;
mutagen sorts the tempo event in front of the note that ends at the same tick and charges both stretches to the new
tempo: 2.0 s -/
def wMid : File := ⟨0, 480, [[noteOn 480, ⟨0, .tempo 1000000⟩, noteOff 480]]⟩

theorem smf_tempo_change_witness :
    Smf.parse wMid.build = .ok { tickdiv := 480, tracks := [[(0, 500000), (960, 1000000)]] } ∧
    wMid.expected = { tickdiv := 480, tracks := [[(480, 500000), (480, 1000000)]] } := by
  constructor <;> decide +kernel

/-- two set-tempo events at tick 0, the slower one first: the later one is in force (250000: 0.25 s for 480 ticks);
mutagen's sort orders them by value, so the larger value wins (1000000: 1.0 s) -/
def wTwo : File := ⟨0, 480, [[⟨0, .tempo 1000000⟩, ⟨0, .tempo 250000⟩, noteOn 0, noteOff 480]]⟩

theorem smf_tempo_order_witness :
    Smf.parse wTwo.build = .ok { tickdiv := 480, tracks := [[(0, 500000), (0, 250000), (480, 1000000)]] } ∧
    wTwo.expected = { tickdiv := 480, tracks := [[(0, 500000), (0, 1000000), (480, 250000)]] } := by
  constructor <;> decide +kernel

/-- format 1 with the tempo map in the SECOND track: by the specification it belongs in the first and this one is not
the tempo map; mutagen takes the first non-empty tempo list it meets, for the tracks from there on -/
def wSecond : File := ⟨1, 480, [[noteOn 0, noteOff 480], [⟨0, .tempo 1000000⟩, noteOn 0, noteOff 480]]⟩

theorem smf_tempo_track_witness :
    Smf.parse wSecond.build = .ok { tickdiv := 480, tracks := [[(480, 500000)], [(0, 500000), (480, 1000000)]] } ∧
    wSecond.expected = { tickdiv := 480, tracks := [[(480, 500000)], [(480, 500000)]] } := by
  constructor <;> decide +kernel

/-- the witnesses are well-formed files, and none of them is `Aligned` for the reason given -/
example : wEot.OK ∧ wMid.OK ∧ wTwo.OK ∧ wSecond.OK := by
  refine ⟨?_, ?_, ?_, ?_⟩ <;>
    (refine ⟨by decide, by decide, by decide, by decide, ?_⟩; intro t ht; simp [wEot, wMid, wTwo, wSecond] at ht;
     rcases ht with rfl | rfl <;> exact ⟨by simp [eventsOK, Event.OK, nextPrev, noteOn, noteOff, endOfTrack], by decide +kernel⟩)

/-- the hypotheses of `smf_info_decodes_partial` are satisfiable: format 1, a tempo track with two tempo events at
tick 0 (ascending), a track with running status, a sysex and a text event at delta 0 -/
def goodFile : File :=
  ⟨1, 96, [[⟨0, .tempo 400000⟩, ⟨0, .tempo 600000⟩, endOfTrack 0],
           [noteOn 0, ⟨96, .midi 0x90 60 (some 0) true⟩, ⟨0, .metaEv 0x01 [104, 105]⟩, ⟨0, .sysex 0xF0 [0x7E, 0xF7]⟩,
            ⟨200, .midi 0xC1 5 none false⟩, endOfTrack 0]]⟩

example : goodFile.OK ∧ goodFile.Aligned := by decide +kernel

example : Smf.parse goodFile.build = .ok goodFile.expected ∧
    goodFile.expected = { tickdiv := 96, tracks := [[(0, 500000), (0, 400000), (0, 600000)], [(0, 500000), (0, 400000), (296, 600000)]] } := by
  constructor <;> decide +kernel

end Mutagen.C05
