/-
Props/C02_Dsf.lean — C02 "Saving or deleting tags never alters audio or foreign data" for DSF files
`[DSD chunk][fmt chunk][data chunk][ID3 tag?]` (mutagen/dsf.py; model: Model/Container/Dsf.lean).
-/
import MutagenModel.Proofs.Container.Dsf
set_option linter.unusedVariables false
namespace Mutagen.C02
open Mutagen

/-! ## DSF files: `[DSD chunk][fmt chunk][data chunk][ID3 tag?]` -/

/-- DSF save: whatever frames are written with whatever padding choice, the saved file has the same
first 12 bytes (chunk id "DSD ", chunk size 28) and, behind the 28-byte DSD chunk, the same fmt chunk
and data chunk, byte for byte; only the total-size field, the metadata pointer and the tag region
behind the data chunk differ, and the file ends with the new tag (`10 + len(frames) + p` bytes) -/
theorem dsf_save_preserves_chunks (L : Dsf.Layout) (h : L.OK) (vmaj : Nat) (hvm : vmaj = 3 ∨ vmaj = 4) (frames : Bytes)
    (pad : PadChoice) (p : Nat)
    (hp : getPadding pad ((L.tag.length : Int) - (frames.length + 10 : Nat)) 0 = p) (hfit : frames.length + p < 2 ^ 28) :
    ∃ out, Dsf.save L.render vmaj frames pad = .ok out ∧
      out.take 12 = L.render.take 12 ∧
      readAt out 28 (L.fmt.length + L.data.length) = L.fmt ++ L.data ∧
      readAt L.render 28 (L.fmt.length + L.data.length) = L.fmt ++ L.data ∧
      out.length = 28 + (L.fmt.length + L.data.length) + (10 + frames.length + p) := by
  obtain ⟨hd, hh, hd10, hs⟩ := Dsf.save_layout L h vmaj hvm frames pad p hp hfit
  refine ⟨_, hs, ?_, ?_, Dsf.render_chunks L, ?_⟩
  · rw [Dsf.render_take12, Dsf.render_take12]
  · exact Dsf.render_chunks (L.withTag _)
  · rw [Dsf.length_render, Dsf.total_withTag]
    simp [Dsf.Layout.tagPos, Dsf.dsdSize, hd10]; omega

/-- DSF delete: what is left is the DSD chunk (same id and size), the same fmt chunk and the same data
chunk, byte for byte, and nothing else -/
theorem dsf_delete_preserves_chunks (L : Dsf.Layout) (h : L.OK) :
    ∃ out, Dsf.delete L.render = .ok out ∧
      out.take 12 = L.render.take 12 ∧
      readAt out 28 (L.fmt.length + L.data.length) = L.fmt ++ L.data ∧
      out.length = 28 + (L.fmt.length + L.data.length) := by
  refine ⟨_, Dsf.delete_layout L h, ?_, Dsf.render_chunks (L.withTag []), ?_⟩
  · rw [Dsf.render_take12, Dsf.render_take12]
  · rw [Dsf.length_render, Dsf.total_withTag]
    simp [Dsf.Layout.tagPos, Dsf.dsdSize]; omega


/-- the layout hypothesis is satisfiable (a 106-byte file with a 12-byte tag at offset 94), and so are the numeric ones:
a save of 2 bytes of frames under the default policy keeps the 0 bytes that are left -/
example : Dsf.exampleLayout.OK ∧
    getPadding .default ((Dsf.exampleLayout.tag.length : Int) - (2 + 10 : Nat)) 0 = (0 : Nat) :=
  ⟨Dsf.exampleLayout_ok, by decide +kernel⟩

end Mutagen.C02
