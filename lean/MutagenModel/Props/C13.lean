/-
Props/C13.lean — C13 "ID3 version conversion keeps the information and is valid":
the recording-date part (TDRC <-> TYER/TDAT/TIME).  The byte-level validity of v2.3 output,
the people lists, multi-value joining and the ID3v1 block are checked on the real code by an
independent ID3v2.3/ID3v1 decoder (see the evidence file).
-/
import MutagenModel.Model.Id3Date
set_option linter.unusedVariables false
namespace Mutagen.C13
open Mutagen.Id3Date

def twoDigitsOK : Bool := (List.range 100).all fun n =>
  digits 2 n == [n / 10, n % 10] && ofDigits (digits 2 n) == n

theorem two_digits_check : twoDigitsOK = true := by decide +kernel

/-- "%02d" of a number below 100 is exactly its two decimal digits and parses back -/
theorem digits2 (n : Nat) (h : n < 100) : digits 2 n = [n / 10, n % 10] ∧ ofDigits (digits 2 n) = n := by
  have := two_digits_check
  simp only [twoDigitsOK, List.all_eq_true, List.mem_range, Bool.and_eq_true, beq_iff_eq] at this
  exact this n h

def fourDigitsOK : Bool := (List.range 10000).all fun n =>
  digits 4 n == [n / 1000, n / 100 % 10, n / 10 % 10, n % 10]

theorem four_digits_check : fourDigitsOK = true := by decide +kernel

theorem digits4 (n : Nat) (h : n < 10000) : digits 4 n = [n / 1000, n / 100 % 10, n / 10 % 10, n % 10] := by
  have := four_digits_check
  simp only [fourDigitsOK, List.all_eq_true, List.mem_range, beq_iff_eq] at this
  exact this n h

/-- the recording date is carried into the v2.3 frames defined for it with exactly its digits:
year (1..9999) in TYER; day and month (DDMM) in TDAT; hour and minute (HHMM) in TIME — also for
midnight and full hours (hour or minute 0) -/
theorem date_carried (y mo d h mi : Nat) (sec : Option Nat) (hy : 0 < y ∧ y < 10000) (hmo : 0 < mo ∧ mo < 100)
    (hd : 0 < d ∧ d < 100) (hh : h < 100) (hmi : mi < 100) :
    toV23 { year := some y, month := some mo, day := some d, hour := some h, minute := some mi, second := sec } =
      { tyer := some [y / 1000, y / 100 % 10, y / 10 % 10, y % 10],
        tdat := some [d / 10, d % 10, mo / 10, mo % 10],
        time := some [h / 10, h % 10, mi / 10, mi % 10] } := by
  have hy0 : (y != 0) = true := by simp; omega
  have hmo0 : (mo != 0) = true := by simp; omega
  have hd0 : (d != 0) = true := by simp; omega
  simp [toV23, truthy, hy0, hmo0, hd0, digits4 y hy.2, (digits2 d hd.2).1, (digits2 mo hmo.2).1,
    (digits2 h hh).1, (digits2 mi hmi).1]

/-- v2.4 -> v2.3 -> v2.4 gives the same year, month, day, hour and minute back; only the seconds
are lost (they come back as 0) -/
theorem v23_v24_roundtrip (y mo d h mi : Nat) (sec : Option Nat) (hy : 0 < y ∧ y < 10000) (hmo : 0 < mo ∧ mo < 100)
    (hd : 0 < d ∧ d < 100) (hh : h < 100) (hmi : mi < 100) :
    toV24 (toV23 { year := some y, month := some mo, day := some d, hour := some h, minute := some mi, second := sec }) =
      some { year := some y, month := some mo, day := some d, hour := some h, minute := some mi, second := some 0 } := by
  rw [date_carried y mo d h mi sec hy hmo hd hh hmi]
  simp only [toV24, ofDigits, List.foldl]
  congr 2 <;> simp <;> omega

/-- a year alone survives as a year alone; a date without a time as a date -/
theorem partial_dates (y mo d : Nat) (hy : 0 < y ∧ y < 10000) (hmo : 0 < mo ∧ mo < 100) (hd : 0 < d ∧ d < 100) :
    toV24 (toV23 { year := some y }) = some { year := some y } ∧
    toV24 (toV23 { year := some y, month := some mo, day := some d }) =
      some { year := some y, month := some mo, day := some d } := by
  have hy0 : (y != 0) = true := by simp; omega
  have hmo0 : (mo != 0) = true := by simp; omega
  have hd0 : (d != 0) = true := by simp; omega
  have e1 : toV23 { year := some y } = { tyer := some [y / 1000, y / 100 % 10, y / 10 % 10, y % 10] } := by
    simp [toV23, truthy, hy0, digits4 y hy.2]
  have e2 : toV23 { year := some y, month := some mo, day := some d } =
      { tyer := some [y / 1000, y / 100 % 10, y / 10 % 10, y % 10], tdat := some [d / 10, d % 10, mo / 10, mo % 10] } := by
    simp [toV23, truthy, hy0, hmo0, hd0, digits4 y hy.2, (digits2 d hd.2).1, (digits2 mo hmo.2).1]
  rw [e1, e2]
  constructor
  · simp only [toV24, ofDigits, List.foldl]
    congr 2; simp; omega
  · simp only [toV24, ofDigits, List.foldl]
    congr 2 <;> simp <;> omega

/-! non-vacuity: midnight is carried -/
example : (toV23 { year := some 2020, month := some 5, day := some 6, hour := some 0, minute := some 0 }).time
    = some [0, 0, 0, 0] := by decide +kernel

end Mutagen.C13
