/-
Props/C05_OggTheora.lean — C05 for Ogg Theora (`mutagen.oggtheora.OggTheoraInfo`).  Property theorems only.
-/
import MutagenModel.Proofs.Info.OggCodecs
set_option linter.unusedVariables false
namespace Mutagen.C05
open Mutagen Mutagen.Ogg Mutagen.Info Mutagen.Spec Mutagen.Spec.OggS

/-- What `OggTheoraInfo` reports for EVERY Theora 3.2 identification header (all fields at their bit
widths, FRN, FRD ≥ 1, any KFGSHIFT 0…31) in any stream whose final granule position is
`keyframe · 2^KFGSHIFT + offset`: fps = FRN / FRD, bitrate = NOMBR, and
length = (keyframe + offset) / fps — the frame count of a revision ≥ 3.2.1 stream, whatever VREV is. -/
theorem oggtheora_info_reports (h : Theora.Fields) (ok : h.OK) :
    Info.Theora.raw (Theora.build h) = .ok
      { fpsNum := h.frn, fpsDen := h.frd, bitrate := h.nombr, granuleShift := h.kfgshift, serial := h.stream.serial,
        length := .div (.int ((h.lastKeyframe + h.lastOffset : Nat) : Int)) (.flt (.div (.nat h.frn) (.flt (.nat h.frd)))) } :=
  Info.Theora.raw_build h ok

/-- C05 for Ogg Theora, partial: for bitstream revisions other than 3.2.0 the reported attributes are
what the header and the final granule position encode.  (For VREV 0 the granule position holds the
index of the last frame, not the count: `oggtheora_vrev0_witness`.) -/
theorem oggtheora_info_decodes_partial (h : Theora.Fields) (ok : h.OK) (hv : h.vrev ≠ 0) :
    Info.Theora.parse (Theora.build h) = .ok (Theora.expected h) := by
  unfold Info.Theora.parse
  rw [Info.Theora.raw_build_partial h ok hv]; rfl

/-- C04 side: on EVERY byte string the result is a value or the format's error -/
theorem oggtheora_info_total (f : Bytes) : ∀ e, Info.Theora.parse f = .error e → e = .mutagen :=
  loadWrap_clean _ (fun e h => Info.Theora.raw_classes f e h)

theorem oggtheora_info_raw_classes (f : Bytes) : ∀ e, Info.Theora.raw f = .error e → e = .mutagen ∨ e = .eof :=
  fun e h => Info.Theora.raw_classes f e h

/-- 25 fps, revision 3.2.0, last frame: key frame 24, offset 0 — 25 frames, one second; reported 24/25 s -/
def vrev0Witness : Theora.Fields :=
  { vrev := 0, fmbw := 20, fmbh := 15, picw := 320, pich := 240, picx := 0, picy := 0, frn := 25, frd := 1, parn := 1,
    pard := 1, cs := 0, nombr := 0, qual := 32, kfgshift := 6, pf := 0, lastKeyframe := 24, lastOffset := 0,
    stream := { serial := 5, middle := [], lastSeq := 3, lastGranule := 24 * 64, lastPackets := [[0]] } }

theorem oggtheora_vrev0_witness :
    vrev0Witness.OK ∧
    (Info.Theora.parse (Theora.build vrev0Witness)).toOption.map (·.length) =
      some (.div (.int 24) (.flt (.div (.nat 25) (.flt (.nat 1))))) ∧
    (Theora.expected vrev0Witness).length = .div (.int 25) (.flt (.div (.nat 25) (.flt (.nat 1)))) := by
  decide +kernel

end Mutagen.C05
