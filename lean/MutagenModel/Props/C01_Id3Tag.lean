/-
Props/C01_Id3Tag.lean — C01 for ID3 at tag / file level, the three points Props/C01_Files.lean left open:

(1) `determine_bpi`, the v2.4 heuristic that stayed as hypothesis `hbpi`: PROVED to answer "syncsafe" under the
    decidable condition `intWalkSafe` on the body lengths of the frames written — every body shorter than 128 bytes, or
    the first body of 128 bytes or more placed so that the plain-integer reading of its size points at or beyond the
    last ten bytes of the frames region (the counting loop of the wrong reading then stops before it can count anything
    else); `id3_tag_roundtrip_safe` / `id3_file_roundtrip_safe` carry that condition instead of `hbpi`.
    `determine_bpi_misfire` is the open finding (known_findings.json `determine-bpi`) as a decided instance: two PRIV
    frames written by `saveFrames`, the second one's payload spelling three frame headers where the plain-integer
    reading of the first size lands: `determine_bpi` answers "plain", one garbled frame is read instead of two.
    Python repro: harness/id3file_tie.py `repro_determine_bpi()`.
(2) input mutagen does not write itself — ID3v2.2, whole-tag unsynchronisation (header flag 0x80, v2.2 / v2.3) and
    per-frame unsynchronisation (v2.4 frame flag 0x0002): a file whose tag is the spec rendering of frames reads as
    these frames (v2.2 ones as their v2.3/2.4 upgrades).
(3) `ID3Tags._write` sorts by `(priority, len(data), HashKey)`: `id3_file_roundtrip_any_order`.

`FrameRTS` / `TagRTS` are `FrameRT` / `TagRT` of Props/C01_Files.lean with the body lengths visible; `InOK` is the
reading half of `FrameRT` (the data reads, with the class's frame codec under the header given, as the values — what
`C12.frame_roundtrip` concludes for the bytes `writeFrame` produces, for every class of the table incl. the v2.2 ones).
-/
import MutagenModel.Proofs.Id3Input
import MutagenModel.Props.C07
set_option linter.unusedVariables false
namespace Mutagen.C01
open Mutagen Mutagen.Id3 Mutagen.C01F

/-! ## (1) determine_bpi -/

/-- `determine_bpi` answers "syncsafe" on frames written by `save_frame` under a v2.4 configuration (`RecOK`: known
four-character id, syncsafe size of a non-empty body), followed by any padding, whenever `intWalkSafe` holds for the
body lengths -/
theorem determine_bpi_syncsafe (tbl : Table) (recs : List Rec) (p : Nat) (h : ∀ r ∈ recs, RecOK tbl r)
    (hsafe : intWalkSafe ((flat recs).length + p) 0 (recs.map fun r => r.body.length) = true) :
    determineBpi tbl (flat recs ++ zeros p) = true :=
  determineBpi_safe tbl recs p h hsafe

/-- in particular when every body is shorter than 128 bytes -/
theorem intWalkSafe_small (total : Nat) (sizes : List Nat) (h : ∀ s ∈ sizes, s < 128) (o : Nat) :
    intWalkSafe total o sizes = true := by
  induction sizes generalizing o with
  | nil => rfl
  | cons s r ih =>
    simp only [intWalkSafe, h s List.mem_cons_self, ↓reduceIte]
    exact ih (fun x hx => h x (List.mem_cons_of_mem _ hx)) _

/-- TAG level without `hbpi` -/
theorem id3_tag_roundtrip_safe (E : Id3.Env) (tbl : Table) (hv : E.cfg.version = 3 ∨ E.cfg.version = 4)
    (hh : E.h = { version := E.cfg.version, unsynch := false }) (fs os : List Val) (ss : List Nat)
    (h : TagRTS E tbl fs os ss) (frames : Bytes) (hw : saveFrames E.subw tbl E.cfg fs = .ok frames) (p : Nat)
    (hsafe : E.cfg.version = 4 → intWalkSafe (frames.length + p) 0 ss = true) :
    readFramesWith E.sub tbl E.h (frames ++ zeros p) = .ok (os, zeros p) :=
  readFramesWith_roundtrip_safe E tbl hv hh fs os ss h frames hw p hsafe

/-- FILE level without `hbpi` (cf. `id3_file_roundtrip`) -/
theorem id3_file_roundtrip_safe (E : Id3.Env) (hv : E.cfg.version = 3 ∨ E.cfg.version = 4)
    (hh : E.h = { version := E.cfg.version, unsynch := false })
    (L : Id3F.Layout) (hL : L.OK) (fs os : List Val) (ss : List Nat) (hrt : TagRTS E Id3Table.frames fs os ss)
    (frames : Bytes) (hw : saveFrames E.subw Id3Table.frames E.cfg fs = .ok frames)
    (pad : PadChoice) (v1opt : Nat) (blk : Bytes) (p : Nat)
    (hp : getPadding pad ((L.tag.length : Int) - (frames.length + 10 : Nat)) (L.audio.length + L.v1.length) = p)
    (hfit : frames.length + p < 2 ^ 28)
    (hsafe : E.cfg.version = 4 → intWalkSafe (frames.length + p) 0 ss = true) :
    ∃ hd out, Id3F.header E.cfg.version (frames.length + p) = .ok hd ∧
      Id3F.save L.render E.cfg.version frames pad v1opt blk = .ok out ∧
      out = hd ++ frames ++ zeros p ++ L.audio ++ Id3F.newV1 L.v1 v1opt blk ∧
      Id3F.headerSize out = .ok (some (frames.length + p + 10)) ∧
      out.take 6 = Id3F.magicID3 ++ [UInt8.ofNat E.cfg.version, 0, 0] ∧
      readFramesWith E.sub Id3Table.frames E.h ((out.drop 10).take (frames.length + p)) = .ok (os, zeros p) :=
  id3_saved_file_safe E hv hh L hL fs os ss hrt frames hw pad v1opt blk p hp hfit hsafe

/-- every `TagRT` tag has its `TagRTS` (the sizes exist) -/
theorem tagRT_sizes (E : Id3.Env) (tbl : Table) (fs os : List Val) (h : TagRT E tbl fs os) : ∃ ss, TagRTS E tbl fs os ss := by
  induction h with
  | nil => exact ⟨[], .nil⟩
  | frame hf _ ih =>
    obtain ⟨ss, hs⟩ := ih
    obtain ⟨s, hfs⟩ := hf.toS
    exact ⟨s :: ss, .frame hfs hs⟩
  | empty he _ ih =>
    obtain ⟨ss, hs⟩ := ih
    exact ⟨ss, .empty he hs⟩

/-- THE MISFIRE (open finding `determine-bpi`): PRIV(owner "a", 126 bytes) — body 128 bytes, syncsafe size
`00 00 01 00`, 256 as a plain integer — and PRIV(owner "b", …) whose data holds, at tag offset 266, three headers
"TIT2 00000002 0000" with an undecodable body.  Written by the model's `saveFrames` (302 bytes); `determine_bpi`
counts 4 frames under the plain reading against 2 and answers "plain"; `read_frames` then returns ONE frame, a PRIV
whose data runs into the second frame, instead of the two written. -/
def misTag : List Val := [.frame "PRIV" [.text [97], .bytes (List.replicate 126 0x55)],
  .frame "PRIV" [.text [98], .bytes (List.replicate 116 0x11 ++
    (List.replicate 3 ([84, 73, 84, 50, 0, 0, 0, 2, 0, 0, 9, 65] : Bytes)).flatten)]]

theorem determine_bpi_misfire :
    ∃ w, saveFrames C12.noSubW Id3Table.frames {} misTag = .ok w ∧ w.length = 302 ∧
      determineBpi Id3Table.frames w = false ∧
      bpiCount Id3Table.frames true w 0 0 = (2, 0) ∧ bpiCount Id3Table.frames false w 0 0 = (4, 0) ∧
      (match readFramesWith C12.noSub Id3Table.frames { version := 4 } w with
       | .ok (fs, _) => fs.length
       | .error _ => 99) = 1 := by
  have key : (match saveFrames C12.noSubW Id3Table.frames {} misTag with
      | .ok w => decide (w.length = 302) && !determineBpi Id3Table.frames w &&
          decide (bpiCount Id3Table.frames true w 0 0 = (2, 0)) && decide (bpiCount Id3Table.frames false w 0 0 = (4, 0)) &&
          decide ((match readFramesWith C12.noSub Id3Table.frames { version := 4 } w with
            | .ok (fs, _) => fs.length
            | .error _ => 99) = 1)
      | .error _ => false) = true := by decide +kernel
  cases hw : saveFrames C12.noSubW Id3Table.frames {} misTag with
  | error e => rw [hw] at key; cases key
  | ok w =>
    rw [hw] at key
    simp only [Bool.and_eq_true, decide_eq_true_eq, Bool.not_eq_true'] at key
    obtain ⟨⟨⟨⟨h1, h2⟩, h3⟩, h4⟩, h5⟩ := key
    exact ⟨w, rfl, h1, h2, h3, h4, h5⟩

/-- the condition fails on it, as it must: the first body has 128 bytes and the plain reading of its size points
into the region -/
example : intWalkSafe 302 0 [128, 154] = false := by decide +kernel

/-! ## (3) any insertion order -/

/-- a tag dictionary in ANY insertion order (`entries`, each with its `save_frame` bytes, sort key and read-back
value): what `_write` renders — `TagOrder.id3Body` of the keys — is `saveFrames` of the SORTED frames, and the saved
file reads back as the non-empty frames in the sorted order -/
theorem id3_file_roundtrip_any_order (E : Id3.Env) (hv : E.cfg.version = 3 ∨ E.cfg.version = 4)
    (hh : E.h = { version := E.cfg.version, unsynch := false })
    (L : Id3F.Layout) (hL : L.OK) (entries : List Entry) (hok : ∀ en ∈ entries, EntryOK E Id3Table.frames en)
    (pad : PadChoice) (v1opt : Nat) (blk : Bytes) (p : Nat)
    (hp : getPadding pad ((L.tag.length : Int) - ((TagOrder.id3Body (entries.map (·.key))).length + 10 : Nat))
      (L.audio.length + L.v1.length) = p)
    (hfit : (TagOrder.id3Body (entries.map (·.key))).length + p < 2 ^ 28)
    (hsafe : E.cfg.version = 4 → intWalkSafe ((TagOrder.id3Body (entries.map (·.key))).length + p) 0
      ((sortEntries entries).filterMap fun en => en.res.map (·.2)) = true) :
    saveFrames E.subw Id3Table.frames E.cfg ((sortEntries entries).map (·.fv)) = .ok (TagOrder.id3Body (entries.map (·.key))) ∧
    ∃ out, Id3F.save L.render E.cfg.version (TagOrder.id3Body (entries.map (·.key))) pad v1opt blk = .ok out ∧
      Id3F.headerSize out = .ok (some ((TagOrder.id3Body (entries.map (·.key))).length + p + 10)) ∧
      readFramesWith E.sub Id3Table.frames E.h ((out.drop 10).take ((TagOrder.id3Body (entries.map (·.key))).length + p)) =
        .ok ((sortEntries entries).filterMap (fun en => en.res.map (·.1)), zeros p) :=
  id3_saved_file_sorted E hv hh L hL entries hok pad v1opt blk p hp hfit hsafe

/-- … and the bytes written do not depend on the insertion order (HashKeys being the dictionary keys): any
permutation renders to the same frames region, hence the same file and the same read-back -/
theorem id3_written_order_independent (entries₁ entries₂ : List Entry) (hperm : entries₁.Perm entries₂)
    (huniq : ∀ a b, a ∈ entries₁.map (·.key) → b ∈ entries₁.map (·.key) → a.hashKey = b.hashKey → a = b) :
    TagOrder.id3Body (entries₁.map (·.key)) = TagOrder.id3Body (entries₂.map (·.key)) :=
  C07.id3_order_independent _ _ (hperm.map _) huniq

/-! ## (2) input: v2.2, whole-tag and per-frame unsynchronisation -/

/-- a file `header ++ region ++ rest` whose header (flags 0 or 0x80) announces the region: what `ID3Header` finds -/
theorem id3_input_header (vmaj : Nat) (hv : vmaj = 2 ∨ vmaj = 3 ∨ vmaj = 4) (fl : UInt8) (hfl : fl = 0 ∨ fl = 0x80)
    (region rest : Bytes) (hn : region.length < 2 ^ 28) :
    Id3F.headerSize (tagHeader vmaj fl region.length ++ region ++ rest) = .ok (some (region.length + 10)) ∧
    ((tagHeader vmaj fl region.length ++ region ++ rest).drop 10).take region.length = region ∧
    ((tagHeader vmaj fl region.length ++ region ++ rest).getD 5 0).toNat / 128 % 2 = (if fl = 0x80 then 1 else 0) :=
  headerSize_flags vmaj hv fl hfl region rest hn

/-- ID3v2.2: the spec rendering (`>3s3s` headers) of frames whose data reads with the v2.2 classes of the table, plain
or unsynchronised as a whole when the header flag is set, reads as these frames under their v2.3/2.4 names -/
theorem id3_read_v22 (E : Id3.Env) (tbl : Table) (hv : E.h.version = 2) (p : Nat) (frs : List InFrame)
    (h : ∀ fr ∈ frs, InOK E tbl 3 fr ∧ fr.body.length < 256 ^ 3) :
    readFramesWith E.sub tbl E.h
      (if E.h.unsynch then unsynchEncode ((frs.map render22).flatten ++ zeros p) else (frs.map render22).flatten ++ zeros p) =
      .ok (frs.map (·.out), zeros p) :=
  readFramesWith_v22 E tbl hv p frs h

/-- ID3v2.3 with plain 32-bit sizes, plain or unsynchronised as a whole (header flag 0x80) -/
theorem id3_read_v23 (E : Id3.Env) (tbl : Table) (hv : E.h.version = 3) (p : Nat) (frs : List InFrame)
    (h : ∀ fr ∈ frs, InOK E tbl 4 fr ∧ fr.body.length < 256 ^ 4) :
    readFramesWith E.sub tbl E.h
      (if E.h.unsynch then unsynchEncode ((frs.map render23).flatten ++ zeros p) else (frs.map render23).flatten ++ zeros p) =
      .ok (frs.map (·.out), zeros p) :=
  readFramesWith_v23 E tbl hv p frs h

/-- ID3v2.4 with per-frame unsynchronisation (frame flag 0x0002, size of the unsynchronised data, syncsafe), the tag
header flag set or not; `determine_bpi` discharged by `intWalkSafe` on the unsynchronised lengths -/
theorem id3_read_v24_frame_unsynch (E : Id3.Env) (tbl : Table) (hv : E.h.version = 4) (p : Nat) (frs : List InFrame)
    (h : ∀ fr ∈ frs, InOK E tbl 4 fr ∧ (unsynchEncode fr.body).length < 2 ^ 28)
    (hsafe : intWalkSafe (((frs.map render24u).flatten).length + p) 0 (frs.map fun fr => (unsynchEncode fr.body).length) = true) :
    readFramesWith E.sub tbl E.h ((frs.map render24u).flatten ++ zeros p) = .ok (frs.map (·.out), zeros p) :=
  readFramesWith_v24u E tbl hv p frs h hsafe

/-- FILE level for the three: `ID3Header` finds the tag and its unsynchronisation flag, the region behind the header
reads as the frames.  (`E.h.unsynch` must be what the header says: `fl = 0x80 ↔ E.h.unsynch`.) -/
theorem id3_file_read_v22 (E : Id3.Env) (hv : E.h.version = 2) (p : Nat) (frs : List InFrame) (rest : Bytes)
    (h : ∀ fr ∈ frs, InOK E Id3Table.frames 3 fr ∧ fr.body.length < 256 ^ 3) (region : Bytes)
    (hreg : region = if E.h.unsynch then unsynchEncode ((frs.map render22).flatten ++ zeros p) else (frs.map render22).flatten ++ zeros p)
    (hn : region.length < 2 ^ 28) :
    Id3F.headerSize (tagHeader 2 (if E.h.unsynch then 0x80 else 0) region.length ++ region ++ rest) = .ok (some (region.length + 10)) ∧
    readFramesWith E.sub Id3Table.frames E.h
      (((tagHeader 2 (if E.h.unsynch then 0x80 else 0) region.length ++ region ++ rest).drop 10).take region.length) =
        .ok (frs.map (·.out), zeros p) := by
  obtain ⟨h1, h2, _⟩ := headerSize_flags 2 (by omega) (if E.h.unsynch then 0x80 else 0) (by cases E.h.unsynch <;> simp) region rest hn
  exact ⟨h1, by rw [h2, hreg]; exact readFramesWith_v22 E _ hv p frs h⟩

theorem id3_file_read_v23 (E : Id3.Env) (hv : E.h.version = 3) (p : Nat) (frs : List InFrame) (rest : Bytes)
    (h : ∀ fr ∈ frs, InOK E Id3Table.frames 4 fr ∧ fr.body.length < 256 ^ 4) (region : Bytes)
    (hreg : region = if E.h.unsynch then unsynchEncode ((frs.map render23).flatten ++ zeros p) else (frs.map render23).flatten ++ zeros p)
    (hn : region.length < 2 ^ 28) :
    Id3F.headerSize (tagHeader 3 (if E.h.unsynch then 0x80 else 0) region.length ++ region ++ rest) = .ok (some (region.length + 10)) ∧
    readFramesWith E.sub Id3Table.frames E.h
      (((tagHeader 3 (if E.h.unsynch then 0x80 else 0) region.length ++ region ++ rest).drop 10).take region.length) =
        .ok (frs.map (·.out), zeros p) := by
  obtain ⟨h1, h2, _⟩ := headerSize_flags 3 (by omega) (if E.h.unsynch then 0x80 else 0) (by cases E.h.unsynch <;> simp) region rest hn
  exact ⟨h1, by rw [h2, hreg]; exact readFramesWith_v23 E _ hv p frs h⟩

theorem id3_file_read_v24_frame_unsynch (E : Id3.Env) (hv : E.h.version = 4) (p : Nat) (frs : List InFrame) (rest : Bytes)
    (h : ∀ fr ∈ frs, InOK E Id3Table.frames 4 fr ∧ (unsynchEncode fr.body).length < 2 ^ 28)
    (hsafe : intWalkSafe (((frs.map render24u).flatten).length + p) 0 (frs.map fun fr => (unsynchEncode fr.body).length) = true)
    (hn : ((frs.map render24u).flatten ++ zeros p).length < 2 ^ 28) :
    Id3F.headerSize (tagHeader 4 (if E.h.unsynch then 0x80 else 0) ((frs.map render24u).flatten ++ zeros p).length ++
      ((frs.map render24u).flatten ++ zeros p) ++ rest) = .ok (some (((frs.map render24u).flatten ++ zeros p).length + 10)) ∧
    readFramesWith E.sub Id3Table.frames E.h
      (((tagHeader 4 (if E.h.unsynch then 0x80 else 0) ((frs.map render24u).flatten ++ zeros p).length ++
        ((frs.map render24u).flatten ++ zeros p) ++ rest).drop 10).take ((frs.map render24u).flatten ++ zeros p).length) =
        .ok (frs.map (·.out), zeros p) := by
  obtain ⟨h1, h2, _⟩ := headerSize_flags 4 (by omega) (if E.h.unsynch then 0x80 else 0) (by cases E.h.unsynch <;> simp)
    ((frs.map render24u).flatten ++ zeros p) rest hn
  exact ⟨h1, by rw [h2]; exact readFramesWith_v24u E _ hv p frs h hsafe⟩

/-! ## non-vacuity (decided on the generated table) -/

/-- a v2.2 frame TT2 = "A" (Latin-1) and a TP1 whose text contains 0xFF (so that unsynchronisation changes it) -/
def in22 : List InFrame := [⟨[84, 84, 50], [0, 65], .frame "TIT2" [.int 0, .list [.text [65]]]⟩,
  ⟨[84, 80, 49], [0, 0xFF, 0xFE], .frame "TPE1" [.int 0, .list [.text [0xFF, 0xFE]]]⟩]
def in34 : List InFrame := [⟨[84, 73, 84, 50], [0, 65], .frame "TIT2" [.int 0, .list [.text [65]]]⟩,
  ⟨[84, 80, 69, 49], [0, 0xFF, 0xFE], .frame "TPE1" [.int 0, .list [.text [0xFF, 0xFE]]]⟩]

def readsAs (r : Except PyErr (List Val × Bytes)) (fs : List Val) (pad : Bytes) : Bool :=
  match r with
  | .ok (vs, d) => Val.beqList vs fs && (d == pad)
  | .error _ => false

/-- v2.2, whole tag unsynchronised: the region differs from the plain rendering (a 0x00 is inserted) and reads as the
upgraded frames -/
example : unsynchEncode ((in22.map render22).flatten ++ zeros 4) ≠ (in22.map render22).flatten ++ zeros 4 ∧
    readsAs (readFramesWith C12.noSub Id3Table.frames { version := 2, unsynch := true }
      (unsynchEncode ((in22.map render22).flatten ++ zeros 4))) (in22.map (·.out)) (zeros 4) = true := by
  constructor <;> decide +kernel

example : readsAs (readFramesWith C12.noSub Id3Table.frames { version := 2 } ((in22.map render22).flatten ++ zeros 4))
    (in22.map (·.out)) (zeros 4) = true := by decide +kernel

/-- v2.3, whole tag unsynchronised -/
example : readsAs (readFramesWith C12.noSub Id3Table.frames { version := 3, unsynch := true }
    (unsynchEncode ((in34.map render23).flatten ++ zeros 12))) (in34.map (·.out)) (zeros 12) = true := by decide +kernel

/-- v2.4, per-frame unsynchronisation, header flag set and not set; the condition holds (small bodies) -/
example : readsAs (readFramesWith C12.noSub Id3Table.frames { version := 4, unsynch := true }
    ((in34.map render24u).flatten ++ zeros 12)) (in34.map (·.out)) (zeros 12) = true ∧
  readsAs (readFramesWith C12.noSub Id3Table.frames { version := 4 }
    ((in34.map render24u).flatten ++ zeros 12)) (in34.map (·.out)) (zeros 12) = true ∧
  intWalkSafe (((in34.map render24u).flatten).length + 12) 0 (in34.map fun fr => (unsynchEncode fr.body).length) = true := by
  refine ⟨?_, ?_, ?_⟩ <;> decide +kernel

/-- `intWalkSafe`: small bodies; a big last frame whose plain-integer size points beyond the end; and a big first frame
followed by enough bytes for the wrong reading to go on (rejected) -/
example : intWalkSafe 1000 0 [5, 100, 127] = true ∧ intWalkSafe (15 + 210 + 0) 0 [5, 200] = true ∧
    intWalkSafe (210 + 400) 0 [200, 390] = false := by decide +kernel

/-- the sort of `_write`: TIT2 (priority 0) before a TXXX (priority 7) whatever the insertion order -/
example : TagOrder.id3Body [⟨7, [1, 1], [88]⟩, ⟨0, [2, 2, 2], [84]⟩] = [2, 2, 2, 1, 1] ∧
    TagOrder.id3Body [⟨0, [2, 2, 2], [84]⟩, ⟨7, [1, 1], [88]⟩] = [2, 2, 2, 1, 1] := by
  constructor <;> simp [TagOrder.id3Body, List.mergeSort, List.MergeSort.Internal.splitInTwo, TagOrder.frameLe, TagOrder.lexLe]
end Mutagen.C01
