/-
Props/C04.lean — C04 "Malformed input is rejected cleanly and in bounded time".
Totality theorems for the parsers that are modelled (every byte string: a result or the
format's error, nothing else; total functions, so no divergence), plus the static shape of
the entry points.  The rest of the parser code is reached by mutation search only — the
evidence file says so.
-/
import MutagenModel.Props.C05
import MutagenModel.Model.Ogg
import MutagenModel.Model.Container.Flac
import MutagenModel.Model.Id3Util
import MutagenModel.Generated.EntryPoints
set_option linter.unusedVariables false
namespace Mutagen.C04
open Mutagen

theorem readBits_lt (n : Nat) (bs : List Bool) (v : Nat) (r : List Bool) (h : readBits n bs = some (v, r)) :
    v < 2 ^ n := by
  unfold readBits at h
  split at h
  · cases h
  · rename_i hl
    injection h with h
    injection h with h1 h2
    subst h1
    have := bitsToNat_lt (bs.take n)
    have hlen : (bs.take n).length = n := by simp [List.length_take]; omega
    rwa [hlen] at this

/-- `vs` has one value per width, each below `2^width` -/
inductive AllLt : List Nat → List Nat → Prop
  | nil : AllLt [] []
  | cons {w v ws vs} : v < 2 ^ w → AllLt ws vs → AllLt (w :: ws) (v :: vs)

theorem readFields_bounds (ws : List Nat) (bs : List Bool) (vs : List Nat) (r : List Bool)
    (h : readFields ws bs = some (vs, r)) : AllLt ws vs := by
  induction ws generalizing bs vs r with
  | nil =>
    simp only [readFields, Option.some.injEq, Prod.mk.injEq] at h
    rw [← h.1]; exact AllLt.nil
  | cons w ws ih =>
    simp only [readFields] at h
    cases h1 : readBits w bs with
    | none => rw [h1] at h; cases h
    | some p =>
      obtain ⟨v, rest⟩ := p
      rw [h1] at h
      simp only at h
      cases h2 : readFields ws rest with
      | none => rw [h2] at h; cases h
      | some q =>
        obtain ⟨vs', r'⟩ := q
        rw [h2] at h
        simp only [Option.some.injEq, Prod.mk.injEq] at h
        rw [← h.1]
        exact AllLt.cons (readBits_lt w bs v rest h1) (ih rest vs' r' h2)

theorem isoMeaning_total (v l p b s pad m : Nat) :
    (∃ i, C05.isoMeaning v l p b s pad m = .ok i) ∨ C05.isoMeaning v l p b s pad m = .error .mutagen := by
  unfold C05.isoMeaning
  split
  · right; rfl
  · left; exact ⟨_, rfl⟩

/-- MPEG audio frame header: for EVERY byte string the decoder returns stream fields or
HeaderNotFoundError (a MutagenError) — never KeyError / IndexError / ZeroDivisionError from
the table lookups (the generated tables are complete for every field combination) -/
theorem mpeg_decode_total (b : Bytes) :
    (∃ i, Mpeg.decodeHeader b = .ok i) ∨ Mpeg.decodeHeader b = .error .mutagen := by
  unfold Mpeg.decodeHeader
  cases hr : readFields [11, 2, 2, 1, 4, 2, 1, 1, 2, 6] (bytesToBits (b.take 4)) with
  | none => right; rfl
  | some res =>
    obtain ⟨vals, rest⟩ := res
    have hb := readFields_bounds _ _ _ _ hr
    -- destructure the ten bounded fields
    cases hb with
    | cons h_sync hb =>
      cases hb with
      | cons h_v hb =>
        cases hb with
        | cons h_l hb =>
          cases hb with
          | cons h_p hb =>
            cases hb with
            | cons h_br hb =>
              cases hb with
              | cons h_s hb =>
                cases hb with
                | cons h_pad hb =>
                  cases hb with
                  | cons h_priv hb =>
                    cases hb with
                    | cons h_m hb =>
                      cases hb with
                      | cons h_r6 hb =>
                        cases hb
                        simp only
                        split
                        · right; rfl
                        · rw [C05.ofFields_iso _ _ _ _ _ _ _ (by simpa using h_v) (by simpa using h_l) (by simpa using h_p)
                            (by simpa using h_br) (by simpa using h_s) (by simpa using h_pad) (by simpa using h_m)]
                          exact isoMeaning_total _ _ _ _ _ _ _

/-- FLAC STREAMINFO: every byte string decodes to the nine fields or raises `error` -/
theorem streaminfo_load_total (d : Bytes) :
    (∃ s, Flac.siLoad d = .ok s) ∨ Flac.siLoad d = .error .mutagen := by
  unfold Flac.siLoad
  split
  · right; rfl
  · split
    · split
      · right; rfl
      · left; exact ⟨_, rfl⟩
    · right; rfl

/-- unsynchronisation decode: every byte string decodes or raises ValueError (which
read_frames / Frame._fromData catch) -/
theorem unsynch_decode_total (b : Bytes) :
    (∃ r, unsynchDecode b = .ok r) ∨ unsynchDecode b = .error .value := by
  unfold unsynchDecode
  split
  · left; exact ⟨_, rfl⟩
  · right; rfl

/-- BitPaddedInt(bytes) is total: any bytes, any bit width, a number -/
theorem bitpadded_parse_total (bits : Nat) (be : Bool) (b : Bytes) : ∃ n, bpFromBytes bits be b = n := ⟨_, rfl⟩

/-- the FLAC block walker does at most one step per input byte + 1 (its fuel) and either
returns a layout or rejects; it never reads outside the input (total by construction) -/
theorem flac_walk_total (d : Bytes) : (∃ L, FlacC.walk d = some L) ∨ FlacC.walk d = none := by
  cases h : FlacC.walk d with
  | none => right; rfl
  | some L => left; exact ⟨L, rfl⟩

/-- the Ogg page parser: a page and the rest, end of input, or `error` -/
theorem ogg_parse_total (d : Bytes) :
    (∃ p r, Ogg.parse d = .ok (p, r)) ∨ Ogg.parse d = .error .eof ∨ Ogg.parse d = .error .bad := by
  cases h : Ogg.parse d with
  | ok pr => left; exact ⟨pr.1, pr.2, by simp⟩
  | error e => cases e <;> simp

/-- every public entry point converts I/O errors (see Props/C06.lean `entrypoints_protected`;
the table is regenerated from the source on every run) -/
theorem entrypoints_convert :
    (Generated.entryPoints.all fun e => e.2.2.2.1 != "unprotected") = true := by decide

/-! non-vacuity -/
example : Mpeg.decodeHeader [0x00, 0x01] = .error .mutagen := by decide +kernel
example : FlacC.walk [0x66, 0x4C, 0x61, 0x43, 0xFF] = none := by decide +kernel

end Mutagen.C04
