/-
Props/C10.lean — C10 "MP4 media offsets follow the data when tags change size".

Vocabulary (Model/Container/Mp4.lean, Proofs/Container/Mp4.lean):
  `Atom`, `renderList`, `walk`        the atom tree, its bytes (every size field = extent), the strict walker
  `wfList`                            names of 4 bytes, container names exactly on nodes, sizes fit 32 / 64 bit
  `fill frames hole mid`              the top-level atom list with the atoms `mid` at a nested position
                                      (`frames` = the path moov/udta/meta with their other children)
  `splice f o old new`                `f[:o] + new + f[o+old:]` — what resize_bytes + write leave (C11: `replaceRegion_clean`)
  `patchEntry o delta e`              `e + delta if o < e else e` — the rule of __update_offset_table / __update_tfhd
  `updateParents`                     __update_parents on the bytes, at the offsets of the path atoms
  `parse`, `regionOf`, `saveAt`       mutagen's parser, the region MP4Tags.__save replaces, and the bookkeeping
                                      of the save on the bytes (splice, __update_parents, __update_offsets)
  `visited atoms`                     the stco/co64/tfhd atoms __update_offsets finds (first moov, every top-level moof);
                                      it skips those that start inside the replaced region (`visitedIn`, /repo ded7b59):
                                      none under `SaveSafe` (`visitedIn_eq_visited`)
  `allTables atoms`                   the stco/co64/tfhd atoms below every top-level moov / moof
What is written INTO the region (ilst, free, meta/udta wrappers) is a parameter; the tie between
`saveAt` and the code is the correspondence check of harness/props/c10.py (byte equality with the
real file after every save), not a theorem.
-/
import MutagenModel.Proofs.Container.Mp4
set_option linter.unusedVariables false
namespace Mutagen.C10
open Mutagen Mutagen.Mp4C

/-! ### (a) the pure core -/

/-- Replace `[o, o+old)` of `f` by `new`.  A byte before the region keeps its position; a byte at
`x ≥ o + old` is afterwards at `x + new.length - old`. -/
theorem splice_bytes (f new : Bytes) (o old : Nat) (ho : o + old ≤ f.length) :
    (∀ i, i < o → (splice f o old new)[i]? = f[i]?) ∧
    (∀ x, o + old ≤ x → (splice f o old new)[x + new.length - old]? = f[x]?) :=
  ⟨fun i hi => splice_before f new o old i (by omega) hi, fun x hx => splice_after f new o old x ho hx⟩

/-- `splice_offsets_follow`: an offset `e` patched by the code's rule (`+ delta` iff `o < e`, where
`delta = new.length - old`) addresses after the replacement the same `n` bytes as before —
provided the addressed bytes avoid the replaced region: `Clear o old e n`, i.e. `e + n ≤ o`, or
`o < e ∧ o + old ≤ e`.  The side condition is decidable; it excludes offsets INTO the region and
the offset `e = o` (not patched by the strict comparison although the byte moves when `old = 0`). -/
theorem splice_offsets_follow (f new : Bytes) (o old e n : Nat) (ho : o + old ≤ f.length)
    (hc : Clear o old e n) :
    readAt (splice f o old new) (patchEntry o ((new.length : Int) - old) e).toNat n = readAt f e n :=
  splice_patched_window f new o old e n ho hc

/-- the side condition of `splice_offsets_follow` cannot be dropped: an insertion at `o = 2`
(`old = 0`) moves the byte at offset 2, but the rule leaves an offset equal to `o` alone -/
theorem splice_offsets_boundary :
    readAt (splice [10, 11, 12, 13] 2 0 [99]) (patchEntry 2 1 2).toNat 1 ≠ readAt [10, 11, 12, 13] 2 1 := by
  decide

/-! ### (c) the strict walker reads back what is rendered -/

/-- `walk (render t) = t` for every well-formed atom list: 32-bit and 64-bit size forms, any
nesting of the containers of `_CONTAINERS`, the 4 skipped bytes of `meta` -/
theorem walk_render (l : List Atom) (hl : wfList l) : walk (renderList l) = some l :=
  Mp4C.walk_render l hl

/-! ### (b) every ancestor's size field equals its extent after the update -/

/-- `parent_sizes`.  Take any well-formed atom list, a nested position in it (the path
`frames`, e.g. moov/udta/meta, with arbitrary other children before and after at every level,
32- or 64-bit size forms at every level), and replace the atoms `mid` found there by the atoms
`mid'`.  Doing this ON THE BYTES — replace the bytes of `mid` by the bytes of `mid'`, then run
`__update_parents` at the offsets of the path atoms with `delta = size mid' - size mid` — succeeds
and yields exactly the rendering of the tree that has `mid'` at that position; that file is read
back by the strict walker, i.e. at every level the size field equals the extent of the children.
`P` and `S` are arbitrary bytes around the atom list (for instance a final size-0 `mdat`).
Hypotheses: the tree is well-formed before and after (in particular the new sizes still fit their
fields; a 32-bit size that would exceed 2^32-1 is outside the theorem — the code raises
MP4MetadataError there, after the bytes were already replaced). -/
theorem parent_sizes (frames : List Frame) (h : Hole) (mid mid' : List Atom) (P S : Bytes)
    (hw : wfList (fill frames h mid)) (hw' : wfList (fill frames h mid')) :
    updateParents
        (splice (P ++ renderList (fill frames h mid) ++ S) (holeOffset P.length frames h)
          (renderList mid).length (renderList mid'))
        (frameOffsets P.length frames) ((sizeList mid' : Int) - sizeList mid) =
      .ok (P ++ renderList (fill frames h mid') ++ S) ∧
    walk (renderList (fill frames h mid')) = some (fill frames h mid') :=
  ⟨parent_sizes_within frames h mid mid' P S hw hw', Mp4C.walk_render _ hw'⟩

/-- the hypotheses of `parent_sizes` are satisfiable: `moov(mvhd, udta(meta(hdlr, □, free)))`
with a 64-bit `udta`, the hole holding an `ilst` before and an `ilst` + `free` after -/
example :
    let leaf (n : Bytes) (p : Bytes) := Atom.leaf n false p
    let frames : List Frame :=
      [{ name := nMoov, wide := false, skip := [], pre := [leaf [0x6d, 0x76, 0x68, 0x64] [1, 2, 3]], post := [] },
       { name := nUdta, wide := true, skip := [], pre := [], post := [] },
       { name := nMeta, wide := false, skip := [0, 0, 0, 0], pre := [leaf [0x68, 0x64, 0x6c, 0x72] [7]], post := [] }]
    let h : Hole := { pre := [], post := [leaf nFree [0, 0]] }
    wfList (fill frames h [Atom.node nIlst false [] []]) ∧
      wfList (fill frames h [Atom.node nIlst false [] [leaf [0xa9, 0x6e, 0x61, 0x6d] [65, 66]], leaf nFree [0]]) := by
  simp [fill, wfList, Atom.wf, sizeList, Atom.size, hdrLen, isContainer, containers, skipSize,
    nMoov, nUdta, nMeta, nIlst, nFree, nTrak, nMdia, nStbl, nMinf, nMoof, nTraf]

/-! ### (d) chunk offsets and fragment base offsets after a save -/

/-- what C10 asks of one table atom `t` (entry width `t.1`, 0 = tfhd) of a file `f` whose save
produced `g`: the table still has its entries, each one patched by the rule, and each patched
entry addresses the same media bytes (for every window that is media in the sense `MediaClear`) -/
def TableFollows (f g : Bytes) (parents atoms : List PAtom) (o old : Nat) (delta : Int) (t : Nat × PAtom) : Prop :=
  (t.1 ≠ 0 →
    tblCnt g (shifted t.2 delta o) t.2.length = tblCnt f t.2.offset t.2.length ∧
    tblEntries g t.1 (shifted t.2 delta o) t.2.length =
      (tblEntries f t.1 t.2.offset t.2.length).map (fun e => (patchEntry o delta e).toNat) ∧
    ∀ e ∈ tblEntries f t.1 t.2.offset t.2.length, ∀ n, MediaClear parents atoms o old delta e n →
      readAt g (patchEntry o delta e).toNat n = readAt f e n) ∧
  (t.1 = 0 →
    (tfhdHasBase g (shifted t.2 delta o) t.2.length ↔ tfhdHasBase f t.2.offset t.2.length) ∧
    (tfhdHasBase f t.2.offset t.2.length →
      tfhdBaseAt g (shifted t.2 delta o) t.2.length =
        (patchEntry o delta (tfhdBaseAt f t.2.offset t.2.length)).toNat ∧
      ∀ n, MediaClear parents atoms o old delta (tfhdBaseAt f t.2.offset t.2.length) n →
        readAt g (tfhdBaseAt g (shifted t.2 delta o) t.2.length) n =
          readAt f (tfhdBaseAt f t.2.offset t.2.length) n))

/-- The statement of C10 about offsets, for the bookkeeping `saveAt` of the model.  For every
file `f`, whatever atoms the parser returned for it, whatever region `[o, o+old)` is replaced
by whatever bytes `new`: if the save finishes without an exception, the file has exactly one
top-level `moov` (any number of top-level `moof` fragments), and the side conditions
`SaveSafe` hold (table atoms at least 12 bytes long, with the 8-byte header form, inside the file,
outside the replaced region, pairwise disjoint and clear of the path atoms' size fields — all
decidable; the driver evaluates them on every save of the correspondence run), then EVERY stco /
co64 / tfhd atom below a top-level moov / moof follows the data.  With the 8-byte header form the
entries the code works on are the entries of the payload as ISO 14496-12 defines them
(`tblEntries_spec`, `tfhd_spec` in Proofs/Container/Mp4.lean); a table atom written with a 64-bit
size header is outside the statement (and is in fact mishandled: key `…:wide-table` / `…:wide-tfhd`). -/
def ChunkOffsetsFollow : Prop :=
  ∀ (f : Bytes) (atoms parents : List PAtom) (o old : Nat) (new g : Bytes),
    saveAt f atoms parents o old new = (none, g) →
    (atoms.filter (·.name = nMoov)).length = 1 →
    SaveSafe f atoms parents o old ((new.length : Int) - old) →
    ∀ t ∈ allTables atoms, TableFollows f g parents atoms o old ((new.length : Int) - old) t

/-- `chunk_offsets_follow_partial`: C10's offset statement holds for the model, for any number of
movie fragments.  (Proved for ALL byte strings `f` and parser results `atoms`, not only for
rendered trees: the hypotheses that matter are the decidable side conditions `SaveSafe`.
Windows that are not `MediaClear` — offsets into the tag region or into a size field / offset
table — are not media and are outside the statement.  "Partial": table atoms written with a 64-bit
size header are excluded by `SaveSafe`; the code mishandles them, see known_findings.json.) -/
theorem chunk_offsets_follow_partial : ChunkOffsetsFollow := by
  intro f atoms parents o old new g hs hmoov hsafe t ht
  obtain ⟨hsz, hpw, hclear, hin, h8⟩ := hsafe
  rw [saveAt_eq_saveAt8 f atoms parents o old new hsz hclear h8] at hs
  rw [← visited_eq_allTables atoms hmoov] at ht
  refine ⟨fun hw => ?_, fun hw => ?_⟩
  · obtain ⟨h1, h2⟩ := table_patched f atoms parents o old new g hs hsz hpw t ht hw (hclear t ht) (hin t ht)
    refine ⟨h1, h2, fun e _ n hm => ?_⟩
    exact media_follow f atoms parents o old new g hs hsz e n hm.1 hm.2
  · obtain ⟨h1, h2⟩ := tfhd_patched f atoms parents o old new g hs hsz hpw t ht hw (hclear t ht) (hin t ht)
    refine ⟨h1, fun hb => ⟨h2 hb, fun n hm => ?_⟩⟩
    rw [h2 hb]
    exact media_follow f atoms parents o old new g hs hsz _ n hm.1 hm.2

/-! ### the two-fragment witness -/

/-- `moov(udta(meta(ilst)))  moof(traf(tfhd base=84))  mdat "AAAA"  moof(traf(tfhd base=136))
mdat "BBBB"` (140 bytes) -/
def twoMoof : Bytes :=
  [0x00, 0x00, 0x00, 0x24, 0x6d, 0x6f, 0x6f, 0x76, 0x00, 0x00, 0x00, 0x1c, 0x75, 0x64, 0x74, 0x61,
   0x00, 0x00, 0x00, 0x14, 0x6d, 0x65, 0x74, 0x61, 0x00, 0x00, 0x00, 0x00, 0x00, 0x00, 0x00, 0x08,
   0x69, 0x6c, 0x73, 0x74,
   0x00, 0x00, 0x00, 0x28, 0x6d, 0x6f, 0x6f, 0x66, 0x00, 0x00, 0x00, 0x20, 0x74, 0x72, 0x61, 0x66,
   0x00, 0x00, 0x00, 0x18, 0x74, 0x66, 0x68, 0x64, 0x00, 0x00, 0x00, 0x01, 0x00, 0x00, 0x00, 0x01,
   0x00, 0x00, 0x00, 0x00, 0x00, 0x00, 0x00, 0x54,
   0x00, 0x00, 0x00, 0x0c, 0x6d, 0x64, 0x61, 0x74, 0x41, 0x41, 0x41, 0x41,
   0x00, 0x00, 0x00, 0x28, 0x6d, 0x6f, 0x6f, 0x66, 0x00, 0x00, 0x00, 0x20, 0x74, 0x72, 0x61, 0x66,
   0x00, 0x00, 0x00, 0x18, 0x74, 0x66, 0x68, 0x64, 0x00, 0x00, 0x00, 0x01, 0x00, 0x00, 0x00, 0x01,
   0x00, 0x00, 0x00, 0x00, 0x00, 0x00, 0x00, 0x88,
   0x00, 0x00, 0x00, 0x0c, 0x6d, 0x64, 0x61, 0x74, 0x42, 0x42, 0x42, 0x42]

/-- what a save of no tags with `padding = 4` writes over the old 8-byte `ilst`: an empty `ilst`
and a `free` atom with 4 bytes of padding (20 bytes, delta = +12) -/
def twoMoofNew : Bytes :=
  [0x00, 0x00, 0x00, 0x08, 0x69, 0x6c, 0x73, 0x74, 0x00, 0x00, 0x00, 0x0c, 0x66, 0x72, 0x65, 0x65,
   0x00, 0x00, 0x00, 0x00]

def twoMoofSaved : Option PyErr × Bytes := saveRegion twoMoof (fun _ => twoMoofNew)

/-- `two_moof_instance`: with two top-level `moof` atoms both fragments' base offsets follow their
data: 84 → 96 with "AAAA", 136 → 148 with "BBBB".  (Before the repair recorded in
known_findings.json only the first `moof` was visited and the second `tfhd` kept 136; the harness
replays the same bytes on the real code on every run, key `mp4:tfhd-stale:second-moof`.) -/
theorem two_moof_instance :
    twoMoofSaved.1 = none ∧
    (walkFile twoMoof).map File.offsets = some [84, 136] ∧
    (walkFile twoMoofSaved.2).map File.offsets = some [96, 148] ∧
    readAt twoMoof 84 4 = [0x41, 0x41, 0x41, 0x41] ∧ readAt twoMoofSaved.2 96 4 = [0x41, 0x41, 0x41, 0x41] ∧
    readAt twoMoof 136 4 = [0x42, 0x42, 0x42, 0x42] ∧ readAt twoMoofSaved.2 148 4 = [0x42, 0x42, 0x42, 0x42] ∧
    offsetsFollow twoMoof twoMoofSaved.2 4 = true := by
  decide +kernel

/-- the parser's atoms and the region of the witness -/
def twoMoofAtoms : List PAtom := match parse twoMoof with | .ok a => a | .error _ => []
def twoMoofParents : List PAtom := match regionOf twoMoofAtoms with | some R => R.parents | none => []

/-- the hypotheses of `chunk_offsets_follow_partial` hold for the two-fragment file, and both
`tfhd` atoms are visited -/
theorem witness_facts :
    (regionOf twoMoofAtoms).map (fun R => (R.offset, R.length)) = some (28, 8) ∧
    (saveAt twoMoof twoMoofAtoms twoMoofParents 28 8 twoMoofNew).1 = none ∧
    (twoMoofAtoms.filter (·.name = nMoov)).length = 1 ∧
    (twoMoofAtoms.filter (·.name = nMoof)).length = 2 ∧
    SaveSafe twoMoof twoMoofAtoms twoMoofParents 28 8 12 ∧
    (allTables twoMoofAtoms).map (fun t => (t.1, t.2.offset, t.2.length)) = [(0, 52, 24), (0, 104, 24)] ∧
    (visited twoMoofAtoms).map (fun t => (t.1, t.2.offset, t.2.length)) = [(0, 52, 24), (0, 104, 24)] := by
  decide +kernel

/-! ### two more layouts the parser accepts (broken before the repairs recorded in known_findings.json) -/

/-- `mdat "AAAA"` followed by a LAST atom `moov(udta(meta(ilst)))` written with size field 0
("extends to the end of the file", ISO 14496-12 §4.2) — 48 bytes -/
def size0Moov : Bytes :=
  [0x00, 0x00, 0x00, 0x0c, 0x6d, 0x64, 0x61, 0x74, 0x41, 0x41, 0x41, 0x41, 0x00, 0x00, 0x00, 0x00,
   0x6d, 0x6f, 0x6f, 0x76, 0x00, 0x00, 0x00, 0x1c, 0x75, 0x64, 0x74, 0x61, 0x00, 0x00, 0x00, 0x14,
   0x6d, 0x65, 0x74, 0x61, 0x00, 0x00, 0x00, 0x00, 0x00, 0x00, 0x00, 0x08, 0x69, 0x6c, 0x73, 0x74]

/-- `size0_moov_instance`: `__update_parents` leaves the size field 0 of a `moov` that extends to
the end of the file alone: the save finishes, the field still reads 0, and the strict walker
accepts the result (60 bytes).  (Before the repair `delta` was added to the 0 and the `moov`
claimed 12 bytes; key `mp4:parent-size:size0-moov`.) -/
theorem size0_moov_instance :
    (walkFile size0Moov).isSome = true ∧
    (saveRegion size0Moov (fun _ => twoMoofNew)).1 = none ∧
    readAt (saveRegion size0Moov (fun _ => twoMoofNew)).2 12 8 = [0, 0, 0, 0, 0x6d, 0x6f, 0x6f, 0x76] ∧
    (saveRegion size0Moov (fun _ => twoMoofNew)).2.length = 60 ∧
    (walkFile (saveRegion size0Moov (fun _ => twoMoofNew)).2).isSome = true := by
  decide +kernel

/-- `moov(udta(meta(ilst, "xyz "(2 bytes), free(4 bytes))))  mdat "AAAA"` — `ilst` is the FIRST
child of `meta`, a foreign atom follows, a `free` atom is the last child — 70 bytes -/
def ilstFirst : Bytes :=
  [0x00, 0x00, 0x00, 0x3a, 0x6d, 0x6f, 0x6f, 0x76, 0x00, 0x00, 0x00, 0x32, 0x75, 0x64, 0x74, 0x61,
   0x00, 0x00, 0x00, 0x2a, 0x6d, 0x65, 0x74, 0x61, 0x00, 0x00, 0x00, 0x00, 0x00, 0x00, 0x00, 0x08,
   0x69, 0x6c, 0x73, 0x74, 0x00, 0x00, 0x00, 0x0a, 0x78, 0x79, 0x7a, 0x20, 0x58, 0x59, 0x00, 0x00,
   0x00, 0x0c, 0x66, 0x72, 0x65, 0x65, 0x00, 0x00, 0x00, 0x00, 0x00, 0x00, 0x00, 0x0c, 0x6d, 0x64,
   0x61, 0x74, 0x41, 0x41, 0x41, 0x41]

/-- `ilst_first_instance`: with `ilst` as the first child of `meta`, `_find_padding` finds no
adjacent `free` atom (the `free` at the end of `meta` is not adjacent), the replaced region is the
`ilst` alone, `[28, 36)`, and the save keeps the foreign atom "xyz " and yields a well-formed tree.
(Before the repair `children[index - 1]` with `index = 0` picked the LAST child and the region
swallowed the atoms in between; key `mp4:parent-size:ilst-first-free-last`.) -/
theorem ilst_first_instance :
    (walkFile ilstFirst).isSome = true ∧
    ((parse ilstFirst).toOption.bind regionOf).map (fun R => (R.offset, R.length)) = some (28, 8) ∧
    (saveRegion ilstFirst (fun _ => twoMoofNew)).1 = none ∧
    (saveRegion ilstFirst (fun _ => twoMoofNew)).2.length = 82 ∧
    (walkFile (saveRegion ilstFirst (fun _ => twoMoofNew)).2).isSome = true := by
  decide +kernel

/-! ### the hypotheses of `chunk_offsets_follow_partial` are satisfiable -/

/-- the witness cut after the first fragment (88 bytes): one `moov`, one `moof` -/
def oneMoof : Bytes := twoMoof.take 88
def oneMoofAtoms : List PAtom := match parse oneMoof with | .ok a => a | .error _ => []
def oneMoofParents : List PAtom := match regionOf oneMoofAtoms with | some R => R.parents | none => []

example :
    (saveAt oneMoof oneMoofAtoms oneMoofParents 28 8 twoMoofNew).1 = none ∧
    (oneMoofAtoms.filter (·.name = nMoov)).length = 1 ∧
    SaveSafe oneMoof oneMoofAtoms oneMoofParents 28 8 12 ∧
    (allTables oneMoofAtoms).length = 1 ∧
    MediaClear oneMoofParents oneMoofAtoms 28 8 12 84 4 := by
  decide +kernel

end Mutagen.C10
