/-
Props/C16_Mp4.lean — C16 for `MP4Tags` (model: Model/DictMp4.lean, tie: harness/dict_tie_x.py
kind `mp4`).  `MP4Tags` is a `DictProxy` whose `__setitem__` first insists on a `str` key and
then renders the value (to throw the result away): a key / value pair `save` could not write
raises at once and leaves the tags alone.  Keys are case-sensitive.
-/
import MutagenModel.Proofs.DictMp4
import MutagenModel.Props.C16_K
set_option linter.unusedVariables false
namespace Mutagen.C16
open Mutagen Mutagen.Dict

/-- `MP4Tags` refines the reference dictionary whose policy files a hashable key as it is
(case-sensitive; an unhashable key is a `TypeError` on every access) and whose `__setitem__`
raises exactly what `mp4Check key value` says — `TypeError` for a key that is not `str`,
`ValueError` for a key that is not Latin-1, else the first exception of the atom's render
function — and otherwise stores the value as given.  Invariant `Mp4Inv`: unique keys, every
stored pair passed the render check.  Abstraction: the wrapped dict. -/
theorem mp4_refines : KRefines mp4Impl mp4Policy Mp4Inv (fun s => s) :=
  mp4_refines_aux

/-- a fresh `MP4Tags()`: every sequence of mapping operations is accepted by the reference -/
theorem mp4_trace_equiv (ops : List (Op PKey PVal)) :
    KAccepts mp4Policy [] ops (mp4Impl.run ops []) :=
  ktrace_sim mp4_refines_aux ops [] [] mp4Inv_nil (SameMap.refl _) List.nodup_nil

/-- whatever sequence of mapping operations ran on a fresh `MP4Tags()`: every key it holds is a
`str`, and every (key, value) it holds renders — `save` will not raise `MP4MetadataValueError`
/ `TypeError` on account of a value entered through the dictionary interface -/
theorem mp4_stored_renders (ops : List (Op PKey PVal)) (p : PKey × PVal) (hp : p ∈ mp4Impl.exec ops []) :
    mp4Check p.1 p.2 = .ok () ∧ ∃ t, p.1 = .str t :=
  have h := (kexec_inv mp4_refines_aux ops [] mp4Inv_nil).2 p hp
  ⟨h, mp4Check_ok_str _ _ h⟩

/-- the value is stored as given: after `tags[k] = v` succeeded, `tags[k]` is `v` itself -/
theorem mp4_set_then_get (s s' : Mp4) (k : PKey) (v : PVal) (h : mp4Impl.setitem s k v = .ok s') :
    mp4Impl.getitem s' k = .ok v := by
  simp only [mp4Impl, mp4Set] at h
  cases hc : mp4Check k v with
  | error e => simp [hc] at h
  | ok u =>
    simp only [hc, Except.ok.injEq] at h
    subst h
    simp [mp4Impl, mp4Get, mp4Check_ok_hashable k v hc, lookupE, lookup_insert]

/-- a key that is not `str`: `__setitem__` raises `TypeError` whatever the value; a hashable
one is never present (`KeyError` / `False` / the default), an unhashable one is a `TypeError`
from the dict lookup -/
theorem mp4_nonstr_key (s : Mp4) (k : PKey) (v d : PVal) (hk : ∀ t, k ≠ .str t) (hs : Mp4Inv s) :
    mp4Impl.setitem s k v = .error .type_ ∧
      (k.hashable = true → mp4Impl.getitem s k = .error .key ∧ mp4Impl.delitem s k = .error .key ∧
        mp4Impl.contains s k = .ok false ∧ mp4Impl.getD s k d = .ok d) ∧
      (k.hashable = false → mp4Impl.getitem s k = .error .type_ ∧ mp4Impl.delitem s k = .error .type_) := by
  have hl : lookup k s = none := by
    rw [lookup_eq_none_iff]
    intro hm
    obtain ⟨v0, hv0⟩ := Option.isSome_iff_exists.1 ((mem_keysOf_iff k s).1 hm)
    obtain ⟨t, ht⟩ := mp4Check_ok_str _ _ (hs.2 (k, v0) ((mem_iff_lookup k v0 s hs.1).2 hv0))
    exact hk t ht
  refine ⟨?_, ?_, ?_⟩
  · cases k <;> first | rfl | exact absurd rfl (hk _)
  · intro hh
    simp [mp4Impl, mp4Get, mp4Del, MapImpl.contains, MapImpl.getD, hh, lookupE, hl]
  · intro hh
    simp [mp4Impl, mp4Get, mp4Del, hh]

/-- a `str` key with a character beyond U+00FF: `ValueError` (`UnicodeEncodeError`) on set -/
theorem mp4_non_latin1_key (s : Mp4) (k : Text) (v : PVal) (h : k.all (fun c => decide (c < 256)) = false) :
    mp4Impl.setitem s (.str k) v = .error .value := by
  simp [mp4Impl, mp4Set, mp4Check, h]

/-- the documented value rule of text atoms (the registered ones and every unknown atom): a
`str`, or a list whose items are all `str`; a list with any other item is a `TypeError` -/
theorem mp4_text_value_rule (k : Text) (hl : k.all (fun c => decide (c < 256)) = true)
    (hk : mp4KindOf k = .text) (t : Text) (l : List Item) :
    mp4Check (.str k) (.item (.prim (.str t))) = .ok () ∧
      mp4Check (.str k) (.list l) = (if l.all Item.isStr then .ok () else .error .type_) := by
  simp [mp4Check, hl, hk, mp4CheckText, iterVal]

/-- documented errors: `tags[k] = v` raises nothing but `TypeError` / `ValueError` (`MP4MetadataValueError`,
`UnicodeEncodeError` are `ValueError`s) — for values without a `float` in them.  PARTIAL: the hypothesis
`v.noFloat` excludes exactly the operations of `mp4_set_struct_error_witness`. -/
theorem mp4_set_raises_partial (s : Mp4) (k : PKey) (v : PVal) (e : PyErr) (hv : v.noFloat = true)
    (h : mp4Impl.setitem s k v = .error e) : e = .type_ ∨ e = .value := by
  simp only [mp4Impl, mp4Set] at h
  cases hc : mp4Check k v with
  | ok u => simp [hc] at h
  | error e' =>
    simp only [hc, Except.error.injEq] at h
    subst h
    exact mp4Check_err_classes k v e' hv hc

/-- the deviation `mp4_set_raises_partial` excludes: a float inside a `trkn` / `disk` pair passes the range
comparison and reaches `struct.pack(">4H", …)`, whose `struct.error` is not converted:
`MP4Tags()["trkn"] = [(1.5, 2)]` raises `struct.error`, neither `TypeError` nor `ValueError`. -/
theorem mp4_set_struct_error_witness :
    mp4Impl.setitem [] (.str [116, 114, 107, 110]) (.list [.tuple [.float 1500, .int 2]]) = .error .struct_ ∧
      mp4Impl.setitem [] (.str [100, 105, 115, 107]) (.list [.tuple [.int 2, .float 1500]]) = .error .struct_ := by
  decide

/-! ### non-vacuity -/

example : Mp4Inv [] := mp4Inv_nil

/-- "©nam" = "x"; "©NAM" is another key; a list with an int is a TypeError and changes nothing;
trkn wants pairs; 3 is not a key; "€nam" is not Latin-1; pop / popitem / setdefault -/
example : mp4Impl.run
    [.set (.str [169, 110, 97, 109]) (.item (.prim (.str [120]))),
     .get (.str [169, 78, 65, 77]),
     .set (.str [169, 110, 97, 109]) (.list [.prim (.str [120]), .prim (.int 3)]),
     .get (.str [169, 110, 97, 109]),
     .set (.str [116, 114, 107, 110]) (.list [.tuple [.int 1, .int 2]]),
     .set (.str [116, 114, 107, 110]) (.list [.tuple [.int 70000, .int 1]]),
     .set (.int 3) (.item (.prim (.str [120]))),
     .contains (.int 3),
     .set (.str [8364, 110, 97, 109]) (.item (.prim (.str [120]))),
     .set (.str [103, 110, 114, 101]) (.list []),
     .len, .pop (.str [116, 114, 107, 110]), .popitem, .popitem,
     .setdefault (.str [99, 112, 105, 108]) (.item (.prim .none)), .keys]
    [] =
    [.unit, .err .key, .err .type_, .val (.item (.prim (.str [120]))), .unit, .err .value, .err .type_,
     .bool false, .err .value, .err .type_, .nat 2, .val (.list [.tuple [.int 1, .int 2]]),
     .item (.str [169, 110, 97, 109]) (.item (.prim (.str [120]))), .err .key,
     .val (.item (.prim .none)), .keys [.str [99, 112, 105, 108]]] := by decide +kernel

end Mutagen.C16
