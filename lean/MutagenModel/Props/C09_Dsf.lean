/-
Props/C09_Dsf.lean — C09 "The padding callback is offered what is available and its answer is obeyed" for DSF files
`[DSD chunk][fmt chunk][data chunk][ID3 tag?]` (mutagen/dsf.py; model: Model/Container/Dsf.lean).
-/
import MutagenModel.Proofs.Container.Dsf
set_option linter.unusedVariables false
namespace Mutagen.C09
open Mutagen

/-! ## DSF files: `[DSD chunk][fmt chunk][data chunk][ID3 tag?]` -/

/-- DSF: the callback is offered `len(old tag) - (len(frames) + 10)` and told that nothing follows
(the tag is the end of the file); the number of zero bytes behind the frames in the saved file is
exactly its answer, and the file ends there -/
theorem dsf_padding_obeyed (L : Dsf.Layout) (h : L.OK) (vmaj : Nat) (hvm : vmaj = 3 ∨ vmaj = 4) (frames : Bytes)
    (cb : Int → Nat → Int) (p : Nat)
    (hp : cb ((L.tag.length : Int) - (frames.length + 10 : Nat)) 0 = p) (hfit : frames.length + p < 2 ^ 28) :
    ∃ hd, hd.length = 10 ∧
      Dsf.save L.render vmaj frames (.callback cb) =
        .ok (Dsf.dsdChunk (L.tagPos + (10 + frames.length + p)) L.tagPos ++ L.fmt ++ L.data ++ (hd ++ frames ++ zeros p)) := by
  obtain ⟨hd, hh, hd10, hs⟩ := Dsf.save_layout L h vmaj hvm frames (.callback cb) p (by simpa [getPadding] using hp) hfit
  refine ⟨hd, hd10, ?_⟩
  have hl : (hd ++ frames ++ zeros p).length = 10 + frames.length + p := by simp [hd10]; omega
  have hne : hd ++ frames ++ zeros p ≠ [] := by
    intro e; have := congrArg List.length e; rw [hl] at this; simp at this
  rw [hs]
  simp only [Dsf.Layout.render, Dsf.total_withTag, Dsf.pointer_withTag L _ hne, hl, Dsf.fmt_withTag, Dsf.data_withTag, Dsf.tag_withTag]

/-- returning the offered padding (when it is not negative) leaves the file size and every byte in
front of the tag — the whole DSD chunk with both of its fields, fmt chunk, data chunk — in place: the
new tag is exactly as long as the old one -/
theorem dsf_keep_is_inplace (L : Dsf.Layout) (h : L.OK) (vmaj : Nat) (hvm : vmaj = 3 ∨ vmaj = 4) (frames : Bytes)
    (hroom : frames.length + 10 ≤ L.tag.length) :
    ∃ out, Dsf.save L.render vmaj frames (.callback fun p _ => p) = .ok out ∧
      out.length = L.render.length ∧ out.take L.tagPos = L.render.take L.tagPos ∧
      (out.drop L.tagPos).length = L.tag.length := by
  have hne0 : L.tag ≠ [] := by intro e; rw [e] at hroom; simp at hroom
  have hbody : L.tag.length < 2 ^ 28 + 10 := by
    rcases h.tag with e | ⟨vm, hd, body, hv, hn, hh, e⟩
    · exact absurd e hne0
    · have hd10 := Dsf.header_length vm body.length hd hn hh
      rw [e]; simp [hd10]; omega
  obtain ⟨hd, hh, hd10, hs⟩ := Dsf.save_layout L h vmaj hvm frames (.callback fun p _ => p)
    (L.tag.length - (frames.length + 10)) (by simp [getPadding]; omega) (by omega)
  have hl : (hd ++ frames ++ zeros (L.tag.length - (frames.length + 10))).length = L.tag.length := by simp [hd10]; omega
  have hne : hd ++ frames ++ zeros (L.tag.length - (frames.length + 10)) ≠ [] := by
    intro e; have := congrArg List.length e; rw [hl] at this; simp at this; exact hne0 this
  have hp1 : L.pointer = L.tagPos := by simp [Dsf.Layout.pointer, hne0]
  refine ⟨_, hs, ?_, ?_, ?_⟩
  · rw [Dsf.length_render, Dsf.length_render, Dsf.total_withTag, hl]; rfl
  · rw [Dsf.take_tagPos L, ← Dsf.tagPos_withTag L (hd ++ frames ++ zeros (L.tag.length - (frames.length + 10))), Dsf.take_tagPos]
    simp only [Dsf.total_withTag, Dsf.pointer_withTag L _ hne, hl, hp1, Dsf.fmt_withTag, Dsf.data_withTag]
    rfl
  · rw [← Dsf.tagPos_withTag L (hd ++ frames ++ zeros (L.tag.length - (frames.length + 10))), Dsf.drop_tagPos, Dsf.tag_withTag, hl]

/-- the hypotheses are satisfiable: the example file has a 12-byte tag, so 2 bytes of frames and their
header fit into it exactly; a callback answering 5 meets the numeric ones of the first theorem -/
example : Dsf.exampleLayout.OK ∧ 2 + 10 ≤ Dsf.exampleLayout.tag.length ∧
    (fun (_ : Int) (_ : Nat) => (5 : Int)) ((Dsf.exampleLayout.tag.length : Int) - (2 + 10 : Nat)) 0 = (5 : Nat) :=
  ⟨Dsf.exampleLayout_ok, by decide +kernel, rfl⟩

end Mutagen.C09
