/-
Props/C04_Dsf.lean — C04 "Malformed input is rejected cleanly and in bounded time" for DSF files
(mutagen/dsf.py; model: Model/Container/Dsf.lean, made total in Model/Container/DsfFull.lean): for EVERY
byte string, load / save / delete of the model end in a result or in MutagenError.  All functions are
structurally total Lean functions without fuel, so there is no `.diverge` and no hang.
-/
import MutagenModel.Proofs.Container.DsfTotal
set_option linter.unusedVariables false
namespace Mutagen.C04
open Mutagen

/-! ## DSF files -/

/-- DSF load (the three chunk loaders, `_pre_load_header`, `ID3Header` with its extended-header branch,
the size arithmetic and the `read_full` of `ID3.load` — everything `DSF(fileobj)` does before the frames
are parsed): on every byte string the outcome is a result or MutagenError -/
theorem dsf_load_clean (f : Bytes) (e : PyErr) (h : Dsf.load f = .error e) : e = .mutagen :=
  Dsf.load_clean f e h

/-- DSF delete (module function and `DSF.delete`): on every byte string a result or MutagenError -/
theorem dsf_delete_clean (f : Bytes) (e : PyErr) (h : Dsf.delete f = .error e) : e = .mutagen :=
  Dsf.delete_clean f e h

/-- DSF save, total model (`saveX`: `_DSFID3.save` with `ID3Header` complete, `PaddingInfo.size` an
integer, and the 28-bit limit of the current `_prepare_data`: "tag too large" / capped padding): for
every byte string `f`, every byte string of rendered frames (the rendering of the frames,
`ID3Tags._write`, is not part of this model: `frames` ranges over all byte strings) and every padding
answer (any function of the two integers offered), the outcome is a result or MutagenError.  The two
hypotheses are not about the bytes:
* `hvm`: `v2_version` is 3 or 4 — an argument of the caller, for which ValueError is the documented answer;
* `hlen`: the file is shorter than 2^63 bytes (no file object holds more: offsets are signed 64-bit);
  it keeps `struct.pack("<Q", …)` of the total size and of the pointer from failing (`struct.error`). -/
theorem dsf_save_clean (f : Bytes) (vmaj : Nat) (hvm : vmaj = 3 ∨ vmaj = 4) (frames : Bytes)
    (ans : Int → Int → Int) (hlen : f.length < 2 ^ 63) (e : PyErr)
    (h : Dsf.saveX f vmaj frames ans = .error e) : e = .mutagen :=
  Dsf.saveX_clean f vmaj hvm frames ans hlen e h

/-- the total model covers the tied model: `save` of Model/Container/Dsf.lean (the function the
C02/C03/C07/C08/C09 theorems are about) answers `.notImplemented` — the metadata pointer is behind the end
of the file or the tag claims more bytes than the file has, so that `PaddingInfo.size` is negative — or
exactly what `saveX` answers for the same padding policy -/
theorem dsf_save_covered (f : Bytes) (vmaj : Nat) (frames : Bytes) (pad : PadChoice) :
    Dsf.save f vmaj frames pad = .error .notImplemented ∨
      Dsf.save f vmaj frames pad = Dsf.saveX f vmaj frames (fun a s => getPadding pad a s.toNat) :=
  Dsf.save_bridge f vmaj frames pad

/-- hence `save` itself: a result, MutagenError, or the model's own "outside the model" mark (same two
hypotheses as `dsf_save_clean`, neither about the bytes) -/
theorem dsf_save_model_clean (f : Bytes) (vmaj : Nat) (hvm : vmaj = 3 ∨ vmaj = 4) (frames : Bytes) (pad : PadChoice)
    (hlen : f.length < 2 ^ 63) (e : PyErr)
    (h : Dsf.save f vmaj frames pad = .error e) : e = .mutagen ∨ e = .notImplemented := by
  rcases Dsf.save_bridge f vmaj frames pad with h1 | h1
  · rw [h1] at h; cases h; exact Or.inr rfl
  · rw [h1] at h; exact Or.inl (Dsf.saveX_clean f vmaj hvm frames _ hlen e h)

/-- `ID3Header` as `load` sees it (three kinds of exception, length of the extended header) and as `save`
sees it (`Id3F.headerSize`) are one function: the size of the tag, "no header", or the ID3 error -/
theorem dsf_header_views_agree (t : Bytes) :
    Id3F.headerSize t = (match Dsf.id3Header t with
      | .ok h => .ok (some h.size)
      | .error .noHeader => .ok none
      | .error _ => .error .mutagen) :=
  Dsf.headerSize_id3Header t

/-! ### escape paths (what the hypotheses exclude) -/

/-- ValueError, `v2_version=5`: the caller's argument -/
example : Dsf.saveX Dsf.exampleLayout.render 5 [] (fun _ _ => 0) = .error .value := by decide +kernel

/-- a tag with the extended-header flag at the pointer (v2.4, extended header of 6 bytes): `ID3Header`
accepts it, the tag is 22 bytes long, and keeping the offered padding leaves the file 50 bytes long -/
example : (match Dsf.save (Dsf.dsdChunk 50 28 ++ [0x49, 0x44, 0x33, 4, 0, 0x40, 0, 0, 0, 12, 0, 0, 0, 6, 1, 0, 0, 0, 0, 0, 0, 0]) 4 []
      (.callback fun p _ => p) with | .ok out => out.length | .error _ => 0) = 50 := by decide +kernel

/-- where `save` says "outside the model" — a pointer behind the end of the file (negative
`PaddingInfo.size`) — `saveX` answers: the gap is zero-filled -/
example : Dsf.save (Dsf.dsdChunk 28 40) 4 [] .default = .error .notImplemented ∧
    Dsf.saveX (Dsf.dsdChunk 28 40) 4 [] (fun _ _ => 0) =
      .ok (Dsf.dsdChunk 50 40 ++ zeros 12 ++ [0x49, 0x44, 0x33, 4, 0, 0, 0, 0, 0, 0]) := by decide +kernel

/-! ### damaged inputs that are rejected with MutagenError -/

/-- too short for the DSD chunk -/
example : Dsf.load [0x44, 0x53, 0x44, 0x20] = .error .mutagen ∧ Dsf.delete [] = .error .mutagen ∧
    Dsf.saveX [1, 2, 3] 4 [] (fun _ _ => 0) = .error .mutagen := by decide +kernel

/-- a metadata pointer that is no possible file offset (2^63) -/
example : Dsf.saveX (Dsf.dsdChunk 106 (2 ^ 63) ++ Dsf.exampleLayout.render.drop 28) 4 [] (fun _ _ => 0) = .error .mutagen ∧
    Dsf.load (Dsf.dsdChunk 106 (2 ^ 63) ++ Dsf.exampleLayout.render.drop 28) = .error .mutagen := by decide +kernel

/-- fmt chunk with format version 2: load and delete refuse (save does not look at it) -/
example : Dsf.delete (Dsf.exampleLayout.render.take 40 ++ [2] ++ Dsf.exampleLayout.render.drop 41) = .error .mutagen ∧
    Dsf.load (Dsf.exampleLayout.render.take 40 ++ [2] ++ Dsf.exampleLayout.render.drop 41) = .error .mutagen := by
  decide +kernel

/-- ID3v2.5 at the pointer: save refuses (ID3UnsupportedVersionError); load goes looking for ID3v1 -/
example : Dsf.saveX (Dsf.exampleLayout.render.take 97 ++ [5] ++ Dsf.exampleLayout.render.drop 98) 4 [] (fun _ _ => 0) = .error .mutagen ∧
    Dsf.load (Dsf.exampleLayout.render.take 97 ++ [5] ++ Dsf.exampleLayout.render.drop 98) = .ok (.searchV1 true) := by
  decide +kernel

/-- extended-header flag set, but the file ends inside the extended header (`read_full`: IOError → error) -/
example : Dsf.load (Dsf.exampleLayout.render.take 99 ++ [0x40] ++ Dsf.exampleLayout.render.drop 100) = .error .mutagen ∧
    Dsf.saveX (Dsf.exampleLayout.render.take 99 ++ [0x40] ++ Dsf.exampleLayout.render.drop 100) 4 [] (fun _ _ => 0) = .error .mutagen := by
  decide +kernel

/-- the tag claims more bytes than the file has: load refuses (`read_full`) -/
example : Dsf.load (Dsf.exampleLayout.render.take 103 ++ [9] ++ Dsf.exampleLayout.render.drop 104) = .error .mutagen := by
  decide +kernel

/-- a padding callback answering -1: "invalid padding" -/
example : Dsf.saveX Dsf.exampleLayout.render 4 [] (fun _ _ => -1) = .error .mutagen := by decide +kernel

end Mutagen.C04
