/-
Props/C19_Dsf.lean — C19 "Running out of space while growing" for DSF files (mutagen/dsf.py; the program:
Model/Container/DsfM.lean).  The ID3 tag is the end of the file: `_DSFID3.save` does not enlarge anything
before it overwrites — it writes the new tag over the old one at the metadata pointer (for a file without
tag: after having written the pointer into the DSD chunk) and truncates behind it.  So the file is not
byte-identical after ENOSPC in general; what holds is stated here: for EVERY capacity and every leak
(`Quiet e`), the DSD chunk apart from its pointer field, the fmt chunk and the data chunk are untouched,
and so is the whole file when the failing write leaves nothing behind and there was a tag.
-/
import MutagenModel.Proofs.Container.DsfCap
set_option linter.unusedVariables false
namespace Mutagen.C19
open Mutagen

/-- the padding policy as the function of the two offered integers that `saveM` takes -/
abbrev dsfAns (pad : PadChoice) : Int → Int → Int := fun a z => getPadding pad a z.toNat

/-- refinement: without faults and without a capacity limit the file-operation program leaves exactly the
bytes the pure model `Dsf.save` returns — everything proved about `Dsf.save` (C02, C03, C07, C08, C09) is a
statement about what the sequence of seeks, reads, writes and the truncate leaves in the file -/
theorem dsf_saveM_refines {e : Env} (hq : Quiet e) (hcap : e.cap = none) (L : Dsf.Layout) (h : L.OK) (vmaj : Nat)
    (hvm : vmaj = 3 ∨ vmaj = 4) (frames : Bytes) (pad : PadChoice) (p : Nat)
    (hp : getPadding pad ((L.tag.length : Int) - (frames.length + 10 : Nat)) 0 = p) (hfit : frames.length + p < 2 ^ 28)
    (s : FS) (hs : s.data = L.render) (hpos : s.pos ≤ s.data.length) :
    ∃ s', Dsf.saveM vmaj frames (dsfAns pad) e s = (.ok (), s') ∧ Dsf.save L.render vmaj frames pad = .ok s'.data := by
  obtain ⟨hd, hh, _, hcase⟩ := Dsf.saveM_q hq L h vmaj hvm frames (dsfAns pad) p (by simpa [dsfAns] using hp) hfit s hs hpos
  obtain ⟨hd2, hh2, _, hsave⟩ := Dsf.save_layout L h vmaj hvm frames pad p hp hfit
  have : hd2 = hd := by rw [hh] at hh2; cases hh2; rfl
  subst this
  rcases hcase with ⟨s', r, d⟩ | ⟨hc, _⟩
  · exact ⟨s', r, by rw [hsave, d]⟩
  · exact absurd hcap hc

/-- DSF save on a device that may run full, for every capacity and every leak: the save completes with the
pure result (the layout with the new tag `hd ++ frames ++ zeros p`), or it ends in ENOSPC while the new tag
is being written over the old one, and then the file is: the DSD chunk with the OLD total size and the
pointer to the tag position (a file that had no tag has got this pointer already — the only byte change in
front of the tag), the fmt chunk and the data chunk untouched, and the old tag region overwritten from its
start by the `k ≤ leak` bytes of the new tag that reached the file, longer than before if `k` exceeds it.
NOT "enlarge first": nothing is enlarged before the overwrite; the payload is intact, the tag region may
not be. -/
theorem dsf_save_enlarge_first {e : Env} (hq : Quiet e) (L : Dsf.Layout) (h : L.OK) (vmaj : Nat) (hvm : vmaj = 3 ∨ vmaj = 4)
    (frames : Bytes) (ans : Int → Int → Int) (p : Nat)
    (hp : ans ((L.tag.length : Int) - (frames.length + 10 : Nat)) 0 = p) (hfit : frames.length + p < 2 ^ 28)
    (s : FS) (hs : s.data = L.render) (hpos : s.pos ≤ s.data.length) :
    ∃ hd, Id3F.header vmaj (frames.length + p) = .ok hd ∧
      ((∃ s', Dsf.saveM vmaj frames ans e s = (.ok (), s') ∧ s'.data = (L.withTag (hd ++ frames ++ zeros p)).render) ∨
       (∃ s' k, Dsf.saveM vmaj frames ans e s = (.error .enospc, s') ∧ k ≤ e.leak (10 + frames.length + p) ∧
          s'.data = Dsf.dsdChunk L.total L.tagPos ++ L.fmt ++ L.data ++ writeData L.tag 0 ((hd ++ frames ++ zeros p).take k))) := by
  obtain ⟨hd, hh, _, hcase⟩ := Dsf.saveM_q hq L h vmaj hvm frames ans p hp hfit s hs hpos
  refine ⟨hd, hh, ?_⟩
  rcases hcase with h1 | ⟨_, h2⟩
  · exact Or.inl h1
  · exact Or.inr h2

/-- … in particular the audio payload is intact after ENOSPC: the first 20 bytes (chunk id, chunk size, total
size) and the fmt and data chunk are what they were -/
theorem dsf_save_enospc_payload_intact {e : Env} (hq : Quiet e) (L : Dsf.Layout) (h : L.OK) (vmaj : Nat) (hvm : vmaj = 3 ∨ vmaj = 4)
    (frames : Bytes) (ans : Int → Int → Int) (p : Nat)
    (hp : ans ((L.tag.length : Int) - (frames.length + 10 : Nat)) 0 = p) (hfit : frames.length + p < 2 ^ 28)
    (s s' : FS) (hs : s.data = L.render) (hpos : s.pos ≤ s.data.length) (x : PyErr)
    (hr : Dsf.saveM vmaj frames ans e s = (.error x, s')) :
    x = .enospc ∧ s'.data.take 20 = s.data.take 20 ∧
      readAt s'.data 28 (L.fmt.length + L.data.length) = L.fmt ++ L.data ∧
      readAt s.data 28 (L.fmt.length + L.data.length) = L.fmt ++ L.data := by
  obtain ⟨hd, hh, _, hcase⟩ := Dsf.saveM_q hq L h vmaj hvm frames ans p hp hfit s hs hpos
  rcases hcase with ⟨s2, r2, _⟩ | ⟨_, s2, k, r2, _, d2⟩
  · rw [r2] at hr; injection hr with h1 _; cases h1
  · rw [r2] at hr
    injection hr with h1 h2
    injection h1 with h1
    subst h1; subst h2
    refine ⟨rfl, ?_, ?_, by rw [hs]; exact Dsf.render_chunks L⟩
    · have e1 : ∀ q T, (Dsf.dsdChunk L.total q ++ T).take 20 = Dsf.magicDSD ++ toLE 8 Dsf.dsdSize ++ toLE 8 L.total := by
        intro q T
        have : (Dsf.magicDSD ++ toLE 8 Dsf.dsdSize ++ toLE 8 L.total).length = 20 := by simp [Dsf.magicDSD]
        unfold Dsf.dsdChunk
        rw [List.append_assoc _ (toLE 8 q) T]
        exact List.take_left' this
      rw [d2, hs, Dsf.Layout.render]
      simp only [List.append_assoc]
      rw [e1, e1]
    · rw [d2]
      rw [show Dsf.dsdChunk L.total L.tagPos ++ L.fmt ++ L.data ++ writeData L.tag 0 ((hd ++ frames ++ zeros p).take k) =
        Dsf.dsdChunk L.total L.tagPos ++ ((L.fmt ++ L.data) ++ writeData L.tag 0 ((hd ++ frames ++ zeros p).take k)) by
          simp [List.append_assoc], Dsf.readAt_right _ _ 28 0 _ (by simp)]
      exact Dsf.readAt_zero_left _ _ _ (by simp)

/-- … and when the failing write leaves nothing in the file (`leak = 0`) and the file had a tag, the file is
byte-identical, length included, to what it was -/
theorem dsf_save_enospc_identical_without_leak {e : Env} (hq : Quiet e) (hleak : ∀ n, e.leak n = 0) (L : Dsf.Layout) (h : L.OK)
    (htag : L.tag ≠ []) (vmaj : Nat) (hvm : vmaj = 3 ∨ vmaj = 4)
    (frames : Bytes) (ans : Int → Int → Int) (p : Nat)
    (hp : ans ((L.tag.length : Int) - (frames.length + 10 : Nat)) 0 = p) (hfit : frames.length + p < 2 ^ 28)
    (s s' : FS) (hs : s.data = L.render) (hpos : s.pos ≤ s.data.length) (x : PyErr)
    (hr : Dsf.saveM vmaj frames ans e s = (.error x, s')) : s'.data = s.data := by
  obtain ⟨hd, hh, _, hcase⟩ := Dsf.saveM_q hq L h vmaj hvm frames ans p hp hfit s hs hpos
  rcases hcase with ⟨s2, r2, _⟩ | ⟨_, s2, k, r2, hk, d2⟩
  · rw [r2] at hr; injection hr with h1 _; cases h1
  · rw [r2] at hr
    injection hr with _ h2
    subst h2
    have hk0 : k = 0 := by rw [hleak] at hk; omega
    rw [d2, hk0, hs]
    have : L.pointer = L.tagPos := by simp [Dsf.Layout.pointer, htag]
    simp [Dsf.Layout.render, this, Dsf.writeData_nil]

/-- at the entry point the ENOSPC is the module's error -/
theorem dsf_save_entry_enospc {e : Env} (s s' : FS) (vmaj : Nat) (frames : Bytes) (ans : Int → Int → Int)
    (hr : Dsf.saveM vmaj frames ans e s = (.error .enospc, s')) :
    Dsf.saveEntry vmaj frames ans e s = (.error .mutagen, s') := by
  unfold Dsf.saveEntry convertError
  rw [hr]; rfl

/-- DSF delete never runs out of space: it only writes inside the file and truncates; for every capacity it
completes and leaves the layout without its tag -/
theorem dsf_delete_never_enospc {e : Env} (hq : Quiet e) (L : Dsf.Layout) (h : L.OK) (method : Bool) (s : FS)
    (hs : s.data = L.render) (h0 : s.pos = 0) :
    ∃ s', Dsf.deleteM method e s = (.ok (), s') ∧ s'.data = (L.withTag []).render ∧
      Dsf.delete L.render = .ok s'.data := by
  obtain ⟨s', r, d⟩ := Dsf.deleteM_q hq L h method s hs h0
  exact ⟨s', r, d, by rw [Dsf.delete_layout L h, d]⟩

/-! non-vacuity: on a full device the ENOSPC branch really occurs — the 106-byte example file (12-byte tag),
5 bytes of frames, no padding: the new tag has 15 bytes -/

/-- nothing of the failing write reaches the file: MutagenError, the file is what it was -/
example : (Dsf.saveEntry 4 [1, 2, 3, 4, 5] (fun _ _ => 0) { cap := some 106 } { data := Dsf.exampleLayout.render }).1 = .error .mutagen ∧
    (Dsf.saveEntry 4 [1, 2, 3, 4, 5] (fun _ _ => 0) { cap := some 106 } { data := Dsf.exampleLayout.render }).2.data =
      Dsf.exampleLayout.render := by decide +kernel

/-- 10 bytes of it reach the file: the old tag has the new tag's header (which announces 5 bytes where 2 are) -/
example : (Dsf.saveEntry 4 [1, 2, 3, 4, 5] (fun _ _ => 0) { cap := some 106, leak := fun _ => 10 } { data := Dsf.exampleLayout.render }).2.data =
      Dsf.exampleLayout.render.take 94 ++ [0x49, 0x44, 0x33, 4, 0, 0, 0, 0, 0, 5] ++ [7, 7] := by decide +kernel

/-- a file without tag: after ENOSPC the pointer field says 94 = the length of the file -/
example : (Dsf.saveEntry 4 [1, 2, 3, 4, 5] (fun _ _ => 0) { cap := some 100 } { data := (Dsf.exampleLayout.withTag []).render }).1 = .error .mutagen ∧
    (Dsf.saveEntry 4 [1, 2, 3, 4, 5] (fun _ _ => 0) { cap := some 100 } { data := (Dsf.exampleLayout.withTag []).render }).2.data =
      Dsf.dsdChunk 94 94 ++ (Dsf.exampleLayout.withTag []).render.drop 28 := by decide +kernel

example : Quiet { cap := some 106, leak := fun _ => 10 } ∧ Dsf.exampleLayout.OK := ⟨⟨fun _ => rfl, fun _ => rfl⟩, Dsf.exampleLayout_ok⟩

end Mutagen.C19
