/-
Props/C16_EasyId3.lean — C16 for `EasyID3` (model: Model/DictEasyId3.lean, tie:
harness/dict_tie_x.py kind `easyid3`).

The model covers the whole class (all 57 registered keys: text, TXXX, genre, date,
originaldate, `performer:*`, musicbrainz_trackid, website, `replaygain_*_gain|peak`; `keys()`
with the two listers; the native `ID3` as a dict HashKey → frame) and is tied to the real
object operation by operation, native frames included.  What is PROVED is the part of the view
that follows mapping semantics and that has been reached so far: the 53 keys whose handler reads
and writes one frame under a fixed HashKey (`eiPlain`: text, TXXX, genre, date, originaldate,
musicbrainz_trackid), `website` (one WOAR frame per URL; read-back = first occurrences),
`performer:<role>` for every role that `str.lower()` leaves alone (all roles live in one TMCL
frame: set replaces the role's entries, delete removes them and the frame when it is empty),
plus every unregistered / non-`str` key (`KeyError`).  The guard `eiGoodKey` answers the
remaining keys — `replaygain_*` and `performer:<Mixed Case>` — "outside" (`PyErr.notImplemented`) in the guarded store `easyId3ImplG` and
in the policy alike; on operation sequences that mention good keys only, the guarded store, the
plain model `easyId3Impl` and the real object with its residues `easyId3Run` produce the same
outputs (`easyid3_run_congr`, `easyid3_real_run_congr`), so `easyid3_trace_equiv_partial` speaks
about the unguarded store.  The hypotheses, and why:

* no `replaygain_*` key — gain and peak share one RVA2 frame: setting one makes the other
  appear, deleting one leaves it (`easyid3_replaygain_coupling_witness`), deleting an absent
  one does not raise, a rejected value leaves an empty frame behind
  (`easyid3_rejected_gain_residue_witness`), the description `*` is listed twice
  (`easyid3_keys_duplicate_witness`).  Excluding only gain/peak PAIRS with one description, as
  planned, is not enough: the lone `replaygain_x_gain` already makes `replaygain_x_peak` appear.
* `performer:<role>` only with a role that `str.lower()` leaves alone — the key is matched
  lower-cased but the handler gets the role as typed (`easyid3_glob_case_witness`).
* values: no hypothesis is needed for the refinement (what the setter refuses, the policy
  refuses with the same class; shapes outside the model's domain are "outside" on both sides);
  "only KeyError/TypeError/ValueError" fails for non-`str` items
  (`easyid3_attribute_error_witness`).
-/
import MutagenModel.Proofs.DictEasyId3
import MutagenModel.Props.C16_K
set_option linter.unusedVariables false
namespace Mutagen.C16
open Mutagen Mutagen.Dict

/-- PARTIAL (hypothesis: `eiGoodKey`, built into `easyId3ImplG` / `easyId3PolicyG`): the
single-frame part of `EasyID3` refines the reference dictionary whose policy is — a `str` key
whose lower-cased form is registered is filed under the registered key, any other key is a
`KeyError` on every access; `view[k] = v` raises what the setter raises, else stores what a
fresh `EasyID3` reads back after the same assignment.  Invariant `EasyId3Inv` (unique HashKeys,
every frame of the shape its HashKey calls for); abstraction: the view's own items
(`viewAbs`: `keys()` with `__getitem__`). -/
theorem easyid3_refines_partial :
    KRefines easyId3ImplG easyId3PolicyG EasyId3Inv (viewAbs easyId3ImplG) :=
  easyid3_refines_aux

/-- on good keys the guarded store is the model of the class -/
theorem easyid3_guard_exact (s : Id3) (k : PKey) (v : PVal) (h : eiGoodKey k = true) :
    easyId3ImplG.getitem s k = easyId3Impl.getitem s k ∧ easyId3ImplG.setitem s k v = easyId3Impl.setitem s k v ∧
      easyId3ImplG.delitem s k = easyId3Impl.delitem s k ∧ easyId3ImplG.keys s = easyId3Impl.keys s := by
  simp [easyId3ImplG, easyId3Impl, h]

/-- RUN CONGRUENCE: on operation sequences that mention good keys only (`Op.keysOf`), from any
state satisfying the invariant, the guarded store and the model of the class produce the same
outputs and end in the same native tags -/
theorem easyid3_run_congr (ops : List (Op PKey PVal)) (s : Id3) (hs : EasyId3Inv s)
    (hops : ∀ op ∈ ops, ∀ k ∈ Op.keysOf op, eiGoodKey k = true) :
    easyId3Impl.run ops s = easyId3ImplG.run ops s ∧ easyId3Impl.exec ops s = easyId3ImplG.exec ops s :=
  have h := easyid3_run_congr_aux ops s hs hops
  ⟨h.1.symm, h.2.symm⟩

/-- … and so does the real object, whose raising `__setitem__` can leave residues
(`easyId3Step` / `easyId3Run`): on good keys there are none -/
theorem easyid3_real_run_congr (ops : List (Op PKey PVal)) (s : Id3) (hs : EasyId3Inv s)
    (hops : ∀ op ∈ ops, ∀ k ∈ Op.keysOf op, eiGoodKey k = true) :
    easyId3Run ops s = easyId3Impl.run ops s := by
  rw [easyid3_real_run_congr_aux ops s hs hops, (easyid3_run_congr_aux ops s hs hops).1]

/-- PARTIAL (hypothesis: only good keys are mentioned): a fresh `EasyID3()`, the UNGUARDED
model of the class: the reference accepts its outputs, operation by operation -/
theorem easyid3_trace_equiv_partial (ops : List (Op PKey PVal))
    (hops : ∀ op ∈ ops, ∀ k ∈ Op.keysOf op, eiGoodKey k = true) :
    KAccepts easyId3PolicyG [] ops (easyId3Impl.run ops []) ∧ KAccepts easyId3PolicyG [] ops (easyId3Run ops []) := by
  have h := ktrace_sim easyid3_refines_aux ops [] [] easyId3Inv_nil (fun _ => rfl) List.nodup_nil
  rw [easyid3_real_run_congr ops [] easyId3Inv_nil hops, (easyid3_run_congr ops [] easyId3Inv_nil hops).1]
  exact ⟨h, h⟩

/-- on good keys the guarded policy is the documented policy -/
theorem easyid3_policy_guard_exact (k : PKey) (v : PVal) (h : eiGoodKey k = true) :
    easyId3PolicyG.norm k = easyId3Policy.norm k ∧ easyId3PolicyG.coerce k v = easyId3Policy.coerce k v := by
  simp [easyId3PolicyG, h]

/-- the invariant holds along every run of the guarded store -/
theorem easyid3_inv_along_run (ops : List (Op PKey PVal)) : EasyId3Inv (easyId3ImplG.exec ops []) :=
  kexec_inv easyid3_refines_aux ops [] easyId3Inv_nil

/-- under the invariant the real `keys()` (which passes on any getter exception other than
`KeyError`) does not raise and is the model's total `easyId3Keys` -/
theorem easyid3_keys_total (s : Id3) (hs : EasyId3Inv s) : easyId3KeysE s = .ok (easyId3Keys s) :=
  easyId3KeysE_inv s hs

/-- CONSISTENCY, set: a successful `view[k] = v` on a good key is either `native[HashKey] =
frame` (single-frame entries; the frame is what the entry's setter makes of the value), or, for
`website`, "all `WOAR:…` frames go, one `WOAR:<url>` frame per URL is added", or, for
`performer:<role>`, a new TMCL frame under `TMCL` -/
theorem easyid3_set_native (s s' : Id3) (k : PKey) (v : PVal) (h : easyId3ImplG.setitem s k v = .ok s') :
    ∃ e kt, eiEntryOf k = some (e, kt) ∧
      ((∃ hk f, hkOf e = some hk ∧ eiPlain e = true ∧ slotFrame e v = .ok f ∧ s' = insert hk f s) ∨
       (e.kind = .website ∧ ∃ l, s' = woarPut l (delallPrefix pWOAR s)) ∨
       (e = perfEntry ∧ ∃ f, s' = insert kTMCL f s)) :=
  easySetG_native s s' k v h

/-- CONSISTENCY, delete: `del native[HashKey]`, resp. `native.delall("WOAR")`, resp. TMCL
rewritten without the role or deleted -/
theorem easyid3_del_native (s s' : Id3) (k : PKey) (h : easyId3ImplG.delitem s k = .ok s') :
    ∃ e kt, eiEntryOf k = some (e, kt) ∧
      ((∃ hk, hkOf e = some hk ∧ eiPlain e = true ∧ s' = erase hk s) ∨
       (e.kind = .website ∧ s' = delallPrefix pWOAR s) ∨
       (e = perfEntry ∧ (s' = erase kTMCL s ∨ ∃ f, s' = insert kTMCL f s))) :=
  easyDelG_native s s' k h

/-- CONSISTENCY, whole runs: whatever sequence of mapping operations runs on the guarded view,
from any native state, a frame whose HashKey no single-frame entry owns and that is neither a
`WOAR:…` frame nor `TMCL` is untouched -/
theorem easyid3_foreign_frames_untouched (ops : List (Op PKey PVal)) (s : Id3) (a : Text)
    (ha : a ∉ easyId3Owned) (hw : startsWith pWOAR a = false) (ht : a ≠ kTMCL) :
    lookup a (easyId3ImplG.exec ops s) = lookup a s :=
  easyG_foreign_untouched ops s a ha hw ht

/-! ### the deviations the hypotheses exclude (model = code; each checked by the tie) -/

/-- replaygain coupling: after `e["replaygain_album_gain"] = "+1.5 dB"` the key
`replaygain_album_peak` is there too (`"0.000000"`); after `…peak = "0.5"`, `del …gain` leaves
the gain key present with `+0.000000 dB`; `del` of an absent gain key does not raise -/
theorem easyid3_replaygain_coupling_witness :
    (easyId3Impl.run [.set (.str [114, 101, 112, 108, 97, 121, 103, 97, 105, 110, 95, 97, 108, 98, 117, 109, 95, 103, 97, 105, 110]) (.item (.prim (.str [43, 49, 46, 53, 32, 100, 66]))), .keys, .get (.str [114, 101, 112, 108, 97, 121, 103, 97, 105, 110, 95, 97, 108, 98, 117, 109, 95, 112, 101, 97, 107]), .set (.str [114, 101, 112, 108, 97, 121, 103, 97, 105, 110, 95, 97, 108, 98, 117, 109, 95, 112, 101, 97, 107]) (.item (.prim (.str [48, 46, 53]))), .del (.str [114, 101, 112, 108, 97, 121, 103, 97, 105, 110, 95, 97, 108, 98, 117, 109, 95, 103, 97, 105, 110]), .get (.str [114, 101, 112, 108, 97, 121, 103, 97, 105, 110, 95, 97, 108, 98, 117, 109, 95, 103, 97, 105, 110]), .del (.str [114, 101, 112, 108, 97, 121, 103, 97, 105, 110, 95, 97, 108, 98, 117, 109, 95, 103, 97, 105, 110]), .del (.str [114, 101, 112, 108, 97, 121, 103, 97, 105, 110, 95, 97, 108, 98, 117, 109, 95, 103, 97, 105, 110]),
                      .contains (.str [114, 101, 112, 108, 97, 121, 103, 97, 105, 110, 95, 97, 108, 98, 117, 109, 95, 103, 97, 105, 110])] []) =
      [.unit, .keys [(.str [114, 101, 112, 108, 97, 121, 103, 97, 105, 110, 95, 97, 108, 98, 117, 109, 95, 103, 97, 105, 110]), (.str [114, 101, 112, 108, 97, 121, 103, 97, 105, 110, 95, 97, 108, 98, 117, 109, 95, 112, 101, 97, 107])], .val (.list [.prim (.str [48, 46, 48, 48, 48, 48, 48, 48])]), .unit, .unit,
       .val (.list [.prim (.str [43, 48, 46, 48, 48, 48, 48, 48, 48, 32, 100, 66])]), .unit, .unit, .bool true] := by
  decide +kernel

/-- a rejected value leaves a frame behind: `e["replaygain_album_gain"] = "99999 dB"` raises
`ValueError`, and the native tags now hold an empty `RVA2:album` (the view shows both keys) -/
theorem easyid3_rejected_gain_residue_witness :
    (easyId3SetFull [] (.str [114, 101, 112, 108, 97, 121, 103, 97, 105, 110, 95, 97, 108, 98, 117, 109, 95, 103, 97, 105, 110]) (.item (.prim (.str [57, 57, 57, 57, 57, 32, 100, 66])))).1 = .error .value ∧
      easyId3SetResidue [] (.str [114, 101, 112, 108, 97, 121, 103, 97, 105, 110, 95, 97, 108, 98, 117, 109, 95, 103, 97, 105, 110]) (.item (.prim (.str [57, 57, 57, 57, 57, 32, 100, 66]))) = [([82, 86, 65, 50, 58, 97, 108, 98, 117, 109], .rva2 [97, 108, 98, 117, 109] 1 0 0)] := by
  decide +kernel

/-- the description `*`: `e["replaygain_*_gain"] = "1 dB"`; `keys()` lists `replaygain_*_peak` twice -/
theorem easyid3_keys_duplicate_witness :
    easyId3Keys (easyId3Impl.exec [.set (.str [114, 101, 112, 108, 97, 121, 103, 97, 105, 110, 95, 42, 95, 103, 97, 105, 110]) (.item (.prim (.str [49, 32, 100, 66])))] []) = [(.str [114, 101, 112, 108, 97, 121, 103, 97, 105, 110, 95, 42, 95, 103, 97, 105, 110]), (.str [114, 101, 112, 108, 97, 121, 103, 97, 105, 110, 95, 42, 95, 112, 101, 97, 107]), (.str [114, 101, 112, 108, 97, 121, 103, 97, 105, 110, 95, 42, 95, 112, 101, 97, 107])] := by
  decide +kernel

/-- glob keys are matched lower-cased but handled as typed: `e["performer:Guitar"] = "x"`, then
`e["performer:guitar"]` is a `KeyError` and `keys()` shows the typed spelling -/
theorem easyid3_glob_case_witness :
    easyId3Impl.run [.set (.str [112, 101, 114, 102, 111, 114, 109, 101, 114, 58, 71, 117, 105, 116, 97, 114]) (.item (.prim (.str [120]))), .get (.str [112, 101, 114, 102, 111, 114, 109, 101, 114, 58, 103, 117, 105, 116, 97, 114]), .keys, .get (.str [80, 69, 82, 70, 79, 82, 77, 69, 82, 58, 71, 85, 73, 84, 65, 82])] [] =
      [.unit, .err .key, .keys [(.str [112, 101, 114, 102, 111, 114, 109, 101, 114, 58, 71, 117, 105, 116, 97, 114])], .err .key] := by
  decide +kernel

/-- non-`str` items: `e["musicbrainz_trackid"] = [3]` and `e["replaygain_album_gain"] = [3]`
raise `AttributeError` -/
theorem easyid3_attribute_error_witness :
    easyId3Impl.setitem [] (.str [109, 117, 115, 105, 99, 98, 114, 97, 105, 110, 122, 95, 116, 114, 97, 99, 107, 105, 100]) (.list [.prim (.int 3)]) = .error .attribute ∧
      easyId3Impl.setitem [] (.str [114, 101, 112, 108, 97, 121, 103, 97, 105, 110, 95, 97, 108, 98, 117, 109, 95, 103, 97, 105, 110]) (.list [.prim (.int 3)]) = .error .attribute := by
  decide +kernel

/-! ### non-vacuity -/

example : EasyId3Inv [] := easyId3Inv_nil
example : eiGoodKey (.str [116, 105, 116, 108, 101]) = true ∧ eiGoodKey (.str [114, 101, 112, 108, 97, 121, 103, 97, 105, 110, 95, 97, 108, 98, 117, 109, 95, 103, 97, 105, 110]) = false ∧ eiGoodKey (.str [112, 101, 114, 102, 111, 114, 109, 101, 114, 58, 71, 117, 105, 116, 97, 114]) = false ∧ eiGoodKey (.int 3) = true := by
  decide +kernel

/-- "Title"="x" reads back ["x"] under any case; a date is normalised; trackid wants one ASCII
value; barcode is a TXXX frame; keys() in registry order; del; the native frames -/
example : easyId3ImplG.run
    [.set (.str [84, 105, 116, 108, 101]) (.item (.prim (.str [120]))), .get (.str [116, 105, 116, 108, 101]), .set (.str [100, 97, 116, 101]) (.item (.prim (.str [50, 48, 48, 52, 45, 48, 49, 45, 48, 50, 84, 48, 51]))), .get (.str [100, 97, 116, 101]), .set (.str [109, 117, 115, 105, 99, 98, 114, 97, 105, 110, 122, 95, 116, 114, 97, 99, 107, 105, 100]) (.list [(.prim (.str [120])), (.prim (.str [120]))]),
     .set (.str [109, 117, 115, 105, 99, 98, 114, 97, 105, 110, 122, 95, 116, 114, 97, 99, 107, 105, 100]) (.item (.prim (.str [120]))), .set (.str [98, 97, 114, 99, 111, 100, 101]) (.item (.prim (.str [120]))), .keys, .del (.str [116, 105, 116, 108, 101]), .contains (.str [84, 105, 116, 108, 101]), .get (.str [114, 101, 112, 108, 97, 121, 103, 97, 105, 110, 95, 97, 108, 98, 117, 109, 95, 103, 97, 105, 110]), .len] [] =
    [.unit, .val (.list [(.prim (.str [120]))]), .unit, .val (.list [.prim (.str [50, 48, 48, 52, 45, 48, 49, 45, 48, 50, 32, 48, 51])]), .err .value, .unit, .unit,
     .keys [(.str [116, 105, 116, 108, 101]), (.str [100, 97, 116, 101]), (.str [109, 117, 115, 105, 99, 98, 114, 97, 105, 110, 122, 95, 116, 114, 97, 99, 107, 105, 100]), (.str [98, 97, 114, 99, 111, 100, 101])], .unit, .bool false, .err .notImplemented, .nat 3] := by
  decide +kernel

/-- website: three URLs, one twice: read back as first occurrences; the native tags hold one
WOAR frame per URL; `[]` removes the key; deleting the absent key is a `KeyError` -/
example : easyId3Impl.run
    [.set (.str [119, 101, 98, 115, 105, 116, 101]) (.list [(.prim (.str [104, 116, 116, 112, 58, 47, 47, 97])), (.prim (.str [104, 116, 116, 112, 58, 47, 47, 98])), (.prim (.str [104, 116, 116, 112, 58, 47, 47, 97]))]), .get (.str [87, 101, 98, 83, 105, 116, 101]), .keys, .set (.str [119, 101, 98, 115, 105, 116, 101]) (.list []), .contains (.str [119, 101, 98, 115, 105, 116, 101]),
     .del (.str [119, 101, 98, 115, 105, 116, 101])] [] =
    [.unit, .val (.list [(.prim (.str [104, 116, 116, 112, 58, 47, 47, 97])), (.prim (.str [104, 116, 116, 112, 58, 47, 47, 98]))]), .keys [(.str [119, 101, 98, 115, 105, 116, 101])], .unit, .bool false, .err .key] ∧
    easyId3Impl.exec [.set (.str [119, 101, 98, 115, 105, 116, 101]) (.list [(.prim (.str [104, 116, 116, 112, 58, 47, 47, 97])), (.prim (.str [104, 116, 116, 112, 58, 47, 47, 98])), (.prim (.str [104, 116, 116, 112, 58, 47, 47, 97]))])] [] =
      [([87, 79, 65, 82, 58, 104, 116, 116, 112, 58, 47, 47, 97], .woar [104, 116, 116, 112, 58, 47, 47, 97]), ([87, 79, 65, 82, 58, 104, 116, 116, 112, 58, 47, 47, 98], .woar [104, 116, 116, 112, 58, 47, 47, 98])] ∧ eiGoodKey (.str [119, 101, 98, 115, 105, 116, 101]) = true := by
  decide +kernel

/-- performer: two roles in one TMCL frame; the prefix may be typed in any case; replacing one
role keeps the other; `[]` removes a role; deleting the last role removes the frame -/
example : easyId3Impl.run
    [.set (.str [112, 101, 114, 102, 111, 114, 109, 101, 114, 58, 103, 117, 105, 116, 97, 114]) (.list [(.prim (.str [97, 110, 110])), (.prim (.str [98, 111, 98]))]), .set (.str [80, 69, 82, 70, 79, 82, 77, 69, 82, 58, 118, 111, 99, 97, 108, 115]) (.item (.prim (.str [99, 121]))), .get (.str [112, 101, 114, 102, 111, 114, 109, 101, 114, 58, 103, 117, 105, 116, 97, 114]), .get (.str [112, 101, 114, 102, 111, 114, 109, 101, 114, 58, 118, 111, 99, 97, 108, 115]), .keys,
     .set (.str [112, 101, 114, 102, 111, 114, 109, 101, 114, 58, 103, 117, 105, 116, 97, 114]) (.list []), .contains (.str [112, 101, 114, 102, 111, 114, 109, 101, 114, 58, 103, 117, 105, 116, 97, 114]), .del (.str [112, 101, 114, 102, 111, 114, 109, 101, 114, 58, 118, 111, 99, 97, 108, 115]), .del (.str [112, 101, 114, 102, 111, 114, 109, 101, 114, 58, 118, 111, 99, 97, 108, 115])] [] =
    [.unit, .unit, .val (.list [(.prim (.str [97, 110, 110])), (.prim (.str [98, 111, 98]))]), .val (.list [(.prim (.str [99, 121]))]), .keys [(.str [112, 101, 114, 102, 111, 114, 109, 101, 114, 58, 103, 117, 105, 116, 97, 114]), (.str [112, 101, 114, 102, 111, 114, 109, 101, 114, 58, 118, 111, 99, 97, 108, 115])], .unit, .bool false, .unit,
     .err .key] ∧
    easyId3Impl.exec [.set (.str [112, 101, 114, 102, 111, 114, 109, 101, 114, 58, 103, 117, 105, 116, 97, 114]) (.list [(.prim (.str [97, 110, 110])), (.prim (.str [98, 111, 98]))]), .set (.str [80, 69, 82, 70, 79, 82, 77, 69, 82, 58, 118, 111, 99, 97, 108, 115]) (.item (.prim (.str [99, 121]))), .set (.str [112, 101, 114, 102, 111, 114, 109, 101, 114, 58, 103, 117, 105, 116, 97, 114]) (.list []), .del (.str [112, 101, 114, 102, 111, 114, 109, 101, 114, 58, 118, 111, 99, 97, 108, 115])] [] = [] ∧
    eiGoodKey (.str [112, 101, 114, 102, 111, 114, 109, 101, 114, 58, 103, 117, 105, 116, 97, 114]) = true ∧ eiGoodKey (.str [80, 69, 82, 70, 79, 82, 77, 69, 82, 58, 118, 111, 99, 97, 108, 115]) = true ∧ eiGoodKey (.str [112, 101, 114, 102, 111, 114, 109, 101, 114, 58, 71, 117, 105, 116, 97, 114]) = false := by
  decide +kernel

end Mutagen.C16
