/-
Props/C06_OggInjectLoad.lean — C06 for LOADING an Ogg file (`OggVorbis(fileobj)`, `OggOpus`, `OggSpeex`,
`OggTheora`, `OggFLAC`): the program `loadM` of Model/Container/OggInjectLoadM.lean — `loadfile`'s probing
`read(0)`, then `OggFileType.load`: the info constructor's page scan, the tag constructor's page loop,
`_post_tags` → `OggPage.find_last`, every file-object call in the order of the code, inside the handlers of
`load` — in ARBITRARY fault environments: any exception injected at any call, a short read at any read.
Lemmas: Proofs/Container/OggInjectLoad.lean.

What is proved: load never writes; what can leave it (MutagenError, the probe's ValueError, the model's
non-termination marker — no IndexError, no EOFError, no struct.error); which exceptions the slow way of
`find_last` swallows (every `ogg.error` / EOFError a short read produces: the load then succeeds with an earlier
page as "last page", i.e. a wrong length — witness below); `ogg_loadM_refines`: without faults `loadM` returns
the pure `loadPure` on the bytes, for every byte string; the link of that pure load to the stream-info models
of Model/Info/OggCodecs.lean (`ogg_info_link`, `ogg_find_last_link`: the same functions), so that the C05
theorems speak about what `loadM` returns; and `ogg_save_reads_then_writes`: `save` / `delete` with their reads
as programs are the summarised `saveEntry` / `deleteEntry` run behind the reads.
-/
import MutagenModel.Proofs.Container.OggInjectLoadLink
import MutagenModel.Proofs.Container.OggInjectFull
set_option linter.unusedVariables false
namespace Mutagen.C06
open Mutagen Mutagen.Ogg Mutagen.OggInj

/-! ## Ogg: load as a program over the file object -/

/-- load never writes: in EVERY environment (faults, short reads) and whatever the outcome, the bytes of the
file are what they were -/
theorem ogg_load_leaves_file_untouched (c : Codec) (e : Env) (s : FS) (r : Except PyErr Loaded) (s' : FS)
    (h : loadM c e s = (r, s')) : s'.data = s.data :=
  Keeps.loadM c e s r s' h

/-- what leaves `OggX(fileobj)` under ANY fault environment: the format's error (MutagenError); ValueError
(`verify_fileobj` turns ANY failure of its probing `read(0)` into ValueError: the recorded finding
`escape:ValueError:_util.py:verify_fileobj`); or something the handlers of `load` do not catch — the model's
non-termination marker, or an exception the environment injected that is none of IOError, ogg.error, EOFError,
ValueError.  No IndexError (an incomplete page that `OggPage(fileobj)` returns holds a packet, whatever was
read: `post_readPageM`), no EOFError and no struct.error from a short read. -/
theorem ogg_load_raises_only (c : Codec) :
    Raises (fun e x => x = .mutagen ∨ x = .value ∨ ((x = .diverge ∨ Injected e x) ∧ loadCaught x = false)) (loadM c) :=
  raises_loadM c

/-- … and when every injected exception is an IOError: MutagenError or ValueError (the probe) — or the
model's marker for a loop that runs out of its bound (`diverge`; never produced by the driver in the tie) -/
theorem ogg_load_io_faults (c : Codec) (e : Env) (hio : ∀ i x, e.failAt i = some x → x.isIO = true) (s s' : FS) (x : PyErr)
    (h : loadM c e s = (.error x, s')) : x = .mutagen ∨ x = .value ∨ x = .diverge :=
  loadM_io_faults c e hio s s' x h

/-- the postcondition behind "no IndexError": in every environment, a page `OggPage(fileobj)` returns that is
incomplete holds a packet -/
theorem ogg_page_read_incomplete_has_packet (e : Env) (s : FS) (p : Page) (off : Nat) (s' : FS)
    (h : readPageM e s = (.ok (p, off), s')) : p.complete = false → p.packets ≠ [] :=
  post_readPageM e s (p, off) s' h

/-- `OggPage(fileobj)` itself under any environment: EOFError (nothing came back from `read(27)`), ogg.error
(anything else that is short or wrong), or what the file object raised -/
theorem ogg_page_read_raises_only : Raises (fun e x => x = .eof ∨ x = .mutagen ∨ Injected e x) readPageM :=
  raises_readPageM'

/-- SHORT READS TAKEN FOR THE END OF THE STREAM: the slow way of `find_last` (`_post_tags` of every codec,
taken whenever the last page of the file is not the last page of the stream) catches `ogg.error` and EOFError
and returns the best page so far.  So under every environment the loop raises only what the file object
itself raised; every read in it — `read(27)`, the lacing values, each packet — that comes back short ends the
search silently, and the length is computed from an earlier page. -/
theorem ogg_find_last_swallows (serial fuel : Nat) (best : Option Page) :
    Raises (fun e x => (Injected e x ∧ x ≠ .mutagen ∧ x ≠ .eof) ∨ x = .diverge) (slowLastM serial fuel best) :=
  raises_slowLastM serial fuel best

/-- without faults (whatever the capacity) the page loops of the three constructors return what the pure
functions return on the bytes, from the position the file object is at, and leave the position behind the
last page read: the scan for a page, … -/
theorem ogg_scan_refines {e : Env} (hq : Quiet e) (pred : Page → Bool) (fuel : Nat) (s : FS) (hp : s.pos ≤ s.data.length) :
    (∀ x, scanFrom s.data pred fuel s.pos = .error x → ∃ s', scanM pred fuel e s = (.error x, s') ∧ s'.data = s.data) ∧
    (∀ r next, scanFrom s.data pred fuel s.pos = .ok (r, next) →
      ∃ s', scanM pred fuel e s = (.ok (r.page, r.offset), s') ∧ s'.data = s.data ∧ s'.pos = next ∧ next ≤ s.data.length) :=
  scanM_q hq pred fuel s hp

/-- … the tag constructors' loop, the Opus collecting loop and the slow way of `find_last` -/
theorem ogg_page_loops_refine {e : Env} (hq : Quiet e) (serial fuel : Nat) (s : FS) (hp : s.pos ≤ s.data.length) :
    (∀ acc, ∃ s', readLoopM serial fuel acc e s = (readLoop s.data serial fuel acc s.pos, s') ∧ s'.data = s.data) ∧
    (∀ acc last, ∃ s', collectM serial fuel (acc.map (·.page)) last e s =
        ((collect s.data serial fuel acc last s.pos).map (fun rs => rs.map (·.page)), s') ∧ s'.data = s.data) ∧
    (∀ best, ∃ s', slowLastM serial fuel best e s = (slowLastP s.data serial fuel s.pos best, s') ∧ s'.data = s.data) :=
  ⟨fun acc => readLoopM_q hq serial fuel acc s hp, fun acc last => collectM_q hq serial fuel acc last s hp,
   fun best => slowLastM_q hq serial fuel best s hp⟩

/-- WITHOUT FAULTS (any capacity), from position 0: `OggX(fileobj)` returns what the pure load returns on the
bytes of the file — identification page, comment data, padding, preserved data, the page the length is computed
from, or the exception — and the file is what it was.  For EVERY byte string. -/
theorem ogg_loadM_refines {e : Env} (hq : Quiet e) (c : Codec) (s : FS) (hp0 : s.pos = 0) :
    ∃ s', loadM c e s = (loadPure c s.data, s') ∧ s'.data = s.data :=
  loadM_q hq c s hp0

/-- the pure load and the stream-info models of Model/Info/OggCodecs.lean are the same functions on every byte
string: each `Info.<Codec>.init f` is "find the page (`infoFound`, what `infoP` / `loadM` find), decode it"
(`*OfPage`: the text of `init` behind its page search) … -/
theorem ogg_info_link (f : Bytes) :
    (Info.Vorbis.init f = match infoFound .vorbis f with | .error e => .error e | .ok (page, _) => vorbisOfPage page) ∧
    (Info.Opus.init f = match infoFound .opus f with | .error e => .error e | .ok (page, _) => opusOfPage page) ∧
    (Info.Speex.init f = match infoFound .speex f with | .error e => .error e | .ok (page, _) => speexOfPage page) ∧
    (Info.Theora.init f = match infoFound .theora f with | .error e => .error e | .ok (page, _) => theoraOfPage page) ∧
    (Info.OggFlac.init f = match infoFound .flac f with | .error e => .error e | .ok (page, _) => flacOfPage page) :=
  ⟨vorbis_init_link f, opus_init_link f, speex_init_link f, theora_init_link f, flac_init_link f⟩

/-- … `idCheck` (the raise conditions `loadM` applies to that page) fails exactly when the decoding fails, with
the same exception, and answers "total_samples = 0" for Ogg FLAC … -/
theorem ogg_idcheck_link (page : Page) :
    idCheck .vorbis page = (vorbisOfPage page).map (fun _ => true) ∧
    idCheck .opus page = (opusOfPage page).map (fun _ => true) ∧
    idCheck .speex page = (speexOfPage page).map (fun _ => true) ∧
    idCheck .theora page = (theoraOfPage page).map (fun _ => true) ∧
    idCheck .flac page = (flacOfPage page).map (fun i => decide (i.totalSamples = 0)) :=
  idCheck_link page

/-- … and `findLastP` (what `_post_tags` of `loadM` computes) is `Info.OggC.findLast`; the header search by
position is `findHeader` -/
theorem ogg_find_last_link (f : Bytes) (serial : Nat) (magic : Bytes) :
    findLastP f serial = Info.OggC.findLast f serial ∧
    Info.OggC.findHeader magic f = (scanFrom f (startsWith magic) (f.length + 1) 0).map fun x => x.1.page :=
  ⟨findLastP_link f serial, findHeader_scan magic f⟩

/-- READS-THEN-WRITES: `save` / `delete` with the search for the comment pages and `get_size` as programs
(Model/Container/OggInjectFullM.lean) — without faults the reads leave the bytes alone and the rest is exactly
the summarised `saveEntry` / `deleteEntry` of Props/C06_OggInject.lean / C19_OggInject.lean on those bytes, run
from the state the reads leave.  For EVERY byte string. -/
theorem ogg_save_reads_then_writes {e : Env} (hq : Quiet e) (B : Nat) (c : Codec) (vc vendor padData : Bytes) (pad : PadChoice) (s : FS) :
    (∃ s', s'.data = s.data ∧ saveFullM B c vc padData pad e s = saveEntry B c s.data vc padData pad e s') ∧
    (∃ s', s'.data = s.data ∧ deleteFullM B c vendor padData e s = deleteEntry B c s.data vendor padData e s') ∧
    (∃ s', commentPagesM c e s = (commentPages c s.data, s') ∧ s'.data = s.data) :=
  ⟨saveFullM_q hq B c vc padData pad s, deleteFullM_q hq B c vendor padData s, commentPagesM_q hq c s⟩

/-! instances, computed -/

namespace LoadExample
/-- a Vorbis identification page (44100 Hz), the comment page of the C02 example, two audio pages of stream 7
(granule positions 50 and 100, the second with the last flag) and a page of another stream at the end of the
file: `find_last` has to go the slow way -/
def idPage : Page := { packets := [magicVorbisId ++ [0, 0, 0, 0, 2, 0x44, 0xAC, 0, 0, 0, 0, 0, 0, 0, 0, 0, 0, 0, 0, 0, 0]],
                       serial := 7, sequence := 0, first := true }
def audio1 : Page := { packets := [[9, 9]], serial := 7, sequence := 2, position := 50 }
def audio2 : Page := { packets := [[8]], serial := 7, sequence := 3, last := true, position := 100 }
def other : Page := { packets := [[4]], serial := 9, sequence := 0, first := true, last := true, position := 5 }
def file : Bytes := renderPages [idPage, Example.commentPage, audio1, audio2, other]
end LoadExample

set_option maxRecDepth 100000 in
/-- the fault-free run returns what the pure load returns (stream 7, 4 bytes of padding, the page with
position 100), in 34 file-object calls, and leaves the file alone -/
example : (loadM .vorbis Env.clean { data := LoadExample.file }).1 = loadPure .vorbis LoadExample.file ∧
    ((loadM .vorbis Env.clean { data := LoadExample.file }).1.map fun l => (l.idPage.serial, l.padding, l.last.map (·.position))) =
      .ok (7, 4, some 100) ∧
    (loadM .vorbis Env.clean { data := LoadExample.file }).2.log.length = 34 ∧
    (loadM .vorbis Env.clean { data := LoadExample.file }).2.data = LoadExample.file := by
  decide +kernel

set_option maxRecDepth 100000 in
/-- WITNESS (short read taken for the end of the stream): the `read(27)` at call 31 — the header of the last
audio page, in the slow way of `find_last` — returns nothing: the load succeeds and reports the page with
position 50 as the last one (a length of 50/44100 s instead of 100/44100 s).  An IOError at the same call is
the format's error; an IOError at call 0 (the probe of `verify_fileobj`) is ValueError. -/
example :
    ((loadM .vorbis { shortAt := fun i => if i = 31 then some 0 else none } { data := LoadExample.file }).1.map
      fun l => l.last.map (·.position)) = .ok (some 50) ∧
    ((loadM .vorbis { failAt := fun i => if i = 31 then some .io else none } { data := LoadExample.file }).1.map
      fun l => l.padding) = .error .mutagen ∧
    ((loadM .vorbis { failAt := fun i => if i = 0 then some .io else none } { data := LoadExample.file }).1.map
      fun l => l.padding) = .error .value := by
  decide +kernel

end Mutagen.C06
