/-
Props/C06_OggInjectLoad.lean — C06 for LOADING an Ogg file (`OggVorbis(fileobj)`, `OggOpus`, `OggSpeex`,
`OggTheora`, `OggFLAC`): the program `loadM` of Model/Container/OggInjectLoadM.lean — `loadfile`'s probing
`read(0)`, then `OggFileType.load`: the info constructor's page scan, the tag constructor's page loop,
`_post_tags` → `OggPage.find_last`, every file-object call in the order of the code, inside the handlers of
`load` — in ARBITRARY fault environments: any exception injected at any call, a short read at any read.
Lemmas: Proofs/Container/OggInjectLoad.lean.

What is proved: load never writes; what can leave it; which exceptions the slow way of `find_last` swallows
(every `ogg.error` / EOFError a short read produces: the load then succeeds with an earlier page as "last
page", i.e. a wrong length — witness below); and, without faults, that the four page loops compute the pure
functions of Model/Container/OggInject.lean on the bytes (the whole-program statement `loadM = loadPure` is
checked on instances here and on every generated file by the tie, not proved in general).
-/
import MutagenModel.Proofs.Container.OggInjectLoad
set_option linter.unusedVariables false
namespace Mutagen.C06
open Mutagen Mutagen.Ogg Mutagen.OggInj

/-! ## Ogg: load as a program over the file object -/

/-- load never writes: in EVERY environment (faults, short reads) and whatever the outcome, the bytes of the
file are what they were -/
theorem ogg_load_leaves_file_untouched (c : Codec) (e : Env) (s : FS) (r : Except PyErr Loaded) (s' : FS)
    (h : loadM c e s = (r, s')) : s'.data = s.data :=
  Keeps.loadM c e s r s' h

/-- what leaves `OggX(fileobj)` under ANY fault environment: the format's error (MutagenError); ValueError
(`verify_fileobj` turns ANY failure of its probing `read(0)` into ValueError: the recorded finding
`escape:ValueError:_util.py:verify_fileobj`); or something the handlers of `load` do not catch — IndexError
(from `to_packets`; not excluded for pages read under faults, excluded on the bytes by the C04 closure), the
model's non-termination marker, or an exception the environment injected that is none of IOError, ogg.error,
EOFError, ValueError.  In particular no EOFError and no struct.error from a short read. -/
theorem ogg_load_raises_only (c : Codec) :
    Raises (fun e x => x = .mutagen ∨ x = .value ∨
      ((x = .index ∨ x = .diverge ∨ Injected e x) ∧ loadCaught x = false)) (loadM c) :=
  raises_loadM c

/-- … and when every injected exception is an IOError: MutagenError, ValueError (the probe), or the two
unreached ones -/
theorem ogg_load_io_faults (c : Codec) (e : Env) (hio : ∀ i x, e.failAt i = some x → x.isIO = true) (s s' : FS) (x : PyErr)
    (h : loadM c e s = (.error x, s')) : x = .mutagen ∨ x = .value ∨ x = .index ∨ x = .diverge :=
  loadM_io_faults c e hio s s' x h

/-- `OggPage(fileobj)` itself under any environment: EOFError (nothing came back from `read(27)`), ogg.error
(anything else that is short or wrong), or what the file object raised -/
theorem ogg_page_read_raises_only : Raises (fun e x => x = .eof ∨ x = .mutagen ∨ Injected e x) readPageM :=
  raises_readPageM'

/-- SHORT READS TAKEN FOR THE END OF THE STREAM: the slow way of `find_last` (`_post_tags` of every codec,
taken whenever the last page of the file is not the last page of the stream) catches `ogg.error` and EOFError
and returns the best page so far.  So under every environment the loop raises only what the file object
itself raised; every read in it — `read(27)`, the lacing values, each packet — that comes back short ends the
search silently, and the length is computed from an earlier page. -/
theorem ogg_find_last_swallows (serial fuel : Nat) (best : Option Page) :
    Raises (fun e x => (Injected e x ∧ x ≠ .mutagen ∧ x ≠ .eof) ∨ x = .diverge) (slowLastM serial fuel best) :=
  raises_slowLastM serial fuel best

/-- without faults (whatever the capacity) the page loops of the three constructors return what the pure
functions return on the bytes, from the position the file object is at, and leave the position behind the
last page read: the scan for a page, … -/
theorem ogg_scan_refines {e : Env} (hq : Quiet e) (pred : Page → Bool) (fuel : Nat) (s : FS) (hp : s.pos ≤ s.data.length) :
    (∀ x, scanFrom s.data pred fuel s.pos = .error x → ∃ s', scanM pred fuel e s = (.error x, s') ∧ s'.data = s.data) ∧
    (∀ r next, scanFrom s.data pred fuel s.pos = .ok (r, next) →
      ∃ s', scanM pred fuel e s = (.ok (r.page, r.offset), s') ∧ s'.data = s.data ∧ s'.pos = next ∧ next ≤ s.data.length) :=
  scanM_q hq pred fuel s hp

/-- … the tag constructors' loop, the Opus collecting loop and the slow way of `find_last` -/
theorem ogg_page_loops_refine {e : Env} (hq : Quiet e) (serial fuel : Nat) (s : FS) (hp : s.pos ≤ s.data.length) :
    (∀ acc, ∃ s', readLoopM serial fuel acc e s = (readLoop s.data serial fuel acc s.pos, s') ∧ s'.data = s.data) ∧
    (∀ acc last, ∃ s', collectM serial fuel (acc.map (·.page)) last e s =
        ((collect s.data serial fuel acc last s.pos).map (fun rs => rs.map (·.page)), s') ∧ s'.data = s.data) ∧
    (∀ best, ∃ s', slowLastM serial fuel best e s = (slowLastP s.data serial fuel s.pos best, s') ∧ s'.data = s.data) :=
  ⟨fun acc => readLoopM_q hq serial fuel acc s hp, fun acc last => collectM_q hq serial fuel acc last s hp,
   fun best => slowLastM_q hq serial fuel best s hp⟩

/-! instances, computed -/

namespace LoadExample
/-- a Vorbis identification page (44100 Hz), the comment page of the C02 example, two audio pages of stream 7
(granule positions 50 and 100, the second with the last flag) and a page of another stream at the end of the
file: `find_last` has to go the slow way -/
def idPage : Page := { packets := [magicVorbisId ++ [0, 0, 0, 0, 2, 0x44, 0xAC, 0, 0, 0, 0, 0, 0, 0, 0, 0, 0, 0, 0, 0, 0]],
                       serial := 7, sequence := 0, first := true }
def audio1 : Page := { packets := [[9, 9]], serial := 7, sequence := 2, position := 50 }
def audio2 : Page := { packets := [[8]], serial := 7, sequence := 3, last := true, position := 100 }
def other : Page := { packets := [[4]], serial := 9, sequence := 0, first := true, last := true, position := 5 }
def file : Bytes := renderPages [idPage, Example.commentPage, audio1, audio2, other]
end LoadExample

set_option maxRecDepth 100000 in
/-- the fault-free run returns what the pure load returns (stream 7, 4 bytes of padding, the page with
position 100), in 34 file-object calls, and leaves the file alone -/
example : (loadM .vorbis Env.clean { data := LoadExample.file }).1 = loadPure .vorbis LoadExample.file ∧
    ((loadM .vorbis Env.clean { data := LoadExample.file }).1.map fun l => (l.idPage.serial, l.padding, l.last.map (·.position))) =
      .ok (7, 4, some 100) ∧
    (loadM .vorbis Env.clean { data := LoadExample.file }).2.log.length = 34 ∧
    (loadM .vorbis Env.clean { data := LoadExample.file }).2.data = LoadExample.file := by
  decide +kernel

set_option maxRecDepth 100000 in
/-- WITNESS (short read taken for the end of the stream): the `read(27)` at call 31 — the header of the last
audio page, in the slow way of `find_last` — returns nothing: the load succeeds and reports the page with
position 50 as the last one (a length of 50/44100 s instead of 100/44100 s).  An IOError at the same call is
the format's error; an IOError at call 0 (the probe of `verify_fileobj`) is ValueError. -/
example :
    ((loadM .vorbis { shortAt := fun i => if i = 31 then some 0 else none } { data := LoadExample.file }).1.map
      fun l => l.last.map (·.position)) = .ok (some 50) ∧
    ((loadM .vorbis { failAt := fun i => if i = 31 then some .io else none } { data := LoadExample.file }).1.map
      fun l => l.padding) = .error .mutagen ∧
    ((loadM .vorbis { failAt := fun i => if i = 0 then some .io else none } { data := LoadExample.file }).1.map
      fun l => l.padding) = .error .value := by
  decide +kernel

end Mutagen.C06
