/-
Props/C09_OggInject.lean — C09 "The padding callback is obeyed and existing padding is reused" for the
Ogg formats.  Vorbis, Opus, Speex and Theora pad the comment packet with zero bytes behind the comment;
`_inject` offers the callback `PaddingInfo(len(old packet) - len(prefix + comment), filesize - len(old
packet))`.  Ogg FLAC writes no padding; Opus keeps data behind the comment whose first byte has the low
bit set and then does not ask.  Model: Model/Container/OggInject.lean.
-/
import MutagenModel.Proofs.Container.OggInject
set_option linter.unusedVariables false
namespace Mutagen.C09
open Mutagen Mutagen.Ogg Mutagen.OggInj

/-! ## Ogg: padding inside the comment packet -/

/-- Vorbis / Opus (nothing preserved) / Speex / Theora: the callback is offered the length of the old
comment packet minus the length of the codec prefix and the new comment, and told the size of the file
minus the old packet; when it answers `p ≥ 0` the comment packet of the saved file is exactly prefix,
comment and `p` zero bytes — found in the edited stream in the place of the old packet, all other
packets and all other streams unchanged (C02) -/
theorem ogg_padding_obeyed (c : Codec) (hc : c ≠ .flac) (L : Layout) (h : L.OK c)
    (hfresh : L.c1.continued = false) (hflags : contOK false (stream L.serial L.pages))
    (vc padData : Bytes) (hpd : c = .opus → padData = []) (cb : Int → Nat → Int) (p : Nat)
    (old0 : Bytes) (rest : List Bytes) (new : List Page)
    (hpk : toPackets L.oldPages false = .ok (old0 :: rest))
    (hp : cb ((old0.length : Int) - ((c.commentPrefix ++ vc).length : Int)) (L.render.length - old0.length) = p)
    (hnew : newPages c ((c.commentPrefix ++ vc ++ zeros p) :: rest) L.oldPages = .ok new)
    (hseq : L.c1.sequence + new.length + (L.post.filter (·.serial = L.serial)).length ≤ 2 ^ 32) :
    save c L.render vc padData (.callback cb) = .ok (renderPages (L.after new)) ∧
    ∃ before behind, reasm [] (stream L.serial L.pages) = before ++ old0 :: behind ∧
      reasm [] (stream L.serial (L.after new)) = before ++ (c.commentPrefix ++ vc ++ zeros p) :: behind := by
  have hnp : newPacket c old0 vc padData (.callback cb) L.render.length = .ok (c.commentPrefix ++ vc ++ zeros p) := by
    rw [newPacket_padded c hc old0 vc padData hpd]
    simp only [getPadding, hp, Int.toNat_natCast]
  have := save_spec c L h (streamOK_of_contOK c L h hfresh hflags) vc padData (.callback cb) old0 _ rest new hpk hnp hnew hseq
  exact ⟨this.1, this.2.2⟩

/-- a negative answer is not an error for the Ogg formats: `b"\x00" * n` is empty, the packet gets no
padding -/
theorem ogg_negative_padding_is_none (c : Codec) (hc : c ≠ .flac) (old0 vc padData : Bytes) (hpd : c = .opus → padData = [])
    (cb : Int → Nat → Int) (fsize : Nat)
    (hneg : cb ((old0.length : Int) - ((c.commentPrefix ++ vc).length : Int)) (fsize - old0.length) < 0) :
    newPacket c old0 vc padData (.callback cb) fsize = .ok (c.commentPrefix ++ vc) := by
  rw [newPacket_padded c hc old0 vc padData hpd]
  have : (getPadding (.callback cb) ((old0.length : Int) - ((c.commentPrefix ++ vc).length : Int)) (fsize - old0.length)).toNat = 0 := by
    simp only [getPadding]; omega
  rw [this]; simp [zeros]

/-- the default policy is asked with the same two numbers -/
theorem ogg_default_padding (c : Codec) (hc : c ≠ .flac) (old0 vc padData : Bytes) (hpd : c = .opus → padData = []) (fsize : Nat) :
    newPacket c old0 vc padData .default fsize =
      .ok (c.commentPrefix ++ vc ++ zeros (Generated.defaultPadding ((old0.length : Int) - ((c.commentPrefix ++ vc).length : Int))
        (fsize - old0.length)).toNat) :=
  newPacket_padded c hc old0 vc padData hpd .default fsize

/-- answering with the offered padding (when the new comment fits into the old packet) is a save in
place: the packet keeps its length, the comment run keeps its pages (same number, each of its old
size, nothing renumbered), the file keeps its length, and everything in front of the run and behind it
— and the pages of other streams inside it: `reslot` only exchanges the run's own pages — keeps its
bytes and its position -/
theorem ogg_keep_is_inplace (c : Codec) (hc : c ≠ .flac) (L : Layout) (h : L.OK c)
    (hfresh : L.c1.continued = false) (hflags : contOK false (stream L.serial L.pages))
    (vc padData : Bytes) (hpd : c = .opus → padData = []) (old0 : Bytes) (rest : List Bytes)
    (hpk : toPackets L.oldPages false = .ok (old0 :: rest))
    (hroom : (c.commentPrefix ++ vc).length ≤ old0.length) (hseq : L.c1.sequence + L.slots.length ≤ 2 ^ 32) :
    ∃ new out, new.length = L.slots.length ∧ (prepare L.c1 L.cK new).map Page.size = L.oldPages.map Page.size ∧
      out = renderPages (L.pre ++ slotPages (reslot (prepare L.c1 L.cK new) L.slots) ++ L.post) ∧
      save c L.render vc padData (.callback fun p _ => p) = .ok out ∧ out.length = L.render.length ∧
      out.take (renderPages L.pre).length = renderPages L.pre ∧
      out.drop ((renderPages L.pre).length + (renderPages (slotPages L.slots)).length) = renderPages L.post := by
  have hnp := newPacket_padded c hc old0 vc padData hpd (.callback fun p _ => p) L.render.length
  have hlen : (c.commentPrefix ++ vc ++ zeros (getPadding (.callback fun p _ => p)
      ((old0.length : Int) - ((c.commentPrefix ++ vc).length : Int)) (L.render.length - old0.length)).toNat).length = old0.length := by
    simp only [getPadding, List.length_append, length_zeros] at hroom ⊢
    omega
  obtain ⟨new, out, _, h2, h3, h4, h5, h6, h7, h8⟩ := save_inplace c hc L h (streamOK_of_contOK c L h hfresh hflags) vc padData _
    old0 _ rest hpk hnp hlen hseq
  exact ⟨new, out, h2, h3, h4, h5, h6, h7, h8⟩

/-- Opus with preserved data behind the comment (`_pad_data`, first byte odd): the packet is
"OpusTags", comment and that data, whatever the callback would say — it is not asked -/
theorem ogg_opus_preserved_data_kept (old0 vc padData : Bytes) (hpd : padData ≠ []) (pad1 pad2 : PadChoice) (fsize : Nat) :
    newPacket .opus old0 vc padData pad1 fsize = .ok (magicOpusTags ++ vc ++ padData) ∧
    newPacket .opus old0 vc padData pad2 fsize = .ok (magicOpusTags ++ vc ++ padData) :=
  ⟨newPacket_opus_preserved old0 vc padData hpd pad1 fsize, newPacket_opus_preserved old0 vc padData hpd pad2 fsize⟩

/-- Ogg FLAC has no padding: the block is the first byte of the old block header, the 24-bit length and
the comment -/
theorem oggflac_no_padding (old0 vc padData : Bytes) (hv : vc.length ≤ 0xFFFFFF) (pad : PadChoice) (fsize : Nat) :
    newPacket .flac old0 vc padData pad fsize = .ok (old0.take 1 ++ toBE 3 vc.length ++ vc) :=
  newPacket_flac old0 vc padData hv pad fsize

/-- non-vacuity: in the example file (C02) the comment packet is 20 bytes, the new comment with prefix
16: the callback is offered 4 and told 189 - 20 bytes follow; with the default policy a packet with 490
spare bytes in a 50 000-byte file keeps them, one that is too small gets 1 KiB + 0.1 % -/
example : ((Example.commentPacket.length : Int) - ((Codec.vorbis.commentPrefix ++ [0, 0, 0, 0, 0, 0, 0, 0, 1]).length : Int) = 4) ∧
    getPadding .default (490 : Int) 50000 = (490 : Nat) ∧ getPadding .default (-20 : Int) 50000 = (1074 : Nat) := by
  decide

end Mutagen.C09
