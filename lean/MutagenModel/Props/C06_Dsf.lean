/-
Props/C06_Dsf.lean — C06 "I/O failures surface only as MutagenError; success means written" for DSF files:
the file-operation programs of Model/Container/DsfM.lean (`_DSFID3.save`, `dsf.delete` / `DSF.delete` with
`verify_fileobj`, every chunk loader, `ID3Header` with its extended-header branch, the writes and the
truncate) in ARBITRARY fault environments: any exception injected at any file-object call, short reads,
finite capacity — and on arbitrary file contents, not only well-formed ones.
-/
import MutagenModel.Proofs.Container.DsfCap
set_option linter.unusedVariables false
namespace Mutagen.C06
open Mutagen

/-- DSF save under ANY fault environment and on any file: what leaves the entry point
(`@convert_error(IOError, error)`) is the module's error, or a non-I/O exception out of: ValueError
(`verify_fileobj` when the very first `read(0)` / `write(b"")` fails — the recorded finding —, or a
`v2_version` that is not 3 or 4), `struct.error` (a file of 2^64 bytes), an exception the environment itself
injected that is not an IOError -/
theorem dsf_save_raises_only (vmaj : Nat) (frames : Bytes) (ans : Int → Int → Int) :
    Raises (fun e x => x = .mutagen ∨ (Dsf.DsfErr e x ∧ x.isIO = false)) (Dsf.saveEntry vmaj frames ans) :=
  Dsf.raises_entry (Dsf.raises_saveM vmaj frames ans)

/-- … with I/O faults only (every injected exception is an IOError, ENOSPC included): MutagenError,
ValueError or `struct.error` — nothing else, on any file, whatever call fails -/
theorem dsf_save_io_faults (vmaj : Nat) (frames : Bytes) (ans : Int → Int → Int) (e : Env)
    (hio : ∀ i x, e.failAt i = some x → x.isIO = true) (s s' : FS) (x : PyErr)
    (h : Dsf.saveEntry vmaj frames ans e s = (.error x, s')) : x = .mutagen ∨ x = .value ∨ x = .struct_ :=
  Dsf.entry_io_faults (Dsf.raises_saveM vmaj frames ans) e hio s s' x h

/-- success means written: a normal return of the save — in any environment without short reads, whatever
exceptions it would have injected elsewhere, on a device of any capacity — leaves exactly the layout with the
new tag (pointer and total size included) -/
theorem dsf_save_ok_means_written (L : Dsf.Layout) (h : L.OK) (vmaj : Nat) (hvm : vmaj = 3 ∨ vmaj = 4)
    (frames : Bytes) (ans : Int → Int → Int) (p : Nat)
    (hp : ans ((L.tag.length : Int) - (frames.length + 10 : Nat)) 0 = p) (hfit : frames.length + p < 2 ^ 28)
    (e : Env) (hshort : ∀ i, e.shortAt i = none) (s s' : FS) (hs : s.data = L.render) (hpos : s.pos ≤ s.data.length)
    (hr : Dsf.saveM vmaj frames ans e s = (.ok (), s')) :
    ∃ hd, Id3F.header vmaj (frames.length + p) = .ok hd ∧ s'.data = (L.withTag (hd ++ frames ++ zeros p)).render :=
  Dsf.saveM_ok_means_written L h vmaj hvm frames ans p hp hfit e hshort s s' hs hpos hr

/-- DSF delete (module function, `method = false`; `DSF.delete`, `method = true`) under any fault
environment, on any file -/
theorem dsf_delete_raises_only (method : Bool) :
    Raises (fun e x => x = .mutagen ∨ (Dsf.DsfErr e x ∧ x.isIO = false)) (Dsf.deleteEntry method) :=
  Dsf.raises_entry (Dsf.raises_deleteM method)

theorem dsf_delete_io_faults (method : Bool) (e : Env)
    (hio : ∀ i x, e.failAt i = some x → x.isIO = true) (s s' : FS) (x : PyErr)
    (h : Dsf.deleteEntry method e s = (.error x, s')) : x = .mutagen ∨ x = .value ∨ x = .struct_ :=
  Dsf.entry_io_faults (Dsf.raises_deleteM method) e hio s s' x h

/-- a normal return of delete leaves exactly the three chunks, pointer 0, total size = length -/
theorem dsf_delete_ok_means_written (L : Dsf.Layout) (h : L.OK) (method : Bool) (e : Env) (hshort : ∀ i, e.shortAt i = none)
    (s s' : FS) (hs : s.data = L.render) (h0 : s.pos = 0) (hr : Dsf.deleteM method e s = (.ok (), s')) :
    s'.data = (L.withTag []).render :=
  Dsf.deleteM_ok_means_written L h method e hshort s s' hs h0 hr

/-! non-vacuity -/

/-- an I/O error injected at the write of the new tag (call 10 of `r0 w0 s0 t r28 s94 r10 e t s94 w…`)
surfaces as the module's error; injected at the very first call it is `verify_fileobj`'s ValueError -/
example : (Dsf.saveEntry 4 [1, 2, 3] (fun _ _ => 0) { failAt := fun i => if i = 10 then some .io else none }
      { data := Dsf.exampleLayout.render }).1 = .error .mutagen ∧
    (Dsf.saveEntry 4 [1, 2, 3] (fun _ _ => 0) { failAt := fun i => if i = 0 then some .io else none }
      { data := Dsf.exampleLayout.render }).1 = .error .value := by decide +kernel

/-- a short read of the DSD chunk: "DSF chunk truncated" -/
example : (Dsf.deleteEntry false { shortAt := fun i => if i = 3 then some 5 else none } { data := Dsf.exampleLayout.render }).1 =
    .error .mutagen := by decide +kernel

end Mutagen.C06
