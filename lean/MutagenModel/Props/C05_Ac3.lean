/-
Props/C05_Ac3.lean — C05 / C04 statements for AC-3 / E-AC-3 (mutagen/ac3.py `AC3Info`).
Parser: Model/Info/Ac3.lean (bit reader of Model/Info/Aac.lean), meaning of the fields: Spec/Info/Ac3.lean, tables:
Generated/Tables.lean.

The parser is `fields` (the bit reads, in order) followed by `values` (checks, table look-ups, arithmetic).  Proved
here: for ALL values of the fixed fields the `values` step gives exactly what the specification says (or the
format's error for the reserved codes), and totality on all byte strings.  NOT proved: that the `fields` step
returns the fields of a header built from the specification (the bit extraction on symbolic bytes; tied by
harness/info_tie_a.py only), hence no `ac3_info_decodes` on bytes.
-/
import MutagenModel.Proofs.Info.Ac3
set_option linter.unusedVariables false
namespace Mutagen.C05
open Mutagen Mutagen.Info Mutagen.Info.Ac3

/-- every row of mutagen's `AC3_SAMPLE_RATES`, `EAC3_BLOCKS`, `AC3_CHANNELS` (regenerated from the source) is the
row of A/52 tables 5.6 / E2.? / 5.8; no block count is 0 -/
theorem ac3_tables_rows :
    (∀ i < 3, ∃ x, Generated.ac3SampleRates[i]? = some x ∧ x = Spec.Tables.ac3SampleRates.getD i 0) ∧
    (∀ i < 4, ∃ x, Generated.eac3Blocks[i]? = some x ∧ x = Spec.Tables.eac3Blocks.getD i 0 ∧ x * 256 ≠ 0) ∧
    (∀ i < 8, ∃ x, Generated.ac3Channels[i]? = some x ∧ x = Spec.Tables.ac3Channels.getD i 0) := tables_ok

/-- AC-3, ALL 17·4·64·8·2 combinations of bitstream id, fscod, frmsizecod, acmod, lfeon: sample rate, bit rate
(both shifted for bsid 9 / 10) and channel count are the specification's; exactly fscod 3 and frmsizecod > 37 are
refused with `AC3Error`. -/
theorem ac3_values_decode (bsid sr fsc cm lfe : Nat) (hb : bsid < 17) (hs : sr < 4) (hf : fsc < 64) (hc : cm < 8)
    (hl : lfe < 2) :
    normalValues bsid sr fsc cm lfe =
      (if sr = 3 ∨ fsc > 37 then .error .mutagen else .ok (Spec.Ac3.ac3Values bsid sr fsc cm lfe)) :=
  normalValues_spec bsid sr fsc cm lfe hb hs hf hc hl

/-- E-AC-3, ALL values of strmtyp, frmsiz (11 bits), fscod, fscod2, numblkscod, acmod, lfeon: sample rate (halved
through fscod2), data rate `frame bits · rate / (blocks · 256)` and channel count are the specification's; exactly
stream type 3, frames shorter than 7 bytes and fscod = fscod2 = 3 are refused with `AC3Error`. -/
theorem eac3_values_decode (ft fs s1 s2 nb cm lfe : Nat) (hft : ft < 4) (hfs : fs < 2048) (h1 : s1 < 4) (h2 : s2 < 4)
    (hnb : nb < 4) (hcm : cm < 8) (hl : lfe < 2) :
    enhancedValues ft fs s1 s2 nb cm lfe =
      (if ft = 3 ∨ (fs + 1) * 2 < 7 ∨ (s1 = 3 ∧ s2 = 3) then .error .mutagen
       else .ok (Spec.Ac3.eac3Values fs s1 s2 nb cm lfe)) :=
  enhancedValues_spec ft fs s1 s2 nb cm lfe hft hfs h1 h2 hnb hcm hl

/-- the bit reader never hands a value outside its field width to the look-ups -/
theorem ac3_fields_in_range (f : Bytes) (r r' : Aac.R) (a b c d : Nat) (h : normalFields f r = some (a, b, c, d, r')) :
    a < 4 ∧ b < 64 ∧ c < 8 ∧ d < 2 := normalFields_bounds f r r' a b c d h

/-- C04 side: on EVERY byte string `AC3Info` either succeeds or raises a `MutagenError` (`AC3Error`): no table
look-up can fail (`IndexError`), no division by zero. -/
theorem ac3_info_total (f : Bytes) : ∀ e, parse f = .error e → e = .mutagen := parse_total f

/-! closed instances (kernel evaluation): a 44.1 kHz 192 kbit/s 3/2+LFE AC-3 header and a 48 kHz E-AC-3 header of 768 bytes
per 6 blocks, each followed by 20 more bytes; `length` is 8 · (bytes behind the header) / bitrate -/
example : parse ([11, 119, 0, 0, 84, 64, 235, 216, 64] ++ List.replicate 20 33) =
    .ok { channels := 6, sampleRate := 44100, bitrate := 192000, length := some ⟨160, 192000⟩, eac3 := false } := by
  decide +kernel
example : parse ([11, 119, 1, 127, 52, 134, 192] ++ List.replicate 20 33) =
    .ok { channels := 2, sampleRate := 48000, bitrate := 192000, length := some ⟨160, 192000⟩, eac3 := true } := by
  decide +kernel

end Mutagen.C05
