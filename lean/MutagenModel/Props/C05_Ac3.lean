/-
Props/C05_Ac3.lean — C05 / C04 statements for AC-3 / E-AC-3 (mutagen/ac3.py `AC3Info`).
Parser: Model/Info/Ac3.lean (bit reader of Model/Info/Aac.lean), meaning of the fields: Spec/Info/Ac3.lean, tables:
Generated/Tables.lean.

The parser is `fields` (the bit reads, in order) followed by `values` (checks, table look-ups, arithmetic) and the
skipping of the rest of bsi().  Proved here: the `values` step against the specification for ALL field values,
totality on all byte strings, and the decode theorems on the bytes of a syncframe header built from the
specification (Spec/Info/Ac3.lean: `Ac3.build`, `Eac3.build`).
-/
import MutagenModel.Proofs.Info.Ac3Decode
import MutagenModel.Proofs.Info.Eac3Decode
set_option linter.unusedVariables false
namespace Mutagen.C05
open Mutagen Mutagen.Info Mutagen.Info.Ac3

/-- every row of mutagen's `AC3_SAMPLE_RATES`, `EAC3_BLOCKS`, `AC3_CHANNELS` (regenerated from the source) is the
row of A/52 tables 5.6 / E2.? / 5.8; no block count is 0 -/
theorem ac3_tables_rows :
    (∀ i < 3, ∃ x, Generated.ac3SampleRates[i]? = some x ∧ x = Spec.Tables.ac3SampleRates.getD i 0) ∧
    (∀ i < 4, ∃ x, Generated.eac3Blocks[i]? = some x ∧ x = Spec.Tables.eac3Blocks.getD i 0 ∧ x * 256 ≠ 0) ∧
    (∀ i < 8, ∃ x, Generated.ac3Channels[i]? = some x ∧ x = Spec.Tables.ac3Channels.getD i 0) := tables_ok

/-- AC-3, ALL 17·4·64·8·2 combinations of bitstream id, fscod, frmsizecod, acmod, lfeon: sample rate, bit rate
(both shifted for bsid 9 / 10) and channel count are the specification's; exactly fscod 3 and frmsizecod > 37 are
refused with `AC3Error`. -/
theorem ac3_values_decode (bsid sr fsc cm lfe : Nat) (hb : bsid < 17) (hs : sr < 4) (hf : fsc < 64) (hc : cm < 8)
    (hl : lfe < 2) :
    normalValues bsid sr fsc cm lfe =
      (if sr = 3 ∨ fsc > 37 then .error .mutagen else .ok (Spec.Ac3.ac3Values bsid sr fsc cm lfe)) :=
  normalValues_spec bsid sr fsc cm lfe hb hs hf hc hl

/-- E-AC-3, ALL values of strmtyp, frmsiz (11 bits), fscod, fscod2, numblkscod, acmod, lfeon: sample rate (halved
through fscod2), data rate `frame bits · rate / (blocks · 256)` and channel count are the specification's; exactly
stream type 3, frames shorter than 7 bytes and fscod = fscod2 = 3 are refused with `AC3Error`. -/
theorem eac3_values_decode (ft fs s1 s2 nb cm lfe : Nat) (hft : ft < 4) (hfs : fs < 2048) (h1 : s1 < 4) (h2 : s2 < 4)
    (hnb : nb < 4) (hcm : cm < 8) (hl : lfe < 2) :
    enhancedValues ft fs s1 s2 nb cm lfe =
      (if ft = 3 ∨ (fs + 1) * 2 < 7 ∨ (s1 = 3 ∧ s2 = 3) then .error .mutagen
       else .ok (Spec.Ac3.eac3Values fs s1 s2 nb cm lfe)) :=
  enhancedValues_spec ft fs s1 s2 nb cm lfe hft hfs h1 h2 hnb hcm hl

/-- the bit reader never hands a value outside its field width to the look-ups -/
theorem ac3_fields_in_range (f : Bytes) (r r' : Aac.R) (a b c d : Nat) (h : normalFields f r = some (a, b, c, d, r')) :
    a < 4 ∧ b < 64 ∧ c < 8 ∧ d < 2 := normalFields_bounds f r r' a b c d h

/-- C04 side: on EVERY byte string `AC3Info` either succeeds or raises a `MutagenError` (`AC3Error`): no table
look-up can fail (`IndexError`), no division by zero. -/
theorem ac3_info_total (f : Bytes) : ∀ e, parse f = .error e → e = .mutagen := parse_total f

/-- C05 for AC-3: for EVERY syncframe header the specification allows (crc1, the 3 rates, the 38 frame size codes,
bsid 0..10, bsmod, the 8 channel modes with their mix-level fields, lfeon, per programme dialnorm and the optional
compr / langcod / audprod fields, copyright and original bits, the optional timecod2 / xbsi2, 1..64 bytes of addbsi)
followed by any payload, `AC3Info` reports exactly the encoded rate, nominal bit rate and channel count, codec
"ac-3", and as `length` its documented guess `8 · (bytes behind the header) / bitrate` — PROVIDED timecod1 / xbsi1 is
absent: mutagen reads both "exists" flags before the first value, the standard puts timecod1 directly behind
timecod1e (`ac3_timecode_order_misread`). -/
theorem ac3_info_decodes_partial (h : Spec.Ac3.Ac3) (ok : h.OK) (htc : h.timecod1 = none) :
    parse h.build = .ok h.expected :=
  parse_ac3 h ok htc

/-- C05 for E-AC-3, everything but `length`: for EVERY header without mixing metadata the specification allows (stream
types 0..2, substream id, frmsiz ≥ 3, fscod / fscod2 / numblkscod, the 8 channel modes, lfeon, bsid 11..16, dialnorm and
compr of one or two programmes, chanmap, the informational metadata, convsync, blkid / frmsizecod, addbsi) followed by
any payload: if `AC3Info` loads the file, rate, data rate `frame bits · rate / (blocks · 256)`, channel count and codec
"ec-3" are the encoded ones (otherwise it raises `AC3Error`: the skipping of the optional fields deviates from the
standard for convsync and blkid, see `eac3_convsync_misread`, which only moves the point from which `length` is
guessed and can run off a short file). -/
theorem eac3_info_decodes_except_length (h : Spec.Ac3.Eac3) (ok : h.OK) :
    parse h.build = .error .mutagen ∨
    ∃ len, parse h.build = .ok { channels := h.values.2.2, sampleRate := h.values.1, bitrate := h.values.2.1, length := len,
                                 eac3 := true } :=
  parse_eac3 h ok

/-- C05 for E-AC-3, `length` included: for EVERY header without mixing metadata the specification allows (as in
`eac3_info_decodes_except_length`) followed by any payload, `AC3Info` reports exactly the encoded rate, data rate and
channel count, codec "ec-3", and as `length` its documented guess `8 · (bytes behind the header) / data rate` — PROVIDED
the header is one on which mutagen's skipping of convsync / blkid / frmsizecod is the standard's (`SkipAgrees`, decidable):
a dependent substream (strmtyp 1), or an AC-3-convertible one (strmtyp 2) with fewer than six blocks.  Independent
substreams (strmtyp 0) and strmtyp 2 with six blocks are the deviating ones (`eac3_convsync_misread`). -/
theorem eac3_info_decodes_partial (h : Spec.Ac3.Eac3) (ok : h.OK) (hyp : SkipAgrees h) : parse h.build = .ok h.expected :=
  parse_eac3_full h ok hyp

example : SkipAgrees ⟨1, 0, 383, 0, 0, 3, 2, 0, 16, 27, none, 27, none, some 0xFFFF, none, 0, 0, 0, none, []⟩ := by decide

/-- the fixed E-AC-3 fields are read back from a specification-built header, for all values -/
theorem eac3_fields_decode (f : Bytes) (r : Aac.R) (h : Spec.Ac3.Eac3) (ok : h.OK) (rest : List Bool)
    (ha : Aac.At f r (h.fieldBits ++ rest)) :
    enhancedFields f r = some (h.strmtyp, h.frmsiz, h.fscod, (if h.fscod = 3 then h.fscod2 else 0), h.blocksCode, h.acmod, h.lfeon,
      ⟨r.start, r.pos + 29⟩) :=
  (enhancedFields_at f r h ok rest ha).1

/-! ### how far the layouts of Spec/Info/Ac3.lean are cross-checked

`Ac3.build` and `Eac3.build` were written from the standard; harness/gen/headers_more.py was written independently from
the same standard.  harness/info_tie_a.py compares the two builders' bytes for every headers_more case (header of the
first frame, byte-padded): all 1914 thorough-tier cases (334 quick) are EQUAL.  What these cases exercise:
* AC-3: all 8 acmod with their mix-level fields, lfeon, both programme groups for acmod 0, all 8 combinations of the
  compre / langcode / audprodie groups, bsid 0..8, all fscod × frmsizecod.  They never set timecod1e / timecod2e / addbsie:
  the ORDER timecod1e, timecod1, timecod2e, timecod2 (on which `ac3_timecode_order_misread` rests) is NOT cross-checked.
* E-AC-3: strmtyp 0 and 2 with fewer than six and with six blocks (415 / 182 / 204 / 67 cases), with and without
  informational metadata, compre, all acmod.  So the placement of convsync (strmtyp 0, fewer than six blocks) and of
  blkid / frmsizecod (strmtyp 2; frmsizecod without blkid for six blocks) — on which `eac3_convsync_misread` and the
  hypothesis `SkipAgrees` rest — IS cross-checked by two independent readings.  Not exercised: strmtyp 1 / chanmap,
  audprodie = 1 inside the informational metadata, addbsi.

### deviations from the standard in the skipping of bsi() (they move only the start of the `length` guess) -/

/-- a 48 kHz 192 kbit/s 2/0 AC-3 header with timecod1 = 0x2000 and 40 payload bytes -/
def ac3Timecode : Spec.Ac3.Ac3 :=
  ⟨0, 0, 20, 8, 0, 2, 0, 0, 0, 0, ⟨27, none, none, none⟩, ⟨27, none, none, none⟩, 1, 1, some 0x2000, none, none,
    List.replicate 40 0x21⟩

/-- NEW finding: the standard's order is timecod1e, timecod1, timecod2e, timecod2; mutagen reads timecod1e, timecod2e and
then skips.  Here the top bit of timecod1 is taken for timecod2e and 28 instead of 15 bits are skipped: the guess starts
one byte early (312 instead of 320 payload bits).
Repro: `AC3(io.BytesIO(bytes.fromhex("0b77000014404363c00000" + "21"*40))).info.length * 192000` = 312.0 (E-AC-3 witness below:
`bytes.fromhex("0b77017f3e86c40010" + "ff"*40)`, 336.0). -/
theorem ac3_timecode_order_misread :
    ac3Timecode.OK ∧ ac3Timecode.expected.length = some ⟨320, 192000⟩ ∧
    parse ac3Timecode.build = .ok { ac3Timecode.expected with length := some ⟨312, 192000⟩ } := by decide +kernel

/-- an independent (strmtyp 0) six-block 3/2 E-AC-3 header with one byte of addbsi and 40 payload bytes -/
def eac3Addbsi : Spec.Ac3.Eac3 :=
  ⟨0, 0, 383, 0, 0, 3, 7, 0, 16, 27, none, 27, none, none, none, 0, 0, 0, some [1], List.replicate 40 0xff⟩

/-- NEW finding: the standard has convsync for strmtyp 0 when there are FEWER than six blocks (numblkscod ≠ 3); mutagen
skips a bit when numblkscod = 3.  Here the skipped bit is addbsie, the addbsi is not skipped, and the guess starts two
bytes early (336 instead of 320 payload bits). -/
theorem eac3_convsync_misread :
    eac3Addbsi.OK ∧ eac3Addbsi.bits.length = 52 ∧
    parse eac3Addbsi.build = .ok { channels := 5, sampleRate := 48000, bitrate := 192000, length := some ⟨336, 192000⟩, eac3 := true } := by
  decide +kernel

/-! closed instances (kernel evaluation): a 44.1 kHz 192 kbit/s 3/2+LFE AC-3 header and a 48 kHz E-AC-3 header of 768 bytes
per 6 blocks, each followed by 20 more bytes; `length` is 8 · (bytes behind the header) / bitrate -/
example : parse ([11, 119, 0, 0, 84, 64, 235, 216, 64] ++ List.replicate 20 33) =
    .ok { channels := 6, sampleRate := 44100, bitrate := 192000, length := some ⟨160, 192000⟩, eac3 := false } := by
  decide +kernel
example : parse ([11, 119, 1, 127, 52, 134, 192] ++ List.replicate 20 33) =
    .ok { channels := 2, sampleRate := 48000, bitrate := 192000, length := some ⟨160, 192000⟩, eac3 := true } := by
  decide +kernel

end Mutagen.C05
