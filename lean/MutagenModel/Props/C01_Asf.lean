/-
Props/C01_Asf.lean — C01 "What is saved is what is loaded", ASF: the step "load the saved file", composed
from `save` (Model/Container/Asf.lean), mutagen's own reader (`parseFull`, `loadedTags`), the strict
reader of the header (`readLayout`) and the strict specification decoders of the attribute objects
(Model/AsfAttr.lean).  Lemmas: Proofs/Container/AsfRoundTrip.lean.

`Asf.canonical tags` is the documented canonical form: the values grouped by the header object that
holds them, in the order the objects are read — Content Description (the first text value without
language / stream under each of Title, Author, Copyright, Description, Rating; in THAT order, not in
insertion order), Extended Content Description, Metadata, Metadata Library (each in insertion order;
the library holds everything the others cannot: values with a language, values above 65535 bytes,
GUIDs, further values of a name, non-text values under the five names) — with language and stream of
the library values defaulted to 0.  Booleans are 4 bytes in the Extended Content Description and 2 bytes
in the other two objects; both read back as the same Boolean.

Hypotheses: the tags are `Plain` (decidable: names and text values encodable and free of NUL — the
reader strips NULs at both ends of names and text, which is not part of `canonical`), and the saved
header holds exactly one of each of the four objects (`OneOfEach`, decidable; a header with two
Extended Content Description objects loads every value twice).
-/
import MutagenModel.Proofs.Container.AsfRoundTrip
set_option linter.unusedVariables false
namespace Mutagen.C01
open Mutagen

/-! ## ASF -/

/-- (a) mutagen's own reader: after `save` has returned, the file is `L'.render`, loading it succeeds
and yields exactly the canonical form of the tags that were set: every name, every value with its
type, language and stream, the values of a name in order inside each object -/
theorem asf_saved_tags_read_back (L : Asf.Layout) (h : L.OK) (tags : List Asf.Tag) (hp : ∀ t ∈ tags, t.Plain) (P : Asf.Payloads)
    (hP : Asf.Renders (Asf.distPure tags) P) (pad : PadChoice) (hf : L.Fits P (Asf.newPadding L P pad))
    (h1 : Asf.OneOfEach ((L.after P (Asf.newPadding L P pad)).top.map Asf.Item.toObj)) :
    ∃ out objs, Asf.save L.render tags pad = .ok out ∧ Asf.parseFull out = .ok objs ∧ Asf.loadedTags objs = Asf.canonical tags := by
  obtain ⟨h2, h3⟩ := Asf.loaded_after_save L h tags hp P hP _ hf h1
  exact ⟨_, _, (Asf.save_layout L h tags _ (Asf.distribute_of_enc tags (fun t ht => (hp t ht).enc)) P hP pad hf).2, h2, h3⟩

/-- the same at the level of the four payloads, for any header: mutagen's parsers read what `save`
rendered into the four objects back as the canonical form -/
theorem asf_payloads_read_back (tags : List Asf.Tag) (hp : ∀ t ∈ tags, t.Plain) (P : Asf.Payloads)
    (hP : Asf.Renders (Asf.distPure tags) P) :
    (Asf.parseCD P.cd).getD [] ++ (Asf.parseECD P.ecd).getD [] ++ (Asf.parseML false P.mo).getD [] ++
      (Asf.parseML true P.ml).getD [] = Asf.canonical tags :=
  Asf.parse_payloads tags hp P hP

/-- (b) an independent reading: the strict reader of the header finds the saved layout `L'` (whose
metadata objects carry the payloads `P`), and the strict specification decoders of the Extended Content
Description, Metadata and Metadata Library Objects (complete records, terminated names, value sizes
as the specification fixes them per type, BOOL 4 / 2 bytes, payload filled exactly) decode `P` to the
attribute records — (language, stream, encoded name, type, value bytes) — of the distributed tags, in
order.  GUID values must have the specification's 16 bytes (`GuidOK`; mutagen writes any length).
(The Content Description Object has no record structure; its reading is part (a).) -/
theorem asf_saved_tags_decode_strictly (L : Asf.Layout) (h : L.OK) (tags : List Asf.Tag) (hp : ∀ t ∈ tags, t.Plain)
    (hg : ∀ t ∈ tags, t.GuidOK) (P : Asf.Payloads) (hP : Asf.Renders (Asf.distPure tags) P) (pad : PadChoice)
    (hf : L.Fits P (Asf.newPadding L P pad)) :
    ∃ L' : Asf.Layout, Asf.save L.render tags pad = .ok L'.render ∧ Asf.readLayout L'.render = some L' ∧
      (∀ l ∈ Asf.leaves (L'.top.map Asf.Item.toObj), l.Has P) ∧
      (∃ as : List AsfAttr.Attr, (Asf.distPure tags).ecd.map (fun t => Asf.attrOf t true 0 0) = as.map Except.ok ∧
        AsfAttr.decodeECD P.ecd = some as) ∧
      (∃ as : List AsfAttr.Attr, (Asf.distPure tags).mo.map (fun t => Asf.attrOf t false 0 (t.stream.getD 0)) = as.map Except.ok ∧
        AsfAttr.decodeML P.mo = some as) ∧
      (∃ as : List AsfAttr.Attr,
        (Asf.distPure tags).ml.map (fun t => Asf.attrOf t false (t.language.getD 0) (t.stream.getD 0)) = as.map Except.ok ∧
        AsfAttr.decodeML P.ml = some as) := by
  have inv := Asf.distInv_distPure tags
  have hok := Asf.after_OK' L h P (Asf.renders_parses _ P hP) _ hf
  exact ⟨L.after P (Asf.newPadding L P pad),
    (Asf.save_layout L h tags _ (Asf.distribute_of_enc tags (fun t ht => (hp t ht).enc)) P hP pad hf).2,
    Asf.readLayout_layout _ hok, Asf.after_leaves_has L P _,
    Asf.strict_ecd _ (fun t ht => hg t (inv.subECD.subset ht)) hP.ecd,
    Asf.strict_m _ (fun t ht => hg t (inv.subM.subset ht)) hP.mo,
    Asf.strict_mlib _ (fun t ht => hg t (inv.subML.subset ht)) hP.ml⟩

/-- the canonical form is canonical: distributing it again puts every value where it was -/
theorem asf_canonical_idempotent (tags : List Asf.Tag) : Asf.canonical (Asf.canonical tags) = Asf.canonical tags :=
  Asf.canonical_idem tags

/-- nothing dropped, nothing duplicated: the canonical form is a permutation of the four target lists
with the Metadata Library part defaulted, and the four target lists are a permutation of the tags -/
theorem asf_canonical_perm (tags : List Asf.Tag) :
    (Asf.canonical tags).Perm ((Asf.distPure tags).cd ++ (Asf.distPure tags).ecd ++ (Asf.distPure tags).mo ++
        (Asf.distPure tags).ml.map Asf.dflt) ∧
      ((Asf.distPure tags).cd ++ (Asf.distPure tags).ecd ++ (Asf.distPure tags).mo ++ (Asf.distPure tags).ml).Perm tags :=
  Asf.canonical_perm tags

/-- load the saved file, save the LOADED tags with the default policy: byte-identical (the round trip
through a reload that C07 left open) -/
theorem asf_load_save_roundtrip_identical (L : Asf.Layout) (h : L.OK) (tags : List Asf.Tag) (hp : ∀ t ∈ tags, t.Plain)
    (P : Asf.Payloads) (hP : Asf.Renders (Asf.distPure tags) P) (hf : L.Fits P (Asf.newPadding L P .default))
    (h1 : Asf.OneOfEach ((L.after P (Asf.newPadding L P .default)).top.map Asf.Item.toObj)) :
    ∃ out, Asf.save L.render tags .default = .ok out ∧ Asf.resave out .default = .ok out :=
  ⟨_, (Asf.save_layout L h tags _ (Asf.distribute_of_enc tags (fun t ht => (hp t ht).enc)) P hP .default hf).2,
    Asf.resave_after_save L h tags hp P hP hf h1⟩

/-- the hypotheses are satisfiable: the small layout and the four tags of the other property files
(Title = "hi"; f = 7; f = True on stream 1; Title = "x" with language 0), and what they load as -/
example : Asf.exLayout.OK ∧ (∀ t ∈ Asf.exTags, t.Plain) ∧ (∀ t ∈ Asf.exTags, t.GuidOK) ∧
    Asf.Renders (Asf.distPure Asf.exTags) Asf.exPayloads ∧
    Asf.exLayout.Fits Asf.exPayloads (Asf.newPadding Asf.exLayout Asf.exPayloads .default) ∧
    Asf.OneOfEach ((Asf.exLayout.after Asf.exPayloads (Asf.newPadding Asf.exLayout Asf.exPayloads .default)).top.map Asf.Item.toObj) := by
  refine ⟨by decide +kernel, by decide +kernel, by decide +kernel, by decide +kernel, by decide +kernel, by decide +kernel⟩

example : Asf.canonical Asf.exTags =
    [⟨[84, 105, 116, 108, 101], .unicode [104, 105], none, none⟩, ⟨[102], .dword 7, none, none⟩,
     ⟨[102], .bool true, none, some 1⟩, ⟨[84, 105, 116, 108, 101], .unicode [120], some 0, some 0⟩] := by decide +kernel

end Mutagen.C01
