/-
Props/C05_Aiff.lean — C05 for AIFF / AIFF-C (`mutagen.aiff.AIFFInfo`, `read_float`).  Property theorems only.
Code side: Model/Info/Aiff.lean; specification side: Spec/Info/Aiff.lean.
-/
import MutagenModel.Proofs.Info.Aiff
set_option linter.unusedVariables false
namespace Mutagen.C05
open Mutagen Mutagen.Iff Mutagen.Info Mutagen.Spec Mutagen.Spec.Aiff

/-- C05 for AIFF, partial: for every Common chunk the specification allows (any channel count, frame
count, sample size 1…32, any form type, any AIFF-C extension, any other well-formed chunks before and
behind it, any bytes behind the FORM chunk) whose sample rate is a whole number that a double holds
exactly, `AIFFInfo` reports exactly the encoded values; the 80-bit decoding is `read_float`'s. -/
theorem aiff_info_decodes_partial (h : Fields) (ok : h.OK) (ex : h.Exact) (rest : Bytes) :
    Aiff.parse (build h ++ rest) = .ok (expected h) :=
  Aiff.parse_build h ok ex rest

/-- every whole-numbered rate below 2^53 satisfies the hypothesis `Exact` -/
theorem aiff_exact_of_small (h : Fields) (hs0 : h.rateShift = 0) (h1 : 1 ≤ h.rateNum) (h53 : h.rateNum < 2 ^ 53) :
    h.Exact := Aiff.exact_of_small h hs0 h1 h53

/-- C04 side: on EVERY byte string `AIFFInfo` returns or raises a MutagenError -/
theorem aiff_info_total (f : Bytes) : ∀ e, Aiff.parse f = .error e → e = .mutagen :=
  fun e h => Aiff.parse_clean f e h

/-- 22254.5 Hz (the Macintosh rate 22254.54… is of this kind), 22254 frames: the header encodes 1 s —
mutagen reports rate 22254 and 22254/22254.0 = 1.0 s, the header says 44508/44509 s -/
def fractionalWitness : Fields :=
  { form := ascii "AIFF", numChannels := 1, numSampleFrames := 22254, sampleSize := 8, rateNum := 44509, rateShift := 1,
    ext := [], before := [], after := [] }

theorem aiff_fractional_witness :
    fractionalWitness.OK ∧ Aiff.parse (build fractionalWitness) ≠ .ok (expected fractionalWitness) ∧
    (Aiff.parse (build fractionalWitness)).toOption.map (·.length) =
      some (.div (.nat 22254) (.flt (.int 22254))) ∧
    (expected fractionalWitness).length = .div (.nat 44508) (.flt (.nat 44509)) := by
  decide +kernel

/-- rate 2^63 + 1 Hz: the mantissa does not fit a double; mutagen reports 2^63 -/
def hugeWitness : Fields :=
  { form := ascii "AIFF", numChannels := 1, numSampleFrames := 7, sampleSize := 8, rateNum := 2 ^ 63 + 1, rateShift := 0,
    ext := [], before := [], after := [] }

theorem aiff_huge_witness :
    hugeWitness.OK ∧ (Aiff.parse (build hugeWitness)).toOption.map (·.sampleRate) = some (2 ^ 63) ∧
    (expected hugeWitness).sampleRate = 2 ^ 63 + 1 := by
  decide +kernel

/-! non-vacuity: CD audio in an AIFF-C file with an FVER chunk in front and the sound data behind -/
example : (⟨ascii "AIFC", 2, 1000, 16, 44100, 0, ascii "NONE" ++ [14] ++ ascii "not compressed" ++ [0],
    [mkChunk (ascii "FVER") (toBE 4 0xA2805140)], [mkChunk (ascii "SSND") (zeros 48)]⟩ : Fields).OK ∧
   (⟨ascii "AIFC", 2, 1000, 16, 44100, 0, ascii "NONE" ++ [14] ++ ascii "not compressed" ++ [0],
    [mkChunk (ascii "FVER") (toBE 4 0xA2805140)], [mkChunk (ascii "SSND") (zeros 48)]⟩ : Fields).Exact := by
  decide +kernel

end Mutagen.C05
