/-
Props/C19_Mp4.lean — C19 "running out of space while growing leaves the file as it was" for MP4Tags.save / delete as
programs over the file object (Model/Container/Mp4M.lean), on EVERY byte string (no well-formedness hypothesis: what
`Atoms(fileobj)` reads is summarised by the pure `parse`; every write / resize and their order are in the program).

Order of the file operations (`__save_existing`; `__save_new` the same with insert_bytes):
    get_size → [content_size < 0: error] → padding → resize_bytes(length → len(new), offset)
      = insert_bytes: seek-end, tell, resize_file (seek-end, tell, write zeros …, flush; on ENOSPC: truncate back), move_bytes
    → seek(offset) → write(new) → __update_parents: per path atom seek, read 4 [, read 12], seek, write 4/8
    → __update_offsets: per visited stco/co64/tfhd atom seek, read, seek, write.
The enlargement is FIRST and is the only step that can make the file longer; every later write lies inside the file.
So on a device of any capacity ENOSPC can only come from the enlargement, which resize_file rolls back: the file is
byte-identical.  What C19 does NOT give (and the code does not do): atomicity of the later steps — the size fields of
moov/udta/meta and the offset tables are patched one after the other AFTER the region was replaced.  Without injected
faults the only exception there is MP4MetadataError from the pure model (a size field or table entry that does not fit,
a damaged table), and the bytes left are exactly those the pure model `saveTags` says (region replaced, the steps before
the failing one done); with an injected I/O fault in those steps (C06's environment) the class is still MutagenError,
about the bytes nothing is claimed (see the example at the end).
-/
import MutagenModel.Proofs.Container.Mp4Cap
set_option linter.unusedVariables false
namespace Mutagen.C19
open Mutagen Mutagen.Mp4C

/-- refinement: without faults and without a capacity limit, MP4Tags.save as a program over the file object ends as
the pure model `saveTags` says (same exception if any) and leaves exactly its bytes — for every file content, all
rendered tags, every padding answer.  Everything proved about `saveTags` (Props/C04_Mp4, Props/C10 through
`mp4_saveAtZ_eq_saveAt`) carries over to the program. -/
theorem mp4_saveM_refines (B : Nat) (hB : 0 < B) (ilstData : Bytes) (pad : PadChoice) (s : FS) :
    ∃ s', saveTagsM B ilstData pad Env.clean s = (toExcept (saveTags true s.data ilstData pad).1, s') ∧
      s'.data = (saveTags true s.data ilstData pad).2 :=
  saveTagsM_clean B hB ilstData pad s

/-- C19 for MP4Tags.save, for EVERY capacity and leak (any `e` with `Quiet e`), every buffer size, every file content:
either ENOSPC with the file byte-identical, length included, to what it was, or the run ends exactly as the pure model
says (outcome and bytes) -/
theorem mp4_save_enlarge_first {e : Env} (hq : Quiet e) (B : Nat) (hB : 0 < B) (ilstData : Bytes) (pad : PadChoice) (s : FS) :
    (∃ s', saveTagsM B ilstData pad e s = (.error .enospc, s') ∧ s'.data = s.data) ∨
    (∃ s', saveTagsM B ilstData pad e s = (toExcept (saveTags true s.data ilstData pad).1, s') ∧
      s'.data = (saveTags true s.data ilstData pad).2) :=
  saveTagsM_q hq B hB ilstData pad s

/-- the same at the entry point (`@convert_error(IOError, error)`): MutagenError with the file byte-identical, or the
pure model's outcome (nothing or MutagenError) and bytes -/
theorem mp4_save_entry_enlarge_first {e : Env} (hq : Quiet e) (B : Nat) (hB : 0 < B) (ilstData : Bytes) (pad : PadChoice)
    (s : FS) :
    (∃ s', saveEntryM B ilstData pad e s = (.error .mutagen, s') ∧ s'.data = s.data) ∨
    (∃ s', saveEntryM B ilstData pad e s = (toExcept (saveTags true s.data ilstData pad).1, s') ∧
      s'.data = (saveTags true s.data ilstData pad).2) :=
  saveEntryM_q hq B hB ilstData pad s

/-- MP4Tags.delete (a save of the empty `ilst` with padding 0; it grows the file when the old `ilst` has no padding
next to it and is itself empty): the same -/
theorem mp4_delete_enlarge_first {e : Env} (hq : Quiet e) (B : Nat) (hB : 0 < B) (s : FS) :
    (∃ s', deleteEntryM B e s = (.error .mutagen, s') ∧ s'.data = s.data) ∨
    (∃ s', deleteEntryM B e s = (toExcept (deleteTags true s.data).1, s') ∧ s'.data = (deleteTags true s.data).2) :=
  saveEntryM_q hq B hB _ _ s

/-! ### non-vacuity -/

/-- `moov(trak(… stco [172]), udta(meta(ilst, free(4))))  mdat "AAAA"` — 176 bytes (Props/C04_Mp4 `mp4Plain`) -/
def mp4PlainM : Bytes :=
  [0x00, 0x00, 0x00, 0xa4, 0x6d, 0x6f, 0x6f, 0x76, 0x00, 0x00, 0x00, 0x74, 0x74, 0x72, 0x61, 0x6b,
   0x00, 0x00, 0x00, 0x6c, 0x6d, 0x64, 0x69, 0x61, 0x00, 0x00, 0x00, 0x20, 0x68, 0x64, 0x6c, 0x72,
   0x00, 0x00, 0x00, 0x00, 0x00, 0x00, 0x00, 0x00, 0x73, 0x6f, 0x75, 0x6e, 0x00, 0x00, 0x00, 0x00,
   0x00, 0x00, 0x00, 0x00, 0x00, 0x00, 0x00, 0x00, 0x00, 0x00, 0x00, 0x20, 0x6d, 0x64, 0x68, 0x64,
   0x00, 0x00, 0x00, 0x00, 0x00, 0x00, 0x00, 0x00, 0x00, 0x00, 0x00, 0x00, 0x00, 0x00, 0xac, 0x44,
   0x00, 0x01, 0x58, 0x88, 0x00, 0x00, 0x00, 0x00, 0x00, 0x00, 0x00, 0x24, 0x6d, 0x69, 0x6e, 0x66,
   0x00, 0x00, 0x00, 0x1c, 0x73, 0x74, 0x62, 0x6c, 0x00, 0x00, 0x00, 0x14, 0x73, 0x74, 0x63, 0x6f,
   0x00, 0x00, 0x00, 0x00, 0x00, 0x00, 0x00, 0x01, 0x00, 0x00, 0x00, 0xac, 0x00, 0x00, 0x00, 0x28,
   0x75, 0x64, 0x74, 0x61, 0x00, 0x00, 0x00, 0x20, 0x6d, 0x65, 0x74, 0x61, 0x00, 0x00, 0x00, 0x00,
   0x00, 0x00, 0x00, 0x08, 0x69, 0x6c, 0x73, 0x74, 0x00, 0x00, 0x00, 0x0c, 0x66, 0x72, 0x65, 0x65,
   0x00, 0x00, 0x00, 0x00, 0x00, 0x00, 0x00, 0x0c, 0x6d, 0x64, 0x61, 0x74, 0x41, 0x41, 0x41, 0x41]

/-- `Atom.render(b"ilst", …)` of `©nam = "x" * 50` (82 bytes): the save grows the file by 70 bytes -/
def mp4PlainIlstM : Bytes :=
  [0x00, 0x00, 0x00, 0x52, 0x69, 0x6c, 0x73, 0x74, 0x00, 0x00, 0x00, 0x4a, 0xa9, 0x6e, 0x61, 0x6d,
   0x00, 0x00, 0x00, 0x42, 0x64, 0x61, 0x74, 0x61, 0x00, 0x00, 0x00, 0x01, 0x00, 0x00, 0x00, 0x00] ++ List.replicate 50 0x78

/-- the ENOSPC branch really occurs: room for 69 of the 70 bytes, 5 bytes of the failing write leak into the file and
are truncated away again — MutagenError at the entry point, the 176 bytes as before; with room for 70 the save succeeds
and leaves what the pure model says (246 bytes, chunk offset 172 → 242) -/
example :
    (saveEntryM 32 mp4PlainIlstM (.callback fun _ _ => 0) { cap := some 245, leak := fun _ => 5 } { data := mp4PlainM }).1 =
      .error .mutagen ∧
    (saveEntryM 32 mp4PlainIlstM (.callback fun _ _ => 0) { cap := some 245, leak := fun _ => 5 } { data := mp4PlainM }).2.data =
      mp4PlainM ∧
    (saveTagsM 32 mp4PlainIlstM (.callback fun _ _ => 0) { cap := some 245, leak := fun _ => 5 } { data := mp4PlainM }).1 =
      .error .enospc ∧
    (saveEntryM 32 mp4PlainIlstM (.callback fun _ _ => 0) { cap := some 246 } { data := mp4PlainM }).1 = .ok () ∧
    (saveEntryM 32 mp4PlainIlstM (.callback fun _ _ => 0) { cap := some 246 } { data := mp4PlainM }).2.data =
      (saveTags true mp4PlainM mp4PlainIlstM (.callback fun _ _ => 0)).2 ∧
    readAt (saveEntryM 32 mp4PlainIlstM (.callback fun _ _ => 0) { cap := some 246 } { data := mp4PlainM }).2.data 120 4 =
      [0, 0, 0, 242] := by
  decide +kernel

example : Quiet { cap := some 245, leak := fun _ => 5 } := ⟨fun _ => rfl, fun _ => rfl⟩

/-- what C19 does not cover: an I/O fault AFTER the enlargement (here: the 26th file-object call after the parse, the `seek` to the
`udta` size field in `__update_parents`) — MutagenError, and the file is half-updated: region replaced and `moov` already
enlarged, `udta` / `meta` sizes and the chunk offset still the old ones -/
example :
    let r := saveEntryM 32 mp4PlainIlstM (.callback fun _ _ => 0) { failAt := fun i => if i = 25 then some .io else none }
      { data := mp4PlainM }
    r.1 = .error .mutagen ∧ r.2.data.length = 246 ∧ r.2.data ≠ (saveTags true mp4PlainM mp4PlainIlstM (.callback fun _ _ => 0)).2 ∧
      readAt r.2.data 0 4 = [0, 0, 0, 0xea] ∧ readAt r.2.data 124 4 = [0, 0, 0, 0x28] ∧ readAt r.2.data 120 4 = [0, 0, 0, 172] := by
  decide +kernel

end Mutagen.C19
