/-
Props/C08.lean — C08 "delete() removes the tags and nothing else".
Formats with a Lean container model: FLAC.
-/
import MutagenModel.Proofs.Container.Flac
import MutagenModel.Proofs.Container.ApeFile
import MutagenModel.Proofs.Container.Id3File
import MutagenModel.Proofs.Container.Iff
set_option linter.unusedVariables false
namespace Mutagen.C08
open Mutagen Mutagen.FlacC

/-- FLAC: after delete there is no Vorbis comment block and no padding payload, the foreign
blocks, prefix and audio are untouched, and deleting again changes nothing -/
theorem flac_delete (L : Layout) :
    let D := mdelete L L.blocks
    (D.blocks.filter (·.code == vcCode) = []) ∧ paddingOf D = 0 ∧ foreign D = foreign L ∧
      mdelete D D.blocks = D :=
  delete_clears L

/-- FLAC: new tags can be saved afterwards and the result is again a well-formed file -/
theorem flac_retag_after_delete (L : Layout) (hL : Good L) (v : Bytes) (hv : v.length ≤ maxSize) (pad : PadChoice) :
    Good (step (step L .delete) (.save v pad)) := by
  have h1 := step_good L hL .delete trivial
  exact (step_good _ h1.1 (.save v pad) hv).1

/-! ## free-standing ID3 files -/

/-- deleting both tags of `[ID3v2 tag][audio][ID3v1 block]` leaves exactly the audio: no header, no
padding, no ID3v1 block — and the result has no tag (`ID3Header` finds none, `find_id3v1` finds
none when the audio itself does not look like one) -/
theorem id3_delete_leaves_audio (L : Id3F.Layout) (h : L.OK) :
    Id3F.delete L.render true true = .ok L.audio := by
  have := Id3F.delete_layout L h true true
  simpa using this

/-- deleting again changes nothing (the audio alone is a layout without tags) -/
theorem id3_delete_idempotent (L : Id3F.Layout) (h : L.OK)
    (ha : (Id3F.Layout.mk [] L.audio []).OK) :
    Id3F.delete L.audio true true = .ok L.audio := by
  have := Id3F.delete_layout ⟨[], L.audio, []⟩ ha true true
  simpa [Id3F.Layout.render] using this

/-- new tags can be saved after a delete: the result is the new tag followed by the same audio -/
theorem id3_retag_after_delete (L : Id3F.Layout) (ha : (Id3F.Layout.mk [] L.audio []).OK) (vmaj : Nat)
    (hvm : vmaj = 3 ∨ vmaj = 4) (frames : Bytes) (pad : PadChoice) (p : Nat)
    (hp : getPadding pad ((0 : Int) - (frames.length + 10 : Nat)) L.audio.length = p) (hfit : frames.length + p < 2 ^ 28) :
    ∃ hd, Id3F.header vmaj (frames.length + p) = .ok hd ∧
      Id3F.save L.audio vmaj frames pad 0 [] = .ok (hd ++ frames ++ zeros p ++ L.audio) := by
  obtain ⟨hd, hh, hs⟩ := Id3F.save_layout ⟨[], L.audio, []⟩ ha vmaj hvm frames pad 0 [] p (by simpa using hp) hfit
  refine ⟨hd, hh, ?_⟩
  simpa [Id3F.Layout.render, Id3F.newV1] using hs

/-! ## APEv2-tagged files -/

/-- deleting the tag mutagen wrote leaves exactly the audio: no header, no items, no footer -/
theorem ape_delete_leaves_audio (audio : Bytes) (items : List Ape.Item)
    (hs : ((items.map Ape.encodeItem).flatten).length + 32 < 256 ^ 4) (ha : ApeF.AudioOK audio (Ape.encodeTag items)) :
    ApeF.delete (audio ++ Ape.encodeTag items) = .ok audio :=
  ApeF.delete_tag audio items hs ha

/-- deleting again changes nothing, and a new tag can be saved afterwards: it is appended to the audio -/
theorem ape_delete_idempotent_and_retag (audio newTag : Bytes) (h : ApeF.locate audio = .ok none) :
    ApeF.delete audio = .ok audio ∧ ApeF.save audio newTag = .ok (audio ++ newTag) :=
  ⟨ApeF.delete_untagged audio h, ApeF.save_untagged audio newTag h⟩

/-! ## IFF-style chunk files (AIFF, WAVE, DSDIFF) -/

/-- IFF delete removes the whole ID3 chunk — its header, its data and its pad byte, `c.render` — and
leaves the form type and the other chunks byte for byte; the file shrinks by exactly the chunk -/
theorem iff_delete_removes_chunk (d : Iff.Dialect) (hd : d.WF) (L : Iff.Layout) (h : L.OK d) (c : Iff.Chunk)
    (hc : L.id3 = some c) :
    ∃ out, Iff.delete d (L.render d) = .ok out ∧ out = Iff.renderFile d L.formType (L.before ++ L.after) ∧
      out.length + (c.render d).length = (L.render d).length ∧
      (c.render d).length = Iff.hs d + c.data.length + c.data.length % 2 := by
  have h1 := Iff.delete_layout d hd L h
  have e : L.without.render d = Iff.renderFile d L.formType (L.before ++ L.after) := by
    simp [Iff.Layout.render, Iff.Layout.without, Iff.Layout.chunks]
  have hc' := h.id3 c hc
  refine ⟨_, h1, e, ?_, by rw [Iff.length_render d c hc'.1.1.1, hc'.1.2]⟩
  rw [e, Iff.Layout.render, Iff.chunks_some L c hc, Iff.length_renderFile d hd, Iff.length_renderFile d hd]
  simp only [Iff.renderChunks_append, Iff.renderChunks, List.length_append]
  omega

/-- a file without an ID3 chunk is left alone -/
theorem iff_delete_untagged (d : Iff.Dialect) (hd : d.WF) (L : Iff.Layout) (h : L.OK d) (hc : L.id3 = none) :
    Iff.delete d (L.render d) = .ok (L.render d) := by
  have h1 := Iff.delete_layout d hd L h
  have e : L.without.render d = L.render d := by
    simp [Iff.Layout.render, Iff.Layout.without, Iff.Layout.chunks, hc, h.afterNone hc]
  rw [e] at h1; exact h1

/-- what delete leaves is a well-formed file without an ID3 chunk (when no later chunk is called like
one: mutagen removes the first ID3 chunk only) -/
theorem iff_delete_then_wellformed (d : Iff.Dialect) (L : Iff.Layout) (h : L.OK d)
    (hafter : ∀ c ∈ L.after, c.isId3 d = false) : L.without.OK d ∧ L.without.id3 = none :=
  ⟨Iff.without_ok d L h hafter, rfl⟩

/-- deleting again changes nothing -/
theorem iff_delete_idempotent (d : Iff.Dialect) (hd : d.WF) (L : Iff.Layout) (h : L.OK d)
    (hafter : ∀ c ∈ L.after, c.isId3 d = false) :
    ∃ out, Iff.delete d (L.render d) = .ok out ∧ Iff.delete d out = .ok out :=
  ⟨_, Iff.delete_layout d hd L h, iff_delete_untagged d hd _ (Iff.without_ok d L h hafter) rfl⟩

/-- a new tag can be saved after a delete: it lands in a new chunk (the dialect's id) behind all other
chunks, which stay as they are, and the result is a well-formed file again -/
theorem iff_retag_after_delete (d : Iff.Dialect) (hd : d.WF) (L : Iff.Layout) (h : L.OK d)
    (hafter : ∀ c ∈ L.after, c.isId3 d = false) (vmaj : Nat) (hvm : vmaj = 3 ∨ vmaj = 4) (frames : Bytes) (pad : PadChoice)
    (p : Nat) (hp : getPadding pad ((0 : Int) - (frames.length + 10 : Nat)) 0 = p) (hfit : frames.length + p < 2 ^ 28)
    (hroot : 4 + L.without.newExtent d (10 + frames.length + p) < 256 ^ d.sizeW) :
    ∃ out hdr out', Iff.delete d (L.render d) = .ok out ∧ Id3F.header vmaj (frames.length + p) = .ok hdr ∧
      Iff.save d out vmaj frames pad = .ok out' ∧
      out' = Iff.renderFile d L.formType (L.before ++ L.after ++ [Iff.tagChunk d.newId (hdr ++ frames ++ zeros p)]) ∧
      Iff.readFile d out' = some (L.formType, L.before ++ L.after ++ [Iff.tagChunk d.newId (hdr ++ frames ++ zeros p)]) := by
  have hw := Iff.without_ok d L h hafter
  obtain ⟨hdr, h1, h2, h3⟩ := Iff.save_layout d hd L.without hw vmaj hvm frames pad p
    (by simpa [Iff.Layout.oldLen, Iff.Layout.trailing, Iff.Layout.without] using hp) hfit hroot
  have hl : (hdr ++ frames ++ zeros p).length = 10 + frames.length + p := by simp [h2]; omega
  have hok := Iff.withTag_ok d hd L.without hw (hdr ++ frames ++ zeros p) (by rw [hl]; exact hroot)
  have hrd := Iff.readFile_layout d hd _ hok
  have hch : (L.without.withTag d (hdr ++ frames ++ zeros p)).chunks =
      L.before ++ L.after ++ [Iff.tagChunk d.newId (hdr ++ frames ++ zeros p)] := by
    simp [Iff.Layout.withTag, Iff.Layout.chunks, Iff.Layout.without, Iff.Layout.id3Id]
  refine ⟨_, hdr, _, Iff.delete_layout d hd L h, h1, h3, ?_, ?_⟩
  · simp only [Iff.Layout.render, hch]; rfl
  · rw [hch] at hrd; exact hrd

/-- the hypotheses are satisfiable: a DSDIFF file "DSD " with an FVER chunk, an ID3 chunk of 11 bytes
(one pad byte) and a PROP container chunk behind it that is not called like an ID3 chunk -/
example : ∃ L : Iff.Layout, L.OK Iff.dsdiff ∧ (∀ c ∈ L.after, c.isId3 Iff.dsdiff = false) ∧ L.id3.isSome = true := by
  refine ⟨Iff.Layout.mk [0x44, 0x53, 0x44, 0x20] [⟨[0x46, 0x56, 0x45, 0x52], [1, 5, 0, 0], []⟩]
    (some ⟨[0x49, 0x44, 0x33, 0x20], List.replicate 11 7, [0]⟩) [⟨[0x50, 0x52, 0x4F, 0x50], [0x53, 0x4E, 0x44, 0x20], []⟩],
    ⟨by decide, by decide +kernel, ?_, by decide +kernel, by simp, by decide +kernel⟩, by decide +kernel, rfl⟩
  intro c hc
  cases hc
  decide +kernel

end Mutagen.C08
