/-
Props/C08.lean — C08 "delete() removes the tags and nothing else".
Formats with a Lean container model: FLAC.
-/
import MutagenModel.Proofs.Container.Flac
set_option linter.unusedVariables false
namespace Mutagen.C08
open Mutagen Mutagen.FlacC

/-- FLAC: after delete there is no Vorbis comment block and no padding payload, the foreign
blocks, prefix and audio are untouched, and deleting again changes nothing -/
theorem flac_delete (L : Layout) :
    let D := mdelete L L.blocks
    (D.blocks.filter (·.code == vcCode) = []) ∧ paddingOf D = 0 ∧ foreign D = foreign L ∧
      mdelete D D.blocks = D :=
  delete_clears L

/-- FLAC: new tags can be saved afterwards and the result is again a well-formed file -/
theorem flac_retag_after_delete (L : Layout) (hL : Good L) (v : Bytes) (hv : v.length ≤ maxSize) (pad : PadChoice) :
    Good (step (step L .delete) (.save v pad)) := by
  have h1 := step_good L hL .delete trivial
  exact (step_good _ h1.1 (.save v pad) hv).1

end Mutagen.C08
