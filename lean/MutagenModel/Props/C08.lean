/-
Props/C08.lean — C08 "delete() removes the tags and nothing else".
Formats with a Lean container model: FLAC.
-/
import MutagenModel.Proofs.Container.Flac
import MutagenModel.Proofs.Container.ApeFile
import MutagenModel.Proofs.Container.Id3File
set_option linter.unusedVariables false
namespace Mutagen.C08
open Mutagen Mutagen.FlacC

/-- FLAC: after delete there is no Vorbis comment block and no padding payload, the foreign
blocks, prefix and audio are untouched, and deleting again changes nothing -/
theorem flac_delete (L : Layout) :
    let D := mdelete L L.blocks
    (D.blocks.filter (·.code == vcCode) = []) ∧ paddingOf D = 0 ∧ foreign D = foreign L ∧
      mdelete D D.blocks = D :=
  delete_clears L

/-- FLAC: new tags can be saved afterwards and the result is again a well-formed file -/
theorem flac_retag_after_delete (L : Layout) (hL : Good L) (v : Bytes) (hv : v.length ≤ maxSize) (pad : PadChoice) :
    Good (step (step L .delete) (.save v pad)) := by
  have h1 := step_good L hL .delete trivial
  exact (step_good _ h1.1 (.save v pad) hv).1

/-! ## free-standing ID3 files -/

/-- deleting both tags of `[ID3v2 tag][audio][ID3v1 block]` leaves exactly the audio: no header, no
padding, no ID3v1 block — and the result has no tag (`ID3Header` finds none, `find_id3v1` finds
none when the audio itself does not look like one) -/
theorem id3_delete_leaves_audio (L : Id3F.Layout) (h : L.OK) :
    Id3F.delete L.render true true = .ok L.audio := by
  have := Id3F.delete_layout L h true true
  simpa using this

/-- deleting again changes nothing (the audio alone is a layout without tags) -/
theorem id3_delete_idempotent (L : Id3F.Layout) (h : L.OK)
    (ha : (Id3F.Layout.mk [] L.audio []).OK) :
    Id3F.delete L.audio true true = .ok L.audio := by
  have := Id3F.delete_layout ⟨[], L.audio, []⟩ ha true true
  simpa [Id3F.Layout.render] using this

/-- new tags can be saved after a delete: the result is the new tag followed by the same audio -/
theorem id3_retag_after_delete (L : Id3F.Layout) (ha : (Id3F.Layout.mk [] L.audio []).OK) (vmaj : Nat)
    (hvm : vmaj = 3 ∨ vmaj = 4) (frames : Bytes) (pad : PadChoice) (p : Nat)
    (hp : getPadding pad ((0 : Int) - (frames.length + 10 : Nat)) L.audio.length = p) (hfit : frames.length + p < 2 ^ 28) :
    ∃ hd, Id3F.header vmaj (frames.length + p) = .ok hd ∧
      Id3F.save L.audio vmaj frames pad 0 [] = .ok (hd ++ frames ++ zeros p ++ L.audio) := by
  obtain ⟨hd, hh, hs⟩ := Id3F.save_layout ⟨[], L.audio, []⟩ ha vmaj hvm frames pad 0 [] p (by simpa using hp) hfit
  refine ⟨hd, hh, ?_⟩
  simpa [Id3F.Layout.render, Id3F.newV1] using hs

/-! ## APEv2-tagged files -/

/-- deleting the tag mutagen wrote leaves exactly the audio: no header, no items, no footer -/
theorem ape_delete_leaves_audio (audio : Bytes) (items : List Ape.Item)
    (hs : ((items.map Ape.encodeItem).flatten).length + 32 < 256 ^ 4) (ha : ApeF.AudioOK audio (Ape.encodeTag items)) :
    ApeF.delete (audio ++ Ape.encodeTag items) = .ok audio :=
  ApeF.delete_tag audio items hs ha

/-- deleting again changes nothing, and a new tag can be saved afterwards: it is appended to the audio -/
theorem ape_delete_idempotent_and_retag (audio newTag : Bytes) (h : ApeF.locate audio = .ok none) :
    ApeF.delete audio = .ok audio ∧ ApeF.save audio newTag = .ok (audio ++ newTag) :=
  ⟨ApeF.delete_untagged audio h, ApeF.save_untagged audio newTag h⟩

end Mutagen.C08
