/-
Props/C06_DsfLoad.lean — C06 for the LOAD of DSF files: `DSF(fileobj)` as the file-operation program
`Dsf.loadEntry` (Model/Container/DsfLoadM.lean: every read / seek / tell of DSF.load, DSFFile, ID3.load,
_pre_load_header, ID3Header, read_full and find_id3v1, in order; not: what `ID3Tags._read` and `ParseID3v1`
make of the bytes — they make no file call) in ARBITRARY fault environments and on arbitrary file contents.
-/
import MutagenModel.Proofs.Container.DsfLoad
set_option linter.unusedVariables false
namespace Mutagen.C06
open Mutagen

/-- refinement, on EVERY byte string: without injected faults and short reads the program `loadM`, started at
position 0, returns what the pure `Dsf.loadX` returns on the bytes of the file — and its first part `headM`
(everything before the ID3v1 search) what the pure `Dsf.load` of the C04 closure returns —, the file unchanged -/
theorem dsf_loadM_refines {e : Env} (hq : Quiet e) (s : FS) (h0 : s.pos = 0) :
    (∃ s1, Dsf.loadM e s = (Dsf.loadX s.data, s1) ∧ s1.data = s.data) ∧
    (∃ s1, Dsf.headM e s = (Dsf.load s.data, s1) ∧ s1.data = s.data) :=
  ⟨Dsf.loadM_q hq s h0, Dsf.headM_q hq s h0⟩

/-- DSF load under ANY fault environment (exceptions injected at any call, short reads at any read) and on any
file: what leaves the entry point is the module's error, or a non-I/O exception out of: ValueError
(`verify_fileobj`, when one of its two `read(0)` calls — call 0 and call 7 of a load — fails: the recorded
finding), an exception the environment itself injected that is not an IOError -/
theorem dsf_load_raises_only :
    Raises (fun e x => x = .mutagen ∨ (Dsf.LoadErr e x ∧ x.isIO = false)) Dsf.loadEntry :=
  Raises.convertError PyErr.isIO .mutagen Dsf.lraises_loadM

/-- … with I/O faults only: MutagenError or that ValueError — no EOFError, no struct.error, no IndexError: every
read is checked for its length (`DSF chunk truncated`, `read_full`) or taken as it comes (`ID3Header`: "too
small", `find_id3v1`) -/
theorem dsf_load_io_faults (e : Env) (hio : ∀ i x, e.failAt i = some x → x.isIO = true) (s s' : FS) (x : PyErr)
    (h : Dsf.loadEntry e s = (.error x, s')) : x = .mutagen ∨ x = .value :=
  Dsf.loadEntry_io_faults e hio s s' x h

/-- load never writes: in every environment, whatever the outcome, the bytes of the file are what they were -/
theorem dsf_load_leaves_file_untouched (e : Env) (s s' : FS) (r : Except PyErr Dsf.LoadedX)
    (h : Dsf.loadEntry e s = (r, s')) : s'.data = s.data :=
  Dsf.noWrite_loadEntry e s r s' h

/-- "a short read is taken for the end of the file", exactly: of the reads of a load
  * `read(28)`, `read(52)`, `read(12)` (the chunk loaders, twice for the DSD chunk), the `read_full` calls of the
    extended header and of the tag body: a short answer is an error ("DSF chunk truncated", IOError → error);
  * `read(10)` of `ID3Header`: a short answer is ID3NoHeaderError, whatever the file holds — this theorem —, so
    the load goes on to the ID3v1 search and ends with `tags = None` (or the ID3v1 tag) although an ID3v2 tag is
    there;
  * `read(131)` of `find_id3v1`: a short answer is searched as it is, an ID3v1 block may go unnoticed. -/
theorem dsf_short_header_read_is_no_header (e : Env) (s : FS) (k : Nat) (hf : e.failAt s.ops = none)
    (hs : e.shortAt s.ops = some k) (hk : k < 10) :
    ∃ s1, Dsf.id3HeaderFullM e s = (.ok (.error .noHeader), s1) ∧ s1.ops = s.ops + 1 :=
  Dsf.id3HeaderFullM_short e s k hf hs hk

/-! examples on the 106-byte example file (12-byte tag at 94); the calls of its load:
`r0 t r28 t r52 t r12 r0 s0 t r28 s94 r10 r2 t e r131 s106` -/

/-- the clean load: the 2 tag bytes, no ID3v1 block; the same with the `read(10)` (call 12) cut to 9 bytes:
"no tags" -/
example : (Dsf.loadEntry {} { data := Dsf.exampleLayout.render }).1 = .ok (.tag [7, 7] none) ∧
    (Dsf.loadEntry { shortAt := fun i => if i = 12 then some 9 else none } { data := Dsf.exampleLayout.render }).1 = .ok .noV2 := by
  decide +kernel

/-- an I/O error at the read of the tag body (call 13) is the module's error; at the second `verify_fileobj`
(call 7) it is ValueError; a `read(28)` cut to 27 bytes is "DSF chunk truncated" -/
example : (Dsf.loadEntry { failAt := fun i => if i = 13 then some .io else none } { data := Dsf.exampleLayout.render }).1 = .error .mutagen ∧
    (Dsf.loadEntry { failAt := fun i => if i = 7 then some .io else none } { data := Dsf.exampleLayout.render }).1 = .error .value ∧
    (Dsf.loadEntry { shortAt := fun i => if i = 2 then some 27 else none } { data := Dsf.exampleLayout.render }).1 = .error .mutagen := by
  decide +kernel

/-- the pure side of the refinement on the same file -/
example : Dsf.loadX Dsf.exampleLayout.render = .ok (.tag [7, 7] none) := by decide +kernel

end Mutagen.C06
