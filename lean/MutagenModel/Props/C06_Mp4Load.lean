/-
Props/C06_Mp4Load.lean — C06 for the LOAD of MP4 files: `MP4(fileobj)` as a program over the file object
(`loadM`, Model/Container/Mp4LoadM.lean): `Atoms(fileobj)` — the recursive atom reader, every tell / read / seek of it —,
the reads of `MP4Info.load` (`hdlr` of the tracks until the audio track, `mdhd`, `stsd`) and of `MP4Tags.load` (the
payload of every child of `ilst`), with the `convert_error(IOError, AtomError)` wrappers of `Atom.__init__` /
`Atoms.__init__` and the `except Exception: reraise(error)` wrappers of `MP4.load`.  Not in the program: `loadfile`'s
`read(0)` before all this and `MP4Chapters.load` (`mvhd`, `chpl`; same kind of wrapper).
Theorems for EVERY byte string, every start position, every fault environment.  Tie: harness/mp4file_tie.py
`run_load_faults` (outcome class, has-tags, call log, file untouched, not closed).
-/
import MutagenModel.Proofs.Container.Mp4LoadCap
import MutagenModel.Proofs.Container.Mp4Link
import MutagenModel.Proofs.Container.Mp4Chapters
set_option linter.unusedVariables false
namespace Mutagen.C06
open Mutagen Mutagen.Mp4C

/-- refinement: without injected faults and short reads (any capacity) the program returns what the pure load returns on
the bytes of the file — the atom tree of `Mp4C.parse`, the stream info, the raw payloads of the item atoms, or
MutagenError — and leaves the file as it was; in particular the fuel of the atom reader is never used up -/
theorem mp4_loadM_refines {e : Env} (hq : Quiet e) (s : FS) :
    ∃ s', loadM e s = (loadPure s.data, s') ∧ s'.data = s.data :=
  loadM_q hq s

/-- `Atoms(fileobj)` alone: the pure parser -/
theorem mp4_atomsM_refines {e : Env} (hq : Quiet e) (s : FS) :
    ∃ s', atomsM e s = (Mp4C.parse s.data, s') ∧ s'.data = s.data :=
  atomsM_q hq s

/-- under ANY fault environment (an exception injected at any file-object call, short reads at any read, any capacity):
what leaves `MP4(fileobj)` is `error` (a MutagenError), the model's fuel marker, or an exception the file object itself
raised that is NOT an IOError (the code converts IOError only; inside `MP4Info.load` / `MP4Tags.load` every Exception) -/
theorem mp4_load_raises_only :
    Raises (fun e x => x = .mutagen ∨ x = .diverge ∨ (Injected e x ∧ x.isIO = false)) loadM :=
  raises_loadM

/-- with I/O faults only (every injected exception is an IOError) and arbitrary short reads: MutagenError (or the
fuel marker) — no struct.error, EOFError, KeyError, IndexError from a short or failing read -/
theorem mp4_load_io_faults (e : Env) (hio : ∀ i x, e.failAt i = some x → x.isIO = true) (s s' : FS) (x : PyErr)
    (h : loadM e s = (.error x, s')) : x = .mutagen ∨ x = .diverge := by
  rcases raises_loadM e s x s' h with h1 | h1 | ⟨⟨i, hi⟩, hn⟩
  · exact Or.inl h1
  · exact Or.inr h1
  · rw [hio i x hi] at hn; cases hn

/-- the load never writes: whatever the environment does, the bytes of the file are as before -/
theorem mp4_load_leaves_file_untouched (e : Env) (s : FS) (r : Except PyErr Loaded) (s' : FS) (h : loadM e s = (r, s')) :
    s'.data = s.data :=
  noWrite_loadM e s r s' h

/-- the ok-direction: a normal return of `MP4(fileobj)` in ANY environment — whatever it would have injected at other
calls, whatever reads it would have cut short — returns exactly the pure load of the complete bytes: the atom tree,
the stream info and the item payloads of the whole file.  No short read is taken for the end of the file, for "no tags",
for fewer atoms or for shorter item payloads. -/
theorem mp4_load_ok_means_loaded (e : Env) (s s' : FS) (r : Loaded) (h : loadM e s = (.ok r, s')) :
    loadPure s.data = .ok r :=
  loadM_ok_means_loaded e s s' r h

/-- `MP4Tags.save` WITH its reads (`saveTagsFullM`: `Atoms(fileobj)` as the program `atomsM` instead of the summary
`peek` + `parse` of `saveTagsM`): without injected faults it continues, behind the reads, exactly as the summarised save
does on the same bytes — so `mp4_saveM_refines`, `mp4_save_enlarge_first` (Props/C19_Mp4) hold for it as well -/
theorem mp4_save_full_eq_summarised {e : Env} (hq : Quiet e) (B : Nat) (ilstData : Bytes) (pad : PadChoice) (s : FS) :
    ∃ s1, s1.data = s.data ∧ saveTagsFullM B ilstData pad e s = saveTagsM B ilstData pad e s1 :=
  saveTagsFullM_eq hq B ilstData pad s

/-- C19 for the save with its reads -/
theorem mp4_save_full_enlarge_first {e : Env} (hq : Quiet e) (B : Nat) (hB : 0 < B) (ilstData : Bytes) (pad : PadChoice) (s : FS) :
    (∃ s', saveTagsFullM B ilstData pad e s = (.error .enospc, s') ∧ s'.data = s.data) ∨
    (∃ s', saveTagsFullM B ilstData pad e s = (toExcept (saveTags true s.data ilstData pad).1, s') ∧
      s'.data = (saveTags true s.data ilstData pad).2) :=
  saveTagsFullM_q hq B hB ilstData pad s

/-! ### C06 for the save that performs its reads (`saveFullEntryM`: `@convert_error(IOError, error)` around `saveTagsFullM`) -/

/-- once `Atoms(fileobj)` has returned normally — in ANY environment — its atoms are the pure parse of the complete bytes
(no short read is mistaken for the end of the file) and the save continues as the summarised `saveTagsM` on those bytes;
if it raised, that exception is the save's -/
theorem mp4_save_full_after_reads (B : Nat) (ilstData : Bytes) (pad : PadChoice) (e : Env) (s : FS) :
    (∃ x s1, atomsM e s = (.error x, s1) ∧ saveTagsFullM B ilstData pad e s = (.error x, s1)) ∨
    (∃ atoms s1, atomsM e s = (.ok atoms, s1) ∧ s1.data = s.data ∧ Mp4C.parse s.data = .ok atoms ∧
      saveTagsFullM B ilstData pad e s = saveTagsM B ilstData pad e s1) :=
  saveTagsFullM_after_reads B ilstData pad e s

/-- under ANY fault environment what leaves the entry point is `error`, or a non-I/O exception (one the file object
injected, ValueError from an argument check, the BUFFER_SIZE = 0 / fuel marker) -/
theorem mp4_save_full_raises_only (B : Nat) (ilstData : Bytes) (pad : PadChoice) :
    Raises (fun e x => x = .mutagen ∨ ((x = .mutagen ∨ PrimErr e x) ∧ x.isIO = false)) (saveFullEntryM B ilstData pad) :=
  Raises.convertError PyErr.isIO .mutagen (raises_saveTagsFullM B ilstData pad)

/-- with I/O faults only (and arbitrary short reads): MutagenError, ValueError or the marker -/
theorem mp4_save_full_io_faults (B : Nat) (ilstData : Bytes) (pad : PadChoice)
    (e : Env) (hio : ∀ i x, e.failAt i = some x → x.isIO = true) (s s' : FS) (x : PyErr)
    (h : saveFullEntryM B ilstData pad e s = (.error x, s')) : x = .mutagen ∨ x = .value ∨ x = .diverge := by
  rcases mp4_save_full_raises_only B ilstData pad e s x s' h with h1 | ⟨h2, hn⟩
  · exact Or.inl h1
  · rcases h2 with h2 | h2
    · exact Or.inl h2
    · rcases h2 with ⟨i, hi⟩ | h2 | h2 | h2 | h2
      · have := hio i x hi; rw [this] at hn; cases hn
      · subst h2; cases hn
      · exact Or.inr (Or.inl h2)
      · subst h2; cases hn
      · exact Or.inr (Or.inr h2)

/-- success means written: a normal return of the save with its reads — any environment without short reads, any
capacity — means the pure model finished without an exception and the file holds exactly its result -/
theorem mp4_save_full_ok_means_written (B : Nat) (hB : 0 < B) (ilstData : Bytes) (pad : PadChoice) (e : Env)
    (hshort : ∀ i, e.shortAt i = none) (s s' : FS) (h : saveFullEntryM B ilstData pad e s = (.ok (), s')) :
    (saveTags true s.data ilstData pad).1 = none ∧ s'.data = (saveTags true s.data ilstData pad).2 :=
  saveTagsFullM_ok_means_written B hB ilstData pad e hshort s s' (convertError_ok _ _ _ e s s' () h)

/-! ### short reads

No read of the MP4 load takes a short read for the end of the file: the atom reader checks every header read for its
8 bytes (`struct.error` → AtomError "truncated data"), decides where a container ends by `tell()`, not by reads, and
`atom.read` compares the length it got with `datalength` ("Not enough data").  So a short read makes the load raise
MutagenError; it never makes it see "no tags" or fewer atoms: `mp4_load_ok_means_loaded` above (and the tie checks it
at every read with budgets 0, 1, n/2).  The example: on the
47-byte file `moov(udta(meta(ilst(©nam "abc"))))` the clean run makes 30 calls and returns the raw item payload; an
IOError at the first, a middle and the last call, and a short read at the first header read, at a child header read and
at the read of the item payload, all end in MutagenError; nothing is written. -/

def mp4LoadEx : Bytes :=
  [0, 0, 0, 0x2f, 0x6d, 0x6f, 0x6f, 0x76, 0, 0, 0, 0x27, 0x75, 0x64, 0x74, 0x61, 0, 0, 0, 0x1f, 0x6d, 0x65, 0x74, 0x61, 0, 0, 0, 0,
   0, 0, 0, 0x13, 0x69, 0x6c, 0x73, 0x74, 0, 0, 0, 0x0b, 0xa9, 0x6e, 0x61, 0x6d, 0x61, 0x62, 0x63]

example :
    ([0, 14, 29].all fun i =>
      (loadM { failAt := fun j => if j = i then some .io else none } { data := mp4LoadEx }).1.toOption.isNone) = true ∧
    ([(5, 7), (17, 0), (29, 2)].all fun ik =>
      match (loadM { shortAt := fun j => if j = ik.1 then some ik.2 else none } { data := mp4LoadEx }).1 with
      | .error .mutagen => true
      | _ => false) = true ∧
    (loadM {} { data := mp4LoadEx }).2.ops = 30 ∧
    (match (loadM {} { data := mp4LoadEx }).1 with | .ok r => r.tags | .error _ => none) =
      some [([0xa9, 0x6e, 0x61, 0x6d], [0x61, 0x62, 0x63])] ∧
    (loadM { failAt := fun j => if j = 14 then some .io else none } { data := mp4LoadEx }).2.data = mp4LoadEx := by
  decide +kernel

/-! ### the complete load: with `MP4Chapters` (`loadFullM` = `loadM`, then the two `atom.read`s of the chapters) -/

/-- refinement: without injected faults (any capacity) the complete `MP4(fileobj)` — atoms, stream info, tags, chapters —
returns what the pure load returns on the bytes, and the file is unchanged -/
theorem mp4_load_full_refines {e : Env} (hq : Quiet e) (s : FS) :
    ∃ s', loadFullM e s = (loadFullPure s.data, s') ∧ s'.data = s.data :=
  loadFullM_q hq s

/-- under ANY fault environment: `error`, the fuel marker, or a non-IOError the file object itself raised — an IOError in
one of the chapter reads is an `Exception` and leaves as `MP4MetadataError` -/
theorem mp4_load_full_raises : Raises LP' loadFullM := raises_loadFullM

/-- … and the bytes of the file are as before, whatever happens -/
theorem mp4_load_full_never_writes : NoWrite loadFullM := noWrite_loadFullM

/-- `a = MP4(f); a.save(f)` on ONE file object, nothing summarised (the complete load with its reads, then `MP4Tags.save`
with its own `Atoms(fileobj)`), no injected faults, every capacity: the load's exception with the file untouched; else
ENOSPC with the file byte-identical, or the outcome and the bytes of the pure `saveTags` -/
theorem mp4_load_then_save {e : Env} (hq : Quiet e) (B : Nat) (hB : 0 < B) (ilstData : Bytes) (pad : PadChoice) (s : FS) :
    match loadFullPure s.data with
    | .error x => ∃ s', loadSaveM B ilstData pad e s = (.error x, s') ∧ s'.data = s.data
    | .ok _ =>
      (∃ s', loadSaveM B ilstData pad e s = (.error .enospc, s') ∧ s'.data = s.data) ∨
      (∃ s', loadSaveM B ilstData pad e s = (toExcept (saveTags true s.data ilstData pad).1, s') ∧
        s'.data = (saveTags true s.data ilstData pad).2) :=
  loadSaveM_q hq B hB ilstData pad s

end Mutagen.C06
