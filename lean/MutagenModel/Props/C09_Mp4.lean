/-
Props/C09_Mp4.lean — C09 "The padding callback is obeyed and existing padding is reused", MP4 layouts
(Model/Container/Mp4Layout.lean; lemmas Proofs/Container/Mp4Props.lean); `__save_existing`.
-/
import MutagenModel.Proofs.Container.Mp4Props
set_option linter.unusedVariables false
namespace Mutagen.C09
open Mutagen Mutagen.Mp4C

/-- the callback (or the default policy) is offered `length − (len(ilst_data) + 8)`, `length` = the extent of the old
region (`ilst` plus the adjacent `free` atom, headers included) and `8` = the header of the new `free` atom, and as
`size` the number of bytes behind the region; the `free` atom of the saved layout then holds exactly
`min(answer, 0xFFFFFFFF)` zero bytes — NO padding (an empty `free` atom) for a negative answer, which is not an error
for MP4; an answer above 0xFFFFFFF7 gives a `free` atom with a 64-bit header.  The file is that layout followed by the
table steps (`C02.mp4_save_preserves_foreign`). -/
theorem mp4_padding_obeyed (mem : Bool) (L : Layout) (h : L.OK) (items : List Atom) (pad : PadChoice)
    (hfit : wfList (L.saved items pad).top) :
    saveTags mem L.render (ilstData items) pad = runSteps (L.tableSteps items pad) (L.saved items pad).render ∧
    (L.saved items pad).mid = [Atom.node nIlst false [] items, (L.saved items pad).free] ∧
    (L.saved items pad).free = Atom.leaf nFree (decide (L.newPadding items pad + 8 > 0xFFFFFFFF)) (zeros (L.newPadding items pad)) ∧
    (L.newPadding items pad : Int) =
      max 0 (min 0xFFFFFFFF (getPadding pad ((sizeList L.mid : Int) - (((ilstData items).length + 8 : Nat) : Int))
        (L.render.length - (holeOffset 0 L.frames L.hole + sizeList L.mid)))) := by
  refine ⟨saveTags_layout mem L h items pad hfit, rfl, rfl, ?_⟩
  unfold Layout.newPadding
  omega

/-- answering what was offered (a non-negative amount a 32-bit `free` atom can hold) is in place: the size change is 0,
no size field and no offset table is touched, the file is the saved layout and has the length of the old file -/
theorem mp4_keep_is_inplace (mem : Bool) (L : Layout) (h : L.OK) (items : List Atom) (pad : PadChoice)
    (hfit : wfList (L.saved items pad).top) (offer : Nat)
    (hoffer : (sizeList L.mid : Int) - (((ilstData items).length + 8 : Nat) : Int) = offer) (hsmall : offer + 8 ≤ 0xFFFFFFFF)
    (hkeep : getPadding pad offer (L.render.length - (holeOffset 0 L.frames L.hole + sizeList L.mid)) = offer) :
    L.delta items pad = 0 ∧ L.tableSteps items pad = [] ∧
    saveTags mem L.render (ilstData items) pad = (none, (L.saved items pad).render) ∧
    (L.saved items pad).render.length = L.render.length := by
  have hd := delta_zero_of_keep L items pad hfit offer hoffer hsmall hkeep
  have hno := tableSteps_of_delta_zero L items pad hd
  refine ⟨hd, hno, saveTags_layout_exact mem L h items pad hfit hno, ?_⟩
  unfold Layout.render
  have h1 : wfList (fill L.frames L.hole (L.saved items pad).mid) := hfit
  have h2 : wfList (fill L.frames L.hole L.mid) := h.1
  unfold Layout.delta at hd
  show (renderList (fill L.frames L.hole (L.saved items pad).mid)).length = (renderList (fill L.frames L.hole L.mid)).length
  rw [length_renderList _ h1, length_renderList _ h2, sizeList_fill, sizeList_fill]
  have : sizeList (L.saved items pad).mid = sizeList L.mid := by omega
  rw [this]

/-- without a callback an edit that fits into the existing padding of moderate size does not resize the file: when the
space left (`offer`) is between 0 and `10 KiB + 1 % of the trailing data`, the default policy answers `offer` -/
theorem mp4_default_reuses_padding (mem : Bool) (L : Layout) (h : L.OK) (items : List Atom)
    (hfit : wfList (L.saved items .default).top) (offer : Nat)
    (hoffer : (sizeList L.mid : Int) - (((ilstData items).length + 8 : Nat) : Int) = offer) (hsmall : offer + 8 ≤ 0xFFFFFFFF)
    (hmod : offer ≤ 10240 + (L.render.length - (holeOffset 0 L.frames L.hole + sizeList L.mid)) / 100) :
    saveTags mem L.render (ilstData items) .default = (none, (L.saved items .default).render) ∧
    (L.saved items .default).render.length = L.render.length := by
  have hkeep : getPadding .default offer (L.render.length - (holeOffset 0 L.frames L.hole + sizeList L.mid)) = offer := by
    unfold getPadding Generated.defaultPadding
    simp only []
    split
    · split <;> omega
    · omega
  have := mp4_keep_is_inplace mem L h items .default hfit offer hoffer hsmall hkeep
  exact ⟨this.2.2.1, this.2.2.2⟩

/-- satisfiable: new items one byte shorter than the old ones leave 5 bytes for the `free` atom of the example, kept by the default policy -/
example : exLayout.OK ∧ wfList (exLayout.saved [.leaf [0xa9, 0x6e, 0x61, 0x6d] false [7, 7]] .default).top ∧
    (sizeList exLayout.mid : Int) - (((ilstData [.leaf [0xa9, 0x6e, 0x61, 0x6d] false [7, 7]]).length + 8 : Nat) : Int) = (5 : Nat) ∧
    exLayout.newPadding [.leaf [0xa9, 0x6e, 0x61, 0x6d] false [7, 7]] .default = 5 ∧
    exLayout.newPadding exItems (.callback fun _ _ => -3) = 0 := by
  decide +kernel

end Mutagen.C09
