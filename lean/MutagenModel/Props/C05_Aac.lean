/-
Props/C05_Aac.lean — C05 / C04 statements for AAC ADTS / ADIF (mutagen/aac.py `AACInfo`).
Layout: Spec/Info/Aac.lean (ADTS header), parser: Model/Info/Aac.lean, frequency table: Generated/Tables.lean.

NOT proved here: `aac_info_decodes` for all header field values (the frame loop over a symbolic frame list);
the statements below are totality, the table rows, and closed instances checked by kernel evaluation.
-/
import MutagenModel.Proofs.Info.Aac
set_option linter.unusedVariables false
namespace Mutagen.C05
open Mutagen Mutagen.Info Mutagen.Info.Aac Mutagen.Spec.Aac

/-- every row of mutagen's `_FREQS` (regenerated from the source) is the sampling frequency of ISO/IEC 14496-3
table 1.18, for the 13 defined indices; the indices 13..15 give 0 Hz -/
theorem aac_freqs_rows :
    (∀ i < 13, Generated.aacFreqs[i]? = some (Spec.Tables.aacFreqs.getD i 0)) ∧
    (∀ i < 16, 13 ≤ i → (Generated.aacFreqs[i]?).getD 0 = 0) := by decide

/-- C04 side: on EVERY byte string `AACInfo` (ADTS and ADIF paths, ID3 skipping, the ten sync tries, the
frame loop, every program config element) either succeeds or raises a `MutagenError` (`AACError`); the
`assert`s of the stream properties are never reached without a parsed frame. -/
theorem aac_info_total (f : Bytes) : ∀ e, parse f = .error e → e = .mutagen := parse_total f

/-- a stream of four 44100 Hz stereo frames (MPEG-4 LC, no CRC) of 16, 17, 18, 19 bytes -/
def adtsSample : Adts :=
  { id := 0, protectionAbsent := 1, profile := 1, sfIndex := 4, privateBit := 0, chanConfig := 2, original := 0, home := 0,
    frames := [⟨0, 0x7FF, 0, List.replicate 9 0x21⟩, ⟨0, 0x7FF, 0, List.replicate 10 0x21⟩,
               ⟨0, 0x7FF, 0, List.replicate 11 0x21⟩, ⟨0, 0x7FF, 0, List.replicate 12 0x21⟩] }

/-- closed instance: rate, channels and raw-data bit rate are the encoded ones; the duration the headers encode is
4096 / 44100, mutagen's estimate scales it by (file size - 1) / (bytes parsed) = 69/70 — its `length` is
documented as a guess (70·4096 samples·bytes over 70·44100; reported 4096·69 / (70·44100)). -/
theorem adts_sample_decodes :
    adtsSample.OK ∧ (expected adtsSample).length = ⟨4096, 44100⟩ ∧
    parse (build adtsSample) = .ok { expected adtsSample with length := ⟨4096 * 69, 70 * 44100⟩ } := by decide +kernel

/-- DEFECT witness (known finding AAC_ADTS:channels): channel_configuration 0 (layout in an in-band program config
element) is reported as 0 channels. -/
theorem adts_chanconfig0_reports_zero_channels :
    ({ adtsSample with chanConfig := 0 } : Adts).OK ∧
    (parse (build { adtsSample with chanConfig := 0 })).toOption.map (·.channels) = some 0 := by decide +kernel

end Mutagen.C05
