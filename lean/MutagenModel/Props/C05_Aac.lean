/-
Props/C05_Aac.lean — C05 / C04 statements for AAC ADTS / ADIF (mutagen/aac.py `AACInfo`).
Layout: Spec/Info/Aac.lean (ADTS header), parser: Model/Info/Aac.lean, frequency table: Generated/Tables.lean.

-/
import MutagenModel.Proofs.Info.Aac
import MutagenModel.Proofs.Info.AacLong
import MutagenModel.Proofs.Info.Adif
set_option linter.unusedVariables false
namespace Mutagen.C05
open Mutagen Mutagen.Info Mutagen.Info.Aac Mutagen.Spec.Aac

/-- every row of mutagen's `_FREQS` (regenerated from the source) is the sampling frequency of ISO/IEC 14496-3
table 1.18, for the 13 defined indices; the indices 13..15 give 0 Hz -/
theorem aac_freqs_rows :
    (∀ i < 13, Generated.aacFreqs[i]? = some (Spec.Tables.aacFreqs.getD i 0)) ∧
    (∀ i < 16, 13 ≤ i → (Generated.aacFreqs[i]?).getD 0 = 0) := by decide

/-- C04 side: on EVERY byte string `AACInfo` (ADTS and ADIF paths, ID3 skipping, the ten sync tries, the
frame loop, every program config element) either succeeds or raises a `MutagenError` (`AACError`); the
`assert`s of the stream properties are never reached without a parsed frame. -/
theorem aac_info_total (f : Bytes) : ∀ e, parse f = .error e → e = .mutagen := parse_total f

/-- the bit fields of a big-endian word inside a file, read through the model's bit reader, are the arithmetic
bit fields of the word -/
theorem aac_bitreader_word (pre more : Bytes) (k H off w : Nat) (h : off + w ≤ 8 * k) :
    bitsAt (pre ++ (toBE k H ++ more)) (8 * pre.length + off) w = H / 2 ^ (8 * k - off - w) % 2 ^ w :=
  bitsAt_word pre more k H off w h

/-- C05 for AAC ADTS: for EVERY stream of 3 to 100 frames with a common fixed header — MPEG-2/4 ID, all four
profiles, the 13 sampling-frequency indices, private / original / home bits, protection absent or present — and per
frame any copyright bits, buffer fullness, 1-4 raw data blocks and any body bytes (frame length up to 8191), the
file consisting of these frames, `AACInfo` reports exactly the encoded sampling frequency, the channel count of the
channel configuration, the bit rate of the raw data blocks (`payload bits · rate // samples`, headers and
error-check data excluded) and, as `length`, its documented estimate `samples · (N - 1) / (N · rate)` (N = file size)
— PROVIDED the channel configuration is not 0 (the layout then travels in a program config element inside the raw
data, which mutagen does not read: `adts_chanconfig0_reports_zero_channels`).  (Of a longer stream mutagen looks at
the first 100 frames only.) -/
theorem aac_adts_info_decodes_partial (h : Adts) (ok : h.OK) (hcc : h.chanConfig ≠ 0) (h100 : h.frames.length ≤ 100) :
    parse (build h) = .ok { expected h with length := lengthEstimate h } :=
  parse_adts h ok h100

/-- C05 for AAC ADTS streams of MORE than 100 frames (same header and frame ranges as above): mutagen stops after 100
frames.  Rate and channel count are the encoded ones; the bit rate is that of the raw data blocks of the first 100
frames, and `length` is the guess `samples₁₀₀ · (N - 1) / (bytes₁₀₀ · rate)` — the 100 frames' samples scaled from
their bytes to the file size N (`Spec.Aac.expectedFirst100`); for a constant-bit-rate stream that is the duration
`samples / rate` up to the factor (N - 1) / N.  Channel configuration 0 excluded as above. -/
theorem aac_adts_info_decodes_long_partial (h : Adts) (ok : h.OK) (hcc : h.chanConfig ≠ 0) (hlong : 100 < h.frames.length) :
    parse (build h) = .ok (expectedFirst100 h) :=
  parse_adts_long h ok hlong

/-- C05 for AAC ADIF: for EVERY adif_header the specification allows — optional 72-bit copyright id, original / home bits,
bitstream type, 23-bit bit rate, buffer fullness, and 1..16 program config elements each with any instance tag, object
type, one of the 13 sampling frequencies, up to 15 front / side / back elements (single or pair, any tag), up to 3 LFE, 7
associated-data and 15 coupling elements, optional mono / stereo / matrix mixdown fields, byte alignment and up to 255
comment bytes — followed by any payload, `AACInfo` reports the sampling frequency and the channel count (1 per single
element, 2 per pair, 1 per LFE) of the FIRST program config element, the bit rate field, and as `length` its documented
guess `8 · (bytes behind the header) / bitrate` — PROVIDED the stream is variable-rate or has a single program config
element: for constant-rate streams the standard puts adif_buffer_fullness in front of EVERY program config element,
mutagen skips it only in front of the first (`adif_cbr_second_pce_misread`). -/
theorem aac_adif_info_decodes_partial (h : Adif) (ok : h.OK) (hyp : h.bitstreamType = 1 ∨ h.more = []) :
    parse h.build = .ok h.expected :=
  parse_adif h ok hyp

/-! how far the ADIF layout of Spec/Info/Aac.lean is cross-checked: `Pce.bits` against the program_config_element of
harness/gen/headers_more.py (`_pce_bits`, written independently from the standard; used there for ADTS and MP4): 224
layouts × start offsets × frequency / object type in harness/info_tie_a.py (`extra_builder_checks`), all EQUAL — fixed
fields, the front / side / back element lists, LFE tags, byte alignment at every offset, the comment length byte.  Not
exercised there: the mixdown fields, associated-data and coupling elements, comment bytes.  headers_more has no ADIF
file builder: the adif_header itself (copyright id, bitstream type, bit rate, count, and the buffer fullness in front of
EVERY program config element, on which `adif_cbr_second_pce_misread` rests) is NOT cross-checked.  The Lean builder's
files are tied to mutagen through the lattice `adif-*` (model = real code on every built file). -/

/-- a program config element read through the bit reader, for all values (any position, anything behind it) -/
theorem aac_pce_decodes (f : Bytes) (r : R) (p : Pce) (ok : p.OK) (rest : List Bool) (h : At f r (p.bits r.pos ++ rest)) :
    parsePce f r = some (p.sfIndex, p.channels, ⟨r.start, r.pos + (p.bits r.pos).length⟩) :=
  (pce_at f r p ok rest h).1

/-- a constant-rate 128 kbit/s ADIF header with two stereo program config elements (44.1 and 48 kHz) and 50 payload bytes -/
def adifCbr2 : Adif :=
  ⟨none, 0, 0, 0, 128000, 0xFFFFF, ⟨0, 1, 4, [⟨1, 0⟩], [], [], [], [], [], none, none, none, []⟩,
    [(0xFFFFF, ⟨0, 1, 3, [⟨1, 0⟩], [], [], [], [], [], none, none, none, []⟩)], List.replicate 50 0x21⟩

/-- NEW finding: the second element's buffer fullness (20 one-bits) is parsed as the start of a program config element
with 15+15+15 channel elements; the reader ends 11 bytes behind the end of the file and the guess is negative.
Repro: `AAC(io.BytesIO(bytes.fromhex("41444946003e8003ffffe0a08000040000fffff04c4000020000" + "21"*50))).info.length` = -88/128000
(the header encodes 400 payload bits: 400/128000). -/
theorem adif_cbr_second_pce_misread :
    adifCbr2.OK ∧ adifCbr2.expected.length = ⟨400, 128000⟩ ∧
    parse adifCbr2.build = .ok { adifCbr2.expected with length := ⟨-88, 128000⟩ } := by decide +kernel

/-- a stream of four 44100 Hz stereo frames (MPEG-4 LC, no CRC) of 16, 17, 18, 19 bytes -/
def adtsSample : Adts :=
  { id := 0, protectionAbsent := 1, profile := 1, sfIndex := 4, privateBit := 0, chanConfig := 2, original := 0, home := 0,
    frames := [⟨0, 0x7FF, 0, List.replicate 9 0x21⟩, ⟨0, 0x7FF, 0, List.replicate 10 0x21⟩,
               ⟨0, 0x7FF, 0, List.replicate 11 0x21⟩, ⟨0, 0x7FF, 0, List.replicate 12 0x21⟩] }

/-- closed instance: rate, channels and raw-data bit rate are the encoded ones; the duration the headers encode is
4096 / 44100, mutagen's estimate scales it by (file size - 1) / (bytes parsed) = 69/70 — its `length` is
documented as a guess (70·4096 samples·bytes over 70·44100; reported 4096·69 / (70·44100)). -/
theorem adts_sample_decodes :
    adtsSample.OK ∧ (expected adtsSample).length = ⟨4096, 44100⟩ ∧
    parse (build adtsSample) = .ok { expected adtsSample with length := ⟨4096 * 69, 70 * 44100⟩ } := by decide +kernel

/-- DEFECT witness (known finding AAC_ADTS:channels): channel_configuration 0 (layout in an in-band program config
element) is reported as 0 channels. -/
theorem adts_chanconfig0_reports_zero_channels :
    ({ adtsSample with chanConfig := 0 } : Adts).OK ∧
    (parse (build { adtsSample with chanConfig := 0 })).toOption.map (·.channels) = some 0 := by decide +kernel

end Mutagen.C05
