/-
Props/C05.lean — C05 "Stream information equals what the headers encode".
Property theorems only.  Tables come from Generated/Tables.lean, regenerated from the
source on every run, and are compared with the specification side's tables.
-/
import MutagenModel.Proofs.Bits
import MutagenModel.Model.Info.Mpeg
import MutagenModel.Model.Info.Flac
import MutagenModel.Spec.Mpeg
import MutagenModel.Spec.Tables
import MutagenModel.Generated.Vbr
set_option linter.unusedVariables false
namespace Mutagen.C05
open Mutagen Mutagen.Mpeg Mutagen.Spec.Mpeg

/-! ### tables -/

/-- every row of mutagen's MPEG bitrate and sample-rate tables equals the ISO tables -/
theorem mpeg_tables_match_iso :
    (∀ ver ∈ [10, 20, 25], ∀ lay ∈ [1, 2, 3], ∀ idx ∈ List.range 15,
      lookupBitrate Generated.mpegBitrates ver lay idx = some (isoBitrate ver lay idx)) ∧
    (∀ ver ∈ [10, 20, 25], ∀ idx ∈ List.range 3,
      lookupRate Generated.mpegRates ver idx = some (isoRate ver idx)) := by decide

/-- the other codecs' rate tables equal the published ones -/
theorem codec_tables_match_spec :
    Generated.wavpackRates = Spec.Tables.wavpackRates ∧
    Generated.musepackRates = Spec.Tables.musepackRates ∧
    Generated.aacFreqs = Spec.Tables.aacFreqs ∧
    Generated.ac3SampleRates = Spec.Tables.ac3SampleRates ∧
    Generated.ac3Bitrates = Spec.Tables.ac3Bitrates ∧
    Generated.eac3Blocks = Spec.Tables.eac3Blocks ∧
    Generated.ac3Channels = Spec.Tables.ac3Channels := by decide

/-! ### MPEG audio header: the full version × layer × protection × bitrate × rate × padding × mode product -/

/-- what ISO says a header with these raw fields means (None = not a valid header) -/
def isoMeaning (version layer protection bitrate sampleRate padding mode : Nat) : Except PyErr FrameInfo :=
  if version = 1 ∨ layer = 0 ∨ sampleRate = 3 ∨ bitrate = 15 ∨ bitrate = 0 then .error .mutagen
  else
    let ver := match version with | 0 => 25 | 2 => 20 | _ => 10
    let lay := 4 - layer
    let br := isoBitrate ver lay bitrate * 1000
    let sr := isoRate ver sampleRate
    .ok { version10 := ver, layer := lay, bitrate := br, sampleRate := sr,
          channels := if mode = 3 then 1 else 2, mode := mode, padding := padding = 1,
          crcProtected := protection = 0, frameLength := isoFrameLength ver lay br sr padding }

def productOK : Bool :=
  (List.range 4).all fun v => (List.range 4).all fun l => (List.range 2).all fun p =>
  (List.range 16).all fun b => (List.range 4).all fun s => (List.range 2).all fun pad =>
  (List.range 4).all fun m => ofFields v l p b s pad m == isoMeaning v l p b s pad m

theorem product_check : productOK = true := by decide +kernel

theorem ofFields_iso (v l p b s pad m : Nat) (hv : v < 4) (hl : l < 4) (hp : p < 2) (hb : b < 16)
    (hs : s < 4) (hpad : pad < 2) (hm : m < 4) : ofFields v l p b s pad m = isoMeaning v l p b s pad m := by
  have h := product_check
  simp only [productOK, List.all_eq_true, List.mem_range, beq_iff_eq] at h
  exact h v hv l hl p hp b hb s hs pad hpad m hm

/-- C05 for MPEG audio: for EVERY header (all 2^21 combinations of the fields after the sync
word, reserved/private/mode-extension/copyright/emphasis bits included) the decoded version,
layer, bitrate, sample rate, channel count, padding and frame length are the ISO values, and
exactly the ISO-invalid combinations are rejected. -/
theorem mpeg_header_decodes (v l p b s pad priv m rest : Nat) (hv : v < 4) (hl : l < 4) (hp : p < 2)
    (hb : b < 16) (hs : s < 4) (hpad : pad < 2) (hpriv : priv < 2) (hm : m < 4) (hrest : rest < 64)
    (tail : Bytes) :
    decodeHeader (buildHeader v l p b s pad priv m rest ++ tail) = isoMeaning v l p b s pad m := by
  have hlen : (buildHeader v l p b s pad priv m rest).length = 4 := by
    simp [buildHeader, length_bitsToBytes, length_packFields]
  have htake : (buildHeader v l p b s pad priv m rest ++ tail).take 4 = buildHeader v l p b s pad priv m rest := by
    rw [List.take_append_of_le_length (by omega), List.take_of_length_le (by omega)]
  unfold decodeHeader
  rw [htake]
  have hf := readFields_bytes [(11, 0x7ff), (2, v), (2, l), (1, p), (4, b), (2, s), (1, pad), (1, priv), (2, m), (6, rest)]
    (by
      intro f hfm
      simp only [List.mem_cons, List.mem_nil_iff, or_false] at hfm
      rcases hfm with h | h | h | h | h | h | h | h | h | h <;> subst h <;> simp <;> omega)
    (by simp only [List.map_cons, List.map_nil, List.sum_cons, List.sum_nil]; decide)
  simp only [List.map_cons, List.map_nil] at hf
  unfold buildHeader
  rw [hf]
  simp only [ne_eq, not_true_eq_false, ↓reduceIte]
  exact ofFields_iso v l p b s pad m hv hl hp hb hs hpad hm

/-- a header without the 11-bit sync word is not a frame -/
theorem mpeg_no_sync_rejected (sync v l p b s pad priv m rest : Nat) (hsync : sync < 2 ^ 11) (hne : sync ≠ 0x7ff)
    (hv : v < 4) (hl : l < 4) (hp : p < 2) (hb : b < 16) (hs : s < 4) (hpad : pad < 2) (hpriv : priv < 2)
    (hm : m < 4) (hrest : rest < 64) :
    decodeHeader (bitsToBytes (packFields [(11, sync), (2, v), (2, l), (1, p), (4, b), (2, s), (1, pad),
      (1, priv), (2, m), (6, rest)])) = .error .mutagen := by
  have hf := readFields_bytes [(11, sync), (2, v), (2, l), (1, p), (4, b), (2, s), (1, pad), (1, priv), (2, m), (6, rest)]
    (by
      intro f hfm
      simp only [List.mem_cons, List.mem_nil_iff, or_false] at hfm
      rcases hfm with h | h | h | h | h | h | h | h | h | h <;> subst h <;> simp <;> omega)
    (by simp only [List.map_cons, List.map_nil, List.sum_cons, List.sum_nil]; decide)
  simp only [List.map_cons, List.map_nil] at hf
  unfold decodeHeader
  rw [List.take_of_length_le (by simp [length_bitsToBytes, length_packFields]), hf]
  simp [hne]

/-! ### FLAC STREAMINFO: every value of every bit field up to its 16/24/20/3/5/36/128-bit limit -/

open Mutagen.Flac in
/-- the STREAMINFO block of the FLAC format specification built from its nine fields -/
def buildStreamInfo (s : StreamInfo) : Bytes :=
  bitsToBytes (packFields [(16, s.minBlocksize), (16, s.maxBlocksize), (24, s.minFramesize),
    (24, s.maxFramesize), (20, s.sampleRate), (3, s.channels - 1), (5, s.bitsPerSample - 1),
    (36, s.totalSamples), (128, s.md5)])

open Mutagen.Flac in
theorem streaminfo_decode_build (s : StreamInfo)
    (h1 : s.minBlocksize < 2 ^ 16) (h2 : s.maxBlocksize < 2 ^ 16) (h3 : s.minFramesize < 2 ^ 24)
    (h4 : s.maxFramesize < 2 ^ 24) (h5 : s.sampleRate < 2 ^ 20) (h5' : s.sampleRate ≠ 0)
    (h6 : 1 ≤ s.channels ∧ s.channels ≤ 8) (h7 : 1 ≤ s.bitsPerSample ∧ s.bitsPerSample ≤ 32)
    (h8 : s.totalSamples < 2 ^ 36) (h9 : s.md5 < 2 ^ 128) (tail : Bytes) :
    siLoad (buildStreamInfo s ++ tail) = .ok s := by
  have hlen : (buildStreamInfo s).length = 34 := by
    simp [buildStreamInfo, length_bitsToBytes, length_packFields]
  have htake : (buildStreamInfo s ++ tail).take 34 = buildStreamInfo s := by
    rw [List.take_append_of_le_length (by omega), List.take_of_length_le (by omega)]
  unfold siLoad
  have hl : ¬ (buildStreamInfo s ++ tail).length < 34 := by simp [hlen]
  simp only [hl, ↓reduceIte, htake]
  have hf := readFields_bytes [(16, s.minBlocksize), (16, s.maxBlocksize), (24, s.minFramesize),
    (24, s.maxFramesize), (20, s.sampleRate), (3, s.channels - 1), (5, s.bitsPerSample - 1),
    (36, s.totalSamples), (128, s.md5)]
    (by
      intro f hfm
      simp only [List.mem_cons, List.mem_nil_iff, or_false] at hfm
      rcases hfm with h | h | h | h | h | h | h | h | h <;> subst h <;> simp <;> omega)
    (by simp only [List.map_cons, List.map_nil, List.sum_cons, List.sum_nil]; decide)
  simp only [List.map_cons, List.map_nil] at hf
  unfold buildStreamInfo siWidths
  rw [hf]
  simp only [h5', ↓reduceIte]
  obtain ⟨a, b, c, d, e, f, g, h, i⟩ := s
  simp only [StreamInfo.mk.injEq, Except.ok.injEq, true_and]
  simp only at h6 h7
  exact ⟨by omega, by omega, trivial⟩

/-! non-vacuity -/
example : decodeHeader [0xFF, 0xFB, 0x90, 0x64] =
    .ok { version10 := 10, layer := 3, bitrate := 128000, sampleRate := 44100, channels := 2, mode := 1,
          padding := false, crcProtected := false, frameLength := 417 } := by decide +kernel

/-! ## where the VBR headers are looked for (regenerated from mutagen/mp3/_util.py) -/

/-- the Xing/Info header is looked for directly behind the 4 header bytes and the Layer III side
information, for every version and channel mode; the VBRI header 32 bytes behind the header -/
theorem vbr_header_offsets (version mode : Nat) :
    Generated.xingOffset version mode = 4 + Spec.Mpeg.sideInfoSize (decide (version = 1)) (decide (mode = 3)) ∧
    Generated.vbriOffset version mode = 4 + 32 := by
  unfold Generated.xingOffset Generated.vbriOffset Spec.Mpeg.sideInfoSize
  by_cases hv : version = 1 <;> by_cases hm : mode = 3 <;> simp [hv, hm]

end Mutagen.C05
