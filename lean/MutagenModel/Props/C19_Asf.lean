/-
Props/C19_Asf.lean — C19 "Running out of space while growing leaves the file as it was", ASF.
Program: Model/Container/AsfM.lean (`saveM`, `deleteM`: ASF.save / ASF.delete as sequences of calls on
the file object, in the order of the code); lemmas: Proofs/Container/AsfCap.lean.
Environments: no injected fault, arbitrary device capacity, arbitrary leak of the failing write.

ASF.save re-renders the Header Object, makes room for it with `resize_bytes(old_size, new size, 0)` and
only then seeks to 0 and writes it.  The only write that can lengthen the file is the zero fill in
`resize_file`, which truncates back on ENOSPC; so for EVERY file (not only well-formed ones), every
tree, every tag list and every capacity the file is byte-identical after a failed save.
-/
import MutagenModel.Proofs.Container.AsfCap
set_option linter.unusedVariables false
namespace Mutagen.C19
open Mutagen

/-! ## ASF -/

/-- refinement: without faults and without a capacity limit the program leaves exactly what the pure
model `saveTree` (hence `Asf.save`) computes — for every file (position 0), every object tree, every
tag list — and raises exactly what it raises, the file untouched -/
theorem asf_saveM_refines (B : Nat) (hB : 0 < B) (objs : List Asf.Obj) (tags : List Asf.Tag) (pad : PadChoice) (s : FS)
    (hp : s.pos = 0) :
    match Asf.saveTree objs s.data tags pad with
    | .error x => ∃ s', Asf.saveM B objs tags pad Env.clean s = (.error x, s') ∧ s'.data = s.data
    | .ok (out, _) => ∃ s', Asf.saveM B objs tags pad Env.clean s = (.ok (), s') ∧ s'.data = out :=
  Asf.saveM_clean B hB objs tags pad s hp

/-- … on a well-formed layout (loaded: the tree is the layout's): the bytes of `L.after P p`, so
everything proved about the pure `save` (C02, C03, C07, C08, C09) holds for the program -/
theorem asf_saveM_refines_layout (B : Nat) (hB : 0 < B) (L : Asf.Layout) (h : L.OK) (tags : List Asf.Tag) (d : Asf.Dist)
    (hd : Asf.distribute tags = .ok d) (P : Asf.Payloads) (hP : Asf.Renders d P) (pad : PadChoice)
    (hf : L.Fits P (Asf.newPadding L P pad)) (s : FS) (hs : s.data = L.render) (hp : s.pos = 0) :
    ∃ s', Asf.saveM B (L.top.map Asf.Item.toObj) tags pad Env.clean s = (.ok (), s') ∧
      s'.data = (L.after P (Asf.newPadding L P pad)).render := by
  have := Asf.saveM_clean B hB (L.top.map Asf.Item.toObj) tags pad s hp
  rw [hs, (Asf.save_layout L h tags d hd P hP pad hf).1] at this
  exact this

/-- C19 for ASF.save: for EVERY capacity and leak (`Quiet e`), every file, every tree: the call ends as
the pure model says (its exception with the file untouched, or the new bytes), or — instead of the
new bytes — it raises `error` (the converted ENOSPC) with the file byte-identical, length included -/
theorem asf_save_enlarge_first {e : Env} (hq : Quiet e) (B : Nat) (hB : 0 < B) (objs : List Asf.Obj) (tags : List Asf.Tag)
    (pad : PadChoice) (s : FS) (hp : s.pos = 0) :
    match Asf.saveTree objs s.data tags pad with
    | .error x => ∃ s', Asf.saveM B objs tags pad e s = (.error x, s') ∧ s'.data = s.data
    | .ok (out, _) =>
      (∃ s', Asf.saveM B objs tags pad e s = (.ok (), s') ∧ s'.data = out) ∨
      (∃ s', Asf.saveM B objs tags pad e s = (.error .mutagen, s') ∧ s'.data = s.data) :=
  Asf.saveM_q hq B hB objs tags pad s hp

/-- the same inside the `convert_error` wrapper: what is raised there is ENOSPC itself -/
theorem asf_save_body_enlarge_first {e : Env} (hq : Quiet e) (B : Nat) (hB : 0 < B) (objs : List Asf.Obj) (tags : List Asf.Tag)
    (pad : PadChoice) (s : FS) (hp : s.pos = 0) :
    match Asf.saveTree objs s.data tags pad with
    | .error x => ∃ s', Asf.saveBody B objs tags pad e s = (.error x, s') ∧ s'.data = s.data
    | .ok (out, _) =>
      (∃ s', Asf.saveBody B objs tags pad e s = (.ok (), s') ∧ s'.data = out) ∨
      (∃ s', Asf.saveBody B objs tags pad e s = (.error .enospc, s') ∧ s'.data = s.data) :=
  Asf.saveBody_q hq B hB objs tags pad s hp

/-- … on a well-formed layout: the saved layout, or `error` with the file as it was -/
theorem asf_save_enlarge_first_layout {e : Env} (hq : Quiet e) (B : Nat) (hB : 0 < B) (L : Asf.Layout) (h : L.OK)
    (tags : List Asf.Tag) (d : Asf.Dist) (hd : Asf.distribute tags = .ok d) (P : Asf.Payloads) (hP : Asf.Renders d P)
    (pad : PadChoice) (hf : L.Fits P (Asf.newPadding L P pad)) (s : FS) (hs : s.data = L.render) (hp : s.pos = 0) :
    (∃ s', Asf.saveM B (L.top.map Asf.Item.toObj) tags pad e s = (.ok (), s') ∧
      s'.data = (L.after P (Asf.newPadding L P pad)).render) ∨
    (∃ s', Asf.saveM B (L.top.map Asf.Item.toObj) tags pad e s = (.error .mutagen, s') ∧ s'.data = L.render) := by
  have := Asf.saveM_q hq B hB (L.top.map Asf.Item.toObj) tags pad s hp
  rw [hs, (Asf.save_layout L h tags d hd P hP pad hf).1] at this
  exact this

/-- C19 for ASF.delete (it can grow the file too: missing objects are appended) -/
theorem asf_delete_enlarge_first {e : Env} (hq : Quiet e) (B : Nat) (hB : 0 < B) (objs : List Asf.Obj) (s : FS) (hp : s.pos = 0) :
    match Asf.saveTree objs s.data [] Asf.padZero with
    | .error x => ∃ s', Asf.deleteM B objs e s = (.error x, s') ∧ s'.data = s.data
    | .ok (out, _) =>
      (∃ s', Asf.deleteM B objs e s = (.ok (), s') ∧ s'.data = out) ∨
      (∃ s', Asf.deleteM B objs e s = (.error .mutagen, s') ∧ s'.data = s.data) :=
  Asf.deleteM_q hq B hB objs s hp

/-- refinement for delete -/
theorem asf_deleteM_refines (B : Nat) (hB : 0 < B) (objs : List Asf.Obj) (s : FS) (hp : s.pos = 0) :
    match Asf.saveTree objs s.data [] Asf.padZero with
    | .error x => ∃ s', Asf.deleteM B objs Env.clean s = (.error x, s') ∧ s'.data = s.data
    | .ok (out, _) => ∃ s', Asf.deleteM B objs Env.clean s = (.ok (), s') ∧ s'.data = out :=
  Asf.deleteM_clean B hB objs s hp

/-! non-vacuity: the small layout of the other property files, saved with four tags, grows; on a device
with room for 100 more bytes (3 of the failing write leak into the file) the ENOSPC branch really
occurs and the file is what it was; with enough room the save completes -/
example :
    (Asf.saveM 64 (Asf.exLayout.top.map Asf.Item.toObj) Asf.exTags .default
      { cap := some (Asf.exLayout.render.length + 100), leak := fun _ => 3 } { data := Asf.exLayout.render }).1 = .error .mutagen ∧
    (Asf.saveM 64 (Asf.exLayout.top.map Asf.Item.toObj) Asf.exTags .default
      { cap := some (Asf.exLayout.render.length + 100), leak := fun _ => 3 } { data := Asf.exLayout.render }).2.data = Asf.exLayout.render := by
  decide +kernel

example :
    (Asf.saveM 64 (Asf.exLayout.top.map Asf.Item.toObj) Asf.exTags .default
      { cap := some (Asf.exLayout.render.length + 5000) } { data := Asf.exLayout.render }).1 = .ok () ∧
    Asf.save Asf.exLayout.render Asf.exTags .default = .ok
      (Asf.saveM 64 (Asf.exLayout.top.map Asf.Item.toObj) Asf.exTags .default
        { cap := some (Asf.exLayout.render.length + 5000) } { data := Asf.exLayout.render }).2.data := by
  decide +kernel

example : Quiet { cap := some 430, leak := fun _ => 3 } := ⟨fun _ => rfl, fun _ => rfl⟩

end Mutagen.C19
