/-
Props/C06_Id3FileLoad.lean — C06 for LOAD of free-standing ID3 files: `ID3(fileobj)` (`ID3.load`) and the bare
`ID3FileType(fileobj)` as programs over the file object (Model/Container/Id3FileLoadM.lean: every call of the real
load in its order; the stream-info parsers of MP3 / TrueAudio, which run afterwards, are not included), in ARBITRARY
fault environments: any exception at any call, short reads, finite capacity.

`Loaded.noHeader` / `Loaded.unsupported` stand for `raise ID3NoHeaderError` / `ID3UnsupportedVersionError` (both
MutagenErrors).  What leaves besides MutagenError: ValueError from `verify_fileobj` when its probing `read(0)` fails
(the recorded finding `escape:ValueError:_util.py:verify_fileobj`) — nothing else: no EOFError, no struct.error.

SHORT READS.  Two reads take a short answer for the end of the file, and load returns normally with less than is there
(the recorded findings `undetected:short:id3/_tags.py:__init__` and `…:id3/_id3v1.py:find_id3v1`):
* `read(10)` of `ID3Header`: fewer than 10 bytes → ID3NoHeaderError → (with `load_v1`) an ID3v1-only tag or "no tag";
* `read(131)` of `find_id3v1`: the window is shorter, the ID3v1 block is not found (or found with another length).
All other reads are `read_full`: a short answer is an IOError, converted to `error` (`id3_load_short_*` below).
-/
import MutagenModel.Proofs.Container.Id3FileLoad
set_option linter.unusedVariables false
namespace Mutagen.C06
open Mutagen Mutagen.Id3F

/-- REFINEMENT: without faults `ID3(fileobj, load_v1=…)` at position 0 returns exactly the pure `load` of the bytes —
for EVERY byte string — and leaves the file as it was -/
theorem id3_loadM_refines {e : Env} (hq : Quiet e) (loadV1 : Bool) (s : FS) (hp : s.pos = 0) :
    ∃ s', loadM loadV1 e s = (load loadV1 s.data, s') ∧ s'.data = s.data :=
  loadM_q hq loadV1 s hp

/-- … likewise the bare `ID3FileType(fileobj)` (`noHeader` = `tags = None`) -/
theorem id3_filetype_loadM_refines {e : Env} (hq : Quiet e) (s : FS) (hp : s.pos = 0) :
    ∃ s', fileTypeLoadM e s = (load true s.data, s') ∧ s'.data = s.data := by
  unfold fileTypeLoadM
  simp only [bind_run, verifyRead_q hq]
  exact loadM_q hq true _ hp

/-- `ID3(fileobj)` under ANY fault environment: what escapes is `error` (a MutagenError), or a non-I/O exception: one the
environment injected that is not an IOError, ValueError (`verify_fileobj`), or a marker of the model -/
theorem id3_load_raises_only (loadV1 : Bool) :
    Raises (fun e x => x = .mutagen ∨ ((x = .mutagen ∨ x = .notImplemented ∨ PrimErr e x) ∧ x.isIO = false)) (loadM loadV1) :=
  raises_loadM loadV1

/-- … with I/O faults only (and short reads, and a full device): MutagenError or ValueError -/
theorem id3_load_io_faults (loadV1 : Bool) (e : Env) (hio : ∀ i x, e.failAt i = some x → x.isIO = true) (s s' : FS) (x : PyErr)
    (h : loadM loadV1 e s = (.error x, s')) : x = .mutagen ∨ x = .value ∨ x = .notImplemented ∨ x = .diverge :=
  io_faults_only (raises_loadM loadV1) e hio s s' x h

/-- the bare `ID3FileType(fileobj)` has no `convert_error` of its own, and needs none: its only own call is the
`read(0)` of `verify_fileobj` -/
theorem id3_filetype_load_raises_only :
    Raises (fun e x => x = .value ∨ x = .mutagen ∨ ((x = .mutagen ∨ x = .notImplemented ∨ PrimErr e x) ∧ x.isIO = false))
      fileTypeLoadM :=
  raises_fileTypeLoadM

theorem id3_filetype_load_io_faults (e : Env) (hio : ∀ i x, e.failAt i = some x → x.isIO = true) (s s' : FS) (x : PyErr)
    (h : fileTypeLoadM e s = (.error x, s')) : x = .mutagen ∨ x = .value ∨ x = .notImplemented ∨ x = .diverge := by
  rcases raises_fileTypeLoadM e s x s' h with h1 | h1 | ⟨h2, hn⟩
  · exact Or.inr (Or.inl h1)
  · exact Or.inl h1
  · rcases h2 with h2 | h2 | ⟨i, hi⟩ | h2 | h2 | h2 | h2
    · exact Or.inl h2
    · exact Or.inr (Or.inr (Or.inl h2))
    · have := hio i x hi; rw [this] at hn; cases hn
    · subst h2; cases hn
    · exact Or.inr (Or.inl h2)
    · subst h2; cases hn
    · exact Or.inr (Or.inr (Or.inr h2))

/-- LOAD NEVER WRITES: whatever the environment and however the call ends, the bytes of the file are what they were -/
theorem id3_load_leaves_file_untouched (loadV1 : Bool) (e : Env) (s : FS) (r : Except PyErr Loaded) (s' : FS)
    (h : loadM loadV1 e s = (r, s')) : s'.data = s.data :=
  noWrite_loadM loadV1 e s r s' h

theorem id3_filetype_load_leaves_file_untouched (e : Env) (s : FS) (r : Except PyErr Loaded) (s' : FS)
    (h : fileTypeLoadM e s = (r, s')) : s'.data = s.data :=
  noWrite_fileTypeLoadM e s r s' h

/-! ### the short reads, on a concrete file: a v2.4 tag of 2 + 10 bytes, 140 bytes of audio, an ID3v1 block -/

def loadFile : Bytes :=
  [0x49, 0x44, 0x33, 4, 0, 0, 0, 0, 0, 2, 0, 0] ++ ([0xFF, 0xFB, 0x90, 0x00] ++ List.replicate 136 0x55) ++
    ([0x54, 0x41, 0x47] ++ List.replicate 125 0)

/-- no fault: the tag body and the ID3v1 block -/
example : (loadM true {} { data := loadFile }).1 = .ok (.v2 4 0 [0, 0] (some 128)) := by decide +kernel

/-- the header read returns 9 of its 10 bytes: ID3NoHeaderError is taken, and the ID3v1 block makes an ID3v1-only tag — the
call returns normally WITHOUT the ID3v2 tag -/
theorem id3_load_short_header :
    (loadM true { shortAt := fun i => if i = 1 then some 9 else none } { data := loadFile }).1 = .ok (.v1 128) ∧
    (loadM false { shortAt := fun i => if i = 1 then some 9 else none } { data := loadFile }).1 = .ok .noHeader := by
  decide +kernel

/-- the 131-byte read of `find_id3v1` returns 100 bytes: the ID3v1 block is not found, the call returns normally -/
theorem id3_load_short_v1_window :
    (loadM true { shortAt := fun i => if i = 5 then some 100 else none } { data := loadFile }).1 = .ok (.v2 4 0 [0, 0] none) := by
  decide +kernel

/-- the tag body read (`read_full`) returns one byte less: `error` -/
theorem id3_load_short_body :
    (loadM true { shortAt := fun i => if i = 2 then some 1 else none } { data := loadFile }).1 = .error .mutagen := by
  decide +kernel

/-- an IOError at any of the seven calls: ValueError at call 0 (`verify_fileobj`), `error` at the others -/
example : (List.range 7).map (fun k => (loadM true { failAt := fun i => if i = k then some .io else none } { data := loadFile }).1) =
    [.error .value, .error .mutagen, .error .mutagen, .error .mutagen, .error .mutagen, .error .mutagen, .error .mutagen] := by
  decide +kernel

end Mutagen.C06
