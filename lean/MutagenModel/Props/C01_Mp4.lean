/-
Props/C01_Mp4.lean — C01 "tags set and saved are read back", MP4: the item codec (Model/Mp4Tags.lean, Props/C01b.lean)
composed with the container (Model/Container/Mp4Layout.lean).  PARTIAL — what is here:
  * `mp4_items_decode`: the strict decoder applied to the payload of an `ilst` atom that holds the rendered items one
    after the other returns exactly those items, in the order they were written (list level of `mp4_item_roundtrip`);
  * `mp4_saved_ilst_found`: in the file a save leaves, the strict walker's tree has, on the path moov → udta → meta
    (first atom of each name), an `ilst` atom whose children are exactly the item atoms that were saved — for saves that
    patch no offset table (`tableSteps = []`: in place, or nothing visited) and for `__save_existing`;
  * `mp4_saved_tags_read_back`: the two composed.
NOT here (open): the same for saves that patch offset tables (needs: `patchTables` does not touch the new region — the
visited atoms lie outside it); mutagen's own reader (`MP4Tags.load` / `__parse_data`: not modelled); the order
`_item_sort_key` gives the items (the items are a parameter here, in the order they are rendered); `_failed_atoms`.
-/
import MutagenModel.Proofs.Container.Mp4New
import MutagenModel.Proofs.Mp4Tags
import MutagenModel.Proofs.Container.Mp4Reader
import MutagenModel.Proofs.Container.Mp4Link
set_option linter.unusedVariables false
namespace Mutagen.C01
open Mutagen Mutagen.Mp4C

/-- the rendered items one after the other: `b"".join(values)` -/
def mp4EncodeItems (its : List (Bytes × List Mp4Tags.Data)) : Bytes :=
  (its.map fun it => Mp4Tags.encodeItem it.1 it.2).flatten

/-- the strict decoder over the payload of an `ilst` atom -/
def mp4DecodeItems : Nat → Bytes → Option (List (Bytes × List Mp4Tags.Data))
  | 0, _ => none
  | fuel + 1, d =>
    if d = [] then some []
    else match Mp4Tags.decodeItem d with
      | none => none
      | some (n, ds, rest) => (mp4DecodeItems fuel rest).map ((n, ds) :: ·)

/-- every item the codec can render (`ItemOK`: 4-byte name, values that fit), any number of them: decoding the
concatenation gives the items back, in order -/
theorem mp4_items_decode (its : List (Bytes × List Mp4Tags.Data)) (h : ∀ it ∈ its, Mp4Tags.ItemOK it.1 it.2) :
    ∀ fuel, its.length < fuel → mp4DecodeItems fuel (mp4EncodeItems its) = some its := by
  induction its with
  | nil =>
    intro fuel hf
    cases fuel with
    | zero => omega
    | succ f => simp [mp4DecodeItems, mp4EncodeItems]
  | cons it r ih =>
    intro fuel hf
    cases fuel with
    | zero => omega
    | succ f =>
      have hne : mp4EncodeItems (it :: r) ≠ [] := by
        intro he
        have := congrArg List.length he
        simp [mp4EncodeItems, Mp4Tags.encodeItem, Mp4Tags.renderAtom] at this
      have hdec := Mp4Tags.decodeItem_encodeItem it.1 it.2 (mp4EncodeItems r) (h it (by simp))
      have hcons : mp4EncodeItems (it :: r) = Mp4Tags.encodeItem it.1 it.2 ++ mp4EncodeItems r := by
        simp [mp4EncodeItems]
      simp only [mp4DecodeItems, hne, ↓reduceIte]
      rw [hcons, hdec]
      simp only []
      rw [ih (fun x hx => h x (by simp [hx])) f (by simp at hf; omega)]
      rfl

/-- the children of `moov.udta.meta.ilst` (first atom of each name) in a tree, read structurally -/
def mp4FindIlst : List Bytes → List Atom → Option (List Atom)
  | [], _ => none
  | [n], l => match l.find? (·.name = n) with
    | some (.node _ _ _ cs) => some cs
    | _ => none
  | n :: ns, l => match l.find? (·.name = n) with
    | some (.node _ _ _ cs) => mp4FindIlst ns cs
    | _ => none

theorem find_skip (pre : List Atom) (nm : Bytes) (h : noName pre nm) (rest : List Atom) :
    (pre ++ rest).find? (·.name = nm) = rest.find? (·.name = nm) := by
  induction pre with
  | nil => rfl
  | cons x r ih =>
    have hx : x.name ≠ nm := h x (by simp)
    simp only [List.cons_append, List.find?_cons, hx, decide_false]
    exact ih (fun a ha => h a (by simp [ha]))

theorem findIlst_fill : ∀ (frames : List Frame) (names : List Bytes) (h : Hole) (items : List Atom) (w : Bool) (after : List Atom),
    framesNamed frames names → noName h.pre nIlst →
    mp4FindIlst (names ++ [nIlst]) (fill frames h (Atom.node nIlst w [] items :: after)) = some items := by
  intro frames
  induction frames with
  | nil =>
    intro names h items w after hn hp
    cases names with
    | nil =>
      simp only [List.nil_append, mp4FindIlst, fill, List.append_assoc]
      rw [find_skip h.pre nIlst hp]
      simp [Atom.name]
    | cons n ns => simp [framesNamed] at hn
  | cons fr r ih =>
    intro names h items w after hn hp
    cases names with
    | nil => simp [framesNamed] at hn
    | cons n ns =>
      simp only [framesNamed] at hn
      obtain ⟨hname, hpre, hr⟩ := hn
      have hstep : mp4FindIlst (n :: ns ++ [nIlst]) (fill (fr :: r) h (Atom.node nIlst w [] items :: after)) =
          mp4FindIlst (ns ++ [nIlst]) (fill r h (Atom.node nIlst w [] items :: after)) := by
        cases hns : ns ++ [nIlst] with
        | nil => simp at hns
        | cons m ms =>
          simp only [List.cons_append, hns, mp4FindIlst, fill, List.append_assoc]
          rw [find_skip fr.pre n hpre]
          simp [Atom.name, hname]
      rw [hstep]
      exact ih ns h items w after hr hp

/-- in the file a save leaves (no offset table to patch), the strict walker's tree has the saved item atoms as the
children of `moov.udta.meta.ilst` -/
theorem mp4_saved_ilst_found (mem : Bool) (L : Layout) (h : L.OK) (items : List Atom) (pad : PadChoice)
    (hfit : wfList (L.saved items pad).top) (hno : L.tableSteps items pad = []) :
    ∃ g T, saveTags mem L.render (ilstData items) pad = (none, g) ∧ walk g = some T ∧
      mp4FindIlst [nMoov, nUdta, nMeta, nIlst] T = some items := by
  refine ⟨_, _, saveTags_layout_exact mem L h items pad hfit hno, walk_render _ hfit, ?_⟩
  exact findIlst_fill L.frames [nMoov, nUdta, nMeta] L.hole items false _ h.2.2.1 h.2.2.2.1

/-- C01 for the strict reading, saves that patch no offset table: item atoms that are the renderings of `its` (each one
`ItemOK`), saved on an OK layout — the strict walker finds the `ilst`, and the strict decoder applied to the bytes of
its children returns `its`, every value with its type flags and version, in the order written -/
theorem mp4_saved_tags_read_back (mem : Bool) (L : Layout) (h : L.OK) (items : List Atom) (pad : PadChoice)
    (its : List (Bytes × List Mp4Tags.Data)) (hok : ∀ it ∈ its, Mp4Tags.ItemOK it.1 it.2)
    (hitems : renderList items = mp4EncodeItems its)
    (hfit : wfList (L.saved items pad).top) (hno : L.tableSteps items pad = []) :
    ∃ g T cs, saveTags mem L.render (ilstData items) pad = (none, g) ∧ walk g = some T ∧
      mp4FindIlst [nMoov, nUdta, nMeta, nIlst] T = some cs ∧
      mp4DecodeItems (its.length + 1) (renderList cs) = some its := by
  obtain ⟨g, T, h1, h2, h3⟩ := mp4_saved_ilst_found mem L h items pad hfit hno
  exact ⟨g, T, items, h1, h2, h3, by rw [hitems]; exact mp4_items_decode its hok _ (by omega)⟩

/-! ### mutagen's own reader (`MP4Tags.load`, `__parse_data`, the typed parsers): Model/Container/Mp4Reader.lean

The reader is modelled statement by statement (every raise, the generator order of `__parse_data`, `_failed_atoms`) and
tied to /repo on generated `ilst` contents of every kind, damaged ones included (harness/mp4file_tie.py `run_reader`).
Its input is the list `(name, atom.length, payload)` of the children of `ilst` — what `tagsPure` / `tagsM` read; for a file
a save left, these are the item atoms `mp4_saved_ilst_found` finds.  The theorems below are the reader on what the codec
renders; the step "the payloads mutagen's atom reader hands over ARE those bytes" is stated for the strict walker only
(`mp4_saved_ilst_found`), not yet for `atom.read`. -/

/-- `__parse_data` over the `data` atoms the codec renders yields exactly their (version, flags, payload), in order,
whatever the typed parser does with them -/
theorem mp4_parse_data_reads_items {σ : Type} (f : σ → Nat × Nat × Bytes → Mp4R.POut σ) (ds : List Mp4Tags.Data)
    (h : ∀ d ∈ ds, Mp4Tags.DataOK d) (st : σ) :
    Mp4R.parseData ((Mp4R.itemBody ds).length + 8) (Mp4R.itemBody ds) f st = Mp4R.foldP f st ds :=
  Mp4R.parseData_items f ds h st

/-- C01 (a), text atoms (the known ones of the `__atoms` table and unknown names alike): what `__render_text` writes
for a list of strings — any Unicode scalar values — mutagen's own reader returns as the same strings in the same order,
added under the atom's name (`self.setdefault(key, []).extend(values)`) -/
theorem mp4_saved_tags_read_back_own_reader (t : Mp4R.Tags) (name : Bytes) (texts : List (List Nat))
    (hk : Mp4R.kindOf name = none ∨ Mp4R.kindOf name = some .text)
    (hs : ∀ x ∈ texts, ∀ c ∈ x, Utf8.Scalar c) (hl : ∀ x ∈ texts, (Utf8.encode x).length + 16 < 256 ^ 4) :
    Mp4R.loadChild t name ((Mp4R.itemBody (texts.map fun x => ⟨0, 1, Utf8.encode x⟩)).length + 8)
        (Mp4R.itemBody (texts.map fun x => ⟨0, 1, Utf8.encode x⟩)) =
      some { t with items := Mp4R.addMulti name (.text texts) t.items } := by
  unfold Mp4R.loadChild
  rcases hk with hk | hk
  · simp only [hk, Mp4R.parseText_rendered false texts hs hl]
  · simp only [hk, Mp4R.parseText_rendered true texts hs hl]

/-- … integer atoms (`tmpo`, `plID`, …): the values `__render_integer` accepts, in the width it chooses -/
theorem mp4_saved_ints_read_back_own_reader (vals : List (Int × Nat × Bytes))
    (h : ∀ v ∈ vals, Mp4Tags.renderInt v.1 v.2.1 = some v.2.2) :
    Mp4R.parseInts ((Mp4R.itemBody (vals.map fun v => ⟨0, 21, v.2.2⟩)).length + 8)
      (Mp4R.itemBody (vals.map fun v => ⟨0, 21, v.2.2⟩)) = .ok (vals.map (·.1)) :=
  Mp4R.parseInts_rendered vals h

/-- … `trkn` / `disk` pairs up to (65535, 65535) -/
theorem mp4_saved_pairs_read_back_own_reader (trailing : Bool) (ps : List (Nat × Nat)) (h : ∀ p ∈ ps, p.1 < 65536 ∧ p.2 < 65536) :
    Mp4R.parsePairs ((Mp4R.itemBody (ps.map fun p => ⟨0, 0, Mp4Tags.renderPair p.1 p.2 trailing⟩)).length + 8)
      (Mp4R.itemBody (ps.map fun p => ⟨0, 0, Mp4Tags.renderPair p.1 p.2 trailing⟩)) = .ok ps :=
  Mp4R.parsePairs_rendered trailing ps h

/-- the reader on concrete children: a title, a track number, a tempo, a compilation flag, a cover, a freeform item, an
ID3v1 genre (→ `©gen`), an unknown atom with a non-text type (→ `_failed_atoms`), and a `trkn` whose payload is too
short for `struct.unpack` (→ the whole load fails) -/
example :
    (Mp4R.loadTags [([0xa9, 0x6e, 0x61, 0x6d], 27, Mp4R.itemBody [⟨0, 1, [0x68, 0x69, 0x21]⟩]),
                    ([0x74, 0x72, 0x6b, 0x6e], 32, Mp4R.itemBody [⟨0, 0, [0, 0, 0, 3, 0, 9, 0, 0]⟩]),
                    ([0x63, 0x70, 0x69, 0x6c], 25, Mp4R.itemBody [⟨0, 21, [1]⟩]),
                    ([0x67, 0x6e, 0x72, 0x65], 26, Mp4R.itemBody [⟨0, 0, [0, 2]⟩]),
                    ([0x78, 0x78, 0x78, 0x78], 25, Mp4R.itemBody [⟨0, 13, [7]⟩])] {}).map (fun t => (t.items, t.failed)) =
      some ([([0xa9, 0x6e, 0x61, 0x6d], .text [[0x68, 0x69, 0x21]]), ([0x74, 0x72, 0x6b, 0x6e], .pairs [(3, 9)]),
             ([0x63, 0x70, 0x69, 0x6c], .bool true), (Mp4R.nGen, .text [[67, 108, 97, 115, 115, 105, 99, 32, 82, 111, 99, 107]])],
            [([0x78, 0x78, 0x78, 0x78], [Mp4R.itemBody [⟨0, 13, [7]⟩]])]) ∧
    (Mp4R.loadTags [([0x74, 0x72, 0x6b, 0x6e], 29, Mp4R.itemBody [⟨0, 0, [0, 0, 0, 3, 0]⟩])] {}).isNone = true := by
  decide +kernel

/-! ### end to end: save on a layout, then mutagen's own load

Proofs/Container/Mp4Link.lean: on ANY rendered well-formed tree, `atoms.path(moov, udta, meta, ilst)` on the parsed atoms
ends at the `ilst` the tree has there, and `atom.read` of its children returns their bodies (`tagsPure_tree`). -/

/-- the link: what `MP4Tags.load` reads (`tagsPure`: name and `atom.read` payload of every child of
moov.udta.meta.ilst) from the file a save leaves is the `(name, body)` of the item atoms that were saved, in order; the
atoms are those of `Atoms(fileobj)` on that file.  (`hno`: no offset table to patch; `mp4_tags_read_from_saved_file_patched`
otherwise.  `hdep`: the nesting of the result is what the reader accepts — the items may nest.) -/
theorem mp4_tags_read_from_saved_file (mem : Bool) (L : Layout) (h : L.OK) (items : List Atom) (pad : PadChoice)
    (hfit : wfList (L.saved items pad).top) (hno : L.tableSteps items pad = []) (hdep : depthList (L.saved items pad).top ≤ 65) :
    ∃ g, saveTags mem L.render (ilstData items) pad = (none, g) ∧ Mp4C.parse g = .ok (annotList 0 (L.saved items pad).top) ∧
      tagsPure g (annotList 0 (L.saved items pad).top) = .ok (some (items.map fun c => (c.name, c.body))) :=
  saved_tagsPure mem L h items pad hfit hno hdep

/-- the same for a save that patches offset tables; `hil` (the patched tree still has the saved `ilst` at the end of the
path) and `hdep` are decidable, true for every layout, and checked rather than proved -/
theorem mp4_tags_read_from_saved_file_patched (mem : Bool) (L : Layout) (h : L.OK) (items : List Atom) (pad : PadChoice)
    (hfit : wfList (L.saved items pad).top) (htab : L.TablesOK items pad)
    (hil : treePath (L.savedPatched items pad) ilstPath = some (Atom.node nIlst false [] items))
    (hdep : depthList (L.savedPatched items pad) ≤ 65) :
    ∃ g, saveTags mem L.render (ilstData items) pad = (none, g) ∧ Mp4C.parse g = .ok (annotList 0 (L.savedPatched items pad)) ∧
      tagsPure g (annotList 0 (L.savedPatched items pad)) = .ok (some (items.map fun c => (c.name, c.body))) :=
  saved_tagsPure_patched mem L h items pad hfit htab hil hdep

/-- C01 (a), end to end: on an OK layout, save item atoms the codec renders (`RItem`, each `OK`: text, integer, pair, cover,
freeform and bool items — every kind `MP4Tags._render` has — and the `gnre` atom it only reads), in any order `ris`, with any
padding choice; then `Atoms(fileobj)` on the result, `MP4Tags.load`'s reads and mutagen's own reader (`Mp4R.loadTags`) give
every value back under its key — the dictionary is built in the order of the file (`RItem.apply`: bools are assigned, the
others extend the list under the key), and nothing lands in `_failed_atoms`.  If `MP4(fileobj)` loads the file at all (the
stream info may refuse it), these are its tags.  The values: `RItem.val` — identical to what was written except that a
cover's `imageformat` other than 13/14 comes back as 13, and a `gnre` index comes back as a genre name under `©gen`. -/
theorem mp4_save_then_load_own_reader (mem : Bool) (L : Layout) (h : L.OK) (ris : List RItem) (hris : ∀ r ∈ ris, r.OK)
    (pad : PadChoice) (hfit : wfList (L.saved (ris.map RItem.atom) pad).top)
    (hno : L.tableSteps (ris.map RItem.atom) pad = []) (hdep : depthList (L.saved (ris.map RItem.atom) pad).top ≤ 65) :
    ∃ g atoms cs, saveTags mem L.render (ilstData (ris.map RItem.atom)) pad = (none, g) ∧ Mp4C.parse g = .ok atoms ∧
      tagsPure g atoms = .ok (some cs) ∧ (∀ r, loadPure g = .ok r → r.tags = some cs) ∧
      Mp4R.loadTags (cs.map fun c => (c.1, c.2.length + 8, c.2)) {} =
        some { items := ris.foldl (fun its r => r.apply its) [], failed := [] } := by
  obtain ⟨g, h1, h2, h3⟩ := saved_tagsPure mem L h (ris.map RItem.atom) pad hfit hno hdep
  refine ⟨g, _, _, h1, h2, h3, fun r hr => loadPure_tags g _ _ h2 h3 r hr, ?_⟩
  have := loadTags_ritems ris {} hris
  simp only [List.map_map] at this ⊢
  exact this

/-- … for items with pairwise different keys the dictionary read back is exactly the list of `(key, value)` written -/
theorem mp4_read_back_dict (ris : List RItem) (hn : (ris.map RItem.key).Nodup) :
    ris.foldl (fun its r => r.apply its) [] = ris.map fun r => (r.key, r.val) := by
  have := foldl_addMulti_distinct ris [] hn (fun kv hkv => by cases hkv)
  simpa using this

/-- covers, by themselves: whatever 32-bit `imageformat` `__render_cover` wrote, `__parse_cover` returns 13 (JPEG) unless it
is 13 or 14 (PNG); the bytes are unchanged; `name` children in the atom are skipped (example below) -/
theorem mp4_cover_format_normalised (t : Mp4R.Tags) (n : Bytes) (cs : List (Nat × Bytes)) (h : (RItem.covers n cs).OK) :
    Mp4R.loadChild t n ((RItem.covers n cs).body.length + 8) (RItem.covers n cs).body =
      some { t with items := Mp4R.addMulti n (.covers (cs.map fun c => (if c.1 ≠ 13 ∧ c.1 ≠ 14 then 13 else c.1, c.2))) t.items } :=
  loadChild_ritem t (.covers n cs) h

/-- freeform items, by themselves: `----` with `mean`, `name` and any number of values, each with its `version` and
`dataformat`, is filed under `----:mean:name` with every value, version and dataformat as written -/
theorem mp4_freeform_read_back (t : Mp4R.Tags) (mean nm : Bytes) (ds : List Mp4Tags.Data) (h : (RItem.freeform mean nm ds).OK) :
    Mp4R.loadChild t Mp4Tags.freeformName ((Mp4R.freeformBody mean nm ds).length + 8) (Mp4R.freeformBody mean nm ds) =
      some { t with items := Mp4R.addMulti (Mp4Tags.freeformName ++ [0x3a] ++ mean ++ [0x3a] ++ nm) (.freeform ds) t.items } :=
  loadChild_ritem t (.freeform mean nm ds) h

/-- … and that body is what the codec model of C01b (`Mp4Tags.encodeFreeform`) puts into the `----` atom -/
theorem mp4_freeform_body_is_codec (mean nm : Bytes) (ds : List Mp4Tags.Data) :
    Mp4Tags.encodeFreeform mean nm ds = Mp4Tags.renderAtom Mp4Tags.freeformName (Mp4R.freeformBody mean nm ds) := rfl

/-- bools (`cpil`, `pgap`, `pcst`): the byte `__render_bool` writes is read as the same bool and ASSIGNED to the key -/
theorem mp4_bool_read_back (t : Mp4R.Tags) (n : Bytes) (b : Bool) (h : Mp4R.kindOf n = some .bool) :
    Mp4R.loadChild t n ((RItem.bool n b).body.length + 8) (RItem.bool n b).body =
      some { t with items := Mp4R.setSingle n (.bool b) t.items } :=
  loadChild_ritem t (.bool n b) h

example : Mp4R.kindOf [0x63, 0x70, 0x69, 0x6c] = some .bool ∧ Mp4R.kindOf [0x70, 0x67, 0x61, 0x70] = some .bool ∧
    Mp4R.kindOf [0x70, 0x63, 0x73, 0x74] = some .bool ∧ Mp4R.kindOf [0x63, 0x6f, 0x76, 0x72] = some .cover := by decide +kernel

/-- `gnre` is only ever READ: the atom holds an ID3v1 genre index + 1 as a 16-bit integer, and `__parse_genre` files the
genre's NAME as a text value under `©gen` (it extends what is there).  There is no render function for `gnre` in the
`__atoms` table, so mutagen never writes one: after load → save the genre is a `©gen` text atom. -/
theorem mp4_gnre_read_as_genre_name (t : Mp4R.Tags) (i : Int) (g : List Nat) (hi : -32768 ≤ i ∧ i ≤ 32767)
    (hg : Mp4R.genreAt (i - 1) = some g) :
    Mp4R.loadChild t Mp4R.nGnre ((RItem.genreIdx i g).body.length + 8) (RItem.genreIdx i g).body =
      some { t with items := Mp4R.addMulti Mp4R.nGen (.text [g]) t.items } :=
  loadChild_ritem t (.genreIdx i g) ⟨hi, hg⟩

/-- … while `©gen` itself is a text atom, so write → read of `©gen` is the identity -/
theorem mp4_gen_write_read_identity (t : Mp4R.Tags) (texts : List (List Nat))
    (hs : ∀ x ∈ texts, ∀ c ∈ x, Utf8.Scalar c) (hl : ∀ x ∈ texts, (Utf8.encode x).length + 16 < 256 ^ 4) :
    Mp4R.loadChild t Mp4R.nGen ((RItem.text Mp4R.nGen texts).body.length + 8) (RItem.text Mp4R.nGen texts).body =
      some { t with items := Mp4R.addMulti Mp4R.nGen (.text texts) t.items } :=
  loadChild_ritem t (.text Mp4R.nGen texts) ⟨Or.inr (by decide +kernel), hs, hl⟩

/-- a `gnre` atom with index 18 ("Rock" is genre 17) followed by a cover atom with a `name` child in front of a PNG and a
cover of format 0 → `©gen = ["Rock"]`, `covr = [(14, …), (13, …)]` -/
example :
    (Mp4R.loadTags [(Mp4R.nGnre, 26, Mp4R.itemBody [⟨0, 0, [0, 18]⟩]),
                    ([0x63, 0x6f, 0x76, 0x72], 8 + 12 + 18 + 17,
                      Mp4Tags.renderAtom Mp4Tags.nameName [0, 0, 0, 0] ++ Mp4R.itemBody [⟨0, 14, [1, 2]⟩, ⟨0, 0, [3]⟩])] {}).map
        (fun t => (t.items, t.failed)) =
      some ([(Mp4R.nGen, .text [[82, 111, 99, 107]]), ([0x63, 0x6f, 0x76, 0x72], .covers [(14, [1, 2]), (13, [3])])], []) := by
  decide +kernel

/-! ### the order of the items -/

/-- `MP4Tags.save` writes, as the children of `ilst`, the rendered items in the order of `_item_sort_key` — a stable sort
of the dict's items by (position of `key[:4]` in the `order` list, `len(repr(value))`, `repr(value)`) — followed by the
atoms kept in `_failed_atoms` (unsorted).  The sorted list is a permutation of the dict's items; items whose sort keys are
equal keep the dict's order, so the bytes can depend on the insertion order in that case only.  (`repr` is a parameter of
the model; the order is tied to /repo: `run_order`.) -/
theorem mp4_items_written_sorted (items : List Mp4R.SItem) (t : Mp4R.Tags) :
    Mp4R.ilstChildren items t = (Mp4R.sortItems items).map (·.rendered) ++ Mp4R.failedValues t ∧
      (Mp4R.sortItems items).Perm items :=
  ⟨rfl, List.mergeSort_perm items _⟩

/-- so the read-back holds for ANY insertion order of the dict: whatever order `d` the items were inserted in, the order
written is `sortR d`, a permutation of `d`, and `mp4_save_then_load_own_reader` applies to it; with pairwise different
names the dictionary read back has exactly the bindings of `d` -/
theorem mp4_read_back_any_insertion_order (d : List (RItem × List Nat)) (hn : (d.map fun x => x.1.key).Nodup) :
    let written := (d.mergeSort fun a b => Mp4R.itemLe ⟨a.1.key, a.2, []⟩ ⟨b.1.key, b.2, []⟩).map (·.1)
    written.Perm (d.map (·.1)) ∧
      (written.foldl (fun its r => r.apply its) []).Perm (d.map fun x => (x.1.key, x.1.val)) := by
  intro written
  have hp : written.Perm (d.map (·.1)) := (List.mergeSort_perm d _).map _
  refine ⟨hp, ?_⟩
  have hn' : (written.map RItem.key).Nodup := by
    have : (written.map RItem.key).Perm ((d.map (·.1)).map RItem.key) := hp.map _
    have hn2 : ((d.map (·.1)).map RItem.key).Nodup := by rw [List.map_map]; exact hn
    exact this.nodup_iff.mpr hn2
  rw [mp4_read_back_dict written hn']
  have h2 := hp.map (fun r => (r.key, r.val))
  have e2 : (d.map (·.1)).map (fun r => (r.key, r.val)) = d.map fun x => (x.1.key, x.1.val) := by
    rw [List.map_map]; rfl
  rw [e2] at h2
  exact h2

/-- satisfiable: a title, a tempo, a track number, a cover of format 0, a freeform item with two values, a compilation flag
and a `gnre` atom on the example layout without a track -/
example :
    let ris : List RItem := [.text [0xa9, 0x6e, 0x61, 0x6d] [[104, 105]], .ints [0x74, 0x6d, 0x70, 0x6f] [(120, 2, [0, 120])],
      .pairs [0x74, 0x72, 0x6b, 0x6e] true [(3, 9)], .covers [0x63, 0x6f, 0x76, 0x72] [(0, [1, 2, 3])],
      .freeform [0x61] [0x62] [⟨0, 1, [0x78]⟩, ⟨1, 13, []⟩], .bool [0x63, 0x70, 0x69, 0x6c] true, .genreIdx 18 [82, 111, 99, 107]]
    exLayout0.OK ∧ (∀ r ∈ ris, r.OK) ∧ wfList (exLayout0.saved (ris.map RItem.atom) .default).top ∧
      exLayout0.tableSteps (ris.map RItem.atom) .default = [] ∧ depthList (exLayout0.saved (ris.map RItem.atom) .default).top ≤ 65 := by
  refine ⟨by decide +kernel, ?_, by decide +kernel, by decide +kernel, by decide +kernel⟩
  intro r hr
  simp only [List.mem_cons, List.not_mem_nil, or_false] at hr
  rcases hr with rfl | rfl | rfl | rfl | rfl | rfl | rfl
  · refine ⟨Or.inr (by decide +kernel), ?_, ?_⟩
    · intro x hx c hc
      simp only [List.mem_singleton] at hx; subst hx
      simp only [List.mem_cons, List.not_mem_nil, or_false] at hc
      rcases hc with rfl | rfl <;> decide
    · intro x hx
      simp only [List.mem_singleton] at hx; subst hx
      decide +kernel
  · exact ⟨⟨2, by decide +kernel⟩, by intro v hv; simp only [List.mem_singleton] at hv; subst hv; decide +kernel⟩
  · exact ⟨Or.inl (by decide +kernel), by intro p hp; simp only [List.mem_singleton] at hp; subst hp; decide⟩
  · exact ⟨by decide +kernel, by intro c hc; simp only [List.mem_singleton] at hc; subst hc; decide⟩
  · refine ⟨?_, by decide, by decide⟩
    intro d hd
    simp only [List.mem_cons, List.not_mem_nil, or_false] at hd
    rcases hd with rfl | rfl <;> exact ⟨by decide, by decide, by decide⟩
  · show Mp4R.kindOf _ = _; decide +kernel
  · exact ⟨by decide, by decide +kernel⟩

end Mutagen.C01
