/-
Props/C01_Mp4.lean — C01 "tags set and saved are read back", MP4: the item codec (Model/Mp4Tags.lean, Props/C01b.lean)
composed with the container (Model/Container/Mp4Layout.lean).  PARTIAL — what is here:
  * `mp4_items_decode`: the strict decoder applied to the payload of an `ilst` atom that holds the rendered items one
    after the other returns exactly those items, in the order they were written (list level of `mp4_item_roundtrip`);
  * `mp4_saved_ilst_found`: in the file a save leaves, the strict walker's tree has, on the path moov → udta → meta
    (first atom of each name), an `ilst` atom whose children are exactly the item atoms that were saved — for saves that
    patch no offset table (`tableSteps = []`: in place, or nothing visited) and for `__save_existing`;
  * `mp4_saved_tags_read_back`: the two composed.
NOT here (open): the same for saves that patch offset tables (needs: `patchTables` does not touch the new region — the
visited atoms lie outside it); mutagen's own reader (`MP4Tags.load` / `__parse_data`: not modelled); the order
`_item_sort_key` gives the items (the items are a parameter here, in the order they are rendered); `_failed_atoms`.
-/
import MutagenModel.Proofs.Container.Mp4New
import MutagenModel.Proofs.Mp4Tags
set_option linter.unusedVariables false
namespace Mutagen.C01
open Mutagen Mutagen.Mp4C

/-- the rendered items one after the other: `b"".join(values)` -/
def mp4EncodeItems (its : List (Bytes × List Mp4Tags.Data)) : Bytes :=
  (its.map fun it => Mp4Tags.encodeItem it.1 it.2).flatten

/-- the strict decoder over the payload of an `ilst` atom -/
def mp4DecodeItems : Nat → Bytes → Option (List (Bytes × List Mp4Tags.Data))
  | 0, _ => none
  | fuel + 1, d =>
    if d = [] then some []
    else match Mp4Tags.decodeItem d with
      | none => none
      | some (n, ds, rest) => (mp4DecodeItems fuel rest).map ((n, ds) :: ·)

/-- every item the codec can render (`ItemOK`: 4-byte name, values that fit), any number of them: decoding the
concatenation gives the items back, in order -/
theorem mp4_items_decode (its : List (Bytes × List Mp4Tags.Data)) (h : ∀ it ∈ its, Mp4Tags.ItemOK it.1 it.2) :
    ∀ fuel, its.length < fuel → mp4DecodeItems fuel (mp4EncodeItems its) = some its := by
  induction its with
  | nil =>
    intro fuel hf
    cases fuel with
    | zero => omega
    | succ f => simp [mp4DecodeItems, mp4EncodeItems]
  | cons it r ih =>
    intro fuel hf
    cases fuel with
    | zero => omega
    | succ f =>
      have hne : mp4EncodeItems (it :: r) ≠ [] := by
        intro he
        have := congrArg List.length he
        simp [mp4EncodeItems, Mp4Tags.encodeItem, Mp4Tags.renderAtom] at this
      have hdec := Mp4Tags.decodeItem_encodeItem it.1 it.2 (mp4EncodeItems r) (h it (by simp))
      have hcons : mp4EncodeItems (it :: r) = Mp4Tags.encodeItem it.1 it.2 ++ mp4EncodeItems r := by
        simp [mp4EncodeItems]
      simp only [mp4DecodeItems, hne, ↓reduceIte]
      rw [hcons, hdec]
      simp only []
      rw [ih (fun x hx => h x (by simp [hx])) f (by simp at hf; omega)]
      rfl

/-- the children of `moov.udta.meta.ilst` (first atom of each name) in a tree, read structurally -/
def mp4FindIlst : List Bytes → List Atom → Option (List Atom)
  | [], _ => none
  | [n], l => match l.find? (·.name = n) with
    | some (.node _ _ _ cs) => some cs
    | _ => none
  | n :: ns, l => match l.find? (·.name = n) with
    | some (.node _ _ _ cs) => mp4FindIlst ns cs
    | _ => none

theorem find_skip (pre : List Atom) (nm : Bytes) (h : noName pre nm) (rest : List Atom) :
    (pre ++ rest).find? (·.name = nm) = rest.find? (·.name = nm) := by
  induction pre with
  | nil => rfl
  | cons x r ih =>
    have hx : x.name ≠ nm := h x (by simp)
    simp only [List.cons_append, List.find?_cons, hx, decide_false]
    exact ih (fun a ha => h a (by simp [ha]))

theorem findIlst_fill : ∀ (frames : List Frame) (names : List Bytes) (h : Hole) (items : List Atom) (w : Bool) (after : List Atom),
    framesNamed frames names → noName h.pre nIlst →
    mp4FindIlst (names ++ [nIlst]) (fill frames h (Atom.node nIlst w [] items :: after)) = some items := by
  intro frames
  induction frames with
  | nil =>
    intro names h items w after hn hp
    cases names with
    | nil =>
      simp only [List.nil_append, mp4FindIlst, fill, List.append_assoc]
      rw [find_skip h.pre nIlst hp]
      simp [Atom.name]
    | cons n ns => simp [framesNamed] at hn
  | cons fr r ih =>
    intro names h items w after hn hp
    cases names with
    | nil => simp [framesNamed] at hn
    | cons n ns =>
      simp only [framesNamed] at hn
      obtain ⟨hname, hpre, hr⟩ := hn
      have hstep : mp4FindIlst (n :: ns ++ [nIlst]) (fill (fr :: r) h (Atom.node nIlst w [] items :: after)) =
          mp4FindIlst (ns ++ [nIlst]) (fill r h (Atom.node nIlst w [] items :: after)) := by
        cases hns : ns ++ [nIlst] with
        | nil => simp at hns
        | cons m ms =>
          simp only [List.cons_append, hns, mp4FindIlst, fill, List.append_assoc]
          rw [find_skip fr.pre n hpre]
          simp [Atom.name, hname]
      rw [hstep]
      exact ih ns h items w after hr hp

/-- in the file a save leaves (no offset table to patch), the strict walker's tree has the saved item atoms as the
children of `moov.udta.meta.ilst` -/
theorem mp4_saved_ilst_found (mem : Bool) (L : Layout) (h : L.OK) (items : List Atom) (pad : PadChoice)
    (hfit : wfList (L.saved items pad).top) (hno : L.tableSteps items pad = []) :
    ∃ g T, saveTags mem L.render (ilstData items) pad = (none, g) ∧ walk g = some T ∧
      mp4FindIlst [nMoov, nUdta, nMeta, nIlst] T = some items := by
  refine ⟨_, _, saveTags_layout_exact mem L h items pad hfit hno, walk_render _ hfit, ?_⟩
  exact findIlst_fill L.frames [nMoov, nUdta, nMeta] L.hole items false _ h.2.2.1 h.2.2.2.1

/-- C01 for the strict reading, saves that patch no offset table: item atoms that are the renderings of `its` (each one
`ItemOK`), saved on an OK layout — the strict walker finds the `ilst`, and the strict decoder applied to the bytes of
its children returns `its`, every value with its type flags and version, in the order written -/
theorem mp4_saved_tags_read_back (mem : Bool) (L : Layout) (h : L.OK) (items : List Atom) (pad : PadChoice)
    (its : List (Bytes × List Mp4Tags.Data)) (hok : ∀ it ∈ its, Mp4Tags.ItemOK it.1 it.2)
    (hitems : renderList items = mp4EncodeItems its)
    (hfit : wfList (L.saved items pad).top) (hno : L.tableSteps items pad = []) :
    ∃ g T cs, saveTags mem L.render (ilstData items) pad = (none, g) ∧ walk g = some T ∧
      mp4FindIlst [nMoov, nUdta, nMeta, nIlst] T = some cs ∧
      mp4DecodeItems (its.length + 1) (renderList cs) = some its := by
  obtain ⟨g, T, h1, h2, h3⟩ := mp4_saved_ilst_found mem L h items pad hfit hno
  exact ⟨g, T, items, h1, h2, h3, by rw [hitems]; exact mp4_items_decode its hok _ (by omega)⟩

end Mutagen.C01
