/-
Props/C07_Mp4.lean — C07 "Saving unchanged tags is lossless and idempotent", MP4 layouts
(Model/Container/Mp4Layout.lean; lemmas Proofs/Container/Mp4Props.lean).  The item atoms are a parameter of the model
(what `MP4Tags._render` / the failed atoms give: C01); the statements are about the file.
-/
import MutagenModel.Proofs.Container.Mp4Props
import MutagenModel.Proofs.Container.Mp4Reader
set_option linter.unusedVariables false
namespace Mutagen.C07
open Mutagen Mutagen.Mp4C

/-- fixed point: a layout whose tag region is what `save` writes — a 32-bit `ilst` followed by a 32-bit `free` atom of
`n` zero bytes — saved with the same item atoms and a padding choice that answers `n` when offered `n`: the file is
byte-identical (nothing is resized, no size field and no offset table is touched) -/
theorem mp4_save_fixed_point (mem : Bool) (L : Layout) (h : L.OK) (pad : PadChoice) (n : Nat)
    (hk : L.kind = .freeAfter) (hw : L.ilstWide = false) (hfw : L.freeWide = false) (hp : L.freePayload = zeros n)
    (hsmall : n + 8 ≤ 0xFFFFFFFF)
    (hkeep : getPadding pad n (L.render.length - (holeOffset 0 L.frames L.hole + sizeList L.mid)) = n) :
    saveTags mem L.render (ilstData L.items) pad = (none, L.render) := by
  have hmid : L.mid = [Atom.node nIlst false [] L.items, Atom.leaf nFree false (zeros n)] := by
    simp [Layout.mid, hk, Layout.ilst, Layout.free, hw, hfw, hp]
  have hmwf := (framesOk_of_wf L.frames L.hole L.mid h.1).2
  rw [hmid] at hmwf
  simp only [wfList] at hmwf
  have hlen : (ilstData L.items).length = (Atom.node nIlst false [] L.items).size := Atom.length_render _ hmwf.1
  have hoffer : (sizeList L.mid : Int) - (((ilstData L.items).length + 8 : Nat) : Int) = n := by
    rw [hmid, hlen]; simp [sizeList, Atom.size, hdrLen]; omega
  have hnp : L.newPadding L.items pad = n := by
    unfold Layout.newPadding; rw [hoffer, hkeep]; omega
  have hsaved : L.saved L.items pad = L := by
    have hd : decide (n + 8 > 0xFFFFFFFF) = false := by simp; omega
    unfold Layout.saved Layout.after
    rw [hnp, hd]
    cases L
    simp_all
  have hfit : wfList (L.saved L.items pad).top := by rw [hsaved]; exact h.1
  have hd := delta_zero_of_keep L L.items pad hfit n hoffer hsmall hkeep
  have := saveTags_layout_exact mem L h L.items pad hfit (tableSteps_of_delta_zero L L.items pad hd)
  rw [hsaved] at this
  exact this

/-- saving twice: the layout a save leaves (`L.saved …`, exact when no offset table has to be patched —
`C03.mp4_save_wellformed`) is a fixed point of a second save with the same items, provided the policy keeps the
padding it chose (`hkeep`; for the default policy: `mp4_default_policy_idempotent`), the padding fits a 32-bit `free`
atom, and the `free` atom `_find_padding` takes in the saved file is the one the save wrote (`hok'`: not the case when
the atom before the old `free`+`ilst` pair is itself a `free` atom) -/
theorem mp4_save_twice_identical (mem : Bool) (L : Layout) (items : List Atom) (pad pad2 : PadChoice)
    (hok' : (L.saved items pad).OK) (hsmall : L.newPadding items pad + 8 ≤ 0xFFFFFFFF)
    (hkeep : getPadding pad2 (L.newPadding items pad) ((L.saved items pad).render.length -
      (holeOffset 0 L.frames L.hole + sizeList (L.saved items pad).mid)) = L.newPadding items pad) :
    saveTags mem (L.saved items pad).render (ilstData items) pad2 = (none, (L.saved items pad).render) := by
  have hd : decide (L.newPadding items pad + 8 > 0xFFFFFFFF) = false := by simp; omega
  exact mp4_save_fixed_point mem (L.saved items pad) hok' pad2 (L.newPadding items pad) rfl rfl
    (by show decide _ = false; exact hd) rfl hsmall hkeep

/-- the default policy keeps what it chose: offered its own answer for the same trailing size, it answers the same -/
theorem mp4_default_policy_idempotent (offer : Int) (size : Nat) :
    getPadding .default (getPadding .default offer size) size = getPadding .default offer size :=
  default_idem offer size

/-- satisfiable: the example layout is itself such a fixed point under the default policy; and saving it twice with
the default policy leaves the bytes of the first save -/
example : exLayout.OK ∧ exLayout.kind = .freeAfter ∧ exLayout.freePayload = zeros 4 ∧
    getPadding .default (4 : Nat) (exLayout.render.length - (holeOffset 0 exLayout.frames exLayout.hole + sizeList exLayout.mid)) = (4 : Nat) ∧
    (exLayout0.saved exItems .default).OK ∧
    saveTags true (saveTags true exLayout.render (ilstData exItems) .default).2 (ilstData exItems) .default =
      (none, (saveTags true exLayout.render (ilstData exItems) .default).2) := by
  decide +kernel

/-! ### atoms mutagen failed to parse -/

/-- `_failed_atoms` (Model/Container/Mp4Reader.lean: a child whose parser raised MP4MetadataError keeps its payload
under its name) are written back: `MP4Tags.save` appends, BEHIND the rendered items (which are sorted by
`_item_sort_key`; the failed atoms are not sorted: they follow in the order they were met), `Atom.render(name, payload)`
for every payload kept — unless a tag with that key exists now.  For a child that had a 32-bit header these are its
bytes exactly: size, name, payload.  (A child with a 64-bit header comes back with a 32-bit one.) -/
theorem mp4_failed_atoms_kept (t : Mp4R.Tags) (name data : Bytes) (ds : List Bytes)
    (h : (name, ds) ∈ t.failed) (hd : data ∈ ds) (hk : ∀ it ∈ t.items, it.1 ≠ name) :
    Mp4Tags.renderAtom name data ∈ Mp4R.failedValues t ∧
      Mp4Tags.renderAtom name data = toBE 4 (data.length + 8) ++ name ++ data :=
  ⟨Mp4R.failedValues_mem t name ds data h hd hk, rfl⟩

/-- a child the reader cannot interpret is kept: after `_failed_atoms.setdefault(name, []).append(data)` the payload
is there under its name -/
theorem mp4_failed_atom_recorded (name data : Bytes) (l : List (Bytes × List Bytes)) :
    ∃ ds, (name, ds) ∈ Mp4R.addFailed name data l ∧ data ∈ ds :=
  Mp4R.mem_addFailed name data l

end Mutagen.C07
