/-
Props/C05_OggOpus.lean — C05 for Ogg Opus (`mutagen.oggopus.OggOpusInfo`).  Property theorems only.
-/
import MutagenModel.Proofs.Info.OggCodecs
set_option linter.unusedVariables false
namespace Mutagen.C05
open Mutagen Mutagen.Ogg Mutagen.Info Mutagen.Spec Mutagen.Spec.OggS

/-- C05 for Ogg Opus: for every OpusHead RFC 7845 allows a version-1 reader to accept (version 0…15,
1…255 channels, any 16-bit pre-skip, any input rate, gain and mapping family, any mapping table) in any
stream (Spec/Info/OggStream.lean), the reported channel count is the header's and the length is
(final granule position − pre-skip) / 48000. -/
theorem oggopus_info_decodes (h : Opus.Fields) (ok : h.OK) :
    Info.Opus.parse (Opus.build h) = .ok (Opus.expected h) :=
  Info.Opus.parse_build h ok

/-- C04 side: on EVERY byte string the result is a value or the format's error -/
theorem oggopus_info_total (f : Bytes) : ∀ e, Info.Opus.parse f = .error e → e = .mutagen :=
  loadWrap_clean _ (fun e h => Info.Opus.raw_classes f e h)

theorem oggopus_info_raw_classes (f : Bytes) : ∀ e, Info.Opus.raw f = .error e → e = .mutagen ∨ e = .eof :=
  fun e h => Info.Opus.raw_classes f e h

/-! non-vacuity: stereo, pre-skip 312 -/
example : ({ version := 1, channels := 2, preSkip := 312, inputSampleRate := 48000, outputGain := 0, mappingFamily := 0,
             mappingTable := [], stream := { serial := 9, middle := [], lastSeq := 2, lastGranule := 48312,
                                             lastPackets := [[0xF8, 0xFF, 0xFE]] } } : Opus.Fields).OK := by
  decide +kernel

end Mutagen.C05
