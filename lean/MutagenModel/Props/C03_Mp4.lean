/-
Props/C03_Mp4.lean — C03 "Files stay structurally valid through any edit history", MP4 layouts
(Model/Container/Mp4Layout.lean; lemmas Proofs/Container/Mp4Props.lean).
What is proved: the FINAL file of a save / delete — region replaced, size fields of the path atoms adjusted, every
visited `stco` / `co64` / `tfhd` payload patched — is the rendering of a well-formed tree (`savedPatched`) and is read back
by the strict walker: every size field equals its extent at every level.  Both for files with tags (`__save_existing`,
`Layout`) and without (`__save_new`, `NewLayout`: a `moov` without `udta`, a `moov.udta` without `meta.ilst`).
Side condition `TablesOK` (decidable): every visited table atom can be patched — its count fits its payload and every
patched entry fits its field; otherwise the code raises MP4MetadataError after the region was replaced (C04/C19).  (It
also says that the table atom the parser saw lies, as a leaf with the same header, at the shifted offset in the saved
tree: true for every layout, checked rather than proved.)
-/
import MutagenModel.Proofs.Container.Mp4New
set_option linter.unusedVariables false
namespace Mutagen.C03
open Mutagen Mutagen.Mp4C

/-- the strict reader inverts `render` on every well-formed layout, and mutagen's atom reader returns the same tree
with the file offsets of the atoms -/
theorem mp4_strict_reader_reads_layout (L : Layout) (h : L.OK) :
    walk L.render = some L.top ∧ parse L.render = .ok (annotList 0 L.top) :=
  ⟨walk_render L.top h.1, parse_render L.top h.1 h.2.1⟩

/-- MP4 save on a well-formed layout when no offset table has to be patched (the size does not change, or
`__update_offsets` visits nothing): the file is the saved layout, which the strict walker reads back — every size field
equals its extent at every level; in particular `moov`, `udta` and `meta` carry the extents of the tree with the new
region (`parent_sizes` of Props/C10 is the byte-level statement: old size + delta) -/
theorem mp4_save_wellformed (mem : Bool) (L : Layout) (h : L.OK) (items : List Atom) (pad : PadChoice)
    (hfit : wfList (L.saved items pad).top) (hno : L.tableSteps items pad = []) :
    saveTags mem L.render (ilstData items) pad = (none, (L.saved items pad).render) ∧
      walk (L.saved items pad).render = some (L.saved items pad).top ∧
      sizeList (L.saved items pad).top = lenIn L.frames L.hole (sizeList (L.saved items pad).mid) :=
  ⟨saveTags_layout_exact mem L h items pad hfit hno, walk_render _ hfit, sizeList_fill _ _ _⟩

/-- MP4 delete, the same -/
theorem mp4_delete_wellformed (mem : Bool) (L : Layout) (h : L.OK)
    (hfit : wfList (L.saved [] (.callback fun _ _ => 0)).top) (hno : L.tableSteps [] (.callback fun _ _ => 0) = []) :
    deleteTags mem L.render = (none, (L.saved [] (.callback fun _ _ => 0)).render) ∧
      walk (L.saved [] (.callback fun _ _ => 0)).render = some (L.saved [] (.callback fun _ _ => 0)).top := by
  rw [deleteTags_eq]
  exact ⟨saveTags_layout_exact mem L h [] _ hfit hno, walk_render _ hfit⟩

/-- with offset tables: what the file is before the table steps run — the saved layout, a well-formed tree -/
theorem mp4_save_wellformed_before_tables (mem : Bool) (L : Layout) (h : L.OK) (items : List Atom) (pad : PadChoice)
    (hfit : wfList (L.saved items pad).top) :
    saveTags mem L.render (ilstData items) pad = runSteps (L.tableSteps items pad) (L.saved items pad).render ∧
      walk (L.saved items pad).render = some (L.saved items pad).top :=
  ⟨saveTags_layout mem L h items pad hfit, walk_render _ hfit⟩

/-- MP4 save, the whole of it, without the restriction to saves that patch no table: the file is the rendering of
`savedPatched`, a well-formed tree of the same extent as the saved layout, which the strict walker reads back -/
theorem mp4_save_wellformed_final (mem : Bool) (L : Layout) (h : L.OK) (items : List Atom) (pad : PadChoice)
    (hfit : wfList (L.saved items pad).top) (htab : L.TablesOK items pad) :
    saveTags mem L.render (ilstData items) pad = (none, renderList (L.savedPatched items pad)) ∧
      wfList (L.savedPatched items pad) ∧ walk (renderList (L.savedPatched items pad)) = some (L.savedPatched items pad) ∧
      sizeList (L.savedPatched items pad) = sizeList (L.saved items pad).top :=
  saveTags_layout_patched mem L h items pad hfit htab

/-- MP4 delete, the same -/
theorem mp4_delete_wellformed_final (mem : Bool) (L : Layout) (h : L.OK)
    (hfit : wfList (L.saved [] (.callback fun _ _ => 0)).top) (htab : L.TablesOK [] (.callback fun _ _ => 0)) :
    deleteTags mem L.render = (none, renderList (L.savedPatched [] (.callback fun _ _ => 0))) ∧
      walk (renderList (L.savedPatched [] (.callback fun _ _ => 0))) = some (L.savedPatched [] (.callback fun _ _ => 0)) := by
  rw [deleteTags_eq]
  have := saveTags_layout_patched mem L h [] _ hfit htab
  exact ⟨this.1, this.2.2.1⟩

/-- `__save_new`: a file without tags (a `moov` without `udta`: a new `udta(meta(hdlr, ilst, free))` becomes the first
child of `moov`, the size of `moov` grows; a `moov.udta` without `meta.ilst`: a new `meta(hdlr, ilst, free)` becomes the
first child of `udta`, the sizes of `moov` and `udta` grow; nothing else moves but the offset tables): the final file is
the rendering of a well-formed tree the strict walker reads back, longer by the extent of the new atoms -/
theorem mp4_save_new_wellformed (mem : Bool) (N : NewLayout) (h : N.OK) (items : List Atom) (pad : PadChoice)
    (hfit : wfList (N.saved items pad)) (htab : N.TablesOK items pad) :
    saveTags mem N.render (ilstData items) pad = (none, renderList (N.savedPatched items pad)) ∧
      wfList (N.savedPatched items pad) ∧ walk (renderList (N.savedPatched items pad)) = some (N.savedPatched items pad) ∧
      sizeList (N.savedPatched items pad) = sizeList N.top + sizeList (N.newAtoms items pad) :=
  saveTags_new mem N h items pad hfit htab

/-- satisfiable (layouts with a track whose `stco` has to be patched) -/
example : exLayout.OK ∧ wfList (exLayout.saved exItems .default).top ∧ exLayout.TablesOK exItems .default ∧
    (exLayout.visitedTables exItems .default).length = 1 ∧
    exLayout.TablesOK [] (.callback fun _ _ => 0) ∧ wfList (exLayout.saved [] (.callback fun _ _ => 0)).top ∧
    exNew1.OK ∧ wfList (exNew1.saved exItems .default) ∧ exNew1.TablesOK exItems .default ∧
    (exNew1.visitedTables exItems .default).length = 1 ∧
    exNew2.OK ∧ wfList (exNew2.saved exItems .default) ∧ exNew2.TablesOK exItems .default := by
  decide +kernel

/-- satisfiable; and on the example with a track the strict walker does accept the file after the table step -/
example : exLayout0.OK ∧ wfList (exLayout0.saved exItems .default).top ∧ exLayout0.tableSteps exItems .default = [] ∧
    (walkFile (saveTags true exLayout.render (ilstData exItems) .default).2).isSome = true := by
  decide +kernel

end Mutagen.C03
