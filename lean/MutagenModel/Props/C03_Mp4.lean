/-
Props/C03_Mp4.lean — C03 "Files stay structurally valid through any edit history", MP4 layouts
(Model/Container/Mp4Layout.lean; lemmas Proofs/Container/Mp4Props.lean).
What is proved: the saved layout is read back by the strict walker (every size field equals its extent at every
level; the path atoms' sizes are those of the new extents) and by mutagen's own reader; the file IS the saved layout
whenever no offset table has to be patched.  NOT proved here: that the strict walker still accepts the file after the
table steps of `__update_offsets` ran (they overwrite entry fields of `stco`/`co64`/`tfhd` payloads with the same number
of bytes — `C02.mp4_table_steps_patch_only` — and Props/C10 (d) says what the entries are afterwards; the tree-level
statement for them is open).
-/
import MutagenModel.Proofs.Container.Mp4Props
set_option linter.unusedVariables false
namespace Mutagen.C03
open Mutagen Mutagen.Mp4C

/-- the strict reader inverts `render` on every well-formed layout, and mutagen's atom reader returns the same tree
with the file offsets of the atoms -/
theorem mp4_strict_reader_reads_layout (L : Layout) (h : L.OK) :
    walk L.render = some L.top ∧ parse L.render = .ok (annotList 0 L.top) :=
  ⟨walk_render L.top h.1, parse_render L.top h.1 h.2.1⟩

/-- MP4 save on a well-formed layout when no offset table has to be patched (the size does not change, or
`__update_offsets` visits nothing): the file is the saved layout, which the strict walker reads back — every size field
equals its extent at every level; in particular `moov`, `udta` and `meta` carry the extents of the tree with the new
region (`parent_sizes` of Props/C10 is the byte-level statement: old size + delta) -/
theorem mp4_save_wellformed (mem : Bool) (L : Layout) (h : L.OK) (items : List Atom) (pad : PadChoice)
    (hfit : wfList (L.saved items pad).top) (hno : L.tableSteps items pad = []) :
    saveTags mem L.render (ilstData items) pad = (none, (L.saved items pad).render) ∧
      walk (L.saved items pad).render = some (L.saved items pad).top ∧
      sizeList (L.saved items pad).top = lenIn L.frames L.hole (sizeList (L.saved items pad).mid) :=
  ⟨saveTags_layout_exact mem L h items pad hfit hno, walk_render _ hfit, sizeList_fill _ _ _⟩

/-- MP4 delete, the same -/
theorem mp4_delete_wellformed (mem : Bool) (L : Layout) (h : L.OK)
    (hfit : wfList (L.saved [] (.callback fun _ _ => 0)).top) (hno : L.tableSteps [] (.callback fun _ _ => 0) = []) :
    deleteTags mem L.render = (none, (L.saved [] (.callback fun _ _ => 0)).render) ∧
      walk (L.saved [] (.callback fun _ _ => 0)).render = some (L.saved [] (.callback fun _ _ => 0)).top := by
  rw [deleteTags_eq]
  exact ⟨saveTags_layout_exact mem L h [] _ hfit hno, walk_render _ hfit⟩

/-- with offset tables: what the file is before the table steps run — the saved layout, a well-formed tree -/
theorem mp4_save_wellformed_before_tables (mem : Bool) (L : Layout) (h : L.OK) (items : List Atom) (pad : PadChoice)
    (hfit : wfList (L.saved items pad).top) :
    saveTags mem L.render (ilstData items) pad = runSteps (L.tableSteps items pad) (L.saved items pad).render ∧
      walk (L.saved items pad).render = some (L.saved items pad).top :=
  ⟨saveTags_layout mem L h items pad hfit, walk_render _ hfit⟩

/-- satisfiable; and on the example with a track the strict walker does accept the file after the table step -/
example : exLayout0.OK ∧ wfList (exLayout0.saved exItems .default).top ∧ exLayout0.tableSteps exItems .default = [] ∧
    (walkFile (saveTags true exLayout.render (ilstData exItems) .default).2).isSome = true := by
  decide +kernel

end Mutagen.C03
