/-
Props/C19_ApeFileReal.lean — C19 / C06 for APEv2 files on the programs with the REAL reads (`saveM`, `deleteM`,
`apeLoadM`: every file-object call of `_APEv2Data(fileobj)` included), obtained from the equivalence
`ape_locateM_refines`: without faults `_APEv2Data(fileobj)` computes the pure `ApeF.locate` of the bytes, for EVERY byte
string — no small-file condition; the one hypothesis `LyricsSizeOK f` says that the six bytes where a Lyrics3v2 size field
would stand (in front of "LYRICS200" + ID3v1) are six digits or nothing Python's `int()` accepts: the pure `int6`
reads plain digits only, `int()` also takes "-00001", " 12345", "1_2345".

The programs `saveSumM` / `deleteSumM` (reads summarised) of Props/C19_ApeFile.lean satisfy the same statements; an
equation between the two families of programs is not claimed (their final states differ in position, call count and log;
that the bytes left agree in the failing case would need a determinism argument that is not proved).
-/
import MutagenModel.Proofs.Container.ApeLocate
set_option linter.unusedVariables false
namespace Mutagen.C19
open Mutagen Mutagen.ApeF

/-- THE EQUIVALENCE (fault-free; any capacity; wherever the file position is) -/
theorem ape_locateM_refines {e : Env} (hq : Quiet e) (s : FS) (hint : LyricsSizeOK s.data) :
    ∃ s', locateM e s = (locate s.data, s') ∧ s'.data = s.data :=
  locateM_q hq s hint

/-- `LyricsSizeOK` holds in particular when the six bytes are plain digits — or when Python's `int()` rejects them -/
theorem lyricsSizeOK_of_none (f : Bytes) (h1 : pyInt (readAt f (lyricsFieldPos f.length) 6) = none)
    (h2 : int6 (readAt f (lyricsFieldPos f.length) 6) = none) : LyricsSizeOK f := by
  unfold LyricsSizeOK; rw [h1, h2]; rfl

/-- C19 for `APEv2.save` with the real reads (cf. `ape_save_payload_intact`): the save completes with the pure result,
or MutagenError with the payload followed by a proper prefix of the new tag -/
theorem ape_saveM_payload_intact {e : Env} (hq : Quiet e) (B : Nat) (hB : 0 < B) (f : Bytes) (hint : LyricsSizeOK f)
    (loc : Option Loc) (h : locate f = .ok loc) (tag3 : Option (Bytes × Bytes × Bytes)) (s : FS) (hs : s.data = f)
    (hpos : s.pos ≤ s.data.length) :
    save f (tagBytes tag3) = .ok (baseOf f loc ++ tagBytes tag3) ∧
    ((∃ s', saveM B tag3 e s = (.ok (), s') ∧ s'.data = baseOf f loc ++ tagBytes tag3) ∨
     (∃ s' k, saveM B tag3 e s = (.error .mutagen, s') ∧
        s'.data = baseOf f loc ++ (tagBytes tag3).take k ∧ k < (tagBytes tag3).length ∧ e.cap ≠ none)) :=
  ⟨save_eq_base f _ loc h, saveM_q hq B hB f hint loc h tag3 s hs hpos⟩

/-- REFINEMENT of `APEv2.save` with the real reads -/
theorem ape_saveM_real_refines {e : Env} (hq : Quiet e) (hcap : e.cap = none) (B : Nat) (hB : 0 < B) (f : Bytes)
    (hint : LyricsSizeOK f) (tag3 : Option (Bytes × Bytes × Bytes)) (out : Bytes) (h : save f (tagBytes tag3) = .ok out)
    (s : FS) (hs : s.data = f) (hpos : s.pos ≤ s.data.length) :
    ∃ s', saveM B tag3 e s = (.ok (), s') ∧ s'.data = out := by
  cases hl : locate f with
  | error x => unfold save at h; rw [hl] at h; cases h
  | ok loc =>
    rw [save_eq_base _ _ loc hl] at h
    injection h with h
    rcases saveM_q hq B hB f hint loc hl tag3 s hs hpos with ⟨s1, hr, hd⟩ | ⟨s1, k, _, _, _, hc⟩
    · exact ⟨s1, hr, by rw [hd, h]⟩
    · exact absurd hcap hc

/-- a normal return of `APEv2.save` with the real reads, without faults (any capacity), leaves the pure result -/
theorem ape_saveM_ok_means_written_quiet {e : Env} (hq : Quiet e) (B : Nat) (hB : 0 < B) (tag3 : Option (Bytes × Bytes × Bytes))
    (s s' : FS) (hint : LyricsSizeOK s.data) (hpos : s.pos ≤ s.data.length) (h : saveM B tag3 e s = (.ok (), s')) :
    save s.data (tagBytes tag3) = .ok s'.data := by
  cases hl : locate s.data with
  | error x =>
    obtain ⟨s1, y, hr, _⟩ := saveM_q_err hq B s.data hint x hl tag3 s rfl hpos
    rw [hr] at h; injection h with h1 _; cases h1
  | ok loc =>
    rw [save_eq_base _ _ loc hl]
    rcases saveM_q hq B hB s.data hint loc hl tag3 s rfl hpos with ⟨s1, hr, hd⟩ | ⟨s1, k, hr, _⟩
    · rw [hr] at h; injection h with _ h2; rw [← h2, hd]
    · rw [hr] at h; injection h with h1 _; cases h1

/-- `APEv2.delete` with the real reads never needs space -/
theorem ape_deleteM_never_enospc {e : Env} (hq : Quiet e) (B : Nat) (hB : 0 < B) (f out : Bytes) (hint : LyricsSizeOK f)
    (h : delete f = .ok out) (s : FS) (hs : s.data = f) (hpos : s.pos ≤ s.data.length) :
    ∃ s', deleteM B e s = (.ok (), s') ∧ s'.data = out :=
  deleteM_q hq B hB f out hint h s hs hpos

/-- REFINEMENT of the whole load: `APEv2(fileobj)` returns `apeLoad` of the bytes (the tag located and `data.tag`; an empty
`data.tag` is APENoHeaderError) -/
theorem ape_loadM_refines {e : Env} (hq : Quiet e) (s : FS) (hint : LyricsSizeOK s.data) :
    ∃ s', apeLoadM e s = (apeLoad s.data, s') ∧ s'.data = s.data :=
  apeLoadM_q hq s hint

/-- … and what `apeLoad` locates is `locate` -/
theorem ape_load_locates (f : Bytes) :
    (match locateTag f with | .ok o => Except.ok (o.map (·.1)) | .error x => .error x) = locate f :=
  locateTag_fst f

/-- where the hypothesis matters: "-00001" in the size field. `int()` reads −1 and the code looks 37 bytes back for a
footer; `int6` says "not a number" -/
example : pyInt [0x2D, 0x30, 0x30, 0x30, 0x30, 0x31] = some (-1) ∧ int6 [0x2D, 0x30, 0x30, 0x30, 0x30, 0x31] = none := by
  decide +kernel

/-- non-vacuity: on `audio ++ tag` the condition holds and both sides find the tag -/
def realFile : Bytes :=
  List.replicate 140 0x55 ++ Ape.headerOrFooter 41 1 (Ape.hasHeader + Ape.isHeader) ++ [1, 0, 0, 0, 0, 0, 0, 0, 0x41] ++
    Ape.headerOrFooter 41 1 Ape.hasHeader

example : pyInt (readAt realFile (lyricsFieldPos realFile.length) 6) = none ∧
    int6 (readAt realFile (lyricsFieldPos realFile.length) 6) = none ∧
    (locateM {} { data := realFile, pos := 7 }).1 = locate realFile ∧
    locate realFile = .ok (some { start := 140, endd := 213, isAtStart := false }) := by decide +kernel

end Mutagen.C19
