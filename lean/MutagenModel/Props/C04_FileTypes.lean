/-
Props/C04_FileTypes.lean — C04 at the FILE-TYPE level: `Type(fileobj)` for the format classes, i.e. each `FileType.load`
as composed in Model/FileTypes.lean from the tag/container loads (Props/C04_<Part>.lean) and the stream-info parsers
(Props/C05_<Fmt>.lean): on EVERY byte string it returns or raises a MutagenError.

Covered without hypotheses: MP3, TrueAudio, the bare ID3FileType, FLAC, MP4, ASF, WavPack, Musepack, MonkeysAudio,
OptimFROG, TAK, the bare APEv2File, AIFF, WAVE, DSF, DSDIFF, AAC, AC3, SMF, and the five Ogg classes.
`mutagen.File`: the class picked by the generated score model, then its load.

What is composed and what is not: see the report in Model/FileTypes.lean and the doc strings below.
-/
import MutagenModel.Proofs.FileTypes
import MutagenModel.Props.C04_ApeFile
import MutagenModel.Props.C18
import MutagenModel.Props.C04_Asf
import MutagenModel.Props.C04_Dsf
import MutagenModel.Props.C04_Flac
import MutagenModel.Props.C04_Iff
import MutagenModel.Props.C05_Aac
import MutagenModel.Props.C05_Ac3
import MutagenModel.Props.C05_Aiff
import MutagenModel.Props.C05_Dsdiff
import MutagenModel.Props.C05_Dsf
import MutagenModel.Props.C05_MonkeysAudio
import MutagenModel.Props.C05_Mpeg
import MutagenModel.Props.C05_Musepack
import MutagenModel.Props.C05_OggFlac
import MutagenModel.Props.C05_OggOpus
import MutagenModel.Props.C05_OggSpeex
import MutagenModel.Props.C05_OggTheora
import MutagenModel.Props.C05_OggVorbis
import MutagenModel.Props.C05_OptimFROG
import MutagenModel.Props.C05_Tak
import MutagenModel.Props.C05_TrueAudio
import MutagenModel.Props.C05_WavPack
import MutagenModel.Props.C05_Wave
import MutagenModel.Props.C05_Smf
set_option linter.unusedVariables false
namespace Mutagen.C04
open Mutagen Mutagen.FileTypes

/-! ## ID3-tagged streams -/

/-- `MP3(fileobj)`, every byte string: `ID3(fileobj)` (header at 0, extended header, body read, ID3v1 fallback;
ID3NoHeaderError caught, ID3UnsupportedVersionError not), then `MPEGInfo(fileobj, tags.size)` — ok or MutagenError.
(The frame parser `_read` that runs on the body is total and not part of the composition.) -/
theorem mp3_file_load_clean (f : Bytes) : ∀ e, loadMp3 f = .error e → e = .mutagen := by
  intro e h
  unfold loadMp3 at h
  split at h
  · rename_i e' he; cases h; exact id3Tags_clean (id3At_clean f 0) _ he
  · split at h
    · rename_i e' he; cases h; exact C05.mpeg_info_offset_total f _ _ he
    · cases h

/-- `TrueAudio(fileobj)`, every byte string: the ID3 tag as for MP3, then `TrueAudioInfo(fileobj, tags.size)` -/
theorem trueaudio_file_load_clean (f : Bytes) : ∀ e, loadTrueAudio f = .error e → e = .mutagen := by
  intro e h
  unfold loadTrueAudio at h
  split at h
  · rename_i e' he; cases h; exact id3Tags_clean (id3At_clean f 0) _ he
  · split at h
    · rename_i e' he; cases h; exact C05.tta_info_total f _ _ he
    · cases h

/-- the bare `ID3FileType(fileobj)` (one of `File`'s options) -/
theorem id3filetype_file_load_clean (f : Bytes) : ∀ e, loadId3FileType f = .error e → e = .mutagen :=
  Clean.map _ (id3Tags_clean (id3At_clean f 0))

/-- the tag class inside these loads IS the existing model of `ID3(fileobj)`: at offset 0 `id3At` is `Id3F.load true` -/
theorem id3_at_zero_is_id3_load (f : Bytes) : (id3At f 0).map Prod.fst = Id3F.load true f := id3At_zero f

/-! ## APEv2-tagged streams -/

/-- `try: APEv2(fileobj) except APENoHeaderError: None` on every byte string: the tag located (`ApeF.locate`), its bytes,
the item loop `__parse_tag` (counts, kinds, keys, UTF-8 values) — ok or MutagenError -/
theorem apev2file_file_load_clean (f : Bytes) : ∀ e, loadApev2File f = .error e → e = .mutagen :=
  apeTags_clean f (ape_locate_clean f)

/-- `WavPack(fileobj)`: `WavPackInfo`, then the APEv2 tag -/
theorem wavpack_file_load_clean (f : Bytes) : ∀ e, loadWavPack f = .error e → e = .mutagen :=
  Clean.both (C05.wavpack_info_total f) (apeTags_clean f (ape_locate_clean f))

/-- `Musepack(fileobj)`: `MusepackInfo` (SV4–SV8, ID3v2 skip), then the APEv2 tag -/
theorem musepack_file_load_clean (f : Bytes) : ∀ e, loadMusepack f = .error e → e = .mutagen :=
  Clean.both (C05.mpc_info_total f) (apeTags_clean f (ape_locate_clean f))

/-- `MonkeysAudio(fileobj)` -/
theorem monkeysaudio_file_load_clean (f : Bytes) : ∀ e, loadMonkeysAudio f = .error e → e = .mutagen :=
  Clean.both (C05.ape_info_total f) (apeTags_clean f (ape_locate_clean f))

/-- `OptimFROG(fileobj)` -/
theorem optimfrog_file_load_clean (f : Bytes) : ∀ e, loadOptimFROG f = .error e → e = .mutagen :=
  Clean.both (C05.ofr_info_total f) (apeTags_clean f (ape_locate_clean f))

/-- `TAK(fileobj)` -/
theorem tak_file_load_clean (f : Bytes) : ∀ e, loadTak f = .error e → e = .mutagen :=
  Clean.both (C05.tak_info_total f) (apeTags_clean f (ape_locate_clean f))

/-! ## one model each -/

/-- `FLAC(fileobj)` -/
theorem flac_file_load_clean (f : Bytes) : ∀ e, loadFlac f = .error e → e = .mutagen :=
  fun e h => flac_load_clean f e h

/-- `ASF(fileobj)` -/
theorem asf_file_load_clean (f : Bytes) : ∀ e, loadAsf f = .error e → e = .mutagen :=
  fun e h => asf_load_clean f e h

/-- `MP4(fileobj)`: `Atoms`, `MP4Info.load`, `MP4Tags.load` up to the item payloads, with the `except Exception`
handlers of `MP4.load`, and `MP4Chapters` (mvhd timescale + Nero `chpl`); the typed item parsers are not in this model
(they are in Model/Container/Mp4Reader.lean) -/
theorem mp4_file_load_clean (f : Bytes) : ∀ e, loadMp4 f = .error e → e = .mutagen :=
  mp4LoadFullPure_clean f

/-- `AAC(fileobj)` -/
theorem aac_file_load_clean (f : Bytes) : ∀ e, loadAac f = .error e → e = .mutagen :=
  C05.aac_info_total f

/-- `AC3(fileobj)` -/
theorem ac3_file_load_clean (f : Bytes) : ∀ e, loadAc3 f = .error e → e = .mutagen :=
  C05.ac3_info_total f

/-! ## ID3 inside a chunk -/

/-- the tags part of the IFF loads, every dialect: the chunk walk, then `ID3.load` at the chunk's data offset -/
theorem iff_tags_clean (d : Iff.Dialect) (f : Bytes) : ∀ e, iffTags d f = .error e → e = .mutagen := by
  intro e h
  unfold iffTags at h
  split at h
  · rename_i e' he; cases h; exact iff_load_clean d f _ he
  · cases h
  · exact Clean.map _ (id3Tags_clean (id3At_clean f _)) e h

/-- `AIFF(fileobj)`: tags, then `AIFFInfo` -/
theorem aiff_file_load_clean (f : Bytes) : ∀ e, loadAiff f = .error e → e = .mutagen :=
  Clean.both (iff_tags_clean _ f) (C05.aiff_info_total f)

/-- `DSDIFF(fileobj)`: tags, then `DSDIFFInfo` -/
theorem dsdiff_file_load_clean (f : Bytes) : ∀ e, loadDsdiff f = .error e → e = .mutagen :=
  Clean.both (iff_tags_clean _ f) (C05.dsdiff_info_total f)

/-- `WAVE(fileobj)`: `WaveStreamInfo` first, then the tags -/
theorem wave_file_load_clean (f : Bytes) : ∀ e, loadWave f = .error e → e = .mutagen :=
  Clean.both (C05.wave_info_total f) (iff_tags_clean _ f)

/-- `DSF(fileobj)`: the chunk headers and the tag at the metadata pointer (`Dsf.load`), the ID3v1 search, `DSFInfo` -/
theorem dsf_file_load_clean (f : Bytes) : ∀ e, loadDsf f = .error e → e = .mutagen := by
  intro e h
  unfold loadDsf at h
  refine Clean.both ?_ (C05.dsf_info_total f) e h
  intro e' h'
  split at h'
  · rename_i x hx; cases h'; exact dsf_load_clean f _ hx
  · cases h'
  · split at h'
    · cases h'
    · split at h'
      · cases h'; rfl
      · cases h'
  · cases h'

/-! ## Ogg

`loadOgg<Codec> f` runs both models of `OggFileType.load`: `OggInj.loadPure c` (identification page, comment packets,
last page, the handlers) and `Info.<Codec>.parse` (info constructor with every field, `_post_tags`).  They refuse the
same files (`ogg*_models_agree` below), so the outcome is that of `OggInj.loadPure`; the second supplies the info
record.  `find_last` raises MutagenError only because `OggInj.findLastP` IS `Info.OggC.findLast`
(Proofs/Container/OggInjectLoadLink.lean `findLastP_link`). -/

/-- `OggVorbis(fileobj)`: the pure Ogg load (identification page, comment packets, last page, handlers of
`OggFileType.load`) and the info model -/
theorem oggvorbis_file_load_clean (f : Bytes) : ∀ e, loadOggVorbis f = .error e → e = .mutagen :=
  Clean.both (oggLoadPure_clean .vorbis f) (C05.oggvorbis_info_total f)

/-- `OggOpus(fileobj)` -/
theorem oggopus_file_load_clean (f : Bytes) : ∀ e, loadOggOpus f = .error e → e = .mutagen :=
  Clean.both (oggLoadPure_clean .opus f) (C05.oggopus_info_total f)

/-- `OggSpeex(fileobj)` -/
theorem oggspeex_file_load_clean (f : Bytes) : ∀ e, loadOggSpeex f = .error e → e = .mutagen :=
  Clean.both (oggLoadPure_clean .speex f) (C05.oggspeex_info_total f)

/-- `OggTheora(fileobj)` -/
theorem oggtheora_file_load_clean (f : Bytes) : ∀ e, loadOggTheora f = .error e → e = .mutagen :=
  Clean.both (oggLoadPure_clean .theora f) (C05.oggtheora_info_total f)

/-- `OggFLAC(fileobj)` -/
theorem oggflac_file_load_clean (f : Bytes) : ∀ e, loadOggFlac f = .error e → e = .mutagen :=
  Clean.both (oggLoadPure_clean .flac f) (C05.oggflac_info_total f)

/-- the pure Ogg load alone, every codec (new: `OggInj.loadPure` had no class statement): MutagenError only -/
theorem ogg_load_pure_clean (c : OggInj.Codec) (f : Bytes) :
    ∀ e, OggInj.loadPure c f = .error e → e = .mutagen :=
  oggLoadPure_clean c f

/-! ### the two Ogg models agree -/

/-- whenever the pure Ogg Vorbis load succeeds, the info model succeeds: same page search (`vorbis_init_link`), `idCheck`
refuses exactly what `OggVorbisInfo.__init__` refuses (`idCheck_link`), same `find_last` (`findLastP_link`) -/
theorem oggvorbis_models_agree (f : Bytes) (l : OggInj.Loaded) (h : OggInj.loadPure .vorbis f = .ok l) :
    ∃ i, Info.Vorbis.parse f = .ok i := vorbis_agree f l h

/-- the same for Opus -/
theorem oggopus_models_agree (f : Bytes) (l : OggInj.Loaded) (h : OggInj.loadPure .opus f = .ok l) :
    ∃ i, Info.Opus.parse f = .ok i := opus_agree f l h

/-- the same for Speex -/
theorem oggspeex_models_agree (f : Bytes) (l : OggInj.Loaded) (h : OggInj.loadPure .speex f = .ok l) :
    ∃ i, Info.Speex.parse f = .ok i := speex_agree f l h

/-- the same for Theora -/
theorem oggtheora_models_agree (f : Bytes) (l : OggInj.Loaded) (h : OggInj.loadPure .theora f = .ok l) :
    ∃ i, Info.Theora.parse f = .ok i := theora_agree f l h

/-- the same for Ogg FLAC (`_post_tags` looks for the last page only when STREAMINFO has no total_samples) -/
theorem oggflac_models_agree (f : Bytes) (l : OggInj.Loaded) (h : OggInj.loadPure .flac f = .ok l) :
    ∃ i, Info.OggFlac.parse f = .ok i := oggflac_agree f l h

/-- so the composed loads ARE the pure Ogg load (result and exception), with the info record added: on every byte
string, for the five codecs -/
theorem ogg_file_load_is_load_pure (f : Bytes) :
    (loadOggVorbis f).map Prod.fst = OggInj.loadPure .vorbis f ∧
    (loadOggOpus f).map Prod.fst = OggInj.loadPure .opus f ∧
    (loadOggSpeex f).map Prod.fst = OggInj.loadPure .speex f ∧
    (loadOggTheora f).map Prod.fst = OggInj.loadPure .theora f ∧
    (loadOggFlac f).map Prod.fst = OggInj.loadPure .flac f :=
  ⟨both_fst _ _ (vorbis_agree f), both_fst _ _ (opus_agree f), both_fst _ _ (speex_agree f),
   both_fst _ _ (theora_agree f), both_fst _ _ (oggflac_agree f)⟩

/-- the slow way of `find_last` by file position ends on every byte string (never `diverge`) -/
theorem ogg_slow_last_ends (f : Bytes) (serial : Nat) (best : Option Ogg.Page) :
    ∃ r, OggInj.slowLastP f serial (f.length + 1) 0 best = .ok r :=
  slowLastP_ok f serial _ 0 best (by omega)

/-- `SMF(fileobj)`: the stream information only (the class has no tags) -/
theorem smf_file_load_clean (f : Bytes) : ∀ e, loadSmf f = .error e → e = .mutagen :=
  C05.smf_info_total f

/-! ## `mutagen.File` -/

open Mutagen.Generated in
/-- every class among `File`'s options -/
theorem kind_load_clean (k : Kind) (f : Bytes) :
    ∀ e, loadKind k f = .error e → e = .mutagen := by
  cases k <;> simp only [loadKind]
  case SMF => exact Clean.map _ (smf_file_load_clean f)
  case MP3 => exact Clean.map _ (mp3_file_load_clean f)
  case TrueAudio => exact Clean.map _ (trueaudio_file_load_clean f)
  case OggTheora => exact Clean.map _ (oggtheora_file_load_clean f)
  case OggSpeex => exact Clean.map _ (oggspeex_file_load_clean f)
  case OggVorbis => exact Clean.map _ (oggvorbis_file_load_clean f)
  case OggFLAC => exact Clean.map _ (oggflac_file_load_clean f)
  case FLAC => exact Clean.map _ (flac_file_load_clean f)
  case AIFF => exact Clean.map _ (aiff_file_load_clean f)
  case APEv2File => exact Clean.map _ (apev2file_file_load_clean f)
  case MP4 => exact Clean.map _ (mp4_file_load_clean f)
  case ID3FileType => exact Clean.map _ (id3filetype_file_load_clean f)
  case WavPack => exact Clean.map _ (wavpack_file_load_clean f)
  case Musepack => exact Clean.map _ (musepack_file_load_clean f)
  case MonkeysAudio => exact Clean.map _ (monkeysaudio_file_load_clean f)
  case OptimFROG => exact Clean.map _ (optimfrog_file_load_clean f)
  case ASF => exact Clean.map _ (asf_file_load_clean f)
  case OggOpus => exact Clean.map _ (oggopus_file_load_clean f)
  case AAC => exact Clean.map _ (aac_file_load_clean f)
  case AC3 => exact Clean.map _ (ac3_file_load_clean f)
  case TAK => exact Clean.map _ (tak_file_load_clean f)
  case DSF => exact Clean.map _ (dsf_file_load_clean f)
  case DSDIFF => exact Clean.map _ (dsdiff_file_load_clean f)
  case WAVE => exact Clean.map _ (wave_file_load_clean f)

open Mutagen.Generated Mutagen.Detect in
/-- `mutagen.File(fileobj)` with any name and any list of options: the scores of the first 128 bytes / the name /
the last 160 bytes pick a class (or None), then that class's load runs — None, an object, or MutagenError -/
theorem file_detect_then_load_clean (name : String) (opts : List Kind) (f : Bytes)
    : ∀ e, fileLoad name opts f = .error e → e = .mutagen := by
  intro e h
  unfold fileLoad at h
  split at h
  · cases h
  · rename_i k hk
    split at h
    · rename_i e' he; cases h
      exact kind_load_clean k f _ he
    · cases h

open Mutagen.Generated Mutagen.Detect in
/-- the class `File` loads is one of the options, its score is positive, and no option scores higher
(`maxBy_spec` of Props/C18.lean) -/
theorem file_detect_picks_best (name : String) (opts : List Kind) (f : Bytes) (k : Kind)
    (h : fileLoad name opts f = .ok (some k)) :
    k ∈ opts ∧ score (fileAtoms name f) k > 0 ∧ ∀ j ∈ opts, score (fileAtoms name f) j ≤ score (fileAtoms name f) k := by
  unfold fileLoad at h
  split at h
  · cases h
  · rename_i k' hk
    split at h
    · cases h
    · cases h
      unfold pick at hk
      have hne : opts ≠ [] := by
        intro h0; subst h0; simp [maxBy] at hk
      obtain ⟨m, hm, hmem, hdom⟩ := C18.maxBy_spec (fun k => ⟨score (fileAtoms name f) k, Kind.rank k⟩) opts hne
      rw [hm] at hk
      simp only [] at hk
      split at hk
      · rename_i hpos
        cases hk
        refine ⟨hmem, hpos, ?_⟩
        intro j hj
        have := hdom j hj
        simp only [Key.le, Bool.or_eq_true, Bool.and_eq_true, decide_eq_true_eq] at this
        omega
      · cases hk

/-- the hypotheses are satisfiable and the loads compute: an empty file is refused by every class with MutagenError
(the two bare tag classes load it without tags; `File` returns None for it) -/
example : Detect.concreteKinds.all (fun k => loadKind k [] == .error .mutagen) = true ∧
    loadKind .APEv2File [] = .ok () ∧ loadKind .ID3FileType [] = .ok () ∧
    fileLoad "" Generated.options [] = .ok none := by
  decide +kernel

end Mutagen.C04
