/-
Props/C16_File.lean — C16, "a file object proxies the same behaviour to its tags": `FileType`
(model: Model/DictFile.lean) over ANY tag store that refines a dictionary refines the same
dictionary, `tags is None` being the empty dictionary — provided the store's invalid keys are
`KeyError`s, because a tag-less file answers `KeyError` to every lookup whatever the key
(documented: "If the file has no tags at all, a KeyError is raised").  Instances: APEv2 files,
EasyMP4 files.  Where invalid keys raise something else (Vorbis comments: `ValueError`) the
tag-less file deviates from its own tags: `file_vc_invalid_key_witness`.
The real objects are checked by harness/props/c16.py (kinds FLAC-proxy, MP3-proxy, with and
without tags) and tied to `fileImpl` / `fileStep` by harness/dict_tie_x.py (driver kinds `filevc`,
`fileid3`, `fileape` of the command `dictx`; the initial tags travel in the request).
-/
import MutagenModel.Proofs.DictFile
import MutagenModel.Proofs.DictEasyMp4
import MutagenModel.Props.C16_K
set_option linter.unusedVariables false
namespace Mutagen.C16
open Mutagen Mutagen.Dict

/-- `FileType` over a refining store: if `add_tags()` makes tags `s0` that satisfy the invariant
and are empty, and every invalid key of the store's policy is a `KeyError`, the file object
refines the same policy; invariant: that of the tags (nothing for `None`); abstraction: that of
the tags, `[]` for `None`.  So `kdictmixin_refines` / `ktrace_equiv` apply to the file object:
every `DictMixin` operation on the file behaves as on a dictionary. -/
theorem file_refines {S K V : Type} [DecidableEq K] {m : MapImpl S K V} {P : KPolicy K V} {inv : S → Prop}
    {abs : S → RefDict K V} (h : KRefines m P inv abs) (s0 : S) (hs0 : inv s0) (ha0 : abs s0 = [])
    (hnorm : ∀ k e, P.norm k = .error e → e = .key) :
    KRefines (fileImpl m (.ok s0)) P (fileInv inv) (fileAbs abs) :=
  file_refines_aux h s0 hs0 ha0 hnorm

/-- a file without tags, any sequence of mapping operations: accepted by the reference started
from the empty dictionary -/
theorem file_trace_equiv {S K V : Type} [DecidableEq K] {m : MapImpl S K V} {P : KPolicy K V} {inv : S → Prop}
    {abs : S → RefDict K V} (h : KRefines m P inv abs) (s0 : S) (hs0 : inv s0) (ha0 : abs s0 = [])
    (hnorm : ∀ k e, P.norm k = .error e → e = .key) (ops : List (Op K V)) :
    KAccepts P [] ops ((fileImpl m (.ok s0)).run ops none) :=
  ktrace_sim (file_refines_aux h s0 hs0 ha0 hnorm) ops none [] trivial (fun _ => rfl) List.nodup_nil

/-- `tags is None` and freshly added empty tags answer get / set / del / keys alike — so the
empty tags a raising `file[k] = v` leaves behind (`fileSetResidue`) cannot be told from `None`
through the mapping interface -/
theorem file_none_like_fresh {S K V : Type} [DecidableEq K] {m : MapImpl S K V} {P : KPolicy K V} {inv : S → Prop}
    {abs : S → RefDict K V} (h : KRefines m P inv abs) (s0 : S) (hs0 : inv s0) (ha0 : abs s0 = [])
    (hnorm : ∀ k e, P.norm k = .error e → e = .key) (k : K) (v : V) :
    (fileImpl m (.ok s0)).getitem none k = (fileImpl m (.ok s0)).getitem (some s0) k ∧
    (fileImpl m (.ok s0)).setitem none k v = (fileImpl m (.ok s0)).setitem (some s0) k v ∧
    (fileImpl m (.ok s0)).delitem none k = (fileImpl m (.ok s0)).delitem (some s0) k ∧
    (fileImpl m (.ok s0)).keys none = (fileImpl m (.ok s0)).keys (some s0) :=
  file_none_like_fresh_aux h s0 hs0 ha0 hnorm k v

/-- a plain (key-independent) refinement feeds the theorems above -/
theorem refines_toK {S K V : Type} [DecidableEq K] {m : MapImpl S K V} {P : Policy K V} {inv : S → Prop}
    {abs : S → RefDict K V} (h : Refines m P inv abs) : KRefines m P.toK inv abs :=
  h.toK

/-- instance: an APEv2-tagged file (`APEv2File`, `MonkeysAudio`, `Musepack`, `WavPack`, …) -/
theorem ape_file_refines :
    KRefines (fileImpl apeImpl (.ok CI.empty)) apePolicy.toK (fileInv CIInv) (fileAbs (fun s => s.dict)) :=
  file_refines_aux ape_refines_aux.toK CI.empty ciInv_empty rfl (fun k e h => by
    simp only [Policy.toK, apePolicy] at h
    split at h <;> simp at h
    exact h.symm)

/-- instance: `EasyMP4` (a file whose tags are `EasyMP4Tags`) -/
theorem easymp4_file_refines :
    KRefines (fileImpl easyMp4Impl (.ok [])) easyMp4Policy (fileInv EasyMp4Inv) (fileAbs easyMp4Abs) :=
  file_refines_aux easymp4_refines_aux [] easyMp4Inv_nil (by decide +kernel) (fun k e h => by
    simp only [easyMp4Policy] at h
    split at h <;> simp at h
    exact h.symm)

/-- the deviation the hypothesis excludes: a FLAC / Ogg file WITHOUT tags answers `KeyError` to
the invalid key `"="`, its (empty) Vorbis comment answers `ValueError` -/
theorem file_vc_invalid_key_witness :
    (fileImpl vcImpl (.ok [])).getitem none [61] = .error .key ∧ vcImpl.getitem [] [61] = .error .value ∧
      (fileImpl vcImpl (.ok [])).getitem (some []) [61] = .error .value := by
  decide

/-! ### non-vacuity -/

/-- no tags: get / del / `in`; a rejected set; the first accepted set creates the tags -/
example : (fileImpl apeImpl (.ok CI.empty)).run
    [.get [65, 98], .del [65, 98], .contains [65], .keys, .set [65] (.atom (.str "x")),
     .set [65, 98] (.atom (.str "x")), .get [97, 66], .len, .popitem, .len] none =
    [.err .key, .err .key, .bool false, .keys [], .err .key, .unit, .val (.atom (.str "x")), .nat 1,
     .item [65, 98] (.atom (.str "x")), .nat 0] := by decide +kernel

end Mutagen.C16
