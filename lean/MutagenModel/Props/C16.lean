/-
Props/C16.lean — C16 "Tag objects behave as dictionaries with documented key rules".
Property theorems only; definitions in Model/Dict.lean, lemmas in Proofs/Dict.lean.

What is proved here, and about what.

* The objects of the theorems are the Lean models of `mutagen/_util.py: DictMixin` (every
  derived method, written once over the four primitives), `DictProxy`, `_CIDictProxy` +
  `APEv2` (key rule, value guessing) and `VCommentDict`.  They are tied to the Python code by
  the differential run of harness/props/c16.py (same random operation sequences on the real
  objects and on these models), not by proof.
* `ID3Tags` (HashKey, add/getall/setall/delall), `MP4Tags`, `ASFTags`, `EasyID3`,
  `EasyMP4Tags` and the `FileType` proxy have NO Lean model in this round: for them the
  property is searched on the real objects against a reference dictionary written in the
  harness, nothing is proved.  (EasyID3's replay-gain gain/peak coupling violates the
  mapping law on the real code; the harness reports it.)
* The reference (`Ref.*`) is an association list with unique normalised keys plus a
  `Policy`: `norm` (key → normal form or the documented error) and `coerce` (value → stored
  value, "remove" for `VCommentDict`'s empty list, or the documented error).
* Order: `keys()/values()/items()` of the store are compared with the reference's *exactly*
  when the reference runs on `abs s` (`dictmixin_refines`), and *up to a permutation* along
  traces (`trace_equiv*`), because a store need not keep a replaced key in place
  (`VCommentDict` re-appends; its real `keys()` comes out of a hash set).  Keys returned by
  a store are compared after normalisation (`APEv2` returns the spelling last used).
* `popitem` is angelic at trace level (`RefStep`): the reference accepts any present key
  with its value, and `KeyError` exactly on the empty dictionary.
* A primitive that raises is modelled as leaving the state unchanged (the harness checks
  this on the real objects after every raising step); `update`/`clear` keep the effects of
  the steps before the raising one, as the Python loops do.
-/
import MutagenModel.Proofs.Dict
set_option linter.unusedVariables false
namespace Mutagen.C16
open Mutagen Mutagen.Dict

/-! ### (i) DictMixin, once and for all -/

/-- If the four primitives of a store refine the reference dictionary under `abs` (same
results including the exception class; `abs` commutes up to "same dictionary"), then EVERY
`DictMixin` operation — get, set, del, `in`, keys, values, items, len, clear, pop with and
without default, popitem, update, setdefault, get with default — returns what the
reference operation returns on `abs s` (keys compared after normalisation, lists in the
same order, `popitem` = the reference's first entry), re-establishes the invariant, and
leaves a state that abstracts to the same dictionary as the reference's new state. -/
theorem dictmixin_refines {S K V : Type} [DecidableEq K] {m : MapImpl S K V} {P : Policy K V}
    {inv : S → Prop} {abs : S → RefDict K V} (h : Refines m P inv abs) (s : S) (hs : inv s)
    (op : Op K V) :
    OutMatch P (m.step s op).1 (Ref.step P (abs s) op).1 ∧ inv (m.step s op).2 ∧
      SameMap (abs (m.step s op).2) (Ref.step P (abs s) op).2 :=
  step_exact h s hs op

/-- `__eq__` (`dict(self.items()) == other`) agrees with comparing the reference dictionary,
for stores whose `keys()` are already normal forms (`DictProxy`, `VCommentDict`; NOT `APEv2`,
whose `==` compares the remembered spellings case-sensitively). -/
theorem dictmixin_eq_refines {S K V : Type} [DecidableEq K] [DecidableEq V] {m : MapImpl S K V}
    {P : Policy K V} {inv : S → Prop} {abs : S → RefDict K V} (h : Refines m P inv abs) (s : S)
    (hs : inv s) (hid : ∀ k ∈ m.keys s, P.norm k = .ok k) (o : RefDict K V) :
    m.eq s o = .ok (Ref.eq (abs s) o) :=
  eq_exact h s hs hid o

/-! ### (ii) the three stores -/

/-- `DictProxy` (a wrapped builtin dict) refines the reference with the identity policy;
invariant: unique keys; abstraction: the wrapped dict itself. -/
theorem proxy_refines (K V : Type) [DecidableEq K] :
    Refines (proxyImpl K V) (proxyPolicy K V) NodupKeys (fun s => s) :=
  proxy_refines_aux

/-- `APEv2` over `_CIDictProxy` refines the reference whose policy files a valid key under
its lower-cased form, rejects an invalid key with `KeyError` and a value that is neither
`str`, list of `str` nor `bytes` with `TypeError` (key checked first).  Invariant `CIInv`:
the two private dicts have the same keys and every remembered spelling is a valid key that
lower-cases to its entry.  Abstraction: the lower-case keyed value dict. -/
theorem ape_refines : Refines apeImpl apePolicy CIInv (fun s => s.dict) :=
  ape_refines_aux

/-- `VCommentDict` refines the reference whose policy files a valid key under its lower-cased
form, rejects an invalid key with `ValueError`, turns a single value into a one-element
list and treats the empty list as "remove the key".  Invariant `VCInv`: every stored key is
valid.  Abstraction `vcAbs`: pairs grouped by lower-cased key, values in list order.  This
covers the four primitives `__getitem__`, `__setitem__`, `__delitem__`, `keys` exactly as
`_vorbis.py` writes them; the methods the class does not take from `DictMixin` are the
next three theorems. -/
theorem vc_refines : Refines vcImpl vcPolicy VCInv vcAbs :=
  vc_refines_aux

/-- `VCommentDict.__contains__` (own method) is what `DictMixin.__contains__` would compute -/
theorem vc_contains_eq (s : VC) (k : Text) : vcContains s k = vcImpl.contains s k :=
  vc_contains_eq_aux s k

/-- `VCommentDict.clear` (`VComment.clear`) is what `DictMixin.clear` would compute -/
theorem vc_clear_eq (s : VC) (hs : VCInv s) : vcImpl.clear s = (.ok (), vcClear s) :=
  vc_clear_eq_aux s hs

/-- `len(VCommentDict)` is the number of values: the sum over the reference's keys of the
lengths of their value lists (documented deviation from `dict`) -/
theorem vc_len (s : VC) : vcLen s = ((vcAbs s).map (fun p => (vcAsList p.2).length)).sum :=
  vc_len_aux s

/-- invalid `APEv2` key: `KeyError` from get / set / del whatever the state and the value;
hence `in` is `False` and `get(key, d)` is `d` -/
theorem ape_invalid_key (s : CI) (k : Text) (v d : Val) (h : apeValid k = false) :
    apeImpl.getitem s k = .error .key ∧ apeImpl.setitem s k v = .error .key ∧
      apeImpl.delitem s k = .error .key ∧ apeImpl.contains s k = .ok false ∧
      apeImpl.getD s k d = .ok d := by
  simp [apeImpl, apeGet, apeSet, apeDel, MapImpl.contains, MapImpl.getD, h]

/-- invalid Vorbis comment key: `ValueError` from get / set / del / `in` / `get(key, d)` -/
theorem vc_invalid_key (s : VC) (k : Text) (v d : Val) (h : vcValid k = false) :
    vcImpl.getitem s k = .error .value ∧ vcImpl.setitem s k v = .error .value ∧
      vcImpl.delitem s k = .error .value ∧ vcContains s k = .error .value ∧
      vcImpl.getD s k d = .error .value := by
  simp [vcImpl, vcGet, vcSet, vcDel, vcContains, MapImpl.getD, h]

/-- `APEv2` keeps the spelling: after `tag[k] = v` succeeds, `k` itself is among `keys()` -/
theorem ape_keeps_spelling (s s' : CI) (k : Text) (v : Val) (hs : CIInv s)
    (h : apeImpl.setitem s k v = .ok s') : k ∈ apeImpl.keys s' :=
  ape_keeps_spelling_aux s s' k v hs h

/-! ### (iii) whole operation sequences -/

/-- For every finite operation sequence, the reference dictionary — started from any
association list `r` that is the same dictionary as `abs s` — accepts the store's list of
outputs, operation by operation: equal values, booleans, lengths and exception classes;
key / value / item lists equal up to order with keys normalised; `popitem` angelic. -/
theorem trace_equiv {S K V : Type} [DecidableEq K] {m : MapImpl S K V} {P : Policy K V}
    {inv : S → Prop} {abs : S → RefDict K V} (h : Refines m P inv abs) (ops : List (Op K V)) (s : S)
    (r : RefDict K V) (hs : inv s) (hr : SameMap (abs s) r) (nr : NodupKeys r) :
    Accepts P r ops (m.run ops s) :=
  trace_sim h ops s r hs hr nr

/-- Without `popitem` in the sequence: the store's outputs and the outputs of the
(deterministic) reference run correspond position by position (`OutsEquiv`: same length;
`OutEquiv` at every position). -/
theorem trace_equiv_det {S K V : Type} [DecidableEq K] {m : MapImpl S K V} {P : Policy K V}
    {inv : S → Prop} {abs : S → RefDict K V} (h : Refines m P inv abs) (ops : List (Op K V)) (s : S)
    (hs : inv s) (hp : ∀ op ∈ ops, Op.isPopitem op = false) :
    OutsEquiv P (m.run ops s) (Ref.run P ops (abs s)) :=
  trace_det h ops s (abs s) hs (SameMap.refl _) (h.nodup s hs) hp

/-- the invariant holds along every run (so the theorems apply to every reachable state) -/
theorem invariant_along_run {S K V : Type} [DecidableEq K] {m : MapImpl S K V} {P : Policy K V}
    {inv : S → Prop} {abs : S → RefDict K V} (h : Refines m P inv abs) (ops : List (Op K V)) (s : S)
    (hs : inv s) : inv (m.exec ops s) :=
  exec_inv h ops s hs

/-- a fresh `DictProxy()`: every operation sequence is accepted by the plain reference dict -/
theorem proxy_trace_equiv (K V : Type) [DecidableEq K] (ops : List (Op K V)) :
    Accepts (proxyPolicy K V) [] ops ((proxyImpl K V).run ops []) :=
  trace_sim proxy_refines_aux ops [] [] List.nodup_nil (SameMap.refl _) List.nodup_nil

/-- a fresh `APEv2()` -/
theorem ape_trace_equiv (ops : List (Op Text Val)) :
    Accepts apePolicy [] ops (apeImpl.run ops CI.empty) :=
  trace_sim ape_refines_aux ops CI.empty [] ciInv_empty (SameMap.refl _) List.nodup_nil

/-- a fresh `VCommentDict()`, with the class's own `__contains__` and `clear` (`vcRun`), over
the operations it offers as a dictionary (`Op.isVcDict`: everything but pop / popitem, which
are `list.pop` on this class, and `len`, which counts values — `vc_len`) -/
theorem vc_trace_equiv (ops : List (Op Text Val)) (hops : ∀ op ∈ ops, Op.isVcDict op = true) :
    OutsEquiv vcPolicy (vcRun ops []) (Ref.run vcPolicy ops []) := by
  have hinv : VCInv [] := fun p hp => by simp at hp
  rw [vcRun_eq ops [] hinv hops]
  exact trace_det vc_refines_aux ops [] [] hinv (SameMap.refl _) List.nodup_nil
    (fun op hop => isVcDict_not_popitem op (hops op hop))

/-! ### non-vacuity: the hypotheses are satisfiable, the models compute -/

example : CIInv CI.empty := ciInv_empty
example : VCInv [] := fun p hp => by simp at hp
example : NodupKeys ([] : RefDict Text Val) := List.nodup_nil
example : ∃ s, CIInv s ∧ s.dict ≠ [] :=
  ⟨(apeImpl.exec [.set [65, 98] (.atom (.int 0)), .set [97, 66] (.atom (.bytes ""))] CI.empty),
   invariant_along_run ape_refines _ _ ciInv_empty, by decide⟩

/-- "Ab" then "AB": one entry, last spelling; `get("ab")`; invalid "A"; `del "aB"`; pop default -/
example : apeImpl.run
    [.set [65, 98] (.list []), .set [65, 66] (.atom (.bytes "")), .keys, .get [97, 98], .get [65],
     .set [65, 66] (.atom (.int 1)), .del [97, 66], .len, .popD [65, 98] (.atom .none), .popitem]
    CI.empty =
    [.unit, .unit, .keys [[65, 66]], .val (.atom (.bytes "")), .err .key, .err .type_, .unit, .nat 0,
     .val (.atom .none), .err .key] := by decide +kernel

/-- "Ab"=1, "aB"=[2,3] replaces, `x`=[] removes nothing, "a=" invalid, len counts values -/
example : vcRun
    [.set [65, 98] (.atom (.int 1)), .set [97, 66] (.list [.int 2, .int 3]), .get [65, 66], .keys,
     .set [120] (.list []), .contains [120], .get [97, 61], .len, .pop [65, 98], .clear, .items]
    [] =
    [.unit, .unit, .val (.list [.int 2, .int 3]), .keys [[97, 98]], .unit, .bool false, .err .value,
     .nat 2, .err .type_, .unit, .items []] := by decide +kernel

example : (proxyImpl Text Val).run
    [.setdefault [97] (.atom (.int 1)), .setdefault [97] (.atom (.int 2)), .update [([98], .atom .none)],
     .popitem, .keys, .pop [99]] [] =
    [.val (.atom (.int 1)), .val (.atom (.int 1)), .unit, .item [97] (.atom (.int 1)), .keys [[98]],
     .err .key] := by decide +kernel

end Mutagen.C16
