/-
Props/C06_AsfLoad.lean — C06 for the LOAD of an ASF file: `ASF(fileobj)` as a program over the file object
(`loadM` in Model/Container/AsfM.lean: verify_fileobj's `read(0)`, parse_size's `read(30)`, and for every
object `read(24)` + `read(size - 24)`, in that order, inside `convert_error(IOError, error)`; no seek,
tell or write; the tags and the stream info are computed from what was read).  Lemmas:
Proofs/Container/AsfLoad.lean.  ARBITRARY fault environments: any exception at any call, short reads.

Short reads: every read of the load is followed by a length check (`len(data) != n`), so a read that
returns fewer bytes than asked is an ASFHeaderError — never EOFError / struct.error, and never taken
for "end of file, no more objects / no tags".  (An object size below 24 makes the code call `read` with
a negative size; that call is in the program, logged as `read 0`.)
-/
import MutagenModel.Proofs.Container.AsfLoad
set_option linter.unusedVariables false
namespace Mutagen.C06
open Mutagen

/-! ## ASF: load -/

/-- refinement: without injected exceptions and short reads, `ASF(fileobj)` on a file object at position 0
returns exactly what the pure load `parseFull` returns on the bytes — the object tree or the MutagenError
— for EVERY byte string, and the file is untouched -/
theorem asf_loadM_refines {e : Env} (hq : Quiet e) (s : FS) (hp : s.pos = 0) :
    ∃ s', Asf.loadM e s = (Asf.parseFull s.data, s') ∧ s'.data = s.data :=
  Asf.loadM_q hq s hp

/-- under ANY fault environment: `error` (a MutagenError), ValueError (verify_fileobj turns every failure
of its `read(0)` into one), or an exception the environment injected that is not an IOError -/
theorem asf_load_raises_only :
    Raises (fun e x => x = .mutagen ∨ ((x = .value ∨ Asf.LoadErr e x) ∧ x.isIO = false)) Asf.loadM :=
  Asf.raises_loadM

/-- with I/O faults only (every injected exception is an IOError) and arbitrary short reads: MutagenError or ValueError -/
theorem asf_load_io_faults (e : Env) (hio : ∀ i x, e.failAt i = some x → x.isIO = true) (s s' : FS) (x : PyErr)
    (h : Asf.loadM e s = (.error x, s')) : x = .mutagen ∨ x = .value := by
  rcases asf_load_raises_only e s x s' h with h1 | ⟨h2, hn⟩
  · exact Or.inl h1
  · rcases h2 with h2 | h2 | ⟨i, hi⟩
    · exact Or.inr h2
    · exact Or.inl h2
    · have := hio i x hi; rw [this] at hn; cases hn

/-- short reads alone — at any read, to any length — never surface as anything but `error` -/
theorem asf_load_short_reads (e : Env) (hnf : ∀ i, e.failAt i = none) (s s' : FS) (x : PyErr)
    (h : Asf.loadM e s = (.error x, s')) : x = .mutagen :=
  Asf.loadM_short_only e hnf s s' x h

/-- the load never writes: in EVERY environment, whatever the outcome, the file holds the bytes it held -/
theorem asf_load_leaves_file_untouched (e : Env) (s s' : FS) (r : Except PyErr (List Asf.Obj)) (h : Asf.loadM e s = (r, s')) :
    s'.data = s.data :=
  Asf.NoWrite.loadM e s r s' h

/-- a short read is never taken for the end of the file, and no fault is swallowed: a normal return of
`ASF(fileobj)` — whatever exceptions and short reads the environment had in store — is the pure load of
the complete bytes -/
theorem asf_load_ok_means_loaded (e : Env) (s s' : FS) (hp : s.pos = 0) (objs : List Asf.Obj)
    (h : Asf.loadM e s = (.ok objs, s')) : Asf.parseFull s.data = .ok objs ∧ s'.data = s.data :=
  Asf.loadM_ok_means_loaded e s s' hp objs h

/-- … in the form "same run without the faults / without the short reads" -/
theorem asf_load_ok_means_no_fault : OkAgree Asf.loadM ∧ Asf.ShortAgree Asf.loadM :=
  ⟨Asf.okAgree_loadM, Asf.shortAgree_loadM⟩

/-- load, rewind, save on ONE file object with nothing summarised (`a = ASF(f); f.seek(0); a.save(f)`), every
capacity: what the pure `save` computes for the bytes — its exception with the file untouched, or the new
bytes — or `error` (ENOSPC) with the file byte-identical -/
theorem asf_load_then_save {e : Env} (hq : Quiet e) (B : Nat) (hB : 0 < B) (tags : List Asf.Tag) (pad : PadChoice) (s : FS)
    (hp : s.pos = 0) :
    match Asf.save s.data tags pad with
    | .error x => ∃ s', Asf.loadSaveM B tags pad e s = (.error x, s') ∧ s'.data = s.data
    | .ok out =>
      (∃ s', Asf.loadSaveM B tags pad e s = (.ok (), s') ∧ s'.data = out) ∨
      (∃ s', Asf.loadSaveM B tags pad e s = (.error .mutagen, s') ∧ s'.data = s.data) :=
  Asf.loadSaveM_q hq B hB tags pad s hp

/-- the same for delete -/
theorem asf_load_then_delete {e : Env} (hq : Quiet e) (B : Nat) (hB : 0 < B) (s : FS) (hp : s.pos = 0) :
    match Asf.delete s.data with
    | .error x => ∃ s', Asf.loadDeleteM B e s = (.error x, s') ∧ s'.data = s.data
    | .ok out =>
      (∃ s', Asf.loadDeleteM B e s = (.ok (), s') ∧ s'.data = out) ∨
      (∃ s', Asf.loadDeleteM B e s = (.error .mutagen, s') ∧ s'.data = s.data) :=
  Asf.loadDeleteM_q hq B hB s hp

/-! non-vacuity on the small layout of the other property files: an IOError at the fifth call (a `read(24)`)
surfaces as `error`; one in verify_fileobj's `read(0)` as ValueError; the 30 header bytes read short, an
object header read short, a payload read short by one byte: `error`; and the file is as it was -/
example : (Asf.loadM { failAt := fun i => if i = 4 then some .io else none } { data := Asf.exLayout.render }).1 = .error .mutagen := by
  decide +kernel
example : (Asf.loadM { failAt := fun i => if i = 0 then some .io else none } { data := Asf.exLayout.render }).1 = .error .value := by
  decide +kernel
example : (Asf.loadM { shortAt := fun i => if i = 1 then some 29 else none } { data := Asf.exLayout.render }).1 = .error .mutagen := by
  decide +kernel
example : (Asf.loadM { shortAt := fun i => if i = 2 then some 0 else none } { data := Asf.exLayout.render }).1 = .error .mutagen := by
  decide +kernel
example : (Asf.loadM { shortAt := fun i => if i = 3 then some 79 else none } { data := Asf.exLayout.render }).1 = .error .mutagen ∧
    (Asf.loadM { shortAt := fun i => if i = 3 then some 79 else none } { data := Asf.exLayout.render }).2.data = Asf.exLayout.render := by
  decide +kernel
example : (Asf.loadM Env.clean { data := Asf.exLayout.render }).1 = .ok (Asf.exLayout.top.map Asf.Item.toObj) := by decide +kernel

end Mutagen.C06
