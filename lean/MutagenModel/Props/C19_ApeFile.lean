/-
Props/C19_ApeFile.lean — C19 ("running out of space …: for tags appended at the end of the file the audio
payload is intact") for APEv2-tagged files (WavPack, Musepack, Monkey's Audio, OptimFROG, TAK, bare APEv2):
`APEv2.save` / `APEv2.delete` of mutagen/apev2.py as programs over the file object
(Model/Container/ApeFileM.lean).

`saveSumM` / `deleteSumM` are the entry points (`@convert_error(IOError, error)`, `loadfile`'s
`verify_fileobj`) with every WRITE / RESIZE / TRUNCATE of the real code in its order and the reads of
`_APEv2Data(fileobj)` summarised by their result `locate` on the bytes (as FLAC's `saveM` does); `saveM` /
`deleteM` are the same programs with all those reads spelled out (35 calls at most) — the driver runs them and
the tie compares them with the real code call by call; that `locateM` returns `locate` of the bytes when no
call fails is checked by that tie on every generated file, not proved.

Environments: `Quiet e` = no injected fault, no short read; capacity `e.cap` and `e.leak` ARBITRARY.

The order of operations: the OLD tag is removed first (`seek(start); truncate()`, which also drops a
Lyrics3v2 / ID3v1 block behind it; `delete_bytes` for a tag at the start), then `seek(0, 2)` and three
appends: header (32 bytes), items, footer (32 bytes).  So when the device is full during one of the appends
the file is NOT what it was: the old tag (and what stood behind it) is gone; what holds is that the payload
— everything before the old tag — is intact, and that behind it stands a proper prefix of the new tag.
-/
import MutagenModel.Proofs.Container.ApeFileCap
set_option linter.unusedVariables false
namespace Mutagen.C19
open Mutagen Mutagen.ApeF

/-- REFINEMENT: in a quiet environment without capacity limit the program leaves exactly the bytes the pure
model `ApeF.save` returns, for EVERY file on which it succeeds (`tag3` = the three byte strings written:
header, items, footer; `none` = a tag without items, nothing is written) -/
theorem ape_saveM_refines {e : Env} (hq : Quiet e) (hcap : e.cap = none) (B : Nat) (hB : 0 < B) (f : Bytes)
    (tag3 : Option (Bytes × Bytes × Bytes)) (out : Bytes) (h : save f (tagBytes tag3) = .ok out)
    (s : FS) (hs : s.data = f) (hpos : s.pos ≤ s.data.length) :
    ∃ s', saveSumM B tag3 e s = (.ok (), s') ∧ s'.data = out :=
  saveSumM_refines hq hcap B hB f tag3 out h s hs hpos

/-- C19 for `APEv2.save` on ANY file in which `_APEv2Data` finds `loc` (a tag at the end, a tag at the start,
or none), for EVERY capacity and leak: either the save completes with the pure result `payload ++ new tag`,
or it raises MutagenError and the file is `payload ++ (first k bytes of the new tag)` with `k` less than the
length of the new tag — where `payload = baseOf f loc` is the file without the old tag region: for a tag at
the end everything before the tag start, for an untagged file the whole file.  (The failure can only occur on
a device that has a capacity.) -/
theorem ape_save_payload_intact {e : Env} (hq : Quiet e) (B : Nat) (hB : 0 < B) (f : Bytes) (loc : Option Loc)
    (h : locate f = .ok loc) (tag3 : Option (Bytes × Bytes × Bytes)) (s : FS) (hs : s.data = f) (hpos : s.pos ≤ s.data.length) :
    save f (tagBytes tag3) = .ok (baseOf f loc ++ tagBytes tag3) ∧
    ((∃ s', saveSumM B tag3 e s = (.ok (), s') ∧ s'.data = baseOf f loc ++ tagBytes tag3) ∨
     (∃ s' k, saveSumM B tag3 e s = (.error .mutagen, s') ∧
        s'.data = baseOf f loc ++ (tagBytes tag3).take k ∧ k < (tagBytes tag3).length ∧ e.cap ≠ none)) :=
  ⟨save_eq_base f _ loc h, saveSumM_q hq B hB f loc h tag3 s hs hpos⟩

/-- … on a well-formed layout `audio ++ tag` (the tag as `APEv2.save` writes it): the audio is intact in both
outcomes, the old tag is gone in both -/
theorem ape_save_payload_intact_layout {e : Env} (hq : Quiet e) (B : Nat) (hB : 0 < B) (audio : Bytes) (items : List Ape.Item)
    (hsz : ((items.map Ape.encodeItem).flatten).length + 32 < 256 ^ 4) (ha : AudioOK audio (Ape.encodeTag items))
    (tag3 : Option (Bytes × Bytes × Bytes)) (s : FS) (hs : s.data = audio ++ Ape.encodeTag items) (hpos : s.pos ≤ s.data.length) :
    (∃ s', saveSumM B tag3 e s = (.ok (), s') ∧ s'.data = audio ++ tagBytes tag3) ∨
    (∃ s' k, saveSumM B tag3 e s = (.error .mutagen, s') ∧
        s'.data = audio ++ (tagBytes tag3).take k ∧ k < (tagBytes tag3).length) := by
  have hl := locate_tag audio items hsz ha
  have hb : baseOf (audio ++ Ape.encodeTag items)
      (some { start := audio.length, endd := (audio ++ Ape.encodeTag items).length, isAtStart := false }) = audio := by
    simp [baseOf]
  rcases saveSumM_q hq B hB _ _ hl tag3 s hs hpos with ⟨s', hr, hd⟩ | ⟨s', k, hr, hd, hk, _⟩
  · left; exact ⟨s', hr, by rw [hd, hb]⟩
  · right; exact ⟨s', k, hr, by rw [hd, hb], hk⟩

/-- … and with an ID3v1 block behind the tag: the block goes with the old tag (the code's
"Delete an ID3v1 tag if present, too"), also when the save then fails -/
theorem ape_save_payload_intact_layout_v1 {e : Env} (hq : Quiet e) (B : Nat) (hB : 0 < B) (audio v1 : Bytes) (items : List Ape.Item)
    (hsz : ((items.map Ape.encodeItem).flatten).length + 32 < 256 ^ 4)
    (ha : audio = [] ∨ isApeAt (audio ++ Ape.encodeTag items ++ v1) (audio.length - 24) = false) (hv : V1OK v1)
    (tag3 : Option (Bytes × Bytes × Bytes)) (s : FS) (hs : s.data = audio ++ Ape.encodeTag items ++ v1) (hpos : s.pos ≤ s.data.length) :
    (∃ s', saveSumM B tag3 e s = (.ok (), s') ∧ s'.data = audio ++ tagBytes tag3) ∨
    (∃ s' k, saveSumM B tag3 e s = (.error .mutagen, s') ∧
        s'.data = audio ++ (tagBytes tag3).take k ∧ k < (tagBytes tag3).length) := by
  have hl := locate_tag_v1 audio v1 items hsz ha hv
  have hb : baseOf (audio ++ Ape.encodeTag items ++ v1)
      (some { start := audio.length, endd := (audio ++ Ape.encodeTag items).length, isAtStart := false }) = audio := by
    simp [baseOf, List.append_assoc]
  rcases saveSumM_q hq B hB _ _ hl tag3 s hs hpos with ⟨s', hr, hd⟩ | ⟨s', k, hr, hd, hk, _⟩
  · left; exact ⟨s', hr, by rw [hd, hb]⟩
  · right; exact ⟨s', k, hr, by rw [hd, hb], hk⟩

/-- `APEv2.delete` never needs space: whenever the pure `delete` succeeds on the bytes, the program completes
on a device of ANY capacity with its result -/
theorem ape_delete_never_enospc {e : Env} (hq : Quiet e) (B : Nat) (hB : 0 < B) (f out : Bytes) (h : delete f = .ok out)
    (s : FS) (hs : s.data = f) (hpos : s.pos ≤ s.data.length) :
    ∃ s', deleteSumM B e s = (.ok (), s') ∧ s'.data = out :=
  deleteSumM_q hq B hB f out h s hs hpos

/-- … in particular on `audio ++ tag` it leaves exactly the audio -/
theorem ape_delete_never_enospc_layout {e : Env} (hq : Quiet e) (B : Nat) (hB : 0 < B) (audio : Bytes) (items : List Ape.Item)
    (hsz : ((items.map Ape.encodeItem).flatten).length + 32 < 256 ^ 4) (ha : AudioOK audio (Ape.encodeTag items))
    (s : FS) (hs : s.data = audio ++ Ape.encodeTag items) (hpos : s.pos ≤ s.data.length) :
    ∃ s', deleteSumM B e s = (.ok (), s') ∧ s'.data = audio :=
  deleteSumM_q hq B hB _ audio (delete_tag audio items hsz ha) s hs hpos

/-! ### non-vacuity, on a concrete file: 40 bytes of audio and a 73-byte APEv2 tag (9 bytes of items);
the new tag: header and footer of 32 bytes, 5 bytes of items -/

def apeAudio : Bytes := List.replicate 40 0x55
def apeOldTag : Bytes :=
  Ape.headerOrFooter 41 1 (Ape.hasHeader + Ape.isHeader) ++ [1, 0, 0, 0, 0, 0, 0, 0, 0x41, 0x42, 0, 0x78, 0x79].take 9 ++
    Ape.headerOrFooter 41 1 Ape.hasHeader
def apeNew : Option (Bytes × Bytes × Bytes) :=
  some (Ape.headerOrFooter 37 1 (Ape.hasHeader + Ape.isHeader), [0, 0, 0, 0, 0], Ape.headerOrFooter 37 1 Ape.hasHeader)
/-- room for 50 bytes behind the audio; 3 bytes of a failing write leak -/
def apeEnvFull : Env := { cap := some 90, leak := fun _ => 3 }

example : Quiet apeEnvFull := ⟨fun _ => rfl, fun _ => rfl⟩
example : apeOldTag.length = 73 ∧ (tagBytes apeNew).length = 69 := by decide +kernel

/-- `_APEv2Data` finds the old tag: the hypothesis of `ape_save_payload_intact` is satisfiable -/
example : locate (apeAudio ++ apeOldTag) = .ok (some { start := 40, endd := 113, isAtStart := false }) := by
  decide +kernel

/-- the ENOSPC branch really occurs, with the reads spelled out (`saveM`) and summarised (`saveSumM`) alike:
header and items fit, the footer does not — MutagenError, the old tag is gone, the audio is intact and behind it
stand header, items and the 3 leaked bytes of the footer -/
example :
    (saveM 4 apeNew apeEnvFull { data := apeAudio ++ apeOldTag }).1 = .error .mutagen ∧
    (saveM 4 apeNew apeEnvFull { data := apeAudio ++ apeOldTag }).2.data = apeAudio ++ (tagBytes apeNew).take 40 ∧
    (saveSumM 4 apeNew apeEnvFull { data := apeAudio ++ apeOldTag }).1 = .error .mutagen ∧
    (saveSumM 4 apeNew apeEnvFull { data := apeAudio ++ apeOldTag }).2.data = apeAudio ++ (tagBytes apeNew).take 40 := by
  decide +kernel

/-- with room the same call completes -/
example : (saveM 4 apeNew {} { data := apeAudio ++ apeOldTag }).1 = .ok () ∧
    (saveM 4 apeNew {} { data := apeAudio ++ apeOldTag }).2.data = apeAudio ++ tagBytes apeNew := by
  decide +kernel

/-- delete on a device without any room -/
example : (deleteM 4 { cap := some 0 } { data := apeAudio ++ apeOldTag }).1 = .ok () ∧
    (deleteM 4 { cap := some 0 } { data := apeAudio ++ apeOldTag }).2.data = apeAudio := by
  decide +kernel
end Mutagen.C19
