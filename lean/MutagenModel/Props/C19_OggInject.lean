/-
Props/C19_OggInject.lean — C19 "Running out of space while growing leaves the file as it was" for the
Ogg formats.  `OggPage.replace` works slot by slot — one slot per OLD page: `resize_bytes` to the size of
that slot's new data (a new page; for the last slot all surplus new pages together; nothing for left-over
old pages), then `seek` and `write` — and renumbers the later pages of the stream at the end, in place.
Model: Model/Container/OggInjectM.lean (`saveEntry`, `deleteEntry`: FileM programs), lemmas:
Proofs/Container/OggInjectCap.lean.  Environments: no injected fault (`Quiet e`), arbitrary device
capacity, arbitrary leak of the failing write, any buffer size > 0.

What holds: every slot is enlarged (at the END of the file, rolled back on ENOSPC) before it is
overwritten, so ENOSPC at slot `j` leaves the file with the slots before `j` already rewritten and
everything else untouched.  With the comment on ONE page there is one slot: the file is byte-identical.
With several pages the pages of the other streams, the audio pages and the not-yet-replaced old pages are
all still there, in order (`mixed`), but the comment packet of the edited stream is a mixture of new and
old pages.  (The peak size can exceed the final size: a later slot may shrink what an earlier one grew.)
-/
import MutagenModel.Proofs.Container.OggInjectCap
set_option linter.unusedVariables false
namespace Mutagen.C19
open Mutagen Mutagen.Ogg Mutagen.OggInj

/-- refinement: without faults and without a capacity limit the file-object program of `save` leaves
exactly the bytes the pure model `save` returns — everything proved about `save` (C02, C03, C07–C09,
C15) holds of what the program writes -/
theorem ogg_saveM_refines (B : Nat) (hB : 0 < B) (c : Codec) (L : Layout) (h : L.OK c) (hs : L.StreamOK) (vc padData : Bytes)
    (pad : PadChoice) (old0 new0 : Bytes) (others : List Bytes) (new : List Page)
    (hpk : toPackets L.oldPages false = .ok (old0 :: others))
    (hnp : newPacket c old0 vc padData pad L.render.length = .ok new0)
    (hnew : newPages c (new0 :: others) L.oldPages = .ok new)
    (hseq : L.c1.sequence + new.length + (L.post.filter (·.serial = L.serial)).length ≤ 2 ^ 32)
    (s : FS) (hsd : s.data = L.render) :
    ∃ s', saveEntry B c L.render vc padData pad Env.clean s = (.ok (), s') ∧
      save c L.render vc padData pad = .ok s'.data :=
  saveEntry_refines B hB c L h hs vc padData pad old0 new0 others new hpk hnp hnew hseq s hsd

/-- for EVERY capacity and leak: `save` completes with the pure result, or raises the format's error
(ENOSPC converted) at some slot `j < number of old pages` and the file is: the pages in front, the
first `j` old pages replaced by their new data, the old pages from `j` on, with all pages of other
streams in their places between them, and the pages behind — nothing else changed -/
theorem ogg_save_enlarge_first {e : Env} (hq : Quiet e) (B : Nat) (hB : 0 < B) (c : Codec) (L : Layout) (h : L.OK c)
    (hs : L.StreamOK) (vc padData : Bytes) (pad : PadChoice) (old0 new0 : Bytes) (others : List Bytes) (new : List Page)
    (hpk : toPackets L.oldPages false = .ok (old0 :: others))
    (hnp : newPacket c old0 vc padData pad L.render.length = .ok new0)
    (hnew : newPages c (new0 :: others) L.oldPages = .ok new)
    (hseq : L.c1.sequence + new.length + (L.post.filter (·.serial = L.serial)).length ≤ 2 ^ 32)
    (s : FS) (hsd : s.data = L.render) :
    (∃ s', saveEntry B c L.render vc padData pad e s = (.ok (), s') ∧ s'.data = renderPages (L.after new)) ∨
    (∃ s' j, j < L.slots.length ∧ saveEntry B c L.render vc padData pad e s = (.error .mutagen, s') ∧
      s'.data = renderPages L.pre ++ mixed j (fitData L.slots.length ((prepare L.c1 L.cK new).map rb)) L.slots ++
        renderPages L.post) :=
  saveEntry_q hq B hB c L h hs vc padData pad old0 new0 others new hpk hnp hnew hseq s hsd

/-- comments confined to one page: a failed save leaves the file byte-identical, length included
(whether the new comment needs one page or several: they go into the one slot; renumbering the later
pages only overwrites in place) -/
theorem ogg_save_one_page_atomic {e : Env} (hq : Quiet e) (B : Nat) (hB : 0 < B) (c : Codec) (L : Layout) (h : L.OK c)
    (hs : L.StreamOK) (h1 : L.slots.length = 1)
    (vc padData : Bytes) (pad : PadChoice) (old0 new0 : Bytes) (others : List Bytes) (new : List Page)
    (hpk : toPackets L.oldPages false = .ok (old0 :: others))
    (hnp : newPacket c old0 vc padData pad L.render.length = .ok new0)
    (hnew : newPages c (new0 :: others) L.oldPages = .ok new)
    (hseq : L.c1.sequence + new.length + (L.post.filter (·.serial = L.serial)).length ≤ 2 ^ 32)
    (s : FS) (hsd : s.data = L.render) :
    (∃ s', saveEntry B c L.render vc padData pad e s = (.ok (), s') ∧ s'.data = renderPages (L.after new)) ∨
    (∃ s', saveEntry B c L.render vc padData pad e s = (.error .mutagen, s') ∧ s'.data = s.data) :=
  saveEntry_one_page_atomic hq B hB c L h hs h1 vc padData pad old0 new0 others new hpk hnp hnew hseq s hsd

/-- `delete` is the same program with the empty comment and the padding answer 0: the same holds -/
theorem ogg_delete_enlarge_first {e : Env} (hq : Quiet e) (B : Nat) (hB : 0 < B) (c : Codec) (L : Layout) (h : L.OK c)
    (hs : L.StreamOK) (vendor padData : Bytes) (old0 new0 : Bytes) (others : List Bytes) (new : List Page)
    (hpk : toPackets L.oldPages false = .ok (old0 :: others))
    (hnp : newPacket c old0 (Vorbis.encode vendor [] c.framing) padData (.callback fun _ _ => 0) L.render.length = .ok new0)
    (hnew : newPages c (new0 :: others) L.oldPages = .ok new)
    (hseq : L.c1.sequence + new.length + (L.post.filter (·.serial = L.serial)).length ≤ 2 ^ 32)
    (s : FS) (hsd : s.data = L.render) :
    (∃ s', deleteEntry B c L.render vendor padData e s = (.ok (), s') ∧ s'.data = renderPages (L.after new)) ∨
    (∃ s' j, j < L.slots.length ∧ deleteEntry B c L.render vendor padData e s = (.error .mutagen, s') ∧
      s'.data = renderPages L.pre ++ mixed j (fitData L.slots.length ((prepare L.c1 L.cK new).map rb)) L.slots ++
        renderPages L.post) :=
  saveEntry_q hq B hB c L h hs _ padData _ old0 new0 others new hpk hnp hnew hseq s hsd

/-- the slot loop by itself, for any run layout and any new pages (also the caller's own): see
`replaceM_run` in the Proofs file; here the step it is built from — one slot either is replaced or the
file is as it was -/
theorem ogg_slot_atomic {e : Env} (hq : Quiet e) (B : Nat) (hB : 0 < B) (off old : Nat) (new : Bytes) (s : FS)
    (ho : off + old ≤ s.data.length) :
    (∃ s', replaceRegion B off old new e s = (.ok (), s') ∧ s'.data = s.data.take off ++ new ++ s.data.drop (off + old)) ∨
    (∃ s', replaceRegion B off old new e s = (.error .enospc, s') ∧ s'.data = s.data) :=
  replaceRegion_q hq B hB off old new s ho

/-! non-vacuity -/

set_option maxRecDepth 100000 in
/-- the ENOSPC branch really occurs, with the comment on one page: the example file of C02 on a device
that is exactly full, a comment that needs 36 more bytes, 3 bytes of the failing write leaking — the
save raises the format's error and the file is byte-identical -/
example : (saveEntry 4096 .vorbis Example.layout.render Example.bigComment [] (.callback fun _ _ => 0)
      { cap := some Example.layout.render.length, leak := fun _ => 3 } { data := Example.layout.render }).1 = .error .mutagen ∧
    (saveEntry 4096 .vorbis Example.layout.render Example.bigComment [] (.callback fun _ _ => 0)
      { cap := some Example.layout.render.length, leak := fun _ => 3 } { data := Example.layout.render }).2.data =
      Example.layout.render := by
  decide +kernel

/-- … and with enough room the same save completes (the pure result) -/
example : (saveEntry 4096 .vorbis Example.layout.render Example.bigComment [] (.callback fun _ _ => 0)
      { cap := some (Example.layout.render.length + 36) } { data := Example.layout.render }).1 = .ok () := by
  decide +kernel

/-- two slots (a run of two pages with a page of another stream between them, `Example.layout2`), two
new pages that are both larger than the old ones, room for the first enlargement only: ENOSPC strikes
at the second slot, after the first has been rewritten — the file has changed -/
example : (replaceM 4096 (rds (renderPages Example.layout2.pre).length Example.layout2.slots) [Example.pg 300 1, Example.pg 300 2] 100
      { cap := some (Example.layout2.render.length + 100) } { data := Example.layout2.render }).1 = .error .enospc ∧
    (replaceM 4096 (rds (renderPages Example.layout2.pre).length Example.layout2.slots) [Example.pg 300 1, Example.pg 300 2] 100
      { cap := some (Example.layout2.render.length + 100) } { data := Example.layout2.render }).2.data.length =
      Example.layout2.render.length + 46 := by
  decide +kernel

example : Quiet { cap := some 7, leak := fun _ => 3 } := ⟨fun _ => rfl, fun _ => rfl⟩

end Mutagen.C19
