/-
Props/C05_Dsf.lean — C05 for DSF (`mutagen.dsf.DSFFile` + the properties of `DSFInfo`).  Property
theorems only.  Code side: Model/Info/Dsf.lean; specification side: Spec/Info/Dsf.lean.
(`Props/C0x_Dsf.lean` are the container properties of the same format.)
-/
import MutagenModel.Proofs.Info.Dsf
set_option linter.unusedVariables false
namespace Mutagen.C05
open Mutagen Mutagen.Info Mutagen.Spec.Dsf

/-- What mutagen reports for EVERY specification-built DSF file (every channel type, every positive
32-bit sampling frequency, both packings, every 64-bit sample count, any total-size and pointer fields,
any audio data, any bytes — the metadata chunk — behind): the fields as they are and
`bitrate = frequency · bits-per-sample field · channels`. -/
theorem dsf_info_reports (h : Fields) (ok : h.OK) (rest : Bytes) :
    Dsf.parse (build h ++ rest) = .ok
      { channels := h.channelNum, sampleRate := h.samplingFrequency, bitsPerSample := h.bitsPerSample,
        bitrate := h.samplingFrequency * h.bitsPerSample * h.channelNum,
        length := .div (.flt (.nat h.sampleCount)) (.nat h.samplingFrequency) } :=
  Dsf.parse_build h ok rest

/-- C05 for DSF, partial: with the bits-per-sample field 1 the reported attributes are exactly what the
header encodes.  (Field value 8 selects MSB-first packing of the same one-bit samples; mutagen
multiplies the bit rate by it: `dsf_msb_witness`.) -/
theorem dsf_info_decodes_partial (h : Fields) (ok : h.OK) (h1 : h.bitsPerSample = 1) (rest : Bytes) :
    Dsf.parse (build h ++ rest) = .ok (expected h) := by
  rw [Dsf.parse_build h ok rest]
  simp only [expected, h1, Nat.mul_one]

/-- C04 side: on EVERY byte string, loading and reading the attributes returns or raises a MutagenError -/
theorem dsf_info_total (f : Bytes) : ∀ e, Dsf.parse f = .error e → e = .mutagen :=
  fun e h => Dsf.parse_clean f e h

/-- the former witness of a ZeroDivisionError (repaired in /repo 71557fa): a 92-byte DSF file, stereo,
sampling frequency 0 — `FormatChunk.load` now raises the format's error -/
def dsfZeroRate : Bytes :=
  build { totalSize := 92, metadataPointer := 0, channelType := 2, channelNum := 2, samplingFrequency := 0,
          bitsPerSample := 1, sampleCount := 1000, blockSize := 4096, reserved := 0, data := [] }

example : Dsf.parse dsfZeroRate = .error .mutagen := by decide +kernel

/-- stereo DSD64 with MSB-first packing: 5644800 bit/s of audio, 45158400 reported -/
def msbWitness : Fields :=
  { totalSize := 92, metadataPointer := 0, channelType := 2, channelNum := 2, samplingFrequency := 2822400,
    bitsPerSample := 8, sampleCount := 2822400, blockSize := 4096, reserved := 0, data := [] }

theorem dsf_msb_witness :
    msbWitness.OK ∧ (Dsf.parse (build msbWitness)).toOption.map (·.bitrate) = some 45158400 ∧
    (expected msbWitness).bitrate = 5644800 := by
  decide +kernel

/-! non-vacuity -/
example : (⟨92 + 8192, 0, 2, 2, 2822400, 1, 32768, 4096, 0, zeros 8192⟩ : Fields).OK := by decide +kernel

end Mutagen.C05
