/-
Props/C04_Iff.lean — C04 "no exception other than MutagenError escapes, and the call finishes" for the model
of ID3 chunks in IFF-style files (AIFF, WAVE, DSDIFF; Model/Container/Iff.lean), on EVERY byte string:
no well-formedness hypothesis on the file.  What the model covers of "load" is the way to the ID3 chunk
(`locate`: root chunk, sub-chunk walk, lookup — `_pre_load_header`); the ID3 tag parser and the stream
info parsers are other models.  The rendered frames are a parameter of `save` (any bytes): rendering
(`ID3Tags._write`) is not part of this model, so nothing is claimed about exceptions raised there.
-/
import MutagenModel.Proofs.Container.IffTotal
set_option linter.unusedVariables false
namespace Mutagen.C04
open Mutagen

/-- load: for every dialect and every byte string the way to the ID3 chunk ends in a result (a chunk, or
"no ID3 chunk") or in MutagenError — in particular the sub-chunk walk never runs out of fuel
(`diverge`): it finishes -/
theorem iff_load_clean (d : Iff.Dialect) (f : Bytes) (e : PyErr) (h : Iff.locate d f = .error e) : e = .mutagen :=
  Iff.locate_clean d f e h

/-- the sub-chunk walk finishes for every file and every root size: `diverge` is not among its answers -/
theorem iff_walk_finishes (d : Iff.Dialect) (f : Bytes) (rootSize : Nat) : Iff.walk d f rootSize ≠ .error .diverge := by
  intro h
  have := Iff.walk_clean d f rootSize _ h
  cases this

/-- delete (module functions and methods): for every dialect and every byte string a result or MutagenError -/
theorem iff_delete_clean (d : Iff.Dialect) (f : Bytes) (e : PyErr) (h : Iff.delete d f = .error e) : e = .mutagen :=
  Iff.delete_clean d f e h

/-- save, for every byte string, all rendered frames and every padding choice — default policy or a callback
answering any integer for any offer — (`saveZ`: the model of `save` following the current `_prepare_data`, and
defined for ID3 chunks that claim more data than the file has; `iff_saveZ_extends_save`): a result or
MutagenError.  The one hypothesis is on the CALLER's argument `v2_version ∈ {3, 4}`, not on the file: any other
value is the documented `ValueError("Only 3 or 4 allowed for v2_version")` (`iff_save_classes`, first example below).
Neither KeyError (the lookup after `insert_chunk` always succeeds), nor `diverge`, nor ValueError from
`BitPaddedInt.to_str` (the padding is capped, frames beyond 2^28 - 1 bytes are `error("tag too large")`), nor
anything else is possible. -/
theorem iff_save_clean (d : Iff.Dialect) (hd : d.WF) (f : Bytes) (vmaj : Nat) (hvm : vmaj = 3 ∨ vmaj = 4)
    (frames : Bytes) (pad : Iff.PadZ) (e : PyErr) (h : Iff.saveZ d f vmaj frames pad = .error e) : e = .mutagen :=
  Iff.saveWith_clean d hd f _ (fun f1 rs c e h => Iff.saveAtZ_clean d f1 rs c vmaj hvm frames pad e h) e h

/-- save without any hypothesis on the arguments: MutagenError — or ValueError, and that only for a `v2_version`
other than 3 and 4 -/
theorem iff_save_classes (d : Iff.Dialect) (hd : d.WF) (f : Bytes) (vmaj : Nat) (frames : Bytes) (pad : Iff.PadZ)
    (e : PyErr) (h : Iff.saveZ d f vmaj frames pad = .error e) : e = .mutagen ∨ (e = .value ∧ vmaj ≠ 3 ∧ vmaj ≠ 4) := by
  rcases Iff.saveWith_error d hd f _ e h with h1 | ⟨f1, rs, c, h1⟩
  · exact Or.inl h1
  · exact Iff.saveAtZ_classes d f1 rs c vmaj frames pad e h1

/-- the default padding policy (for the `size ≥ 0` of a chunk that lies inside the file) never answers with a
negative number — no "invalid padding" without a callback — and its answer is the offered padding or
`1024 + size / 1000` -/
theorem iff_default_padding_bounded (padding size : Int) (hs : 0 ≤ size) :
    0 ≤ Iff.defaultPaddingZ padding size ∧
      (Iff.defaultPaddingZ padding size = padding ∨ Iff.defaultPaddingZ padding size = 1024 + size / 1000) := by
  unfold Iff.defaultPaddingZ
  simp only []
  split
  · split
    · exact ⟨by omega, Or.inr rfl⟩
    · exact ⟨by omega, Or.inl rfl⟩
  · exact ⟨by omega, Or.inr rfl⟩

/-- `saveZ` against the original `save` (which, like `Id3F.save`, still follows `_prepare_data` before /repo commit
a6f73d1): the same function, except where `save` answers `notImplemented` — an ID3 chunk whose declared data reaches
beyond the end of the file (negative `trailing_size`; the generated default policy takes a natural number) — or
ValueError — a wrong `v2_version` (`saveZ` says the same) or a tag beyond the 28-bit size field (third example
below; the current code caps the padding).  The compiled driver and the tie (harness/iff_tie.py) run `saveZ`. -/
theorem iff_saveZ_extends_save (d : Iff.Dialect) (f : Bytes) (vmaj : Nat) (frames : Bytes) (pad : PadChoice) :
    (Iff.save d f vmaj frames pad = .error .notImplemented ∨ Iff.save d f vmaj frames pad = .error .value) ∨
      Iff.save d f vmaj frames pad = Iff.saveZ d f vmaj frames pad.toZ := by
  rw [Iff.save_eq_saveWith]
  exact Iff.saveWith_congr d f _ _ (fun r => r = .error .notImplemented ∨ r = .error .value)
    (fun f1 rs c => Iff.saveAt_rel_saveAtZ d f1 rs c vmaj frames pad)

/-- consequently the original `save` ends in a result, MutagenError, ValueError or its own `notImplemented` -/
theorem iff_save_model_classes (d : Iff.Dialect) (hd : d.WF) (f : Bytes) (vmaj : Nat) (frames : Bytes) (pad : PadChoice)
    (e : PyErr) (h : Iff.save d f vmaj frames pad = .error e) : e = .mutagen ∨ e = .value ∨ e = .notImplemented := by
  rcases iff_saveZ_extends_save d f vmaj frames pad with (h1 | h1) | h1
  · rw [h1] at h; cases h; exact Or.inr (Or.inr rfl)
  · rw [h1] at h; cases h; exact Or.inr (Or.inl rfl)
  · rw [h1] at h
    rcases iff_save_classes d hd f vmaj frames _ e h with h2 | h2
    · exact Or.inl h2
    · exact Or.inr (Or.inl h2.1)

/-- the three formats satisfy the dialect hypothesis -/
theorem iff_closure_dialects : Iff.aiff.WF ∧ Iff.wave.WF ∧ Iff.dsdiff.WF := ⟨Iff.wf_aiff, Iff.wf_wave, Iff.wf_dsdiff⟩

/-! ### the paths out of the partial statement (caller arguments, not file contents) -/

/-- ValueError: `v2_version` not 3 or 4 (`FORM 4 "AIFF"`, version 5) — documented behaviour of `save` -/
example : Iff.saveZ Iff.aiff [0x46, 0x4F, 0x52, 0x4D, 0, 0, 0, 4, 0x41, 0x49, 0x46, 0x46] 5 [] .default = .error .value := by
  decide +kernel

/-- the path that was a ValueError before /repo commit a6f73d1 (`BitPaddedInt.to_str(new_size - 10, width=4)`,
mutagen/id3/_file.py:230 then): a padding callback answering 2^28 — the original `save` still says so, `saveZ`
follows the repaired code: the padding is capped at 2^28 - 1 bytes minus the frames, the save succeeds -/
example : Iff.save Iff.aiff [0x46, 0x4F, 0x52, 0x4D, 0, 0, 0, 4, 0x41, 0x49, 0x46, 0x46] 4 []
    (.callback fun _ _ => 268435456) = .error .value := by
  decide +kernel

/-- frames that do not fit the 28-bit size field at all: `error("tag too large")` (stated for `saveTail`, the step
after the padding is known; a witness file would be 256 MiB) -/
theorem iff_tag_too_large (d : Iff.Dialect) (f : Bytes) (rootSize : Nat) (c : Iff.Rec) (vmaj : Nat) (frames : Bytes) (np : Int)
    (h0 : 0 ≤ np) (hbig : 2 ^ 28 ≤ frames.length) : Iff.saveTail d f rootSize c vmaj frames np = .error .mutagen := by
  unfold Iff.saveTail
  simp only []
  rw [if_neg (by omega), if_pos (by omega)]

/-- the model gap that `saveZ` closes: an ID3 chunk claiming 100 bytes in a 20-byte file — `save` says
`notImplemented`, `saveZ` (and the real code) save the tag -/
example : Iff.save Iff.aiff [0x46, 0x4F, 0x52, 0x4D, 0, 0, 0, 0x70, 0x41, 0x49, 0x46, 0x46, 0x49, 0x44, 0x33, 0x20, 0, 0, 0, 100]
      4 [] (.callback fun _ _ => 0) = .error .notImplemented ∧
    Iff.saveZ Iff.aiff [0x46, 0x4F, 0x52, 0x4D, 0, 0, 0, 0x70, 0x41, 0x49, 0x46, 0x46, 0x49, 0x44, 0x33, 0x20, 0, 0, 0, 100]
      4 [] (.callback fun _ _ => 0) =
      .ok [0x46, 0x4F, 0x52, 0x4D, 0, 0, 0, 0x16, 0x41, 0x49, 0x46, 0x46, 0x49, 0x44, 0x33, 0x20, 0, 0, 0, 10,
        0x49, 0x44, 0x33, 4, 0, 0, 0, 0, 0, 0] := by
  decide +kernel

/-! ### damaged inputs, one per error path: all MutagenError -/

/-- the empty file, and a file that ends inside the root header -/
example : Iff.locate Iff.aiff [] = .error .mutagen ∧ Iff.delete Iff.dsdiff [0x46, 0x52, 0x4D, 0x38, 0, 0] = .error .mutagen := by
  decide +kernel
/-- a root chunk that is not the dialect's -/
example : Iff.locate Iff.wave [0x46, 0x4F, 0x52, 0x4D, 4, 0, 0, 0, 0x57, 0x41, 0x56, 0x45] = .error .mutagen := by decide +kernel
/-- RIFF whose form type is not "WAVE" -/
example : Iff.delete Iff.wave [0x52, 0x49, 0x46, 0x46, 4, 0, 0, 0, 0x41, 0x56, 0x49, 0x20] = .error .mutagen := by decide +kernel
/-- a root size below the 4 bytes of the form type -/
example : Iff.locate Iff.aiff [0x46, 0x4F, 0x52, 0x4D, 0, 0, 0, 3, 0x41, 0x49, 0x46, 0x46] = .error .mutagen := by decide +kernel
/-- a form type that is not ASCII -/
example : Iff.locate Iff.aiff [0x46, 0x4F, 0x52, 0x4D, 0, 0, 0, 4, 0x41, 0xE9, 0x46, 0x46] = .error .mutagen := by decide +kernel
/-- a LIST sub-chunk whose name is not ASCII: the module's `error` escapes the walk — MutagenError -/
example : Iff.locate Iff.wave ([0x52, 0x49, 0x46, 0x46, 16, 0, 0, 0, 0x57, 0x41, 0x56, 0x45] ++
    [0x4C, 0x49, 0x53, 0x54, 4, 0, 0, 0, 0xFF, 0xFF, 0xFF, 0xFF]) = .error .mutagen := by decide +kernel
/-- delete of an ID3 chunk bigger than the root says it is: the root size would become negative (struct.error → error) -/
example : Iff.delete Iff.aiff [0x46, 0x4F, 0x52, 0x4D, 0, 0, 0, 6, 0x41, 0x49, 0x46, 0x46, 0x49, 0x44, 0x33, 0x20, 0, 0, 0, 0] =
    .error .mutagen := by decide +kernel
/-- save into a root whose size field is already at its maximum: the new size does not fit (struct.error → error) -/
example : Iff.saveZ Iff.aiff [0x46, 0x4F, 0x52, 0x4D, 0xFF, 0xFF, 0xFF, 0xFF, 0x41, 0x49, 0x46, 0x46] 4 [] .default =
    .error .mutagen := by decide +kernel
/-- a padding callback answering a negative number: `error("invalid padding")` -/
example : Iff.saveZ Iff.aiff [0x46, 0x4F, 0x52, 0x4D, 0, 0, 0, 4, 0x41, 0x49, 0x46, 0x46] 4 [] (.callback fun _ _ => -1) =
    .error .mutagen := by decide +kernel
/-- garbage where a sub-chunk should start is not an error: the walk stops, save appends a chunk -/
example : Iff.delete Iff.aiff [0x46, 0x4F, 0x52, 0x4D, 0, 0, 0, 12, 0x41, 0x49, 0x46, 0x46, 0, 0, 0, 0, 0, 0, 0, 0] =
    .ok [0x46, 0x4F, 0x52, 0x4D, 0, 0, 0, 12, 0x41, 0x49, 0x46, 0x46, 0, 0, 0, 0, 0, 0, 0, 0] := by decide +kernel

end Mutagen.C04
