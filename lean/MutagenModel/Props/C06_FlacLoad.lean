/-
Props/C06_FlacLoad.lean — C06 for `FLAC(fileobj)`: the program `FlacL.loadM` (Model/Container/FlacLoad.lean) makes every call
`FLAC.load` makes on the file object, in its order — `read(0)`, `__check_header` (the ID3v2 skip with its seek), the block loop
with the strict reads and the `tell`s around the distrusted classes (VORBIS_COMMENT, PICTURE), the `tell`, `seek(0,2)`, `tell` of the
bitrate — on ANY byte string, in ANY fault environment (exceptions at any call, short reads of any size at any call).
-/
import MutagenModel.Proofs.Container.FlacLoad
set_option linter.unusedVariables false
namespace Mutagen.C06
open Mutagen

/-- refinement: without faults, from the start of the file, `loadM` returns for EVERY byte string exactly what the pure `load`
computes from the bytes, and the file is unchanged -/
theorem flac_loadM_refines {e : Env} (hq : Quiet e) (s : FS) (hp : s.pos = 0) :
    ∃ s', FlacL.loadM e s = (FlacL.load s.data, s') ∧ s'.data = s.data := by
  obtain ⟨s', h1, h2⟩ := FlacL.loadM_q hq s hp
  exact ⟨s', h2, h1⟩

/-- load never writes: whatever the environment does and however the call ends, the bytes are what they were -/
theorem flac_load_leaves_file_untouched (e : Env) (s s' : FS) (r : Except PyErr FlacL.Loaded)
    (h : FlacL.loadEntry e s = (r, s')) : s'.data = s.data :=
  Iff.Pres.convertError _ _ FlacL.pres_loadM e s r s' h

/-- under ARBITRARY injected exceptions and short reads the entry point (`@convert_error(IOError, error)`) lets out the module's
`error` — or a non-I/O exception: one the environment injected itself, or the ValueError `verify_fileobj` makes of an exception
injected into `read(0)`.  The block loop always ends (no `diverge`: every block that is read takes four bytes that are there), and a
short read never produces struct.error, TypeError (`ord(b"")`) or IndexError: every read of the load goes through
`StrictFileObject.read`, which compares the length. -/
theorem flac_load_raises_only :
    Raises (fun e x => x = .mutagen ∨ (FlacL.LErr e x ∧ x.isIO = false)) FlacL.loadEntry :=
  Raises.convertError PyErr.isIO .mutagen FlacL.raises_loadM

/-- with I/O faults only (every injected exception is an IOError) and any short reads: MutagenError or ValueError, the latter only
when a fault was injected (it is `verify_fileobj`'s) -/
theorem flac_load_io_faults (e : Env) (hio : ∀ i x, e.failAt i = some x → x.isIO = true) (s s' : FS) (x : PyErr)
    (h : FlacL.loadEntry e s = (.error x, s')) : x = .mutagen ∨ (x = .value ∧ ∃ i y, e.failAt i = some y) := by
  rcases flac_load_raises_only e s x s' h with h1 | ⟨h2, hn⟩
  · exact Or.inl h1
  · rcases h2 with (h2 | ⟨i, hi⟩) | ⟨h2, y, i, hi⟩
    · exact Or.inl h2
    · have := hio i x hi; rw [this] at hn; cases hn
    · exact Or.inr ⟨h2, i, y, hi⟩

/-- "a short read is taken for the end of the file" does NOT happen in FLAC.load: a read that returns fewer bytes than asked — at
any of the strict reads: marker, ID3 size, block header, block body, comment lengths and strings, picture fields — is `error` ("file
said n bytes, read m bytes"), never a shorter file -/
theorem flac_short_read_is_error (n k : Nat) (e : Env) (s : FS) (hf : e.failAt s.ops = none) (hk : e.shortAt s.ops = some k) (hlt : k < n) :
    ∃ s', FlacL.sreadM n e s = (.error .mutagen, s') := by
  unfold FlacL.sreadM
  have hrun : fread n e s = (.ok (readAt s.data s.pos (min k n)),
      { data := s.data, pos := s.pos + (readAt s.data s.pos (min k n)).length, ops := s.ops + 1, log := .read n :: s.log }) := by
    unfold fread Mutagen.tick
    simp only [hf, hk]
  have hl : (readAt s.data s.pos (min k n)).length ≠ n := by
    simp only [readAt, List.length_take, Nat.min_def]
    repeat' split
    all_goals omega
  simp only [bind_run, hrun, hl, ne_eq, not_false_eq_true, ↓reduceIte, raise_run]
  exact ⟨_, rfl⟩

/-- non-vacuity, on "fLaC", a STREAMINFO block (44.1 kHz, 100 samples), a last PADDING block of 2 bytes and 3 bytes of audio: the
clean load; a short read of the STREAMINFO body (call 4) and an IOError there are MutagenError; an IOError in `read(0)` is
ValueError; the file is untouched -/
example :
    let f : Bytes := [0x66, 0x4C, 0x61, 0x43] ++ [0, 0, 0, 34] ++ [0x10, 0, 0x10, 0, 0, 0, 0x10, 0, 0, 0x10, 0x0A, 0xC4, 0x42, 0xF0, 0, 0, 0, 100] ++
      List.replicate 16 0 ++ [0x81, 0, 0, 2, 0, 0] ++ [0xFF, 0xF8, 0]
    (FlacL.loadEntry Env.clean { data := f }).1 =
      .ok ⟨[⟨0, .streaminfo ⟨4096, 4096, 16, 16, 44100, 2, 16, 100, 0⟩⟩, ⟨1, .other (.padding 2)⟩], some 3⟩ ∧
    (FlacL.loadEntry { shortAt := fun i => if i = 4 then some 33 else none } { data := f }).1 = .error .mutagen ∧
    (FlacL.loadEntry { failAt := fun i => if i = 4 then some .io else none } { data := f }).1 = .error .mutagen ∧
    (FlacL.loadEntry { failAt := fun i => if i = 0 then some .io else none } { data := f }).1 = .error .value ∧
    (FlacL.loadEntry { shortAt := fun i => if i = 4 then some 33 else none } { data := f }).2.data = f := by
  decide +kernel

end Mutagen.C06
