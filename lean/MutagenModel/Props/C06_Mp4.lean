/-
Props/C06_Mp4.lean — C06 "I/O failures surface only as MutagenError; success means written" for MP4Tags.save / delete as
programs over the file object (Model/Container/Mp4M.lean) in ARBITRARY fault environments: any exception injected at
any file-object call after `Atoms(fileobj)`, short reads, finite capacity; for every file content, all rendered tags,
every padding answer.  (The reads of `Atoms(fileobj)` itself are summarised by the pure parser: faults DURING the
parse are not in these programs — in the code they are IOError → AtomError → `error` by `convert_error` on
`Atom.__init__` / `Atoms.__init__`, and `struct.error` on a short header → AtomError.)
-/
import MutagenModel.Proofs.Container.Mp4Cap
set_option linter.unusedVariables false
namespace Mutagen.C06
open Mutagen Mutagen.Mp4C

/-- MP4Tags.save under ANY fault environment: what leaves the entry point is `error` (a MutagenError), or a non-I/O
exception — one the environment itself injected that is not an IOError, ValueError from an argument check of the
_util primitives / a negative seek, or the BUFFER_SIZE = 0 marker -/
theorem mp4_save_raises_only (B : Nat) (ilstData : Bytes) (pad : PadChoice) :
    Raises (fun e x => x = .mutagen ∨ ((x = .mutagen ∨ PrimErr e x) ∧ x.isIO = false)) (saveEntryM B ilstData pad) :=
  Raises.convertError PyErr.isIO .mutagen (raises_saveTagsM B ilstData pad)

/-- with I/O faults only (every injected exception is an IOError, ENOSPC included): MutagenError or ValueError
(or the BUFFER_SIZE = 0 marker) -/
theorem mp4_save_io_faults (B : Nat) (ilstData : Bytes) (pad : PadChoice)
    (e : Env) (hio : ∀ i x, e.failAt i = some x → x.isIO = true) (s s' : FS) (x : PyErr)
    (h : saveEntryM B ilstData pad e s = (.error x, s')) : x = .mutagen ∨ x = .value ∨ x = .diverge := by
  rcases mp4_save_raises_only B ilstData pad e s x s' h with h1 | ⟨h2, hn⟩
  · exact Or.inl h1
  · rcases h2 with h2 | h2
    · exact Or.inl h2
    · rcases h2 with ⟨i, hi⟩ | h2 | h2 | h2 | h2
      · have := hio i x hi; rw [this] at hn; cases hn
      · subst h2; cases hn
      · exact Or.inr (Or.inl h2)
      · subst h2; cases hn
      · exact Or.inr (Or.inr h2)

/-- success means written: a normal return of MP4Tags.save — in any environment without short reads, whatever it would
have injected elsewhere, on a device of any capacity — means the pure model finished without an exception and the file
holds exactly its result: region replaced, every size field of the path and every visited offset table patched -/
theorem mp4_save_ok_means_written (B : Nat) (hB : 0 < B) (ilstData : Bytes) (pad : PadChoice) (e : Env)
    (hshort : ∀ i, e.shortAt i = none) (s s' : FS) (h : saveEntryM B ilstData pad e s = (.ok (), s')) :
    (saveTags true s.data ilstData pad).1 = none ∧ s'.data = (saveTags true s.data ilstData pad).2 :=
  saveTagsM_ok_means_written B hB ilstData pad e hshort s s' (convertError_ok _ _ _ e s s' () h)

/-! ### delete: `MP4Tags.delete` = `save` of an empty `ilst` with padding 0 -/

theorem mp4_delete_raises_only (B : Nat) :
    Raises (fun e x => x = .mutagen ∨ ((x = .mutagen ∨ PrimErr e x) ∧ x.isIO = false)) (deleteEntryM B) :=
  mp4_save_raises_only B _ _

theorem mp4_delete_io_faults (B : Nat) (e : Env) (hio : ∀ i x, e.failAt i = some x → x.isIO = true) (s s' : FS) (x : PyErr)
    (h : deleteEntryM B e s = (.error x, s')) : x = .mutagen ∨ x = .value ∨ x = .diverge :=
  mp4_save_io_faults B _ _ e hio s s' x h

theorem mp4_delete_ok_means_written (B : Nat) (hB : 0 < B) (e : Env) (hshort : ∀ i, e.shortAt i = none) (s s' : FS)
    (h : deleteEntryM B e s = (.ok (), s')) :
    (deleteTags true s.data).1 = none ∧ s'.data = (deleteTags true s.data).2 :=
  mp4_save_ok_means_written B hB _ _ e hshort s s' h

/-! ### non-vacuity -/

/-- `moov(udta(meta(ilst)))  moof(traf(tfhd base=84))  mdat "AAAA"  moof(traf(tfhd base=136))  mdat "BBBB"` (Props/C10 `twoMoof`) -/
def mp4TwoMoofM : Bytes :=
  [0x00, 0x00, 0x00, 0x24, 0x6d, 0x6f, 0x6f, 0x76, 0x00, 0x00, 0x00, 0x1c, 0x75, 0x64, 0x74, 0x61,
   0x00, 0x00, 0x00, 0x14, 0x6d, 0x65, 0x74, 0x61, 0x00, 0x00, 0x00, 0x00, 0x00, 0x00, 0x00, 0x08,
   0x69, 0x6c, 0x73, 0x74,
   0x00, 0x00, 0x00, 0x28, 0x6d, 0x6f, 0x6f, 0x66, 0x00, 0x00, 0x00, 0x20, 0x74, 0x72, 0x61, 0x66,
   0x00, 0x00, 0x00, 0x18, 0x74, 0x66, 0x68, 0x64, 0x00, 0x00, 0x00, 0x01, 0x00, 0x00, 0x00, 0x01,
   0x00, 0x00, 0x00, 0x00, 0x00, 0x00, 0x00, 0x54,
   0x00, 0x00, 0x00, 0x0c, 0x6d, 0x64, 0x61, 0x74, 0x41, 0x41, 0x41, 0x41,
   0x00, 0x00, 0x00, 0x28, 0x6d, 0x6f, 0x6f, 0x66, 0x00, 0x00, 0x00, 0x20, 0x74, 0x72, 0x61, 0x66,
   0x00, 0x00, 0x00, 0x18, 0x74, 0x66, 0x68, 0x64, 0x00, 0x00, 0x00, 0x01, 0x00, 0x00, 0x00, 0x01,
   0x00, 0x00, 0x00, 0x00, 0x00, 0x00, 0x00, 0x88,
   0x00, 0x00, 0x00, 0x0c, 0x6d, 0x64, 0x61, 0x74, 0x42, 0x42, 0x42, 0x42]

/-- delete grows this file by 8 bytes (the empty `ilst` gets an empty `free` atom).  An IOError at EVERY single one of
the file-object calls of the clean run (there are 39) surfaces as MutagenError; a short read of a size field in
`__update_parents` is MP4MetadataError; without a fault the run returns normally with the pure model's bytes -/
example :
    (List.range 39).all (fun i =>
      (deleteEntryM 1024 { failAt := fun j => if j = i then some .io else none } { data := mp4TwoMoofM }).1 == .error .mutagen) = true ∧
    (deleteEntryM 1024 {} { data := mp4TwoMoofM }).2.ops = 39 ∧
    (deleteEntryM 1024 {} { data := mp4TwoMoofM }).1 = .ok () ∧
    (deleteEntryM 1024 {} { data := mp4TwoMoofM }).2.data = (deleteTags true mp4TwoMoofM).2 ∧
    (deleteEntryM 1024 { shortAt := fun j => if j = 20 then some 2 else none } { data := mp4TwoMoofM }).1 = .error .mutagen := by
  decide +kernel

end Mutagen.C06
