/-
Props/C08_Asf.lean — C08 "Delete removes the whole tag region; deleting again changes nothing; new
tags can be saved afterwards", ASF files.  Model: Model/Container/Asf.lean; lemmas: Proofs/Container/Asf.lean.
-/
import MutagenModel.Proofs.Container.Asf
set_option linter.unusedVariables false
namespace Mutagen.C08
open Mutagen

/-! ## ASF

An ASF file has no separable tag region: `delete` is `save` with no tags and no padding.  What remains
of the metadata are the four objects, empty (Content Description: five zero lengths; the other three:
count 0), and a Padding Object without payload. -/

/-- `delete` on a well-formed layout leaves the layout `L.after emptyPayloads 0`: foreign objects (but for
the File Size field, which gets the new file length) and the rest of the file untouched, all padding gone (the final Padding Object has no payload), the four
metadata objects hold nothing, and a fresh load of the file finds no tags -/
theorem asf_delete_removes_tags (L : Asf.Layout) (h : L.OK) (hf : L.Fits Asf.emptyPayloads 0) :
    Asf.delete L.render = .ok (L.after Asf.emptyPayloads 0).render ∧
      (L.after Asf.emptyPayloads 0).top =
        Asf.patchFP (L.after Asf.emptyPayloads 0).render.length (Asf.keptTop Asf.emptyPayloads L.top) ++ [Asf.Item.pad []] ∧
      Asf.parseFull (L.after Asf.emptyPayloads 0).render = .ok ((L.after Asf.emptyPayloads 0).top.map Asf.Item.toObj) ∧
      Asf.loadedTags ((L.after Asf.emptyPayloads 0).top.map Asf.Item.toObj) = [] :=
  ⟨Asf.delete_layout L h hf, by rw [Asf.after_render_length L h]; exact Asf.after_top L _ 0,
    Asf.parseFull_layout _ (Asf.after_OK' L h Asf.emptyPayloads Asf.parses_empty 0 hf), Asf.loadedTags_after_delete L⟩

/-- the payloads `delete` writes into the four objects parse to no tags at all -/
theorem asf_empty_objects_hold_nothing :
    Asf.parseCD Asf.emptyPayloads.cd = some [] ∧ Asf.parseECD Asf.emptyPayloads.ecd = some [] ∧
      Asf.parseML false Asf.emptyPayloads.mo = some [] ∧ Asf.parseML true Asf.emptyPayloads.ml = some [] :=
  Asf.empty_holds_nothing

/-- deleting again changes nothing -/
theorem asf_delete_twice (L : Asf.Layout) (h : L.OK) (hf : L.Fits Asf.emptyPayloads 0) :
    ∃ out, Asf.delete L.render = .ok out ∧ Asf.delete out = .ok out := by
  exact ⟨(L.after Asf.emptyPayloads 0).render, Asf.delete_layout L h hf,
    Asf.save_after_save L h [] Asf.Dist.empty Asf.distribute_nil Asf.emptyPayloads Asf.renders_empty 0 hf Asf.padZero 0 rfl hf⟩

/-- new tags can be saved afterwards: the deleted file is a well-formed layout, and saving tags that
render gives the layout the save theorem describes — the four objects where `delete` left them, now
holding the payloads, followed by the Padding Object -/
theorem asf_save_after_delete (L : Asf.Layout) (h : L.OK) (hf : L.Fits Asf.emptyPayloads 0) (tags : List Asf.Tag) (d : Asf.Dist)
    (hd : Asf.distribute tags = .ok d) (P : Asf.Payloads) (hP : Asf.Renders d P) (pad : PadChoice)
    (hfit : (L.after Asf.emptyPayloads 0).Fits P (Asf.newPadding (L.after Asf.emptyPayloads 0) P pad)) :
    (L.after Asf.emptyPayloads 0).OK ∧
      Asf.save (L.after Asf.emptyPayloads 0).render tags pad =
        .ok ((L.after Asf.emptyPayloads 0).after P (Asf.newPadding (L.after Asf.emptyPayloads 0) P pad)).render := by
  have hok := Asf.after_OK' L h Asf.emptyPayloads Asf.parses_empty 0 hf
  exact ⟨hok, (Asf.save_layout _ hok tags d hd P hP pad hfit).2⟩

/-- the hypotheses are satisfiable -/
example : Asf.exLayout.OK ∧ Asf.exLayout.Fits Asf.emptyPayloads 0 ∧ Asf.distribute Asf.exTags = .ok Asf.exDist ∧
    Asf.Renders Asf.exDist Asf.exPayloads ∧
    (Asf.exLayout.after Asf.emptyPayloads 0).Fits Asf.exPayloads
      (Asf.newPadding (Asf.exLayout.after Asf.emptyPayloads 0) Asf.exPayloads .default) := by
  refine ⟨by decide +kernel, by decide +kernel, by decide +kernel, by decide +kernel, by decide +kernel⟩

end Mutagen.C08
