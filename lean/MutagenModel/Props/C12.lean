/-
Props/C12.lean — C12 "Every ID3 frame type survives binary encoding".
Property theorems only; lemmas in Proofs/Id3Spec.lean; the frame
table is Generated/Id3Table.lean (regenerated from /repo on every run).

What is proved here, about the model (Model/Id3Text.lean, Model/Id3Spec.lean):
 (a) codec round trips for Latin-1, strict UTF-8, UTF-16 LE/BE and UTF-16 with BOM;
 (b) one `read_write_*` theorem per spec kind — all kinds of the frame table (`RVASpec`: under `RvaOK`, the
     values `write` accepts; `read_write_rva` in Props/C12_More.lean) — and the uniform statement `read_write_spec`;
 (c) `frame_roundtrip` (v2.4 configuration) and `frame_roundtrip_v23`: `_readData` of
     `_writeData`, by induction over the spec list, for every class of the generated table;
 (d) `greedy_last` / `greedy_only_last`: the structural condition (c) needs, decided over the
     generated table;
 (e) `flags_equiv_*`: a frame carrying the v2.4 unsynchronisation flag, a data length
     indicator, or both, decodes like the plain frame.
Nested frames (CHAP/CTOC `sub_frames`) enter (b), (c) relative to the nested reader/writer:
the value is valid if that pair round-trips on it (`read_write_frames`); the recursion is closed in
Props/C12_More.lean (`id3_nested_tag_roundtrip`: `readTag`/`writeTag` themselves, any depth).  zlib is outside the model.
-/
import MutagenModel.Proofs.Id3Spec
import MutagenModel.Generated.Id3Table
set_option linter.unusedVariables false
set_option linter.unusedSimpArgs false
namespace Mutagen.C12
open Mutagen Mutagen.Id3

/-! ## (a) text codecs -/

/-- Latin-1: text with code points ≤ 0xFF encodes, and decoding gives it back -/
theorem latin1_decode_encode (t : Text) (h : ∀ x ∈ t, x < 256) :
    ∃ b, latin1Encode t = .ok b ∧ latin1Decode b = t :=
  ⟨t.map b8, latin1Encode_ok t h, latin1Decode_map t h⟩

/-- UTF-8: any list of Unicode scalar values encodes, and the strict decoder gives it back -/
theorem utf8_decode_encode (t : Text) (h : ∀ x ∈ t, isScalar x = true) :
    ∃ b, utf8Encode t = .ok b ∧ utf8Decode b = .ok t :=
  ⟨utf8EncodeRaw t, utf8Encode_ok t h, utf8Decode_encodeRaw t h⟩

/-- UTF-16LE (`be = false`) and UTF-16BE (`be = true`), with surrogate pairs: scalar values
other than U+0000 encode; scanning the code units gives the text back, both at the end of
the data and in front of a two-byte terminator followed by anything -/
theorem utf16_decode_encode (be : Bool) (t : Text) (h : ∀ x ∈ t, isScalar x = true ∧ x ≠ 0) :
    ∃ b, utf16Encode be t = .ok b ∧ utf16Scan be b = .ok (t, none) ∧
      ∀ rest, utf16Scan be (b ++ 0 :: 0 :: rest) = .ok (t, some rest) :=
  ⟨utf16EncodeRaw be t, utf16Encode_ok be t (fun x hx => (h x hx).1), utf16Scan_encodeRaw be t h,
    fun rest => utf16Scan_encodeRaw_term be t h rest⟩

/-- `encode_endian(text, enc, le=True) + terminator` is undone by `decode_terminated`, in each
of the four ID3 encodings (0 Latin-1: one NUL; 1 UTF-16 with the BOM `FF FE`: two NULs;
2 UTF-16BE: two NULs; 3 UTF-8: one NUL), strict or not, leaving the rest of the data -/
theorem decode_terminated_encode (enc : Nat) (henc : enc ≤ 3) (t : Text) (ht : TextOK enc t)
    (strict : Bool) (rest : Bytes) :
    ∃ b tm, encodeText enc t = .ok b ∧ termOf enc = .ok tm ∧
      decodeTerminated enc strict (b ++ tm ++ rest) = .ok (t, rest) := by
  obtain ⟨b, tm, h1, h2, h3, _⟩ := decodeTerminated_encode enc henc t ht strict rest
  exact ⟨b, tm, h1, h2, h3⟩

/-- UTF-16 with BOM writes `FF FE` followed by little-endian code units -/
theorem utf16_bom_little_endian (t : Text) (h : ∀ x ∈ t, isScalar x = true) :
    encodeText 1 t = .ok (0xFF :: 0xFE :: utf16EncodeRaw false t) := by
  simp [encodeText, utf16Encode_ok false t h]

/-! ## (b) one spec at a time -/

/-- THE uniform spec-level statement: for every spec kind `k` of the frame table, every `Valid`
value `v` (see `Mutagen.Id3.Valid`: ints in range, ASCII strings of
the spec's length, any bytes, NUL-free text valid for the frame's encoding, non-empty lists
of such, …): `read(write(v) ++ rest) = (v, rest)` — `rest = []` for the kinds that consume
everything; under a v2.2/2.3 header `rest` after an encoded text must be empty or contain a
non-NUL byte; the peak comes back in its read-side scale (`normVal`). -/
theorem read_write_spec (E : Env) (c : Ctx) (k : SpecKind) (v : Val) (hv : Valid E c k v) (rest : Bytes)
    (hr : RestOK E.h k rest) :
    ∃ b, writeSpec E.subw E.cfg k c v = .ok b ∧
      readSpec E.sub E.h k c (b ++ rest) = .ok (normVal k v, rest) :=
  let ⟨b, h1, h2, _⟩ := read_write E c k v hv rest hr
  ⟨b, h1, h2⟩

/-- ByteSpec, PictureTypeSpec, CTOCFlagsSpec, ChannelSpec: every value 0..255 -/
theorem read_write_byte (E : Env) (c : Ctx) (k : SpecKind)
    (hk : k = .byte ∨ k = .pictureType ∨ k = .ctocFlags ∨ k = .channel) (n : Nat) (hn : n < 256) (rest : Bytes) :
    ∃ b, writeSpec E.subw E.cfg k c (.int n) = .ok b ∧ readSpec E.sub E.h k c (b ++ rest) = .ok (.int n, rest) := by
  rcases hk with rfl | rfl | rfl | rfl
  · exact read_write_spec E c .byte (.int n) ⟨n, rfl, hn⟩ rest (by simp [RestOK, greedy])
  · exact read_write_spec E c .pictureType (.int n) ⟨n, rfl, hn⟩ rest (by simp [RestOK, greedy])
  · exact read_write_spec E c .ctocFlags (.int n) ⟨n, rfl, hn⟩ rest (by simp [RestOK, greedy])
  · exact read_write_spec E c .channel (.int n) ⟨n, rfl, hn⟩ rest (by simp [RestOK, greedy])

/-- EncodingSpec: 0..3 -/
theorem read_write_encoding (E : Env) (c : Ctx) (n : Nat) (hn : n ≤ 3) (rest : Bytes) :
    ∃ b, writeSpec E.subw E.cfg .encoding c (.int n) = .ok b ∧
      readSpec E.sub E.h .encoding c (b ++ rest) = .ok (.int n, rest) :=
  read_write_spec E c .encoding (.int n) ⟨n, rfl, hn⟩ rest (by simp [RestOK, greedy])

/-- StringSpec(n) and FrameIDSpec(n): ASCII text of exactly `n > 0` characters -/
theorem read_write_string (E : Env) (c : Ctx) (k : SpecKind) (n : Nat) (hk : k = .string n ∨ k = .frameId n)
    (t : Text) (hlen : t.length = n) (hn : 0 < n) (ht : ∀ x ∈ t, x < 128) (rest : Bytes) :
    ∃ b, writeSpec E.subw E.cfg k c (.text t) = .ok b ∧ readSpec E.sub E.h k c (b ++ rest) = .ok (.text t, rest) := by
  rcases hk with rfl | rfl
  · exact read_write_spec E c (.string n) (.text t) ⟨t, rfl, hlen, hn, ht⟩ rest (by simp [RestOK, greedy])
  · exact read_write_spec E c (.frameId n) (.text t) ⟨t, rfl, hlen, hn, ht⟩ rest (by simp [RestOK, greedy])

/-- BinaryDataSpec: every byte string (0x00 / 0xFF runs included), at the end of the frame -/
theorem read_write_binary (E : Env) (c : Ctx) (data : Bytes) :
    ∃ b, writeSpec E.subw E.cfg .binary c (.bytes data) = .ok b ∧
      readSpec E.sub E.h .binary c b = .ok (.bytes data, []) := by
  have := read_write_spec E c .binary (.bytes data) ⟨data, rfl⟩ [] (fun _ => rfl)
  simpa [normVal] using this

/-- EncodedTextSpec, EncodedNumericTextSpec, EncodedNumericPartTextSpec: NUL-free text, under
each of the four encodings `enc` the frame may have (Latin-1: code points ≤ 0xFF; the others:
Unicode scalar values, astral ones as surrogate pairs in UTF-16) -/
theorem read_write_encodedText (E : Env) (c : Ctx) (enc : Nat) (hc : ctxEnc c = .ok enc) (tk : TextKind)
    (htk : tk ≠ .timeStamp) (t : Text) (ht : TextOK enc t) (rest : Bytes) :
    ∃ b, writeSpec E.subw E.cfg (.encText tk) c (.text t) = .ok b ∧
      readSpec E.sub E.h (.encText tk) c (b ++ rest) = .ok (.text t, rest) :=
  read_write_spec E c (.encText tk) (.text t) ⟨enc, t, rfl, hc, ht, fun h => absurd h htk⟩ rest
    (by simp [RestOK, greedy])

/-- TimeStampSpec: text that is a fixed point of `ID3TimeStamp` normalisation (written with
`T` for the space, read back with the space) -/
theorem read_write_timeStamp (E : Env) (c : Ctx) (enc : Nat) (hc : ctxEnc c = .ok enc) (t : Text)
    (ht : TextOK enc t) (hfix : tsNormalize (tsWire t) = .ok t) (rest : Bytes) :
    ∃ b, writeSpec E.subw E.cfg (.encText .timeStamp) c (.text t) = .ok b ∧
      readSpec E.sub E.h (.encText .timeStamp) c (b ++ rest) = .ok (.text t, rest) :=
  read_write_spec E c (.encText .timeStamp) (.text t) ⟨enc, t, rfl, hc, ht, fun _ => hfix⟩ rest
    (by simp [RestOK, greedy])

/-- MultiSpec over one or more specs of the EncodedTextSpec family: a non-empty list of
records (multi-values); under a v2.2/2.3 header every text must be non-empty -/
theorem read_write_multi (E : Env) (c : Ctx) (enc : Nat) (hc : ctxEnc c = .ok enc) (elems : List TextKind)
    (hne : elems ≠ []) (recs : List (List Val)) (hrne : recs ≠ []) (hrecs : ∀ r ∈ recs, RecordOK E.h enc elems r) :
    ∃ b, writeSpec E.subw E.cfg (.multi elems) c (.list (recs.map (recordVal elems))) = .ok b ∧
      readSpec E.sub E.h (.multi elems) c b = .ok (.list (recs.map (recordVal elems)), []) := by
  have := read_write_spec E c (.multi elems) (.list (recs.map (recordVal elems))) ⟨hne, enc, recs, hc, rfl, hrne, hrecs⟩ [] (fun _ => rfl)
  simpa [normVal] using this

/-- Latin1TextSpec: NUL-free text with code points ≤ 0xFF -/
theorem read_write_latin1Text (E : Env) (c : Ctx) (t : Text) (ht : Latin1OK t) (rest : Bytes) :
    ∃ b, writeSpec E.subw E.cfg .latin1Text c (.text t) = .ok b ∧
      readSpec E.sub E.h .latin1Text c (b ++ rest) = .ok (.text t, rest) :=
  read_write_spec E c .latin1Text (.text t) ⟨t, rfl, ht⟩ rest (by simp [RestOK, greedy])

/-- Latin1TextListSpec: up to 255 such texts -/
theorem read_write_latin1List (E : Env) (c : Ctx) (ts : List Text) (hlen : ts.length < 256)
    (hts : ∀ t ∈ ts, Latin1OK t) (rest : Bytes) :
    ∃ b, writeSpec E.subw E.cfg .latin1List c (.list (ts.map Val.text)) = .ok b ∧
      readSpec E.sub E.h .latin1List c (b ++ rest) = .ok (.list (ts.map Val.text), rest) :=
  read_write_spec E c .latin1List (.list (ts.map Val.text)) ⟨ts, rfl, hlen, hts⟩ rest
    (by simp [RestOK, greedy])

/-- SizedIntegerSpec(n): every integer below `256^n`, for every width `n > 0` -/
theorem read_write_sizedInteger (E : Env) (c : Ctx) (n m : Nat) (hn : 0 < n) (hm : m < 256 ^ n) (rest : Bytes) :
    ∃ b, writeSpec E.subw E.cfg (.sizedInt n) c (.int m) = .ok b ∧
      readSpec E.sub E.h (.sizedInt n) c (b ++ rest) = .ok (.int m, rest) :=
  read_write_spec E c (.sizedInt n) (.int m) ⟨m, rfl, hm, hn⟩ rest (by simp [RestOK, greedy])

/-- IntegerSpec (PCNT/POPM/… counters): every non-negative integer, however large -/
theorem read_write_integer (E : Env) (c : Ctx) (m : Nat) :
    ∃ b, writeSpec E.subw E.cfg .integer c (.int m) = .ok b ∧
      readSpec E.sub E.h .integer c b = .ok (.int m, []) := by
  have := read_write_spec E c .integer (.int m) ⟨m, rfl⟩ [] (fun _ => rfl)
  simpa [normVal] using this

/-- … and a negative counter is rejected with ValueError (not written, no hang) -/
theorem integer_negative_rejected (E : Env) (c : Ctx) (i : Int) (hi : i < 0) :
    writeSpec E.subw E.cfg .integer c (.int i) = .error .value := by
  rw [writeSpec_integer]; exact Mutagen.C14.to_str_negative_rejected i hi 8 4 true (-1)

/-- VolumeAdjustmentSpec: the 16-bit wire integer `intround(gain*512)` comes back exactly,
so the gain is reproduced to its wire precision (the harness checks the float against
`n/512`) -/
theorem read_write_volumeAdjustment (E : Env) (c : Ctx) (i : Int) (h1 : -32768 ≤ i) (h2 : i ≤ 32767) (rest : Bytes) :
    ∃ b, writeSpec E.subw E.cfg .volAdj c (.int i) = .ok b ∧
      readSpec E.sub E.h .volAdj c (b ++ rest) = .ok (.int i, rest) :=
  read_write_spec E c .volAdj (.int i) ⟨i, rfl, h1, h2⟩ rest (by simp [RestOK, greedy])

/-- VolumePeakSpec: the 16-bit wire integer `n = intround(peak*32768)` is read as the
fraction `(n·65536)/(2^31-1)` -/
theorem read_write_volumePeak (E : Env) (c : Ctx) (n : Nat) (hn : n ≤ 65535) (rest : Bytes) :
    ∃ b, writeSpec E.subw E.cfg .volPeak c (.int n) = .ok b ∧
      readSpec E.sub E.h .volPeak c (b ++ rest) = .ok (.int (n * 65536 : Nat), rest) := by
  have := read_write_spec E c .volPeak (.int n) ⟨n, rfl, hn⟩ rest (by simp [RestOK, greedy])
  simpa [normVal] using this

/-- … which differs from the written `n/32768` by at most `1/32768` (and is not smaller):
`0 ≤ (n·65536)/(2^31-1) − n/32768 ≤ 1/32768`, cross-multiplied -/
theorem volumePeak_precision (n : Nat) (hn : n ≤ 65535) :
    n * 2147483647 ≤ (n * 65536) * 32768 ∧
    ((n * 65536) * 32768 - n * 2147483647) * 32768 ≤ 32768 * 2147483647 := by
  constructor <;> omega

/-- SynchronizedTextSpec: a non-empty list of (valid text, 32-bit time) -/
theorem read_write_synchronizedText (E : Env) (c : Ctx) (enc : Nat) (hc : ctxEnc c = .ok enc)
    (es : List (Text × Nat)) (hne : es ≠ []) (hes : SyncOK enc es) :
    ∃ b, writeSpec E.subw E.cfg .syncText c (.list (es.map syncVal)) = .ok b ∧
      readSpec E.sub E.h .syncText c b = .ok (.list (es.map syncVal), []) := by
  have := read_write_spec E c .syncText (.list (es.map syncVal)) ⟨enc, es, hc, rfl, hne, hes⟩ [] (fun _ => rfl)
  simpa [normVal] using this

/-- KeyEventSpec: a non-empty list of (signed byte, 32-bit time) -/
theorem read_write_keyEvent (E : Env) (c : Ctx) (es : List (Int × Nat)) (hne : es ≠ []) (hes : KeyOK es) :
    ∃ b, writeSpec E.subw E.cfg .keyEvent c (.list (es.map keyVal)) = .ok b ∧
      readSpec E.sub E.h .keyEvent c b = .ok (.list (es.map keyVal), []) := by
  have := read_write_spec E c .keyEvent (.list (es.map keyVal)) ⟨es, rfl, hne, hes⟩ [] (fun _ => rfl)
  simpa [normVal] using this

/-- VolumeAdjustmentsSpec (EQU2): a non-empty list of (frequency·2, adjustment·512) with
strictly increasing 16-bit frequencies and signed 16-bit adjustments -/
theorem read_write_volumeAdjustments (E : Env) (c : Ctx) (ps : List (Nat × Int)) (hne : ps ≠ []) (hps : AdjOK ps) :
    ∃ b, writeSpec E.subw E.cfg .volAdjs c (.list (ps.map adjVal)) = .ok b ∧
      readSpec E.sub E.h .volAdjs c b = .ok (.list (ps.map adjVal), []) := by
  have := read_write_spec E c .volAdjs (.list (ps.map adjVal)) ⟨ps, rfl, hne, hps⟩ [] (fun _ => rfl)
  simpa [normVal] using this

/-- ASPIIndexSpec: `N` indices of `b ∈ {8, 16}` bits each (`N`, `b` being the frame's fields) -/
theorem read_write_aspiIndex (E : Env) (c : Ctx) (b : Int) (hb : b = 8 ∨ b = 16) (vs : List Nat)
    (hcb : c.aspiB = some b) (hcn : c.aspiN = some (vs.length : Int)) (hne : vs ≠ [])
    (hvs : ∀ x ∈ vs, x < 256 ^ (if b = 16 then 2 else 1)) (rest : Bytes) :
    ∃ d, writeSpec E.subw E.cfg .aspiIndex c (.list (vs.map natVal)) = .ok d ∧
      readSpec E.sub E.h .aspiIndex c (d ++ rest) = .ok (.list (vs.map natVal), rest) :=
  read_write_spec E c .aspiIndex (.list (vs.map natVal)) ⟨b, vs, hb, hcb, hcn, rfl, hne, hvs⟩ rest
    (by simp [RestOK, greedy])

/-- ID3FramesSpec (CHAP/CTOC sub-frames), relative to the nested writer/reader: if that pair
round-trips on the frame list, so does the spec -/
theorem read_write_frames (E : Env) (c : Ctx) (fs : List Val) (b : Bytes) (hw : E.subw E.cfg fs = .ok b)
    (hr : E.sub { E.h with unsynch := false } b = .ok (fs, [])) :
    writeSpec E.subw E.cfg .frames c (.list fs) = .ok b ∧
      readSpec E.sub E.h .frames c b = .ok (.list fs, []) := by
  obtain ⟨b', h1, h2⟩ := read_write_spec E c .frames (.list fs) ⟨fs, b, rfl, hw, hr⟩ [] (fun _ => rfl)
  have : b' = b := by rw [writeSpec_frames, hw] at h1; cases h1; rfl
  subst this
  exact ⟨h1, by simpa [normVal] using h2⟩

/-! ## (d) the structural condition, decided over the generated table -/

/-- `structOK` (see Proofs/Id3Spec.lean) for every class of a table -/
def tableOK (tbl : Table) : Bool := tbl.all (fun cls => structOK (cls.required ++ cls.optional))

set_option maxRecDepth 100000 in
theorem table_ok : tableOK Id3Table.frames = true := by decide +kernel

/-- In every frame class of `Frames` and `Frames_2_2` (176 classes, regenerated from the
source), on `_framespec ++ _optionalspec`: a spec that consumes the rest of the data
(BinaryDataSpec, IntegerSpec, MultiSpec, SynchronizedTextSpec, KeyEventSpec,
VolumeAdjustmentsSpec, ID3FramesSpec, RVASpec) is the last spec; from a spec that reads
`frame.encoding` (resp. `frame.N`/`frame.b`) on, no spec is named `encoding` (resp. `N`/`b`);
no VolumePeakSpec is named `encoding`/`N`/`b`.  A table change violating this breaks the
proof. -/
theorem greedy_last (cls : FrameClass) (h : cls ∈ Id3Table.frames) :
    structOK (cls.required ++ cls.optional) = true := by
  have := table_ok
  simp only [tableOK, List.all_eq_true] at this
  exact this cls h

/-- the plain reading of `greedy_last`: in every class of the table, a rest-consuming spec
is followed by no other spec -/
theorem greedy_only_last (cls : FrameClass) (h : cls ∈ Id3Table.frames) (pre : List FieldSpec) (s : FieldSpec)
    (post : List FieldSpec) (he : cls.required ++ cls.optional = pre ++ s :: post) (hp : post ≠ []) :
    greedy s.kind = false :=
  structOK_greedy _ (greedy_last cls h) pre s post he hp

/-! ## (c) whole frames -/

/-- `_readData(_writeData(frame))` for EVERY class of the generated table, ID3v2.4 save
configuration, any header version: if
* `vals` holds a value for every required spec and for a prefix of the optional ones, and the
  first optional spec left out (if any) does not have `handle_nodata` (else it is read as empty),
* every value is `Valid` given the attributes set by the fields before it (`FieldsValid`;
  in particular non-degenerate: non-empty lists, so that something is written),
then the frame's bytes are read back as the same values (`normVals`: identity except the
peak scale), with nothing left over.  Proved by induction over the spec list
(`readOpt_writeOpt`), using `greedy_last` for the class. -/
theorem frame_roundtrip (E : Env) (cls : FrameClass) (hcls : cls ∈ Id3Table.frames) (vals : List Val)
    (hcfg : E.cfg.version ≠ 3)
    (hlen1 : cls.required.length ≤ vals.length) (hlen2 : vals.length ≤ (cls.required ++ cls.optional).length)
    (hvalid : FieldsValid E (initCtx cls.required {}) (cls.required ++ cls.optional) vals)
    (hcomp : ∀ hlt : vals.length < (cls.required ++ cls.optional).length,
      handleNoData ((cls.required ++ cls.optional)[vals.length]).kind = false) :
    ∃ b, writeFrame E.subw E.cfg cls vals = .ok b ∧
      readFrame E.sub E.h cls b = .ok (normVals (cls.required ++ cls.optional) vals, []) :=
  readFrame_writeFrame E cls vals vals (by simp [hcfg]) (greedy_last cls hcls) hlen1 hlen2 hvalid hcomp

/-- the same for an ID3v2.3 save configuration: what is written is the `_get_v23_frame`
conversion `vals'` of the values (encodings other than Latin-1/UTF-16 become UTF-16,
multi-values are joined if a separator is configured), and `vals'` is what is read back -/
theorem frame_roundtrip_v23 (E : Env) (cls : FrameClass) (hcls : cls ∈ Id3Table.frames) (vals vals' : List Val)
    (hcfg : E.cfg.version = 3)
    (hconv : toV23 E.cfg.sep (cls.required ++ cls.optional) vals = .ok vals')
    (hlen1 : cls.required.length ≤ vals'.length) (hlen2 : vals'.length ≤ (cls.required ++ cls.optional).length)
    (hvalid : FieldsValid E (initCtx cls.required {}) (cls.required ++ cls.optional) vals')
    (hcomp : ∀ hlt : vals'.length < (cls.required ++ cls.optional).length,
      handleNoData ((cls.required ++ cls.optional)[vals'.length]).kind = false) :
    ∃ b, writeFrame E.subw E.cfg cls vals = .ok b ∧
      readFrame E.sub E.h cls b = .ok (normVals (cls.required ++ cls.optional) vals', []) :=
  readFrame_writeFrame E cls vals vals' (by simp [hcfg, hconv]) (greedy_last cls hcls) hlen1 hlen2 hvalid hcomp

/-- … and the conversion is the identity when no separator is configured and every encoding
field is Latin-1 (0) or UTF-16 (1) -/
theorem v23_conversion_identity (specs : List FieldSpec) (vals : List Val) (hlen : vals.length ≤ specs.length)
    (h : V23Stable specs vals) : toV23 none specs vals = .ok vals :=
  toV23_stable specs vals hlen h

/-! ## (e) input framing -/

/-- v2.4 frame with the unsynchronisation flag whose data is the unsynchronised form of `d`
decodes exactly like the plain frame with data `d` -/
theorem flags_equiv_unsynch (sub : Hdr → Bytes → Except PyErr (List Val × Bytes)) (h : Hdr) (cls : FrameClass)
    (hv : h.version ≥ 4) (hu : h.unsynch = false) (d : Bytes) :
    fromData sub h cls FLAG24_UNSYNCH (unsynchEncode d) = fromData sub h cls 0 d :=
  fromData_congr sub h cls hv _ _ _ _ (by decide) (by decide) (by decide) (by decide)
    (by rw [fromDataBytes_unsynch h hv, fromDataBytes_plain h hu])

/-- … with a data length indicator (four bytes in front of the data) -/
theorem flags_equiv_datalen (sub : Hdr → Bytes → Except PyErr (List Val × Bytes)) (h : Hdr) (cls : FrameClass)
    (hv : h.version ≥ 4) (hu : h.unsynch = false) (l4 d : Bytes) (hl : l4.length = 4) :
    fromData sub h cls FLAG24_DATALEN (l4 ++ d) = fromData sub h cls 0 d :=
  fromData_congr sub h cls hv _ _ _ _ (by decide) (by decide) (by decide) (by decide)
    (by rw [fromDataBytes_datalen h hv hu l4 d hl, fromDataBytes_plain h hu])

/-- … with both -/
theorem flags_equiv_unsynch_datalen (sub : Hdr → Bytes → Except PyErr (List Val × Bytes)) (h : Hdr)
    (cls : FrameClass) (hv : h.version ≥ 4) (hu : h.unsynch = false) (l4 d : Bytes) (hl : l4.length = 4) :
    fromData sub h cls (FLAG24_UNSYNCH + FLAG24_DATALEN) (l4 ++ unsynchEncode d) = fromData sub h cls 0 d :=
  fromData_congr sub h cls hv _ _ _ _ (by decide) (by decide) (by decide) (by decide)
    (by rw [fromDataBytes_unsynch_datalen h hv l4 d hl, fromDataBytes_plain h hu])

/-! ## instances of two repaired findings (replayed on the implementation by harness/props/c12.py under the
keys `RVAD:mixed-width` and `APIC:v2.3:zero-tail`; both fixed in /repo, see known_findings.json) -/

/-- RVASpec pads the big-endian magnitudes on the left, so values of different byte widths
survive (before the repair `[1, 70000]` came back as `[256, 70000]`) -/
theorem rva_mixed_width_instance :
    writeRva 12 (.list [.int 1, .int 70000]) = .ok [0x03, 0x18, 0x00, 0x00, 0x01, 0x01, 0x11, 0x70] ∧
    (match readRva 12 [0x03, 0x18, 0x00, 0x00, 0x01, 0x01, 0x11, 0x70] with
     | .ok (v, r) => Val.beq v (.list [.int 1, .int 70000]) && r.isEmpty
     | .error _ => false) = true := by
  constructor <;> decide +kernel

/-- equal widths (instance; the general theorem is `read_write_rva`, Props/C12_More.lean) -/
theorem rva_equal_width_instance :
    writeRva 12 (.list [.int (-2), .int 300, .int 65535, .int 0]) = .ok [0x02, 0x10, 0, 2, 1, 44, 255, 255, 0, 0] ∧
    (match readRva 12 [0x02, 0x10, 0, 2, 1, 44, 255, 255, 0, 0] with
     | .ok (v, r) => Val.beq v (.list [.int (-2), .int 300, .int 65535, .int 0]) && r.isEmpty
     | .error _ => false) = true := by
  constructor <;> decide +kernel

def noSub : Hdr → Bytes → Except PyErr (List Val × Bytes) := fun _ _ => .error .notImplemented
def noSubW : Cfg → List Val → Except PyErr Bytes := fun _ _ => .error .notImplemented

def apicVals : List Val := [.int 0, .text [105], .int 3, .text [100], .bytes [0, 0, 0]]

def tbl : Table := Id3Table.frames
def clsOf (n : String) : FrameClass := (tbl.find (nameBytes n)).get!

/-- an APIC (the class of the generated table) whose picture data is three NUL bytes is written
the same for v2.3 and v2.4 and read back intact under both headers.  (Before the repair recorded
in known_findings.json the zero-padding work-around of `EncodedTextSpec.read` emptied the data
under a v2.3 header; harness key `APIC:v2.3:zero-tail`.) -/
theorem v23_zero_tail_instance :
    clsOf "APIC" ∈ Id3Table.frames ∧
      writeFrame noSubW { version := 3 } (clsOf "APIC") apicVals = .ok [0, 105, 0, 3, 100, 0, 0, 0, 0] ∧
      (match readFrame noSub { version := 4 } (clsOf "APIC") [0, 105, 0, 3, 100, 0, 0, 0, 0] with
       | .ok (vs, _) => Val.beqList vs apicVals
       | .error _ => false) = true ∧
      (match readFrame noSub { version := 3 } (clsOf "APIC") [0, 105, 0, 3, 100, 0, 0, 0, 0] with
       | .ok (vs, _) => Val.beqList vs apicVals
       | .error _ => false) = true := by
  refine ⟨Table.find_mem tbl (nameBytes "APIC") (by decide +kernel), ?_, ?_, ?_⟩ <;> decide +kernel

def chapBody : Bytes :=
  [99, 0, 0, 0, 0, 0, 0, 0, 0, 1, 0, 0, 0, 2, 0, 0, 0, 3, 80, 82, 73, 86, 0, 0, 0, 5, 0, 0, 111, 0, 255, 0, 1]

/-- when the TAG header carries the unsynchronisation flag too, the nested frames of a
CHAP/CTOC are read with the flag cleared (the enclosing frame has been decoded already), so
the `FF 00 01` payload of a PRIV sub-frame survives.  Before the repair recorded in
known_findings.json it came back as `FF 01` (harness key
`CHAP:tag+frame-unsynchronised-input`). -/
theorem nested_global_unsynch_instance :
    (match fromData (readTag tbl) { version := 4 } (clsOf "CHAP") 0 chapBody with
     | .frame vs => Val.beqList vs [.text [99], .int 0, .int 1, .int 2, .int 3,
          .list [.frame "PRIV" [.text [111], .bytes [255, 0, 1]]]]
     | _ => false) = true ∧
    (match fromData (readTag tbl) { version := 4, unsynch := true } (clsOf "CHAP") FLAG24_UNSYNCH
        (unsynchEncode chapBody) with
     | .frame vs => Val.beqList vs [.text [99], .int 0, .int 1, .int 2, .int 3,
          .list [.frame "PRIV" [.text [111], .bytes [255, 0, 1]]]]
     | _ => false) = true := by
  constructor <;> decide +kernel

/-! ## non-vacuity: the hypotheses are satisfiable, on the generated table -/

/-- TXXX, UTF-16 with BOM, empty description, two values one of them astral -/
example : writeFrame noSubW {} (clsOf "TXXX") [.int 1, .text [], .list [.text [0x1F600], .text [97]]]
    = .ok [1, 0xFF, 0xFE, 0, 0, 0xFF, 0xFE, 0x3D, 0xD8, 0x00, 0xDE, 0, 0, 0xFF, 0xFE, 97, 0, 0, 0] := by
  decide +kernel

example : (match readFrame noSub { version := 4 } (clsOf "TXXX")
      [1, 0xFF, 0xFE, 0, 0, 0xFF, 0xFE, 0x3D, 0xD8, 0x00, 0xDE, 0, 0, 0xFF, 0xFE, 97, 0, 0, 0] with
    | .ok (vs, r) => Val.beqList vs [.int 1, .text [], .list [.text [0x1F600], .text [97]]] && r.isEmpty
    | .error _ => false) = true := by decide +kernel

/-- `Valid` holds for these values (so `frame_roundtrip` applies to them) -/
example : Valid ⟨noSub, noSubW, {}, { version := 4 }⟩ { enc := some 1 } (.multi [.plain])
    (.list [.text [0x1F600], .text [97]]) :=
  ⟨by simp, 1, [[.text [0x1F600]], [.text [97]]], rfl, rfl, by simp,
    by
      intro r hr
      simp only [List.mem_cons, List.not_mem_nil, or_false] at hr
      rcases hr with rfl | rfl <;>
        exact ⟨⟨by intro x hx; simp at hx; subst hx; decide, by simp⟩, by simp, trivial⟩⟩

/-- a time stamp in canonical form is a fixed point of the normalisation -/
example : tsNormalize (tsWire [50, 48, 48, 52, 45, 48, 49, 45, 48, 50, 32, 48, 51, 58, 48, 52])
    = .ok [50, 48, 48, 52, 45, 48, 49, 45, 48, 50, 32, 48, 51, 58, 48, 52] := by decide +kernel

/-- nested frames: a CHAP with a TIT2 sub-frame goes through `writeTag` / `readTag` of the
generated table and back (instance of the hypothesis of `read_write_frames`) -/
example : writeTag tbl {} [.frame "TIT2" [.int 0, .list [.text [65]]]]
    = .ok [84, 73, 84, 50, 0, 0, 0, 3, 0, 0, 0, 65, 0] := by decide +kernel

example : (match readTag tbl { version := 4 } [84, 73, 84, 50, 0, 0, 0, 3, 0, 0, 0, 65, 0] with
    | .ok (fs, r) => Val.beqList fs [.frame "TIT2" [.int 0, .list [.text [65]]]] && r.isEmpty
    | .error _ => false) = true := by decide +kernel

end Mutagen.C12
