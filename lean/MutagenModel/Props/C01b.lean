/-
Props/C01b.lean — C01 "Saved tags read back exactly, in every tag format": the MP4 `ilst` item
codec and the ASF attribute record codec (continuation of Props/C01.lean).

For ALL values (no bound on the number of values of a key or their lengths below the formats'
own 16/32-bit length fields, all code points):

* `mp4_item_roundtrip`, `mp4_freeform_roundtrip` — the item atom MP4Tags writes for a key
  (one `data` atom per value: version, 24-bit type, locale 0, payload; `----` with `mean` and
  `name`) is read back by a strict decoder written from the atom layout as the same name and the
  same values in order, whatever item follows;
* `mp4_text_roundtrip`, `mp4_integer_roundtrip`, `mp4_pair_roundtrip` — the typed payloads:
  UTF-8 text, the integer atoms (the width MP4Tags chooses, negative values included),
  track/disc pairs;
* `asf_ecd_roundtrip`, `asf_metadata_roundtrip` — the records ASF.save writes into the Extended
  Content Description Object and into the Metadata / Metadata Library Objects are read back by
  strict decoders written from the ASF specification as the same (language, stream, name, type,
  value) list in order, filling the object exactly;
* `asf_uint_roundtrip`, `asf_bool_roundtrip`, `asf_text_roundtrip`, `utf16_roundtrip` — the
  typed values: WORD/DWORD/QWORD up to 2^16-1 / 2^32-1 / 2^64-1, BOOL in both widths, UTF-16-LE
  text over the whole Unicode range.

The encoders are tied to mutagen by the correspondence check (driver command `tagc2`).
-/
import MutagenModel.Proofs.Mp4Tags
import MutagenModel.Proofs.AsfAttr
import MutagenModel.Proofs.Utf8
set_option linter.unusedVariables false
namespace Mutagen.C01
open Mutagen

/-! ## MP4 -/

/-- every value of a multi-valued key in order, with its type flags and version -/
theorem mp4_item_roundtrip (name : Bytes) (ds : List Mp4Tags.Data) (rest : Bytes) (h : Mp4Tags.ItemOK name ds) :
    Mp4Tags.decodeItem (Mp4Tags.encodeItem name ds ++ rest) = some (name, ds, rest) :=
  Mp4Tags.decodeItem_encodeItem name ds rest h

/-- freeform `----:mean:name` items -/
theorem mp4_freeform_roundtrip (mean name : Bytes) (ds : List Mp4Tags.Data) (rest : Bytes)
    (h : Mp4Tags.FreeformOK mean name ds) :
    Mp4Tags.decodeFreeform (Mp4Tags.encodeFreeform mean name ds ++ rest) = some (mean, name, ds, rest) :=
  Mp4Tags.decodeFreeform_encodeFreeform mean name ds rest h

/-- text payloads (type 1): full Unicode -/
theorem mp4_text_roundtrip (cs : List Nat) (h : ∀ c ∈ cs, Utf8.Scalar c) :
    Utf8.decode (Utf8.encode cs) = some cs := Utf8.decode_encode cs h

/-- integer atoms: whatever MP4Tags.__render_integer accepts (it chooses 1, 2, 4 or 8 bytes, at
least the atom's usual width) is parsed back as the same integer, negative values included -/
theorem mp4_integer_roundtrip (v : Int) (minBytes : Nat) (b : Bytes) (h : Mp4Tags.renderInt v minBytes = some b) :
    Mp4Tags.parseInt b = some v := Mp4Tags.parseInt_renderInt v minBytes b h

/-- `trkn` / `disk` pairs up to (65535, 65535) -/
theorem mp4_pair_roundtrip (track total : Nat) (trailing : Bool) (ht : track < 65536) (hn : total < 65536) :
    Mp4Tags.parsePair (Mp4Tags.renderPair track total trailing) = some (track, total) :=
  Mp4Tags.parsePair_renderPair track total trailing ht hn

/-- non-vacuity: a cover (type 13), an empty payload and a freeform value with version 255 -/
example : Mp4Tags.ItemOK [0x63, 0x6F, 0x76, 0x72] [{ version := 0, flags := 13, payload := [0xFF, 0xD8] }, { version := 255, flags := 16777215, payload := [] }] := by
  refine ⟨rfl, ?_, by decide⟩
  intro d hd
  simp only [List.mem_cons, List.not_mem_nil, or_false] at hd
  rcases hd with rfl | rfl <;> exact ⟨by decide, by decide, by decide⟩

example : Mp4Tags.renderInt (-32769) 2 = some [0xFF, 0xFF, 0x7F, 0xFF] := by decide
example : Mp4Tags.renderInt 65535 2 = some [0, 0, 0xFF, 0xFF] := by decide
example : Mp4Tags.renderInt 9223372036854775808 1 = none := by decide

/-! ## ASF -/

/-- Extended Content Description Object: names, types and value bytes in order -/
theorem asf_ecd_roundtrip (as : List AsfAttr.Attr) (h : ∀ a ∈ as, AsfAttr.ECDOK a) (hc : as.length < 65536) :
    AsfAttr.decodeECD (AsfAttr.encodeECD as) = some as := AsfAttr.decodeECD_encodeECD as h hc

/-- Metadata and Metadata Library Objects: language, stream, names, types and value bytes in order -/
theorem asf_metadata_roundtrip (as : List AsfAttr.Attr) (h : ∀ a ∈ as, AsfAttr.MLOK a) (hc : as.length < 65536) :
    AsfAttr.decodeML (AsfAttr.encodeML as) = some as := AsfAttr.decodeML_encodeML as h hc

/-- WORD (w = 2), DWORD (4), QWORD (8) up to their maxima -/
theorem asf_uint_roundtrip (w v : Nat) (h : v < 256 ^ w) : AsfAttr.parseUInt (AsfAttr.renderUInt w v) = v :=
  AsfAttr.parseUInt_renderUInt w v h

/-- BOOL: 4 bytes in the Extended Content Description Object, 2 bytes in the Metadata objects -/
theorem asf_bool_roundtrip (v dword : Bool) : AsfAttr.parseBool (AsfAttr.renderBool v dword) = v :=
  AsfAttr.parseBool_renderBool v dword

/-- UTF-16-LE over the whole Unicode range (astral planes as surrogate pairs) -/
theorem utf16_roundtrip (cs : List Nat) (h : ∀ c ∈ cs, AsfAttr.Scalar c) :
    AsfAttr.decodeUtf16 (AsfAttr.encodeUtf16 cs) = some cs := AsfAttr.decodeUtf16_encodeUtf16 cs h

/-- ASF text values (NUL-terminated; ASFUnicodeAttribute.parse strips NULs at both ends): text
without NUL reads back unchanged -/
theorem asf_text_roundtrip (cs : List Nat) (h : ∀ c ∈ cs, AsfAttr.Scalar c) (hz : ∀ c ∈ cs, c ≠ 0) :
    AsfAttr.parseText (AsfAttr.renderText cs) = some cs := AsfAttr.parseText_renderText cs h hz

/-- non-vacuity: a DWORD, a 2-byte BOOL with stream 127 and a GUID record -/
example : ∀ a ∈ [({ language := 0, stream := 0, name := [0x41, 0], typ := 3, data := [0xFF, 0xFF, 0xFF, 0xFF] } : AsfAttr.Attr),
    { language := 5, stream := 127, name := [], typ := 2, data := [1, 0] }], AsfAttr.MLOK a := by
  intro a ha
  simp only [List.mem_cons, List.not_mem_nil, or_false] at ha
  rcases ha with rfl | rfl <;> exact ⟨by decide, by decide, by decide, by decide, by decide, by decide⟩

example : AsfAttr.encodeUtf16 [0x1F600] = [0x3D, 0xD8, 0x00, 0xDE] := by decide

end Mutagen.C01
