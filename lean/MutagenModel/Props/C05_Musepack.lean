/-
Props/C05_Musepack.lean — C05 "Stream information equals what the headers encode" for Musepack SV7 and
SV8 (mutagen/musepack.py `MusepackInfo`).  Property theorems only; layouts: Spec/Info/Musepack.lean,
parser: Model/Info/Musepack.lean, rate table: Generated/Tables.lean.
-/
import MutagenModel.Proofs.Info.Musepack
import MutagenModel.Proofs.Info.Reports
set_option linter.unusedVariables false
namespace Mutagen.C05
open Mutagen Mutagen.Info Mutagen.Info.Musepack Mutagen.Spec.Musepack

/-- every row of mutagen's `RATES` (regenerated from the source) is the format's rate, and none is 0 -/
theorem mpc_rates_rows : ∀ i < 4, Generated.musepackRates[i]? = some (rate i) ∧ rate i ≠ 0 := rates_rows

/-- the SV8 variable-length integer: for EVERY number below 2^63, written with the minimal number of 7-bit
groups behind anything, `_parse_sv8_int` returns the number and the count of bytes -/
theorem mpc_sv8_int_decodes (n : Nat) (h : n < 2 ^ 63) (pre more : Bytes) :
    sv8Int (pre ++ (varint n ++ more)) 9 pre.length 0 0 = some (n, varintLen n) := sv8Int_varint n h pre more

/-- C05 for Musepack SV7: for EVERY value of every header field (minor version, 32-bit frame count ≥ 1, all
bits of the flag word, the four 16-bit replay-gain fields, last-frame samples, fast-seek bit, encoder version,
unused bits), in a file with at least 4 more bytes (mutagen reads 32 bytes, the header has 28), the reported
version, channels, rate, replay gain (gain raw/100, peak raw/65535) and bit rate (file bits over duration) are the
encoded ones and the duration is `(frames·1152 - 576) / rate` — PROVIDED the true-gapless flag is clear; with the
flag set the header encodes `(frames-1)·1152 + last-frame-samples` samples, see `mpc_sv7_gapless_misread`. -/
theorem mpc_sv7_info_decodes_partial (h : Sv7) (ok : h.OK) (hg : h.trueGapless = 0) (rest : Bytes)
    (hlen : 4 ≤ rest.length) :
    parse (h.build ++ rest) = .ok (h.expected (h.build ++ rest).length) :=
  parse_sv7 h ok hg rest hlen

/-- what `MusepackInfo` DOES report for an SV7 header, for ALL values including the true-gapless flag: everything as in
`mpc_sv7_info_decodes_partial`, and the duration always `(frames·1152 - 576) / rate` — with the flag set the header
encodes `(frames-1)·1152 + last-frame-samples` samples, so the report is off by `1152 - 576 - last-frame-samples`
samples, between -576 and +575. -/
theorem mpc_sv7_info_reports (h : Sv7) (ok : h.OK) (rest : Bytes) (hlen : 4 ≤ rest.length) :
    parse (h.build ++ rest) =
      .ok { h.expected (h.build ++ rest).length with length := ⟨(h.frames : Int) * 1152 - 576, rate h.rateIndex⟩ } :=
  parse_sv7_reports h ok rest hlen

/-- the size of the deviation: reported minus encoded samples, for the true-gapless headers -/
theorem mpc_sv7_gapless_deviation (h : Sv7) (ok : h.OK) (hg : h.trueGapless = 1) :
    ((h.frames : Int) * 1152 - 576) - h.samples = 576 - (h.lastFrameSamples : Int) ∧
    -576 ≤ 576 - (h.lastFrameSamples : Int) ∧ 576 - (h.lastFrameSamples : Int) ≤ 575 := by
  have hl := ok.2.2.2.2.2.2.2.2.2.2.2.2.2.2.2.2.2.2.2.2.2.2 hg
  simp only [Sv7.samples, hg, if_true]
  omega

/-- C05 for Musepack SV8: for EVERY stream header (any CRC and version byte, 63-bit sample count and beginning
silence, the four rates, 1..32 bands, 1..16 channels, mid/side, block power, any padding) followed by any
number of other packets (any two-letter key but SH/RG/AP/SE, any payload) and the replay-gain packet (gains as
signed 16 bit, peaks below 2^15, any version byte and padding), in a file smaller than 2^62 bytes in which
another packet follows (`rest` starts with two letters: mutagen checks the next key), the reported version,
channels, rate, replay gain (absent for 0, else gain 64.82 - raw/256, peak 10^(raw/5120)/65535), the duration
`(samples - silence) / rate` and the bit rate (file bits over duration; 0 for an empty stream) are the encoded
ones. -/
theorem mpc_sv8_info_decodes (h : Spec.Musepack.Sv8) (ok : h.OK) (rest : Bytes)
    (hrest : letters (readAt rest 0 2) = true) (hsz : (h.build ++ rest).length < 2 ^ 62) :
    parse (h.build ++ rest) = .ok (h.expected (h.build ++ rest).length) :=
  parse_sv8 h ok rest hrest hsz

/-- C04 side: on EVERY byte string `MusepackInfo` either succeeds or raises a `MutagenError`
(`MusepackHeaderError`) — SV4-6, SV7 and SV8 paths, ID3 skipping, every packet size (the seek over a packet
whose size is no possible file offset is refused since /repo a1d2e75); the packet loop terminates. -/
theorem mpc_info_total (f : Bytes) : ∀ e, parse f = .error e → e = .mutagen := parse_total_aux f

/-! ### witnesses -/

/-- "MPCK", a packet "EI" whose size field is 2^63-1, then anything: the relative seek over the packet cannot be
done (`OverflowError: new position too large` on a BytesIO); found by this model as an escape, repaired in /repo
a1d2e75: it is `MusepackHeaderError` now.
`Musepack(io.BytesIO(bytes.fromhex("4d50434b4549ffffffffffffffff7f534503")))`. -/
theorem mpc_sv8_huge_packet_overflow :
    parse [0x4d, 0x50, 0x43, 0x4b, 0x45, 0x49, 0xff, 0xff, 0xff, 0xff, 0xff, 0xff, 0xff, 0xff, 0x7f, 0x53, 0x45, 0x03] =
      .error .mutagen := by decide +kernel

/-- an SV7 stream of 100 frames whose last frame holds 1 sample (true gapless), 44100 Hz -/
def sv7Gapless : Sv7 :=
  { minor := 0, frames := 100, intensity := 0, midSide := 1, maxBand := 31, profile := 10, link := 0, rateIndex := 0,
    maxLevel := 0, titlePeak := 0, titleGain := 0, albumPeak := 0, albumGain := 0, trueGapless := 1,
    lastFrameSamples := 1, fastSeek := 0, unused5 := 0, encoder := 118, unused6 := 0 }

/-- DEFECT witness (known finding MPC_SV7:length): the header encodes 99·1152 + 1 = 114049 samples, mutagen
reports 100·1152 - 576 = 114624. -/
theorem mpc_sv7_gapless_misread :
    sv7Gapless.OK ∧ (sv7Gapless.expected 92).length = ⟨114049, 44100⟩ ∧
    parse (sv7Gapless.build ++ zeros 64) = .ok { sv7Gapless.expected 92 with length := ⟨114624, 44100⟩ } := by
  decide +kernel

/-! non-vacuity -/
def sv8Sample : Spec.Musepack.Sv8 :=
  { crc := 0x01020304, streamVersion := 8, samples := 100000, beginSilence := 10, rateIndex := 1, maxBands := 32, channels := 2,
    midSide := 1, blockPwr := 3, shPad := [], shSize := 14, mid := [⟨[0x45, 0x49], 10, [1, 2, 3, 4, 5, 6, 7]⟩],
    rgVersion := 1, titleGain := -200, titlePeak := 100, albumGain := 0, albumPeak := 32767, rgPad := [], rgSize := 12 }
example : sv8Sample.OK := by decide
example : parse (sv8Sample.build ++ [0x41, 0x50, 3]) =
    .ok { version := 8, channels := 2, sampleRate := 48000, length := ⟨99990, 48000⟩, bitrate := .fromSize (8 * 43),
          titleGain := .sv8 (-200), titlePeak := .sv8 100, albumGain := .absent, albumPeak := .sv8 32767 } := by
  decide +kernel
example : ({ sv7Gapless with trueGapless := 0 } : Sv7).OK := by decide

end Mutagen.C05
