/-
Props/C13_Convert.lean — C13, `update_to_v23` / `update_to_v24` at the level of the tag dictionary
(Model/Id3Convert.lean; the id lists `v24_frames` and the keys deleted by `update_to_v24` are
Generated/Id3ConvertLists.lean, regenerated from mutagen/id3/_tags.py on every run).

Proved for ALL tags: after `update_to_v23` no KEY of the dictionary is one of `v24_frames`, the chapters' sub-frame
dictionaries included one level at a time (`v23_output_only_v23_keys`); joining multi-values with a separator and
splitting again (`v23_join_split`).  NOT true, and shown as decided instances (harness/id3convert_tie.py reports them on
the real code under the keys `id3convert:to23:v24-frames-left:*` and `…:not-idempotent`):
* "every frame id after update_to_v23 is a valid v2.3 id": the deletion is by dictionary key, and RVA2, EQU2 and SIGN
  frames are keyed `RVA2:<desc>`, `EQU2:<desc>`, `SIGN:<group>:<sig>` — they survive and are written into the v2.3 tag
  (`v23_rva2_survives`);
* idempotence: `__update_common` re-parses TCON on every call, and a genre NAME that is a number ("(1)17": Classic
  Rock + the name "17") is taken for a genre index the second time (`update_not_idempotent_tcon`).
The round trip v2.4 → v2.3 → v2.4 and idempotence are decided on representative tags (`*_instance`); their general
forms are checked by the tie on every generated tag, not proved (the date part is Props/C13.lean `v23_v24_roundtrip`).
-/
import MutagenModel.Proofs.Id3Convert
set_option linter.unusedVariables false
namespace Mutagen.C13
open Mutagen Mutagen.Id3Conv
open Mutagen.Id3v1 (Str)

/-- after `update_to_v23` no key of the tag dictionary is in `v24_frames` (ASPI EQU2 RVA2 SEEK SIGN TDEN TDOR TDRC TDRL
TDTG TIPL TMCL TMOO TPRO TSOA TSOP TSOT TSST): every frame whose HashKey is its id — all text frames, ASPI, SEEK — and
whose id is a v2.4 addition is gone -/
theorem v23_output_only_v23_keys (t : Tag) (k : String) (h : k ∈ (updateToV23 t).map (·.key)) :
    k ∉ Generated.v24Frames :=
  updateToV23_keys t k h

/-- … at every level: the flat conversion, which the recursion applies to the sub-frames of every CHAP / CTOC -/
theorem v23_flat_only_v23_keys (t : Tag) (f : Frame) (h : f ∈ toV23Flat t) : f.key ∉ Generated.v24Frames :=
  toV23Flat_keys t f h

/-- `update_to_v24` leaves none of RVAD EQUA TRDA TSIZ TDAT TIME, nor TYER / TORY / IPLS, as a key -/
theorem v24_output_keys (t : Tag) (f : Frame) (h : f ∈ toV24Flat t) : f.key ∉ Generated.v24Deleted :=
  toV24Flat_keys t f h

/-- THE DEFECT: an RVA2 (an EQU2, a SIGN) with its usual HashKey survives `update_to_v23`; the id is none ID3v2.3 defines -/
theorem v23_rva2_survives :
    (updateToV23 [.other "RVA2" "RVA2:album", .other "EQU2" "EQU2:", .other "SIGN" "SIGN:1:ab", .other "ASPI" "ASPI",
        .text "TSOP" 3 [[120]]]).map (·.id) = ["RVA2", "EQU2", "SIGN"] ∧
    "RVA2" ∈ Generated.v24Frames ∧ "EQU2" ∈ Generated.v24Frames ∧ "SIGN" ∈ Generated.v24Frames := by decide +kernel

/-- multi-values joined with a one-character separator (the `v23_sep` of `save`, "/" by default) that occurs in none
of them split back into the same values -/
theorem v23_join_split (sep : Nat) (vs : List Str) (hne : vs ≠ []) (h : ∀ v ∈ vs, sep ∉ v) :
    splitSep sep (joinSep [sep] vs) [] = vs :=
  split_join sep vs hne h

/-- … and not otherwise: "AC/DC" and "x" joined by "/" come back as three values -/
example : splitSep 47 (joinSep [47] [[65, 67, 47, 68, 67], [120]]) [] = [[65, 67], [68, 67], [120]] := by decide +kernel

/-! ### decided instances -/

def demoTag : Tag :=
  [.stamps "TDRC" 3 [{ year := some 2020, month := some 5, day := some 6, hour := some 12, minute := some 0 }],
   .stamps "TDOR" 3 [{ year := some 1970 }],
   .people "TIPL" 3 [([112], [65])], .people "TMCL" 1 [([103], [66])],
   .text "TCON" 0 [[40, 49, 55, 41]], .text "TSOP" 3 [[120]], .text "TIT2" 3 [[84]],
   .chap "CHAP" "CHAP:c1" [.stamps "TDRC" 0 [{ year := some 1999 }], .text "TSOA" 0 [[121]]]]

/-- date, original year, involved people, genre, and the chapter's sub-frames under v2.3 -/
theorem update_to_v23_values :
    textOf (updateToV23 demoTag) "TYER" = [[50, 48, 50, 48]] ∧ textOf (updateToV23 demoTag) "TDAT" = [[48, 54, 48, 53]] ∧
    textOf (updateToV23 demoTag) "TIME" = [[49, 50, 48, 48]] ∧ textOf (updateToV23 demoTag) "TORY" = [[49, 57, 55, 48]] ∧
    textOf (updateToV23 demoTag) "TCON" = [[82, 111, 99, 107]] ∧
    peopleOf (updateToV23 demoTag) "IPLS" = some (1, [([112], [65]), ([103], [66])]) ∧
    (updateToV23 demoTag).map (·.key) = ["TCON", "TIT2", "CHAP:c1", "IPLS", "TORY", "TYER", "TDAT", "TIME"] := by
  decide +kernel

/-- v2.4 → v2.3 → v2.4 on it: the date comes back with seconds 00, the original year, the people as one TIPL (TMCL is
merged into it: the documented loss), the genre by name -/
theorem v24_to_v23_to_v24_instance :
    (updateToV24 (updateToV23 demoTag)).map (·.key) = ["TCON", "TIT2", "CHAP:c1", "TDRC", "TDOR", "TIPL"] ∧
    peopleOf (updateToV24 (updateToV23 demoTag)) "TIPL" = some (1, [([112], [65]), ([103], [66])]) ∧
    (match (updateToV24 (updateToV23 demoTag)).get? "TDRC" with
     | some (.stamps _ _ [s]) => s.text
     | _ => []) = [50, 48, 50, 48, 45, 48, 53, 45, 48, 54, 32, 49, 50, 58, 48, 48, 58, 48, 48] ∧
    (match (updateToV24 (updateToV23 demoTag)).get? "TDOR" with
     | some (.stamps _ _ [s]) => s.text
     | _ => []) = [49, 57, 55, 48] := by decide +kernel

def tagKeysTexts (t : Tag) : List (String × List Str) := t.map fun f => (f.key, match f with | .text _ _ l => l | _ => [])

/-- both conversions are idempotent on it … -/
theorem update_idempotent_instance :
    tagKeysTexts (updateToV23 (updateToV23 demoTag)) = tagKeysTexts (updateToV23 demoTag) ∧
    tagKeysTexts (updateToV24 (updateToV24 demoTag)) = tagKeysTexts (updateToV24 demoTag) := by decide +kernel

/-- … but not in general: TCON "(1)17" becomes ["Classic Rock", "17"], and on the next call "17" is genre 17, "Rock" -/
theorem update_not_idempotent_tcon :
    textOf (updateToV24 [.text "TCON" 0 [[40, 49, 41, 49, 55]]]) "TCON" = [[67, 108, 97, 115, 115, 105, 99, 32, 82, 111, 99, 107], [49, 55]] ∧
    textOf (updateToV24 (updateToV24 [.text "TCON" 0 [[40, 49, 41, 49, 55]]])) "TCON" =
      [[67, 108, 97, 115, 115, 105, 99, 32, 82, 111, 99, 107], [82, 111, 99, 107]] := by decide +kernel

/-- `ID3TimeStamp`: text → fields → text -/
example : (parseStamp [50, 48, 50, 48, 45, 53, 45, 54, 84, 49, 50, 58, 48]).text =
    [50, 48, 50, 48, 45, 48, 53, 45, 48, 54, 32, 49, 50, 58, 48, 48] := by decide +kernel

end Mutagen.C13
