/-
Props/C07_Asf.lean — C07 "Saving unchanged tags twice gives byte-identical files", ASF files.
Model: Model/Container/Asf.lean; lemmas: Proofs/Container/Asf.lean.
-/
import MutagenModel.Proofs.Container.Asf
set_option linter.unusedVariables false
namespace Mutagen.C07
open Mutagen

/-! ## ASF -/

/-- two saves of the same tags through one `ASF` object with the default padding policy: the second
save (which works on the object tree the first one left, not on a re-read file) writes the file the
first one wrote, byte for byte (the File Size field included: both saves write the same file length) -/
theorem asf_save_twice_same_object (L : Asf.Layout) (h : L.OK) (tags : List Asf.Tag) (d : Asf.Dist)
    (hd : Asf.distribute tags = .ok d) (P : Asf.Payloads) (hP : Asf.Renders d P)
    (hf : L.Fits P (Asf.newPadding L P .default)) :
    ∃ out, Asf.saveTwice L.render tags .default tags .default = .ok (out, out) := by
  exact ⟨(L.after P (Asf.newPadding L P .default)).render,
    Asf.saveTwice_layout L h tags d hd P hP .default .default hf _ (Asf.default_again _ _) hf⟩

/-- … and the same through a reload: loading the saved file and saving the same tags again (default
padding) leaves it byte-identical -/
theorem asf_save_reload_idempotent (L : Asf.Layout) (h : L.OK) (tags : List Asf.Tag) (d : Asf.Dist)
    (hd : Asf.distribute tags = .ok d) (P : Asf.Payloads) (hP : Asf.Renders d P)
    (hf : L.Fits P (Asf.newPadding L P .default)) :
    ∃ out, Asf.save L.render tags .default = .ok out ∧ Asf.save out tags .default = .ok out := by
  exact ⟨(L.after P (Asf.newPadding L P .default)).render, (Asf.save_layout L h tags d hd P hP .default hf).2,
    Asf.save_after_save L h tags d hd P hP _ hf .default _ (Asf.default_again _ _) hf⟩

/-- whatever the first save's padding was: a second save whose callback returns the padding it is
offered leaves the file byte-identical -/
theorem asf_resave_keep_identical (L : Asf.Layout) (h : L.OK) (tags : List Asf.Tag) (d : Asf.Dist)
    (hd : Asf.distribute tags = .ok d) (P : Asf.Payloads) (hP : Asf.Renders d P) (p : Nat) (hf : L.Fits P p) :
    Asf.save (L.after P p).render tags (.callback fun offered _ => offered) = .ok (L.after P p).render := by
  exact Asf.save_after_save L h tags d hd P hP p hf _ p (by simp [getPadding]) hf

/-- "add missing objects" does nothing the second time -/
theorem asf_add_missing_idempotent (top : List Asf.Item) : Asf.addMissingI (Asf.addMissingI top) = Asf.addMissingI top :=
  Asf.addMissingI_idem top

/-- the hypotheses are satisfiable -/
example : Asf.exLayout.OK ∧ Asf.distribute Asf.exTags = .ok Asf.exDist ∧ Asf.Renders Asf.exDist Asf.exPayloads ∧
    Asf.exLayout.Fits Asf.exPayloads (Asf.newPadding Asf.exLayout Asf.exPayloads .default) := by
  refine ⟨by decide +kernel, by decide +kernel, by decide +kernel, by decide +kernel⟩

end Mutagen.C07
