/-
Props/C05_TrueAudio.lean — C05 "Stream information equals what the headers encode" for True Audio
(mutagen/trueaudio.py `TrueAudioInfo`).  Property theorems only; layout: Spec/Info/TrueAudio.lean,
parser: Model/Info/TrueAudio.lean.
-/
import MutagenModel.Proofs.Info.Common
import MutagenModel.Spec.Info.TrueAudio
set_option linter.unusedVariables false
namespace Mutagen.C05
open Mutagen Mutagen.Info Mutagen.Info.TrueAudio Mutagen.Spec.TrueAudio

/-- C05 for True Audio: for EVERY TTA1 header (any format / channel / bits word, any rate ≥ 1, any sample
count), behind any leading bytes `pre` whose length is passed as the offset (the ID3v2 tag) and followed by
anything, `TrueAudioInfo` reports the encoded rate and the duration `samples / rate`. -/
theorem tta_info_decodes (h : Fields) (ok : h.OK) (pre rest : Bytes) :
    parse (pre ++ (build h ++ rest)) pre.length = .ok (expected h) := by
  obtain ⟨hf, hc, hb, hr1, hr2, hs⟩ := ok
  have hlen : (readAt (pre ++ (build h ++ rest)) pre.length 18).length = 18 := by
    apply length_readAt_of_le
    simp [build, head, tta1]; omega
  have hmagic : startsWith (readAt (pre ++ (build h ++ rest)) pre.length 18) magic = true := by
    simp only [startsWith, readAt_readAt _ _ _ _ _ (show 0 + magic.length ≤ 18 by decide),
      readAt_append_length]
    rfl
  have hrate : uLE (readAt (pre ++ (build h ++ rest)) pre.length 18) 10 4 = h.rate := by
    simp only [uLE, readAt_readAt _ _ _ _ _ (show 10 + 4 ≤ 18 by decide), readAt_append_length_add]
    simp only [build, head, List.append_assoc, tta1]
    rd_simp
    exact ofLE_toLE 4 _ (by omega)
  have hsamples : uLE (readAt (pre ++ (build h ++ rest)) pre.length 18) 14 4 = h.samples := by
    simp only [uLE, readAt_readAt _ _ _ _ _ (show 14 + 4 ≤ 18 by decide), readAt_append_length_add]
    simp only [build, head, List.append_assoc, tta1]
    rd_simp
    exact ofLE_toLE 4 _ (by omega)
  have hrne : h.rate ≠ 0 := by omega
  unfold parse
  simp only [hlen, hrate, hsamples, expected]
  simp [hrne, hmagic]

/-- C04 side: on EVERY byte string and offset `TrueAudioInfo` either succeeds or raises a `MutagenError`
(`TrueAudioHeaderError`). -/
theorem tta_info_total (f : Bytes) (offset : Nat) : ∀ e, parse f offset = .error e → e = .mutagen := by
  intro e he
  unfold parse at he
  simp only at he
  split at he
  · cases he; rfl
  · cases he

/-! non-vacuity -/
example : parse (build { format := 1, channels := 2, bits := 16, rate := 44100, samples := 88200 }) =
    .ok { sampleRate := 44100, length := ⟨88200, 44100⟩ } := by decide +kernel

end Mutagen.C05
