/-
Props/C05_Instances.lean — the C05 decode theorems in the form the harness tests them (`infoa op=expect`): for every kind of
specification-built header, ONE decidable hypothesis `Spec.Hyp.…Hyp` of the fields and the bytes that follow implies that
the parser returns `…Expect` / `expected`.  The driver answers `hyp=1` exactly when `decide (…Hyp …)` is true, so every
hyp=1 answer is an instance of a theorem below, and the real code reporting anything else on that input violates C05.
-/
import MutagenModel.Spec.Info.Hyp
import MutagenModel.Props.C05_WavPack
import MutagenModel.Props.C05_MonkeysAudio
import MutagenModel.Props.C05_OptimFROG
import MutagenModel.Props.C05_TrueAudio
import MutagenModel.Props.C05_Tak
import MutagenModel.Props.C05_Musepack
import MutagenModel.Props.C05_Aac
import MutagenModel.Props.C05_Ac3
set_option linter.unusedVariables false
namespace Mutagen.C05
open Mutagen Mutagen.Info Mutagen.Spec.Hyp

/-- instance form of `wavpack_info_decodes_partial` -/
theorem wavpack_theorem_instance (h : Spec.WavPack.Fields) (rest : Bytes) (hyp : WavPackHyp h rest) :
    WavPack.parse (Spec.WavPack.build h ++ rest) = .ok (Spec.WavPack.expected h) :=
  wavpack_info_decodes_partial h hyp.1 hyp.2.1 hyp.2.2.1 rest hyp.2.2.2

/-- instance form of `ape_info_decodes_partial` -/
theorem ape_theorem_instance (h : Spec.MonkeysAudio.New) (rest : Bytes) (hyp : ApeHyp h) :
    MonkeysAudio.parse (h.build ++ rest) = .ok h.expected :=
  ape_info_decodes_partial h hyp.1 hyp.2 rest

/-- instance form of `apeold_info_decodes_partial`: the parameters the theorem asks for are read off the stored header -/
theorem apeold_theorem_instance (h : Spec.MonkeysAudio.Old) (rest : Bytes) (hyp : ApeOldHyp h) :
    MonkeysAudio.parse (h.build ++ rest) = .ok h.expected := by
  obtain ⟨ok, hpk, hsk, hc, hr, hn, hbr, hba, hw⟩ := hyp
  exact apeold_info_decodes_partial h ok rest hpk hsk _ _ _ _ _ _ hc hr hn hbr hba hw

/-- instance form of `ofr_info_decodes` -/
theorem ofr_theorem_instance (h : Spec.OptimFROG.Fields) (rest : Bytes) (hyp : OfrHyp h rest) :
    OptimFROG.parse (Spec.OptimFROG.build h ++ rest) = .ok (Spec.OptimFROG.expected h) :=
  ofr_info_decodes h hyp.1 rest hyp.2

/-- instance form of `tta_info_decodes` -/
theorem tta_theorem_instance (h : Spec.TrueAudio.Fields) (pre rest : Bytes) (hyp : TtaHyp h) :
    TrueAudio.parse (pre ++ (Spec.TrueAudio.build h ++ rest)) pre.length = .ok (Spec.TrueAudio.expected h) :=
  tta_info_decodes h hyp pre rest

/-- instance form of `tak_info_decodes` -/
theorem tak_theorem_instance (h : Spec.Tak.Fields) (rest : Bytes) (hyp : TakHyp h) :
    Tak.parse (Spec.Tak.build h ++ rest) = .ok (Spec.Tak.expected h) :=
  tak_info_decodes h hyp rest

/-- instance form of `mpc_sv7_info_decodes_partial` -/
theorem mpc_sv7_theorem_instance (h : Spec.Musepack.Sv7) (rest : Bytes) (hyp : Mpc7Hyp h rest) :
    Musepack.parse (h.build ++ rest) = .ok (mpc7Expect h rest) :=
  mpc_sv7_info_decodes_partial h hyp.1 hyp.2.1 rest hyp.2.2

/-- instance form of `mpc_sv8_info_decodes` -/
theorem mpc_sv8_theorem_instance (h : Spec.Musepack.Sv8) (rest : Bytes) (hyp : Mpc8Hyp h rest) :
    Musepack.parse (h.build ++ rest) = .ok (mpc8Expect h rest) :=
  mpc_sv8_info_decodes h hyp.1 rest hyp.2.1 hyp.2.2

/-- instance form of `aac_adts_info_decodes_partial` / `aac_adts_info_decodes_long_partial` -/
theorem adts_theorem_instance (h : Spec.Aac.Adts) (rest : Bytes) (hyp : AdtsHyp h rest) :
    Aac.parse (Spec.Aac.build h ++ rest) = .ok (adtsExpect h) := by
  obtain ⟨ok, hcc, hr⟩ := hyp
  subst hr
  rw [List.append_nil]
  unfold adtsExpect
  by_cases h100 : h.frames.length ≤ 100
  · rw [if_pos h100]; exact aac_adts_info_decodes_partial h ok hcc h100
  · rw [if_neg h100]; exact aac_adts_info_decodes_long_partial h ok hcc (by omega)

/-- instance form of `aac_adif_info_decodes_partial` -/
theorem adif_theorem_instance (h : Spec.Aac.Adif) (rest : Bytes) (hyp : AdifHyp h rest) :
    Aac.parse (h.build ++ rest) = .ok h.expected := by
  obtain ⟨ok, hb, hr⟩ := hyp
  subst hr
  rw [List.append_nil]
  exact aac_adif_info_decodes_partial h ok hb

/-- instance form of `ac3_info_decodes_partial` -/
theorem ac3_theorem_instance (h : Spec.Ac3.Ac3) (rest : Bytes) (hyp : Ac3Hyp h rest) :
    Ac3.parse (h.build ++ rest) = .ok h.expected := by
  obtain ⟨ok, htc, hr⟩ := hyp
  subst hr
  rw [List.append_nil]
  exact ac3_info_decodes_partial h ok htc

/-- instance form of `eac3_info_decodes_partial` -/
theorem eac3_theorem_instance (h : Spec.Ac3.Eac3) (rest : Bytes) (hyp : Eac3Hyp h rest) :
    Ac3.parse (h.build ++ rest) = .ok h.expected := by
  obtain ⟨ok, hs, hr⟩ := hyp
  subst hr
  rw [List.append_nil]
  exact eac3_info_decodes_partial h ok hs

end Mutagen.C05
