/-
Props/C01_Flac.lean — C01 "Saved tags read back exactly" for FLAC files, composed from the pieces: the
Vorbis comment codec (Model/Vorbis.lean: `encode` = VComment.write, `decode` = the strict decoder written
from the specification), FLAC._save on the file (Model/Container/Flac.lean: `saveM`), the strict block
walker `walk`, and VComment.load at byte level (`OggInj.loadVC`: VCFLACDict inherits it and calls it with
framing=False).  Lemmas: Proofs/Container/FlacRead.lean.

The block list handed to `_save` is `withComment before vc behind`: any blocks, the VORBIS_COMMENT block
(code 4) whose payload `vc` is what `VCFLACDict.write()` returns — `Vorbis.encode vendor cs false`, no
framing bit — and any more blocks; none of the others has code 4 (mutagen keeps one VCFLACDict, a second
one in a file is an error at load).  Comments are (key, value) byte strings; UTF-8 is the separate layer of
`vorbis_roundtrip` (Props/C01.lean).
-/
import MutagenModel.Proofs.Container.FlacRead
set_option linter.unusedVariables false
namespace Mutagen.C01
open Mutagen Mutagen.FlacC

/-! ## FLAC: what was saved is what is read -/

/-- save with a comment list, then read independently: on a well-formed FLAC file (`Good`: no ID3 in
front, at least one block, block sizes in range), for any vendor string and comment list the codec can
encode whose rendering fits a block, `FLAC._save` succeeds on the file; the strict block walker accepts the
written bytes and finds exactly one VORBIS_COMMENT block; its payload is exactly the rendered comment — no
framing bit behind it (`encode … true` would be that payload plus one byte) — and the strict Vorbis-comment
decoder turns the payload back into the vendor string and the list -/
theorem flac_saved_comment_reads_back (B : Nat) (hB : 0 < B) (L : Layout) (hL : Good L) (before behind : List Block)
    (vendor : Bytes) (cs : List (Bytes × Bytes)) (hv : vendor.length < 256 ^ 4) (hn : cs.length < 256 ^ 4)
    (hcs : ∀ kv ∈ cs, Vorbis.CommentOK kv)
    (hfit : (Vorbis.encode vendor cs false).length ≤ maxSize)
    (hb : ∀ b ∈ before ++ behind, b.code ≠ vcCode ∧ b.code < 127 ∧ b.data.length ≤ maxSize)
    (pad : PadChoice) (s : FS) (hs : s.data = render L) :
    ∃ s' L' vcb, saveM B L (withComment before (Vorbis.encode vendor cs false) behind) pad Env.clean s = (.ok (), s') ∧
      walk s'.data = some L' ∧
      L'.blocks.filter (·.code == vcCode) = [vcb] ∧
      vcb.data = Vorbis.encode vendor cs false ∧
      Vorbis.encode vendor cs true = vcb.data ++ [1] ∧
      Vorbis.decode vcb.data false = some (vendor, cs) := by
  obtain ⟨s', L', h1, h2, h3⟩ := save_comment_walk B hB L hL before behind _ hfit hb pad s hs
  refine ⟨s', L', _, h1, h2, h3, rfl, ?_, ?_⟩
  · simp [Vorbis.encode]
  · have := Vorbis.decode_encode vendor cs false [] hv hn hcs
    simpa using this

/-- mutagen's own reader on that payload: `VCFLACDict.load` = `VComment.load(framing=False)` returns the
vendor string and every comment (keys valid: others are dropped on load), nothing left over -/
theorem flac_saved_comment_loads (vendor : Bytes) (cs : List (Bytes × Bytes)) (hv : vendor.length < 256 ^ 4)
    (hn : cs.length < 256 ^ 4) (hcs : ∀ kv ∈ cs, Vorbis.CommentOK kv ∧ OggInj.validKey kv.1 = true) :
    OggInj.loadVC (Vorbis.encode vendor cs false) false = .ok (vendor, cs, []) := by
  have := OggInj.loadVC_encode vendor cs false [] hv hn hcs
  simpa using this

/-- delete: `FLAC.delete` saves the blocks without the comment block — the walker finds no
VORBIS_COMMENT block in the result -/
theorem flac_delete_reads_back_none (L : Layout) (blocks : List Block) (hL : Good L)
    (h : ∀ b ∈ blocks, b.code < 127 ∧ b.data.length ≤ maxSize) :
    ∃ L', walk (render (mdelete L blocks)) = some L' ∧ L'.blocks.filter (·.code == vcCode) = [] := by
  have hg : Good (mdelete L blocks) := msave_good L hL _ _ (fun b hb => h b (List.mem_filter.mp hb).1)
  refine ⟨_, walk_render _ hg.pre hg.ne hg.blocksOk, ?_⟩
  rw [mdelete_blocks]
  simp only [delBlocks, List.filter_append, List.filter_eq_nil_iff, List.append_eq_nil_iff, List.mem_filter]
  refine ⟨?_, by simp [vcCode, padCode]⟩
  intro b hb
  have := hb.2
  simp only [keep, Bool.and_eq_true, bne_iff_ne, ne_eq] at this
  simp [this.1]

/-! non-vacuity -/

/-- a whole instance, computed: a FLAC file with a 34-byte STREAMINFO block and three bytes of audio; save
STREAMINFO plus the comment vendor "Xi", A=b with a padding answer of 2; walk the written bytes, take the
VORBIS_COMMENT blocks and decode — one block, vendor and comment as saved -/
example :
    ((walk (render (msave { pre := [], blocks := [{ code := 0, data := zeros 34 }], audio := [0xFF, 0xF8, 0x00] }
        (withComment [{ code := 0, data := zeros 34 }] (Vorbis.encode [0x58, 0x69] [([0x41], [0x62])] false) [])
        false (.callback fun _ _ => 2)))).bind fun L' =>
      (L'.blocks.filter (·.code == vcCode)).head?.bind fun b =>
        (Vorbis.decode b.data false).map fun r => ((L'.blocks.filter (·.code == vcCode)).length, r)) =
    some (1, ([0x58, 0x69] : Bytes), [(([0x41] : Bytes), ([0x62] : Bytes))]) := by
  decide +kernel

end Mutagen.C01
