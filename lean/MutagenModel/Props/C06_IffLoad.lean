/-
Props/C06_IffLoad.lean — C06 for LOADING the ID3 chunk of AIFF / WAVE / DSDIFF files: the program `Iff.loadM`
(Model/Container/IffLoadM.lean) makes every call `_IFFID3(fileobj)` / `_WaveID3(fileobj)` / `_DSDIFFID3(fileobj)` make on the
file object up to the ID3 header (verify_fileobj, root chunk, sub-chunk walk(s), the seek to the chunk data), driven by what the
reads return — on ANY byte string, in ANY fault environment (exceptions injected at any call, short reads of any size, at any
call index).
-/
import MutagenModel.Proofs.Container.IffLoad
set_option linter.unusedVariables false
namespace Mutagen.C06
open Mutagen

/-- refinement: without faults (`Quiet e`: no injected exception, no short read) `loadM` returns, for EVERY byte string and
every start position, exactly what the pure model computes from the bytes (`Iff.locate`, of the C04 closure: the offset of the
ID3 data, or MutagenError), and the file is unchanged -/
theorem iff_loadM_refines {e : Env} (hq : Quiet e) (d : Iff.Dialect) (hd : d.WF) (s : FS) :
    ∃ s', Iff.loadM d e s = (Iff.loadPure d s.data, s') ∧ s'.data = s.data := by
  obtain ⟨s', h1, h2⟩ := Iff.loadM_q hq d hd s
  exact ⟨s', h2, h1⟩

/-- load never writes: whatever the environment does and however the call ends, the bytes are what they were -/
theorem iff_load_leaves_file_untouched (d : Iff.Dialect) (e : Env) (s s' : FS) (r : Except PyErr Nat)
    (h : Iff.loadEntry d e s = (r, s')) : s'.data = s.data :=
  Iff.pres_loadEntry d e s r s' h

/-- under ARBITRARY injected exceptions and short reads the entry point (`@convert_error(IOError, error)`) lets out: the
module's `error` (a MutagenError) — or a non-I/O exception, which is either one the environment injected itself or the
ValueError `verify_fileobj` makes of a failing `read(0)` (the recorded finding of C06).  In particular the sub-chunk loop
always ends (no `diverge`), and a short read never produces struct.error, EOFError or IndexError: every read result is
length-checked (`EmptyChunk`) or used as it is (the container name). -/
theorem iff_load_raises_only (d : Iff.Dialect) :
    Raises (fun e x => x = .mutagen ∨ ((x = .value ∨ Iff.LoadErr e x) ∧ x.isIO = false)) (Iff.loadEntry d) :=
  Raises.convertError PyErr.isIO .mutagen (Iff.raises_loadM d)

/-- with I/O faults only (every injected exception is an IOError) and any short reads: MutagenError or ValueError -/
theorem iff_load_io_faults (d : Iff.Dialect) (e : Env) (hio : ∀ i x, e.failAt i = some x → x.isIO = true) (s s' : FS) (x : PyErr)
    (h : Iff.loadEntry d e s = (.error x, s')) : x = .mutagen ∨ x = .value := by
  rcases iff_load_raises_only d e s x s' h with h1 | ⟨h2, hn⟩
  · exact Or.inl h1
  · rcases h2 with h2 | h2 | ⟨i, hi⟩
    · exact Or.inr h2
    · exact Or.inl h2
    · have := hio i x hi; rw [this] at hn; cases hn

/-- "a short read is taken for the end of the file", exactly: a chunk-header read (`read(HEADER_SIZE)` in `IffChunk.parse`)
that returns fewer bytes than asked — any number, at the root chunk or at any sub-chunk — raises nothing: it is an
`EmptyChunk`.  At a sub-chunk the walk ends there silently: chunks behind it — the ID3 chunk among them — do not exist for
this load ("No ID3 chunk": the file loads as untagged, a later save appends a second ID3 chunk).  At the root chunk it is
ID3NoHeaderError.  The other reads: `read(0)` of verify_fileobj returns nothing anyway; a short container name (`read(4)`)
is decoded as it is (for WAVE the form type is then not "WAVE": `error`). -/
theorem iff_short_header_read_is_end_of_chunks (d : Iff.Dialect) (e : Env) (s : FS) (k : Nat) (hf : e.failAt s.ops = none)
    (hk : e.shortAt s.ops = some k) (hlt : k < Iff.hs d) : ∃ s', Iff.parseChunkM d e s = (.ok none, s') :=
  Iff.parseChunkM_short d e s k hf hk hlt

/-- the finding of that family on a concrete file: AIFF "AIFF" with an SSND chunk (2 bytes) and an ID3 chunk behind it.
Clean: the ID3 data is found at offset 30.  The read at call index 11 is the header read of the ID3 chunk: returning 7 of
the 8 bytes — or 0 — makes the load end in "No ID3 chunk" (MutagenError; `AIFF(fileobj)` then has `tags = None`), the file
untouched; an IOError there is a MutagenError, too. -/
example :
    let f : Bytes := [0x46, 0x4F, 0x52, 0x4D, 0, 0, 0, 0x20, 0x41, 0x49, 0x46, 0x46] ++ [0x53, 0x53, 0x4E, 0x44, 0, 0, 0, 2, 9, 9] ++
      [0x49, 0x44, 0x33, 0x20, 0, 0, 0, 10, 0x49, 0x44, 0x33, 4, 0, 0, 0, 0, 0, 0]
    (Iff.loadEntry Iff.aiff Env.clean { data := f }).1 = .ok 30 ∧
    (Iff.loadEntry Iff.aiff { shortAt := fun i => if i = 11 then some 7 else none } { data := f }).1 = .error .mutagen ∧
    (Iff.loadEntry Iff.aiff { shortAt := fun i => if i = 11 then some 0 else none } { data := f }).1 = .error .mutagen ∧
    (Iff.loadEntry Iff.aiff { shortAt := fun i => if i = 11 then some 0 else none } { data := f }).2.data = f ∧
    (Iff.loadEntry Iff.aiff { failAt := fun i => if i = 11 then some .io else none } { data := f }).1 = .error .mutagen ∧
    (Iff.loadEntry Iff.aiff { failAt := fun i => if i = 0 then some .io else none } { data := f }).1 = .error .value := by
  decide +kernel

/-- the parsing that `saveM` / `deleteM` (Model/Container/IffM.lean) summarise by the layout: on a well-formed file and a
quiet device the result-driven parser of this file returns exactly the values those programs take from the layout — the
root's `data_size` and the sub-chunk list with its offsets — and leaves the bytes alone.  (That the two issue the same
calls is checked by the ties: both call logs are compared with the real one.) -/
theorem iff_parse_matches_summary {e : Env} (hq : Quiet e) (d : Iff.Dialect) (hd : d.WF) (L : Iff.Layout) (h : L.OK d)
    (s : FS) (hsd : s.data = L.render d) :
    ∃ s1 s2, Iff.rootParseM d e s = (.ok (Iff.nameSize + (Iff.renderChunks d L.chunks).length), s1) ∧
      Iff.subchunksWalkM d (Iff.nameSize + (Iff.renderChunks d L.chunks).length) e s1 =
        (.ok (Iff.recsOf d (Iff.hs d + 4) L.chunks), s2) ∧ s2.data = s.data := by
  have hall : ∀ c ∈ L.chunks, c.OK d := by
    intro c hc
    simp only [Iff.Layout.chunks, List.mem_append, Option.mem_toList] at hc
    rcases hc with (hc | hc) | hc
    · exact (h.before c hc).1
    · exact (h.id3 c hc).1
    · exact h.after c hc
  obtain ⟨s1, d1, h1⟩ := Iff.rootParseM_q hq d hd s
  obtain ⟨s2, d2, h2⟩ := Iff.subchunksWalkM_q hq d (Iff.nameSize + (Iff.renderChunks d L.chunks).length) s1
  have hroot := Iff.parseRoot_render d hd L.formType h.name L.chunks (by rw [h.name.1]; exact h.size)
  have hwalk := Iff.walk_render d hd L.formType h.name.1 L.chunks hall
  rw [h.name.1] at hroot hwalk
  refine ⟨s1, s2, ?_, ?_, by rw [d2, d1]⟩
  · rw [h1, hsd]; exact congrArg (fun x => (x, s1)) hroot
  · rw [h2, d1, hsd]; exact congrArg (fun x => (x, s2)) hwalk

end Mutagen.C06
