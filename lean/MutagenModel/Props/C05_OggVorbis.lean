/-
Props/C05_OggVorbis.lean — C05 for Ogg Vorbis (`mutagen.oggvorbis.OggVorbisInfo`: `__init__` and
`_post_tags`, with `OggPage.find_last`).  Property theorems only.  Code side: Model/Info/OggCommon.lean,
Model/Info/OggCodecs.lean; specification side: Spec/Info/OggStream.lean, Spec/Info/OggCodecs.lean.
-/
import MutagenModel.Proofs.Info.OggCodecs
set_option linter.unusedVariables false
namespace Mutagen.C05
open Mutagen Mutagen.Ogg Mutagen.Info Mutagen.Spec Mutagen.Spec.OggS

/-- C05 for Ogg Vorbis: for every identification header Vorbis I allows (1…255 channels, any 32-bit
sample rate ≥ 1, any three signed 32-bit bitrate hints, any block sizes) in a stream with any serial
number, any bytes between the first and the last page, and a last page with any granule position below
2^63 and any packets in which "OggS" does not occur, the reported channels, sample rate, bitrate
(`Spec.Vorbis.bitrate`) and length (final granule position / sample rate) are the encoded ones. -/
theorem oggvorbis_info_decodes (h : Vorbis.Fields) (ok : h.OK) :
    Info.Vorbis.parse (Vorbis.build h) = .ok (Vorbis.expected h) :=
  Info.Vorbis.parse_build h ok

/-- with a nominal bitrate that is set and lies within the limits that are set, the reported bitrate is
the nominal one -/
theorem oggvorbis_bitrate_nominal (h : Vorbis.Fields) (hn : 0 < h.bitrateNominal)
    (hmx : h.bitrateMaximum ≤ 0 ∨ h.bitrateNominal ≤ h.bitrateMaximum)
    (hmn : h.bitrateMinimum ≤ 0 ∨ h.bitrateMinimum ≤ h.bitrateNominal) :
    (Vorbis.expected h).bitrate = h.bitrateNominal := by
  simp only [Vorbis.expected, Vorbis.bitrate]
  have e1 : max 0 h.bitrateNominal = h.bitrateNominal := by omega
  rw [e1]
  rw [if_neg (by omega)]
  split
  · omega
  · split
    · omega
    · rfl

/-- C04 side: on EVERY byte string, `OggVorbisInfo(fileobj)` + `_post_tags(fileobj)` under the handlers of
`OggFileType.load` returns or raises the format's error (without the handlers: `error` or EOFError,
`oggvorbis_info_raw_classes`) -/
theorem oggvorbis_info_total (f : Bytes) : ∀ e, Info.Vorbis.parse f = .error e → e = .mutagen :=
  loadWrap_clean _ (fun e h => Info.Vorbis.raw_classes f e h)

theorem oggvorbis_info_raw_classes (f : Bytes) : ∀ e, Info.Vorbis.raw f = .error e → e = .mutagen ∨ e = .eof :=
  fun e h => Info.Vorbis.raw_classes f e h

/-- Why `Container.OK` asks that "OggS" does not occur inside the last page: `find_last` looks at the
last "OggS" of the file first and believes what it finds there.  A 44100 Hz stream whose last page
(granule position 44100: one second) carries a packet that contains the bytes of a page header with
the same serial number, the end-of-stream flag and granule position 441000 is reported as ten seconds
long. -/
def falseSyncWitness : Vorbis.Fields :=
  { channels := 2, rate := 44100, bitrateMaximum := 0, bitrateNominal := 128000, bitrateMinimum := 0,
    blocksize0 := 8, blocksize1 := 11,
    stream := { serial := 7, middle := [], lastSeq := 1, lastGranule := 44100,
                lastPackets := [renderB { packets := [[0x71]], last := true, serial := 7, sequence := 9, position := 441000 }] } }

theorem ogg_false_sync_witness :
    (Info.Vorbis.parse (Vorbis.build falseSyncWitness)).toOption.map (·.length) =
      some (.div (.int 441000) (.flt (.nat 44100))) ∧
    (Vorbis.expected falseSyncWitness).length = .div (.int 44100) (.flt (.nat 44100)) := by
  decide +kernel

/-! non-vacuity -/
example : ({ channels := 2, rate := 44100, bitrateMaximum := 0, bitrateNominal := 128000, bitrateMinimum := 0,
             blocksize0 := 8, blocksize1 := 11,
             stream := { serial := 0x1234, middle := [1, 2, 3], lastSeq := 5, lastGranule := 441000,
                         lastPackets := [[0, 1, 2], [3]] } } : Vorbis.Fields).OK := by
  decide +kernel

end Mutagen.C05
