/-
Props/C08_Dsf.lean — C08 "Delete removes the whole tag region; deleting again changes nothing; new tags can be saved afterwards" for DSF files
`[DSD chunk][fmt chunk][data chunk][ID3 tag?]` (mutagen/dsf.py; model: Model/Container/Dsf.lean).
-/
import MutagenModel.Proofs.Container.Dsf
set_option linter.unusedVariables false
namespace Mutagen.C08
open Mutagen

/-! ## DSF files: `[DSD chunk][fmt chunk][data chunk][ID3 tag?]` -/

/-- DSF delete removes the whole tag region: what is left is exactly the DSD chunk with pointer 0 and a
total size equal to the end of the data chunk, the fmt chunk and the data chunk — no header, no
padding, nothing behind the audio -/
theorem dsf_delete_leaves_chunks (L : Dsf.Layout) (h : L.OK) :
    Dsf.delete L.render = .ok (Dsf.dsdChunk L.tagPos 0 ++ L.fmt ++ L.data) := by
  rw [Dsf.delete_layout L h]
  simp [Dsf.Layout.render, Dsf.Layout.total, Dsf.Layout.pointer]

/-- deleting again changes nothing -/
theorem dsf_delete_idempotent (L : Dsf.Layout) (h : L.OK) :
    Dsf.delete (Dsf.dsdChunk L.tagPos 0 ++ L.fmt ++ L.data) = .ok (Dsf.dsdChunk L.tagPos 0 ++ L.fmt ++ L.data) := by
  have h1 := Dsf.delete_layout _ (Dsf.without_ok L h)
  have e : (L.withTag []).render = Dsf.dsdChunk L.tagPos 0 ++ L.fmt ++ L.data := by
    simp [Dsf.Layout.render, Dsf.Layout.total, Dsf.Layout.pointer]
  rw [Dsf.withTag_withTag, e] at h1
  exact h1

/-- new tags can be saved after a delete: the tag lands behind the data chunk, the pointer points to it
and the total size covers it; fmt and data chunk are the same -/
theorem dsf_retag_after_delete (L : Dsf.Layout) (h : L.OK) (vmaj : Nat) (hvm : vmaj = 3 ∨ vmaj = 4) (frames : Bytes)
    (pad : PadChoice) (p : Nat)
    (hp : getPadding pad ((0 : Int) - (frames.length + 10 : Nat)) 0 = p) (hfit : frames.length + p < 2 ^ 28) :
    ∃ hd, Id3F.header vmaj (frames.length + p) = .ok hd ∧
      Dsf.save (Dsf.dsdChunk L.tagPos 0 ++ L.fmt ++ L.data) vmaj frames pad =
        .ok (Dsf.dsdChunk (L.tagPos + (10 + frames.length + p)) L.tagPos ++ L.fmt ++ L.data ++ (hd ++ frames ++ zeros p)) := by
  obtain ⟨hd, hh, hd10, hs⟩ := Dsf.save_layout _ (Dsf.without_ok L h) vmaj hvm frames pad p (by simpa using hp) hfit
  refine ⟨hd, hh, ?_⟩
  have e : (L.withTag []).render = Dsf.dsdChunk L.tagPos 0 ++ L.fmt ++ L.data := by
    simp [Dsf.Layout.render, Dsf.Layout.total, Dsf.Layout.pointer]
  have hl : (hd ++ frames ++ zeros p).length = 10 + frames.length + p := by simp [hd10]; omega
  have hne : hd ++ frames ++ zeros p ≠ [] := by
    intro e; have := congrArg List.length e; rw [hl] at this; simp at this
  rw [e, Dsf.withTag_withTag] at hs
  rw [hs]
  simp only [Dsf.Layout.render, Dsf.total_withTag, Dsf.pointer_withTag L _ hne, hl, Dsf.fmt_withTag, Dsf.data_withTag, Dsf.tag_withTag]

/-- the layout hypothesis is satisfiable, and a retag with the default policy (1024 bytes for a new tag
behind nothing) meets the numeric ones -/
example : Dsf.exampleLayout.OK ∧ getPadding .default ((0 : Int) - (2 + 10 : Nat)) 0 = (1024 : Nat) :=
  ⟨Dsf.exampleLayout_ok, by decide +kernel⟩

end Mutagen.C08
