/-
Props/C17.lean — C17 "Any conforming file object works exactly like a filename".
What a theorem can carry here is the argument logic of loadfile/_openfile (who opens, who
closes, which error for which misuse) and, by construction of the effect language, that every
modelled FileM program touches a file only through read/seek/tell/write/truncate/flush.
Format code that is not modelled is observed on the real objects (see the evidence file).
-/
import MutagenModel.Model.OpenFile
import MutagenModel.Proofs.Raises
set_option linter.unusedVariables false
namespace Mutagen.C17
open Mutagen Mutagen.OpenFile

/-- mutagen closes exactly the handles it opened itself: a caller-supplied object — passed
positionally, by `fileobj=`, or inside a FileThing — is never closed -/
theorem owner_only_closes (a : Args) (p : Plan) (h : resolve a = .ok p) :
    p.closes = true ↔ (∃ path mode c, p = .openPath path mode c) := by
  cases p with
  | useCaller id n => simp [Plan.closes]
  | openPath path mode c => simp [Plan.closes]

/-- a caller-supplied object is used whenever one is given, whatever else is passed (a `filename=` whose
__fspath__() returns a non-path is the TypeError of `misuse_errors`) -/
theorem caller_object_wins (a : Args) (id : Nat) (r w : Bool) (h : a.filething = .fileobj id r w)
    (hr : r = true) (hw : a.writable = true → w = true) (hk : ∀ pa, a.filenameKw = some pa → pa ≠ .pathLike none) :
    ∃ n, resolve a = .ok (.useCaller id n) := by
  unfold resolve
  simp only [h]
  cases hf : a.filenameKw with
  | none =>
    by_cases hwr : a.writable = true
    · simp [hwr, hw hwr, hr]
    · simp [hwr, hr]
  | some pa =>
    have := hk pa hf
    cases pa with
    | plain p =>
      by_cases hwr : a.writable = true
      · simp [PathArg.fspath, Except.map, hwr, hw hwr, hr]
      · simp [PathArg.fspath, Except.map, hwr, hr]
    | pathLike q =>
      cases q with
      | none => exact absurd rfl this
      | some p =>
        by_cases hwr : a.writable = true
        · simp [PathArg.fspath, Except.map, hwr, hw hwr, hr]
        · simp [PathArg.fspath, Except.map, hwr, hr]

/-- the same object passed by keyword behaves like the positional form -/
theorem keyword_equals_positional (a : Args) (id : Nat) (r w : Bool) (hn : a.filething = .none)
    (hk : a.fileobjKw = some (id, r, w)) :
    resolve a = resolve { a with filething := .fileobj id r w, fileobjKw := none } := by
  unfold resolve
  simp [hn, hk]

/-- a path, a path given as `filename=`, a path-like object and a path-like object given as `filename=`
resolve to the same plan -/
theorem path_forms_agree (a : Args) (p : String) (hk : a.fileobjKw = none) (hf : a.filenameKw = none) :
    resolve { a with filething := .path p } = resolve { a with filething := .pathLike (some p) } ∧
    resolve { a with filething := .path p } = resolve { a with filething := .none, filenameKw := some (.plain p) } ∧
    resolve { a with filething := .path p } = resolve { a with filething := .none, filenameKw := some (.pathLike (some p)) } := by
  unfold resolve
  simp [hk, PathArg.fspath, Except.map]

/-- next to any positional argument, `filename=` given as a path-like object counts like the plain path -/
theorem filename_kw_forms_agree (a : Args) (p : String) :
    resolve { a with filenameKw := some (.plain p) } = resolve { a with filenameKw := some (.pathLike (some p)) } := by
  unfold resolve
  cases a.filething <;> simp [PathArg.fspath, Except.map]

/-- nothing usable passed: TypeError; an object that cannot be read (or written when needed): ValueError;
a path-like whose __fspath__() gives no path, positionally or by keyword: TypeError -/
theorem misuse_errors (a : Args) :
    (a.filething = .none → a.filenameKw = none → a.fileobjKw = none → (a.isMethod && a.writable) = false →
      resolve a = .error .type_) ∧
    (∀ id w, a.filething = .fileobj id false w → (∀ pa, a.filenameKw = some pa → pa ≠ .pathLike none) → resolve a = .error .value) ∧
    (a.filething = .pathLike none → resolve a = .error .type_) ∧
    (a.filething = .none → a.filenameKw = some (.pathLike none) → resolve a = .error .type_) := by
  refine ⟨?_, ?_, ?_, ?_⟩
  · intro h1 h2 h3 h4
    unfold resolve
    simp [h1, h2, h3, h4]
  · intro id w h hk
    unfold resolve
    simp only [h]
    cases hf : a.filenameKw with
    | none => simp
    | some pa =>
      have := hk pa hf
      cases pa with
      | plain p => simp [PathArg.fspath, Except.map]
      | pathLike q => cases q with
        | none => exact absurd rfl this
        | some p => simp [PathArg.fspath, Except.map]
  · intro h; unfold resolve; simp [h, PathArg.fspath, Except.map]
  · intro h h2; unfold resolve; simp [h, h2, PathArg.fspath, Except.map]
/-- the modelled programs use the file only through the six documented calls: every entry of
the call log is one of them (the log type has no other constructor), and their exceptions are
those of these calls -/
theorem only_documented_calls (o : Op) :
    (∃ p, o = .seek p) ∨ o = .seekEnd ∨ o = .tell ∨ (∃ n, o = .read n) ∨ (∃ n, o = .write n) ∨
      (∃ n, o = .truncate n) ∨ o = .flush := by
  cases o <;> simp

/-! non-vacuity -/
example : resolve { filething := .path "a.mp3", writable := true } = .ok (.openPath "a.mp3" "rb+" false) := by decide
example : resolve { filenameKw := some (.pathLike (some "a.mp3")) } = .ok (.openPath "a.mp3" "rb" false) := by decide
example : resolve { filething := .fileobj 7 true false, writable := true } = .error .value := by decide

end Mutagen.C17
