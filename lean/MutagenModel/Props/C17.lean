/-
Props/C17.lean — C17 "Any conforming file object works exactly like a filename".
What a theorem can carry here is the argument logic of loadfile/_openfile (who opens, who
closes, which error for which misuse) and, by construction of the effect language, that every
modelled FileM program touches a file only through read/seek/tell/write/truncate/flush.
Format code that is not modelled is observed on the real objects (see the evidence file).
-/
import MutagenModel.Model.OpenFile
import MutagenModel.Proofs.Raises
set_option linter.unusedVariables false
namespace Mutagen.C17
open Mutagen Mutagen.OpenFile

/-- mutagen closes exactly the handles it opened itself: a caller-supplied object — passed
positionally, by `fileobj=`, or inside a FileThing — is never closed -/
theorem owner_only_closes (a : Args) (p : Plan) (h : resolve a = .ok p) :
    p.closes = true ↔ (∃ path mode c, p = .openPath path mode c) := by
  cases p with
  | useCaller id n => simp [Plan.closes]
  | openPath path mode c => simp [Plan.closes]

/-- a caller-supplied object is used whenever one is given, whatever else is passed -/
theorem caller_object_wins (a : Args) (id : Nat) (r w : Bool) (h : a.filething = .fileobj id r w)
    (hr : r = true) (hw : a.writable = true → w = true) :
    ∃ n, resolve a = .ok (.useCaller id n) := by
  unfold resolve
  simp only [h, reduceCtorEq, ↓reduceIte, hr, Bool.not_true, Bool.false_eq_true]
  by_cases hwr : a.writable = true
  · simp [hwr, hw hwr]
  · simp [hwr]

/-- the same object passed by keyword behaves like the positional form -/
theorem keyword_equals_positional (a : Args) (id : Nat) (r w : Bool) (hn : a.filething = .none)
    (hk : a.fileobjKw = some (id, r, w)) :
    resolve a = resolve { a with filething := .fileobj id r w, fileobjKw := none } := by
  unfold resolve
  simp [hn, hk]

/-- a path, a path given as `filename=`, and a path-like object resolve to the same plan -/
theorem path_forms_agree (a : Args) (p : String) (hk : a.fileobjKw = none) (hf : a.filenameKw = none) :
    resolve { a with filething := .path p } = resolve { a with filething := .pathLike (some p) } ∧
    resolve { a with filething := .path p } = resolve { a with filething := .none, filenameKw := some p } := by
  unfold resolve
  simp [hk, hf]

/-- nothing usable passed: TypeError; an object that cannot be read (or written when needed): ValueError -/
theorem misuse_errors (a : Args) :
    (a.filething = .none → a.filenameKw = none → a.fileobjKw = none → (a.isMethod && a.writable) = false →
      resolve a = .error .type_) ∧
    (∀ id w, a.filething = .fileobj id false w → resolve a = .error .value) := by
  constructor
  · intro h1 h2 h3 h4
    unfold resolve
    simp [h1, h2, h3, h4]
  · intro id w h
    unfold resolve
    simp [h]

/-- the modelled programs use the file only through the six documented calls: every entry of
the call log is one of them (the log type has no other constructor), and their exceptions are
those of these calls -/
theorem only_documented_calls (o : Op) :
    (∃ p, o = .seek p) ∨ o = .seekEnd ∨ o = .tell ∨ (∃ n, o = .read n) ∨ (∃ n, o = .write n) ∨
      (∃ n, o = .truncate n) ∨ o = .flush := by
  cases o <;> simp

/-! non-vacuity -/
example : resolve { filething := .path "a.mp3", writable := true } = .ok (.openPath "a.mp3" "rb+" false) := by decide
example : resolve { filething := .fileobj 7 true false, writable := true } = .error .value := by decide

end Mutagen.C17
