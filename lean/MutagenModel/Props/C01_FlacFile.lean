/-
Props/C01_FlacFile.lean — C01 at the FLAC file level, composed from the pieces: `FLAC._save` as a program over the file
object (Model/Container/Flac.lean `saveM`), the strict metadata block walker (`FlacC.walk`), the Vorbis comment codec
(Props/C01.lean `vorbisEncode` / `vorbisDecode`) and the block classes (Model/FlacBlocks.lean).
-/
import MutagenModel.Props.C01
import MutagenModel.Props.C01_FlacBlocks
import MutagenModel.Proofs.Container.Flac
set_option linter.unusedVariables false
namespace Mutagen.C01
open Mutagen

/-- every block handed to `FLAC._save` that is not padding is found by the strict walker in the saved file — same code,
same bytes, same order — followed by exactly one padding block -/
theorem flac_saved_blocks_kept (B : Nat) (hB : 0 < B) (L : FlacC.Layout) (hL : FlacC.Good L) (blocks : List FlacC.Block)
    (pad : PadChoice) (h : ∀ b ∈ blocks, b.code < 127 ∧ b.data.length ≤ FlacC.maxSize) (s : FS) (hs : s.data = FlacC.render L) :
    ∃ s' L', FlacC.saveM B L blocks pad Env.clean s = (.ok (), s') ∧ FlacC.walk s'.data = some L' ∧
      L'.blocks.filter (·.code != FlacC.padCode) = blocks.filter (·.code != FlacC.padCode) ∧ L'.audio = L.audio := by
  obtain ⟨s', hr, hd⟩ := FlacC.saveM_clean B hB L blocks pad (fun b hb => (h b hb).2) s hs
  have hg := FlacC.msave_good L hL blocks pad h
  refine ⟨s', FlacC.msave L blocks false pad, hr, ?_, ?_, rfl⟩
  · rw [hd]; exact FlacC.walk_render _ hg.pre hg.ne hg.blocksOk
  · simp [FlacC.msave, FlacC.newBlocks, FlacC.padCode]

/-- THE composition: save a FLAC file with a Vorbis comment block holding `vendor` and the comment list `cs` (any keys
without '=', any Unicode values, multi-valued keys, any order) among its blocks; the strict block walker finds a Vorbis
comment block in the saved file and the strict Vorbis decoder (no framing bit in FLAC) returns exactly `vendor` and `cs` -/
theorem flac_saved_comment_block_reads_back (B : Nat) (hB : 0 < B) (L : FlacC.Layout) (hL : FlacC.Good L) (blocks : List FlacC.Block)
    (pad : PadChoice) (h : ∀ b ∈ blocks, b.code < 127 ∧ b.data.length ≤ FlacC.maxSize)
    (vendor : List Nat) (cs : List Comment) (hv : ∀ x ∈ vendor, Utf8.Scalar x) (hvl : (Utf8.encode vendor).length < 256 ^ 4)
    (hn : cs.length < 256 ^ 4) (hc : ∀ c ∈ cs, CommentOK c)
    (hmem : (⟨FlacC.vcCode, vorbisEncode vendor cs false⟩ : FlacC.Block) ∈ blocks) (s : FS) (hs : s.data = FlacC.render L) :
    ∃ s' L' b, FlacC.saveM B L blocks pad Env.clean s = (.ok (), s') ∧ FlacC.walk s'.data = some L' ∧
      b ∈ L'.blocks ∧ b.code = FlacC.vcCode ∧ vorbisDecode b.data false = some (vendor, cs) := by
  obtain ⟨s', L', h1, h2, h3, _⟩ := flac_saved_blocks_kept B hB L hL blocks pad h s hs
  have hin : (⟨FlacC.vcCode, vorbisEncode vendor cs false⟩ : FlacC.Block) ∈ L'.blocks.filter (·.code != FlacC.padCode) := by
    rw [h3]; exact List.mem_filter.mpr ⟨hmem, by simp [FlacC.vcCode, FlacC.padCode]⟩
  refine ⟨s', L', _, h1, h2, (List.mem_filter.mp hin).1, rfl, ?_⟩
  have := vorbis_roundtrip vendor cs false [] hv hvl hn hc
  rw [List.append_nil] at this
  exact this

/-- … and a picture saved in a PICTURE block is found by the walker and read back by `Picture(data)` field for field -/
theorem flac_saved_picture_reads_back (B : Nat) (hB : 0 < B) (L : FlacC.Layout) (hL : FlacC.Good L) (blocks : List FlacC.Block)
    (pad : PadChoice) (h : ∀ b ∈ blocks, b.code < 127 ∧ b.data.length ≤ FlacC.maxSize)
    (p : FlacB.Picture) (hp : p.Fits) (hmem : (⟨6, FlacB.renderPicture p⟩ : FlacC.Block) ∈ blocks) (s : FS) (hs : s.data = FlacC.render L) :
    ∃ s' L' b, FlacC.saveM B L blocks pad Env.clean s = (.ok (), s') ∧ FlacC.walk s'.data = some L' ∧
      b ∈ L'.blocks ∧ b.code = 6 ∧ FlacB.writePicture p = .ok b.data ∧ FlacB.loadPicture b.data = .ok p := by
  obtain ⟨s', L', h1, h2, h3, _⟩ := flac_saved_blocks_kept B hB L hL blocks pad h s hs
  have hin : (⟨6, FlacB.renderPicture p⟩ : FlacC.Block) ∈ L'.blocks.filter (·.code != FlacC.padCode) := by
    rw [h3]; exact List.mem_filter.mpr ⟨hmem, by simp [FlacC.vcCode, FlacC.padCode]⟩
  exact ⟨s', L', _, h1, h2, (List.mem_filter.mp hin).1, rfl, FlacB.writePicture_eq p hp, FlacB.loadPicture_render p hp⟩

end Mutagen.C01
