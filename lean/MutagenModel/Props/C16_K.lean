/-
Props/C16_K.lean — C16 for tag objects whose value rule depends on the key (`KPolicy`,
Model/DictK.lean): the `DictMixin` theorems of Props/C16.lean once more, for stores that
refine a key-dependent policy (MP4Tags, EasyMP4Tags, EasyID3).  Property theorems only.

The reference operations that store a value (`KRef.set / update / setdefault`) consult
`P.coerce key value`; all others are the `Ref.*` of Model/Dict.lean under the key half
`P.keys` of the policy.  Order of lists, `popitem`, raising primitives: as in Props/C16.lean.
-/
import MutagenModel.Proofs.DictK
set_option linter.unusedVariables false
namespace Mutagen.C16
open Mutagen Mutagen.Dict

/-- `dictmixin_refines` for a key-dependent policy: if the four primitives refine the reference
dictionary, every `DictMixin` operation returns what the reference operation returns on `abs s`
(keys compared after normalisation, lists in the same order, `popitem` = the reference's first
entry), keeps the invariant and leaves a state that abstracts to the reference's new state. -/
theorem kdictmixin_refines {S K V : Type} [DecidableEq K] {m : MapImpl S K V} {P : KPolicy K V}
    {inv : S → Prop} {abs : S → RefDict K V} (h : KRefines m P inv abs) (s : S) (hs : inv s)
    (op : Op K V) :
    OutMatch P.keys (m.step s op).1 (KRef.step P (abs s) op).1 ∧ inv (m.step s op).2 ∧
      SameMap (abs (m.step s op).2) (KRef.step P (abs s) op).2 :=
  kstep_exact h s hs op

/-- `trace_equiv` for a key-dependent policy: the reference, started from any association list
that is the same dictionary as `abs s`, accepts the store's outputs operation by operation
(values, booleans, lengths, exception classes equal; key / value / item lists up to order with
keys normalised; `popitem` angelic). -/
theorem ktrace_equiv {S K V : Type} [DecidableEq K] {m : MapImpl S K V} {P : KPolicy K V}
    {inv : S → Prop} {abs : S → RefDict K V} (h : KRefines m P inv abs) (ops : List (Op K V)) (s : S)
    (r : RefDict K V) (hs : inv s) (hr : SameMap (abs s) r) (nr : NodupKeys r) :
    KAccepts P r ops (m.run ops s) :=
  ktrace_sim h ops s r hs hr nr

/-- without `popitem`: position by position against the deterministic reference run -/
theorem ktrace_equiv_det {S K V : Type} [DecidableEq K] {m : MapImpl S K V} {P : KPolicy K V}
    {inv : S → Prop} {abs : S → RefDict K V} (h : KRefines m P inv abs) (ops : List (Op K V)) (s : S)
    (hs : inv s) (hp : ∀ op ∈ ops, Op.isPopitem op = false) :
    OutsEquiv P.keys (m.run ops s) (KRef.run P ops (abs s)) :=
  ktrace_det h ops s (abs s) hs (SameMap.refl _) (h.nodup s hs) hp

/-- the invariant holds along every run -/
theorem kinvariant_along_run {S K V : Type} [DecidableEq K] {m : MapImpl S K V} {P : KPolicy K V}
    {inv : S → Prop} {abs : S → RefDict K V} (h : KRefines m P inv abs) (ops : List (Op K V)) (s : S)
    (hs : inv s) : inv (m.exec ops s) :=
  kexec_inv h ops s hs

/-- a key-independent policy is a special case: on it the key-dependent reference step is the
plain one (so the theorems above specialise to those of Props/C16.lean) -/
theorem kref_step_of_policy {K V : Type} [DecidableEq K] (P : Policy K V) (r : RefDict K V) (k : K) (v : V) :
    KRef.set P.toK r k v = Ref.set P r k v := rfl

end Mutagen.C16
