/-
Props/C11.lean — C11 "Resizing a region inside a file moves the rest intact".

Property theorems only (helper lemmas live in Proofs/FileOps.lean).  Everything is about
the FileM programs of Model/FileOps.lean run in the fault-free environment on an
arbitrary file state `s` (any bytes, any position, any history), for every buffer size
`B ≥ 1`.
-/
import MutagenModel.Proofs.FileOps
import MutagenModel.Generated.Consts
set_option linter.unusedVariables false
namespace Mutagen.C11
open Mutagen

/-- move_bytes: the `count` bytes at `src` end up at `dest`, everything else is untouched —
both directions, any overlap, any buffer size. -/
theorem move_bytes_spec (B : Nat) (hB : 0 < B) (dest src count : Nat) (s : FS)
    (hin : max dest src + count ≤ s.data.length) :
    ∃ s', moveBytes B dest src count Env.clean s = (.ok (), s') ∧
      s'.data.length = s.data.length ∧
      ∀ i, s'.data[i]? =
        if dest ≤ i ∧ i < dest + count then s.data[src + (i - dest)]? else s.data[i]? := by
  obtain ⟨s', h1, h2⟩ := moveBytes_clean B hB dest src count s hin
  exact ⟨s', h1, h2.1, h2.2⟩

/-- insert_bytes: prefix and suffix intact, `size` bytes of gap between them.  The gap
holds what followed `offset` in the zero-extended file (mutagen documents it as "empty
space", callers overwrite it). -/
theorem insert_bytes_spec (B : Nat) (hB : 0 < B) (size offset : Nat) (s : FS)
    (ho : offset ≤ s.data.length) :
    ∃ s' gap, insertBytes B size offset Env.clean s = (.ok (), s') ∧ gap.length = size ∧
      s'.data = s.data.take offset ++ gap ++ s.data.drop offset := by
  obtain ⟨s', h1, h2⟩ := insertBytes_clean B hB size offset s ho
  exact ⟨s', _, h1, by apply length_readAt; simp; omega, h2⟩

/-- delete_bytes: exactly the bytes before and after the region remain. -/
theorem delete_bytes_spec (B : Nat) (hB : 0 < B) (size offset : Nat) (s : FS)
    (ho : offset + size ≤ s.data.length) :
    ∃ s', deleteBytes B size offset Env.clean s = (.ok (), s') ∧
      s'.data = s.data.take offset ++ s.data.drop (offset + size) :=
  deleteBytes_clean B hB size offset s ho

/-- resize_bytes (the C11 sentence): the original bytes before the region, the retained
part of the region, `new − old` fresh bytes when growing, and the original bytes after
the region. -/
theorem resize_bytes_spec (B : Nat) (hB : 0 < B) (old new offset : Nat) (s : FS)
    (ho : offset + old ≤ s.data.length) :
    ∃ s' gap, resizeBytes B old new offset Env.clean s = (.ok (), s') ∧ gap.length = new - old ∧
      s'.data = s.data.take offset ++ (s.data.drop offset).take (min old new) ++ gap
                  ++ s.data.drop (offset + old) := by
  unfold resizeBytes
  have h0 : ¬ ((old : Int) < 0 ∨ (new : Int) < 0 ∨ (offset : Int) < 0) := by omega
  simp only [h0, ↓reduceIte]
  by_cases h1 : (new : Int) < (old : Int)
  · simp only [h1, ↓reduceIte]
    have e1 : (old : Int) - (new : Int) = ((old - new : Nat) : Int) := by omega
    have e2 : (offset : Int) + (new : Int) = ((offset + new : Nat) : Int) := by omega
    rw [e1, e2]
    obtain ⟨s', hr, hd⟩ := deleteBytes_clean B hB (old - new) (offset + new) s (by omega)
    refine ⟨s', [], hr, by simp; omega, ?_⟩
    rw [hd, show offset + new + (old - new) = offset + old by omega, show min old new = new by omega]
    simp only [List.append_nil, List.append_assoc]
    rw [← List.append_assoc, ← List.take_add]
  · by_cases h2 : (new : Int) > (old : Int)
    · simp only [h1, h2, ↓reduceIte]
      have e1 : (new : Int) - (old : Int) = ((new - old : Nat) : Int) := by omega
      have e2 : (offset : Int) + (old : Int) = ((offset + old : Nat) : Int) := by omega
      rw [e1, e2]
      obtain ⟨s', gap, hr, hg, hd⟩ := insert_bytes_spec B hB (new - old) (offset + old) s ho
      refine ⟨s', gap, hr, hg, ?_⟩
      rw [hd, show min old new = old by omega, ← List.take_add]
    · simp only [h1, h2, ↓reduceIte, pure_run]
      have : new = old := by omega
      subst this
      refine ⟨s, [], rfl, by simp, ?_⟩
      simp only [Nat.min_self, List.append_nil]
      rw [← List.take_add, List.take_append_drop]

/-- the result does not depend on the copy-buffer size -/
theorem delete_buffer_independent (B₁ B₂ : Nat) (h₁ : 0 < B₁) (h₂ : 0 < B₂) (size offset : Nat) (s : FS)
    (ho : offset + size ≤ s.data.length) :
    (deleteBytes B₁ size offset Env.clean s).2.data = (deleteBytes B₂ size offset Env.clean s).2.data := by
  obtain ⟨s1, r1, d1⟩ := deleteBytes_clean B₁ h₁ size offset s ho
  obtain ⟨s2, r2, d2⟩ := deleteBytes_clean B₂ h₂ size offset s ho
  rw [r1, r2, d1, d2]

theorem insert_buffer_independent (B₁ B₂ : Nat) (h₁ : 0 < B₁) (h₂ : 0 < B₂) (size offset : Nat) (s : FS)
    (ho : offset ≤ s.data.length) :
    (insertBytes B₁ size offset Env.clean s).2.data = (insertBytes B₂ size offset Env.clean s).2.data := by
  obtain ⟨s1, r1, d1⟩ := insertBytes_clean B₁ h₁ size offset s ho
  obtain ⟨s2, r2, d2⟩ := insertBytes_clean B₂ h₂ size offset s ho
  rw [r1, r2, d1, d2]

theorem move_buffer_independent (B₁ B₂ : Nat) (h₁ : 0 < B₁) (h₂ : 0 < B₂) (dest src count : Nat) (s : FS)
    (hin : max dest src + count ≤ s.data.length) :
    (moveBytes B₁ dest src count Env.clean s).2.data = (moveBytes B₂ dest src count Env.clean s).2.data := by
  obtain ⟨s1, r1, d1⟩ := moveBytes_clean B₁ h₁ dest src count s hin
  obtain ⟨s2, r2, d2⟩ := moveBytes_clean B₂ h₂ dest src count s hin
  rw [r1, r2]
  apply List.ext_getElem?
  intro i
  rw [d1.2, d2.2]

/-- requests that reach outside the file are rejected with ValueError before any write or
truncate: bytes untouched, no mutating call in the log. -/
theorem move_bytes_rejects (B : Nat) (dest src count : Int) (s : FS)
    (h : dest < 0 ∨ src < 0 ∨ count < 0 ∨ max dest src + count > s.data.length) :
    Rejects (moveBytes B dest src count) s := moveBytes_rejects B dest src count s h

theorem insert_bytes_rejects (B : Nat) (size offset : Int) (s : FS)
    (h : size < 0 ∨ offset < 0 ∨ offset > s.data.length) :
    Rejects (insertBytes B size offset) s := insertBytes_rejects B size offset s h

theorem delete_bytes_rejects (B : Nat) (size offset : Int) (s : FS)
    (h : size < 0 ∨ offset < 0 ∨ offset + size > s.data.length) :
    Rejects (deleteBytes B size offset) s := deleteBytes_rejects B size offset s h

/-- resize_bytes: any negative argument, or a region `[offset, offset+old)` that is not
inside the file (when there is anything to do), is rejected before modification. -/
theorem resize_bytes_rejects (B : Nat) (old new offset : Int) (s : FS)
    (h : old < 0 ∨ new < 0 ∨ offset < 0 ∨ (offset + old > s.data.length ∧ old ≠ new)) :
    Rejects (resizeBytes B old new offset) s := by
  unfold resizeBytes
  by_cases h0 : old < 0 ∨ new < 0 ∨ offset < 0
  · simp only [h0, ↓reduceIte]
    exact ⟨s, rfl, rfl, rfl⟩
  · simp only [h0, ↓reduceIte]
    by_cases h1 : new < old
    · simp only [h1, ↓reduceIte]
      exact deleteBytes_rejects _ _ _ _ (by omega)
    · have h2 : new > old := by omega
      simp only [h1, h2, ↓reduceIte]
      exact insertBytes_rejects _ _ _ _ (by omega)

/-- the buffer sizes the code actually uses (regenerated from the source on every run)
satisfy the `0 < B` hypothesis of every theorem above -/
theorem default_buffers_positive :
    0 < Generated.bufferSize_resize_file ∧ 0 < Generated.bufferSize_move_bytes ∧
    0 < Generated.bufferSize_insert_bytes ∧ 0 < Generated.bufferSize_delete_bytes := by decide

/-! non-vacuity: the hypotheses are satisfiable and the programs really move bytes -/
example : (moveBytes 2 1 3 4 Env.clean { data := [0,1,2,3,4,5,6,7] }).2.data = [0,3,4,5,6,5,6,7] := by
  decide +kernel
example : (moveBytes 3 3 1 4 Env.clean { data := [0,1,2,3,4,5,6,7] }).2.data = [0,1,2,1,2,3,4,7] := by
  decide +kernel
example : (resizeBytes 2 2 5 1 Env.clean { data := [9,1,2,7,8] }).2.data = [9,1,2,7,8,0,7,8] := by
  decide +kernel
example : (resizeBytes 2 3 1 1 Env.clean { data := [9,1,2,3,7,8] }).2.data = [9,1,7,8] := by decide +kernel

end Mutagen.C11
