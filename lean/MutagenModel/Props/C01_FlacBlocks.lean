/-
Props/C01_FlacBlocks.lean — C01 "what is saved is what is read back: binary payloads, typed values" and the C07 side
"extra FLAC blocks are kept" for the metadata block classes of mutagen/flac.py other than STREAMINFO and the Vorbis
comment (Model/FlacBlocks.lean): Picture (also the payload of Ogg's METADATA_BLOCK_PICTURE), SeekTable, CueSheet,
Padding, MetadataBlock (APPLICATION, unknown codes).

Per class: `…_roundtrip` (load ∘ write = id on every value mutagen can write), `…_decodes_strictly` (the strict reader
of the format accepts mutagen's bytes and returns the value), `…_write_load_identity` (a payload the strict reader
accepts is loaded and written back byte for byte — the "kept" side) and examples where load-then-write is NOT the
identity (payloads outside the format, which mutagen normalises).
-/
import MutagenModel.Proofs.FlacBlocks
set_option linter.unusedVariables false
namespace Mutagen.C01
open Mutagen Mutagen.FlacB

/-! ### PICTURE -/

/-- every picture whose numbers fit 32 bits and whose text is Unicode scalar values survives `write()` and `Picture(data)`:
type, MIME type, description, width, height, depth, colours and the data, byte for byte -/
theorem picture_roundtrip (p : Picture) (h : p.Fits) : ∃ b, writePicture p = .ok b ∧ loadPicture b = .ok p :=
  ⟨_, writePicture_eq p h, loadPicture_render p h⟩

/-- … also when the picture is followed by other data in a stream (how `FLAC` reads PICTURE blocks, `_distrust_size`):
exactly the picture is consumed -/
theorem picture_roundtrip_stream (p : Picture) (h : p.Fits) (rest : Bytes) :
    ∃ b, writePicture p = .ok b ∧ loadPictureS (b ++ rest) = .ok (p, rest) :=
  ⟨_, writePicture_eq p h, loadPictureS_render p h rest⟩

/-- what mutagen writes for a picture within the format's constraints is the format's METADATA_BLOCK_PICTURE: the strict
reader accepts it and returns the picture -/
theorem picture_decodes_strictly (p : Picture) (h : p.OK) : ∃ b, writePicture p = .ok b ∧ readPicture b = some p := by
  refine ⟨_, writePicture_eq p h.1, ?_⟩
  unfold readPicture
  rw [loadPicture_render p h.1]
  simp [h]

/-- the strict reader accepts exactly renderings of valid pictures -/
theorem picture_strict_reader_sound (b : Bytes) (p : Picture) (h : readPicture b = some p) : p.OK ∧ renderPicture p = b := by
  unfold readPicture at h
  split at h
  · split at h
    · rename_i hc; cases h; exact hc
    · cases h
  · cases h

/-- kept: a well-formed PICTURE payload is loaded as the picture it describes and written back byte for byte -/
theorem picture_write_load_identity (b : Bytes) (p : Picture) (h : readPicture b = some p) :
    loadPicture b = .ok p ∧ writePicture p = .ok b := by
  obtain ⟨hok, hr⟩ := picture_strict_reader_sound b p h
  exact ⟨by rw [← hr]; exact loadPicture_render p hok.1, by rw [writePicture_eq p hok.1, hr]⟩

/-- NOT kept: bytes behind the picture data are dropped (`Picture(data)`), and a description that is not valid UTF-8 comes
back with U+FFFD (3 bytes) for every bad sequence -/
example : bnd (loadPicture ([0, 0, 0, 3, 0, 0, 0, 0, 0, 0, 0, 0] ++ List.replicate 20 0 ++ [9, 9])) writePicture =
      .ok ([0, 0, 0, 3, 0, 0, 0, 0, 0, 0, 0, 0] ++ List.replicate 20 0) ∧
    bnd (loadPicture ([0, 0, 0, 3, 0, 0, 0, 0, 0, 0, 0, 1, 0xFF] ++ List.replicate 20 0)) writePicture =
      .ok ([0, 0, 0, 3, 0, 0, 0, 0, 0, 0, 0, 3, 0xEF, 0xBF, 0xBD] ++ List.replicate 20 0) := by
  decide +kernel

/-! ### SEEKTABLE -/

theorem seektable_roundtrip (l : List SeekPoint) (h : seekFits l) : ∃ b, writeSeekTable l = .ok b ∧ loadSeekTable b = .ok l :=
  ⟨_, writeSeekTable_eq l h, loadSeekTable_render l h⟩

/-- mutagen's bytes for a sorted table (placeholders last) are the format's METADATA_BLOCK_SEEKTABLE -/
theorem seektable_decodes_strictly (l : List SeekPoint) (h : seekOK l) : ∃ b, writeSeekTable l = .ok b ∧ readSeekTable b = some l := by
  refine ⟨_, writeSeekTable_eq l h.1, ?_⟩
  unfold readSeekTable
  rw [loadSeekTable_render l h.1]
  simp [h]

theorem seektable_strict_reader_sound (b : Bytes) (l : List SeekPoint) (h : readSeekTable b = some l) : seekOK l ∧ renderSeekTable l = b := by
  unfold readSeekTable at h
  split at h
  · split at h
    · rename_i hc; cases h; exact hc
    · cases h
  · cases h

theorem seektable_write_load_identity (b : Bytes) (l : List SeekPoint) (h : readSeekTable b = some l) :
    loadSeekTable b = .ok l ∧ writeSeekTable l = .ok b := by
  obtain ⟨hok, hr⟩ := seektable_strict_reader_sound b l h
  exact ⟨by rw [← hr]; exact loadSeekTable_render l hok.1, by rw [writeSeekTable_eq l hok.1, hr]⟩

/-- more generally every payload whose length is a multiple of 18 is kept (sorted or not); a remainder of fewer than 18
bytes is dropped: `while len(sp) == 18` -/
theorem seektable_tail_dropped (l : List SeekPoint) (h : seekFits l) (tail : Bytes) (ht : tail.length < 18) :
    bnd (loadSeekTable (renderSeekTable l ++ tail)) writeSeekTable = .ok (renderSeekTable l) := by
  unfold loadSeekTable
  rw [loadSeekFuel_render l h tail ht _ (by simp [length_renderSeekTable]; omega)]
  exact writeSeekTable_eq l h

example : bnd (loadSeekTable (List.replicate 19 7)) writeSeekTable = .ok (List.replicate 18 7) := by decide +kernel

/-! ### CUESHEET -/

/-- catalog number, lead-in, the compact-disc flag, and per track number, offset, ISRC, type, pre-emphasis and the index
points survive `write()` and `CueSheet(data)` — for values that fit their fields, a type of one bit, and byte strings
(catalog number ≤ 128 bytes, ISRC ≤ 12) that do not end in NUL (trailing NULs are indistinguishable from the padding) -/
theorem cuesheet_roundtrip (c : CueSheet) (h : c.Fits) : ∃ b, writeCueSheet c = .ok b ∧ loadCueSheet b = .ok c :=
  ⟨_, writeCueSheet_eq c h, loadCueSheet_render c h⟩

/-- mutagen's bytes are the format's METADATA_BLOCK_CUESHEET: the reserved bits and bytes (7 + 258·8, 6 + 13·8, 3·8) zero,
the counts right, nothing left over -/
theorem cuesheet_decodes_strictly (c : CueSheet) (h : c.OK) : ∃ b, writeCueSheet c = .ok b ∧ readCueSheet b = some c := by
  refine ⟨_, writeCueSheet_eq c h.1, ?_⟩
  unfold readCueSheet
  rw [loadCueSheet_render c h.1]
  simp [h]

theorem cuesheet_strict_reader_sound (b : Bytes) (c : CueSheet) (h : readCueSheet b = some c) : c.OK ∧ renderCueSheet c = b := by
  unfold readCueSheet at h
  split at h
  · split at h
    · rename_i hc; cases h; exact hc
    · cases h
  · cases h

theorem cuesheet_write_load_identity (b : Bytes) (c : CueSheet) (h : readCueSheet b = some c) :
    loadCueSheet b = .ok c ∧ writeCueSheet c = .ok b := by
  obtain ⟨hok, hr⟩ := cuesheet_strict_reader_sound b c h
  exact ⟨by rw [← hr]; exact loadCueSheet_render c hok.1, by rw [writeCueSheet_eq c hok.1, hr]⟩

/-- NOT kept: reserved bits that are set (here: the low 7 bits of the flags byte and a reserved byte) come back as zero,
and bytes behind the last track are dropped -/
example : bnd (loadCueSheet (List.replicate 128 0 ++ List.replicate 8 0 ++ [0xFF] ++ [5] ++ List.replicate 257 0 ++ [0] ++ [1, 2])) writeCueSheet =
    .ok (List.replicate 128 0 ++ List.replicate 8 0 ++ [0x80] ++ List.replicate 258 0 ++ [0]) := by
  decide +kernel

/-- what `write()` silently changes: a catalog number of more than 128 bytes is cut (`128s`), a type above 1 loses its
upper bits (`& 1`) — values outside `Fits`, which do not come back -/
example : bnd (writeCueSheet ⟨List.replicate 129 65, 0, false, [⟨1, 0, [], 3, false, []⟩]⟩) loadCueSheet =
    .ok ⟨List.replicate 128 65, 0, false, [⟨1, 0, [], 1, false, []⟩]⟩ := by
  decide +kernel

/-! ### PADDING, APPLICATION, unknown blocks -/

theorem padding_roundtrip (n : Nat) : ∃ b, writePadding n = .ok b ∧ loadPadding b = .ok n ∧ readPadding b = some n :=
  ⟨zeros n, rfl, by simp [loadPadding], by simp [readPadding]⟩

/-- kept iff the payload is what the format says padding is: zero bytes -/
theorem padding_write_load_identity (b : Bytes) : bnd (loadPadding b) writePadding = .ok b ↔ (readPadding b).isSome = true := by
  simp only [loadPadding, writePadding, bnd_ok, readPadding]
  constructor
  · intro h; injection h with h; rw [if_pos h.symm]; rfl
  · intro h
    split at h
    · rename_i hz; rw [← hz]
    · cases h

example : bnd (loadPadding [1, 2]) writePadding = .ok [0, 0] := by decide

/-- APPLICATION blocks and blocks with unknown codes are opaque to mutagen: always kept byte for byte -/
theorem generic_write_load_identity (b : Bytes) : bnd (loadGeneric b) writeGeneric = .ok b := rfl

/-- … and what the format calls an APPLICATION block (a 4-byte id and data) is kept in particular -/
theorem application_kept (a : Application) (h : a.id.length = 4) :
    readApplication (renderApplication a) = some a ∧ bnd (loadGeneric (renderApplication a)) writeGeneric = .ok (renderApplication a) := by
  refine ⟨?_, rfl⟩
  unfold readApplication renderApplication
  have : ¬ ((a.id ++ a.data).length < 4) := by simp; omega
  rw [if_neg this, List.take_left' h, List.drop_left' h]

/-! ### the hypotheses are satisfiable -/

example : (Picture.mk 3 [105, 109, 97, 103, 101, 47, 112, 110, 103] [0x20AC, 0x1F3B5] 600 600 24 0 [1, 2, 3]).OK := by decide +kernel
example : seekOK [⟨0, 0, 4096⟩, ⟨4096, 900, 4096⟩, ⟨placeholder, 0, 0⟩, ⟨placeholder, 0, 0⟩] := by decide +kernel
example : (CueSheet.mk [49, 50, 51] 88200 true [⟨1, 0, [65, 66, 67, 68, 69, 49, 50, 51, 52, 53, 54, 55], 0, true, [⟨1, 0⟩, ⟨2, 588⟩]⟩,
    ⟨170, 1000, [], 0, false, []⟩]).OK := by decide +kernel

end Mutagen.C01
