/-
Props/C06_ApeFile.lean — C06 ("I/O failures surface only as MutagenError; success means written") for
APEv2-tagged files: `APEv2.save` / `APEv2.delete` as programs over the file object
(Model/Container/ApeFileM.lean) in ARBITRARY fault environments.

* "raises only": about `saveM` / `deleteM`, the programs with EVERY call of the real code, the reads of
  `_APEv2Data(fileobj)` and their `try … except IOError` blocks included.
* "success means written": about `saveSumM` / `deleteSumM` (the reads summarised by their result).  For the
  programs with the reads it is FALSE, in the model as in the code: `__find_metadata` and `__fix_brokenness`
  use `except IOError` to detect small files, so an I/O error of the file object inside them is swallowed and
  taken for "nothing found" — `save` then appends a second tag behind the old one, `delete` returns without
  deleting (the recorded findings `undetected:io|short:apev2.py:__find_metadata`; the two `example`s at the end
  are instances).

`PyErr.value` = ValueError (`verify_fileobj`, the recorded finding `escape:ValueError:_util.py:verify_fileobj`;
`delete_bytes` argument checks); `notImplemented` does not occur here; `diverge` = BUFFER_SIZE 0.
-/
import MutagenModel.Proofs.Container.ApeFileCap
set_option linter.unusedVariables false
namespace Mutagen.C06
open Mutagen Mutagen.ApeF

/-- `APEv2.save` (all calls) under ANY fault environment: what escapes is `error` (a MutagenError), or a non-I/O
exception: one the environment injected that is not an IOError, ValueError, or a marker of the model -/
theorem ape_save_raises_only (B : Nat) (tag3 : Option (Bytes × Bytes × Bytes)) :
    Raises (fun e x => x = .mutagen ∨ ((x = .mutagen ∨ x = .notImplemented ∨ PrimErr e x) ∧ x.isIO = false))
      (saveM B tag3) :=
  raises_saveM B tag3

/-- … with I/O faults only: MutagenError or ValueError (or a marker) -/
theorem ape_save_io_faults (B : Nat) (tag3 : Option (Bytes × Bytes × Bytes))
    (e : Env) (hio : ∀ i x, e.failAt i = some x → x.isIO = true) (s s' : FS) (x : PyErr)
    (h : saveM B tag3 e s = (.error x, s')) : x = .mutagen ∨ x = .value ∨ x = .notImplemented ∨ x = .diverge :=
  Id3F.io_faults_only (raises_saveM B tag3) e hio s s' x h

theorem ape_delete_raises_only (B : Nat) :
    Raises (fun e x => x = .mutagen ∨ ((x = .mutagen ∨ x = .notImplemented ∨ PrimErr e x) ∧ x.isIO = false))
      (deleteM B) :=
  raises_deleteM B

theorem ape_delete_io_faults (B : Nat)
    (e : Env) (hio : ∀ i x, e.failAt i = some x → x.isIO = true) (s s' : FS) (x : PyErr)
    (h : deleteM B e s = (.error x, s')) : x = .mutagen ∨ x = .value ∨ x = .notImplemented ∨ x = .diverge :=
  Id3F.io_faults_only (raises_deleteM B) e hio s s' x h

/-- SUCCESS MEANS WRITTEN for everything `APEv2.save` does after `_APEv2Data` has answered: a normal return —
whatever the environment would have injected elsewhere, on a device of any capacity, no short reads — leaves
exactly what the pure `save` computes from the bytes the file had; for EVERY file -/
theorem ape_save_ok_means_written (B : Nat) (hB : 0 < B) (tag3 : Option (Bytes × Bytes × Bytes)) (e : Env)
    (hshort : ∀ i, e.shortAt i = none) (s s' : FS) (hpos : s.pos ≤ s.data.length)
    (h : saveSumM B tag3 e s = (.ok (), s')) : save s.data (tagBytes tag3) = .ok s'.data :=
  saveSumM_ok_means_written B hB tag3 e hshort s s' hpos h

theorem ape_delete_ok_means_written (B : Nat) (hB : 0 < B) (e : Env) (hshort : ∀ i, e.shortAt i = none) (s s' : FS)
    (hpos : s.pos ≤ s.data.length) (out : Bytes) (hp : delete s.data = .ok out)
    (h : deleteSumM B e s = (.ok (), s')) : s'.data = out :=
  deleteSumM_ok_means_written B hB e hshort s s' hpos out hp h

/-! ### non-vacuity, and the swallowed faults, on `audio ++ tag` (40 + 73 bytes) -/

def apeFile : Bytes :=
  List.replicate 40 0x55 ++ Ape.headerOrFooter 41 1 (Ape.hasHeader + Ape.isHeader) ++ [1, 0, 0, 0, 0, 0, 0, 0, 0x41] ++
    Ape.headerOrFooter 41 1 Ape.hasHeader
def apeNew : Option (Bytes × Bytes × Bytes) :=
  some (Ape.headerOrFooter 37 1 (Ape.hasHeader + Ape.isHeader), [0, 0, 0, 0, 0], Ape.headerOrFooter 37 1 Ape.hasHeader)

/-- an IOError at call 8 (`seek(metadata + 8)` of `__fill_missing`) leaves as MutagenError, file untouched -/
example : (saveM 4 apeNew { failAt := fun i => if i = 8 then some .io else none } { data := apeFile }).1 = .error .mutagen ∧
    (saveM 4 apeNew { failAt := fun i => if i = 8 then some .io else none } { data := apeFile }).2.data = apeFile := by
  decide +kernel

/-- so does one at call 2, the `seek(0, 2)` that opens `__find_metadata` (it stands in front of the `try`) -/
example : (saveM 4 apeNew { failAt := fun i => if i = 2 then some .io else none } { data := apeFile }).1 = .error .mutagen ∧
    (saveM 4 apeNew { failAt := fun i => if i = 2 then some .io else none } { data := apeFile }).2.data = apeFile := by
  decide +kernel

/-- an IOError at call 1 (`verify_fileobj`) leaves as ValueError -/
example : (saveM 4 apeNew { failAt := fun i => if i = 1 then some .io else none } { data := apeFile }).1 = .error .value := by
  decide +kernel

/-- THE SWALLOWED FAULT: an IOError at call 3 or 4 (the `tell()` and the `seek(-32, 1)` of `_seek_back(fileobj, 32)` in
`__find_metadata`) is taken for "file too small": `delete` returns normally and the tag is still there … -/
example : (deleteM 4 { failAt := fun i => if i = 3 then some .io else none } { data := apeFile }).1 = .ok () ∧
    (deleteM 4 { failAt := fun i => if i = 3 then some .io else none } { data := apeFile }).2.data = apeFile ∧
    (deleteM 4 { failAt := fun i => if i = 4 then some .io else none } { data := apeFile }).1 = .ok () ∧
    (deleteM 4 { failAt := fun i => if i = 4 then some .io else none } { data := apeFile }).2.data = apeFile := by
  decide +kernel

/-- … and `save` returns normally with the new tag appended behind the old one -/
example : (saveM 4 apeNew { failAt := fun i => if i = 3 then some .io else none } { data := apeFile }).1 = .ok () ∧
    (saveM 4 apeNew { failAt := fun i => if i = 3 then some .io else none } { data := apeFile }).2.data = apeFile ++ tagBytes apeNew := by
  decide +kernel

/-- without faults `delete` leaves the audio -/
example : (deleteM 4 {} { data := apeFile }).1 = .ok () ∧ (deleteM 4 {} { data := apeFile }).2.data = List.replicate 40 0x55 := by
  decide +kernel

end Mutagen.C06
