/-
Props/C02.lean — C02 "Saving or deleting tags never alters audio or foreign data".
Formats with a Lean container model: FLAC.  The other formats are decided by the
independent walkers on the real output (harness/walkers.py); see the evidence file.
-/
import MutagenModel.Proofs.Container.Flac
set_option linter.unusedVariables false
namespace Mutagen.C02
open Mutagen Mutagen.FlacC

/-- FLAC: FLAC._save run on the bytes of a well-formed file (any buffer size, any padding
choice, any new block list that keeps the non-comment, non-padding blocks) writes a file
that the strict format walker accepts and whose foreign parts — prefix, every block other
than Vorbis comment and padding (in order, byte-identical) and the audio — are unchanged -/
theorem flac_save_preserves_foreign (B : Nat) (hB : 0 < B) (L : Layout) (hL : Good L) (blocks : List Block)
    (pad : PadChoice) (h : ∀ b ∈ blocks, b.code < 127 ∧ b.data.length ≤ maxSize)
    (hk : blocks.filter keep = L.blocks.filter keep) (s : FS) (hs : s.data = render L) :
    ∃ s' L', saveM B L blocks pad Env.clean s = (.ok (), s') ∧ walk s'.data = some L' ∧
      foreign L' = foreign L ∧ Good L' :=
  save_walk_foreign B hB L hL blocks pad h hk s hs

/-- FLAC: delete keeps the foreign parts -/
theorem flac_delete_preserves_foreign (L : Layout) : foreign (mdelete L L.blocks) = foreign L :=
  (delete_clears L).2.2.1

end Mutagen.C02
