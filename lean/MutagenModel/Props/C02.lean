/-
Props/C02.lean — C02 "Saving or deleting tags never alters audio or foreign data".
Formats with a Lean container model: FLAC.  The other formats are decided by the
independent walkers on the real output (harness/walkers.py); see the evidence file.
-/
import MutagenModel.Proofs.Container.Flac
import MutagenModel.Proofs.Container.ApeFile
import MutagenModel.Proofs.Container.Id3File
import MutagenModel.Proofs.Container.Iff
set_option linter.unusedVariables false
namespace Mutagen.C02
open Mutagen Mutagen.FlacC

/-- FLAC: FLAC._save run on the bytes of a well-formed file (any buffer size, any padding
choice, any new block list that keeps the non-comment, non-padding blocks) writes a file
that the strict format walker accepts and whose foreign parts — prefix, every block other
than Vorbis comment and padding (in order, byte-identical) and the audio — are unchanged -/
theorem flac_save_preserves_foreign (B : Nat) (hB : 0 < B) (L : Layout) (hL : Good L) (blocks : List Block)
    (pad : PadChoice) (h : ∀ b ∈ blocks, b.code < 127 ∧ b.data.length ≤ maxSize)
    (hk : blocks.filter keep = L.blocks.filter keep) (s : FS) (hs : s.data = render L) :
    ∃ s' L', saveM B L blocks pad Env.clean s = (.ok (), s') ∧ walk s'.data = some L' ∧
      foreign L' = foreign L ∧ Good L' :=
  save_walk_foreign B hB L hL blocks pad h hk s hs

/-- FLAC: delete keeps the foreign parts -/
theorem flac_delete_preserves_foreign (L : Layout) : foreign (mdelete L L.blocks) = foreign L :=
  (delete_clears L).2.2.1

/-! ## free-standing ID3 files (MP3, TrueAudio, …): `[ID3v2 tag?][audio][ID3v1 block?]` -/

/-- ID3 save: whatever frames are written, with whatever padding choice and ID3v1 option, the audio
bytes follow the new tag unchanged — the saved file is `new tag ++ audio ++ ID3v1 block` and
nothing else (`p` = the padding the callback or the default policy answered) -/
theorem id3_save_preserves_audio (L : Id3F.Layout) (h : L.OK) (vmaj : Nat) (hvm : vmaj = 3 ∨ vmaj = 4) (frames : Bytes)
    (pad : PadChoice) (v1opt : Nat) (blk : Bytes) (p : Nat)
    (hp : getPadding pad ((L.tag.length : Int) - (frames.length + 10 : Nat)) (L.audio.length + L.v1.length) = p)
    (hfit : frames.length + p < 2 ^ 28) :
    ∃ newTag, newTag.length = 10 + frames.length + p ∧
      Id3F.save L.render vmaj frames pad v1opt blk = .ok (newTag ++ L.audio ++ Id3F.newV1 L.v1 v1opt blk) := by
  obtain ⟨hd, hh, hs⟩ := Id3F.save_layout L h vmaj hvm frames pad v1opt blk p hp hfit
  obtain ⟨a, b, c, d, h1, _⟩ := Id3F.header_ok vmaj (frames.length + p) hfit
  rw [h1] at hh; cases hh
  refine ⟨Id3F.magicID3 ++ [UInt8.ofNat vmaj, 0, 0] ++ [a, b, c, d] ++ frames ++ zeros p, ?_, ?_⟩
  · simp [Id3F.magicID3]; omega
  · rw [hs]

/-- ID3 delete leaves exactly the parts it was not asked to remove, byte for byte -/
theorem id3_delete_preserves_audio (L : Id3F.Layout) (h : L.OK) (dv1 dv2 : Bool) :
    Id3F.delete L.render dv1 dv2 = .ok ((if dv2 then [] else L.tag) ++ L.audio ++ (if dv1 then [] else L.v1)) :=
  Id3F.delete_layout L h dv1 dv2

/-- the layout hypotheses are satisfiable: a v2.4 tag with a 2-byte body, 131 audio bytes, a
128-byte ID3v1 block -/
example : (Id3F.Layout.mk ([0x49, 0x44, 0x33, 4, 0, 0, 0, 0, 0, 2] ++ [7, 7]) (List.replicate 131 9)
    ([0x54, 0x41, 0x47] ++ List.replicate 125 0)).OK := by
  refine ⟨Or.inr ⟨4, [0x49, 0x44, 0x33, 4, 0, 0, 0, 0, 0, 2], [7, 7], by decide, by decide, by decide +kernel, rfl⟩,
    fun h => by simp at h, Id3F.V1OK_of_long _ _ (by decide +kernel) (by decide +kernel)⟩

/-! ## APEv2-tagged files (WavPack, Musepack, Monkey's Audio, OptimFROG, TAK): `[audio][APEv2 tag][ID3v1?]` -/

/-- saving over a tag mutagen wrote leaves exactly the audio followed by the new tag -/
theorem ape_save_preserves_audio (audio : Bytes) (items : List Ape.Item) (newTag : Bytes)
    (hs : ((items.map Ape.encodeItem).flatten).length + 32 < 256 ^ 4) (ha : ApeF.AudioOK audio (Ape.encodeTag items)) :
    ApeF.save (audio ++ Ape.encodeTag items) newTag = .ok (audio ++ newTag) :=
  ApeF.save_over_tag audio items newTag hs ha

/-- … and a file without a tag gets the tag appended, nothing else touched -/
theorem ape_save_untagged (f newTag : Bytes) (h : ApeF.locate f = .ok none) : ApeF.save f newTag = .ok (f ++ newTag) :=
  ApeF.save_untagged f newTag h

/-- deleting leaves exactly the audio; an ID3v1 block behind the tag (not APEv2's) stays -/
theorem ape_delete_preserves_audio (audio : Bytes) (items : List Ape.Item)
    (hs : ((items.map Ape.encodeItem).flatten).length + 32 < 256 ^ 4) (ha : ApeF.AudioOK audio (Ape.encodeTag items)) :
    ApeF.delete (audio ++ Ape.encodeTag items) = .ok audio :=
  ApeF.delete_tag audio items hs ha

theorem ape_delete_keeps_id3v1 (audio v1 : Bytes) (items : List Ape.Item)
    (hs : ((items.map Ape.encodeItem).flatten).length + 32 < 256 ^ 4)
    (ha : audio = [] ∨ ApeF.isApeAt (audio ++ Ape.encodeTag items ++ v1) (audio.length - 24) = false) (hv : ApeF.V1OK v1) :
    ApeF.delete (audio ++ Ape.encodeTag items ++ v1) = .ok (audio ++ v1) :=
  ApeF.delete_tag_v1 audio v1 items hs ha hv

/-- hypotheses satisfiable: 30 audio bytes, one item -/
example : ApeF.AudioOK (List.replicate 30 5) (Ape.encodeTag [⟨[84, 105], 0, [120]⟩]) := by
  right; decide +kernel

/-! ## IFF-style chunk files (AIFF, WAVE, DSDIFF): `[root header][form type][chunks][ID3 chunk?][chunks]` -/

/-- IFF save (AIFF, WAVE, DSDIFF — any dialect with `WF`): whatever frames are written with whatever
padding choice, the saved file consists of the same form type and the same chunks, byte-identical
(id, size field, data, pad byte) and in the same order, with only the ID3 chunk replaced (or, when
there was none, added behind all others); `tag` is that chunk: the id it had (or the dialect's),
`10 + len(frames) + p` bytes of data.  The strict reader finds exactly these chunks in the output. -/
theorem iff_save_preserves_chunks (d : Iff.Dialect) (hd : d.WF) (L : Iff.Layout) (h : L.OK d) (vmaj : Nat)
    (hvm : vmaj = 3 ∨ vmaj = 4) (frames : Bytes) (pad : PadChoice) (p : Nat)
    (hp : getPadding pad ((L.oldLen : Int) - (frames.length + 10 : Nat)) (L.trailing d) = p)
    (hfit : frames.length + p < 2 ^ 28) (hroot : 4 + L.newExtent d (10 + frames.length + p) < 256 ^ d.sizeW) :
    ∃ tag out, tag.id = L.id3Id d ∧ tag.data.length = 10 + frames.length + p ∧
      Iff.save d (L.render d) vmaj frames pad = .ok out ∧
      out = Iff.renderFile d L.formType (L.before ++ tag :: L.after) ∧
      Iff.readFile d out = some (L.formType, L.before ++ tag :: L.after) := by
  obtain ⟨hdr, h1, h2, h3⟩ := Iff.save_layout d hd L h vmaj hvm frames pad p hp hfit hroot
  have hl : (hdr ++ frames ++ zeros p).length = 10 + frames.length + p := by simp [h2]; omega
  have hok := Iff.withTag_ok d hd L h (hdr ++ frames ++ zeros p) (by rw [hl]; exact hroot)
  have hch : (L.withTag d (hdr ++ frames ++ zeros p)).chunks = L.before ++ Iff.tagChunk (L.id3Id d) (hdr ++ frames ++ zeros p) :: L.after := by
    simp [Iff.Layout.withTag, Iff.Layout.chunks]
  refine ⟨Iff.tagChunk (L.id3Id d) (hdr ++ frames ++ zeros p), _, rfl, hl, h3, ?_, ?_⟩
  · simp only [Iff.Layout.render, hch]; rfl
  · have := Iff.readFile_layout d hd _ hok
    rw [hch] at this
    exact this

/-- IFF delete: the file that is left consists of the same form type and exactly the other chunks,
byte-identical and in order, and the strict reader finds them -/
theorem iff_delete_preserves_chunks (d : Iff.Dialect) (hd : d.WF) (L : Iff.Layout) (h : L.OK d) :
    Iff.delete d (L.render d) = .ok (Iff.renderFile d L.formType (L.before ++ L.after)) ∧
      Iff.readFile d (Iff.renderFile d L.formType (L.before ++ L.after)) = some (L.formType, L.before ++ L.after) := by
  have h1 := Iff.delete_layout d hd L h
  have h2 := Iff.readFile_without d hd L h
  have e : L.without.render d = Iff.renderFile d L.formType (L.before ++ L.after) := by
    simp [Iff.Layout.render, Iff.Layout.without, Iff.Layout.chunks]
  rw [e] at h1 h2
  exact ⟨h1, h2⟩

/-- the three formats are instances -/
theorem iff_dialects_wf : Iff.aiff.WF ∧ Iff.wave.WF ∧ Iff.dsdiff.WF := ⟨Iff.wf_aiff, Iff.wf_wave, Iff.wf_dsdiff⟩

/-- the hypotheses are satisfiable: an AIFF file "AIFF" with a COMM chunk of 3 bytes (one pad byte), an
ID3 chunk of 12 bytes and an SSND chunk behind it is a well-formed layout, and a save of 2 bytes of
frames that keeps the offered padding (0 bytes; 10 bytes follow the chunk data) meets the numeric ones -/
example : ∃ L : Iff.Layout, L.OK Iff.aiff ∧
    getPadding (.callback fun p _ => p) ((L.oldLen : Int) - (2 + 10 : Nat)) (L.trailing Iff.aiff) = (0 : Nat) ∧
    L.trailing Iff.aiff = 10 ∧ 4 + L.newExtent Iff.aiff (10 + 2 + 0) < 256 ^ Iff.aiff.sizeW := by
  refine ⟨Iff.Layout.mk [0x41, 0x49, 0x46, 0x46] [⟨[0x43, 0x4F, 0x4D, 0x4D], [1, 2, 3], [0]⟩]
    (some ⟨[0x49, 0x44, 0x33, 0x20], List.replicate 12 7, []⟩) [⟨[0x53, 0x53, 0x4E, 0x44], [9, 9], []⟩],
    ⟨by decide, by decide +kernel, ?_, by decide +kernel, by simp, by decide +kernel⟩,
    by decide +kernel, by decide +kernel, by decide +kernel⟩
  intro c hc
  cases hc
  decide +kernel

/-- … and a WAVE file without an ID3 chunk but with a LIST chunk is a well-formed layout, too -/
example : (Iff.Layout.mk [0x57, 0x41, 0x56, 0x45] [⟨[0x66, 0x6D, 0x74, 0x20], List.replicate 16 1, []⟩,
    ⟨[0x4C, 0x49, 0x53, 0x54], [0x49, 0x4E, 0x46, 0x4F, 5], [0]⟩] none []).OK Iff.wave := by
  refine ⟨by decide, by decide +kernel, ?_, by decide +kernel, by simp, by decide +kernel⟩
  intro c hc
  cases hc

end Mutagen.C02
