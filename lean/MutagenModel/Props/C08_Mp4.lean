/-
Props/C08_Mp4.lean — C08 "delete() removes the tags and nothing else", MP4 layouts (Model/Container/Mp4Layout.lean;
lemmas Proofs/Container/Mp4Props.lean).  `MP4Tags.delete` is `save` of no items with `padding=lambda x: 0`.
-/
import MutagenModel.Proofs.Container.Mp4Props
import MutagenModel.Props.C07_Mp4
set_option linter.unusedVariables false
namespace Mutagen.C08
open Mutagen Mutagen.Mp4C

/-- what delete leaves: the path `moov.udta.meta` stays, and in the place of the old `ilst` and its adjacent `free`
atom there are an EMPTY `ilst` atom (8 bytes) and an EMPTY `free` atom (8 bytes) — no item atom, no padding byte;
everything else is the same tree (then the table steps: `C02.mp4_delete_preserves_foreign`).  The file therefore still
"has tags" for `MP4Tags._can_load` (an empty tag set), and shrinks by the old region minus 16 bytes. -/
theorem mp4_delete_removes_tags (mem : Bool) (L : Layout) (h : L.OK)
    (hfit : wfList (L.saved [] (.callback fun _ _ => 0)).top) :
    deleteTags mem L.render = runSteps (L.tableSteps [] (.callback fun _ _ => 0)) (L.saved [] (.callback fun _ _ => 0)).render ∧
    (L.saved [] (.callback fun _ _ => 0)).mid = [Atom.node nIlst false [] [], Atom.leaf nFree false []] ∧
    renderList (L.saved [] (.callback fun _ _ => 0)).mid =
      [0, 0, 0, 8, 0x69, 0x6c, 0x73, 0x74, 0, 0, 0, 8, 0x66, 0x72, 0x65, 0x65] := by
  rw [deleteTags_eq]
  have hnp : L.newPadding [] (.callback fun _ _ => 0) = 0 := by
    unfold Layout.newPadding getPadding; simp only []; omega
  refine ⟨saveTags_layout mem L h [] _ hfit, ?_, ?_⟩
  · simp [Layout.saved, Layout.after, Layout.mid, Layout.ilst, Layout.free, hnp, zeros]
  · simp [Layout.saved, Layout.after, Layout.mid, Layout.ilst, Layout.free, hnp, zeros]
    decide

/-- deleting again does not change the bytes (stated on the layout the first delete leaves, which is the file when no
offset table had to be patched; `hok'` as in `C07.mp4_save_twice_identical`) -/
theorem mp4_delete_twice (mem : Bool) (L : Layout) (hok' : (L.saved [] (.callback fun _ _ => 0)).OK) :
    deleteTags mem (L.saved [] (.callback fun _ _ => 0)).render = (none, (L.saved [] (.callback fun _ _ => 0)).render) := by
  rw [deleteTags_eq]
  have hnp : L.newPadding [] (.callback fun _ _ => 0) = 0 := by
    unfold Layout.newPadding getPadding; simp only []; omega
  have := C07.mp4_save_twice_identical mem L [] (.callback fun _ _ => 0) (.callback fun _ _ => 0) hok'
    (by rw [hnp]; decide) (by rw [hnp]; rfl)
  exact this

/-- new tags can be saved afterwards: the layout a delete leaves is a layout with tags again, and a save of any item
atoms (that fit) with any padding choice behaves on it as on any other layout -/
theorem mp4_save_after_delete (mem : Bool) (L : Layout) (hok' : (L.saved [] (.callback fun _ _ => 0)).OK) (items : List Atom)
    (pad : PadChoice) (hfit : wfList ((L.saved [] (.callback fun _ _ => 0)).saved items pad).top) :
    saveTags mem (L.saved [] (.callback fun _ _ => 0)).render (ilstData items) pad =
      runSteps ((L.saved [] (.callback fun _ _ => 0)).tableSteps items pad) ((L.saved [] (.callback fun _ _ => 0)).saved items pad).render :=
  saveTags_layout mem _ hok' items pad hfit

/-- satisfiable; on the example with a track: delete, delete again (same bytes), then a save that finishes -/
example : exLayout.OK ∧ wfList (exLayout.saved [] (.callback fun _ _ => 0)).top ∧ (exLayout.saved [] (.callback fun _ _ => 0)).OK ∧
    (deleteTags true exLayout.render).1 = none ∧
    deleteTags true (deleteTags true exLayout.render).2 = (none, (deleteTags true exLayout.render).2) ∧
    (saveTags true (deleteTags true exLayout.render).2 (ilstData exItems) .default).1 = none := by
  decide +kernel

end Mutagen.C08
