/-
Props/C04_Flac.lean — C04 for `FLAC.load`, the code-side reader of FLAC files (Model/Container/FlacLoad.lean `load`): every byte
string gives a list of blocks or MutagenError.
-/
import MutagenModel.Proofs.Container.FlacLoad
set_option linter.unusedVariables false
namespace Mutagen.C04
open Mutagen

/-- for EVERY byte string `FLAC.load` ends in a result or in MutagenError: the ID3 skip with any size, the marker, block headers
with any code and any declared size, Vorbis comments and pictures that claim any lengths, truncated STREAMINFO / SEEKTABLE / CUESHEET
payloads, repeated blocks, a missing STREAMINFO, a missing last-block flag (the loop runs into the end of the file: `error`) — and
the loop ends (no `diverge`).  Obtained from the file-object program: on a quiet device it computes `load` (`loadM_q`), and under
every environment it raises only `error` or what was injected (`raises_loadM`). -/
theorem flac_load_clean (f : Bytes) (e : PyErr) (h : FlacL.load f = .error e) : e = .mutagen := by
  obtain ⟨s', _, hrun⟩ := FlacL.loadM_q Iff.clean_quiet { data := f } rfl
  rw [h] at hrun
  rcases FlacL.raises_loadM Env.clean { data := f } e s' hrun with (h1 | ⟨i, hi⟩) | ⟨_, y, i, hi⟩
  · exact h1
  · cases hi
  · cases hi

/-- damaged inputs, one per error path: all MutagenError -/
example : FlacL.load [] = .error .mutagen ∧ FlacL.load [0x66, 0x4C, 0x61, 0x58] = .error .mutagen ∧
    -- "ID3" with a size that points beyond the file
    FlacL.load [0x49, 0x44, 0x33, 4, 0, 0, 0x7F, 0x7F, 0x7F, 0x7F] = .error .mutagen ∧
    -- a block that announces more bytes than there are; a last-flag that never comes
    FlacL.load [0x66, 0x4C, 0x61, 0x43, 0x81, 0xFF, 0xFF, 0xFF, 0] = .error .mutagen ∧
    FlacL.load [0x66, 0x4C, 0x61, 0x43, 1, 0, 0, 0, 1, 0, 0, 0] = .error .mutagen ∧
    -- no STREAMINFO; a Vorbis comment whose vendor length points beyond the file
    FlacL.load [0x66, 0x4C, 0x61, 0x43, 0x81, 0, 0, 0] = .error .mutagen ∧
    FlacL.load [0x66, 0x4C, 0x61, 0x43, 0x84, 0, 0, 0, 0xFF, 0xFF, 0xFF, 0xFF] = .error .mutagen ∧
    -- two SEEKTABLE blocks
    FlacL.load [0x66, 0x4C, 0x61, 0x43, 3, 0, 0, 0, 0x83, 0, 0, 0] = .error .mutagen := by
  decide +kernel

end Mutagen.C04
