/-
Props/C07_OggInject.lean — C07 "Saving unchanged tags is lossless and idempotent" for the Ogg formats
(Vorbis, Opus, Speex, Theora): saving a second time leaves the file byte-identical.
Model: Model/Container/OggInject.lean, lemmas: Proofs/Container/OggInject.lean.

What is proved is the fixed point: a save that would write the comment packet that is already in the
file changes nothing.  The full statement (`ogg_save_twice_statement`) is not proved: it needs the
first save's output decomposed into a `Layout` again (the run of the second save is in general not
the run the first one wrote), and — as stated, for all sizes — it is not even true: the `size` handed
to the default policy is "file size minus old packet" and so includes the paging overhead of the old
run, which a re-paginated run no longer has (see the note at the end).
-/
import MutagenModel.Proofs.Container.OggInject
set_option linter.unusedVariables false
namespace Mutagen.C07
open Mutagen Mutagen.Ogg Mutagen.OggInj

/-! ## Ogg: the second save -/

/-- the full statement: whatever the first save with the default policy wrote, a second save of the
same comment writes again.  NOT PROVED (see the header). -/
def ogg_save_twice_statement : Prop :=
  ∀ (c : Codec) (L : Layout), L.OK c → L.c1.continued = false → contOK false (stream L.serial L.pages) →
    ∀ (vc padData out1 : Bytes), save c L.render vc padData .default = .ok out1 →
      save c out1 vc padData .default = .ok out1

/-- the fixed point (any padding choice): on a tidy layout — the run as mutagen writes it: no reserved
flag bits, consecutive page numbers, first/last flags only at its ends — a save whose new comment
packet equals the one in the file returns the file byte for byte: the run is laid out on the same
pages, no page is renumbered, every checksum comes out the same -/
theorem ogg_save_same_packet_unchanged (c : Codec) (hc : c ≠ .flac) (L : Layout) (h : L.OK c)
    (hfresh : L.c1.continued = false) (hflags : contOK false (stream L.serial L.pages)) (ht : L.Tidy)
    (vc padData : Bytes) (pad : PadChoice) (old0 : Bytes) (rest : List Bytes)
    (hpk : toPackets L.oldPages false = .ok (old0 :: rest))
    (hnp : newPacket c old0 vc padData pad L.render.length = .ok old0) :
    save c L.render vc padData pad = .ok L.render :=
  save_unchanged c hc L h (streamOK_of_contOK c L h hfresh hflags) ht vc padData pad old0 rest hpk hnp

/-- the second save with the default policy, as far as it is proved: when the comment packet in the file
is prefix, comment and `p` zero bytes with `p` not above the policy's upper bound for this file
(10 KiB + 1 % of what the policy is told follows) — which is how the first default save leaves it unless
the paging overhead changed by orders of magnitude — saving the same comment again changes nothing -/
theorem ogg_second_save_identical_partial (c : Codec) (hc : c ≠ .flac) (L : Layout) (h : L.OK c)
    (hfresh : L.c1.continued = false) (hflags : contOK false (stream L.serial L.pages)) (ht : L.Tidy)
    (vc padData : Bytes) (hpd : c = .opus → padData = []) (p : Nat) (rest : List Bytes)
    (hpk : toPackets L.oldPages false = .ok ((c.commentPrefix ++ vc ++ zeros p) :: rest))
    (hp : p ≤ 10240 + (L.render.length - (c.commentPrefix ++ vc ++ zeros p).length) / 100) :
    save c L.render vc padData .default = .ok L.render := by
  apply ogg_save_same_packet_unchanged c hc L h hfresh hflags ht vc padData .default _ rest hpk
  rw [newPacket_padded c hc _ vc padData hpd]
  have : (getPadding .default (((c.commentPrefix ++ vc ++ zeros p).length : Int) - ((c.commentPrefix ++ vc).length : Int))
      (L.render.length - (c.commentPrefix ++ vc ++ zeros p).length)).toNat = p := by
    simp only [getPadding, Generated.defaultPadding, List.length_append, length_zeros] at hp ⊢
    split
    · split
      · omega
      · omega
    · omega
  rw [this]

/-- Opus with preserved data: the packet is rebuilt from the comment and that data, so an unchanged
comment gives the same packet whatever the policy -/
theorem ogg_opus_preserved_second_save (L : Layout) (h : L.OK .opus)
    (hfresh : L.c1.continued = false) (hflags : contOK false (stream L.serial L.pages)) (ht : L.Tidy)
    (vc padData : Bytes) (hpd : padData ≠ []) (pad : PadChoice) (rest : List Bytes)
    (hpk : toPackets L.oldPages false = .ok ((magicOpusTags ++ vc ++ padData) :: rest)) :
    save .opus L.render vc padData pad = .ok L.render :=
  ogg_save_same_packet_unchanged .opus (by decide) L h hfresh hflags ht vc padData pad _ rest hpk
    (newPacket_opus_preserved _ vc padData hpd pad _)

/-- the hypotheses are satisfiable: the example file (C02) is tidy, its comment packet is "\x03vorbis",
the 9-byte empty comment and 4 zero bytes, and 4 is below the bound -/
example : Example.layout.Tidy ∧
    Example.commentPacket = Codec.vorbis.commentPrefix ++ [0, 0, 0, 0, 0, 0, 0, 0, 1] ++ zeros 4 ∧
    4 ≤ 10240 + (Example.layout.render.length - Example.commentPacket.length) / 100 := by
  refine ⟨⟨?_, by decide, by decide, by decide⟩, by decide, by decide +kernel⟩
  intro o ho
  simp [Layout.oldPages, Example.layout] at ho
  subst ho; rfl

/-! Note on `ogg_save_twice_statement`.  With the default policy the first save keeps the spare bytes
`pl` when `0 ≤ pl ≤ high(size)`, else writes `low(size) = 1024 + size/1000`; `size = filesize − len(old
packet)`.  If it keeps them, the packet keeps its length, the run its layout, `size` its value: the
second save is the fixed point above.  If it writes `low(size)`, the run is re-paginated with 4096-byte
pages and the second save is told `size' = size − (old paging overhead − new paging overhead)`; it
keeps the padding iff `low(size) ≤ high(size') = 10240 + size'/100`, which fails only when the old run's
paging overhead exceeds about 9.2 MB + 9 × (rest of the file), i.e. for a comment packet of the order of
a gigabyte on small pages.  The tie harness checks the second save on every plain layout it generates. -/

end Mutagen.C07
