/-
Props/C07_OggInject.lean — C07 "Saving unchanged tags is lossless and idempotent" for the Ogg formats
(Vorbis, Opus, Speex, Theora): saving a second time leaves the file byte-identical.
Model: Model/Container/OggInject.lean, lemmas: Proofs/Container/OggInject.lean, OggRead.lean.

Two levels.  The fixed point: a save that would write the comment packet that is already in the file
changes nothing (`ogg_save_same_packet_unchanged`).  The two-save statement: the first save's output is
decomposed into a layout again (`second_layout`: same pages in front, the run of the second save = the
new pages up to the first closed one, tidy, first packet = the new comment packet), so the second save is
that fixed point as soon as it builds the same packet — `ogg_second_save_identical` (default policy: when
the padding the first save wrote is within the policy's upper bound for the new file, 10 KiB + 1 % of
what follows; without a bound the statement is false, see the note at the end),
`ogg_second_save_identical_small` (padding of at most 10 KiB: no other condition),
`ogg_second_save_identical_opus_preserved`, `ogg_second_save_identical_callback`.
-/
import MutagenModel.Proofs.Container.OggRead
set_option linter.unusedVariables false
namespace Mutagen.C07
open Mutagen Mutagen.Ogg Mutagen.OggInj

/-! ## Ogg: the second save -/

/-- the fixed point (any padding choice): on a tidy layout — the run as mutagen writes it: no reserved
flag bits, consecutive page numbers, first/last flags only at its ends — a save whose new comment
packet equals the one in the file returns the file byte for byte: the run is laid out on the same
pages, no page is renumbered, every checksum comes out the same -/
theorem ogg_save_same_packet_unchanged (c : Codec) (hc : c ≠ .flac) (L : Layout) (h : L.OK c)
    (hfresh : L.c1.continued = false) (hflags : contOK false (stream L.serial L.pages)) (ht : L.Tidy)
    (vc padData : Bytes) (pad : PadChoice) (old0 : Bytes) (rest : List Bytes)
    (hpk : toPackets L.oldPages false = .ok (old0 :: rest))
    (hnp : newPacket c old0 vc padData pad L.render.length = .ok old0) :
    save c L.render vc padData pad = .ok L.render :=
  save_unchanged c hc L h (streamOK_of_contOK c L h hfresh hflags) ht vc padData pad old0 rest hpk hnp

/-- the second save with the default policy, as far as it is proved: when the comment packet in the file
is prefix, comment and `p` zero bytes with `p` not above the policy's upper bound for this file
(10 KiB + 1 % of what the policy is told follows) — which is how the first default save leaves it unless
the paging overhead changed by orders of magnitude — saving the same comment again changes nothing -/
theorem ogg_second_save_identical_partial (c : Codec) (hc : c ≠ .flac) (L : Layout) (h : L.OK c)
    (hfresh : L.c1.continued = false) (hflags : contOK false (stream L.serial L.pages)) (ht : L.Tidy)
    (vc padData : Bytes) (hpd : c = .opus → padData = []) (p : Nat) (rest : List Bytes)
    (hpk : toPackets L.oldPages false = .ok ((c.commentPrefix ++ vc ++ zeros p) :: rest))
    (hp : p ≤ 10240 + (L.render.length - (c.commentPrefix ++ vc ++ zeros p).length) / 100) :
    save c L.render vc padData .default = .ok L.render := by
  apply ogg_save_same_packet_unchanged c hc L h hfresh hflags ht vc padData .default _ rest hpk
  rw [newPacket_padded c hc _ vc padData hpd]
  have : (getPadding .default (((c.commentPrefix ++ vc ++ zeros p).length : Int) - ((c.commentPrefix ++ vc).length : Int))
      (L.render.length - (c.commentPrefix ++ vc ++ zeros p).length)).toNat = p := by
    simp only [getPadding, Generated.defaultPadding, List.length_append, length_zeros] at hp ⊢
    split
    · split
      · omega
      · omega
    · omega
  rw [this]

/-- Opus with preserved data: the packet is rebuilt from the comment and that data, so an unchanged
comment gives the same packet whatever the policy -/
theorem ogg_opus_preserved_second_save (L : Layout) (h : L.OK .opus)
    (hfresh : L.c1.continued = false) (hflags : contOK false (stream L.serial L.pages)) (ht : L.Tidy)
    (vc padData : Bytes) (hpd : padData ≠ []) (pad : PadChoice) (rest : List Bytes)
    (hpk : toPackets L.oldPages false = .ok ((magicOpusTags ++ vc ++ padData) :: rest)) :
    save .opus L.render vc padData pad = .ok L.render :=
  ogg_save_same_packet_unchanged .opus (by decide) L h hfresh hflags ht vc padData pad _ rest hpk
    (newPacket_opus_preserved _ vc padData hpd pad _)

/-- the hypotheses are satisfiable: the example file (C02) is tidy, its comment packet is "\x03vorbis",
the 9-byte empty comment and 4 zero bytes, and 4 is below the bound -/
example : Example.layout.Tidy ∧
    Example.commentPacket = Codec.vorbis.commentPrefix ++ [0, 0, 0, 0, 0, 0, 0, 0, 1] ++ zeros 4 ∧
    4 ≤ 10240 + (Example.layout.render.length - Example.commentPacket.length) / 100 := by
  refine ⟨⟨?_, by decide, by decide, by decide⟩, by decide, by decide +kernel⟩
  intro o ho
  simp [Layout.oldPages, Example.layout] at ho
  subst ho; rfl

/-! ### two saves -/

/-- two saves with the same padding choice: on a well-formed layout (stream flags consistent, numbered
without gaps, last page complete), if the second save — run on the first save's output, whose run of
comment pages is in general not the run of the input — builds the comment packet the first one wrote,
it returns the first save's output byte for byte -/
theorem ogg_second_save_fixed (c : Codec) (hc : c ≠ .flac) (L : Layout) (h : L.OK c) (hfresh : L.c1.continued = false)
    (hflags : contOK false (stream L.serial L.pages))
    (a : Nat) (hnum : (stream L.serial L.pages).map (·.sequence) = List.range' a (stream L.serial L.pages).length)
    (hend : ∀ l, (stream L.serial L.pages).getLast? = some l → l.complete = true)
    (vc padData : Bytes) (pad : PadChoice) (old0 new0 : Bytes) (others : List Bytes) (new : List Page)
    (hpk : toPackets L.oldPages false = .ok (old0 :: others))
    (hnp : newPacket c old0 vc padData pad L.render.length = .ok new0)
    (hnew : newPages c (new0 :: others) L.oldPages = .ok new)
    (hseq : L.c1.sequence + new.length + (L.post.filter (·.serial = L.serial)).length ≤ 2 ^ 32)
    (hfix : newPacket c new0 vc padData pad (renderPages (L.after new)).length = .ok new0) :
    ∃ out, save c L.render vc padData pad = .ok out ∧ save c out vc padData pad = .ok out :=
  ⟨_, save_twice c hc L h hfresh hflags a hnum hend vc padData pad old0 new0 others new hpk hnp hnew hseq hfix⟩

/-- C07 for Ogg, default policy: save, then save the same comment again — the second save returns the
first one's output byte for byte, provided the padding the first save wrote (`new0` minus prefix and
comment) is not above the policy's upper bound for the new file: 10 KiB + 1 % of (new file size − new
comment packet).  The first save writes either the spare bytes it found (at most 10 KiB + 1 % of the old
"size") or 1 KiB + 0.1 % of it, so the bound can fail only if re-paginating shrank the file's paging
overhead by more than nine times the rest of the file plus 9 MB. -/
theorem ogg_second_save_identical (c : Codec) (hc : c ≠ .flac) (L : Layout) (h : L.OK c) (hfresh : L.c1.continued = false)
    (hflags : contOK false (stream L.serial L.pages))
    (a : Nat) (hnum : (stream L.serial L.pages).map (·.sequence) = List.range' a (stream L.serial L.pages).length)
    (hend : ∀ l, (stream L.serial L.pages).getLast? = some l → l.complete = true)
    (vc padData : Bytes) (hpd : c = .opus → padData = []) (old0 new0 : Bytes) (others : List Bytes) (new : List Page)
    (hpk : toPackets L.oldPages false = .ok (old0 :: others))
    (hnp : newPacket c old0 vc padData .default L.render.length = .ok new0)
    (hnew : newPages c (new0 :: others) L.oldPages = .ok new)
    (hseq : L.c1.sequence + new.length + (L.post.filter (·.serial = L.serial)).length ≤ 2 ^ 32)
    (hbound : new0.length - (c.commentPrefix ++ vc).length ≤
      10240 + ((renderPages (L.after new)).length - new0.length) / 100) :
    ∃ out, save c L.render vc padData .default = .ok out ∧ save c out vc padData .default = .ok out := by
  apply ogg_second_save_fixed c hc L h hfresh hflags a hnum hend vc padData .default old0 new0 others new hpk hnp hnew hseq
  rw [newPacket_padded c hc _ vc padData hpd] at hnp
  simp only [Except.ok.injEq] at hnp
  generalize hp : (getPadding .default ((old0.length : Int) - ((c.commentPrefix ++ vc).length : Int)) (L.render.length - old0.length)).toNat = p at hnp
  subst hnp
  rw [newPacket_padded c hc _ vc padData hpd]
  have : (getPadding .default (((c.commentPrefix ++ vc ++ zeros p).length : Int) - ((c.commentPrefix ++ vc).length : Int))
      ((renderPages (L.after new)).length - (c.commentPrefix ++ vc ++ zeros p).length)).toNat = p := by
    simp only [getPadding, Generated.defaultPadding, List.length_append, length_zeros] at hbound ⊢
    split
    · split
      · omega
      · omega
    · omega
  rw [this]

/-- the same without any condition on sizes when the first save wrote at most 10 KiB of padding -/
theorem ogg_second_save_identical_small (c : Codec) (hc : c ≠ .flac) (L : Layout) (h : L.OK c) (hfresh : L.c1.continued = false)
    (hflags : contOK false (stream L.serial L.pages))
    (a : Nat) (hnum : (stream L.serial L.pages).map (·.sequence) = List.range' a (stream L.serial L.pages).length)
    (hend : ∀ l, (stream L.serial L.pages).getLast? = some l → l.complete = true)
    (vc padData : Bytes) (hpd : c = .opus → padData = []) (old0 new0 : Bytes) (others : List Bytes) (new : List Page)
    (hpk : toPackets L.oldPages false = .ok (old0 :: others))
    (hnp : newPacket c old0 vc padData .default L.render.length = .ok new0)
    (hnew : newPages c (new0 :: others) L.oldPages = .ok new)
    (hseq : L.c1.sequence + new.length + (L.post.filter (·.serial = L.serial)).length ≤ 2 ^ 32)
    (hsmall : new0.length - (c.commentPrefix ++ vc).length ≤ 10240) :
    ∃ out, save c L.render vc padData .default = .ok out ∧ save c out vc padData .default = .ok out :=
  ogg_second_save_identical c hc L h hfresh hflags a hnum hend vc padData hpd old0 new0 others new hpk hnp hnew hseq (by omega)

/-- Opus with preserved data: the packet is comment plus that data both times, no bound needed -/
theorem ogg_second_save_identical_opus_preserved (L : Layout) (h : L.OK .opus) (hfresh : L.c1.continued = false)
    (hflags : contOK false (stream L.serial L.pages))
    (a : Nat) (hnum : (stream L.serial L.pages).map (·.sequence) = List.range' a (stream L.serial L.pages).length)
    (hend : ∀ l, (stream L.serial L.pages).getLast? = some l → l.complete = true)
    (vc padData : Bytes) (hpd : padData ≠ []) (pad : PadChoice) (old0 : Bytes) (others : List Bytes) (new : List Page)
    (hpk : toPackets L.oldPages false = .ok (old0 :: others))
    (hnew : newPages .opus ((magicOpusTags ++ vc ++ padData) :: others) L.oldPages = .ok new)
    (hseq : L.c1.sequence + new.length + (L.post.filter (·.serial = L.serial)).length ≤ 2 ^ 32) :
    ∃ out, save .opus L.render vc padData pad = .ok out ∧ save .opus out vc padData pad = .ok out :=
  ogg_second_save_fixed .opus (by decide) L h hfresh hflags a hnum hend vc padData pad old0 _ others new hpk
    (newPacket_opus_preserved _ vc padData hpd pad _) hnew hseq (newPacket_opus_preserved _ vc padData hpd pad _)

/-- a padding callback that answers the same number both times (e.g. a constant, as `delete` uses):
two saves, same file -/
theorem ogg_second_save_identical_callback (c : Codec) (hc : c ≠ .flac) (L : Layout) (h : L.OK c) (hfresh : L.c1.continued = false)
    (hflags : contOK false (stream L.serial L.pages))
    (a : Nat) (hnum : (stream L.serial L.pages).map (·.sequence) = List.range' a (stream L.serial L.pages).length)
    (hend : ∀ l, (stream L.serial L.pages).getLast? = some l → l.complete = true)
    (vc padData : Bytes) (hpd : c = .opus → padData = []) (k : Int) (old0 new0 : Bytes) (others : List Bytes) (new : List Page)
    (hpk : toPackets L.oldPages false = .ok (old0 :: others))
    (hnp : newPacket c old0 vc padData (.callback fun _ _ => k) L.render.length = .ok new0)
    (hnew : newPages c (new0 :: others) L.oldPages = .ok new)
    (hseq : L.c1.sequence + new.length + (L.post.filter (·.serial = L.serial)).length ≤ 2 ^ 32) :
    ∃ out, save c L.render vc padData (.callback fun _ _ => k) = .ok out ∧ save c out vc padData (.callback fun _ _ => k) = .ok out := by
  apply ogg_second_save_fixed c hc L h hfresh hflags a hnum hend vc padData _ old0 new0 others new hpk hnp hnew hseq
  rw [newPacket_padded c hc _ vc padData hpd] at hnp ⊢
  exact hnp

set_option maxRecDepth 100000 in
/-- a whole instance, computed: the comment vendor "Xi", A=b saved twice into the example file (C02) with
the default policy — the first save changes the file (the 4 spare bytes do not hold the comment: 1024
bytes of padding are written, 189 bytes become 1222), the second returns the first one's output -/
example : (save .vorbis Example.layout.render (Vorbis.encode [0x58, 0x69] [([0x41], [0x62])] true) [] .default).bind
      (fun out => (save .vorbis out (Vorbis.encode [0x58, 0x69] [([0x41], [0x62])] true) [] .default).map
        (fun out2 => (out2 == out, out == Example.layout.render, out.length, Example.layout.render.length))) =
    .ok (true, false, 1222, 189) := by
  decide +kernel

/-! Note on the bound.  With the default policy the first save keeps the spare bytes `pl` when
`0 ≤ pl ≤ high(size)`, else writes `low(size) = 1024 + size/1000`; `size = filesize − len(old packet)`.
If it keeps them, the packet keeps its length, the run its layout, `size` its value: the bound holds.  If
it writes `low(size)`, the run is re-paginated with 4096-byte pages and the second save is told
`size' = size − (old paging overhead − new paging overhead)`; it keeps the padding iff
`low(size) ≤ high(size') = 10240 + size'/100`, which fails only when the old run's paging overhead exceeds
about 9.2 MB + 9 × (rest of the file), i.e. for a comment packet of the order of a gigabyte on small
pages: there the unconditional statement is false, which is why `hbound` is a hypothesis.  The tie
harness checks the second save on every plain layout it generates. -/

end Mutagen.C07
