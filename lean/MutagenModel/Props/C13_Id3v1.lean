/-
Props/C13_Id3v1.lean — C13, the ID3v1 part: "an ID3v1 block written alongside reflects the v2 title, artist, album,
year, comment, track and genre within ID3v1's Latin-1 fixed-width fields" — `MakeID3v1` / `ParseID3v1` of
mutagen/id3/_id3v1.py (Model/Id3v1.lean; the genre table is Generated/Genres.lean, regenerated from
mutagen/_constants.py on every run).

`Src` is what `MakeID3v1` looks at: the `text` lists of TIT2 / TPE1 / TALB / TRCK / TCON and of the comment frame it
picks, `str(TDRC)` resp. `str(TYER)`.  `Fields` / `render` / `read` are the ID3v1.1 layout written from its
specification.

Where `MakeID3v1` does NOT return (both escape `ID3.save` as non-MutagenError AFTER the ID3v2 tag has been written;
`id3v1_make_raises_*` are instances, harness/id3convert_tie.py `repro_make_id3v1()` shows them on the real code):
* a TIT2 / TPE1 / TALB / TRCK frame whose `text` is the empty list: `text[0]` raises IndexError;
* no TDRC and a TYER with a non-ASCII character: `str(frame).encode('ascii')` raises UnicodeEncodeError.
-/
import MutagenModel.Proofs.Id3v1
set_option linter.unusedVariables false
namespace Mutagen.C13
open Mutagen Mutagen.Id3v1

/-- whenever `MakeID3v1` returns, it returns 128 bytes -/
theorem id3v1_make_length (s : Src) (b : Bytes) (h : makeID3v1 s = .ok b) : b.length = 128 := by
  obtain ⟨track, _, hb, hf⟩ := make_layout s b h
  rw [hb]; exact length_render _ hf

/-- … and it returns unless one of the two exceptions above occurs: every text frame present has a value, and the
year string is ASCII -/
theorem id3v1_make_total (s : Src) (h1 : s.tit2 ≠ some []) (h2 : s.tpe1 ≠ some []) (h3 : s.talb ≠ some [])
    (h4 : s.trck ≠ some []) (h5 : (yearStr s).all (· < 128) = true) : ∃ b, makeID3v1 s = .ok b := by
  have tf : ∀ f : Option (List Str), f ≠ some [] → ∃ b, textField f = .ok b := by
    intro f hf
    match f, hf with
    | none, _ => exact ⟨_, rfl⟩
    | some [], hf => exact absurd rfl hf
    | some (t :: _), _ => exact ⟨_, rfl⟩
  obtain ⟨b1, e1⟩ := tf _ h1
  obtain ⟨b2, e2⟩ := tf _ h2
  obtain ⟨b3, e3⟩ := tf _ h3
  have tr : ∃ t, trackByte s.trck = .ok t := by
    unfold trackByte
    match hh : s.trck with
    | none => exact ⟨_, rfl⟩
    | some [] => exact absurd hh h4
    | some (t :: _) =>
      simp only []
      split
      · split <;> exact ⟨_, rfl⟩
      · exact ⟨_, rfl⟩
  obtain ⟨t, e4⟩ := tr
  have yr : ∃ y, yearField s = .ok y := by
    unfold yearField yearStr asciiEncode at *
    cases hd : s.tdrc with
    | some x => simp only [hd] at h5 ⊢; simp [h5]
    | none =>
      simp only [hd] at h5 ⊢
      cases hy : s.tyer with
      | some x => simp only [hy] at h5 ⊢; simp [h5]
      | none => simp
  obtain ⟨y, e5⟩ := yr
  exact ⟨tagMagic ++ b1 ++ b2 ++ b3 ++ y ++ commentField s.comm ++ [t] ++ [genreByte s.tcon], by simp only [makeID3v1, e1, e2, e3, e4, e5]⟩

/-- V1 REFLECTS: the block is the ID3v1.1 layout of: the Latin-1 encoding (`'replace'`: "?" for anything beyond
U+00FF) of the FIRST value of TIT2 / TPE1 / TALB cut to 30 bytes, of the first value of the comment cut to 28 bytes,
the first four characters of the year string, the track byte and the genre byte — fields NUL-padded, a zero byte in
front of the track (ID3v1.1) -/
theorem id3v1_make_layout (s : Src) (b : Bytes) (h : makeID3v1 s = .ok b) :
    ∃ track, trackByte s.trck = .ok track ∧ b = render (fieldsOf s track) ∧ (fieldsOf s track).Fits :=
  make_layout s b h

/-- … which the reader of the layout reads back: each field up to its first NUL -/
theorem id3v1_read_render (f : Fields) (h : f.Fits) :
    Id3v1.read (render f) =
      some ⟨field f.title, field f.artist, field f.album, field f.year, field f.comment, f.track, f.genre⟩ := by
  have hp := parse_render 4 (Or.inr rfl) f h
  have hlen := length_render f h
  -- the same slicing as `ParseID3v1`: reuse its field equations through `fix`-free reasoning
  unfold Id3v1.read
  have ht3 : (render f).take 3 = tagMagic := by simp [render, tagMagic]
  have c : ¬ ((render f).length ≠ 128 ∨ (render f).take 3 ≠ tagMagic) := by
    rw [hlen, ht3]; simp
  rw [if_neg c]
  have l1 := length_padTo 30 f.title h.title
  have l2 := length_padTo 30 f.artist h.artist
  have l3 := length_padTo 30 f.album h.album
  have l4 := length_padTo 4 f.year h.year
  have l5 := length_padTo 28 f.comment h.comment
  have hd : render f = tagMagic ++ padTo 30 f.title ++ padTo 30 f.artist ++ padTo 30 f.album ++ padTo 4 f.year ++
      padTo 28 f.comment ++ [0, f.track, f.genre] := rfl
  have e1 : ((render f).drop 3).take 30 = padTo 30 f.title := by
    rw [hd]; simp only [List.append_assoc]
    rw [List.drop_left' (by simp [tagMagic]), List.take_left' l1]
  have e2 : ((render f).drop 33).take 30 = padTo 30 f.artist := by
    rw [hd]; simp only [List.append_assoc]
    rw [← List.append_assoc tagMagic, List.drop_left' (by simp [tagMagic, l1]), List.take_left' l2]
  have e3 : ((render f).drop 63).take 30 = padTo 30 f.album := by
    rw [hd]; simp only [List.append_assoc]
    rw [← List.append_assoc tagMagic, ← List.append_assoc (tagMagic ++ _),
      List.drop_left' (by simp [tagMagic, l1, l2]), List.take_left' l3]
  have e4 : ((render f).drop 93).take 4 = padTo 4 f.year := by
    rw [hd]; simp only [List.append_assoc]
    rw [← List.append_assoc tagMagic, ← List.append_assoc (tagMagic ++ _), ← List.append_assoc (tagMagic ++ _ ++ _),
      List.drop_left' (by simp [tagMagic, l1, l2, l3]), List.take_left' l4]
  have e5 : ((render f).drop 97).take 28 = padTo 28 f.comment := by
    rw [hd]; simp only [List.append_assoc]
    rw [← List.append_assoc tagMagic, ← List.append_assoc (tagMagic ++ _), ← List.append_assoc (tagMagic ++ _ ++ _),
      ← List.append_assoc (tagMagic ++ _ ++ _ ++ _), List.drop_left' (by simp [tagMagic, l1, l2, l3, l4]), List.take_left' l5]
  have hl : (tagMagic ++ padTo 30 f.title ++ padTo 30 f.artist ++ padTo 30 f.album ++ padTo 4 f.year ++ padTo 28 f.comment).length = 125 := by
    simp [tagMagic, l1, l2, l3, l4, l5]
  have g : ∀ k, (render f).getD (125 + k) 0 = ([0, f.track, f.genre] : Bytes).getD k 0 := by
    intro k
    rw [hd]
    simp only [List.getD_eq_getElem?_getD]
    rw [List.getElem?_append_right (by omega)]
    have : 125 + k - (tagMagic ++ padTo 30 f.title ++ padTo 30 f.artist ++ padTo 30 f.album ++ padTo 4 f.year ++ padTo 28 f.comment).length = k := by omega
    rw [this]
  have g1 := g 1; have g2 := g 2
  simp only [List.getD_cons_zero, List.getD_cons_succ] at g1 g2
  simp only [e1, e2, e3, e4, e5, g1, g2, field, takeWhile_padTo]

/-- `ParseID3v1` never raises for `v2_version` 3 or 4, whatever the bytes -/
theorem id3v1_parse_total (v2 : Nat) (hv : v2 = 3 ∨ v2 = 4) (data : Bytes) : ∃ r, parseID3v1 v2 data = .ok r := by
  unfold parseID3v1
  have c0 : ¬ (v2 ≠ 3 ∧ v2 ≠ 4) := by omega
  rw [if_neg c0]
  cases findTag data with
  | none => exact ⟨_, rfl⟩
  | some i =>
    simp only []
    split <;> exact ⟨_, rfl⟩

/-- … and answers "no tag" unless "TAG" occurs and between 124 and 128 bytes follow its first occurrence (the legacy
blocks with a year field of 0–3 bytes included) -/
theorem id3v1_parse_none (v2 : Nat) (data : Bytes) (i : Nat) (hi : findTag data = some i)
    (hl : 128 < (data.drop i).length ∨ (data.drop i).length < 124) (hv : v2 = 3 ∨ v2 = 4) : parseID3v1 v2 data = .ok none := by
  unfold parseID3v1
  have c0 : ¬ (v2 ≠ 3 ∧ v2 ≠ 4) := by omega
  rw [if_neg c0, hi]
  simp only [hl, ↓reduceIte]

/-- ROUND TRIP: `ParseID3v1(MakeID3v1(frames))` gives: the five texts as `fix` (cut at the first NUL, ASCII white space
stripped at both ends, decoded as Latin-1) of the truncated Latin-1 encodings; the track number unless it is 0; the
genre index unless it is 255 -/
theorem id3v1_roundtrip (v2 : Nat) (hv : v2 = 3 ∨ v2 = 4) (s : Src) (b : Bytes) (h : makeID3v1 s = .ok b) :
    ∃ track, trackByte s.trck = .ok track ∧
      parseID3v1 v2 b = .ok (some
        { title := fix (textBytes s.tit2), artist := fix (textBytes s.tpe1), album := fix (textBytes s.talb),
          year := fix (((yearStr s).map UInt8.ofNat).take 4), comment := fix (commentBytes s.comm),
          track := if track.toNat ≠ 0 then some track.toNat else none,
          genre := if (genreByte s.tcon).toNat ≠ 255 then some (genreByte s.tcon).toNat else none }) :=
  parse_make v2 hv s b h

/-- THE REPRESENTABLE PART comes back exactly: a first value with at most 30 (comment: 28) characters, all of them
Latin-1 and none NUL, without white space at either end -/
theorem id3v1_text_representable (n : Nat) (t : Str) (h : Representable n t) : fix ((latin1Replace t).take n) = t :=
  fix_representable n t h

theorem id3v1_roundtrip_title (v2 : Nat) (hv : v2 = 3 ∨ v2 = 4) (s : Src) (b : Bytes) (h : makeID3v1 s = .ok b)
    (t : Str) (rest : List Str) (ht : s.tit2 = some (t :: rest)) (hr : Representable 30 t) :
    ∃ tag, parseID3v1 v2 b = .ok (some tag) ∧ tag.title = t := by
  obtain ⟨track, _, hp⟩ := id3v1_roundtrip v2 hv s b h
  refine ⟨_, hp, ?_⟩
  simp only [textBytes, ht]
  exact fix_representable 30 t hr

/-- truncation and field boundaries: a title longer than 30 characters is cut after 30 bytes; a NUL inside a value ends
the field for every reader; a value ending in white space loses it on the way back -/
theorem id3v1_truncates (t : Str) : ((latin1Replace t).take 30).length ≤ 30 ∧ (latin1Replace t).take 30 = latin1Replace (t.take 30) := by
  refine ⟨by simp; omega, by simp [latin1Replace, List.map_take]⟩

example : fix (latin1Replace [65, 0, 66]) = [65] ∧ fix (latin1Replace [65, 66, 32]) = [65, 66] ∧
    latin1Replace [0x65E5, 233] = [0x3F, 233] := by decide +kernel

/-! ### the two escapes, and non-vacuity -/

/-- a TIT2 without values: IndexError -/
theorem id3v1_make_raises_index : makeID3v1 { tit2 := some [] } = .error .index ∧
    makeID3v1 { trck := some [] } = .error .index := by decide +kernel

/-- a non-ASCII TYER and no TDRC: UnicodeEncodeError -/
theorem id3v1_make_raises_unicode : makeID3v1 { tyer := some [0xFF12, 48, 48, 52] } = .error .unicode := by decide +kernel

/-- "Title" / artist beyond Latin-1 / track "4/15" / genre "(17)" = Rock / year from TDRC -/
def demoSrc : Src where
  tit2 := some [[84, 105, 116, 108, 101]]
  tpe1 := some [[0x65E5, 0x672C]]
  trck := some [[52, 47, 49, 53]]
  tcon := some [[40, 49, 55, 41]]
  tdrc := some [50, 48, 48, 52, 45, 48, 49]

example : makeID3v1 demoSrc = .ok (render ⟨[84, 105, 116, 108, 101], [0x3F, 0x3F], [], [50, 48, 48, 52], [], 4, 17⟩) := by
  decide +kernel

example : Representable 30 [84, 105, 116, 108, 101] :=
  ⟨by decide, by intro c hc; simp at hc; rcases hc with rfl | rfl | rfl | rfl | rfl <;> decide,
   by intro c hc; simp at hc; subst hc; decide, by intro c hc; simp at hc; subst hc; decide⟩

/-- `TCON.genres` on the forms the property names -/
example : genres [[40, 49, 55, 41]] = [[82, 111, 99, 107]] ∧ genres [[49, 55]] = [[82, 111, 99, 107]] ∧
    genres [[40, 82, 88, 41, 40, 50, 41, 70, 111, 111]] = [sRemix, [67, 111, 117, 110, 116, 114, 121], [70, 111, 111]] ∧
    genres [[40, 40, 120, 41]] = [[40, 120, 41]] ∧ genres [[50, 53, 53]] = [sUnknown] := by decide +kernel

end Mutagen.C13
