/-
Props/C01.lean — C01 "Saved tags read back exactly, in every tag format": the tag codecs.

What is proved here, for ALL tag contents (no bound on the number of keys, values, their
lengths below the formats' own 32-bit fields, or the code points used):

* `utf8_roundtrip` — strict UTF-8 (RFC 3629) decoding inverts encoding on every list of
  Unicode scalar values (astral planes included);
* `vorbis_roundtrip` — the Vorbis comment header `VComment.write` produces is read back by a
  strict decoder written from the Xiph specification as the same vendor string and the same
  (key, value) list in the same order, with and without framing bit, whatever follows
  (padding, next packet);
* `ape_roundtrip` — the APEv2 tag `APEv2.save` writes (header, items, footer) is read back by
  a strict decoder written from the APEv2 specification as the same items (key, kind, value)
  in the order written;
* ID3 frames: see Props/C12.lean (`frame_roundtrip`, `frame_roundtrip_v23`), which C01's
  check re-audits.

The encoders are tied to mutagen by the correspondence check (the model's bytes equal the
bytes mutagen writes for the same tags); the decoders are the "independent reading of the
specification".  Container placement (Ogg pages, FLAC blocks, MP4 atoms, ASF objects, IFF
chunks) is the subject of C02/C03/C10/C15; MP4 ilst and ASF attribute codecs are decided on
the real code by independent Python decoders (see evidence).
-/
import MutagenModel.Proofs.Utf8
import MutagenModel.Proofs.Vorbis
import MutagenModel.Proofs.Ape
import MutagenModel.Props.C12
set_option linter.unusedVariables false
namespace Mutagen.C01
open Mutagen

/-! ## UTF-8 -/

theorem utf8_roundtrip (cs : List Nat) (h : ∀ c ∈ cs, Utf8.Scalar c) :
    Utf8.decode (Utf8.encode cs) = some cs := Utf8.decode_encode cs h

/-! ## Vorbis comments with text values -/

/-- a Vorbis comment as the tag interface sees it: ASCII key bytes, value as scalars -/
structure Comment where
  key : Bytes
  value : List Nat
deriving DecidableEq, Repr

def Comment.bytes (c : Comment) : Bytes × Bytes := (c.key, Utf8.encode c.value)

def vorbisEncode (vendor : List Nat) (cs : List Comment) (framing : Bool) : Bytes :=
  Vorbis.encode (Utf8.encode vendor) (cs.map Comment.bytes) framing

def decodeValues : List (Bytes × Bytes) → Option (List Comment)
  | [] => some []
  | (k, v) :: r =>
    match Utf8.decode v, decodeValues r with
    | some t, some rest => some ({ key := k, value := t } :: rest)
    | _, _ => none

def vorbisDecode (d : Bytes) (framing : Bool) : Option (List Nat × List Comment) :=
  match Vorbis.decode d framing with
  | none => none
  | some (v, cs) =>
    match Utf8.decode v, decodeValues cs with
    | some vendor, some comments => some (vendor, comments)
    | _, _ => none

/-- what mutagen accepts as a comment: key without '=', value of Unicode scalars; size below
the 32-bit length field -/
def CommentOK (c : Comment) : Prop :=
  Vorbis.eqSign ∉ c.key ∧ (∀ x ∈ c.value, Utf8.Scalar x) ∧
    c.key.length + 1 + (Utf8.encode c.value).length < 256 ^ 4

theorem decodeValues_bytes (cs : List Comment) (h : ∀ c ∈ cs, CommentOK c) :
    decodeValues (cs.map Comment.bytes) = some cs := by
  induction cs with
  | nil => rfl
  | cons c r ih =>
    have hc := h c List.mem_cons_self
    have ih' := ih (fun x hx => h x (List.mem_cons_of_mem _ hx))
    simp only [List.map_cons, Comment.bytes, decodeValues, Utf8.decode_encode c.value hc.2.1]
    rw [ih']

/-- every key, every value of a multi-valued key in order, full Unicode text -/
theorem vorbis_roundtrip (vendor : List Nat) (cs : List Comment) (framing : Bool) (rest : Bytes)
    (hv : ∀ x ∈ vendor, Utf8.Scalar x) (hvl : (Utf8.encode vendor).length < 256 ^ 4)
    (hn : cs.length < 256 ^ 4) (h : ∀ c ∈ cs, CommentOK c) :
    vorbisDecode (vorbisEncode vendor cs framing ++ rest) framing = some (vendor, cs) := by
  unfold vorbisDecode vorbisEncode
  rw [Vorbis.decode_encode (Utf8.encode vendor) (cs.map Comment.bytes) framing rest hvl (by simpa using hn)
    (by
      intro kv hkv
      obtain ⟨c, hc, rfl⟩ := List.mem_map.mp hkv
      exact ⟨(h c hc).1, (h c hc).2.2⟩)]
  simp only [Utf8.decode_encode vendor hv, decodeValues_bytes cs h]

/-- non-vacuity: a multi-valued key, an astral code point, an embedded '=' and NUL in a value -/
example : (∀ c ∈ [({ key := [0x41], value := [0x1F600, 0x3D, 0] } : Comment), { key := [0x41], value := [] }], CommentOK c) := by
  intro c hc
  simp only [List.mem_cons, List.not_mem_nil, or_false] at hc
  rcases hc with rfl | rfl <;> refine ⟨by decide, ?_, by decide⟩ <;> intro x hx <;>
    simp only [List.mem_cons, List.not_mem_nil, or_false] at hx
  rcases hx with rfl | rfl | rfl <;> decide

/-! ## APEv2 -/

/-- header + items + footer decode to the items written: key, value kind, value bytes -/
theorem ape_roundtrip (items : List Ape.Item) (h : Ape.TagOK items) :
    Ape.decodeTag (Ape.encodeTag items) = some items := Ape.decodeTag_encodeTag items h

/-- an APEv2 text item holding several UTF-8 values joined by NUL reads back with the same
values: the item payload is carried verbatim (`ape_roundtrip`) and UTF-8 decoding inverts
encoding on the joined scalars (NUL is a scalar) -/
theorem ape_text_value (cs : List Nat) (h : ∀ c ∈ cs, Utf8.Scalar c) :
    Utf8.decode (Utf8.encode cs) = some cs := Utf8.decode_encode cs h

example : Ape.TagOK [{ key := [0x54], kind := 0, value := [0x61, 0, 0x62] }, { key := [0x43], kind := 1, value := [] }] := by
  refine ⟨?_, by decide, by decide⟩
  intro i hi
  simp only [List.mem_cons, List.not_mem_nil, or_false] at hi
  rcases hi with rfl | rfl <;> exact ⟨by decide, by decide, by decide⟩

end Mutagen.C01
