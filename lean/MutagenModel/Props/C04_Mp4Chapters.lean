/-
C04 / C01 for `MP4Chapters` (mutagen/mp4/__init__.py: `MP4Chapters.load`, `_parse_mvhd`, `_parse_chpl`, `Chapter`), the
part of `MP4.load` behind the tags.  Model: Model/Container/Mp4Chapters.lean; proofs: Proofs/Container/Mp4Chapters.lean.

What the code does, quirks included: the chapter count is the byte at offset 8 of the `chpl` payload whatever the version
byte says; `Chapter.start = start / 10000 / mvhd_timescale` (float); a title cut off by the end of the atom is NOT an
error (a short slice decodes), a missing start or length byte is; the timescale is read signed (`>l`), so it can be negative;
every exception inside is `MP4MetadataError` outside (`except Exception` in `MP4.load`).
-/
import MutagenModel.Proofs.Container.Mp4Chapters

namespace Mutagen.C04
open Mutagen Mutagen.Mp4C

/-- the decoder against the Nero `chpl` layout — 8 header bytes (version, 3 flag bytes, 4 reserved bytes; any values), the
count byte, per chapter the 8-byte big-endian start and the title as a Pascal string in UTF-8: `_parse_chpl` returns exactly
the chapters laid out, in order; bytes behind the last entry are ignored.  (`Chapter.start` is then the float
`start / 10000 / timescale`; the title is the decoded string.) -/
theorem mp4_chapters_decode (hdr : Bytes) (cs : List (Nat × List Nat)) (rest : Bytes) (hh : hdr.length = 8)
    (hn : cs.length < 256) (h : ∀ c ∈ cs, ChapterOK c) : parseChpl (encodeChpl hdr cs ++ rest) = .ok cs :=
  parseChpl_encode hdr cs rest hh hn h

/-- the movie timescale `_parse_mvhd` takes: version 0 → the signed 32-bit word at 12 (the duration word at 16 must be there
too), version 1 → the one at 20 (with the 64-bit duration behind it), other versions → none, and the load fails -/
theorem mp4_chapters_timescale (v : UInt8) (r : Bytes) :
    parseMvhdTs (v :: r) =
      if v = 0 then (if (v :: r).length < 20 then .error .mutagen else .ok (some (Mp4Tags.ofSignedBE (readAt (v :: r) 12 4))))
      else if v = 1 then (if (v :: r).length < 32 then .error .mutagen else .ok (some (Mp4Tags.ofSignedBE (readAt (v :: r) 20 4))))
      else .ok none := rfl

/-- totality: for EVERY byte string and EVERY atom list, `MP4Chapters._can_load` + `MP4Chapters(atoms, fileobj)` inside
`MP4.load` ends in a value (`none` = no `moov.udta.chpl` or no `moov.mvhd`) or in `MP4MetadataError` -/
theorem mp4_chapters_total (f : Bytes) (atoms : List PAtom) :
    (∃ r, chaptersPure f atoms = .ok r) ∨ chaptersPure f atoms = .error .mutagen := by
  cases h : chaptersPure f atoms with
  | ok r => exact Or.inl ⟨r, rfl⟩
  | error e => right; rw [chaptersPure_clean f atoms e h]

/-- … and the complete `MP4(fileobj)` (atoms, info, tags, chapters), given the closure of the part in front
(`mp4LoadPure_clean` in Proofs/FileTypes.lean) -/
theorem mp4_load_full_clean (f : Bytes) (hb : ∀ e, loadPure f = .error e → e = .mutagen) :
    ∀ e, loadFullPure f = .error e → e = .mutagen :=
  loadFullPure_clean f hb

/-- a zero or missing timescale, a count larger than the entries present, an invalid title: `MP4MetadataError`; a title
cut short by the end of the atom: accepted -/
example :
    parseChpl ([0, 0, 0, 0, 0, 0, 0, 0, 1] ++ toBE 8 30000 ++ [2, 0x68, 0x69]) = .ok [(30000, [0x68, 0x69])] ∧
    parseChpl ([0, 0, 0, 0, 0, 0, 0, 0, 1] ++ toBE 8 30000 ++ [200, 0x68, 0x69]) = .ok [(30000, [0x68, 0x69])] ∧
    parseChpl ([0, 0, 0, 0, 0, 0, 0, 0, 2] ++ toBE 8 30000 ++ [2, 0x68, 0x69]) = .error .mutagen ∧
    parseChpl ([0, 0, 0, 0, 0, 0, 0, 0, 1] ++ toBE 8 30000 ++ [1, 0xff]) = .error .mutagen ∧
    parseChpl ([0, 0, 0, 0, 0, 0, 0, 0, 1] ++ toBE 8 30000) = .error .mutagen ∧
    parseChpl [0, 0, 0, 0, 0, 0, 0, 0] = .error .mutagen ∧
    parseMvhdTs ([0] ++ List.replicate 11 0 ++ [0xff, 0xff, 0xff, 0xfe] ++ [0, 0, 0, 0]) = .ok (some (-2)) ∧
    parseMvhdTs [2, 0, 0, 0] = .ok none := by
  decide +kernel

end Mutagen.C04
