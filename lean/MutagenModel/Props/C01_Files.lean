/-
Props/C01_Files.lean — C01 ("once tags have been set and save() has returned, loading the file again yields
tags equal to what was set; the bytes written also decode to the same tags under an independent reading of the
format's specification") for ID3 and APEv2 at FILE level: the tag codecs (Model/Id3Spec.lean with Props/C12.lean;
Model/Ape.lean with `ape_roundtrip`) composed with the container models (Model/Container/Id3File.lean,
Model/Container/ApeFile.lean), which so far took the rendered frames / tag as an opaque parameter.

ID3.  `TagRT E tbl fs os` relates the frames set (`fs`) to the frames read back (`os`): every frame satisfies
`FrameRT` — the CONCLUSION of `C12.frame_roundtrip` (v2.4) resp. `C12.frame_roundtrip_v23` for its class, a
four-character id of the table, a non-empty body that fits the size field — or is an empty TextFrame, which
`save_frame` does not write and which is therefore absent from `os` (the canonical form the property names).
`id3_frame_roundtrip_v24` / `_v23` derive `FrameRT` from the hypotheses of the C12 theorems.
The reader is the model of mutagen's own (`read_frames` with its v2.3/v2.4 loop, `determine_bpi`, `_fromData`;
Model/Id3Spec.lean has no second, strict reader of the frame layer: the independent reading of ID3 remains the
Python decoder of harness/props/c01.py).  Two hypotheses are not discharged in general:
* v2.4 only: `determineBpi` — mutagen's heuristic for iTunes' non-syncsafe frame sizes — must recognise the written
  sizes as syncsafe.  It counts known frame ids along both readings of the size fields; a body of 128 bytes or
  more whose bytes happen to spell more frame headers under the plain reading would make the reader choose the
  wrong one.  It is a decidable condition on the written bytes (`example`s below); no general lemma is proved.
* nested frames (CHAP/CTOC) enter through `E.sub` / `E.subw` as in C12.

APEv2.  `ape_file_roundtrip`: after `APEv2.save`, `_APEv2Data` on the saved file finds exactly the new tag and the
strict decoder of Model/Ape.lean (written from the APEv2 specification) returns the items — for ANY file in which
`_APEv2Data` had found `loc` (nothing, a tag at the end with or without ID3v1 / Lyrics3v2 behind it, a tag at the
start), provided the payload does not end in a left-over header stub (`AudioOK`).
-/
import MutagenModel.Proofs.C01Files
set_option linter.unusedVariables false
namespace Mutagen.C01
open Mutagen Mutagen.Id3 Mutagen.C01F

/-! ## ID3 -/

/-- frame level, v2.4: the hypotheses of `C12.frame_roundtrip` (plus: four-character ASCII id of the table that
is its own upgrade, not an empty TextFrame, body non-empty and below 2^28 bytes) give `FrameRT`; what is read
back is `normVals … vals` (the values; the RVA2 peak in its read-side scale) -/
theorem id3_frame_roundtrip_v24 (E : Id3.Env) (hcfg : E.cfg.version = 4) (id : String) (vals : List Val) (cls : FrameClass)
    (hfind : Id3Table.frames.find (nameBytes id) = some cls) (hup : upgradeName cls = some id)
    (hl4 : (nameBytes id).length = 4) (hid : ∀ x ∈ nameBytes id, 0 < x.toNat ∧ x.toNat < 128)
    (hne : ¬ (cls.isText = true ∧ textEmpty cls.required vals = true))
    (hlen1 : cls.required.length ≤ vals.length) (hlen2 : vals.length ≤ (cls.required ++ cls.optional).length)
    (hvalid : FieldsValid E (initCtx cls.required {}) (cls.required ++ cls.optional) vals)
    (hcomp : ∀ hlt : vals.length < (cls.required ++ cls.optional).length,
      handleNoData ((cls.required ++ cls.optional)[vals.length]).kind = false)
    (hbody : ∀ b, writeFrame E.subw E.cfg cls vals = .ok b → b ≠ [] ∧ b.length < 2 ^ 28) :
    FrameRT E Id3Table.frames (.frame id vals) (.frame id (normVals (cls.required ++ cls.optional) vals)) :=
  frameRT_v24 E hcfg id vals cls hfind hup hl4 hid hne hlen1 hlen2 hvalid hcomp hbody

/-- frame level, v2.3: the hypotheses of `C12.frame_roundtrip_v23`; what is read back is the `_get_v23_frame`
conversion `vals'` -/
theorem id3_frame_roundtrip_v23 (E : Id3.Env) (hcfg : E.cfg.version = 3) (id : String) (vals vals' : List Val) (cls : FrameClass)
    (hfind : Id3Table.frames.find (nameBytes id) = some cls) (hup : upgradeName cls = some id)
    (hl4 : (nameBytes id).length = 4) (hid : ∀ x ∈ nameBytes id, 0 < x.toNat ∧ x.toNat < 128)
    (hne : ¬ (cls.isText = true ∧ textEmpty cls.required vals = true))
    (hconv : toV23 E.cfg.sep (cls.required ++ cls.optional) vals = .ok vals')
    (hlen1 : cls.required.length ≤ vals'.length) (hlen2 : vals'.length ≤ (cls.required ++ cls.optional).length)
    (hvalid : FieldsValid E (initCtx cls.required {}) (cls.required ++ cls.optional) vals')
    (hcomp : ∀ hlt : vals'.length < (cls.required ++ cls.optional).length,
      handleNoData ((cls.required ++ cls.optional)[vals'.length]).kind = false)
    (hbody : ∀ b, writeFrame E.subw E.cfg cls vals = .ok b → b ≠ [] ∧ b.length < 2 ^ 32) :
    FrameRT E Id3Table.frames (.frame id vals) (.frame id (normVals (cls.required ++ cls.optional) vals')) :=
  frameRT_v23 E hcfg id vals vals' cls hfind hup hl4 hid hne hconv hlen1 hlen2 hvalid hcomp hbody

/-- TAG level (the theorem Props/C12.lean left open): the bytes `ID3Tags._write(config)` renders for `fs`
(`saveFrames`), followed by `p` bytes of padding, are read by `read_frames` under a header of the same version
without the unsynchronisation flag as the frames `os`, in the order written, leaving the padding -/
theorem id3_tag_roundtrip (E : Id3.Env) (tbl : Table) (hv : E.cfg.version = 3 ∨ E.cfg.version = 4)
    (hh : E.h = { version := E.cfg.version, unsynch := false }) (fs os : List Val) (h : TagRT E tbl fs os)
    (frames : Bytes) (hw : saveFrames E.subw tbl E.cfg fs = .ok frames) (p : Nat)
    (hbpi : E.cfg.version = 4 → determineBpi tbl (frames ++ zeros p) = true) :
    readFramesWith E.sub tbl E.h (frames ++ zeros p) = .ok (os, zeros p) :=
  readFramesWith_roundtrip E tbl hv hh fs os h frames hw p hbpi

/-- … and such frames can always be rendered -/
theorem id3_tag_writes (E : Id3.Env) (tbl : Table) (hu : E.h.unsynch = false) (fs os : List Val) (h : TagRT E tbl fs os) :
    ∃ frames, saveFrames E.subw tbl E.cfg fs = .ok frames :=
  let ⟨w, hw, _⟩ := tag_roundtrip34 E tbl hu (decide (E.cfg.version = 4)) rfl fs os h
  ⟨w, hw⟩

/-- FILE level: for a well-formed layout `[ID3v2 tag?][audio][ID3v1?]`, frames `fs` the codec can write, version
3 or 4, any padding answer `p` and any ID3v1 option: `ID3.save` succeeds; the saved file is new header, frames,
padding, the audio, the ID3v1 block asked for; and reading it the way `ID3.load` does — `ID3Header` finds a tag of
`10 + len(frames) + p` bytes of the version saved with all flags 0, the region of the declared size behind the
header goes to `read_frames` — gives back exactly `os`, with the padding left over -/
theorem id3_file_roundtrip (E : Id3.Env) (hv : E.cfg.version = 3 ∨ E.cfg.version = 4)
    (hh : E.h = { version := E.cfg.version, unsynch := false })
    (L : Id3F.Layout) (hL : L.OK) (fs os : List Val) (hrt : TagRT E Id3Table.frames fs os)
    (frames : Bytes) (hw : saveFrames E.subw Id3Table.frames E.cfg fs = .ok frames)
    (pad : PadChoice) (v1opt : Nat) (blk : Bytes) (p : Nat)
    (hp : getPadding pad ((L.tag.length : Int) - (frames.length + 10 : Nat)) (L.audio.length + L.v1.length) = p)
    (hfit : frames.length + p < 2 ^ 28)
    (hbpi : E.cfg.version = 4 → determineBpi Id3Table.frames (frames ++ zeros p) = true) :
    ∃ hd out, Id3F.header E.cfg.version (frames.length + p) = .ok hd ∧
      Id3F.save L.render E.cfg.version frames pad v1opt blk = .ok out ∧
      out = hd ++ frames ++ zeros p ++ L.audio ++ Id3F.newV1 L.v1 v1opt blk ∧
      Id3F.headerSize out = .ok (some (frames.length + p + 10)) ∧
      out.take 6 = Id3F.magicID3 ++ [UInt8.ofNat E.cfg.version, 0, 0] ∧
      readFramesWith E.sub Id3Table.frames E.h ((out.drop 10).take (frames.length + p)) = .ok (os, zeros p) :=
  id3_saved_file E hv hh L hL fs os hrt frames hw pad v1opt blk p hp hfit hbpi

/-- the same through `ID3Tags._write` / `ID3Tags._read` of the model (`writeTag` / `readTag`: nested CHAP/CTOC
frames are written and read by the same functions one level down), when `E` is that pair -/
theorem id3_file_roundtrip_tags (E : Id3.Env) (hv : E.cfg.version = 3 ∨ E.cfg.version = 4)
    (hh : E.h = { version := E.cfg.version, unsynch := false })
    (L : Id3F.Layout) (hL : L.OK) (fs os : List Val) (hrt : TagRT E Id3Table.frames fs os)
    (frames : Bytes) (hw : saveFrames E.subw Id3Table.frames E.cfg fs = .ok frames)
    (pad : PadChoice) (v1opt : Nat) (blk : Bytes) (p : Nat)
    (hp : getPadding pad ((L.tag.length : Int) - (frames.length + 10 : Nat)) (L.audio.length + L.v1.length) = p)
    (hfit : frames.length + p < 2 ^ 28)
    (hbpi : E.cfg.version = 4 → determineBpi Id3Table.frames (frames ++ zeros p) = true)
    (hsubw : E.subw = writeTagN Id3Table.frames (Val.depthList fs))
    (hsub : E.sub = readTagN Id3Table.frames (frames.length + p)) :
    writeTag Id3Table.frames E.cfg fs = .ok frames ∧
    ∃ out, Id3F.save L.render E.cfg.version frames pad v1opt blk = .ok out ∧
      readTag Id3Table.frames E.h ((out.drop 10).take (frames.length + p)) = .ok (os, zeros p) := by
  obtain ⟨hd, out, hhd, hs, ho, _, _, hr⟩ := id3_file_roundtrip E hv hh L hL fs os hrt frames hw pad v1opt blk p hp hfit hbpi
  refine ⟨by rw [writeTag_eq, ← hsubw]; exact hw, out, hs, ?_⟩
  rw [readTag_eq]
  have hlen : ((out.drop 10).take (frames.length + p)).length = frames.length + p := by
    obtain ⟨a, b, c, d, h1, _⟩ := Id3F.header_ok E.cfg.version (frames.length + p) hfit
    have hl : hd.length = 10 := by rw [h1] at hhd; cases hhd; simp [Id3F.magicID3]
    rw [ho]
    simp only [List.length_take, List.length_drop, List.length_append, length_zeros]
    omega
  rw [hlen, ← hsub]; exact hr

/-- CANONICAL FORM: a TextFrame whose text is `[]` or `[""]` is not written (`save_frame` returns nothing for
it) … -/
theorem id3_empty_text_frame_not_written (subw : Cfg → List Val → Except PyErr Bytes) (tbl : Table) (cfg : Cfg) (f : Val)
    (h : FrameEmpty tbl f) : saveFrame subw tbl cfg f = .ok [] :=
  saveFrame_empty subw tbl cfg f h

/-- … so a tag holding such a frame in addition renders to the same bytes and reads back without it -/
theorem id3_empty_text_frame_vanishes (E : Id3.Env) (tbl : Table) (f : Val) (fs os : List Val)
    (he : FrameEmpty tbl f) (h : TagRT E tbl fs os) :
    TagRT E tbl (f :: fs) os ∧
    saveFrames E.subw tbl E.cfg (f :: fs) = saveFrames E.subw tbl E.cfg fs := by
  refine ⟨TagRT.empty he h, ?_⟩
  simp only [saveFrames, saveFrame_empty E.subw tbl E.cfg f he]
  cases saveFrames E.subw tbl E.cfg fs <;> simp

/-! ## APEv2 -/

open Mutagen.ApeF in
/-- FILE level, any starting file: if `_APEv2Data` finds `loc` in `f` (no tag; a tag at the end, alone or followed by
Lyrics3v2 / ID3v1; a tag at the start) then after `APEv2.save` of `items` the file is `payload ++ tag`,
`_APEv2Data` on the saved file finds exactly the tag — from the end of the payload to the end of the file — and
the strict APEv2 decoder reads the items back from those bytes, in order -/
theorem ape_file_roundtrip (f : Bytes) (loc : Option Loc) (hl : locate f = .ok loc) (items : List Ape.Item)
    (hok : Ape.TagOK items) (ha : AudioOK (baseOf f loc) (Ape.encodeTag items)) :
    ∃ out, save f (Ape.encodeTag items) = .ok out ∧ out = baseOf f loc ++ Ape.encodeTag items ∧
      locate out = .ok (some { start := (baseOf f loc).length, endd := out.length, isAtStart := false }) ∧
      Ape.decodeTag ((out.drop (baseOf f loc).length).take (out.length - (baseOf f loc).length)) = some items :=
  ape_saved_file f loc hl items hok ha

open Mutagen.ApeF in
/-- … on `audio ++ old tag`: the payload is exactly the audio -/
theorem ape_file_roundtrip_layout (audio : Bytes) (old items : List Ape.Item)
    (hold : ((old.map Ape.encodeItem).flatten).length + 32 < 256 ^ 4) (hao : AudioOK audio (Ape.encodeTag old))
    (hok : Ape.TagOK items) (ha : AudioOK audio (Ape.encodeTag items)) :
    save (audio ++ Ape.encodeTag old) (Ape.encodeTag items) = .ok (audio ++ Ape.encodeTag items) ∧
      locate (audio ++ Ape.encodeTag items) =
        .ok (some { start := audio.length, endd := (audio ++ Ape.encodeTag items).length, isAtStart := false }) ∧
      Ape.decodeTag (((audio ++ Ape.encodeTag items).drop audio.length).take
        ((audio ++ Ape.encodeTag items).length - audio.length)) = some items := by
  refine ⟨save_over_tag audio old _ hold hao, locate_tag audio items hok.2.2 ha, ?_⟩
  rw [List.drop_left' rfl, List.take_of_length_le (by simp)]
  exact Ape.decodeTag_encodeTag items hok

open Mutagen.ApeF in
/-- … on `audio ++ old tag ++ ID3v1 block`: the block goes with the old tag, the new tag ends the file -/
theorem ape_file_roundtrip_layout_v1 (audio v1 : Bytes) (old items : List Ape.Item)
    (hold : ((old.map Ape.encodeItem).flatten).length + 32 < 256 ^ 4)
    (hao : audio = [] ∨ isApeAt (audio ++ Ape.encodeTag old ++ v1) (audio.length - 24) = false) (hv : V1OK v1)
    (hok : Ape.TagOK items) (ha : AudioOK audio (Ape.encodeTag items)) :
    save (audio ++ Ape.encodeTag old ++ v1) (Ape.encodeTag items) = .ok (audio ++ Ape.encodeTag items) ∧
      locate (audio ++ Ape.encodeTag items) =
        .ok (some { start := audio.length, endd := (audio ++ Ape.encodeTag items).length, isAtStart := false }) ∧
      Ape.decodeTag (((audio ++ Ape.encodeTag items).drop audio.length).take
        ((audio ++ Ape.encodeTag items).length - audio.length)) = some items := by
  refine ⟨save_over_tag_v1 audio v1 old _ hold hao hv, locate_tag audio items hok.2.2 ha, ?_⟩
  rw [List.drop_left' rfl, List.take_of_length_le (by simp)]
  exact Ape.decodeTag_encodeTag items hok

open Mutagen.ApeF in
/-- CANONICAL FORM: a tag without items is not written (it would be read back as "no tag" and could not be deleted
again): saving it leaves the payload alone — on `audio ++ old tag` exactly the audio, which is what `delete`
leaves, and in which `_APEv2Data` finds nothing when there is nothing to find in the audio -/
theorem ape_empty_tag_not_written (f : Bytes) (loc : Option Loc) (hl : locate f = .ok loc) :
    save f (tagBytes none) = .ok (baseOf f loc) := by
  have := save_eq_base f (tagBytes none) loc hl
  simpa [tagBytes] using this

open Mutagen.ApeF in
theorem ape_empty_tag_is_delete (audio : Bytes) (old : List Ape.Item)
    (hold : ((old.map Ape.encodeItem).flatten).length + 32 < 256 ^ 4) (hao : AudioOK audio (Ape.encodeTag old)) :
    save (audio ++ Ape.encodeTag old) (tagBytes none) = .ok audio ∧ delete (audio ++ Ape.encodeTag old) = .ok audio := by
  refine ⟨?_, delete_tag audio old hold hao⟩
  have := save_over_tag audio old [] hold hao
  simpa [tagBytes] using this


/-! ## non-vacuity

ID3: a tag of three frames, the middle one an empty TextFrame: what is written, that `determine_bpi` accepts it,
what is read back (decided on the generated table); then the hypotheses of the theorems for the first frame. -/

def demoTag : List Val := [.frame "TIT2" [.int 3, .list [.text [65, 66]]], .frame "TPE1" [.int 3, .list []],
  .frame "TALB" [.int 0, .list [.text [67]]]]
def demoBytes : Bytes := [84, 73, 84, 50, 0, 0, 0, 4, 0, 0, 3, 65, 66, 0, 84, 65, 76, 66, 0, 0, 0, 3, 0, 0, 0, 67, 0]

example : saveFrames C12.noSubW Id3Table.frames {} demoTag = .ok demoBytes := by decide +kernel
example : determineBpi Id3Table.frames (demoBytes ++ zeros 12) = true := by decide +kernel
example : (match readFramesWith C12.noSub Id3Table.frames { version := 4 } (demoBytes ++ zeros 12) with
    | .ok (fs, r) => Val.beqList fs [.frame "TIT2" [.int 3, .list [.text [65, 66]]], .frame "TALB" [.int 0, .list [.text [67]]]]
        && (r == zeros 12)
    | .error _ => false) = true := by decide +kernel

theorem find_clsOf (n : String) (h : (Id3Table.frames.find (nameBytes n)).isSome = true) :
    Id3Table.frames.find (nameBytes n) = some (C12.clsOf n) := by
  unfold C12.clsOf C12.tbl
  cases hf : Id3Table.frames.find (nameBytes n) with
  | none => rw [hf] at h; cases h
  | some c => rfl

def demoE : Id3.Env := ⟨C12.noSub, C12.noSubW, {}, { version := 4 }⟩

theorem tit2_specs : (C12.clsOf "TIT2").required = [⟨.encoding, "encoding", (.int 1)⟩, ⟨(.multi [.plain]), "text", (.list [])⟩] ∧
    (C12.clsOf "TIT2").optional = [] := by
  constructor <;> rfl

/-- the hypotheses of `id3_frame_roundtrip_v24` are satisfiable: TIT2, UTF-8, one value -/
theorem demo_frameRT : FrameRT demoE Id3Table.frames (.frame "TIT2" [.int 3, .list [.text [65, 66]]])
    (.frame "TIT2" [.int 3, .list [.text [65, 66]]]) := by
  have h := id3_frame_roundtrip_v24 demoE rfl "TIT2" [.int 3, .list [.text [65, 66]]] (C12.clsOf "TIT2")
    (find_clsOf "TIT2" (by decide +kernel)) (by decide +kernel) (by decide +kernel) (by decide +kernel) (by decide +kernel)
    (by decide +kernel) (by decide +kernel)
    (by
      rw [tit2_specs.1, tit2_specs.2]
      refine ⟨⟨3, rfl, by omega⟩, ⟨by simp, 3, [[.text [65, 66]]], rfl, rfl, by simp, ?_⟩, trivial⟩
      intro r hr
      simp only [List.mem_cons, List.not_mem_nil, or_false] at hr
      subst hr
      exact ⟨⟨by intro x hx; simp at hx; rcases hx with rfl | rfl <;> decide, by simp⟩, by simp, trivial⟩)
    (by intro hlt; exact absurd hlt (by decide +kernel))
    (by
      intro b hb
      have : writeFrame demoE.subw demoE.cfg (C12.clsOf "TIT2") [.int 3, .list [.text [65, 66]]] = .ok [3, 65, 66, 0] := by
        decide +kernel
      rw [this] at hb; cases hb; exact ⟨by simp, by simp⟩)
  rw [tit2_specs.1, tit2_specs.2] at h
  exact h

/-- `TagRT`: the TIT2 round-trips, the empty TPE1 vanishes -/
example : TagRT demoE Id3Table.frames
    [.frame "TIT2" [.int 3, .list [.text [65, 66]]], .frame "TPE1" [.int 3, .list []]]
    [.frame "TIT2" [.int 3, .list [.text [65, 66]]]] :=
  .frame demo_frameRT (.empty ⟨"TPE1", _, C12.clsOf "TPE1", rfl, find_clsOf "TPE1" (by decide +kernel), by decide +kernel,
    by decide +kernel⟩ .nil)

example : FrameEmpty Id3Table.frames (.frame "TPE1" [.int 3, .list []]) :=
  ⟨"TPE1", _, C12.clsOf "TPE1", rfl, find_clsOf "TPE1" (by decide +kernel), by decide +kernel, by decide +kernel⟩

/-! APEv2: 40 bytes of audio, an old tag, a Lyrics3v2 block and an ID3v1 block behind it: `_APEv2Data` finds the tag
through both; the payload is the audio; the new items satisfy `TagOK` (Props/C01.lean has that example) and `AudioOK` -/

def apeAudio : Bytes := List.replicate 40 0x55
def apeOld : List Ape.Item := [{ key := [0x54], kind := 0, value := [0x61] }]
def apeItems : List Ape.Item := [{ key := [0x54], kind := 0, value := [0x61, 0, 0x62] }, { key := [0x43], kind := 1, value := [] }]
/-- a Lyrics3v2 block of 14 bytes with its size field and end marker, and an ID3v1 block -/
def lyrics3 : Bytes := [0x4C, 0x59, 0x52, 0x49, 0x43, 0x53, 0x42, 0x45, 0x47, 0x49, 0x4E, 0x78, 0x79, 0x7A] ++
  [0x30, 0x30, 0x30, 0x30, 0x31, 0x34] ++ ApeF.lyricsEnd
def id3v1 : Bytes := ApeF.tagMagic ++ zeros 125

example : ApeF.locate (apeAudio ++ Ape.encodeTag apeOld ++ lyrics3 ++ id3v1) =
    .ok (some { start := 40, endd := 40 + (Ape.encodeTag apeOld).length, isAtStart := false }) := by decide +kernel
example : ApeF.AudioOK apeAudio (Ape.encodeTag apeItems) := Or.inr (by decide +kernel)
example : ApeF.baseOf (apeAudio ++ Ape.encodeTag apeOld ++ lyrics3 ++ id3v1)
    (some { start := 40, endd := 40 + (Ape.encodeTag apeOld).length, isAtStart := false }) = apeAudio := by decide +kernel
end Mutagen.C01
