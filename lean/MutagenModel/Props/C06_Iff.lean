/-
Props/C06_Iff.lean — C06 "I/O failures surface only as MutagenError; success means written" for the file-object
programs of ID3 chunks in AIFF, WAVE and DSDIFF files (Model/Container/IffM.lean: every call of the real save/delete in
its order) in ARBITRARY fault environments: any exception injected at any call, short reads, any capacity.
-/
import MutagenModel.Proofs.Container.IffCap
set_option linter.unusedVariables false
namespace Mutagen.C06
open Mutagen

/-- `save` at its entry point (`@convert_error(IOError, error)` around `@loadfile` around the body) under ANY fault
environment: what leaves is the module's `error` (a MutagenError), or a non-I/O exception: one the environment itself
injected that is not an IOError, ValueError (`verify_fileobj` turning whatever `read(0)`/`write(b"")` raised into
ValueError — the recorded finding of C06 —, a wrong `v2_version`, an argument check of the primitives) or the
BUFFER_SIZE = 0 marker -/
theorem iff_save_raises_only (d : Iff.Dialect) (B : Nat) (L : Iff.Layout) (vmaj : Nat) (frames : Bytes) (pad : Iff.PadZ) :
    Raises (fun e x => x = .mutagen ∨ (Iff.IffErr e x ∧ x.isIO = false)) (Iff.saveEntry d B L vmaj frames pad) :=
  Raises.convertError PyErr.isIO .mutagen (Iff.raises_saveM d B L vmaj frames pad)

theorem iff_delete_raises_only (d : Iff.Dialect) (B : Nat) (L : Iff.Layout) :
    Raises (fun e x => x = .mutagen ∨ (Iff.IffErr e x ∧ x.isIO = false)) (Iff.deleteEntry d B L) :=
  Raises.convertError PyErr.isIO .mutagen (Iff.raises_deleteM d B L)

/-- the same for `WAVE(...).tags.delete(f)`, the method that wraps the module function (two rounds of `verify_fileobj`) -/
theorem iff_wave_method_delete_raises_only (d : Iff.Dialect) (B : Nat) (L : Iff.Layout) :
    Raises (fun e x => x = .mutagen ∨ (Iff.IffErr e x ∧ x.isIO = false)) (Iff.deleteWaveMethodEntry d B L) :=
  Raises.convertError PyErr.isIO .mutagen (Iff.raises_deleteWaveMethodM d B L)

theorem iff_classes_of_io_faults (e : Env) (hio : ∀ i x, e.failAt i = some x → x.isIO = true) (x : PyErr)
    (h : x = .mutagen ∨ (Iff.IffErr e x ∧ x.isIO = false)) : x = .mutagen ∨ x = .value ∨ x = .diverge := by
  rcases h with h1 | ⟨h2, hn⟩
  · exact Or.inl h1
  · rcases h2 with h2 | h2
    · exact Or.inl h2
    · rcases h2 with ⟨i, hi⟩ | h2 | h2 | h2 | h2
      · have := hio i x hi; rw [this] at hn; cases hn
      · subst h2; cases hn
      · exact Or.inr (Or.inl h2)
      · subst h2; cases hn
      · exact Or.inr (Or.inr h2)

/-- with I/O faults only (every injected exception is an IOError, ENOSPC included): exactly MutagenError or ValueError
(or the BUFFER_SIZE = 0 marker, which a positive buffer size excludes) -/
theorem iff_save_io_faults (d : Iff.Dialect) (B : Nat) (L : Iff.Layout) (vmaj : Nat) (frames : Bytes) (pad : Iff.PadZ)
    (e : Env) (hio : ∀ i x, e.failAt i = some x → x.isIO = true) (s s' : FS) (x : PyErr)
    (h : Iff.saveEntry d B L vmaj frames pad e s = (.error x, s')) : x = .mutagen ∨ x = .value ∨ x = .diverge :=
  iff_classes_of_io_faults e hio x (iff_save_raises_only d B L vmaj frames pad e s x s' h)

theorem iff_delete_io_faults (d : Iff.Dialect) (B : Nat) (L : Iff.Layout)
    (e : Env) (hio : ∀ i x, e.failAt i = some x → x.isIO = true) (s s' : FS) (x : PyErr)
    (h : Iff.deleteEntry d B L e s = (.error x, s')) : x = .mutagen ∨ x = .value ∨ x = .diverge :=
  iff_classes_of_io_faults e hio x (iff_delete_raises_only d B L e s x s' h)

theorem iff_wave_method_delete_io_faults (d : Iff.Dialect) (B : Nat) (L : Iff.Layout)
    (e : Env) (hio : ∀ i x, e.failAt i = some x → x.isIO = true) (s s' : FS) (x : PyErr)
    (h : Iff.deleteWaveMethodEntry d B L e s = (.error x, s')) : x = .mutagen ∨ x = .value ∨ x = .diverge :=
  iff_classes_of_io_faults e hio x (iff_wave_method_delete_raises_only d B L e s x s' h)

/-- a normal return means no injected fault fired (nothing is swallowed on the way) -/
theorem iff_ok_means_no_fault (d : Iff.Dialect) (B : Nat) (L : Iff.Layout) (vmaj : Nat) (frames : Bytes) (pad : Iff.PadZ) :
    OkAgree (Iff.saveM d B L vmaj frames pad) ∧ OkAgree (Iff.deleteM d B L) :=
  ⟨Iff.ok_saveM d B L vmaj frames pad, Iff.ok_deleteM d B L⟩

/-- success means written: a normal return of `save` — in any environment without short reads, whatever exceptions it
would have injected elsewhere, on a device of any capacity — leaves exactly what the pure `Iff.save` computes: header,
frames, padding in the ID3 chunk, both size fields, the pad byte, every other chunk in place -/
theorem iff_save_ok_means_written (d : Iff.Dialect) (hd : d.WF) (B : Nat) (hB : 0 < B) (L : Iff.Layout) (h : L.OK d) (vmaj : Nat)
    (hvm : vmaj = 3 ∨ vmaj = 4) (frames : Bytes) (pad : PadChoice) (p : Nat)
    (hp : getPadding pad ((L.oldLen : Int) - (frames.length + 10 : Nat)) (L.trailing d) = p)
    (hfit : frames.length + p < 2 ^ 28) (hroot : 4 + L.newExtent d (10 + frames.length + p) < 256 ^ d.sizeW)
    (e : Env) (hshort : ∀ i, e.shortAt i = none) (s s' : FS) (hsd : s.data = L.render d) (hpos : s.pos ≤ s.data.length)
    (hok : Iff.saveM d B L vmaj frames pad.toZ e s = (.ok (), s')) :
    Iff.save d (L.render d) vmaj frames pad = .ok s'.data := by
  have h' := Iff.ok_saveM d B L vmaj frames pad.toZ e s () s' hok
  have hq : Quiet e.noFaults := ⟨fun _ => rfl, hshort⟩
  obtain ⟨hdr0, hh0, _, hsave⟩ := Iff.save_layout d hd L h vmaj hvm frames pad p hp hfit hroot
  cases hid : L.id3 with
  | some c =>
    obtain ⟨hdr, hh, _, hr⟩ := Iff.saveM_tagged_q hq d hd B hB L h c hid vmaj hvm frames pad.toZ p
      (by rw [Iff.getPaddingZ_nat]; simpa [Iff.Layout.oldLen, Iff.Layout.trailing, hid] using hp) hfit hroot s hsd hpos
    rw [hh0] at hh; cases hh
    rcases hr with ⟨s2, h1, h2⟩ | ⟨s2, h1, _⟩
    · rw [h1] at h'; injection h' with _ h3; rw [hsave, ← h3, h2]
    · rw [h1] at h'; injection h' with h3 _; cases h3
  | none =>
    obtain ⟨hdr, hh, _, hr⟩ := Iff.saveM_untagged_q hq d hd B hB L h hid vmaj hvm frames pad.toZ p
      (by have := Iff.getPaddingZ_nat pad ((0 : Int) - (frames.length + 10 : Nat)) 0
          rw [show ((0 : Nat) : Int) = 0 from rfl] at this
          rw [this]; simpa [Iff.Layout.oldLen, Iff.Layout.trailing, hid] using hp) hfit hroot s hsd hpos
    rw [hh0] at hh; cases hh
    rcases hr with ⟨s2, h1, h2⟩ | ⟨s2, h1, _⟩ | ⟨s2, h1, _⟩
    · rw [h1] at h'; injection h' with _ h3; rw [hsave, ← h3, h2]
    · rw [h1] at h'; injection h' with h3 _; cases h3
    · rw [h1] at h'; injection h' with h3 _; cases h3

/-- delete on a device of any capacity without faults always completes (nothing grows: C19 has nothing to say) and
leaves exactly what the pure `Iff.delete` computes -/
theorem iff_deleteM_refines {e : Env} (hq : Quiet e) (d : Iff.Dialect) (hd : d.WF) (B : Nat) (hB : 0 < B) (L : Iff.Layout)
    (h : L.OK d) (s : FS) (hsd : s.data = L.render d) (hpos : s.pos ≤ s.data.length) :
    ∃ s', Iff.deleteM d B L e s = (.ok (), s') ∧ Iff.delete d (L.render d) = .ok s'.data := by
  obtain ⟨s', h1, h2⟩ := Iff.deleteM_q hq d hd B hB L h s hsd hpos
  exact ⟨s', h1, by rw [Iff.delete_layout d hd L h, h2]⟩

/-- success means written, for delete: a normal return in any environment without short reads leaves the file without
the ID3 chunk, root size corrected -/
theorem iff_delete_ok_means_written (d : Iff.Dialect) (hd : d.WF) (B : Nat) (hB : 0 < B) (L : Iff.Layout) (h : L.OK d)
    (e : Env) (hshort : ∀ i, e.shortAt i = none) (s s' : FS) (hsd : s.data = L.render d) (hpos : s.pos ≤ s.data.length)
    (hok : Iff.deleteM d B L e s = (.ok (), s')) : Iff.delete d (L.render d) = .ok s'.data := by
  have h' := Iff.ok_deleteM d B L e s () s' hok
  have hq : Quiet e.noFaults := ⟨fun _ => rfl, hshort⟩
  obtain ⟨s2, h1, h2⟩ := iff_deleteM_refines hq d hd B hB L h s hsd hpos
  rw [h1] at h'; injection h' with _ h3
  rw [← h3]; exact h2

/-! non-vacuity: injected faults really surface, converted; `verify_fileobj` turns its fault into ValueError -/
example :
    let L : Iff.Layout := ⟨[0x41, 0x49, 0x46, 0x46], [⟨[0x43, 0x4F, 0x4D, 0x4D], [1, 2, 3], [0]⟩],
      some ⟨[0x49, 0x44, 0x33, 0x20], List.replicate 12 7, []⟩, [⟨[0x53, 0x53, 0x4E, 0x44], [9, 9], []⟩]⟩
    let run := fun (i : Nat) => Iff.saveEntry Iff.aiff 16 L 4 (List.replicate 9 5) (.callback fun _ _ => 0)
      { failAt := fun j => if j = i then some .io else none } { data := L.render Iff.aiff }
    (run 0).1 = .error .value ∧ (run 1).1 = .error .value ∧ (run 7).1 = .error .mutagen ∧
      -- call 33 is the flush that ends move_bytes: the file has grown, the size fields are not yet updated
      (run 33).1 = .error .mutagen ∧ (run 33).2.data.length = (L.render Iff.aiff).length + 8 ∧
      (run 100).1 = .ok () := by
  decide +kernel

end Mutagen.C06
