/-
Props/C02_OggInject.lean — C02 "Saving or deleting tags never alters audio or foreign data" for the
Ogg formats (Vorbis, Opus, Speex, Theora, FLAC in Ogg): the comment packet is replaced inside a file
that is a sequence of pages of one or more logical streams (mutagen/ogg.py OggPage.replace /
renumber / _from_packets_try_preserve, OggFileType.save / delete; the codecs' `_inject`; model:
Model/Container/OggInject.lean, lemmas: Proofs/Container/OggInject.lean).

A file is given as a `Layout`: the pages in front of the comment packet's first page, the pages the
comment packet's run consists of — each followed by the pages of other streams that sit between it
and the next — and the pages behind the run.  `L.OK c`: every page is one `OggPage.write` produces
and `OggPage(fileobj)` reads back unchanged; the run's pages have the edited stream's serial number,
the pages between them do not; the run ends where the code stops collecting (first page that is
complete or holds more than one packet); the codec's search finds the run's first page — for Vorbis
and Theora: the first page in front of the run that starts with the identification magic has the
run's serial number, the run's first page starts with the comment magic, and no page of that serial
between the two does (`IdThenCommentOK`; comment pages of other Vorbis / Theora streams may come
first: they are not the ones edited).
-/
import MutagenModel.Proofs.Container.OggInject
set_option linter.unusedVariables false
namespace Mutagen.C02
open Mutagen Mutagen.Ogg Mutagen.OggInj

/-! ## Ogg: `[pages …][comment packet's pages, other streams' pages interleaved][pages …]` -/

/-- Ogg save (all five codecs): on a well-formed multiplexed layout whose edited stream has
consistent continuation flags, `save` succeeds; the file it writes is the page list `L.after new`;
the pages of every other logical stream are the same pages in the same order (`others`); and the
edited stream, reassembled, holds the same packets in the same order with the new comment packet
`new0` in the place of the old one `old0` — every other packet (identification and setup headers,
audio) byte-identical.  `new0` and `new` are what the codec computes (`newPacket`, `newPages`: see
C09 for `new0`); the last hypothesis keeps page numbers below 2³². -/
theorem ogg_save_preserves_streams_and_packets (c : Codec) (L : Layout) (h : L.OK c)
    (hfresh : L.c1.continued = false) (hflags : contOK false (stream L.serial L.pages))
    (vc padData : Bytes) (pad : PadChoice) (old0 new0 : Bytes) (rest : List Bytes) (new : List Page)
    (hpk : toPackets L.oldPages false = .ok (old0 :: rest))
    (hnp : newPacket c old0 vc padData pad L.render.length = .ok new0)
    (hnew : newPages c (new0 :: rest) L.oldPages = .ok new)
    (hseq : L.c1.sequence + new.length + (L.post.filter (·.serial = L.serial)).length ≤ 2 ^ 32) :
    save c L.render vc padData pad = .ok (renderPages (L.after new)) ∧
    others L.serial (L.after new) = others L.serial L.pages ∧
    ∃ before behind, reasm [] (stream L.serial L.pages) = before ++ old0 :: behind ∧
      reasm [] (stream L.serial (L.after new)) = before ++ new0 :: behind :=
  save_spec c L h (streamOK_of_contOK c L h hfresh hflags) vc padData pad old0 new0 rest new hpk hnp hnew hseq

/-- the new pages always exist: laying out the packets cannot fail -/
theorem ogg_new_pages_exist (c : Codec) (L : Layout) (h : L.OK c) (hfresh : L.c1.continued = false)
    (hflags : contOK false (stream L.serial L.pages)) (old0 new0 : Bytes) (rest : List Bytes)
    (hpk : toPackets L.oldPages false = .ok (old0 :: rest)) :
    ∃ new, newPages c (new0 :: rest) L.oldPages = .ok new :=
  newPages_total c L h (streamOK_of_contOK c L h hfresh hflags) (new0 :: rest) (old0 :: rest) (by simp) hpk

/-- Ogg delete: `delete` is the same edit with an empty comment (the vendor string kept) and no
padding; the other streams and the other packets are kept in the same way -/
theorem ogg_delete_preserves_streams_and_packets (c : Codec) (L : Layout) (h : L.OK c)
    (hfresh : L.c1.continued = false) (hflags : contOK false (stream L.serial L.pages))
    (vendor padData : Bytes) (old0 new0 : Bytes) (rest : List Bytes) (new : List Page)
    (hpk : toPackets L.oldPages false = .ok (old0 :: rest))
    (hnp : newPacket c old0 (Vorbis.encode vendor [] c.framing) padData (.callback fun _ _ => 0) L.render.length = .ok new0)
    (hnew : newPages c (new0 :: rest) L.oldPages = .ok new)
    (hseq : L.c1.sequence + new.length + (L.post.filter (·.serial = L.serial)).length ≤ 2 ^ 32) :
    delete c L.render vendor padData = .ok (renderPages (L.after new)) ∧
    others L.serial (L.after new) = others L.serial L.pages ∧
    ∃ before behind, reasm [] (stream L.serial L.pages) = before ++ old0 :: behind ∧
      reasm [] (stream L.serial (L.after new)) = before ++ new0 :: behind :=
  save_spec c L h (streamOK_of_contOK c L h hfresh hflags) _ padData _ old0 new0 rest new hpk hnp hnew hseq

/-- the hypotheses are satisfiable: a Vorbis stream (serial 7: identification page, a page with the
comment packet and a setup packet, an audio page) multiplexed with another stream (serial 9) is a
well-formed layout; its run holds the two packets; a save that answers the padding callback with 2
yields a new comment packet and one new page; one page of the stream follows -/
example : Example.layout.OK .vorbis ∧ Example.layout.c1.continued = false ∧
    toPackets Example.layout.oldPages false = .ok [Example.commentPacket, Example.setupPacket] ∧
    (∃ new, newPages .vorbis [magicVorbisComment ++ [0, 0, 0, 0, 0, 0, 0, 0, 1] ++ [0, 0], Example.setupPacket]
        Example.layout.oldPages = .ok new ∧ new.length = 1) :=
  ⟨Example.layout_ok, rfl, Example.layout_packets, Example.layout_save.2.1⟩

/-- … with consistent continuation flags -/
example : contOK false (stream Example.layout.serial Example.layout.pages) := by
  have : stream Example.layout.serial Example.layout.pages = [Example.idPage, Example.commentPage, Example.audioPage] := by
    decide
  rw [this]
  refine ⟨rfl, by simp [Example.idPage], rfl, by simp [Example.commentPage], rfl, by simp [Example.audioPage], trivial⟩

/-- … and so is the interleaved case: a comment packet on two pages with a page of the other stream
between them -/
example : Example.layout2.OK .vorbis ∧ toPackets Example.layout2.oldPages false = .ok [Example.part1 ++ Example.part2] :=
  ⟨Example.layout2_ok, Example.layout2_packets⟩

/-- two Vorbis streams in one file in the order A-identification, B-identification, B-comment,
A-comment (serials 7 and 8): the layout whose run is stream A's comment page is well-formed for the
codec — the search passes over B's comment page — and a save (any comment, any padding choice)
succeeds, leaves stream B's three pages exactly as they were, and puts the new comment packet into
stream A in the place of its old one -/
theorem ogg_two_vorbis_streams_first_is_edited (vc : Bytes) (pad : PadChoice) (new0 : Bytes) (new : List Page)
    (hnp : newPacket .vorbis Example.commentPacket vc [] pad Example.layoutAB.render.length = .ok new0)
    (hnew : newPages .vorbis [new0, Example.setupPacket] Example.layoutAB.oldPages = .ok new) (hn : new.length < 1000) :
    Example.layoutAB.OK .vorbis ∧
    save .vorbis Example.layoutAB.render vc [] pad = .ok (renderPages (Example.layoutAB.after new)) ∧
    stream 8 (Example.layoutAB.after new) = [Example.idB, Example.commentB, Example.audioB] ∧
    ∃ before behind, reasm [] (stream 7 Example.layoutAB.pages) = before ++ Example.commentPacket :: behind ∧
      reasm [] (stream 7 (Example.layoutAB.after new)) = before ++ new0 :: behind :=
  ⟨Example.layoutAB_ok, Example.layoutAB_edits_A vc pad new0 new hnp hnew hn⟩

/-- … and its hypotheses are satisfiable: the empty comment with a callback that answers 2 -/
example : newPacket .vorbis Example.commentPacket [0, 0, 0, 0, 0, 0, 0, 0, 1] [] (.callback fun _ _ => 2)
      Example.layoutAB.render.length = .ok (magicVorbisComment ++ [0, 0, 0, 0, 0, 0, 0, 0, 1] ++ [0, 0]) ∧
    (newPages .vorbis [magicVorbisComment ++ [0, 0, 0, 0, 0, 0, 0, 0, 1] ++ [0, 0], Example.setupPacket]
      Example.layoutAB.oldPages).map List.length = .ok 1 := by
  constructor <;> decide +kernel

end Mutagen.C02
