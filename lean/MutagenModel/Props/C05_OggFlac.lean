/-
Props/C05_OggFlac.lean — C05 for FLAC in Ogg (`mutagen.oggflac.OggFLACStreamInfo`).  Property theorems only.
-/
import MutagenModel.Proofs.Info.OggCodecs
set_option linter.unusedVariables false
namespace Mutagen.C05
open Mutagen Mutagen.Ogg Mutagen.Info Mutagen.Spec Mutagen.Spec.OggS

/-- C05 for Ogg FLAC: for every mapping-1.0 header (any header-packet count, STREAMINFO with every field at
its 16/24/20/3/5/36/128-bit width, sample rate ≥ 1) in any stream, the reported block sizes, sample rate,
channels, bits per sample and total samples are the STREAMINFO fields, and the length is total samples
over the rate — or, when the total is 0 ("unknown"), the final granule position over the rate. -/
theorem oggflac_info_decodes (h : OggFlac.Fields) (ok : h.OK) :
    Info.OggFlac.parse (OggFlac.build h) = .ok (OggFlac.expected h) :=
  Info.OggFlac.parse_build h ok

/-- C04 side, as far as it holds: on EVERY byte string the result is a value, the format's error, or
`struct.error` — which `OggFileType.load` does not catch -/
theorem oggflac_info_classes (f : Bytes) : ∀ e, Info.OggFlac.parse f = .error e → e = .mutagen ∨ e = .struct_ :=
  loadWrap_struct _ (fun e h => Info.OggFlac.raw_classes f e h)

/-- the witness: a page whose first packet is 0x7F "FLAC" 01 00 00 (8 bytes; `struct.unpack(">BBH4s",
packet[5:13])` gets three) -/
def oggFlacShortHeader : Bytes :=
  renderB { packets := [Info.OggFlac.magic ++ [1, 0, 0]], first := true, serial := 1 }

theorem oggflac_struct_error_witness : Info.OggFlac.parse oggFlacShortHeader = .error .struct_ := by
  decide +kernel

/-- C04 side, partial: when the packet in which the header search ends is at least 13 bytes long, the
result is a value or the format's error -/
theorem oggflac_info_total_partial (f : Bytes)
    (hlong : ∀ p, OggC.findHeader Info.OggFlac.magic f = .ok p → 13 ≤ (p.packets.headD []).length) :
    ∀ e, Info.OggFlac.parse f = .error e → e = .mutagen :=
  loadWrap_clean _ (fun e h => Info.OggFlac.raw_classes_long f hlong e h)

/-! non-vacuity -/
example : ({ numHeaders := 1, blockHead := 0,
             si := { minBlocksize := 4096, maxBlocksize := 4096, minFramesize := 14, maxFramesize := 9000, sampleRate := 44100,
                     channels := 2, bitsPerSample := 16, totalSamples := 0, md5 := 0 },
             stream := { serial := 3, middle := [], lastSeq := 2, lastGranule := 88200, lastPackets := [[0xFF, 0xF8, 1]] } } : OggFlac.Fields).OK := by
  decide +kernel

end Mutagen.C05
