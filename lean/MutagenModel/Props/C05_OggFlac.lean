/-
Props/C05_OggFlac.lean — C05 for FLAC in Ogg (`mutagen.oggflac.OggFLACStreamInfo`).  Property theorems only.
-/
import MutagenModel.Proofs.Info.OggCodecs
set_option linter.unusedVariables false
namespace Mutagen.C05
open Mutagen Mutagen.Ogg Mutagen.Info Mutagen.Spec Mutagen.Spec.OggS

/-- C05 for Ogg FLAC: for every mapping-1.0 header (any header-packet count, STREAMINFO with every field at
its 16/24/20/3/5/36/128-bit width, sample rate ≥ 1) in any stream, the reported block sizes, sample rate,
channels, bits per sample and total samples are the STREAMINFO fields, and the length is total samples
over the rate — or, when the total is 0 ("unknown"), the final granule position over the rate. -/
theorem oggflac_info_decodes (h : OggFlac.Fields) (ok : h.OK) :
    Info.OggFlac.parse (OggFlac.build h) = .ok (OggFlac.expected h) :=
  Info.OggFlac.parse_build h ok

/-- C04 side: on EVERY byte string the result is a value or the format's error (without the handlers of
`OggFileType.load`: `error` or EOFError) -/
theorem oggflac_info_total (f : Bytes) : ∀ e, Info.OggFlac.parse f = .error e → e = .mutagen :=
  loadWrap_clean _ (fun e h => Info.OggFlac.raw_classes f e h)

theorem oggflac_info_raw_classes (f : Bytes) : ∀ e, Info.OggFlac.raw f = .error e → e = .mutagen ∨ e = .eof :=
  fun e h => Info.OggFlac.raw_classes f e h

/-- the former witness of an escaping `struct.error` (repaired in /repo 808f0c2): a page whose first packet is
0x7F "FLAC" 01 00 00 (8 bytes, the header needs 13) — now OggFLACHeaderError("truncated ID header") -/
def oggFlacShortHeader : Bytes :=
  renderB { packets := [Info.OggFlac.magic ++ [1, 0, 0]], first := true, serial := 1 }

example : Info.OggFlac.parse oggFlacShortHeader = .error .mutagen := by decide +kernel

/-! non-vacuity -/
example : ({ numHeaders := 1, blockHead := 0,
             si := { minBlocksize := 4096, maxBlocksize := 4096, minFramesize := 14, maxFramesize := 9000, sampleRate := 44100,
                     channels := 2, bitsPerSample := 16, totalSamples := 0, md5 := 0 },
             stream := { serial := 3, middle := [], lastSeq := 2, lastGranule := 88200, lastPackets := [[0xFF, 0xF8, 1]] } } : OggFlac.Fields).OK := by
  decide +kernel

end Mutagen.C05
