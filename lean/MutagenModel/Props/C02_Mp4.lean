/-
Props/C02_Mp4.lean — C02 "Saving or deleting tags never alters audio or foreign data", MP4 files with tags:
layouts `fill [moov, udta, meta] hole mid` (Model/Container/Mp4Layout.lean): any atoms before / after the path at every
level (`ftyp`, `mdat`, `moof/traf/tfhd`, `trak/…/stco|co64`, `free`, …; 32- and 64-bit headers), the tag region `mid` =
`ilst` and the adjacent `free` atom `_find_padding` takes.  Model: `saveTags` / `deleteTags` (Model/Container/Mp4.lean, tied
to /repo byte for byte by harness/props/c10.py + mp4file_tie.py); lemmas: Proofs/Container/Mp4Props.lean.
Scope: the `__save_existing` path (a file that has `moov.udta.meta.ilst`); `__save_new` is not stated on layouts here.
-/
import MutagenModel.Proofs.Container.Mp4New
import MutagenModel.Props.C10
set_option linter.unusedVariables false
namespace Mutagen.C02
open Mutagen Mutagen.Mp4C

/-- MP4 save on a well-formed layout, new item atoms with which the tree still fits its size fields (`hfit`), any
padding choice, io.BytesIO or real file: the bytes are the SAVED LAYOUT — same `frames` and `hole`, i.e. every atom that
is not on the path moov→udta→meta→ilst and not the `free` atom taken for padding is the same atom, in the same order, at
every level; the size fields of `moov`, `udta`, `meta` are rendered from the new extents; the region holds the new `ilst`
and one `free` atom — followed by the table steps of `__update_offsets`, which rewrite nothing but the entry fields of
the visited `stco`/`co64` atoms and the base-data-offset field of the visited `tfhd` atoms (`mp4_table_steps_patch_only`),
and are absent when the size does not change -/
theorem mp4_save_preserves_foreign (mem : Bool) (L : Layout) (h : L.OK) (items : List Atom) (pad : PadChoice)
    (hfit : wfList (L.saved items pad).top) :
    saveTags mem L.render (ilstData items) pad = runSteps (L.tableSteps items pad) (L.saved items pad).render ∧
      (L.saved items pad).frames = L.frames ∧ (L.saved items pad).hole = L.hole ∧
      (L.saved items pad).top = fill L.frames L.hole (L.saved items pad).mid :=
  ⟨saveTags_layout mem L h items pad hfit, rfl, rfl, rfl⟩

/-- MP4 delete (`MP4Tags.delete`: a save of no items with padding 0): the same with an empty `ilst` and an empty `free` atom -/
theorem mp4_delete_preserves_foreign (mem : Bool) (L : Layout) (h : L.OK)
    (hfit : wfList (L.saved [] (.callback fun _ _ => 0)).top) :
    deleteTags mem L.render = runSteps (L.tableSteps [] (.callback fun _ _ => 0)) (L.saved [] (.callback fun _ _ => 0)).render ∧
      (L.saved [] (.callback fun _ _ => 0)).frames = L.frames ∧ (L.saved [] (.callback fun _ _ => 0)).hole = L.hole := by
  rw [deleteTags_eq]
  exact ⟨saveTags_layout mem L h [] _ hfit, rfl, rfl⟩

/-- the table steps are the only thing between the saved layout and the file, and they are the steps of
`__update_offsets` on the visited table atoms: none when the size does not change; each one (8-byte header form) leaves
the length and every byte outside `[atom start + 16, atom end)` of its own table atom alone -/
theorem mp4_table_steps_patch_only (L : Layout) (items : List Atom) (pad : PadChoice) :
    (L.delta items pad = 0 → L.tableSteps items pad = []) ∧
    (∀ (g g' : Bytes) (w off len : Nat) (delta : Int) (o : Nat), 12 ≤ len →
      updateOffsetTable8 g w off len delta o = .ok g' → Agree g g' (off + 16) (off + len)) ∧
    (∀ (g g' : Bytes) (off len : Nat) (delta : Int) (o : Nat), 9 ≤ len →
      updateTfhd8 g off len delta o = .ok g' → Agree g g' (off + 16) (off + len)) :=
  ⟨tableSteps_of_delta_zero L items pad, fun g g' w off len delta o hl h => updateOffsetTable_agree g g' w off len delta o hl h,
    fun g g' off len delta o hl h => updateTfhd_agree g g' off len delta o hl h⟩

/-- the media data keeps its bytes and every chunk offset / fragment base offset still points at the same bytes:
`chunk_offsets_follow_partial` (Props/C10) lifted to the full save of a layout.  `SaveSafe` (decidable; table atoms at
least 12 bytes long, 8-byte headers, inside the file, outside the region, pairwise disjoint) and "one top-level moov"
are the side conditions of that theorem, here on the parsed tree of the layout (`annotList 0 L.top`). -/
theorem mp4_save_offsets_follow (mem : Bool) (L : Layout) (h : L.OK) (items : List Atom) (pad : PadChoice) (g : Bytes)
    (hs : saveTags mem L.render (ilstData items) pad = (none, g))
    (hmoov : ((annotList 0 L.top).filter (·.name = nMoov)).length = 1)
    (hsafe : SaveSafe L.render (annotList 0 L.top) (frameAtoms 0 L.frames L.hole L.mid) (holeOffset 0 L.frames L.hole)
      (sizeList L.mid) (((renderList (L.saved items pad).mid).length : Int) - sizeList L.mid)) :
    ∀ t ∈ allTables (annotList 0 L.top),
      C10.TableFollows L.render g (frameAtoms 0 L.frames L.hole L.mid) (annotList 0 L.top) (holeOffset 0 L.frames L.hole)
        (sizeList L.mid) (((renderList (L.saved items pad).mid).length : Int) - sizeList L.mid) t := by
  rw [saveTags_layout_saveAt mem L h items pad] at hs
  exact C10.chunk_offsets_follow_partial _ _ _ _ _ _ _ hs hmoov hsafe

/-- without an offset table to patch the file IS the saved layout -/
theorem mp4_save_preserves_foreign_exact (mem : Bool) (L : Layout) (h : L.OK) (items : List Atom) (pad : PadChoice)
    (hfit : wfList (L.saved items pad).top) (hno : L.tableSteps items pad = []) :
    saveTags mem L.render (ilstData items) pad = (none, (L.saved items pad).render) :=
  saveTags_layout_exact mem L h items pad hfit hno

/-- the final file as a tree: the saved layout (same frames, same hole: every foreign atom in place) in which exactly
the payloads of the visited table atoms were rewritten — `patchTables` applies `payloadPatch` (the atom's own
`__update_offset_table` / `__update_tfhd` on its payload: entries behind the region start + delta) to the leaf at each
table's offset and changes nothing else (`patchAtList`) -/
theorem mp4_save_result_patched (mem : Bool) (L : Layout) (h : L.OK) (items : List Atom) (pad : PadChoice)
    (hfit : wfList (L.saved items pad).top) (htab : L.TablesOK items pad) :
    saveTags mem L.render (ilstData items) pad = (none, renderList (L.savedPatched items pad)) ∧
      L.savedPatched items pad = patchTables (L.delta items pad) (holeOffset 0 L.frames L.hole) (L.visitedTables items pad)
        (fill L.frames L.hole (L.saved items pad).mid) :=
  ⟨(saveTags_layout_patched mem L h items pad hfit htab).1, rfl⟩

/-- `__save_new`: the final file is the old tree with the new atoms in front of the children of `udta` (or of `moov`),
and the payloads of the visited table atoms patched -/
theorem mp4_save_new_preserves_foreign (mem : Bool) (N : NewLayout) (h : N.OK) (items : List Atom) (pad : PadChoice)
    (hfit : wfList (N.saved items pad)) (htab : N.TablesOK items pad) :
    saveTags mem N.render (ilstData items) pad = (none, renderList (N.savedPatched items pad)) ∧
      N.savedPatched items pad = patchTables (N.delta items pad) N.offset (N.visitedTables items pad)
        (fill N.frames ⟨[], N.kids⟩ (N.newAtoms items pad)) :=
  ⟨(saveTags_new mem N h items pad hfit htab).1, rfl⟩

/-- the hypotheses are satisfiable: a layout with a track (`stco` pointing into `mdat`) and one without; the save of
the first one finishes, has one table step, and satisfies the side conditions of `mp4_save_offsets_follow` -/
example : exLayout.OK ∧ exLayout0.OK ∧ wfList (exLayout.saved exItems .default).top ∧ wfList (exLayout0.saved exItems .default).top ∧
    wfList (exLayout.saved [] (.callback fun _ _ => 0)).top ∧
    (exLayout.tableSteps exItems .default).length = 1 ∧ exLayout0.tableSteps exItems .default = [] ∧
    (saveTags true exLayout.render (ilstData exItems) .default).1 = none ∧
    ((annotList 0 exLayout.top).filter (·.name = nMoov)).length = 1 ∧
    SaveSafe exLayout.render (annotList 0 exLayout.top) (frameAtoms 0 exLayout.frames exLayout.hole exLayout.mid)
      (holeOffset 0 exLayout.frames exLayout.hole) (sizeList exLayout.mid)
      (((renderList (exLayout.saved exItems .default).mid).length : Int) - sizeList exLayout.mid) := by
  decide +kernel

end Mutagen.C02
