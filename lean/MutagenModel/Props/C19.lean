/-
Props/C19.lean — C19 "Running out of space while growing leaves the file as it was".
Environments: no injected fault, arbitrary device capacity, arbitrary leak of the failing write.
-/
import MutagenModel.Proofs.Container.FlacCap
set_option linter.unusedVariables false
namespace Mutagen.C19
open Mutagen

/-- resize_file: growing either succeeds or raises ENOSPC with the file byte-identical to
before (the partial growth is truncated away) — for EVERY capacity, i.e. whichever byte of the
enlargement the device fills up at, every leak and every buffer size -/
theorem resize_rollback {e : Env} (hq : Quiet e) (B : Nat) (hB : 0 < B) (size : Nat) (s : FS) :
    (∃ s', resizeFile B size e s = (.ok (), s') ∧ s'.data = s.data ++ zeros size) ∨
    (∃ s', resizeFile B size e s = (.error .enospc, s') ∧ s'.data = s.data) :=
  resizeFile_grow_q hq B hB size s

/-- insert_bytes: failure inside it leaves the file unchanged — the growth precedes the move,
and the move only writes inside the file -/
theorem insert_bytes_atomic {e : Env} (hq : Quiet e) (B : Nat) (hB : 0 < B) (size offset : Nat) (s : FS)
    (ho : offset ≤ s.data.length) :
    (∃ s', insertBytes B size offset e s = (.ok (), s') ∧
      s'.data = s.data.take offset ++ readAt (s.data ++ zeros size) offset size ++ s.data.drop offset) ∨
    (∃ s', insertBytes B size offset e s = (.error .enospc, s') ∧ s'.data = s.data) :=
  insertBytes_q hq B hB size offset s ho

/-- resize_bytes (under every saver): completes, or ENOSPC with the file untouched -/
theorem resize_bytes_atomic {e : Env} (hq : Quiet e) (B : Nat) (hB : 0 < B) (old new offset : Nat) (s : FS)
    (ho : offset + old ≤ s.data.length) :
    (∃ s' gap, resizeBytes B old new offset e s = (.ok (), s') ∧ gap.length = new - old ∧
      s'.data = s.data.take offset ++ (s.data.drop offset).take (min old new) ++ gap ++ s.data.drop (offset + old)) ∨
    (∃ s', resizeBytes B old new offset e s = (.error .enospc, s') ∧ s'.data = s.data) :=
  resizeBytes_q hq B hB old new offset s ho

/-- moving and shrinking never fail for lack of space -/
theorem delete_bytes_never_enospc {e : Env} (hq : Quiet e) (B : Nat) (hB : 0 < B) (size offset : Nat) (s : FS)
    (ho : offset + size ≤ s.data.length) :
    ∃ s', deleteBytes B size offset e s = (.ok (), s') ∧ s'.data = s.data.take offset ++ s.data.drop (offset + size) :=
  deleteBytes_q hq B hB size offset s ho

open Mutagen.FlacC in
/-- FLAC: save() either completes or raises with the file byte-identical, length included -/
theorem flac_save_enlarge_first {e : Env} (hq : Quiet e) (B : Nat) (hB : 0 < B) (L : Layout) (blocks : List Block)
    (pad : PadChoice) (hsz : ∀ b ∈ blocks, b.data.length ≤ maxSize) (s : FS) (hs : s.data = render L) :
    (∃ s', saveM B L blocks pad e s = (.ok (), s') ∧ s'.data = render (msave L blocks false pad)) ∨
    (∃ s', saveM B L blocks pad e s = (.error .enospc, s') ∧ s'.data = s.data) :=
  saveM_q hq B hB L blocks pad hsz s hs

/-! non-vacuity: a full device really produces the ENOSPC branch, and leaks are rolled back -/
example : (resizeFile 3 5 { cap := some 6, leak := fun _ => 2 } { data := [1, 2, 3, 4] }).1 = .error .enospc ∧
    (resizeFile 3 5 { cap := some 6, leak := fun _ => 2 } { data := [1, 2, 3, 4] }).2.data = [1, 2, 3, 4] := by
  decide +kernel
example : Quiet { cap := some 6, leak := fun _ => 2 } := ⟨fun _ => rfl, fun _ => rfl⟩

end Mutagen.C19
