/-
Props/C12_More.lean — C12, the three gaps Props/C12.lean used to list:
 (1) `RVASpec` (RVAD / RVA): `read_write_rva` for EVERY value `RVASpec.write` accepts (`RvaOK`), so that
     `read_write_spec`, `frame_roundtrip` cover the RVAD class too (`rvad_frame_roundtrip`);
 (2) nested frames: CHAP / CTOC whose `sub_frames` are round-tripping frames, to any depth
     (`id3_nested_tag_roundtrip`);
 (3) the ID3v2.2 → v2.3/2.4 upgrade on read.
Property theorems only; lemmas in Proofs/Id3Rva.lean, Proofs/Id3More.lean.
-/
import MutagenModel.Props.C12
import MutagenModel.Props.C01_Files
import MutagenModel.Proofs.Id3More
set_option linter.unusedVariables false
set_option linter.unusedSimpArgs false
namespace Mutagen.C12
open Mutagen Mutagen.Id3 Mutagen.C01F

/-! ## (1) RVASpec -/

/-- RVASpec (RVAD: up to 12 values, RVA: up to 4), for every list of integers `write` accepts — `RvaOK`: two to
`_max_values` values; negative values only at the six positions that have a sign bit (0, 1, 4, 5, 8, 10 — the volume
adjustments; the others are peaks); every magnitude below 256^31 (the "bits used" byte can say 248 at most) —
`read(write(values)) = values`.  The magnitudes may need DIFFERENT numbers of bytes: `write` pads them on the left to the
widest (at least two bytes), `read` takes `ceil(bits/8)` bytes each.  (Before the repair d18492d the padding was on the
right and only equal widths survived: known finding `rva-mixed-width`, fixed.) -/
theorem read_write_rva (E : Id3.Env) (c : Ctx) (m : Nat) (vals : List Int) (ok : RvaOK m vals) :
    ∃ b, writeSpec E.subw E.cfg (.rva m) c (.list (vals.map Val.int)) = .ok b ∧
      readSpec E.sub E.h (.rva m) c b = .ok (.list (vals.map Val.int), []) := by
  have := read_write_spec E c (.rva m) (.list (vals.map Val.int)) ⟨vals, rfl, ok⟩ [] (fun _ => rfl)
  simpa [normVal] using this

/-- `RvaOK` is EXACTLY the set of integer lists `RVASpec.write` accepts: outside it `write` raises (too few / too many
values: SpecError; a negative peak or a magnitude of more than 31 bytes: ValueError), inside it `read_write_rva` holds.
So `read(write(v)) = v` whenever `write` succeeds. -/
theorem rva_write_domain (m : Nat) (vals : List Int) :
    (∃ b, writeRva m (.list (vals.map Val.int)) = .ok b) ↔ RvaOK m vals :=
  writeRva_ok_iff m vals

/-- the RVAD frame of the generated table, through `frame_roundtrip` -/
theorem rvad_frame_roundtrip (E : Id3.Env) (hcfg : E.cfg.version ≠ 3) (adj : List Int) (ok : RvaOK 12 adj) :
    ∃ b, writeFrame E.subw E.cfg (clsOf "RVAD") [.list (adj.map Val.int)] = .ok b ∧
      readFrame E.sub E.h (clsOf "RVAD") b = .ok ([.list (adj.map Val.int)], []) := by
  have hmem : clsOf "RVAD" ∈ Id3Table.frames := Table.find_mem tbl (nameBytes "RVAD") (by decide +kernel)
  have hreq : (clsOf "RVAD").required = [⟨.rva 12, "adjustments", .list [.int 0, .int 0]⟩] := by rfl
  have hopt : (clsOf "RVAD").optional = [] := by rfl
  have := frame_roundtrip E (clsOf "RVAD") hmem [.list (adj.map Val.int)] hcfg (by rw [hreq]; simp) (by rw [hreq, hopt]; simp)
    (by rw [hreq, hopt]; exact ⟨⟨adj, rfl, ok⟩, trivial⟩) (by rw [hreq, hopt]; simp)
  rw [hreq, hopt] at this
  simpa [normVals, normVal] using this

/-- `RvaOK` is decidable; mixed widths and all six signs -/
example : RvaOK 12 [1, -70000, 0, 65536, -3, 4, 5, 6, 7, 8, -9, 10] := by decide +kernel
example : ¬ RvaOK 12 [1, 2, -3] := by decide +kernel          -- a negative peak
example : ¬ RvaOK 4 [1, 2, 3, 4, 5] := by decide +kernel       -- RVA (v2.2) has four values at most

/-! ## (2) nested frames, to any depth -/

/-- THE nested round trip, no reader or writer left as a parameter.  `NestedRT tbl cfg d fs` (Proofs/Id3More.lean): at
level 0 every frame of `fs` satisfies the conclusion of `frame_roundtrip` whatever the nested codec (`TagRT`; frames
without sub-frames); at level `d + 1` the CHAP / CTOC frames of `fs` do so for every nested codec that round-trips their
`sub_frames` lists, and these lists are of level `d`.  Then with more than `d` levels of nesting allowed on both sides,
`ID3Tags._write` renders `fs` and `read_frames` — under a header of the version written, not unsynchronised — reads the
bytes, followed by any padding, back as `fs`, leaving the padding.  (v2.4: `determine_bpi` has to recognise the sizes as
syncsafe at each level — `SubBpi` inside `NestedRT`, the hypothesis here for the top level;
`C01.determine_bpi_syncsafe` derives it from the body lengths.) -/
theorem id3_nested_tag_roundtrip_levels (tbl : Table) (cfg : Cfg) (hv : cfg.version = 3 ∨ cfg.version = 4) (d : Nat)
    (fs : List Val) (H : NestedRT tbl cfg d fs) (n m : Nat) (hn : d + 1 ≤ n) (hm : d + 1 ≤ m) :
    ∃ frames, writeTagN tbl m cfg fs = .ok frames ∧
      ∀ p, (cfg.version = 4 → determineBpi tbl (frames ++ zeros p) = true) →
        readTagN tbl n (hdrOf cfg) (frames ++ zeros p) = .ok (fs, zeros p) :=
  nested_core tbl cfg hv d fs H n m hn hm

/-- … through `ID3Tags._write(config)` / `ID3Tags._read(header, data)` themselves: `writeTag` allows as many levels as
the frames are deep, `readTag` as many as there are bytes (each level strips a frame header of ten bytes, so that is
always enough; here: `d ≤ len`) -/
theorem id3_nested_tag_roundtrip (tbl : Table) (cfg : Cfg) (hv : cfg.version = 3 ∨ cfg.version = 4) (d : Nat)
    (fs : List Val) (H : NestedRT tbl cfg d fs) (hd : d ≤ Val.depthList fs) :
    ∃ frames, writeTag tbl cfg fs = .ok frames ∧
      ∀ p, d ≤ frames.length + p → (cfg.version = 4 → determineBpi tbl (frames ++ zeros p) = true) →
        readTag tbl (hdrOf cfg) (frames ++ zeros p) = .ok (fs, zeros p) :=
  nested_tag tbl cfg hv d fs H hd

/-- the writer does not depend on the number of levels allowed: what it renders with `m` levels it renders with more
(no `.diverge` once there are enough) -/
theorem write_tag_levels_monotone (tbl : Table) (m m' : Nat) (h : m ≤ m') (cfg : Cfg) (fs : List Val) (b : Bytes)
    (hw : writeTagN tbl m cfg fs = .ok b) : writeTagN tbl m' cfg fs = .ok b :=
  writeTagN_le tbl m m' h cfg fs b hw

/-- `NestedRT` is monotone in the level -/
theorem nestedRT_succ (tbl : Table) (cfg : Cfg) (d : Nat) (fs : List Val) (h : NestedRT tbl cfg d fs) :
    NestedRT tbl cfg (d + 1) fs := NestedRT.succ tbl cfg d fs h

/-! ### non-vacuity of `NestedRT`: a CHAP frame with a TIT2 sub-frame, on the generated table -/

def demoSub : List Val := [.frame "TIT2" [.int 3, .list [.text [65, 66]]]]
def demoChap : List Val := [.frame "CHAP" [.text [99], .int 0, .int 1, .int 2, .int 3, .list demoSub]]

theorem refW_noSub (b : Cfg → List Val → Except PyErr Bytes) : RefW noSubW b := by
  intro cfg fs x h; cases h

/-- level 0: the TIT2 frame, whatever the nested codec -/
theorem demoSub_level0 : NestedRT Id3Table.frames {} 0 demoSub := by
  intro E hcfg hh
  refine .frame ?_ .nil
  have hw : writeFrame E.subw E.cfg (clsOf "TIT2") [.int 3, .list [.text [65, 66]]] = .ok [3, 65, 66, 0] := by
    rw [hcfg]
    exact writeFrame_mono noSubW E.subw (refW_noSub _) {} _ _ _ (by decide +kernel)
  have h := C01.id3_frame_roundtrip_v24 E (by rw [hcfg]) "TIT2" [.int 3, .list [.text [65, 66]]] (clsOf "TIT2")
    (C01.find_clsOf "TIT2" (by decide +kernel)) (by decide +kernel) (by decide +kernel) (by decide +kernel) (by decide +kernel)
    (by decide +kernel) (by decide +kernel)
    (by
      rw [C01.tit2_specs.1, C01.tit2_specs.2]
      refine ⟨⟨3, rfl, by omega⟩, ⟨by simp, 3, [[.text [65, 66]]], rfl, rfl, by simp, ?_⟩, trivial⟩
      intro r hr
      simp only [List.mem_cons, List.not_mem_nil, or_false] at hr
      subst hr
      exact ⟨⟨by intro x hx; simp at hx; rcases hx with rfl | rfl <;> decide, by simp⟩, by simp, trivial⟩)
    (by intro hlt; exact absurd hlt (by decide +kernel))
    (by intro b hb; rw [hw] at hb; cases hb; exact ⟨by simp, by simp⟩)
  rw [C01.tit2_specs.1, C01.tit2_specs.2] at h
  exact h
theorem chap_specs : (clsOf "CHAP").required = [⟨.latin1Text, "element_id", (.text [])⟩, ⟨(.sizedInt 4), "start_time", (.int 0)⟩,
      ⟨(.sizedInt 4), "end_time", (.int 0)⟩, ⟨(.sizedInt 4), "start_offset", (.int 4294967295)⟩,
      ⟨(.sizedInt 4), "end_offset", (.int 4294967295)⟩, ⟨.frames, "sub_frames", (.list [])⟩] ∧
    (clsOf "CHAP").optional = [] := by
  constructor <;> rfl

def demoSubBytes : Bytes := [84, 73, 84, 50, 0, 0, 0, 4, 0, 0, 3, 65, 66, 0]

theorem demoSub_write1 : writeTagN Id3Table.frames 1 {} demoSub = .ok demoSubBytes := by decide +kernel

/-- level 1: a CHAP frame with the TIT2 as its sub-frame -/
theorem demoChap_level1 : NestedRT Id3Table.frames {} 1 demoChap := by
  refine ⟨[demoSub], ?_, ?_⟩
  · intro s hs
    simp only [List.mem_cons, List.not_mem_nil, or_false] at hs
    subst hs
    refine ⟨demoSub_level0, ?_⟩
    intro _ m b hw
    -- the bytes are the same at every level that writes them
    cases m with
    | zero => simp [writeTagN, demoSub] at hw
    | succ k =>
      have := writeTagN_le Id3Table.frames 1 (k + 1) (by omega) {} demoSub _ demoSub_write1
      rw [this] at hw; cases hw
      decide +kernel
  · intro n m hsub
    obtain ⟨b, hw, hr⟩ := hsub demoSub (by simp)
    have hm : 1 ≤ m := by
      cases m with
      | zero => simp [writeTagN, demoSub] at hw
      | succ k => omega
    have hb : b = demoSubBytes := by
      have := writeTagN_le Id3Table.frames 1 m hm {} demoSub _ demoSub_write1
      rw [this] at hw; cases hw; rfl
    subst hb
    refine .frame ?_ .nil
    have hwf : writeFrame (writeTagN Id3Table.frames m) {} (clsOf "CHAP") [.text [99], .int 0, .int 1, .int 2, .int 3, .list demoSub]
        = .ok ([99, 0, 0, 0, 0, 0, 0, 0, 0, 1, 0, 0, 0, 2, 0, 0, 0, 3] ++ demoSubBytes) :=
      writeFrame_mono (writeTagN Id3Table.frames 1) _ (writeTagN_le Id3Table.frames 1 m hm) {} _ _ _ (by decide +kernel)
    have h := C01.id3_frame_roundtrip_v24 (envAt Id3Table.frames {} n m) rfl "CHAP"
      [.text [99], .int 0, .int 1, .int 2, .int 3, .list demoSub] (clsOf "CHAP")
      (C01.find_clsOf "CHAP" (by decide +kernel)) (by decide +kernel) (by decide +kernel) (by decide +kernel) (by decide +kernel)
      (by decide +kernel) (by decide +kernel)
      (by
        rw [chap_specs.1, chap_specs.2]
        refine ⟨⟨[99], rfl, by intro x hx; simp at hx; subst hx; decide⟩, ⟨0, rfl, by decide, by decide⟩, ⟨1, rfl, by decide, by decide⟩,
          ⟨2, rfl, by decide, by decide⟩, ⟨3, rfl, by decide, by decide⟩, ⟨demoSub, demoSubBytes, rfl, hw, hr⟩, trivial⟩)
      (by intro hlt; exact absurd hlt (by decide +kernel))
      (by
        intro b hb
        have : writeFrame (envAt Id3Table.frames {} n m).subw (envAt Id3Table.frames {} n m).cfg (clsOf "CHAP")
            [.text [99], .int 0, .int 1, .int 2, .int 3, .list demoSub] = _ := hwf
        rw [this] at hb; cases hb; exact ⟨by simp, by simp [demoSubBytes]⟩)
    rw [chap_specs.1, chap_specs.2] at h
    exact h

/-- … so `id3_nested_tag_roundtrip` applies: written by `ID3Tags._write`, read back by `ID3Tags._read`, padding or not -/
theorem demoChap_roundtrip : ∃ frames, writeTag Id3Table.frames {} demoChap = .ok frames ∧
    ∀ p, (determineBpi Id3Table.frames (frames ++ zeros p) = true) →
      readTag Id3Table.frames { version := 4 } (frames ++ zeros p) = .ok (demoChap, zeros p) := by
  obtain ⟨frames, hw, hr⟩ := id3_nested_tag_roundtrip Id3Table.frames {} (.inr rfl) 1 demoChap demoChap_level1 (by decide +kernel)
  refine ⟨frames, hw, fun p hb => hr p ?_ (fun _ => hb)⟩
  have : writeTag Id3Table.frames {} demoChap = .ok ([67, 72, 65, 80, 0, 0, 0, 32, 0, 0] ++
      ([99, 0, 0, 0, 0, 0, 0, 0, 0, 1, 0, 0, 0, 2, 0, 0, 0, 3] ++ demoSubBytes)) := by decide +kernel
  rw [this] at hw; cases hw
  simp; omega


/-! ## (3) the ID3v2.2 → v2.3/2.4 upgrade on read

`read_frames` hands every v2.2 frame to `_upgrade_frame`: `base(self)` with `_to_other` copying the attributes
(`upgradeName` in the model).  The classes of `Frames_2_2` fall into: CRM — no equivalent, dropped; 70 classes that
share `_framespec` / `_optionalspec` with their base class (`class TT2(TIT2)`), decided over the generated table
(`v22_table_plain`); and PIC, LNK, RVA, whose own specs differ from the base's. -/

/-- the 70 classes with the specs of their base: the v2.2 payload IS the v2.3/2.4 payload — what the v2.2 class writes for
the values, the base class writes too, and both read it back as the values; the frame read from a v2.2 tag is given the
base class's name -/
theorem v22_frame_upgrade_roundtrip (E : Id3.Env) (cls : FrameClass) (hmem : cls ∈ Id3Table.frames)
    (h3 : cls.name.length = 3) (hb : cls.base ≠ "Frame") (hn : cls.name ≠ "PIC" ∧ cls.name ≠ "LNK" ∧ cls.name ≠ "RVA")
    (vals : List Val) (hcfg : E.cfg.version ≠ 3)
    (hlen1 : cls.required.length ≤ vals.length) (hlen2 : vals.length ≤ (cls.required ++ cls.optional).length)
    (hvalid : FieldsValid E (initCtx cls.required {}) (cls.required ++ cls.optional) vals)
    (hcomp : ∀ hlt : vals.length < (cls.required ++ cls.optional).length,
      handleNoData ((cls.required ++ cls.optional)[vals.length]).kind = false) :
    upgradeName cls = some cls.base ∧
    ∃ base b, Id3Table.frames.find (nameBytes cls.base) = some base ∧
      writeFrame E.subw E.cfg cls vals = .ok b ∧ writeFrame E.subw E.cfg base vals = .ok b ∧
      readFrame E.sub E.h cls b = .ok (normVals (cls.required ++ cls.optional) vals, []) ∧
      readFrame E.sub E.h base b = .ok (normVals (cls.required ++ cls.optional) vals, []) := by
  obtain ⟨base, hf, _, h1, h2⟩ := v22_base cls hmem h3 hb hn
  obtain ⟨b, hw, hr⟩ := frame_roundtrip E cls hmem vals hcfg hlen1 hlen2 hvalid hcomp
  refine ⟨by simp [upgradeName, h3, hb], base, b, hf, hw, ?_, hr, ?_⟩
  · rw [← writeFrame_specs E.subw E.cfg cls base h1 h2]; exact hw
  · rw [← readFrame_specs E.sub E.h cls base h1 h2]; exact hr

/-- CRM has no v2.3/2.4 equivalent: the frame is read and dropped -/
theorem v22_crm_dropped : upgradeName (clsOf "CRM") = none := by decide +kernel

/-- PIC → APIC.  The v2.2 picture frame holds a three-character image format ("JPG", "PNG": `StringSpec('mime', 3)`)
where APIC has the NUL-terminated MIME type (`Latin1TextSpec('mime')`); `_to_other` copies the value as it is.  For every
PIC the codec writes and reads back (first part), the upgraded frame — the same five values under the APIC class — is
written and read back by the APIC codec (second part), provided the format has no NUL character. -/
theorem v22_pic_upgrade_roundtrip (E : Id3.Env) (hcfg : E.cfg.version ≠ 3) (enc : Val) (mime : Text) (typ desc data : Val)
    (hvalid : FieldsValid E (initCtx (clsOf "PIC").required {}) (clsOf "PIC").required [enc, .text mime, typ, desc, data])
    (hnz : ∀ x ∈ mime, x ≠ 0) :
    upgradeName (clsOf "PIC") = some "APIC" ∧
    (∃ b, writeFrame E.subw E.cfg (clsOf "PIC") [enc, .text mime, typ, desc, data] = .ok b ∧
      readFrame E.sub E.h (clsOf "PIC") b = .ok ([enc, .text mime, typ, desc, data], [])) ∧
    (∃ b, writeFrame E.subw E.cfg (clsOf "APIC") [enc, .text mime, typ, desc, data] = .ok b ∧
      readFrame E.sub E.h (clsOf "APIC") b = .ok ([enc, .text mime, typ, desc, data], [])) := by
  have hp : (clsOf "PIC").required = [⟨.encoding, "encoding", (.int 1)⟩, ⟨(.string 3), "mime", (.text [74, 80, 71])⟩,
      ⟨.pictureType, "type", (.int 3)⟩, ⟨(.encText .plain), "desc", (.text [])⟩, ⟨.binary, "data", (.bytes [])⟩] := by rfl
  have hpo : (clsOf "PIC").optional = [] := by rfl
  have ha : (clsOf "APIC").required = [⟨.encoding, "encoding", (.int 1)⟩, ⟨.latin1Text, "mime", (.text [])⟩,
      ⟨.pictureType, "type", (.int 3)⟩, ⟨(.encText .plain), "desc", (.text [])⟩, ⟨.binary, "data", (.bytes [])⟩] := by rfl
  have hao : (clsOf "APIC").optional = [] := by rfl
  have hmp : clsOf "PIC" ∈ Id3Table.frames := Table.find_mem tbl (nameBytes "PIC") (by decide +kernel)
  have hma : clsOf "APIC" ∈ Id3Table.frames := Table.find_mem tbl (nameBytes "APIC") (by decide +kernel)
  rw [hp] at hvalid
  obtain ⟨v1, v2, v3, v4, v5, _⟩ := hvalid
  refine ⟨by decide +kernel, ?_, ?_⟩
  · have := frame_roundtrip E (clsOf "PIC") hmp [enc, .text mime, typ, desc, data] hcfg (by rw [hp]; simp) (by rw [hp, hpo]; simp)
      (by rw [hp, hpo]; exact ⟨v1, v2, v3, v4, v5, trivial⟩) (by rw [hp, hpo]; simp)
    rw [hp, hpo] at this
    simpa [normVals, normVal] using this
  · have v2' : Valid E (ctxUpdate (initCtx [⟨.encoding, "encoding", (.int 1)⟩, ⟨.latin1Text, "mime", (.text [])⟩,
        ⟨.pictureType, "type", (.int 3)⟩, ⟨(.encText .plain), "desc", (.text [])⟩, ⟨.binary, "data", (.bytes [])⟩] {}) "encoding"
        (normVal .encoding enc)) .latin1Text (.text mime) :=
      valid_string3_latin1 E _ _ v2 (fun t ht x hx => by cases ht; exact hnz x hx)
    have := frame_roundtrip E (clsOf "APIC") hma [enc, .text mime, typ, desc, data] hcfg (by rw [ha]; simp) (by rw [ha, hao]; simp)
      (by rw [ha, hao]; exact ⟨v1, v2', v3, v4, v5, trivial⟩) (by rw [ha, hao]; simp)
    rw [ha, hao] at this
    simpa [normVals, normVal] using this

/-- RVA → RVAD: the same `RVASpec` with four values at most instead of twelve; what is valid for RVA is valid for RVAD -/
theorem v22_rva_upgrade_roundtrip (E : Id3.Env) (hcfg : E.cfg.version ≠ 3) (adj : List Int) (ok : RvaOK 4 adj) :
    upgradeName (clsOf "RVA") = some "RVAD" ∧
    ∃ b, writeFrame E.subw E.cfg (clsOf "RVAD") [.list (adj.map Val.int)] = .ok b ∧
      readFrame E.sub E.h (clsOf "RVAD") b = .ok ([.list (adj.map Val.int)], []) :=
  ⟨by decide +kernel, rvad_frame_roundtrip E hcfg adj (rvaOK_mono 4 12 (by decide) adj ok)⟩

/-- LNK → LINK.  `LNK._to_other` replaces the three-character id of the frame linked to by the id of its v2.3/2.4
equivalent (`Frames_2_2[id].__bases__[0].__name__`, an unknown id is padded with a space): `lnkUpgradeId`.  Unless the id
is CRM's (no equivalent: the id becomes "Frame", which `FrameIDSpec(4).write` then cuts to "Fram"), the upgraded frame is
one the LINK codec writes and reads back.
NOTE: `readFrames22` of Model/Id3Spec.lean renames the class only (`upgradeName`) and leaves the values as read, so for
LNK the model's frame still carries the three-character id; this theorem is about the codec and the id map, the
read-side model does not apply the map. -/
theorem v22_lnk_upgrade_roundtrip (E : Id3.Env) (hcfg : E.cfg.version ≠ 3) (fid : Text) (url data : Val)
    (hvalid : FieldsValid E (initCtx (clsOf "LNK").required {}) (clsOf "LNK").required [.text fid, url, data])
    (hcrm : ∀ c22, Id3Table.frames.find (fid.map b8) = some c22 → c22.base ≠ "Frame") :
    upgradeName (clsOf "LNK") = some "LINK" ∧
    ∃ b, writeFrame E.subw E.cfg (clsOf "LINK") [.text (lnkUpgradeId Id3Table.frames fid), url, data] = .ok b ∧
      readFrame E.sub E.h (clsOf "LINK") b = .ok ([.text (lnkUpgradeId Id3Table.frames fid), url, data], []) := by
  have hl : (clsOf "LNK").required = [⟨(.frameId 3), "frameid", (.text [88, 88, 88])⟩, ⟨.latin1Text, "url", (.text [])⟩,
      ⟨.binary, "data", (.bytes [])⟩] := by rfl
  have hk : (clsOf "LINK").required = [⟨(.frameId 4), "frameid", (.text [88, 88, 88, 88])⟩, ⟨.latin1Text, "url", (.text [])⟩,
      ⟨.binary, "data", (.bytes [])⟩] := by rfl
  have hko : (clsOf "LINK").optional = [] := by rfl
  have hmk : clsOf "LINK" ∈ Id3Table.frames := Table.find_mem tbl (nameBytes "LINK") (by decide +kernel)
  rw [hl] at hvalid
  obtain ⟨v1, v2, v3, _⟩ := hvalid
  obtain ⟨t, ht, hlen, _, hascii⟩ := v1
  cases ht
  obtain ⟨h4, ha4⟩ := lnkUpgradeId_ok fid hlen hascii hcrm
  refine ⟨by decide +kernel, ?_⟩
  have := frame_roundtrip E (clsOf "LINK") hmk [.text (lnkUpgradeId Id3Table.frames fid), url, data] hcfg (by rw [hk]; simp)
    (by rw [hk, hko]; simp)
    (by rw [hk, hko]; exact ⟨⟨_, rfl, h4, by decide, ha4⟩, v2, v3, trivial⟩) (by rw [hk, hko]; simp)
  rw [hk, hko] at this
  simpa [normVals, normVal] using this

/-- the id map on ids of the table, an unknown id, and CRM -/
example : lnkUpgradeId Id3Table.frames [84, 84, 50] = [84, 73, 84, 50] := by decide +kernel      -- TT2 → TIT2
example : lnkUpgradeId Id3Table.frames [90, 90, 90] = [90, 90, 90, 32] := by decide +kernel      -- ZZZ → "ZZZ "
example : lnkUpgradeId Id3Table.frames [67, 82, 77] = [70, 114, 97, 109, 101] := by decide +kernel -- CRM → "Frame"

end Mutagen.C12
