/-
Props/C18.lean — C18 "Type detection is stable under tagging and option order".
`Generated/Scores.lean` is regenerated from the K.score sources on every run; the theorems
below are then re-checked by the kernel.
-/
import MutagenModel.Model.Detect
set_option linter.unusedVariables false
namespace Mutagen.C18
open Mutagen Mutagen.Detect Mutagen.Generated

/-! ### independence of the order of `options` -/

theorem Key.le_total (a b : Key) : a.le b = true ∨ b.le a = true := by
  simp only [Key.le, Bool.or_eq_true, decide_eq_true_eq, Bool.and_eq_true]; omega

theorem Key.le_trans {a b c : Key} (h1 : a.le b = true) (h2 : b.le c = true) : a.le c = true := by
  simp only [Key.le, Bool.or_eq_true, decide_eq_true_eq, Bool.and_eq_true] at *; omega

theorem Key.le_antisymm {a b : Key} (h1 : a.le b = true) (h2 : b.le a = true) : a = b := by
  simp only [Key.le, Bool.or_eq_true, decide_eq_true_eq, Bool.and_eq_true] at *
  cases a; cases b; simp only [Key.mk.injEq] at *; omega

/-- `maxBy` returns a member whose key dominates all keys -/
theorem maxBy_spec (key : Kind → Key) (l : List Kind) (hl : l ≠ []) :
    ∃ m, maxBy key l = some m ∧ m ∈ l ∧ ∀ x ∈ l, (key x).le (key m) = true := by
  induction l with
  | nil => exact absurd rfl hl
  | cons k ks ih =>
    by_cases hks : ks = []
    · subst hks
      refine ⟨k, by simp [maxBy], by simp, ?_⟩
      intro x hx; simp at hx; subst hx
      rcases Key.le_total (key x) (key x) with h | h <;> exact h
    · obtain ⟨m, hm, hmem, hdom⟩ := ih hks
      simp only [maxBy, hm]
      split
      · rename_i hc
        simp only [Bool.and_eq_true, Bool.not_eq_true'] at hc
        refine ⟨k, rfl, by simp, ?_⟩
        intro x hx
        rcases List.mem_cons.mp hx with rfl | hx
        · rcases Key.le_total (key x) (key x) with h | h <;> exact h
        · exact Key.le_trans (hdom x hx) hc.1
      · rename_i hc
        refine ⟨m, rfl, List.mem_cons_of_mem _ hmem, ?_⟩
        intro x hx
        rcases List.mem_cons.mp hx with rfl | hx
        · simp only [Bool.and_eq_true, Bool.not_eq_true', not_and, Bool.not_eq_false] at hc
          rcases Key.le_total (key m) (key x) with h | h
          · exact hc h
          · exact h
        · exact hdom x hx

/-- with an injective key the maximum does not depend on the order of the list -/
theorem maxBy_perm (key : Kind → Key) (hinj : ∀ a b, key a = key b → a = b) (l₁ l₂ : List Kind)
    (hp : l₁.Perm l₂) : maxBy key l₁ = maxBy key l₂ := by
  by_cases h1 : l₁ = []
  · subst h1; rw [List.Perm.nil_eq hp]
  · have h2 : l₂ ≠ [] := fun h => h1 (by subst h; exact List.Perm.eq_nil hp)
    obtain ⟨m1, e1, mem1, dom1⟩ := maxBy_spec key l₁ h1
    obtain ⟨m2, e2, mem2, dom2⟩ := maxBy_spec key l₂ h2
    have a := dom1 m2 (hp.mem_iff.mpr mem2)
    have b := dom2 m1 (hp.mem_iff.mp mem1)
    rw [e1, e2, hinj _ _ (Key.le_antisymm b a)]

/-- C18: the chosen type does not depend on the order in which candidate types are listed
(for any valuation of the observations, any rank function that separates the candidates —
class names are distinct) -/
theorem pick_perm (v : Atom → Bool) (rank : Kind → Nat) (hinj : ∀ a b, rank a = rank b → a = b)
    (l₁ l₂ : List Kind) (hp : l₁.Perm l₂) : pick v rank l₁ = pick v rank l₂ := by
  unfold pick
  rw [maxBy_perm _ ?_ l₁ l₂ hp]
  intro a b h
  simp only [Key.mk.injEq] at h
  exact hinj a b h.2

/-- the class names of the default options are distinct, with and without easy=True, and
`rank` orders them like Python orders the names -/
theorem ranks_injective :
    (∀ a b : Kind, a.rank = b.rank → a = b) ∧ (∀ a b : Kind, a.easyRank = b.easyRank → a = b) := by
  constructor <;> (intro a b; cases a <;> cases b <;> decide)

def rankAgrees : Bool :=
  options.all fun a => options.all fun b =>
    (decide (a.rank < b.rank) == decide (a.name < b.name)) &&
    (decide (a.easyRank < b.easyRank) == decide (a.easyName < b.easyName))

theorem rank_is_name_order : rankAgrees = true := by decide +kernel

theorem options_complete : ∀ k : Kind, k ∈ options := by intro k; cases k <;> decide

/-! ### stability: every feature state of every concrete format is detected as that format -/

def stableOK (rank : Kind → Nat) : Bool :=
  concreteKinds.all fun k => (reach k).all fun st => pick (valOf st) rank options == some k

theorem stable_check : stableOK Kind.rank = true := by decide +kernel
theorem stable_check_easy : stableOK Kind.easyRank = true := by decide +kernel

/-- C18: for every concrete format `k` and every feature state `st` a well-formed `k` file
can be in before or after any edit through `k` (with the format's usual extension in any
letter case; nameless where the magic stays at offset 0; with or without an APEv2 trailer),
File() chooses `k` -/
theorem pick_stable (k : Kind) (hk : k ∈ concreteKinds) (st : Feat) (hst : st ∈ reach k) :
    pick (valOf st) Kind.rank options = some k := by
  have h := stable_check
  simp only [stableOK, List.all_eq_true] at h
  simpa using h k hk st hst

/-- … and with easy=True the Easy counterpart of the same type (same `Kind`, easy class name) -/
theorem pick_stable_easy (k : Kind) (hk : k ∈ concreteKinds) (st : Feat) (hst : st ∈ reach k) :
    pick (valOf st) Kind.easyRank options = some k := by
  have h := stable_check_easy
  simp only [stableOK, List.all_eq_true] at h
  simpa using h k hk st hst

/-- … in any order of the options -/
theorem pick_stable_any_order (k : Kind) (hk : k ∈ concreteKinds) (st : Feat) (hst : st ∈ reach k)
    (opts : List Kind) (hp : opts.Perm options) :
    pick (valOf st) Kind.rank opts = some k := by
  rw [pick_perm _ _ ranks_injective.1 opts options hp]; exact pick_stable k hk st hst

/-! non-vacuity: the state spaces are not empty -/
example : (reach .MP3).length = 112 := by decide +kernel
example : (concreteKinds.map fun k => (reach k).length).sum > 250 := by decide +kernel

end Mutagen.C18
