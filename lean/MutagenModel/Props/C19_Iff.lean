/-
Props/C19_Iff.lean — C19 "Running out of space while growing leaves the file as it was" for ID3 chunks in AIFF, WAVE
and DSDIFF files: the file-object programs of Model/Container/IffM.lean (every call of the real save, in its order)
on a device of ANY capacity with ANY leak of the failing write (`Quiet e`: no injected fault, no short read).
-/
import MutagenModel.Proofs.Container.IffCap
set_option linter.unusedVariables false
namespace Mutagen.C19
open Mutagen

/-- refinement: without faults and without a capacity limit the program `saveM` — verify_fileobj, parsing calls,
`_prepare_data`, `resize_bytes`, the two size fields, flush, data, pad byte; for a file without ID3 chunk
`insert_chunk` first — returns normally and leaves exactly the bytes the pure model `Iff.save` computes.  So what
is proved about `Iff.save` (C02, C03, C08, C09) is true of the bytes the file operations leave. -/
theorem iff_saveM_refines (d : Iff.Dialect) (hd : d.WF) (B : Nat) (hB : 0 < B) (L : Iff.Layout) (h : L.OK d) (vmaj : Nat)
    (hvm : vmaj = 3 ∨ vmaj = 4) (frames : Bytes) (pad : PadChoice) (p : Nat)
    (hp : getPadding pad ((L.oldLen : Int) - (frames.length + 10 : Nat)) (L.trailing d) = p)
    (hfit : frames.length + p < 2 ^ 28) (hroot : 4 + L.newExtent d (10 + frames.length + p) < 256 ^ d.sizeW)
    (s : FS) (hsd : s.data = L.render d) (hpos : s.pos ≤ s.data.length) :
    ∃ s', Iff.saveM d B L vmaj frames pad.toZ Env.clean s = (.ok (), s') ∧
      Iff.save d (L.render d) vmaj frames pad = .ok s'.data := by
  obtain ⟨hdr0, hh0, _, hsave⟩ := Iff.save_layout d hd L h vmaj hvm frames pad p hp hfit hroot
  cases hid : L.id3 with
  | some c =>
    obtain ⟨hdr, hh, _, hr⟩ := Iff.saveM_tagged_q Iff.clean_quiet d hd B hB L h c hid vmaj hvm frames pad.toZ p
      (by rw [Iff.getPaddingZ_nat]; simpa [Iff.Layout.oldLen, Iff.Layout.trailing, hid] using hp) hfit hroot s hsd hpos
    rw [hh0] at hh; cases hh
    rcases hr with ⟨s', h1, h2⟩ | ⟨s', _, _, hne⟩
    · exact ⟨s', h1, by rw [hsave, h2]⟩
    · exact absurd rfl hne
  | none =>
    obtain ⟨hdr, hh, _, hr⟩ := Iff.saveM_untagged_q Iff.clean_quiet d hd B hB L h hid vmaj hvm frames pad.toZ p
      (by have := Iff.getPaddingZ_nat pad ((0 : Int) - (frames.length + 10 : Nat)) 0
          rw [show ((0 : Nat) : Int) = 0 from rfl] at this
          rw [this]; simpa [Iff.Layout.oldLen, Iff.Layout.trailing, hid] using hp) hfit hroot s hsd hpos
    rw [hh0] at hh; cases hh
    rcases hr with ⟨s', h1, h2⟩ | ⟨s', _, _, hne⟩ | ⟨s', _, _, hne⟩
    · exact ⟨s', h1, by rw [hsave, h2]⟩
    · exact absurd rfl hne
    · exact absurd rfl hne

/-- C19, existing ID3 chunk: for EVERY capacity and every leak, `save` either completes — the file holds exactly what
the pure `Iff.save` computes — or ENOSPC is raised and the file is byte-identical, length included, to what it was.
The code really enlarges first: `resize_bytes` (which rolls its own partial growth back) precedes the two size-field
writes, the data and the pad byte, and all of those land inside the enlarged file. -/
theorem iff_save_enlarge_first {e : Env} (hq : Quiet e) (d : Iff.Dialect) (hd : d.WF) (B : Nat) (hB : 0 < B) (L : Iff.Layout)
    (h : L.OK d) (c : Iff.Chunk) (hid : L.id3 = some c) (vmaj : Nat) (hvm : vmaj = 3 ∨ vmaj = 4) (frames : Bytes)
    (pad : PadChoice) (p : Nat)
    (hp : getPadding pad ((L.oldLen : Int) - (frames.length + 10 : Nat)) (L.trailing d) = p)
    (hfit : frames.length + p < 2 ^ 28) (hroot : 4 + L.newExtent d (10 + frames.length + p) < 256 ^ d.sizeW)
    (s : FS) (hsd : s.data = L.render d) (hpos : s.pos ≤ s.data.length) :
    (∃ s', Iff.saveM d B L vmaj frames pad.toZ e s = (.ok (), s') ∧ Iff.save d (L.render d) vmaj frames pad = .ok s'.data) ∨
    (∃ s', Iff.saveM d B L vmaj frames pad.toZ e s = (.error .enospc, s') ∧ s'.data = s.data) := by
  obtain ⟨hdr0, hh0, _, hsave⟩ := Iff.save_layout d hd L h vmaj hvm frames pad p hp hfit hroot
  obtain ⟨hdr, hh, _, hr⟩ := Iff.saveM_tagged_q hq d hd B hB L h c hid vmaj hvm frames pad.toZ p
    (by rw [Iff.getPaddingZ_nat]; simpa [Iff.Layout.oldLen, Iff.Layout.trailing, hid] using hp) hfit hroot s hsd hpos
  rw [hh0] at hh; cases hh
  rcases hr with ⟨s', h1, h2⟩ | ⟨s', h1, h2, _⟩
  · exact Or.inl ⟨s', h1, by rw [hsave, h2]⟩
  · exact Or.inr ⟨s', h1, h2⟩

/-- C19, a chunk that first has to be created: `save` completes, or ENOSPC is raised with the file byte-identical
(the device filled up while `insert_chunk` made room for the empty chunk), or ENOSPC is raised after the empty chunk
was created (the device filled up while that chunk was enlarged): then the file is the original with an empty ID3
chunk behind the other chunks and the root size adjusted — form type and every other chunk byte-identical and in
place, a well-formed file (`iff_partial_state_wellformed`).  Not byte-identical, which the property does not ask
for here ("payload intact"). -/
theorem iff_save_new_chunk_payload_intact {e : Env} (hq : Quiet e) (d : Iff.Dialect) (hd : d.WF) (B : Nat) (hB : 0 < B)
    (L : Iff.Layout) (h : L.OK d) (hid : L.id3 = none) (vmaj : Nat) (hvm : vmaj = 3 ∨ vmaj = 4) (frames : Bytes)
    (pad : PadChoice) (p : Nat)
    (hp : getPadding pad ((0 : Int) - (frames.length + 10 : Nat)) 0 = p)
    (hfit : frames.length + p < 2 ^ 28) (hroot : 4 + L.newExtent d (10 + frames.length + p) < 256 ^ d.sizeW)
    (s : FS) (hsd : s.data = L.render d) (hpos : s.pos ≤ s.data.length) :
    (∃ s', Iff.saveM d B L vmaj frames pad.toZ e s = (.ok (), s') ∧ Iff.save d (L.render d) vmaj frames pad = .ok s'.data) ∨
    (∃ s', Iff.saveM d B L vmaj frames pad.toZ e s = (.error .enospc, s') ∧ s'.data = s.data) ∨
    (∃ s', Iff.saveM d B L vmaj frames pad.toZ e s = (.error .enospc, s') ∧
      s'.data = Iff.renderFile d L.formType (L.before ++ [Iff.freshChunk d])) := by
  obtain ⟨hdr0, hh0, _, hsave⟩ := Iff.save_layout d hd L h vmaj hvm frames pad p
    (by simpa [Iff.Layout.oldLen, Iff.Layout.trailing, hid] using hp) hfit hroot
  obtain ⟨hdr, hh, _, hr⟩ := Iff.saveM_untagged_q hq d hd B hB L h hid vmaj hvm frames pad.toZ p
    (by have := Iff.getPaddingZ_nat pad ((0 : Int) - (frames.length + 10 : Nat)) 0
        rw [show ((0 : Nat) : Int) = 0 from rfl] at this
        rw [this]; exact hp) hfit hroot s hsd hpos
  rw [hh0] at hh; cases hh
  rcases hr with ⟨s', h1, h2⟩ | ⟨s', h1, h2, _⟩ | ⟨s', h1, h2, _⟩
  · exact Or.inl ⟨s', h1, by rw [hsave, h2]⟩
  · exact Or.inr (Or.inl ⟨s', h1, h2⟩)
  · refine Or.inr (Or.inr ⟨s', h1, ?_⟩)
    rw [h2]
    simp [Iff.Layout.render, Iff.Layout.withTag, Iff.Layout.chunks, Iff.Layout.id3Id, hid, h.afterNone hid, Iff.tagChunk,
      Iff.freshChunk, zeros]

/-- the state a failed creation can leave is a well-formed file: the strict reader reads the form type, the other
chunks and an empty ID3 chunk -/
theorem iff_partial_state_wellformed (d : Iff.Dialect) (hd : d.WF) (L : Iff.Layout) (h : L.OK d) (hid : L.id3 = none)
    (hroot : 4 + L.newExtent d 0 < 256 ^ d.sizeW) :
    Iff.readFile d (Iff.renderFile d L.formType (L.before ++ [Iff.freshChunk d])) =
      some (L.formType, L.before ++ [Iff.freshChunk d]) := by
  have hok := Iff.withTag_ok d hd L h [] (by simpa using hroot)
  have := Iff.readFile_layout d hd _ hok
  simpa [Iff.Layout.render, Iff.Layout.withTag, Iff.Layout.chunks, Iff.Layout.id3Id, hid, h.afterNone hid, Iff.tagChunk,
    Iff.freshChunk, zeros] using this

/-- at the entry point (`@convert_error(IOError, error)`) the ENOSPC is a MutagenError; the bytes are those `saveM` left -/
theorem iff_entry_converts (d : Iff.Dialect) (B : Nat) (L : Iff.Layout) (vmaj : Nat) (frames : Bytes) (pad : Iff.PadZ)
    (e : Env) (s s' : FS) (h : Iff.saveM d B L vmaj frames pad e s = (.error .enospc, s')) :
    Iff.saveEntry d B L vmaj frames pad e s = (.error .mutagen, s') := by
  simp [Iff.saveEntry, convertError, h, PyErr.isIO]

/-! non-vacuity: the ENOSPC branches really occur -/

/-- AIFF with a COMM chunk, an ID3 chunk of 12 bytes and an SSND chunk (38 bytes); saving 9 bytes of frames without
padding needs 8 bytes more; on a device with room for 5 more bytes (2 bytes of the failing write leak) the save raises
MutagenError and the file is what it was -/
example :
    let L : Iff.Layout := ⟨[0x41, 0x49, 0x46, 0x46], [⟨[0x43, 0x4F, 0x4D, 0x4D], [1, 2, 3], [0]⟩],
      some ⟨[0x49, 0x44, 0x33, 0x20], List.replicate 12 7, []⟩, [⟨[0x53, 0x53, 0x4E, 0x44], [9, 9], []⟩]⟩
    let r := Iff.saveEntry Iff.aiff 16 L 4 (List.replicate 9 5) (.callback fun _ _ => 0)
      { cap := some ((L.render Iff.aiff).length + 5), leak := fun _ => 2 } { data := L.render Iff.aiff }
    r.1 = .error .mutagen ∧ r.2.data = L.render Iff.aiff := by
  decide +kernel

/-- the same file without the ID3 chunk on a device with room for 10 more bytes: the empty chunk (8 bytes) is created,
its enlargement fails — MutagenError, the file is the original plus the empty chunk; with room for 7 bytes nothing changes -/
example :
    let L : Iff.Layout := ⟨[0x41, 0x49, 0x46, 0x46], [⟨[0x43, 0x4F, 0x4D, 0x4D], [1, 2, 3], [0]⟩, ⟨[0x53, 0x53, 0x4E, 0x44], [9, 9], []⟩],
      none, []⟩
    let r := Iff.saveEntry Iff.aiff 16 L 4 (List.replicate 9 5) (.callback fun _ _ => 0)
      { cap := some ((L.render Iff.aiff).length + 10) } { data := L.render Iff.aiff }
    let r7 := Iff.saveEntry Iff.aiff 16 L 4 (List.replicate 9 5) (.callback fun _ _ => 0)
      { cap := some ((L.render Iff.aiff).length + 7) } { data := L.render Iff.aiff }
    r.1 = .error .mutagen ∧ r.2.data = Iff.renderFile Iff.aiff L.formType (L.before ++ [Iff.freshChunk Iff.aiff]) ∧
      r7.1 = .error .mutagen ∧ r7.2.data = L.render Iff.aiff := by
  decide +kernel

example : Quiet { cap := some 43, leak := fun _ => 2 } := ⟨fun _ => rfl, fun _ => rfl⟩

end Mutagen.C19
