/-
Props/C04_ApeFile.lean — C04 ("opening any byte sequence … then saving or deleting … either succeeds or raises
MutagenError") for the model of APEv2-tagged files, for EVERY byte string: `_APEv2Data` (`locate`), `APEv2.save`,
`APEv2.delete`.  (Before `_seek_back` the statements excluded files below 32 bytes: `io.BytesIO` stopped the
`seek(-32, 2)` at offset 0 where a file opened by name refuses it, the first eight bytes could be taken for a footer at
offset 0, and `delete_bytes` was then asked for bytes beyond the file.  The code now refuses every seek in front of the
file on every kind of file object; the examples at the end show the former exception.)
-/
import MutagenModel.Proofs.Container.ApeFile
set_option linter.unusedVariables false
namespace Mutagen.C04
open Mutagen Mutagen.ApeF

theorem ape_locate_clean (f : Bytes) : ∀ e, locate f = .error e → e = .mutagen := by
  intro e h
  unfold locate at h
  simp only [] at h
  repeat' split at h
  all_goals first | (cases h; rfl) | (cases h; done)

theorem fixBroken_le (f : Bytes) (fuel s : Nat) : fixBroken f fuel s ≤ s := by
  induction fuel generalizing s with
  | zero => simp [fixBroken]
  | succ n ih =>
    unfold fixBroken
    split
    · omega
    · split
      · omega
      · simp only []
        split
        · have := ih (s - 24); omega
        · omega

set_option maxRecDepth 8000 in
theorem findMetadata_footer (f : Bytes) (p : Nat) (h : findMetadata f = .footer p) :
    p + 32 ≤ f.length := by
  unfold findMetadata at h
  simp only [] at h
  split at h
  · cases h
  · split at h
    · have := Meta.footer.inj h; omega
    · split at h
      · rename_i q hq
        have hq' := Meta.footer.inj h
        subst hq'
        -- every branch of viaV1 that yields `some q`
        repeat' split at hq
        all_goals first | (cases hq; done) | (have := Option.some.inj hq; omega) | skip
      · split at h <;> cases h

/-- what `locate` returns lies inside the file -/
theorem locate_inside (f : Bytes) (L : Loc) (h : locate f = .ok (some L)) :
    L.start ≤ L.endd ∧ L.endd ≤ f.length := by
  unfold locate at h
  cases hm : findMetadata f with
  | nothing => rw [hm] at h; cases h
  | footer ft =>
    rw [hm] at h
    have hft := findMetadata_footer f ft hm
    simp only [] at h
    repeat' split at h
    all_goals first | (cases h; done) | skip
    all_goals
      have h' := Option.some.inj (Except.ok.inj h)
      subst h'
      simp only []
      exact ⟨Nat.le_trans (fixBroken_le _ _ _) (by omega), hft⟩
  | headerAtStart =>
    rw [hm] at h
    simp only [] at h
    repeat' split at h
    all_goals first | (cases h; done) | skip
    all_goals
      have h' := Option.some.inj (Except.ok.inj h)
      subst h'
      simp only []
      omega

/-- C04 for `APEv2.save` on ANY bytes and any rendered tag: success or apev2.error -/
theorem ape_save_clean (f : Bytes) (tag : Bytes) : ∀ e, ApeF.save f tag = .error e → e = .mutagen := by
  intro e h
  unfold ApeF.save at h
  cases hl : locate f with
  | error e' => rw [hl] at h; cases h; exact ape_locate_clean f _ hl
  | ok o =>
    rw [hl] at h
    cases o with
    | none => cases h
    | some L =>
      have := locate_inside f L hl
      simp only [] at h
      repeat' split at h
      all_goals first | (cases h; done) | omega

/-- C04 for `APEv2.delete` -/
theorem ape_delete_clean (f : Bytes) : ∀ e, ApeF.delete f = .error e → e = .mutagen := by
  intro e h
  unfold ApeF.delete at h
  cases hl : locate f with
  | error e' => rw [hl] at h; cases h; exact ape_locate_clean f _ hl
  | ok o =>
    rw [hl] at h
    cases o with
    | none => cases h
    | some L =>
      have := locate_inside f L hl
      simp only [] at h
      repeat' split at h
      all_goals first | (cases h; done) | omega

/-! error paths, concretely -/
/-- a header at the start that declares 1000 bytes in a 82-byte file: refused since /repo bc965ba (was: loaded, then
ValueError from save/delete) -/
example : locate ([0x41, 0x50, 0x45, 0x54, 0x41, 0x47, 0x45, 0x58, 0xd0, 7, 0, 0, 0xe8, 3, 0, 0, 0, 0, 0, 0, 0, 0, 0, 0xa0] ++
    zeros 8 ++ List.replicate 50 0x78) = .error .mutagen := by decide +kernel
/-- the formerly excluded small-file case: 24 bytes that start with "APETAGEX" (size field 32: the footer alone) were
taken for a footer at offset 0 and `delete` raised ValueError; `_seek_back(32)` refuses, there is no tag -/
example : ApeF.delete [0x41, 0x50, 0x45, 0x54, 0x41, 0x47, 0x45, 0x58, 0xd0, 7, 0, 0, 32, 0, 0, 0, 0, 0, 0, 0, 0, 0, 0, 0] =
    .ok [0x41, 0x50, 0x45, 0x54, 0x41, 0x47, 0x45, 0x58, 0xd0, 7, 0, 0, 32, 0, 0, 0, 0, 0, 0, 0, 0, 0, 0, 0] := by decide +kernel
/-- the eight bytes "APETAGEX": no tag (`io.BytesIO` used to end in apev2.error, a file opened by name in "no tag") -/
example : locate [0x41, 0x50, 0x45, 0x54, 0x41, 0x47, 0x45, 0x58] = .ok none := by decide +kernel
/-- a size field below the 32 bytes of the footer it is read from: refused ("APE tag size smaller than its footer"; before,
`read(size - 32)` with a negative length: to the end of an in-memory stream, ValueError on a buffered file) -/
example : locate (List.replicate 40 0x78 ++ [0x41, 0x50, 0x45, 0x54, 0x41, 0x47, 0x45, 0x58, 0xd0, 7, 0, 0, 8, 0, 0, 0] ++ zeros 16) =
    .error .mutagen := by decide +kernel

end Mutagen.C04
