/-
Props/C05_Dsdiff.lean — C05 for DSDIFF (`mutagen.dsdiff.DSDIFFInfo`).  Property theorems only.
Code side: Model/Info/Dsdiff.lean; specification side: Spec/Info/Dsdiff.lean.
-/
import MutagenModel.Proofs.Info.Dsdiff
set_option linter.unusedVariables false
namespace Mutagen.C05
open Mutagen Mutagen.Iff Mutagen.Info Mutagen.Spec Mutagen.Spec.Dsdiff

/-- C05 for DSDIFF: for every property chunk the specification allows (any 32-bit sample rate ≥ 1, 1…65535
channels, any further property chunks) and either kind of sound data — uncompressed, any number of
bytes, or DST with any 32-bit frame count and any frame rate ≥ 1 and any frame chunks — followed by any
well-formed chunks and any trailing bytes, `DSDIFFInfo` reports exactly what the header encodes:
channels, sample rate, compression, for DSD `bytes·8/channels / rate` seconds and `channels·rate` bit/s,
for DST `numFrames / frameRate` seconds and the average frame size × 8 × frame rate. -/
theorem dsdiff_info_decodes (h : Fields) (ok : h.OK) (rest : Bytes) :
    Dsdiff.parse (build h ++ rest) = .ok (expected h) :=
  Dsdiff.parse_build h ok rest

/-- C04 side: on EVERY byte string `DSDIFFInfo` returns or raises a MutagenError -/
theorem dsdiff_info_total (f : Bytes) : ∀ e, Dsdiff.parse f = .error e → e = .mutagen :=
  fun e h => Dsdiff.parse_clean f e h

/-! non-vacuity: stereo DSD64, and a DST file with two frame chunks -/
example : (⟨0x01050000, 2822400, 2, ascii "SLFTSRGT", ascii "DSD ", ascii "not compressed",
    [mkChunk (ascii "ABSS") (zeros 8)], .dsd (zeros 64), [mkChunk (ascii "COMT") (zeros 2)]⟩ : Fields).OK := by
  decide +kernel
example : (⟨0x01050000, 2822400, 2, ascii "SLFTSRGT", ascii "DST ", ascii "DST Encoded",
    [], .dst 2 75 [mkChunk (ascii "DSTF") (zeros 11), mkChunk (ascii "DSTF") (zeros 12)], []⟩ : Fields).OK := by
  decide +kernel

end Mutagen.C05
