/-
Props/C05_WavPack.lean — C05 "Stream information equals what the headers encode" for WavPack
(mutagen/wavpack.py `WavPackInfo`).  Property theorems only; the block layout is
Spec/Info/WavPack.lean (WavPack 4/5 file format description), the parser Model/Info/WavPack.lean.
-/
import MutagenModel.Proofs.Info.WavPack
import MutagenModel.Spec.Tables
set_option linter.unusedVariables false
namespace Mutagen.C05
open Mutagen Mutagen.Info Mutagen.Info.WavPack Mutagen.Spec.WavPack

/-- every row of mutagen's `RATES` (regenerated from the source) is the format's rate table row, and none is 0 -/
theorem wavpack_rates_rows : ∀ i < 15,
    Generated.wavpackRates[i]? = some (Spec.Tables.wavpackRates.getD i 0) ∧ Spec.Tables.wavpackRates.getD i 0 ≠ 0 := by
  decide

theorem wavpack_rates_nonzero : ∀ r ∈ Generated.wavpackRates, r ≠ 0 := by decide

/-- C05 for WavPack: for EVERY mono/stereo PCM stream the format allows — any version word, any of
the 15 table rates, 1-4 bytes per sample, any value of the other 22 flag bits, any block sample
counts, checksums and sub-block bytes, any number of blocks — whose total sample count fits the
32-bit field (`fits32`; the WavPack 5 40-bit counts are misread, see `wavpack_40bit_samples_misread`),
followed by anything (`rest`; when the total is "unknown" the data after the last block must not
look like another block header), `WavPackInfo` reports exactly the encoded version, channel count,
rate, sample size, and the duration `samples / rate` where `samples` is the header's total or, when
that is unknown, the sum of the blocks' sample counts.  A stream that was cut out of a longer one (first block index
`firstIndex` ≠ 0, visible in the low 32 bits: `indexFits`) holds the samples of its blocks, whatever total the header carries:
its duration is the sum of the blocks' sample counts over the rate as well (`counted`: then, too, what follows the last block
must not look like a block header). -/
theorem wavpack_info_decodes_partial (h : Fields) (ok : h.OK) (fits : h.fits32) (ifits : h.indexFits) (rest : Bytes)
    (hrest : h.counted → NoHeader rest) :
    parse (build h ++ rest) = .ok (expected h) := by
  have hfl := flags_lt h ok
  have ok' := ok
  obtain ⟨hv, ht, hb1, hb4, hml, hsm, hri, hmh, hfirst, hmore⟩ := ok'
  obtain ⟨hrow, hnz⟩ := wavpack_rates_rows h.rateIndex hri
  have hidx : flags h / 2 ^ 23 % 16 = h.rateIndex := by unfold flags; split <;> omega
  have hdsd : ¬ (flags h / 2 ^ 31 % 2 = 1) := by unfold flags; split <;> omega
  have hbits : (flags h % 4 + 1) * 8 = 8 * h.bytesPerSample := by unfold flags; split <;> omega
  have hmono : (flags h / 4 % 2 = 1) ↔ h.mono = true := by
    unfold flags; cases h.mono <;> simp <;> omega
  unfold parse build
  simp only [buildBlocks, List.append_assoc, fromFileobj_block h ok h.firstIndex h.first hfirst, hidx, hrow, hdsd, hbits,
    ↓reduceIte]
  have hch : (if flags h / 4 % 2 = 1 then 1 else 2) = (if h.mono = true then 1 else 2) := by
    by_cases hm : h.mono = true
    · rw [if_pos hm, if_pos (hmono.mpr hm)]
    · rw [if_neg hm, if_neg (fun hc => hm (hmono.mp hc))]
  rw [hch]
  -- the counting branch, whatever sends the code there
  have hcount : h.counted →
      sumBlocks (buildBlock h h.firstIndex h.first ++ (buildBlocks h (h.firstIndex + h.first.samples) h.more ++ rest))
        (buildBlock h h.firstIndex h.first ++ (buildBlocks h (h.firstIndex + h.first.samples) h.more ++ rest)).length
        (8 + (24 + h.first.payload.length)) h.first.samples = .ok (h.first.samples + (h.more.map (·.samples)).sum) := by
    intro hc
    have hpos : 8 + (24 + h.first.payload.length) = (buildBlock h h.firstIndex h.first).length := by
      rw [length_buildBlock]; omega
    have hfuel : h.more.length ≤ (buildBlock h h.firstIndex h.first ++ (buildBlocks h (h.firstIndex + h.first.samples) h.more ++ rest)).length := by
      have := length_le_buildBlocks h h.more (h.firstIndex + h.first.samples)
      simp only [List.length_append]; omega
    rw [hpos]
    exact sumBlocks_blocks h ok rest (hrest hc) h.more hmore (buildBlock h h.firstIndex h.first) (h.firstIndex + h.first.samples) _ _ hfuel
  by_cases hfi : h.firstIndex = 0
  · cases hts : h.totalSamples with
    | some t =>
      have htl : t < 2 ^ 32 - 1 := fits t hts
      have hst : storedTotal h % 2 ^ 32 = t := by
        unfold storedTotal; rw [hts]; simp only; omega
      have hne : ¬ (t = 2 ^ 32 - 1) := by omega
      simp only [hst, hne, ↓reduceIte, hfi, Nat.zero_mod, hnz, expected, samples, rate, hts]
    | none =>
      have hst : storedTotal h % 2 ^ 32 = 2 ^ 32 - 1 := by
        unfold storedTotal; rw [hts]; decide
      have hc := hcount (Or.inl hts)
      simp only [hst, ↓reduceIte]
      rw [hc]
      simp only [hnz, ↓reduceIte, expected, samples, rate, hts, List.map_cons, List.sum_cons]
  · have hlow : h.firstIndex % 2 ^ 32 ≠ 0 := by rcases ifits with h0 | h1; exact absurd h0 hfi; exact h1
    have hc := hcount (Or.inr hfi)
    obtain ⟨k, hk⟩ : ∃ k, h.firstIndex % 2 ^ 32 = k + 1 := ⟨h.firstIndex % 2 ^ 32 - 1, by omega⟩
    obtain ⟨j, hj⟩ : ∃ j, h.firstIndex = j + 1 := ⟨h.firstIndex - 1, by omega⟩
    simp only [hk]
    rw [hc]
    simp only [hnz, ↓reduceIte, expected, samples, rate, hj, List.map_cons, List.sum_cons]
    generalize (if storedTotal h % 2 ^ 32 = 2 ^ 32 - 1 then none else some (storedTotal h % 2 ^ 32)) = o
    cases o <;> cases h.totalSamples <;> rfl

/-- what mutagen takes for the sample count: the stored count modulo 2^32 - 1 (the low 32 bits of the 40-bit field), or
the sum of the blocks' counts when the header says "unknown" -/
def reportedSamples (h : Fields) : Nat :=
  match h.totalSamples with
  | some t => t % (2 ^ 32 - 1)
  | none => ((h.first :: h.more).map (·.samples)).sum

/-- what `WavPackInfo` DOES report for ALL headers, the WavPack 5 40-bit sample counts included: everything as in
`wavpack_info_decodes_partial`, with the sample count taken modulo 2^32 - 1 (the 40-bit value is stored as `t + t / (2^32-1)`
and only its low 32 bits are read). -/
theorem wavpack_info_reports (h : Fields) (ok : h.OK) (hfi : h.firstIndex = 0) (rest : Bytes)
    (hrest : h.totalSamples = none → NoHeader rest) :
    parse (build h ++ rest) = .ok { expected h with length := ⟨(reportedSamples h : Nat), rate h⟩ } := by
  have hfl := flags_lt h ok
  have ok' := ok
  obtain ⟨hv, ht, hb1, hb4, hml, hsm, hri, hmh, hfirst, hmore⟩ := ok'
  obtain ⟨hrow, hnz⟩ := wavpack_rates_rows h.rateIndex hri
  have hidx : flags h / 2 ^ 23 % 16 = h.rateIndex := by unfold flags; split <;> omega
  have hdsd : ¬ (flags h / 2 ^ 31 % 2 = 1) := by unfold flags; split <;> omega
  have hbits : (flags h % 4 + 1) * 8 = 8 * h.bytesPerSample := by unfold flags; split <;> omega
  have hmono : (flags h / 4 % 2 = 1) ↔ h.mono = true := by
    unfold flags; cases h.mono <;> simp <;> omega
  have hbld : build h = buildBlocks h 0 (h.first :: h.more) := by unfold build; rw [hfi]
  rw [hbld]
  unfold parse
  simp only [buildBlocks, List.append_assoc, fromFileobj_block h ok 0 h.first hfirst, hidx, hrow, hdsd, hbits,
    ↓reduceIte]
  have hch : (if flags h / 4 % 2 = 1 then 1 else 2) = (if h.mono = true then 1 else 2) := by
    by_cases hm : h.mono = true
    · rw [if_pos hm, if_pos (hmono.mpr hm)]
    · rw [if_neg hm, if_neg (fun hc => hm (hmono.mp hc))]
  rw [hch]
  cases hts : h.totalSamples with
  | some t =>
    have hst : storedTotal h % 2 ^ 32 = t % (2 ^ 32 - 1) := by
      unfold storedTotal; rw [hts]; simp only; omega
    have hne : ¬ (t % (2 ^ 32 - 1) = 2 ^ 32 - 1) := by omega
    simp only [hst, hne, ↓reduceIte, Nat.zero_mod, hnz, expected, reportedSamples, rate, hts]
  | none =>
    have hst : storedTotal h % 2 ^ 32 = 2 ^ 32 - 1 := by
      unfold storedTotal; rw [hts]; decide
    have hpos : 8 + (24 + h.first.payload.length) = (buildBlock h 0 h.first).length := by
      rw [length_buildBlock]; omega
    have hfuel : h.more.length ≤ (buildBlock h 0 h.first ++ (buildBlocks h (0 + h.first.samples) h.more ++ rest)).length := by
      have := length_le_buildBlocks h h.more (0 + h.first.samples)
      simp only [List.length_append]; omega
    simp only [hst, ↓reduceIte, hpos]
    rw [sumBlocks_blocks h ok rest (hrest hts) h.more hmore (buildBlock h 0 h.first) (0 + h.first.samples) _ _ hfuel]
    simp only [hnz, ↓reduceIte, expected, reportedSamples, rate, hts, List.map_cons, List.sum_cons]




/-- C04 side: on EVERY byte string `WavPackInfo` either succeeds or raises a `MutagenError`
(`WavPackHeaderError`); no other exception class, and the block-summing loop terminates. -/
theorem wavpack_info_total (f : Bytes) : ∀ e, parse f = .error e → e = .mutagen := by
  intro e he
  unfold parse at he
  split at he
  · cases he; rfl
  · rename_i hd hh
    split at he
    · cases he; rfl
    · rename_i r hr
      have hrmem : r ∈ Generated.wavpackRates := List.mem_of_getElem? hr
      have hrnz := wavpack_rates_nonzero r hrmem
      simp only at he
      split at he
      · rename_i e' hs
        split at hs
        · cases hs
        · obtain ⟨n, hn⟩ := sumBlocks_no_diverge f f.length (8 + hd.blockSize) hd.blockSamples (by omega)
          rw [hn] at hs; cases hs
      · have h4 : ¬ (r * 4 = 0) := by omega
        by_cases hdsd : hd.flags / 2 ^ 31 % 2 = 1 <;> simp [hdsd, hrnz, h4] at he

/-- a WavPack 5 stream with 2^33+5 samples (stored as 2^33+7 in 40 bits, low word 7, high byte 2) -/
def wavpack40 : Fields :=
  { version := 0x410, totalSamples := some (2 ^ 33 + 5), bytesPerSample := 2, mono := false, modeLow := 2,
    shiftMag := 0, rateIndex := 9, modeHigh := 0, first := ⟨22050, [0, 0], 0x12345678⟩, more := [] }

/-- DEFECT witness (known finding WavPack:length): the header encodes 2^33+5 samples at 44100 Hz; mutagen
reads only the low 32 bits and reports 7 samples. -/
theorem wavpack_40bit_samples_misread :
    wavpack40.OK ∧ (expected wavpack40).length = ⟨2 ^ 33 + 5, 44100⟩ ∧
    parse (build wavpack40) = .ok { expected wavpack40 with length := ⟨7, 44100⟩ } := by decide +kernel

/-! non-vacuity: the hypotheses are satisfiable, known and unknown total -/
example : ({ wavpack40 with totalSamples := some 1000 } : Fields).OK ∧
    ({ wavpack40 with totalSamples := some 1000 } : Fields).fits32 := by
  refine ⟨by decide, ?_⟩
  intro t ht; cases ht; decide
example : parse (build { wavpack40 with totalSamples := none, more := [⟨5, [], 0⟩, ⟨7, [1, 2], 3⟩] } ++ [1, 2, 3]) =
    .ok { version := 0x410, channels := 2, sampleRate := 44100, bitsPerSample := 16, length := ⟨22062, 44100⟩ } := by
  decide +kernel

end Mutagen.C05
