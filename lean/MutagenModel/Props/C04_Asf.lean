/-
Props/C04_Asf.lean — C04 "Malformed input is rejected cleanly": ASF.  For EVERY byte string: which
exception classes `ASF(file)`, `save` and `delete` can end in (model: Model/Container/Asf.lean; lemmas:
Proofs/Container/AsfTotal.lean).  No theorem here has a hypothesis on the file.

Load, delete and the save of what was loaded end in a value or a MutagenError, whatever the bytes.
A save of caller-supplied tags can besides raise UnicodeEncodeError, and only when a name or a text
value holds a lone surrogate (`¬ Tag.Enc`): that `str.encode` call is the caller's error and is not
caught.  Everything `struct.pack` refuses while the header is rendered — a name, value, count or size
that does not fit its field, out-of-range numbers supplied by the caller included — leaves `save` as
ASFError; a Header Extension Object inside a Header Extension Object and a Header Object inside the
header are ASFHeaderErrors at load.
-/
import MutagenModel.Proofs.Container.AsfTotal
set_option linter.unusedVariables false
namespace Mutagen.C04
open Mutagen

/-! ## load -/

/-- C04 for load: `ASF(file)` on any byte string ends with a tree or a MutagenError -/
theorem asf_load_clean (f : Bytes) (e : PyErr) (h : Asf.parseFull f = .error e) : e = .mutagen :=
  Asf.parseFull_err h

/-- the loops of loading are bounded: never `diverge` -/
theorem asf_load_never_diverges (f : Bytes) : Asf.parseFull f ≠ .error .diverge :=
  Asf.parseFull_no_diverge f

/-! ## delete -/

/-- C04 for delete: on any byte string, a file or a MutagenError -/
theorem asf_delete_clean (f : Bytes) (e : PyErr) (h : Asf.delete f = .error e) : e = .mutagen :=
  Asf.delete_err h

/-! ## save -/

/-- `save` on any byte string with any tags and any padding answer: a MutagenError or
UnicodeEncodeError — no other class -/
theorem asf_save_classes (f : Bytes) (tags : List Asf.Tag) (pad : PadChoice) (e : PyErr) (h : Asf.save f tags pad = .error e) :
    e = .mutagen ∨ e = .unicode :=
  Asf.save_err_classes h

/-- C04 for save with tags whose names and text values can be encoded (`Tag.Enc`, decidable: no lone
surrogates; numbers, lengths and counts are free): a file or a MutagenError -/
theorem asf_save_clean (f : Bytes) (tags : List Asf.Tag) (pad : PadChoice) (ht : ∀ t ∈ tags, t.Enc) (e : PyErr)
    (h : Asf.save f tags pad = .error e) : e = .mutagen :=
  Asf.save_err_enc ht h

/-- UnicodeEncodeError comes from a caller-supplied tag that cannot be encoded, and from nothing else -/
theorem asf_save_unicode_only_unencodable (f : Bytes) (tags : List Asf.Tag) (pad : PadChoice)
    (h : Asf.save f tags pad = .error .unicode) : ∃ t ∈ tags, ¬ t.Enc := by
  apply Classical.byContradiction
  intro hn
  have hall : ∀ t ∈ tags, t.Enc := by
    intro t ht
    apply Classical.byContradiction
    intro hne
    exact hn ⟨t, ht, hne⟩
  have := Asf.save_err_enc hall h
  cases this

/-- renderable tags (`Renderable`: besides encodable, every number, length and count in range) render:
all four metadata payloads are produced -/
theorem asf_renderable_renders (tags : List Asf.Tag) (h : Asf.Renderable tags) : ∃ P, Asf.Renders (Asf.distPure tags) P :=
  Asf.renders_of_renderable tags h

/-! ## save of what was loaded -/

/-- every tag a file loads with has an encodable name and value -/
theorem asf_loaded_tags_encodable (objs : List Asf.Obj) : ∀ t ∈ Asf.loadedTags objs, t.Enc :=
  Asf.loadedTags_enc objs

/-- C04 for `a = ASF(file); a.save(file)`: on any byte string and any padding answer, a file or a
MutagenError -/
theorem asf_resave_clean (f : Bytes) (pad : PadChoice) (e : PyErr) (h : Asf.resave f pad = .error e) : e = .mutagen :=
  Asf.resave_err h

/-- the former escape (struct.error before f0601fa): the 65600-byte file that loads with a name of
65534 bytes without terminator; saving it unchanged now ends in ASFError, with any padding choice -/
theorem asf_resave_long_name_witness (pad : PadChoice) : Asf.resave Asf.wLongName pad = .error .mutagen :=
  Asf.resave_wLongName pad

/-! ## concrete inputs -/

/-- a Header Extension Object in a Header Extension Object (RecursionError when deep, before a27e641) -/
example : Asf.parseFull (Asf.headerBytes 1 (Asf.object Asf.gExt (Asf.extPayload (Asf.object Asf.gExt (Asf.extPayload []))))) =
    .error .mutagen := by decide +kernel

/-- not an ASF file; too short -/
example : Asf.parseFull (zeros 40) = .error .mutagen := by decide +kernel
example : Asf.parseFull (Asf.gHeader ++ zeros 10) = .error .mutagen := by decide +kernel
/-- the count field announces an object the header size has no room for -/
example : Asf.parseFull (Asf.headerBytes 1 []) = .error .mutagen := by decide +kernel
/-- an object size below 24 -/
example : Asf.parseFull (Asf.headerBytes 1 (Asf.gPadding ++ toLE 8 5 ++ zeros 8)) = .error .mutagen := by decide +kernel
/-- an object that claims more than the file has -/
example : Asf.delete (Asf.headerBytes 1 (Asf.gPadding ++ toLE 8 100 ++ zeros 76) |>.take 80) = .error .mutagen := by decide +kernel
/-- a Header Object inside the header; inside the Header Extension Object -/
example : Asf.parseFull (Asf.headerBytes 1 (Asf.object Asf.gHeader [])) = .error .mutagen := by decide +kernel
example : Asf.delete (Asf.headerBytes 1 (Asf.object Asf.gExt (Asf.extPayload (Asf.object Asf.gHeader [])))) = .error .mutagen := by
  decide +kernel
/-- a Header Extension child of size 0; a Header Extension payload without the data size field -/
example : Asf.parseFull (Asf.headerBytes 1 (Asf.object Asf.gExt (Asf.extPayload (Asf.gPadding ++ toLE 8 0)))) = .error .mutagen := by
  decide +kernel
example : Asf.parseFull (Asf.headerBytes 1 (Asf.object Asf.gExt (zeros 20))) = .error .mutagen := by decide +kernel
/-- Extended Content Description: unknown attribute type 9; a DWORD of three bytes; text of odd length -/
example : Asf.parseFull (Asf.headerBytes 1 (Asf.object Asf.gECD [1, 0, 2, 0, 0, 0, 9, 0, 0, 0])) = .error .mutagen := by decide +kernel
example : Asf.parseFull (Asf.headerBytes 1 (Asf.object Asf.gECD [1, 0, 2, 0, 0, 0, 3, 0, 3, 0, 1, 2, 3])) = .error .mutagen := by
  decide +kernel
example : Asf.parseFull (Asf.headerBytes 1 (Asf.object Asf.gECD [1, 0, 2, 0, 0, 0, 0, 0, 3, 0, 97, 0, 98])) = .error .mutagen := by
  decide +kernel
/-- a lone surrogate in a Content Description text; a File Properties Object of 63 bytes -/
example : Asf.parseFull (Asf.headerBytes 1 (Asf.object Asf.gCD [2, 0, 0, 0, 0, 0, 0, 0, 0, 0, 0, 0xD8])) = .error .mutagen := by
  decide +kernel
example : Asf.parseFull (Asf.headerBytes 1 (Asf.object Asf.gFileProps (zeros 63))) = .error .mutagen := by decide +kernel
/-- the header size field reaches beyond the file: "truncated content" at save time -/
example : Asf.delete (Asf.gHeader ++ toLE 8 1000 ++ toLE 4 0 ++ [1, 2]) = .error .mutagen := by decide +kernel

/-- caller-supplied tags: a lone surrogate in a text value is the caller's UnicodeEncodeError; a DWORD of
2^32 (struct.error while rendering) leaves `save` as ASFError -/
example : Asf.save Asf.exLayout.render [⟨[102], .unicode [0xD800], none, none⟩] .default = .error .unicode := by decide +kernel
example : ¬ (⟨[102], .unicode [0xD800], none, none⟩ : Asf.Tag).Enc := by decide +kernel
example : Asf.save Asf.exLayout.render [⟨[102], .dword 4294967296, none, none⟩] .default = .error .mutagen := by decide +kernel

end Mutagen.C04
