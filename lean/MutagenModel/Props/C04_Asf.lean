/-
Props/C04_Asf.lean — C04 "Malformed input is rejected cleanly": ASF.  For EVERY byte string: which
exception classes `ASF(file)`, `save` and `delete` can end in (model: Model/Container/Asf.lean; lemmas:
Proofs/Container/AsfTotal.lean).  No theorem here has a well-formedness hypothesis on the file.

What is not a MutagenError, and why the closure theorems are `…_partial`:
* `.notImplemented` — the model's "outside the model" for a Header Extension Object inside a Header
  Extension Object (`NestedExt f`).  The real code recurses there: fine for shallow nesting,
  RecursionError from about 1000 levels (46 KiB of nested headers).
* `.struct_` (struct.error) — a name, value, count or size does not fit the field `struct.pack` is asked
  to put it in.  Caller-supplied tags are excluded by the decidable `Renderable tags`; but a file can
  LOAD with tags that are not renderable (`asf_resave_escape_witness`), and a Header Extension Object
  that would declare 4 GiB or more is excluded by the decidable `SaveFits`.
* `.unicode` (UnicodeEncodeError) — lone surrogates in caller-supplied names or text; never for the
  tags a file was loaded with (`asf_loaded_tags_encodable`).
-/
import MutagenModel.Proofs.Container.AsfTotal
set_option linter.unusedVariables false
namespace Mutagen.C04
open Mutagen

/-! ## load -/

/-- `ASF(file)` on any byte string ends with a tree, a MutagenError, or the model's "outside" answer,
which it gives only when a Header Extension Object sits inside a Header Extension Object -/
theorem asf_load_classes (f : Bytes) (e : PyErr) (h : Asf.parseFull f = .error e) :
    e = .mutagen ∨ (e = .notImplemented ∧ Asf.NestedExt f) :=
  Asf.parseFull_err' h

/-- the loops of loading are bounded: never `diverge` -/
theorem asf_load_never_diverges (f : Bytes) : Asf.parseFull f ≠ .error .diverge :=
  Asf.parseFull_no_diverge f

/-- C04 for load, all byte strings but those with a Header Extension Object inside a Header Extension
Object.  MISSING: that case — the model does not follow the recursion; the code raises RecursionError
when it is deep. -/
theorem asf_load_clean_partial (f : Bytes) (hn : ¬ Asf.NestedExt f) (e : PyErr) (h : Asf.parseFull f = .error e) : e = .mutagen := by
  rcases Asf.parseFull_err' h with h1 | ⟨_, h2⟩
  · exact h1
  · exact absurd h2 hn

/-! ## delete -/

/-- `delete` on any byte string: a MutagenError, the nested-extension case of loading, or struct.error -/
theorem asf_delete_classes (f : Bytes) (e : PyErr) (h : Asf.delete f = .error e) :
    e = .mutagen ∨ (e = .notImplemented ∧ Asf.NestedExt f) ∨ e = .struct_ :=
  Asf.delete_err_classes h

/-- C04 for delete.  MISSING: nested Header Extension Objects (as for load), and files whose rewritten
Header Extension Object would declare 4 GiB or more / whose new size would not fit 64 bits
(`SaveFits`: then `struct.pack` raises struct.error) -/
theorem asf_delete_clean_partial (f : Bytes) (hn : ¬ Asf.NestedExt f) (hf : Asf.SaveFits f [] Asf.padZero) (e : PyErr)
    (h : Asf.delete f = .error e) : e = .mutagen := by
  rcases Asf.delete_err_fits hf h with h1 | ⟨_, h2⟩
  · exact h1
  · exact absurd h2 hn

/-! ## save -/

/-- `save` on any byte string with any tags and any padding answer: a MutagenError, the nested-extension
case of loading, UnicodeEncodeError or struct.error — no other class -/
theorem asf_save_classes (f : Bytes) (tags : List Asf.Tag) (pad : PadChoice) (e : PyErr) (h : Asf.save f tags pad = .error e) :
    e = .mutagen ∨ (e = .notImplemented ∧ Asf.NestedExt f) ∨ e = .unicode ∨ e = .struct_ :=
  Asf.save_err_classes h

/-- C04 for save with caller-supplied tags that are `Renderable` (decidable: strings encodable, numbers
in range, encoded name + terminator below 64 KiB, value below 4 GiB, language / stream 16 bits, fewer
than 65536 tags).  MISSING: tags outside `Renderable` (UnicodeEncodeError / struct.error from
`struct.pack` and `str.encode`), nested Header Extension Objects, sizes beyond `SaveFits`. -/
theorem asf_save_clean_partial (f : Bytes) (tags : List Asf.Tag) (pad : PadChoice) (hr : Asf.Renderable tags)
    (hn : ¬ Asf.NestedExt f) (hf : Asf.SaveFits f tags pad) (e : PyErr) (h : Asf.save f tags pad = .error e) : e = .mutagen := by
  rcases Asf.save_err_fits hr hf h with h1 | ⟨_, h2⟩
  · exact h1
  · exact absurd h2 hn

/-- renderable tags render: all four metadata payloads are produced -/
theorem asf_renderable_renders (tags : List Asf.Tag) (h : Asf.Renderable tags) : ∃ P, Asf.Renders (Asf.distPure tags) P :=
  Asf.renders_of_renderable tags h

/-! ## save of what was loaded -/

/-- every tag a file loads with has an encodable name and value -/
theorem asf_loaded_tags_encodable (objs : List Asf.Obj) : ∀ t ∈ Asf.loadedTags objs, t.Enc :=
  Asf.loadedTags_enc objs

/-- `a = ASF(file); a.save(file)` on any byte string and any padding answer: no UnicodeEncodeError — a
MutagenError, the nested-extension case, or struct.error -/
theorem asf_resave_classes (f : Bytes) (pad : PadChoice) (e : PyErr) (h : Asf.resave f pad = .error e) :
    e = .mutagen ∨ (e = .notImplemented ∧ Asf.NestedExt f) ∨ e = .struct_ :=
  Asf.resave_err_classes h

/-- ESCAPE (struct.error): a 65600-byte file that loads, and whose save — tags untouched, any padding
choice — raises struct.error.  Its Extended Content Description Object has a descriptor whose name
field has 65534 bytes and no terminator; `render` appends one: 65536 does not fit `struct.pack("<H")`. -/
theorem asf_resave_escape_witness (pad : PadChoice) : Asf.resave Asf.wLongName pad = .error .struct_ :=
  Asf.resave_wLongName pad

/-- C04 for the unchanged save.  MISSING: loaded tags that are not `Renderable` (witness above; likewise
more than 65535 values ending up in one object), nested Header Extension Objects, sizes beyond `SaveFits`. -/
theorem asf_resave_clean_partial (f : Bytes) (pad : PadChoice) (objs : List Asf.Obj) (ho : Asf.parseFull f = .ok objs)
    (hr : Asf.Renderable (Asf.loadedTags objs)) (hf : Asf.SaveFits f (Asf.loadedTags objs) pad) (e : PyErr)
    (h : Asf.resave f pad = .error e) : e = .mutagen := by
  rw [Asf.resave_eq_save ho] at h
  rcases Asf.save_err_fits hr hf h with h1 | ⟨_, h2⟩
  · exact h1
  · unfold Asf.NestedExt at h2; rw [ho] at h2; cases h2

/-! ## concrete inputs -/

/-- the model's "outside" answer: a Header Extension Object in a Header Extension Object -/
example : Asf.parseFull (Asf.headerBytes 1 (Asf.object Asf.gExt (Asf.extPayload (Asf.object Asf.gExt (Asf.extPayload []))))) =
    .error .notImplemented := by decide +kernel

/-- not an ASF file; too short -/
example : Asf.parseFull (zeros 40) = .error .mutagen := by decide +kernel
example : Asf.parseFull (Asf.gHeader ++ zeros 10) = .error .mutagen := by decide +kernel
/-- the count field announces an object the header size has no room for -/
example : Asf.parseFull (Asf.headerBytes 1 []) = .error .mutagen := by decide +kernel
/-- an object size below 24 -/
example : Asf.parseFull (Asf.headerBytes 1 (Asf.gPadding ++ toLE 8 5 ++ zeros 8)) = .error .mutagen := by decide +kernel
/-- an object that claims more than the file has -/
example : Asf.delete (Asf.headerBytes 1 (Asf.gPadding ++ toLE 8 100 ++ zeros 76) |>.take 80) = .error .mutagen := by decide +kernel
/-- a Header Object inside the header; inside the Header Extension Object -/
example : Asf.parseFull (Asf.headerBytes 1 (Asf.object Asf.gHeader [])) = .error .mutagen := by decide +kernel
example : Asf.delete (Asf.headerBytes 1 (Asf.object Asf.gExt (Asf.extPayload (Asf.object Asf.gHeader [])))) = .error .mutagen := by
  decide +kernel
/-- a Header Extension child of size 0; a Header Extension payload without the data size field -/
example : Asf.parseFull (Asf.headerBytes 1 (Asf.object Asf.gExt (Asf.extPayload (Asf.gPadding ++ toLE 8 0)))) = .error .mutagen := by
  decide +kernel
example : Asf.parseFull (Asf.headerBytes 1 (Asf.object Asf.gExt (zeros 20))) = .error .mutagen := by decide +kernel
/-- Extended Content Description: unknown attribute type 9; a DWORD of three bytes; text of odd length -/
example : Asf.parseFull (Asf.headerBytes 1 (Asf.object Asf.gECD [1, 0, 2, 0, 0, 0, 9, 0, 0, 0])) = .error .mutagen := by decide +kernel
example : Asf.parseFull (Asf.headerBytes 1 (Asf.object Asf.gECD [1, 0, 2, 0, 0, 0, 3, 0, 3, 0, 1, 2, 3])) = .error .mutagen := by
  decide +kernel
example : Asf.parseFull (Asf.headerBytes 1 (Asf.object Asf.gECD [1, 0, 2, 0, 0, 0, 0, 0, 3, 0, 97, 0, 98])) = .error .mutagen := by
  decide +kernel
/-- a lone surrogate in a Content Description text; a File Properties Object of 63 bytes -/
example : Asf.parseFull (Asf.headerBytes 1 (Asf.object Asf.gCD [2, 0, 0, 0, 0, 0, 0, 0, 0, 0, 0, 0xD8])) = .error .mutagen := by
  decide +kernel
example : Asf.parseFull (Asf.headerBytes 1 (Asf.object Asf.gFileProps (zeros 63))) = .error .mutagen := by decide +kernel
/-- the header size field reaches beyond the file: "truncated content" at save time -/
example : Asf.delete (Asf.gHeader ++ toLE 8 1000 ++ toLE 4 0 ++ [1, 2]) = .error .mutagen := by decide +kernel

/-- caller-supplied tags outside `Renderable`: a lone surrogate in a text value; a DWORD of 2^32 -/
example : Asf.save Asf.exLayout.render [⟨[102], .unicode [0xD800], none, none⟩] .default = .error .unicode := by decide +kernel
example : Asf.save Asf.exLayout.render [⟨[102], .dword 4294967296, none, none⟩] .default = .error .struct_ := by decide +kernel
example : ¬ Asf.Renderable [⟨[102], .unicode [0xD800], none, none⟩] ∧ ¬ Asf.Renderable [⟨[102], .dword 4294967296, none, none⟩] := by
  decide +kernel

/-- the hypotheses of the partial theorems hold for the small well-formed file of the other property files -/
example : ¬ Asf.NestedExt Asf.exLayout.render ∧ Asf.Renderable Asf.exTags ∧ Asf.SaveFits Asf.exLayout.render Asf.exTags .default ∧
    Asf.SaveFits Asf.exLayout.render [] Asf.padZero := by
  refine ⟨by decide +kernel, by decide +kernel, by decide +kernel, by decide +kernel⟩

end Mutagen.C04
