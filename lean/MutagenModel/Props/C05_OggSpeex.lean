/-
Props/C05_OggSpeex.lean — C05 for Ogg Speex (`mutagen.oggspeex.OggSpeexInfo`).  Property theorems only.
-/
import MutagenModel.Proofs.Info.OggCodecs
set_option linter.unusedVariables false
namespace Mutagen.C05
open Mutagen Mutagen.Ogg Mutagen.Info Mutagen.Spec Mutagen.Spec.OggS

/-- C05 for Ogg Speex: for every 80-byte Speex header (any version string and ids, any rate ≥ 1 and
channel count ≥ 1 below 2^31, any signed 32-bit bitrate, any further fields) in any stream, the
reported sample rate and channels are the header's, the bitrate is the header's or 0 when that is
negative ("not set"), and the length is the final granule position over the rate. -/
theorem oggspeex_info_decodes (h : Speex.Fields) (ok : h.OK) :
    Info.Speex.parse (Speex.build h) = .ok (Speex.expected h) :=
  Info.Speex.parse_build h ok

/-- C04 side: on EVERY byte string the result is a value or the format's error (without the handlers of
`OggFileType.load`: `error` or EOFError) -/
theorem oggspeex_info_total (f : Bytes) : ∀ e, Info.Speex.parse f = .error e → e = .mutagen :=
  loadWrap_clean _ (fun e h => Info.Speex.raw_classes f e h)

theorem oggspeex_info_raw_classes (f : Bytes) : ∀ e, Info.Speex.raw f = .error e → e = .mutagen ∨ e = .eof :=
  fun e h => Info.Speex.raw_classes f e h

/-- the former witness of an escaping `struct.error` (repaired in /repo 808f0c2): a first page whose packet
is "Speex   " followed by 30 zero bytes (the header needs 56) — now OggSpeexHeaderError("truncated ID header") -/
def speexShortHeader : Bytes :=
  renderB { packets := [Info.Speex.magic ++ zeros 30], first := true, serial := 1 }

example : Info.Speex.parse speexShortHeader = .error .mutagen := by decide +kernel

/-! non-vacuity -/
example : ({ versionString := zeros 20, versionId := 1, headerSize := 80, rate := 16000, mode := 1, modeBitstreamVersion := 4,
             channels := 1, bitrate := -1, rest := zeros 24,
             stream := { serial := 3, middle := [], lastSeq := 2, lastGranule := 16000, lastPackets := [[1, 2, 3]] } } : Speex.Fields).OK := by
  decide +kernel

end Mutagen.C05
