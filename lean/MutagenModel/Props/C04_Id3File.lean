/-
Props/C04_Id3File.lean — C04 ("opening any byte sequence … then saving or deleting … either succeeds or raises
MutagenError") for the model of free-standing ID3 files, for EVERY byte string: the header reader (incl. the
extended-header branch), `ID3.save` and the module function `delete`.
-/
import MutagenModel.Proofs.Container.Id3File
set_option linter.unusedVariables false
namespace Mutagen.C04
open Mutagen Mutagen.Id3F

theorem id3_ext_header_clean (f : Bytes) (vmaj : Nat) : ∀ e, extHeader f vmaj = .error e → e = .mutagen := by
  intro e h
  unfold extHeader at h
  simp only [] at h
  repeat' split at h
  all_goals first | (cases h; rfl) | cases h

theorem id3_header_clean (f : Bytes) : ∀ e, headerSize f = .error e → e = .mutagen := by
  intro e h
  unfold headerSize at h
  simp only [] at h
  repeat' split at h
  all_goals first | (cases h; rfl) | (cases h; done) | skip
  all_goals (rename_i he; cases h; exact id3_ext_header_clean _ _ _ he)

theorem id3_delete_clean (f : Bytes) (v1 v2 : Bool) : ∀ e, Id3F.delete f v1 v2 = .error e → e = .mutagen := by
  intro e h
  unfold Id3F.delete at h
  simp only [] at h
  repeat' split at h
  all_goals first | (cases h; rfl) | cases h

/-- the header for a body below 2^28 bytes can always be written -/
theorem header_total (vmaj n : Nat) (hn : n < 2 ^ 28) : ∃ hd, header vmaj n = .ok hd := by
  obtain ⟨a, b, c, d, h, _⟩ := header_ok vmaj n hn
  exact ⟨_, h⟩

/-- C04 for `ID3.save` on ANY bytes: with `v2_version` 3 or 4 (anything else is the documented
ValueError for a wrong argument), any rendered frames, any padding answer and any ID3v1 option,
the call succeeds or raises an ID3 error — provided the file's ID3 header, if it has one, does not
declare more bytes than the file holds (such a file is refused by `ID3(file)` itself, so `save`
meets it only for tags that were not loaded from it; the model does not cover that case). -/
theorem id3_save_clean (f : Bytes) (vmaj : Nat) (frames : Bytes) (pad : PadChoice) (v1opt : Nat) (blk : Bytes)
    (hvm : vmaj = 3 ∨ vmaj = 4) (hfile : ∀ n, headerSize f = .ok (some n) → n ≤ f.length) :
    ∀ e, save f vmaj frames pad v1opt blk = .error e → e = .mutagen := by
  intro e h
  unfold save at h
  cases hh : headerSize f with
  | error e' =>
    rw [hh] at h; simp only [] at h; cases h; exact id3_header_clean f _ hh
  | ok ho =>
    rw [hh] at h
    simp only [] at h
    have h0 : ¬ (vmaj ≠ 3 ∧ vmaj ≠ 4) := by omega
    rw [if_neg h0] at h
    have hle : ho.getD 0 ≤ f.length := by
      cases ho with
      | none => simp
      | some n => simpa using hfile n hh
    have h1 : ¬ ((f.length : Int) - ((ho.getD 0 : Nat) : Int) < 0) := by omega
    rw [if_neg h1] at h
    split at h
    · cases h; rfl
    · split at h
      · cases h; rfl
      · rename_i hfr
        obtain ⟨hd, hhd⟩ := header_total vmaj (frames.length + 10 +
          min (getPadding pad (((ho.getD 0 : Nat) : Int) - ((frames.length + 10 : Nat) : Int))
            ((f.length : Int) - ((ho.getD 0 : Nat) : Int)).toNat).toNat (2 ^ 28 - 1 - frames.length) - 10) (by omega)
        rw [hhd] at h
        simp only [] at h
        split at h <;> cases h

/-! damaged inputs on the error paths (what the class is, concretely) -/
example : headerSize [0x49, 0x44, 0x33, 5, 0, 0, 0, 0, 0, 0] = .error .mutagen := by decide
example : headerSize [0x49, 0x44, 0x33, 4, 0, 0, 0x80, 0, 0, 0] = .error .mutagen := by decide
example : headerSize [0x49, 0x44, 0x33, 4, 0, 0x40, 0, 0, 0, 0, 1, 2] = .error .mutagen := by decide
example : headerSize [0x49, 0x44, 0x33, 3, 0, 0x40, 0, 0, 0, 4, 0xff, 0xff, 0xff, 0xff] = .error .mutagen := by decide
example : headerSize ([0x49, 0x44, 0x33, 4, 0, 0x40, 0, 0, 0, 4] ++ [0x54, 0x49, 0x54, 0x32]) = .ok (some 14) := by decide
example : Id3F.delete [0x49, 0x44, 0x33, 4, 0, 0, 0, 0, 7, 0x68, 1, 2, 3] false true = .error .mutagen := by decide
/-- the excluded case of `id3_save_clean`: a header that declares 1000 bytes in a 13-byte file is outside the model -/
example : save [0x49, 0x44, 0x33, 4, 0, 0, 0, 0, 7, 0x68, 1, 2, 3] 4 [] (.callback fun _ _ => 0) 0 [] = .error .notImplemented := by
  decide

end Mutagen.C04
