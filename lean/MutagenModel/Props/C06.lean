/-
Props/C06.lean — C06 "I/O failures surface only as MutagenError; success means written".
Theorems are about the FileM programs of the model in ARBITRARY fault environments: any
exception injected at any file-object call, short reads, finite capacity.
-/
import MutagenModel.Proofs.OkAgree
import MutagenModel.Proofs.Container.FlacEntry
import MutagenModel.Generated.EntryPoints
set_option linter.unusedVariables false
namespace Mutagen.C06
open Mutagen

/-- whatever call of the file object fails, and however, the file primitives under every
saver raise nothing but: the injected exception itself, ENOSPC, ValueError (argument check),
IOError (read_full on a short read) — or the model's marker for BUFFER_SIZE = 0 -/
theorem primitives_raise_only :
    (∀ B diff, Raises PrimErr (resizeFile B diff)) ∧
    (∀ B d s c, Raises PrimErr (moveBytes B d s c)) ∧
    (∀ B n o, Raises PrimErr (insertBytes B n o)) ∧
    (∀ B n o, Raises PrimErr (deleteBytes B n o)) ∧
    (∀ B a b o, Raises PrimErr (resizeBytes B a b o)) ∧
    (∀ n, Raises PrimErr (readFull n)) ∧ Raises PrimErr getSize :=
  ⟨Raises.resizeFile, Raises.moveBytes, Raises.insertBytes, Raises.deleteBytes, Raises.resizeBytes,
   Raises.readFull, Raises.getSize⟩

/-- `@convert_error(IOError, error)` around a program that raises only primitive errors: what
comes out is the MutagenError, or a non-I/O exception the program raised -/
theorem convert_error_sound {m : FileM α} (hm : Raises PrimErr m) :
    Raises (fun e x => x = .mutagen ∨ (PrimErr e x ∧ x.isIO = false)) (convertError PyErr.isIO .mutagen m) :=
  Raises.convertError PyErr.isIO .mutagen hm

/-- a normal return of a primitive means no injected fault fired: the same run happens in the
environment without injected exceptions (nothing is swallowed on the way) -/
theorem primitives_ok_means_no_fault :
    (∀ B diff, OkAgree (resizeFile B diff)) ∧ (∀ B d s c, OkAgree (moveBytes B d s c)) ∧
    (∀ B n o, OkAgree (insertBytes B n o)) ∧ (∀ B n o, OkAgree (deleteBytes B n o)) ∧
    (∀ B a b o, OkAgree (resizeBytes B a b o)) :=
  ⟨OkAgree.resizeFile, OkAgree.moveBytes, OkAgree.insertBytes, OkAgree.deleteBytes, OkAgree.resizeBytes⟩

/-! ### FLAC save as an entry point: `@convert_error(IOError, error)` around FLAC._save -/
open Mutagen.FlacC

def flacSaveEntry (B : Nat) (L : Layout) (blocks : List Block) (pad : PadChoice) : FileM Unit :=
  convertError PyErr.isIO .mutagen (saveM B L blocks pad)

/-- FLAC.save under ANY fault environment: what escapes is `error` (a MutagenError), or a
non-I/O exception — i.e. one the environment itself injected that is not an IOError,
ValueError from an argument check, or the BUFFER_SIZE = 0 marker.  In particular when the
injected faults are I/O errors, only MutagenError or ValueError can leave. -/
theorem flac_save_raises_only (B : Nat) (L : Layout) (blocks : List Block) (pad : PadChoice) :
    Raises (fun e x => x = .mutagen ∨ ((x = .mutagen ∨ PrimErr e x) ∧ x.isIO = false))
      (flacSaveEntry B L blocks pad) :=
  Raises.convertError PyErr.isIO .mutagen (raises_saveM B L blocks pad)

/-- … and with I/O faults only (every injected exception is an IOError, ENOSPC included) and a
positive buffer size, exactly: MutagenError or ValueError -/
theorem flac_save_io_faults (B : Nat) (hB : 0 < B) (L : Layout) (blocks : List Block) (pad : PadChoice)
    (e : Env) (hio : ∀ i x, e.failAt i = some x → x.isIO = true) (s s' : FS) (x : PyErr)
    (h : flacSaveEntry B L blocks pad e s = (.error x, s')) : x = .mutagen ∨ x = .value ∨ x = .diverge := by
  rcases flac_save_raises_only B L blocks pad e s x s' h with h1 | ⟨h2, hn⟩
  · exact Or.inl h1
  · rcases h2 with h2 | h2
    · exact Or.inl h2
    · rcases h2 with ⟨i, hi⟩ | h2 | h2 | h2 | h2
      · have := hio i x hi; rw [this] at hn; cases hn
      · subst h2; cases hn
      · exact Or.inr (Or.inl h2)
      · subst h2; cases hn
      · exact Or.inr (Or.inr h2)

/-- success means written: a normal return of FLAC._save — in any environment without short
reads, on a device of any capacity — leaves exactly the rendering of the saved layout -/
theorem flac_save_ok_means_written (B : Nat) (hB : 0 < B) (L : Layout) (blocks : List Block) (pad : PadChoice)
    (hsz : ∀ b ∈ blocks, b.data.length ≤ maxSize) (e : Env) (hshort : ∀ i, e.shortAt i = none)
    (s s' : FS) (hs : s.data = render L) (h : saveM B L blocks pad e s = (.ok (), s')) :
    s'.data = render (msave L blocks false pad) :=
  saveM_ok_means_written B hB L blocks pad hsz e hshort s s' hs h

/-- the static shape of every public entry point (regenerated from the source by decorator
introspection and an AST scan on every run): for each load/save/delete of the 24 file types,
the tag classes and the module-level delete functions, an IOError raised by the file object
is converted by a `convert_error(IOError, <MutagenError subclass>)` decorator, or caught and
re-raised by a handler in the body, or the function does no file I/O of its own and every
callee that receives the file (stream-info constructors included) is protected in turn.
Dropping such a decorator makes this theorem fail. -/
theorem entrypoints_protected :
    (Generated.entryPoints.all fun e => e.2.2.2.1 != "unprotected") = true ∧
    Generated.entryPoints.length ≥ 80 := by decide

/-! non-vacuity: an injected fault in the middle of a move really surfaces, converted -/
example : (convertError PyErr.isIO .mutagen (moveBytes 2 0 2 3)
    { failAt := fun i => if i = 5 then some .io else none } { data := [1, 2, 3, 4, 5] }).1 = .error .mutagen := by
  decide +kernel

end Mutagen.C06
