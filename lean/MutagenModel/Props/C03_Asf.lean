/-
Props/C03_Asf.lean — C03 "After every edit the container is well-formed", ASF files.
Model: Model/Container/Asf.lean; lemmas: Proofs/Container/Asf.lean.
-/
import MutagenModel.Proofs.Container.Asf
set_option linter.unusedVariables false
namespace Mutagen.C03
open Mutagen

/-! ## ASF -/

/-- ASF save on a well-formed layout (tags that render, any padding choice, a new header that fits
the size fields): the saved file is a well-formed layout `L'` again — the strict reader (Header Object
GUID, size field inside the file and filled exactly by the child objects, count field = number of
children, reserved bytes, every Header Extension payload = reserved field + data size equal to the
extent of its children, which fill it exactly) reads it back as `L'`; mutagen's own `parse_size` reads
the header's extent and the number of children from the size and count fields; the file is the
header followed by the old rest; and mutagen loads it (`L'.OK`: its parsers accept the four metadata
objects it wrote).

The File Size field of the File Properties Object is kept up to date: `asf_file_size_field_correct`. -/
theorem asf_save_wellformed (L : Asf.Layout) (h : L.OK) (tags : List Asf.Tag) (d : Asf.Dist)
    (hd : Asf.distribute tags = .ok d) (P : Asf.Payloads) (hP : Asf.Renders d P) (pad : PadChoice)
    (hf : L.Fits P (Asf.newPadding L P pad)) :
    ∃ L' : Asf.Layout, Asf.save L.render tags pad = .ok L'.render ∧ L'.OK ∧ Asf.readLayout L'.render = some L' ∧
      Asf.parseSize L'.render = .ok (L'.headerLen, L'.top.length) ∧ L'.render.length = L'.headerLen + L.rest.length := by
  have hok := Asf.after_OK' L h P (Asf.renders_parses d P hP) _ hf
  exact ⟨L.after P (Asf.newPadding L P pad), (Asf.save_layout L h tags d hd P hP pad hf).2, hok,
    Asf.readLayout_layout _ hok, Asf.Layout.parseSize_render _ hok, Asf.Layout.render_length _⟩

/-- ASF delete leaves a well-formed layout -/
theorem asf_delete_wellformed (L : Asf.Layout) (h : L.OK) (hf : L.Fits Asf.emptyPayloads 0) :
    ∃ L' : Asf.Layout, Asf.delete L.render = .ok L'.render ∧ L'.OK ∧ Asf.readLayout L'.render = some L' ∧
      Asf.parseSize L'.render = .ok (L'.headerLen, L'.top.length) ∧ L'.render.length = L'.headerLen + L.rest.length := by
  have hok := Asf.after_OK' L h Asf.emptyPayloads Asf.parses_empty 0 hf
  exact ⟨L.after Asf.emptyPayloads 0, Asf.delete_layout L h hf, hok, Asf.readLayout_layout _ hok,
    Asf.Layout.parseSize_render _ hok, Asf.Layout.render_length _⟩

/-- the File Size field is right after a save: on a well-formed layout with a File Properties Object
among the children of the Header Object (its payload has at least 64 bytes, or the file would not
load), the saved layout's first File Properties Object carries, in payload bytes 16..24, the length
of the saved file -/
theorem asf_file_size_field_correct (L : Asf.Layout) (h : L.OK) (tags : List Asf.Tag) (d : Asf.Dist)
    (hd : Asf.distribute tags = .ok d) (P : Asf.Payloads) (hP : Asf.Renders d P) (pad : PadChoice)
    (hf : L.Fits P (Asf.newPadding L P pad)) (hfp : L.top.any Asf.Item.isFP = true) :
    ∃ L' : Asf.Layout, Asf.save L.render tags pad = .ok L'.render ∧ Asf.readLayout L'.render = some L' ∧
      Asf.fileSizeField L'.top = some L'.render.length :=
  ⟨L.after P (Asf.newPadding L P pad), (Asf.save_layout L h tags d hd P hP pad hf).2,
    Asf.readLayout_layout _ (Asf.after_OK' L h P (Asf.renders_parses d P hP) _ hf), Asf.after_fileSize L h P _ hf hfp⟩

/-- … and after a delete -/
theorem asf_file_size_field_correct_delete (L : Asf.Layout) (h : L.OK) (hf : L.Fits Asf.emptyPayloads 0)
    (hfp : L.top.any Asf.Item.isFP = true) :
    ∃ L' : Asf.Layout, Asf.delete L.render = .ok L'.render ∧ Asf.readLayout L'.render = some L' ∧
      Asf.fileSizeField L'.top = some L'.render.length :=
  ⟨L.after Asf.emptyPayloads 0, Asf.delete_layout L h hf,
    Asf.readLayout_layout _ (Asf.after_OK' L h _ Asf.parses_empty 0 hf), Asf.after_fileSize L h _ 0 hf hfp⟩

/-- the strict reader inverts `render` on every well-formed layout -/
theorem asf_strict_reader_reads_layout (L : Asf.Layout) (h : L.OK) : Asf.readLayout L.render = some L :=
  Asf.readLayout_layout L h

/-- what `save` rendered, `load` accepts: the payloads of the four metadata objects pass mutagen's parsers -/
theorem asf_rendered_objects_parse (d : Asf.Dist) (P : Asf.Payloads) (h : Asf.Renders d P) : P.Parses :=
  Asf.renders_parses d P h

/-- the Header Extension Object of a layout: its data size field holds the extent of its children,
and the children are what follows the field -/
theorem asf_ext_data_size (subs : List Asf.SubItem) (h : (Asf.renderObjects (subs.map Asf.SubItem.toObject)).length < 2 ^ 32) :
    ofLE (((Asf.Item.ext subs).toObject.data.drop 18).take 4) = (Asf.renderObjects (subs.map Asf.SubItem.toObject)).length ∧
      (Asf.Item.ext subs).toObject.data.drop 22 = Asf.renderObjects (subs.map Asf.SubItem.toObject) :=
  Asf.ext_datasize subs h

/-- loading any byte string ends with a tree or a Python exception: the loop bound the model gives the
Header Extension walk (`len(data) + 1` rounds) is never the reason for stopping -/
theorem asf_load_total (f : Bytes) : Asf.parseFull f ≠ .error .diverge :=
  Asf.parseFull_no_diverge f

/-- the hypotheses are satisfiable -/
example : Asf.exLayout.OK ∧ Asf.distribute Asf.exTags = .ok Asf.exDist ∧ Asf.Renders Asf.exDist Asf.exPayloads ∧
    Asf.exLayout.Fits Asf.exPayloads (Asf.newPadding Asf.exLayout Asf.exPayloads .default) ∧
    Asf.exLayout.Fits Asf.emptyPayloads 0 ∧ Asf.exLayout.top.any Asf.Item.isFP = true := by
  refine ⟨by decide +kernel, by decide +kernel, by decide +kernel, by decide +kernel, by decide +kernel, by decide +kernel⟩

end Mutagen.C03
