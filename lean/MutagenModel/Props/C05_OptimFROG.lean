/-
Props/C05_OptimFROG.lean — C05 "Stream information equals what the headers encode" for OptimFROG
(mutagen/optimfrog.py `OptimFROGInfo`).  Property theorems only; layout: Spec/Info/OptimFROG.lean,
parser: Model/Info/OptimFROG.lean, sample-type table: Generated/Tables.lean.
-/
import MutagenModel.Proofs.Info.OptimFROG
set_option linter.unusedVariables false
namespace Mutagen.C05
open Mutagen Mutagen.Info Mutagen.Info.OptimFROG Mutagen.Spec.OptimFROG

/-- every row of mutagen's `SAMPLE_TYPE_BITS` (regenerated from the source) is the format's sample size -/
theorem ofr_sample_type_rows : ∀ st < 8,
    (Generated.ofrSampleTypeBits.find? (·.1 == st)).map (·.2) = some (sampleTypeBits.getD st 0) := bits_rows

/-- for all 65536 encoder ids the string mutagen builds from the decimal digits is the "d.ddd" version -/
theorem ofr_encoder_string (id : Nat) (h : id < 2 ^ 16) : encoderString (id / 16 + 4500) = versionString id :=
  encoderString_eq id h

/-- C05 for OptimFROG: for EVERY main header the format allows (48-bit sample count, the 8 sample types,
1-256 channels, any rate ≥ 1, block size 12, or ≥ 15 with any encoder id / compression byte / further
bytes) in a file of at least 76 bytes (mutagen reads 76 bytes before looking at anything), `OptimFROGInfo`
reports exactly the encoded channels, rate, sample size, encoder version string, and the duration
`samples / (channels · rate)`. -/
theorem ofr_info_decodes (h : Fields) (ok : h.OK) (rest : Bytes) (hlen : 76 ≤ (build h ++ rest).length) :
    parse (build h ++ rest) = .ok (expected h) :=
  parse_build h ok rest hlen

/-- C04 side: on EVERY byte string `OptimFROGInfo` either succeeds or raises a `MutagenError`
(`OptimFROGHeaderError`). -/
theorem ofr_info_total (f : Bytes) : ∀ e, parse f = .error e → e = .mutagen := parse_total f

/-! non-vacuity -/
def ofrSample : Fields :=
  { totalSamples := 2 ^ 33 + 7, sampleType := 4, channels := 2, rate := 44100, ext := some ⟨0x2581, 3, []⟩ }
example : ofrSample.OK := by decide
example : parse (build ofrSample ++ zeros 60) =
    .ok { channels := 2, sampleRate := 44100, bitsPerSample := some 24, length := ⟨2 ^ 33 + 7, 88200⟩,
          encoderInfo := ['5', '.', '1', '0', '0'] } := by decide +kernel

end Mutagen.C05
