/-
Props/C06_Id3File.lean — C06 ("I/O failures surface only as MutagenError; success means written")
for free-standing ID3 files: the programs `saveM` / `deleteM` of Model/Container/Id3FileM.lean
(`ID3.save` and the module function `delete` of mutagen/id3/_file.py with every file-object call
they make, `@convert_error(IOError, error)` and `loadfile`'s `verify_fileobj` included) in
ARBITRARY fault environments: any exception injected at any call, short reads, finite capacity.

Besides `PyErr.mutagen` (MutagenError) and `PyErr.value` (ValueError: `verify_fileobj` turns ANY
failure of its probing `read(0)` / `write(b"")` into ValueError — the recorded finding
`escape:ValueError:_util.py:verify_fileobj` — and a `v2_version` other than 3/4) the statements
list two markers of the model: `notImplemented` (the header announces more bytes than the file
holds; the pure model stops there) and `diverge` (BUFFER_SIZE = 0).
-/
import MutagenModel.Proofs.Container.Id3FileCap
set_option linter.unusedVariables false
namespace Mutagen.C06
open Mutagen Mutagen.Id3F

/-- `ID3.save` under ANY fault environment: what escapes is `error` (a MutagenError), or a
non-I/O exception: one the environment itself injected that is not an IOError, ValueError, or
one of the model's markers -/
theorem id3_save_raises_only (B vmaj : Nat) (frames : Bytes) (pad : PadChoice) (v1opt : Nat) (blk : Bytes) :
    Raises (fun e x => x = .mutagen ∨ ((x = .mutagen ∨ x = .notImplemented ∨ PrimErr e x) ∧ x.isIO = false))
      (saveM B vmaj frames pad v1opt blk) :=
  raises_saveM B vmaj frames pad v1opt blk

/-- … and when every injected exception is an IOError (ENOSPC included), exactly: MutagenError,
ValueError, or a marker -/
theorem id3_save_io_faults (B vmaj : Nat) (frames : Bytes) (pad : PadChoice) (v1opt : Nat) (blk : Bytes)
    (e : Env) (hio : ∀ i x, e.failAt i = some x → x.isIO = true) (s s' : FS) (x : PyErr)
    (h : saveM B vmaj frames pad v1opt blk e s = (.error x, s')) :
    x = .mutagen ∨ x = .value ∨ x = .notImplemented ∨ x = .diverge :=
  io_faults_only (raises_saveM B vmaj frames pad v1opt blk) e hio s s' x h

/-- SUCCESS MEANS WRITTEN: if `ID3.save` returns normally — whatever the environment would have
injected elsewhere, on a device of any capacity, as long as reads are not short — then the pure
`save` succeeds on the bytes the file had and the file now holds exactly its result.  For EVERY
file (no well-formedness assumed); `blk` is the 128-byte block `MakeID3v1` renders. -/
theorem id3_save_ok_means_written (B : Nat) (hB : 0 < B) (vmaj : Nat) (frames : Bytes) (pad : PadChoice) (v1opt : Nat)
    (blk : Bytes) (hblk : blk.length = 128) (e : Env) (hshort : ∀ i, e.shortAt i = none) (s s' : FS) (hpos : s.pos = 0)
    (h : saveM B vmaj frames pad v1opt blk e s = (.ok (), s')) :
    save s.data vmaj frames pad v1opt blk = .ok s'.data :=
  saveM_ok_means_written B hB vmaj frames pad v1opt blk hblk e hshort s s' hpos h

/-- … in particular on a well-formed layout a normal return leaves: new header, frames, padding,
the audio untouched, the ID3v1 block the option asks for -/
theorem id3_save_ok_means_written_layout (B : Nat) (hB : 0 < B) (L : Layout) (hL : L.OK) (vmaj : Nat)
    (hvm : vmaj = 3 ∨ vmaj = 4) (frames : Bytes) (pad : PadChoice) (v1opt : Nat) (blk : Bytes) (hblk : blk.length = 128)
    (p : Nat) (hp : getPadding pad ((L.tag.length : Int) - (frames.length + 10 : Nat)) (L.audio.length + L.v1.length) = p)
    (hfit : frames.length + p < 2 ^ 28) (e : Env) (hshort : ∀ i, e.shortAt i = none) (s s' : FS)
    (hs : s.data = L.render) (hpos : s.pos = 0) (h : saveM B vmaj frames pad v1opt blk e s = (.ok (), s')) :
    ∃ hd, header vmaj (frames.length + p) = .ok hd ∧
      s'.data = hd ++ frames ++ zeros p ++ L.audio ++ newV1 L.v1 v1opt blk := by
  obtain ⟨hd, hhd, hsave⟩ := save_layout L hL vmaj hvm frames pad v1opt blk p hp hfit
  have := id3_save_ok_means_written B hB vmaj frames pad v1opt blk hblk e hshort s s' hpos h
  rw [hs, hsave] at this
  injection this with this
  exact ⟨hd, hhd, this.symm⟩

/-- the module function `delete` under ANY fault environment -/
theorem id3_delete_raises_only (B : Nat) (dv1 dv2 : Bool) :
    Raises (fun e x => x = .mutagen ∨ ((x = .mutagen ∨ x = .notImplemented ∨ PrimErr e x) ∧ x.isIO = false))
      (deleteM B dv1 dv2) :=
  raises_deleteM B dv1 dv2

theorem id3_delete_io_faults (B : Nat) (dv1 dv2 : Bool)
    (e : Env) (hio : ∀ i x, e.failAt i = some x → x.isIO = true) (s s' : FS) (x : PyErr)
    (h : deleteM B dv1 dv2 e s = (.error x, s')) :
    x = .mutagen ∨ x = .value ∨ x = .notImplemented ∨ x = .diverge :=
  io_faults_only (raises_deleteM B dv1 dv2) e hio s s' x h

/-- a normal return of `delete` (no short reads) leaves exactly what the pure `delete` computes
from the bytes the file had — for every file -/
theorem id3_delete_ok_means_written (B : Nat) (hB : 0 < B) (dv1 dv2 : Bool) (e : Env) (hshort : ∀ i, e.shortAt i = none)
    (s s' : FS) (hpos : s.pos ≤ s.data.length) (h : deleteM B dv1 dv2 e s = (.ok (), s')) :
    delete s.data dv1 dv2 = .ok s'.data :=
  deleteM_ok_means_written B hB dv1 dv2 e hshort s s' hpos h

/-! ### non-vacuity: injected faults really surface, converted; `verify_fileobj` gives ValueError;
a short read of the header is NOT noticed (the tag is taken for absent and a second one is
written in front: the reason for the "no short reads" hypothesis) -/

def demoFile : Bytes := [0x49, 0x44, 0x33, 4, 0, 0, 0, 0, 0, 2, 0, 0] ++ [0xFF, 0xFB, 0x90, 0x00] ++ List.replicate 130 0x55
def pad0 : PadChoice := .callback fun _ _ => 0

/-- an IOError at call 7 (the `seek` before the tag is written) leaves as MutagenError -/
example : (saveM 4 4 [0x61] pad0 1 (zeros 128) { failAt := fun i => if i = 7 then some .io else none }
    { data := demoFile }).1 = .error .mutagen := by decide +kernel

/-- an IOError at call 0 or 1 (`verify_fileobj`) leaves as ValueError -/
example : (saveM 4 4 [0x61] pad0 1 (zeros 128) { failAt := fun i => if i = 1 then some .io else none }
    { data := demoFile }).1 = .error .value := by decide +kernel

/-- a short read of the ten header bytes: `save` returns normally and the file now has two tags -/
example : (saveM 4 4 [0x61] pad0 1 (zeros 128) { shortAt := fun i => if i = 2 then some 9 else none }
    { data := demoFile }).1 = .ok () ∧
  (saveM 4 4 [0x61] pad0 1 (zeros 128) { shortAt := fun i => if i = 2 then some 9 else none }
    { data := demoFile }).2.data = [0x49, 0x44, 0x33, 4, 0, 0, 0, 0, 0, 1, 0x61] ++ demoFile := by decide +kernel

/-- without faults the same call succeeds in place -/
example : (saveM 4 4 [0x61] pad0 1 (zeros 128) {} { data := demoFile }).1 = .ok () ∧
  (saveM 4 4 [0x61] pad0 1 (zeros 128) {} { data := demoFile }).2.data =
    [0x49, 0x44, 0x33, 4, 0, 0, 0, 0, 0, 1, 0x61] ++ demoFile.drop 12 := by decide +kernel

example : (deleteM 4 true true { failAt := fun i => if i = 9 then some .io else none } { data := demoFile }).1
    = .error .mutagen := by decide +kernel

end Mutagen.C06
